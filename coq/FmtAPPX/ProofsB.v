(* FmtAPPX/ProofsB.v — AXPC accumulation of signer and verifier, Directory.Truncate on a directory relic wrote, block map. *)
From Relic Require Import Base.Prelude Base.Enc Generated.C17_gen C17.Model C17.Bytes Generated.FmtAPPX_gen FmtAPPX.Model FmtAPPX.ProofsA.
From Relic Require Generated.C09_gen C09.Model C09.Proofs C09.Properties.

(* ------------------------------------------------------------------ blockMap.AddFile on one member *)
Definition am_listed (m : amember) : bool := appx_addfile_listed (in_names (am_name m) appx_nohash_names) (am_name m).
Definition plain_bfile (m : amember) : bfile :=
  mkBF (zip_to_dos (am_name m)) (zlen (am_out m)) (zlen (am_lfh m)) (map (fun b => mkBB b 0) (C09.Model.chunks 65536 (am_out m))).

Lemma demand_is_eof : addfile_demand = Some ToEOF.
Proof. reflexivity. Qed.

Lemma add_file_appx_ok m s os : am_ok m ->
  add_file_appx m s os = Ok (mkAR (am_extent m) (am_out m) (if am_listed m then Some (plain_bfile m) else None)
                                 (am_listed m && appx_addfile_sizes_unverified (am_method m))).
Proof.
  intros Hok. unfold add_file_appx. change (list_eqb Z.eqb appx_addfile_calls [0; 1; 2; 3; 4; 5; 1]) with true. cbn [negb].
  rewrite demand_is_eof. rewrite (member_read_eof m s Hok). cbn [bind fst snd].
  change (list_eqb Z.eqb appx_addfile_tee_arg [1]) with true. cbv iota.
  change (nth 0 appx_addfile_raw_writes 99) with 0. change (nth 1 appx_addfile_raw_writes 99) with 2.
  unfold raw_piece. cbn [Z.eqb]. change (2 =? 0) with false. change (2 =? 2) with true. cbv iota.
  rewrite C09.Properties.blockmap_split_indep. cbn [C09.Model.r_data].
  change appx_addfile_size_accumulates with true. change appx_addfile_lfhsize_is_len with true. cbv iota.
  unfold am_extent, am_listed, plain_bfile. reflexivity.
Qed.

(* ------------------------------------------------------------------ signer = spec = verifier for AXPC *)
Lemma signer_axpc_spec : forall ms scripts, Forall am_ok ms -> signer_axpc ms scripts = Ok (spec_axpc ms).
Proof.
  induction ms as [|m r IH]; intros scripts Hok; [reflexivity|].
  inversion Hok as [|? ? Ho1 Ho2]; subst.
  cbn [signer_axpc]. rewrite add_file_appx_ok by assumption. cbn [bind ar_raw]. rewrite IH by assumption. reflexivity.
Qed.

Lemma verifier_axpc_spec : forall ms pre post, laid_out (zlen pre) ms ->
  verifier_axpc (pre ++ spec_axpc ms ++ post) ms = spec_axpc ms.
Proof.
  induction ms as [|m r IH]; intros pre post Hl; [reflexivity|].
  cbn [laid_out] in Hl. destruct Hl as [Ho Hr]. cbn [verifier_axpc spec_axpc map concat]. rewrite Ho. unfold am_total.
  f_equal.
  - rewrite <- app_assoc. apply zslice_mid; reflexivity.
  - replace (pre ++ (am_extent m ++ concat (map am_extent r)) ++ post) with ((pre ++ am_extent m) ++ spec_axpc r ++ post)
      by (unfold spec_axpc; now rewrite <- !app_assoc).
    apply IH. rewrite zlen_app. exact Hr.
Qed.

(* ------------------------------------------------------------------ splicing fields of an encoded struct *)
Lemma off_of_nonneg ws : Forall (fun w => 0 <= w) ws -> forall i, 0 <= off_of i ws.
Proof.
  induction ws as [|w ws IH]; intros Hw i; destruct i; cbn [off_of]; try lia.
  inversion Hw; subst. specialize (IH H2 i). lia.
Qed.
Lemma splice_enc_struct : forall ws vs i v, length ws = length vs -> Forall (fun w => 0 <= w) ws -> (i < length ws)%nat ->
  splice (enc_struct ws vs) (off_of i ws, nth i ws 0, v) = enc_struct ws (set_nth i v vs).
Proof.
  induction ws as [|w ws IH]; intros [|x vs] i v Hl Hw Hi; try discriminate; [cbn in Hi; lia|].
  inversion Hw as [|? ? Hw1 Hw2]; subst. rewrite enc_struct_cons. destruct i as [|i]; cbn [off_of nth set_nth].
  - unfold splice. rewrite ztake_0. cbn [app]. rewrite Z.add_0_l. rewrite enc_struct_cons.
    rewrite zdrop_exact_n by (rewrite le_enc_zlen; lia). reflexivity.
  - rewrite enc_struct_cons. rewrite <- (IH vs i v) by (auto; cbn in Hl, Hi; lia).
    pose proof (off_of_nonneg ws Hw2 i) as Ho.
    assert (Hn : 0 <= nth i ws 0).
    { clear -Hw2. revert i. induction ws as [|y ws IHw]; intros [|i]; cbn; try lia; inversion Hw2; subst; auto. }
    unfold splice.
    rewrite ztake_app_r by (rewrite le_enc_zlen; lia). rewrite le_enc_zlen, Z2Nat.id by lia.
    replace (w + off_of i ws - w) with (off_of i ws) by lia.
    rewrite zdrop_app_r by (rewrite le_enc_zlen; lia). rewrite le_enc_zlen, Z2Nat.id by lia.
    replace (w + off_of i ws + nth i ws 0 - w) with (off_of i ws + nth i ws 0) by lia.
    now rewrite <- app_assoc.
Qed.

Lemma end64_updates mv N S O n size cdo :
  splices (enc_struct e64_widths (wd_end64 mv N S O)) (appx_trunc_end64_updates n size cdo) = enc_struct e64_widths (wd_end64 mv n size cdo).
Proof.
  unfold appx_trunc_end64_updates, splices. cbn [fold_left].
  change (e64_off_DiskCDCount, e64_w_DiskCDCount, n) with (off_of 6 e64_widths, nth 6 e64_widths 0, n).
  change (e64_off_TotalCDCount, e64_w_TotalCDCount, n) with (off_of 7 e64_widths, nth 7 e64_widths 0, n).
  change (e64_off_CDSize, e64_w_CDSize, size) with (off_of 8 e64_widths, nth 8 e64_widths 0, size).
  change (e64_off_CDOffset, e64_w_CDOffset, cdo) with (off_of 9 e64_widths, nth 9 e64_widths 0, cdo).
  assert (W : Forall (fun w => 0 <= w) e64_widths) by (unfold e64_widths; repeat constructor; lia).
  unfold wd_end64.
  rewrite splice_enc_struct by (try exact W; cbn; lia). cbn [set_nth].
  rewrite splice_enc_struct by (try exact W; cbn; lia). cbn [set_nth].
  rewrite splice_enc_struct by (try exact W; cbn; lia). cbn [set_nth].
  rewrite splice_enc_struct by (try exact W; cbn; lia). cbn [set_nth].
  reflexivity.
Qed.
Lemma loc_updates X n size cdo :
  splices (enc_struct l64_widths (wd_loc64 X)) (appx_trunc_loc_updates n size cdo) = enc_struct l64_widths (wd_loc64 (cdo + size)).
Proof.
  unfold appx_trunc_loc_updates, splices. cbn [fold_left].
  change (l64_off_Offset, l64_w_Offset, cdo + size) with (off_of 2 l64_widths, nth 2 l64_widths 0, cdo + size).
  assert (W : Forall (fun w => 0 <= w) l64_widths) by (unfold l64_widths; repeat constructor; lia).
  unfold wd_loc64. rewrite splice_enc_struct by (try exact W; cbn; lia). cbn [set_nth]. reflexivity.
Qed.

(* ------------------------------------------------------------------ a cached raw entry is what GetDirectoryHeader returns *)
Lemma set_field_cons_shape ws vs cur off v : ws <> [] -> vs <> [] -> exists x r, set_field ws vs cur off v = x :: r.
Proof. destruct ws, vs; intros; try congruence. cbn. eauto. Qed.
Lemma enc_struct_pos w ws x vs : 0 < w -> 0 < zlen (enc_struct (w :: ws) (x :: vs)).
Proof.
  intros H. rewrite enc_struct_cons, zlen_app, le_enc_zlen, Z2Nat.id by lia. pose proof (zlen_nonneg (enc_struct ws vs)). lia.
Qed.
Lemma regen_header_pos f : 0 < zlen (regen_header f).
Proof.
  unfold regen_header. assert (C : cdh_widths <> []) by (unfold cdh_widths; discriminate).
  set (base := gdh_hdr _ _ _ _ _ _ _ _ _ _ _ _ _ _ _).
  assert (B : base <> []) by (unfold base, gdh_hdr; discriminate).
  destruct (gdh_promote (e_csize f) (e_usize f) (e_offset f)).
  - destruct (set_field_cons_shape cdh_widths base 0 cdh_off_CompressedSize gdh_p_csize C B) as (x1 & r1 & E1). rewrite E1.
    destruct (set_field_cons_shape cdh_widths (x1 :: r1) 0 cdh_off_UncompressedSize gdh_p_usize C ltac:(discriminate)) as (x2 & r2 & E2). rewrite E2.
    destruct (set_field_cons_shape cdh_widths (x2 :: r2) 0 cdh_off_Offset gdh_p_offset C ltac:(discriminate)) as (x3 & r3 & E3). rewrite E3.
    match goal with |- context [set_field cdh_widths (x3 :: r3) 0 cdh_off_ExtraLen ?v] =>
      destruct (set_field_cons_shape cdh_widths (x3 :: r3) 0 cdh_off_ExtraLen v C ltac:(discriminate)) as (x4 & r4 & E4); rewrite E4 end.
    destruct (set_field_cons_shape cdh_widths (x4 :: r4) 0 cdh_off_ReaderVersion gdh_p_reader C ltac:(discriminate)) as (x5 & r5 & E5). rewrite E5.
    rewrite zlen_app. unfold cdh_widths. pose proof (enc_struct_pos 4 [2; 2; 2; 2; 2; 2; 4; 4; 4; 2; 2; 2; 2; 2; 4; 4] x5 r5 ltac:(lia)).
    match goal with |- 0 < _ + zlen ?t => pose proof (zlen_nonneg t) end. lia.
  - destruct base as [|x0 r0]; [congruence|]. rewrite zlen_app. unfold cdh_widths.
    pose proof (enc_struct_pos 4 [2; 2; 2; 2; 2; 2; 4; 4; 4; 2; 2; 2; 2; 2; 4; 4] x0 r0 ltac:(lia)).
    match goal with |- 0 < _ + zlen ?t => pose proof (zlen_nonneg t) end. lia.
Qed.
Lemma dir_header_pos f : 0 < zlen (dir_header f).
Proof.
  unfold dir_header. destruct (gdh_use_raw (zlen (e_raw f))) eqn:E; [unfold gdh_use_raw in E; lia|apply regen_header_pos].
Qed.
Lemma dir_header_written f : dir_header (written_ent f) = dir_header f.
Proof.
  unfold dir_header at 1. unfold written_ent at 1. cbn [e_raw]. pose proof (dir_header_pos f).
  unfold gdh_use_raw. replace (zlen (dir_header f) >? 0) with true by lia. reflexivity.
Qed.
Lemma cd_bytes_written fs : cd_bytes (map written_ent fs) = cd_bytes fs.
Proof. unfold cd_bytes. rewrite map_map. f_equal. apply map_ext. intros. apply dir_header_written. Qed.

(* ------------------------------------------------------------------ Truncate on the directory relic wrote *)
Lemma wd_tail_forced files dirloc :
  wd_tail files dirloc true =
  enc_struct e64_widths (wd_end64 wd_forced_version (zlen files) (zlen (cd_bytes files)) (wd_cdoff dirloc)) ++
  enc_struct l64_widths (wd_loc64 (wd_end64off (wd_cdoff dirloc) (zlen (cd_bytes files)))) ++
  enc_struct eocd_widths wd_end_sat.
Proof.
  unfold wd_tail. unfold wd_need_zip64. rewrite orb_true_r. change (wd_emit_zip64 wd_forced_version) with true. cbv iota.
  change wd_write_order with [3; 1; 2]. cbn [map concat pick find fst snd Z.eqb]. rewrite app_nil_r. reflexivity.
Qed.

Lemma truncate_reread files sg dirloc size :
  truncate_dir (reread_dir (files ++ [sg]) dirloc size) (zlen files) = Ok (cd_bytes files ++ wd_tail files (e_offset sg) true).
Proof.
  unfold truncate_dir, reread_dir. cbn [d_files d_end64 d_loc64 d_end].
  pose proof (zlen_nonneg files) as Hn.
  replace (zlen files <? 0) with false by lia.
  replace (zlen (map written_ent (files ++ [sg])) <=? zlen files) with false
    by (unfold zlen; rewrite map_length, app_length; cbn [length]; lia).
  cbn [orb].
  assert (Hnth : nth (Z.to_nat (zlen files)) (map written_ent (files ++ [sg])) ent0 = written_ent sg).
  { unfold zlen. rewrite Nat2Z.id, map_app. rewrite app_nth2 by (rewrite map_length; lia). rewrite map_length, Nat.sub_diag. reflexivity. }
  rewrite Hnth.
  assert (Htk : ztake (zlen files) (map written_ent (files ++ [sg])) = map written_ent files).
  { rewrite map_app. unfold ztake, zlen. rewrite Nat2Z.id. rewrite <- (map_length written_ent files). rewrite firstn_app, firstn_all, Nat.sub_diag. cbn. apply app_nil_r. }
  rewrite Htk, cd_bytes_written.
  assert (Hz : appx_trunc_is_zip64 (fld e64_off_Signature e64_w_Signature
             (enc_struct e64_widths (wd_end64 wd_forced_version (zlen (files ++ [sg])) (zlen (cd_bytes (files ++ [sg]))) (wd_cdoff dirloc)))) = true).
  { unfold wd_end64, e64_widths. rewrite enc_struct_cons. unfold fld, e64_off_Signature, e64_w_Signature.
    rewrite zslice_0, ztake_exact_n by (rewrite le_enc_zlen; reflexivity). reflexivity. }
  rewrite Hz. rewrite end64_updates, loc_updates.
  change appx_trunc_write_order with [3; 1; 2]. cbn [map concat pick find fst snd Z.eqb]. rewrite app_nil_r.
  rewrite wd_tail_forced. unfold appx_trunc_cd_offset, wd_cdoff, wd_end64off. unfold written_ent at 1 2 3. cbn [e_offset].
  reflexivity.
Qed.

(* no entry to truncate at (no signature in the slicer's directory): d.File[-1] *)
Lemma truncate_without_signature d : truncate_dir d (-1) = Panic P_INDEX.
Proof. reflexivity. Qed.
Lemma truncate_no_panic d n : 0 <= n < zlen (d_files d) -> no_panic (truncate_dir d n).
Proof.
  intros H p. unfold truncate_dir. replace ((n <? 0) || (zlen (d_files d) <=? n)) with false by lia.
  destruct (appx_trunc_is_zip64 _); [discriminate|]. destruct (appx_trunc_too_big _ _); discriminate.
Qed.

(* the signer's AXCD preimage is the specification's *)
Lemma axcd_is_spec files off :
  cd_bytes files ++ wd_tail files off true = spec_axcd (map dir_header files) off.
Proof.
  rewrite wd_tail_forced. unfold spec_axcd, cd_bytes.
  assert (L : zlen (map dir_header files) = zlen files) by (unfold zlen; now rewrite map_length). rewrite L. f_equal.
Qed.

(* ------------------------------------------------------------------ CopySizes against the block map of the input package *)
Lemma copy_blocks_spec : forall chunks bs d,
  copy_blocks (spec_blocks chunks bs d) (map (fun b => mkBB b 0) chunks) = Ok (spec_blocks chunks bs d).
Proof.
  induction chunks as [|c cs IH]; intros bs d; [reflexivity|].
  cbn [spec_blocks map copy_blocks]. rewrite IH. cbn [bind bb_data bb_size]. change appx_copysizes_copies_size with true. reflexivity.
Qed.
Lemma copy_blocks_no_panic : forall olds news, zlen olds <= zlen news -> no_panic (copy_blocks olds news).
Proof.
  induction olds as [|o os IH]; intros news H p; [discriminate|].
  destruct news as [|n ns]; [rewrite zlen_cons in H; change (zlen (@nil bblock)) with 0 in H; pose proof (zlen_nonneg os); lia|].
  cbn [copy_blocks]. rewrite !zlen_cons in H. specialize (IH ns ltac:(lia)).
  destruct (copy_blocks os ns) eqn:E; cbn [bind]; try discriminate. intro X. exact (IH _ eq_refl).
Qed.
Lemma nth_error_mid {A} (pre : list A) x r : nth_error (pre ++ x :: r) (Z.to_nat (zlen pre)) = Some x.
Proof. unfold zlen. rewrite Nat2Z.id. rewrite nth_error_app2 by lia. now rewrite Nat.sub_diag. Qed.
Lemma set_nth_mid {A} (pre : list A) x y r : set_nth (Z.to_nat (zlen pre)) y (pre ++ x :: r) = pre ++ y :: r.
Proof. unfold zlen. rewrite Nat2Z.id. induction pre as [|a pre IH]; [reflexivity|]. cbn [length app set_nth]. now rewrite IH. Qed.

Definition old_skipped (o : bfile) : Prop := appx_copysizes_skip (dos_to_zip (bf_name o)) = true.
Definition not_manifest_like (m : amember) : Prop := appx_copysizes_skip (dos_to_zip (zip_to_dos (am_name m))) = false.

Lemma spec_bfile_name m bs : bf_name (spec_bfile m bs) = zip_to_dos (am_name m).
Proof. reflexivity. Qed.

Lemma copy_sizes_loop_skipped : forall tail i files, Forall old_skipped tail -> copy_sizes_loop tail i files = Ok files.
Proof.
  induction tail as [|o t IH]; intros i files Ht; [reflexivity|].
  inversion Ht as [|? ? Ho Ht']; subst. cbn [copy_sizes_loop]. unfold old_skipped in Ho. rewrite Ho. apply IH. exact Ht'.
Qed.

Lemma copy_sizes_loop_spec : forall ms bss pre tail, length ms = length bss -> Forall not_manifest_like ms -> Forall old_skipped tail ->
  copy_sizes_loop (map (fun p => spec_bfile (fst p) (snd p)) (combine ms bss) ++ tail) (zlen pre) (pre ++ map plain_bfile ms) =
  Ok (pre ++ map (fun p => spec_bfile (fst p) (snd p)) (combine ms bss)).
Proof.
  induction ms as [|m r IH]; intros bss pre tail Hl Hn Ht.
  - destruct bss; [|discriminate]. cbn [combine map app]. rewrite app_nil_r. apply copy_sizes_loop_skipped. exact Ht.
  - destruct bss as [|bs bss]; [discriminate|]. inversion Hn as [|? ? Hn1 Hn2]; subst.
    cbn [combine map app fst snd copy_sizes_loop]. rewrite spec_bfile_name. unfold not_manifest_like in Hn1. rewrite Hn1.
    assert (Hlen : zlen (pre ++ plain_bfile m :: map plain_bfile r) = zlen pre + 1 + zlen (map plain_bfile r)) by (rewrite zlen_app, zlen_cons; lia).
    unfold appx_copysizes_too_many. rewrite Hlen. pose proof (zlen_nonneg (map plain_bfile r)).
    replace (zlen pre >=? zlen pre + 1 + zlen (map plain_bfile r)) with false by lia.
    rewrite nth_error_mid. unfold appx_copysizes_name_differs. cbn [plain_bfile bf_name]. rewrite bytes_eqb_refl. cbn [negb].
    unfold appx_copysizes_more_blocks. cbn [spec_bfile bf_blocks].
    assert (Hsb : forall cs b d, zlen (spec_blocks cs b d) = zlen cs).
    { induction cs as [|c cs IHc]; intros b d; [reflexivity|]. cbn [spec_blocks]. rewrite !zlen_cons. now rewrite IHc. }
    rewrite Hsb. cbn [plain_bfile bf_blocks bf_size bf_lfh].
    assert (Hml : zlen (map (fun b => mkBB b 0) (C09.Model.chunks 65536 (am_out m))) = zlen (C09.Model.chunks 65536 (am_out m)))
      by (unfold zlen; now rewrite map_length).
    rewrite Hml.
    replace (zlen (C09.Model.chunks 65536 (am_out m)) >? zlen (C09.Model.chunks 65536 (am_out m))) with false by lia.
    rewrite copy_blocks_spec. cbn [bind]. rewrite set_nth_mid.
    replace (pre ++ mkBF (zip_to_dos (am_name m)) (zlen (am_out m)) (zlen (am_lfh m)) (spec_blocks (C09.Model.chunks 65536 (am_out m)) bs (negb (am_method m =? 0))) :: map plain_bfile r)
      with ((pre ++ [spec_bfile m bs]) ++ map plain_bfile r).
    2:{ rewrite <- app_assoc. reflexivity. }
    replace (zlen pre + 1) with (zlen (pre ++ [spec_bfile m bs])) by (rewrite zlen_app; reflexivity).
    rewrite IH by (try assumption; cbn in Hl; lia). rewrite <- app_assoc. reflexivity.
Qed.

(* CopySizes never indexes out of range *)
Lemma copy_sizes_loop_no_panic : forall olds i files, 0 <= i -> no_panic (copy_sizes_loop olds i files).
Proof.
  induction olds as [|o r IH]; intros i files Hi p; [discriminate|].
  cbn [copy_sizes_loop]. destruct (appx_copysizes_skip _); [apply IH; lia|].
  destruct (appx_copysizes_too_many i (zlen files)) eqn:Et; [discriminate|].
  unfold appx_copysizes_too_many in Et.
  destruct (nth_error files (Z.to_nat i)) as [nf|] eqn:En.
  - destruct (appx_copysizes_name_differs _ _); [discriminate|].
    destruct (appx_copysizes_more_blocks _ _) eqn:Em; [discriminate|]. unfold appx_copysizes_more_blocks in Em.
    pose proof (copy_blocks_no_panic (bf_blocks o) (bf_blocks nf) ltac:(lia)) as Hc.
    destruct (copy_blocks (bf_blocks o) (bf_blocks nf)) eqn:Ec; cbn [bind]; try discriminate.
    + apply IH. lia.
    + exfalso. exact (Hc _ eq_refl).
  - exfalso. apply nth_error_None in En. unfold zlen in Et. lia.
Qed.
