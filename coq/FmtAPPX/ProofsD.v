(* FmtAPPX/ProofsD.v — the verifier's side: the five digests recomputed from a package relic signed; verifyBlockMap's walk over
   it; DigestAppxTar establishes the invariant Sign starts from; what a re-sign keeps and what it replaces. *)
From Relic Require Import Base.Prelude Base.Enc Generated.C17_gen C17.Model C17.Bytes Generated.FmtAPPX_gen FmtAPPX.Model FmtAPPX.ProofsA FmtAPPX.ProofsB FmtAPPX.ProofsC.
From Relic Require Generated.C09_gen C09.Model C09.Proofs C09.Properties.

(* ------------------------------------------------------------------ counting and walking 64 KiB blocks *)
Lemma zlen_zdrop_gen {A} n (l : list A) : 0 <= n -> zlen (zdrop n l) = Z.max 0 (zlen l - n).
Proof. intros H. unfold zlen, zdrop. rewrite skipn_length. lia. Qed.

Lemma chunks_count B : 0 < B -> forall n l, (length l <= n)%nat -> zlen (C09.Model.chunks B l) = (zlen l + B - 1) ÷ B.
Proof.
  intros HB. induction n as [|n IH]; intros l Hl.
  - destruct l; [|cbn in Hl; lia]. rewrite C09.Proofs.chunks_nil. change (zlen (@nil Z)) with 0. change (zlen (@nil bytes)) with 0.
    rewrite Z.quot_small; lia.
  - destruct l as [|x t]; [rewrite C09.Proofs.chunks_nil; change (zlen (@nil Z)) with 0; change (zlen (@nil bytes)) with 0; rewrite Z.quot_small; lia|].
    rewrite (C09.Proofs.chunks_step B HB) by discriminate. rewrite zlen_cons.
    assert (Hd : (length (zdrop B (x :: t)) <= n)%nat).
    { unfold zdrop. rewrite skipn_length. cbn [length] in *. lia. }
    rewrite (IH _ Hd). rewrite zlen_zdrop_gen by lia. set (k := zlen (x :: t)).
    assert (Hk : 0 < k) by (unfold k; rewrite zlen_cons; pose proof (zlen_nonneg t); lia).
    rewrite !Z.quot_div_nonneg by lia.
    destruct (Z_le_gt_dec k B).
    + replace (Z.max 0 (k - B)) with 0 by lia. replace ((0 + B - 1) / B) with 0 by (symmetry; apply Z.div_small; lia).
      replace ((k + B - 1) / B) with 1; [lia|]. apply Z.div_unique with (r := k - 1); lia.
    + replace (Z.max 0 (k - B)) with (k - B) by lia.
      replace (k + B - 1) with ((k - B + B - 1) + 1 * B) by lia. rewrite Z.div_add by lia. lia.
Qed.

Section Walk.
  Variable Hv : bytes -> bytes.
  Lemma vbm_blocks_ok : forall (bl : list bblock) data, map bb_data bl = C09.Model.chunks 65536 data ->
    vbm_blocks Hv (map (fun b => (Hv (bb_data b), bb_size b)) bl) data (zlen data) = Ok 0.
  Proof.
    assert (HB : 0 < 65536) by lia.
    induction bl as [|b r IH]; intros data Hc.
    - destruct data as [|x t]; [reflexivity|]. rewrite (C09.Proofs.chunks_step 65536 HB) in Hc by discriminate. discriminate.
    - destruct data as [|x t]; [rewrite C09.Proofs.chunks_nil in Hc; discriminate|].
      rewrite (C09.Proofs.chunks_step 65536 HB) in Hc by discriminate. cbn [map] in Hc. injection Hc as Hb Hr.
      cbn [map vbm_blocks]. set (data := x :: t) in *. unfold C09_gen.bm_verify_clip, C09_gen.blockMapSize.
      assert (Hpos : 0 < zlen data) by (unfold data; rewrite zlen_cons; pose proof (zlen_nonneg t); lia).
      destruct (zlen data >? 65536) eqn:E.
      + replace (zlen data <? 65536) with false by lia. rewrite Hb, bytes_eqb_refl. cbn [negb].
        assert (X : zlen (zdrop 65536 data) = zlen data - 65536) by (rewrite zlen_zdrop; lia).
        rewrite <- X. apply IH. exact Hr.
      + replace (zlen data <? zlen data) with false by lia.
        assert (Et : ztake (zlen data) data = ztake 65536 data) by (rewrite !ztake_all; [reflexivity|lia|lia]).
        rewrite Et, Hb, bytes_eqb_refl. cbn [negb].
        assert (Ed : zdrop (zlen data) data = zdrop 65536 data) by (rewrite !zdrop_all; [reflexivity|lia|lia]).
        rewrite Ed. assert (X : zlen (zdrop 65536 data) = zlen data - zlen data) by (rewrite zdrop_all; [change (zlen (@nil Z)) with 0; lia|lia]).
        rewrite <- X. apply IH. exact Hr.
  Qed.

  (* a block map entry that describes a member *)
  Definition describes (m : amember) (f : bfile) : Prop :=
    bf_name f = zip_to_dos (am_name m) /\ bf_size f = zlen (am_out m) /\ map bb_data (bf_blocks f) = C09.Model.chunks 65536 (am_out m).
  Definition vpfile (f : bfile) : pfile := mkPF (bf_name f) (bf_size f) (map (fun b => (Hv (bb_data b), bb_size b)) (bf_blocks f)).

  Lemma vbm_walk_ok : forall ms fs extra, Forall am_ok ms ->
    Forall (fun m => appx_vbm_skips (in_names (am_name m) appx_nohash_names) false (am_name m) = negb (am_listed m)) ms ->
    Forall2 describes (filter am_listed ms) fs ->
    vbm_walk Hv ms false (map vpfile fs ++ extra) = Ok tt.
  Proof.
    induction ms as [|m r IH]; intros fs extra Hok Hsk Hd; [reflexivity|].
    inversion Hok as [|? ? Ho1 Ho2]; subst. inversion Hsk as [|? ? Hs1 Hs2]; subst.
    cbn [vbm_walk filter] in *. rewrite Hs1. destruct (am_listed m) eqn:El; cbn [negb].
    - inversion Hd as [|? f ? fs' (Dn & Ds & Db) Hd']; subst. cbn [map app].
      unfold appx_vbm_unhashed. rewrite zlen_cons. pose proof (zlen_nonneg (map vpfile fs' ++ extra)).
      replace (1 + zlen (map vpfile fs' ++ extra) =? 0) with false by lia.
      destruct Ho1 as (_ & _ & Hu & _).
      unfold appx_vbm_name_differs, appx_vbm_size_differs. cbn [vpfile pf_name pf_size pf_blocks].
      rewrite Dn, bytes_eqb_refl. cbn [negb]. rewrite Ds, Hu, Z.eqb_refl. cbn [negb].
      unfold C09_gen.bm_count_bad.
      assert (Hc : zlen (map (fun b => (Hv (bb_data b), bb_size b)) (bf_blocks f)) = (zlen (am_out m) + 65536 - 1) ÷ 65536).
      { unfold zlen at 1. rewrite map_length. rewrite <- (map_length bb_data). fold (zlen (map bb_data (bf_blocks f))). rewrite Db.
        apply (chunks_count 65536 ltac:(lia) (length (am_out m))). lia. }
      rewrite Hc, Z.eqb_refl. cbn [negb].
      rewrite (vbm_blocks_ok _ _ Db). cbn [bind]. unfold appx_vbm_data_left. replace (0 >? 0) with false by lia.
      apply IH; assumption.
    - apply IH; assumption.
  Qed.
End Walk.

(* ------------------------------------------------------------------ the five digests recomputed from the signed file *)
Section VerifyDigests.
  Variable H : bytes -> bytes.
  Variable deflate : bytes -> bytes.
  Variable crc32 : bytes -> Z.
  Variable ser_bm : list bfile -> bytes.
  Variable ser_ct : ctypes -> bytes.
  Variable repub : bytes -> bytes.
  Variable mkcat : bytes.
  Variable mksig : bytes -> bytes.

  Theorem sign_then_verify_digests st man sg hs : dinv st -> di_manifest st = Some man -> di_unverified st = false ->
    (forall x, zlen (H x) = hs) -> 0 < hs ->
    sign_appx H deflate crc32 ser_bm ser_ct repub mkcat mksig st = Ok sg ->
    let file := spec_axpc (sg_members sg) ++ sg_directory sg in
    exists front sigm dm dirb,
      sg_members sg = front ++ [sigm] /\ am_name sigm = appx_n_signature /\ am_out sigm = appx_pkcx_magic ++ mksig (sg_blob sg) /\
      blob_parse hs (sg_blob sg) = Ok dm /\
      truncate_dir (reread_dir (sg_files sg) (sg_dirloc sg) (zlen file)) (zlen front) = Ok dirb /\
      dm_get T_AXPC dm = Some (H (verifier_axpc file front)) /\
      dm_get T_AXCD dm = Some (H dirb) /\
      (exists mB, In mB front /\ am_name mB = appx_n_blockmap /\ dm_get T_AXBM dm = Some (H (am_out mB)) /\ am_out mB = ser_bm (sg_bm sg)) /\
      (exists mC, In mC front /\ am_name mC = appx_n_contenttypes /\ dm_get T_AXCT dm = Some (H (am_out mC))) /\
      match sg_axci sg with
      | Some _ => exists mK, In mK front /\ am_name mK = appx_n_codeintegrity /\ dm_get T_AXCI dm = Some (H (am_out mK))
      | None => dm_get T_AXCI dm = None
      end.
  Proof.
    intros Hd Hman Hunv Hlen Hhs Hs file.
    destruct (sign_shape H deflate crc32 ser_bm ser_ct repub mkcat mksig st man sg Hd Hman Hunv Hs)
      as (front & sigm & mB & mC & Em & _ & Fok & Fl & Ef & Eo & Ns & Os & Eaxpc & Eaxcd & InB & NB & OB & EB & InC & NC & OC & HK & Eblob & Edir & _ & _ & _).
    set (axci := match sg_axci sg with Some c => H c | None => [] end) in *.
    assert (Hci : zlen axci = 0 \/ zlen axci = hs) by (unfold axci; destruct (sg_axci sg); [right; apply Hlen|left; reflexivity]).
    pose proof (blob_roundtrip hs _ _ _ _ axci ltac:(lia) (Hlen (sg_axpc sg)) (Hlen (sg_axcd sg)) (Hlen (sg_axct sg)) (Hlen (sg_axbm sg)) Hci) as Hrt.
    rewrite <- Eblob in Hrt.
    destruct (canon_lookup (H (sg_axpc sg)) (H (sg_axcd sg)) (H (sg_axct sg)) (H (sg_axbm sg)) axci) as (L1 & L2 & L3 & L4 & L5).
    exists front, sigm, (canon_records (H (sg_axpc sg)) (H (sg_axcd sg)) (H (sg_axct sg)) (H (sg_axbm sg)) axci),
           (cd_bytes (map am_ent front) ++ wd_tail (map am_ent front) (e_offset (am_ent sigm)) true).
    split; [exact Em|]. split; [exact Ns|]. split; [exact Os|]. split; [exact Hrt|].
    split.
    { rewrite Ef, map_app. cbn [map]. replace (zlen front) with (zlen (map am_ent front)) by (unfold zlen; now rewrite map_length). apply truncate_reread. }
    split.
    { rewrite L1. f_equal. f_equal. unfold file. rewrite Em, spec_axpc_app, <- app_assoc.
      change (spec_axpc front ++ spec_axpc [sigm] ++ sg_directory sg) with ([] ++ spec_axpc front ++ spec_axpc [sigm] ++ sg_directory sg).
      rewrite (verifier_axpc_spec front [] _ Fl). exact Eaxpc. }
    split; [rewrite L2, Eaxcd; reflexivity|].
    split; [exists mB; rewrite OB, <- EB; auto|].
    split; [exists mC; rewrite OC; auto|].
    rewrite L5. unfold axci. destruct (sg_axci sg) as [c|].
    - destruct HK as (mK & InK & NK & OK). exists mK. rewrite OK. replace (zlen (H c) =? 0) with false by (rewrite Hlen; lia). auto.
    - reflexivity.
  Qed.

  (* C03: the signed package = the kept members as they were, then the regenerated footprint; the file in front of the patch is
     the input's; the patch starts where the input's first footprint member started *)
  Theorem payload_kept st man sg : dinv st -> di_manifest st = Some man -> di_unverified st = false ->
    sign_appx H deflate crc32 ser_bm ser_ct repub mkcat mksig st = Ok sg ->
    exists mM midr sigm, sg_members sg = di_kept st ++ (mM :: midr) ++ [sigm] /\ am_name mM = appx_n_manifest /\ am_name sigm = appx_n_signature /\
      e_offset (am_ent mM) = zlen (spec_axpc (di_kept st)) /\
      ztake (zlen (spec_axpc (di_kept st))) (spec_axpc (sg_members sg) ++ sg_directory sg) = spec_axpc (di_kept st) /\
      sg_patch_start sg = di_patch_start st /\
      spec_axpc (sg_members sg) ++ sg_directory sg = spec_axpc (di_kept st) ++ sg_patch sg.
  Proof.
    intros Hd Hman Hunv Hs.
    destruct (sign_shape H deflate crc32 ser_bm ser_ct repub mkcat mksig st man sg Hd Hman Hunv Hs)
      as (front & sigm & mB & mC & Em & _ & _ & _ & _ & _ & Ns & _ & _ & _ & _ & _ & _ & _ & _ & _ & _ & _ & _ & _ & _ & Eps & (mM & midr & Ef & NM & OM)).
    exists mM, midr, sigm. rewrite Em, Ef, <- !app_assoc. repeat split; auto.
    - rewrite spec_axpc_app, <- app_assoc. apply ztake_app_exact.
    - (* the patch is everything behind the kept members *)
      unfold sign_appx in Hs.
      match type of Hs with (if negb ?c then _ else _) = _ => change c with true in Hs end. cbn [negb] in Hs.
      rewrite Hman in Hs. change (appx_manifest_is_package false) with true in Hs. cbv iota in Hs.
      destruct (add_zip_entry deflate crc32 appx_n_manifest (repub man) (di_mtime st) _) as [s1| |]; cbn [bind] in Hs; try discriminate.
      destruct (appx_marshal_refuses (di_unverified st)); [discriminate|].
      destruct (add_zip_entry deflate crc32 appx_n_blockmap _ (di_mtime st) s1) as [s2| |]; cbn [bind] in Hs; try discriminate.
      destruct (add_zip_entry deflate crc32 appx_n_contenttypes _ (di_mtime st) s2) as [s3| |]; cbn [bind] in Hs; try discriminate.
      destruct (if appx_no_catalog (di_npe st) then Ok s3 else add_zip_entry deflate crc32 appx_n_codeintegrity mkcat (di_mtime st) s3) as [s4| |]; cbn [bind] in Hs; try discriminate.
      destruct (add_zip_entry deflate crc32 appx_n_signature _ (di_mtime st) s4) as [s5| |]; cbn [bind] in Hs; try discriminate.
      injection Hs as <-. cbn [sg_members sg_directory sg_patch] in *.
      rewrite Ef, <- app_assoc in Em. apply app_inv_head in Em. rewrite <- Em.
      rewrite spec_axpc_app, <- app_assoc. unfold spec_axpc at 2. reflexivity.
  Qed.
End VerifyDigests.

(* ------------------------------------------------------------------ DigestAppxTar's first loop *)
Definition not_footprint (m : amember) : Prop := in_names (am_name m) appx_footprint_names = false.
Definition unverified_of (ms : list amember) : bool := existsb (fun m => am_listed m && appx_addfile_sizes_unverified (am_method m)) ms.
Definition npe_of (ms : list amember) : Z := fold_left (fun a m => a + (if is_pe (am_name m) then 2 else 0)) ms 0.
Definition bm_of (ms : list amember) : list bfile := map plain_bfile (filter am_listed ms).

Lemma ent_eta f : mkEnt (e_creator f) (e_reader f) (e_flags f) (e_method f) (e_mtime f) (e_mdate f) (e_crc f) (e_csize f) (e_usize f)
                        (e_name f) (e_extra f) (e_comment f) (e_iattrs f) (e_eattrs f) (e_offset f) (e_raw f) = f.
Proof. destruct f. reflexivity. Qed.

Lemma am_total_go_ok m : am_ok m -> am_total_go m = am_total m.
Proof. intros (_ & Hc & _). unfold am_total_go, am_total, am_extent. rewrite Hc, !zlen_app. lia. Qed.

(* the kept prefix: digested, appended to the output directory at the same offsets, until the first footprint member *)
Lemma digest_copy_prefix : forall kept f rest size pos st scripts,
  Forall am_ok kept -> Forall not_footprint kept -> laid_out pos kept ->
  in_names (am_name f) appx_footprint_names = true -> e_offset (am_ent f) = pos + zlen (spec_axpc kept) ->
  di_dirloc st = pos ->
  exists st', digest_copy (kept ++ f :: rest) size pos st scripts = Ok (st', f :: rest) /\
    di_kept st' = di_kept st ++ kept /\ di_axpc st' = di_axpc st ++ spec_axpc kept /\
    di_files st' = di_files st ++ map am_ent kept /\ di_dirloc st' = pos + zlen (spec_axpc kept) /\
    di_bm st' = di_bm st ++ bm_of kept /\ di_patch_start st' = e_offset (am_ent f) /\ di_patch_len st' = size - e_offset (am_ent f) /\
    di_manifest st' = di_manifest st /\ di_bundle st' = di_bundle st /\ di_ct st' = di_ct st.
Proof.
  induction kept as [|m r IH]; intros f rest size pos st scripts Hok Hnf Hl Hf Ho Hd.
  - cbn [app digest_copy]. rewrite Hf. unfold appx_footprint_gap. cbn [spec_axpc map concat] in Ho. change (zlen (@nil Z)) with 0 in Ho.
    rewrite Ho, Z.add_0_r, Z.eqb_refl. cbn [negb]. eexists. split; [reflexivity|].
    cbn [di_kept di_axpc di_files di_dirloc di_bm di_patch_start di_patch_len di_manifest di_bundle di_ct spec_axpc map concat bm_of filter].
    unfold appx_patch_start, appx_patch_len. rewrite !app_nil_r. change (zlen (@nil Z)) with 0. rewrite Z.add_0_r. repeat split; auto.
  - pose proof (Forall_inv Hok) as Ho1. pose proof (Forall_inv_tail Hok) as Ho2.
    pose proof (Forall_inv Hnf) as Hn1. pose proof (Forall_inv_tail Hnf) as Hn2.
    cbn [laid_out] in Hl. destruct Hl as [Hl1 Hl2].
    cbn [app digest_copy]. unfold not_footprint in Hn1. rewrite Hn1.
    rewrite add_file_appx_ok by assumption. cbn [bind ar_raw ar_file ar_unverified]. rewrite Hl1, Z.eqb_refl. cbn [negb].
    rewrite (am_total_go_ok m Ho1).
    set (st1 := mkDI _ _ _ _ _ _ _ _ _ _ _ _ _).
    assert (Ef : fst (add_file (di_files st) (di_dirloc st) (am_ent m) (am_total m)) = di_files st ++ [am_ent m]).
    { unfold add_file. cbn [fst]. change (af_offset (di_dirloc st)) with (di_dirloc st). rewrite Hd, <- Hl1.
      unfold af_drop_raw. rewrite Z.eqb_refl. cbn [negb]. now rewrite ent_eta. }
    assert (Es : snd (add_file (di_files st) (di_dirloc st) (am_ent m) (am_total m)) = pos + am_total m).
    { unfold add_file. cbn [snd]. change af_advances_dirloc with true. cbv iota. now rewrite Hd. }
    destruct (IH f rest size (pos + am_total m) st1 (tl scripts) Ho2 Hn2 Hl2 Hf) as (st' & E & K1 & K2 & K3 & K4 & K5 & K6 & K7 & K8 & K9 & K10).
    { rewrite Ho. unfold spec_axpc. cbn [map concat]. rewrite zlen_app. unfold am_total. lia. }
    { unfold st1. cbn [di_dirloc]. exact Es. }
    exists st'. split; [exact E|].
    unfold st1 in K1, K2, K3, K5, K8, K9, K10. cbn [di_kept di_axpc di_files di_bm di_manifest di_bundle di_ct] in K1, K2, K3, K5, K8, K9, K10.
    rewrite Ef in K3.
    repeat split; auto.
    + rewrite K1, <- app_assoc. reflexivity.
    + rewrite K2, <- app_assoc. unfold spec_axpc. cbn [map concat]. reflexivity.
    + rewrite K3, <- app_assoc. reflexivity.
    + rewrite K4. unfold spec_axpc. cbn [map concat]. rewrite zlen_app. unfold am_total. lia.
    + rewrite K5. unfold bm_of. cbn [filter]. destruct (am_listed m); cbn [map]; rewrite <- ?app_assoc; reflexivity.
Qed.

(* the second loop reads and parses footprint members only: what the first loop established stays *)
Section Footprint.
  Variable parse_bm : bytes -> option (list bfile).
  Variable parse_ct : bytes -> option ctypes.
  Lemma digest_footprint_keeps : forall ms st st', digest_footprint parse_bm parse_ct ms st = Ok st' ->
    di_kept st' = di_kept st /\ di_axpc st' = di_axpc st /\ di_files st' = di_files st /\ di_dirloc st' = di_dirloc st /\
    di_npe st' = di_npe st /\ di_patch_start st' = di_patch_start st /\ di_patch_len st' = di_patch_len st.
  Proof.
    induction ms as [|m r IH]; intros st st' Hs.
    - cbn in Hs. injection Hs as <-. repeat split.
    - cbn [digest_footprint] in Hs. destruct (member_read m ToEOF []) as [x| |]; cbn [bind] in Hs; try discriminate.
      destruct (footprint_action (am_name m) =? 0); [apply IH in Hs; cbn in Hs; exact Hs|].
      destruct (footprint_action (am_name m) =? 1); [apply IH in Hs; cbn in Hs; exact Hs|].
      destruct (footprint_action (am_name m) =? 2).
      { destruct (parse_bm (snd x)); [|discriminate]. destruct (copy_sizes l (di_bm st)); cbn [bind] in Hs; try discriminate. apply IH in Hs; cbn in Hs; exact Hs. }
      destruct (footprint_action (am_name m) =? 3).
      { destruct (parse_ct (snd x)); [|discriminate]. apply IH in Hs; cbn in Hs; exact Hs. }
      destruct (footprint_action (am_name m) =? 4); [apply IH in Hs; exact Hs|discriminate].
  Qed.

  (* DigestAppxTar on a package = well-formed payload members lying back to back from offset 0, then the footprint *)
  Theorem digest_appx_establishes : forall kept f rest size scripts st,
    Forall am_ok kept -> Forall not_footprint kept -> laid_out 0 kept ->
    in_names (am_name f) appx_footprint_names = true -> e_offset (am_ent f) = zlen (spec_axpc kept) ->
    digest_appx parse_bm parse_ct (kept ++ f :: rest) size scripts = Ok st ->
    dinv st /\ di_kept st = kept /\ di_patch_start st = e_offset (am_ent f) /\ di_patch_len st = size - e_offset (am_ent f).
  Proof.
    intros kept f rest size scripts st Hok Hnf Hl Hf Ho Hs. unfold digest_appx in Hs.
    change (list_eqb Z.eqb appx_digest_calls [0; 1; 2; 3; 4; 5]) with true in Hs. cbn [negb] in Hs.
    destruct (digest_copy_prefix kept f rest size 0 di_init scripts Hok Hnf Hl Hf ltac:(rewrite Ho; lia) eq_refl)
      as (st1 & E & K1 & K2 & K3 & K4 & K5 & K6 & K7 & _).
    rewrite E in Hs. cbn [bind fst snd] in Hs. change appx_footprint_starts_after_kept with true in Hs. cbv iota in Hs.
    destruct (digest_footprint parse_bm parse_ct (f :: rest) st1) as [st2| |] eqn:E2; cbn [bind] in Hs; try discriminate.
    destruct (appx_missing_manifest _ _); [discriminate|]. injection Hs as <-.
    destruct (digest_footprint_keeps _ _ _ E2) as (F1 & F2 & F3 & F4 & _ & F6 & F7).
    cbn [di_init di_kept di_axpc di_files app] in K1, K2, K3. cbn in K4.
    unfold dinv. rewrite F1, F2, F3, F4, F6, F7, K1, K2, K3, K4, K6, K7. repeat split; auto.
  Qed.
End Footprint.

(* ------------------------------------------------------------------ C08: what a re-sign sees *)
(* two packages with the same payload prefix and the first footprint member at the same place — in particular a package and what
   relic made of it by signing — leave the first loop with the same kept members, AXPC preimage, output directory, block map
   entries and patch start: nothing of an existing signature, block map, content types or catalog enters them *)
Theorem digest_ignores_footprint : forall kept f1 rest1 f2 rest2 size1 size2 scripts1 scripts2,
  Forall am_ok kept -> Forall not_footprint kept -> laid_out 0 kept ->
  in_names (am_name f1) appx_footprint_names = true -> in_names (am_name f2) appx_footprint_names = true ->
  e_offset (am_ent f1) = zlen (spec_axpc kept) -> e_offset (am_ent f2) = zlen (spec_axpc kept) ->
  exists s1 s2, digest_copy (kept ++ f1 :: rest1) size1 0 di_init scripts1 = Ok (s1, f1 :: rest1) /\
                digest_copy (kept ++ f2 :: rest2) size2 0 di_init scripts2 = Ok (s2, f2 :: rest2) /\
                di_kept s1 = kept /\ di_kept s2 = kept /\ di_axpc s1 = di_axpc s2 /\ di_axpc s1 = spec_axpc kept /\ di_files s1 = di_files s2 /\
                di_dirloc s1 = di_dirloc s2 /\ di_bm s1 = di_bm s2 /\ di_patch_start s1 = di_patch_start s2.
Proof.
  intros kept f1 rest1 f2 rest2 size1 size2 sc1 sc2 Hok Hnf Hl H1 H2 O1 O2.
  destruct (digest_copy_prefix kept f1 rest1 size1 0 di_init sc1 Hok Hnf Hl H1 ltac:(rewrite O1; lia) eq_refl) as (s1 & E1 & A1 & A2 & A3 & A4 & A5 & A6 & _).
  destruct (digest_copy_prefix kept f2 rest2 size2 0 di_init sc2 Hok Hnf Hl H2 ltac:(rewrite O2; lia) eq_refl) as (s2 & E2 & B1 & B2 & B3 & B4 & B5 & B6 & _).
  exists s1, s2. cbn [di_init di_kept di_axpc di_files di_bm app] in *. repeat split; auto; congruence.
Qed.

(* ------------------------------------------------------------------ C02: what AXPC and AXCD cover, and what they do not *)
Lemma verifier_axpc_is_prefix front post : laid_out 0 front ->
  verifier_axpc (spec_axpc front ++ post) front = ztake (zlen (spec_axpc front)) (spec_axpc front ++ post).
Proof.
  intros Hl. change (spec_axpc front ++ post) with ([] ++ spec_axpc front ++ post) at 1.
  rewrite (verifier_axpc_spec front [] post Hl). symmetry. apply ztake_app_exact.
Qed.
(* where the directory lies (and therefore anything between the signature member and the directory) is not covered *)
Lemma truncate_ignores_directory_position files sg d1 s1 d2 s2 :
  truncate_dir (reread_dir (files ++ [sg]) d1 s1) (zlen files) = truncate_dir (reread_dir (files ++ [sg]) d2 s2) (zlen files).
Proof. now rewrite !truncate_reread. Qed.
