(* FmtAPPX/ProofsA.v — the digest blob (marshal / parse / spec reader) and the tee underneath the inflater. *)
From Relic Require Import Base.Prelude Base.Enc Generated.C17_gen C17.Model C17.Bytes Generated.FmtAPPX_gen FmtAPPX.Model.
From Relic Require Generated.C09_gen C09.Model.

(* ------------------------------------------------------------------ small facts *)
Lemma bytes_eqb_refl a : bytes_eqb a a = true.
Proof. apply list_eqb_Z_eq. reflexivity. Qed.
Lemma bytes_eqb_eq a b : bytes_eqb a b = true <-> a = b.
Proof. apply list_eqb_Z_eq. Qed.
Lemma zlen_ztake_le {A} n (l : list A) : zlen (ztake n l) <= zlen l.
Proof. unfold zlen, ztake. rewrite firstn_length. lia. Qed.
Lemma zlen_ztake_min {A} n (l : list A) : 0 <= n -> zlen (ztake n l) = Z.min n (zlen l).
Proof. intros H. unfold zlen, ztake. rewrite firstn_length. lia. Qed.
Lemma has_prefix_len p l : has_prefix p l = true -> zlen p <= zlen l.
Proof.
  unfold has_prefix. intros H. apply bytes_eqb_eq in H. rewrite <- H at 1. apply zlen_ztake_le.
Qed.
Lemma has_prefix_split p l : has_prefix p l = true -> l = p ++ zdrop (zlen p) l.
Proof.
  unfold has_prefix. intros H. apply bytes_eqb_eq in H. rewrite <- H at 1. symmetry. apply ztake_zdrop.
Qed.
Lemma has_prefix_app p r : has_prefix p (p ++ r) = true.
Proof. unfold has_prefix. rewrite ztake_app_exact. apply bytes_eqb_refl. Qed.

Lemma cslice_ok lo hi l : 0 <= lo <= hi -> hi <= zlen l -> cslice lo hi l = Ok (zslice lo hi l).
Proof.
  intros H1 H2. unfold cslice. replace (hi =? -1) with false by lia.
  replace ((0 <=? lo) && (lo <=? hi) && (hi <=? zlen l)) with true by lia. reflexivity.
Qed.
Lemma cslice_open lo l : 0 <= lo <= zlen l -> cslice lo (-1) l = Ok (zdrop lo l).
Proof.
  intros H. unfold cslice. replace (-1 =? -1) with true by reflexivity. cbv iota.
  replace ((0 <=? lo) && (lo <=? zlen l) && (zlen l <=? zlen l)) with true by lia.
  f_equal. unfold zslice. apply ztake_all. rewrite zlen_zdrop by lia. lia.
Qed.

(* ------------------------------------------------------------------ marshal *)
Lemma blob_marshal_eq axpc axcd axct axbm axci :
  blob_marshal axpc axcd axct axbm axci =
  T_APPX ++ T_AXPC ++ axpc ++ T_AXCD ++ axcd ++ T_AXCT ++ axct ++ T_AXBM ++ axbm ++ (if zlen axci =? 0 then [] else T_AXCI ++ axci).
Proof.
  unfold blob_marshal, appx_blob_program. cbn [map concat blob_item blob_src hd Z.eqb andb negb].
  unfold appx_blob_axci_present. destruct (zlen axci =? 0); cbn [negb andb Z.eqb blob_src hd];
    rewrite ?app_nil_r; repeat rewrite <- app_assoc; reflexivity.
Qed.

(* ------------------------------------------------------------------ parse: one record, then lists of records *)
Definition rec_ok (hs : Z) (r : bytes * bytes) : Prop := zlen (fst r) = 4 /\ zlen (snd r) = hs.
Definition rec_bytes (r : bytes * bytes) : bytes := fst r ++ snd r.

Lemma blob_loop_step k hs t v rest acc : 0 <= hs -> zlen t = 4 -> zlen v = hs ->
  blob_loop (S k) hs (t ++ v ++ rest) acc = blob_loop k hs rest (acc ++ [(t, v)]).
Proof.
  intros Hh Ht Hv. cbn [blob_loop].
  assert (L : zlen (t ++ v ++ rest) = 4 + hs + zlen rest) by (rewrite !zlen_app; lia).
  pose proof (zlen_nonneg rest) as Hr.
  unfold appx_parse_more, appx_parse_short, appx_parse_name_lo, appx_parse_name_hi, appx_parse_value_lo, appx_parse_value_hi,
    appx_parse_next_lo, appx_parse_next_hi.
  rewrite L. replace (4 + hs + zlen rest >? 0) with true by lia. cbn [negb].
  replace (4 + hs + zlen rest <? 4 + hs) with false by lia.
  rewrite (cslice_ok 0 4) by lia. cbn [bind].
  rewrite (cslice_ok 4 (4 + hs)) by lia. cbn [bind].
  rewrite cslice_open by lia. cbn [bind].
  rewrite zslice_0, (ztake_exact_n 4 t) by lia.
  rewrite (zslice_mid t v rest) by lia.
  replace (4 + hs) with (zlen (t ++ v)) by (rewrite zlen_app; lia).
  rewrite app_assoc, zdrop_app_exact. reflexivity.
Qed.

Lemma blob_loop_records hs : 0 <= hs -> forall recs acc fuel, Forall (rec_ok hs) recs -> (length recs < fuel)%nat ->
  blob_loop fuel hs (concat (map rec_bytes recs)) acc = Ok (acc ++ recs).
Proof.
  intros Hh. induction recs as [|[t v] r IH]; intros acc fuel Hok Hf.
  - destruct fuel as [|k]; [cbn in Hf; lia|]. cbn [map concat blob_loop]. unfold appx_parse_more.
    change (zlen (@nil Z)) with 0. cbn. now rewrite app_nil_r.
  - destruct fuel as [|k]; [cbn in Hf; lia|]. inversion Hok as [|x l [H1 H2] H3]. subst x l. cbn [fst snd] in *.
    cbn [map concat]. unfold rec_bytes at 1. cbn [fst snd]. rewrite <- app_assoc.
    rewrite blob_loop_step by assumption. rewrite IH by (try assumption; cbn [length] in Hf; lia).
    rewrite <- app_assoc. reflexivity.
Qed.

Lemma blob_parse_records hs recs : 0 <= hs -> Forall (rec_ok hs) recs ->
  blob_parse hs (T_APPX ++ concat (map rec_bytes recs)) = Ok recs.
Proof.
  intros Hh Hok. unfold blob_parse.
  change appx_parse_magic with T_APPX. rewrite has_prefix_app. cbn [negb].
  unfold appx_parse_magic_skip_lo, appx_parse_magic_skip_hi.
  rewrite cslice_open by (rewrite zlen_app; change (zlen T_APPX) with 4; pose proof (zlen_nonneg (concat (map rec_bytes recs))); lia).
  cbn [bind]. change 4 with (zlen T_APPX). rewrite zdrop_app_exact.
  rewrite blob_loop_records; [reflexivity|assumption|assumption|].
  assert (L : forall l, Forall (rec_ok hs) l -> (length l <= length (concat (map rec_bytes l)))%nat).
  { induction l as [|[t v] l IH]; intros Hl; [cbn; lia|]. inversion Hl as [|x y [H1 H2] H3]. subst x y. cbn [fst snd] in *.
    cbn [map concat length]. unfold rec_bytes at 1. cbn [fst snd]. rewrite !app_length. specialize (IH H3).
    unfold zlen in H1. lia. }
  specialize (L recs Hok). lia.
Qed.

Definition canon_records (axpc axcd axct axbm axci : bytes) : list (bytes * bytes) :=
  [(T_AXPC, axpc); (T_AXCD, axcd); (T_AXCT, axct); (T_AXBM, axbm)] ++ (if zlen axci =? 0 then [] else [(T_AXCI, axci)]).

Lemma blob_roundtrip hs axpc axcd axct axbm axci :
  0 <= hs -> zlen axpc = hs -> zlen axcd = hs -> zlen axct = hs -> zlen axbm = hs -> (zlen axci = 0 \/ zlen axci = hs) ->
  blob_parse hs (blob_marshal axpc axcd axct axbm axci) = Ok (canon_records axpc axcd axct axbm axci).
Proof.
  intros Hh H1 H2 H3 H4 H5. rewrite blob_marshal_eq.
  replace (T_AXPC ++ axpc ++ T_AXCD ++ axcd ++ T_AXCT ++ axct ++ T_AXBM ++ axbm ++ (if zlen axci =? 0 then [] else T_AXCI ++ axci))
    with (concat (map rec_bytes (canon_records axpc axcd axct axbm axci))).
  - apply blob_parse_records; [assumption|]. unfold canon_records.
    apply Forall_app. split.
    + repeat constructor; cbn [fst snd]; assumption.
    + destruct (zlen axci =? 0) eqn:E; [constructor|]. constructor; [|constructor]. split; cbn [fst snd]; [reflexivity|lia].
  - unfold canon_records. destruct (zlen axci =? 0); cbn [app map concat rec_bytes fst snd]; rewrite ?app_nil_r;
      repeat rewrite <- app_assoc; reflexivity.
Qed.

Lemma canon_lookup axpc axcd axct axbm axci : let m := canon_records axpc axcd axct axbm axci in
  dm_get T_AXPC m = Some axpc /\ dm_get T_AXCD m = Some axcd /\ dm_get T_AXCT m = Some axct /\ dm_get T_AXBM m = Some axbm /\
  dm_get T_AXCI m = (if zlen axci =? 0 then None else Some axci).
Proof.
  unfold canon_records, dm_get. change appx_parse_map_last_wins with true. cbn iota.
  destruct (zlen axci =? 0); cbn; repeat split; reflexivity.
Qed.

(* the spec reader on relic's blob *)
Lemma spec_records_one hs t v rest : 0 <= hs -> zlen t = 4 -> zlen v = hs ->
  forall ts, spec_records hs (t :: ts) (t ++ v ++ rest) =
             match spec_records hs ts rest with Some (vs, r) => Some (v :: vs, r) | None => None end.
Proof.
  intros Hh Ht Hv ts. cbn [spec_records]. rewrite has_prefix_app.
  replace (4 + hs <=? zlen (t ++ v ++ rest)) with true by (rewrite !zlen_app; pose proof (zlen_nonneg rest); lia).
  cbn [andb]. rewrite (zslice_mid t v rest) by lia.
  replace (4 + hs) with (zlen (t ++ v)) by (rewrite zlen_app; lia). rewrite app_assoc, zdrop_app_exact. reflexivity.
Qed.

Lemma spec_blob_marshal hs axpc axcd axct axbm axci :
  0 <= hs -> zlen axpc = hs -> zlen axcd = hs -> zlen axct = hs -> zlen axbm = hs -> (zlen axci = 0 \/ zlen axci = hs) ->
  spec_blob hs (blob_marshal axpc axcd axct axbm axci) = Some (mkDg axpc axcd axct axbm (if zlen axci =? 0 then None else Some axci)).
Proof.
  intros Hh H1 H2 H3 H4 H5. rewrite blob_marshal_eq. unfold spec_blob.
  rewrite has_prefix_app. cbn [negb]. change 4 with (zlen T_APPX) at 1. rewrite zdrop_app_exact.
  rewrite spec_records_one by (try reflexivity; assumption).
  rewrite spec_records_one by (try reflexivity; assumption).
  rewrite spec_records_one by (try reflexivity; assumption).
  rewrite spec_records_one by (try reflexivity; assumption).
  cbn [spec_records].
  destruct (zlen axci =? 0) eqn:E; [reflexivity|].
  assert (Hx : zlen axci = hs) by lia.
  change (T_AXCI ++ axci) with (65 :: ([88; 67; 73] ++ axci)). cbv iota.
  change (65 :: ([88; 67; 73] ++ axci)) with (T_AXCI ++ axci).
  replace (T_AXCI ++ axci) with (T_AXCI ++ axci ++ []) by now rewrite app_nil_r.
  rewrite has_prefix_app.
  replace (4 + hs <=? zlen (T_AXCI ++ axci ++ [])) with true
    by (rewrite !zlen_app; change (zlen T_AXCI) with 4; change (zlen (@nil Z)) with 0; lia).
  cbn [andb]. rewrite (zslice_mid T_AXCI axci []) by (try reflexivity; change (zlen T_AXCI) with 4; lia).
  replace (4 + hs) with (zlen (T_AXCI ++ axci)) by (rewrite zlen_app; change (zlen T_AXCI) with 4; lia).
  rewrite app_assoc, zdrop_app_exact. reflexivity.
Qed.

(* a blob the spec reader accepts is one relic's marshaller can have written *)
Lemma spec_records_inv hs : 0 <= hs -> forall tags d vs rest, Forall (fun t => zlen t = 4) tags ->
  spec_records hs tags d = Some (vs, rest) ->
  d = concat (map rec_bytes (combine tags vs)) ++ rest /\ Forall (fun v => zlen v = hs) vs /\ length vs = length tags.
Proof.
  intros Hh. induction tags as [|t ts IH]; intros d vs rest Ht H.
  - cbn in H. inversion H; subst. repeat split; constructor.
  - cbn [spec_records] in H. destruct (has_prefix t d) eqn:Hp; cbn [andb] in H; [|discriminate].
    destruct (4 + hs <=? zlen d) eqn:Hl; [|discriminate].
    destruct (spec_records hs ts (zdrop (4 + hs) d)) as [[vs' r']|] eqn:Hr; [|discriminate].
    assert (Evs : zslice 4 (4 + hs) d :: vs' = vs) by congruence.
    assert (Er : r' = rest) by congruence. clear H. subst vs rest.
    inversion Ht as [|x y Ht1 Ht2]. subst x y.
    destruct (IH _ _ _ Ht2 Hr) as (E & Fv & Ln).
    assert (Hv : zlen (zslice 4 (4 + hs) d) = hs) by (rewrite zlen_zslice by lia; lia).
    repeat split.
    + change (concat (map rec_bytes (combine (t :: ts) (zslice 4 (4 + hs) d :: vs'))))
        with ((t ++ zslice 4 (4 + hs) d) ++ concat (map rec_bytes (combine ts vs'))).
      rewrite <- !app_assoc. rewrite <- E.
      rewrite (has_prefix_split _ _ Hp) at 1. rewrite Ht1. f_equal.
      unfold zslice. replace (4 + hs - 4) with hs by lia.
      replace (zdrop (4 + hs) d) with (zdrop hs (zdrop 4 d)) by (rewrite zdrop_zdrop by lia; f_equal; lia).
      symmetry. apply ztake_zdrop.
    + constructor; assumption.
    + cbn [length]. now rewrite Ln.
Qed.

Lemma spec_blob_is_canonical hs d g : 0 <= hs -> spec_blob hs d = Some g ->
  let x := match dg_axci g with Some x => x | None => [] end in
  (dg_axci g = None \/ 0 < hs) ->
  d = blob_marshal (dg_axpc g) (dg_axcd g) (dg_axct g) (dg_axbm g) x /\
  zlen (dg_axpc g) = hs /\ zlen (dg_axcd g) = hs /\ zlen (dg_axct g) = hs /\ zlen (dg_axbm g) = hs /\
  (zlen x = 0 \/ zlen x = hs) /\ dg_axci g = (if zlen x =? 0 then None else Some x).
Proof.
  intros Hh H x Hci. unfold spec_blob in H. destruct (has_prefix T_APPX d) eqn:Hp; cbn [negb] in H; [|discriminate].
  assert (T4 : Forall (fun t => zlen t = 4) [T_AXPC; T_AXCD; T_AXCT; T_AXBM]) by (repeat constructor).
  destruct (spec_records hs [T_AXPC; T_AXCD; T_AXCT; T_AXBM] (zdrop 4 d)) as [[vs rest]|] eqn:Hr; [|discriminate].
  destruct (spec_records_inv hs Hh _ _ _ _ T4 Hr) as (E & Fv & Ln).
  destruct vs as [|a [|b [|c [|e [|? ?]]]]]; try discriminate Ln.
  pose proof (Forall_inv Fv) as Ha. pose proof (Forall_inv (Forall_inv_tail Fv)) as Hb.
  pose proof (Forall_inv (Forall_inv_tail (Forall_inv_tail Fv))) as Hc.
  pose proof (Forall_inv (Forall_inv_tail (Forall_inv_tail (Forall_inv_tail Fv)))) as He. cbv beta in Ha, Hb, Hc, He.
  pose proof (has_prefix_split _ _ Hp) as Ed. change (zlen T_APPX) with 4 in Ed.
  destruct rest as [|r0 rr].
  - injection H as <-. subst x. cbn [dg_axci dg_axpc dg_axcd dg_axct dg_axbm].
    split; [|repeat split; try assumption; try (left; reflexivity)].
    rewrite blob_marshal_eq. change (zlen (@nil Z) =? 0) with true. cbn iota.
    rewrite Ed, E. cbn [combine map concat rec_bytes fst snd]. rewrite !app_nil_r. repeat rewrite <- app_assoc. reflexivity.
  - destruct (spec_records hs [T_AXCI] (r0 :: rr)) as [[vs2 rest2]|] eqn:Hr2; [|discriminate].
    assert (T1 : Forall (fun t => zlen t = 4) [T_AXCI]) by (repeat constructor).
    destruct (spec_records_inv hs Hh _ _ _ _ T1 Hr2) as (E2 & Fv2' & Ln2).
    destruct vs2 as [|xx [|? ?]]; try discriminate Ln2. destruct rest2; [|discriminate].
    injection H as <-. subst x. cbn [dg_axci dg_axpc dg_axcd dg_axct dg_axbm] in *.
    pose proof (Forall_inv Fv2') as Hx. cbv beta in Hx.
    destruct Hci as [Hci|Hci]; [discriminate|].
    replace (zlen xx =? 0) with false by lia.
    split; [|repeat split; try assumption; try (right; assumption)].
    rewrite blob_marshal_eq. replace (zlen xx =? 0) with false by lia.
    rewrite Ed, E, E2. cbn [combine map concat rec_bytes fst snd]. rewrite !app_nil_r. repeat rewrite <- app_assoc. reflexivity.
Qed.

(* ------------------------------------------------------------------ no panic, fuel adequate *)
Lemma blob_loop_no_panic hs : 0 <= hs -> forall fuel d acc, no_panic (blob_loop fuel hs d acc).
Proof.
  intros Hh. induction fuel as [|k IH]; intros d acc p; [cbn; discriminate|].
  cbn [blob_loop]. destruct (negb (appx_parse_more (zlen d))); [discriminate|].
  destruct (appx_parse_short (zlen d) hs) eqn:Es; [discriminate|].
  unfold appx_parse_short in Es. unfold appx_parse_name_lo, appx_parse_name_hi, appx_parse_value_lo, appx_parse_value_hi,
    appx_parse_next_lo, appx_parse_next_hi.
  rewrite (cslice_ok 0 4) by lia. cbn [bind]. rewrite (cslice_ok 4 (4 + hs)) by lia. cbn [bind].
  rewrite cslice_open by lia. cbn [bind]. apply IH.
Qed.
Lemma blob_parse_no_panic hs d : 0 <= hs -> no_panic (blob_parse hs d).
Proof.
  intros Hh p. unfold blob_parse. destruct (has_prefix appx_parse_magic d) eqn:Hp; cbn [negb]; [|discriminate].
  apply has_prefix_len in Hp. change (zlen appx_parse_magic) with 4 in Hp.
  unfold appx_parse_magic_skip_lo, appx_parse_magic_skip_hi. rewrite cslice_open by lia. cbn [bind].
  apply blob_loop_no_panic. assumption.
Qed.
Lemma blob_loop_fuel hs : 0 <= hs -> forall fuel d acc, (length d < fuel)%nat -> blob_loop fuel hs d acc <> Err AE_FUEL.
Proof.
  intros Hh. induction fuel as [|k IH]; intros d acc Hf; [lia|].
  cbn [blob_loop]. destruct (negb (appx_parse_more (zlen d))); [discriminate|].
  destruct (appx_parse_short (zlen d) hs) eqn:Es; [discriminate|].
  unfold appx_parse_short in Es. unfold appx_parse_name_lo, appx_parse_name_hi, appx_parse_value_lo, appx_parse_value_hi,
    appx_parse_next_lo, appx_parse_next_hi.
  rewrite (cslice_ok 0 4) by lia. cbn [bind]. rewrite (cslice_ok 4 (4 + hs)) by lia. cbn [bind].
  rewrite cslice_open by lia. cbn [bind]. apply IH.
  unfold zdrop. rewrite skipn_length. unfold zlen in Es. lia.
Qed.
Lemma blob_parse_fuel hs d : 0 <= hs -> blob_parse hs d <> Err AE_FUEL.
Proof.
  intros Hh. unfold blob_parse. destruct (has_prefix appx_parse_magic d) eqn:Hp; cbn [negb]; [|discriminate].
  apply has_prefix_len in Hp. change (zlen appx_parse_magic) with 4 in Hp.
  unfold appx_parse_magic_skip_lo, appx_parse_magic_skip_hi. rewrite cslice_open by lia. cbn [bind].
  apply blob_loop_fuel; [assumption|lia].
Qed.

(* ------------------------------------------------------------------ the tee *)
(* invariant of the puller: what went through the tee and what is still unread make up the member's raw bytes; the tee is
   ahead of the inflater by exactly the buffered bytes; c = bytes consumed by the inflater so far *)
Definition pinv (raw : bytes) (c : Z) (s : pst) : Prop :=
  p_teed s ++ p_rest s = raw /\ zlen (p_teed s) = c + p_buf s /\ 0 <= p_buf s /\ 0 <= c.

Lemma bufio_pos : 0 < appx_bufio_size.
Proof. unfold appx_bufio_size. lia. Qed.

Lemma fill_size_range s : p_rest s <> [] -> 1 <= fill_size s <= zlen (p_rest s).
Proof.
  intros H. unfold fill_size. pose proof bufio_pos.
  assert (1 <= zlen (p_rest s)) by (destruct (p_rest s) as [|x0 t0]; [congruence|rewrite zlen_cons; pose proof (zlen_nonneg t0); lia]).
  destruct (p_script s); lia.
Qed.

Lemma consume_ok raw : forall fuel n s c, pinv raw c s -> 0 <= n -> c + n <= zlen raw ->
  (Z.to_nat n + (if (p_buf s =? 0)%Z then 1 else 0) < fuel)%nat ->
  exists s', consume fuel n s = Ok s' /\ pinv raw (c + n) s'.
Proof.
  induction fuel as [|k IH]; intros n s c (H1 & H2 & H3 & H4) Hn Hc Hf; [lia|].
  cbn [consume]. destruct (n <=? p_buf s) eqn:En.
  - eexists. split; [reflexivity|].
    unfold pinv. cbn [p_rest p_teed p_buf]. repeat split; try assumption; lia.
  - destruct (p_rest s) as [|x t] eqn:Er.
    + exfalso. rewrite app_nil_r in H1. subst raw. lia.
    + rewrite <- Er in *. assert (Hne : p_rest s <> []) by (rewrite Er; discriminate).
      pose proof (fill_size_range s Hne) as Hfs.
      set (f := fill_size s) in *.
      set (s1 := mkP (zdrop f (p_rest s)) (p_teed s ++ ztake f (p_rest s)) f (tl (p_script s))).
      assert (I1 : pinv raw (c + p_buf s) s1).
      { unfold pinv, s1. cbn [p_rest p_teed p_buf]. repeat split; try lia.
        - rewrite <- app_assoc, ztake_zdrop. exact H1.
        - rewrite zlen_app, zlen_ztake by lia. lia. }
      destruct (IH (n - p_buf s) s1 (c + p_buf s) I1) as (s' & E & I'); try lia.
      { unfold s1 at 1. cbn [p_buf]. replace (f =? 0) with false by lia. destruct (p_buf s =? 0) eqn:Eb; lia. }
      exists s'. split; [exact E|].
      replace (c + n) with (c + p_buf s + (n - p_buf s)) by lia. exact I'.
Qed.

Lemma inflate_run_eof raw : forall segs out s c usize, pinv raw c s -> c + zlen (concat (map sg_raw segs)) <= zlen raw ->
  exists s', inflate_run ToEOF usize segs out s = Ok (out ++ concat (map sg_out segs), s') /\
             pinv raw (c + zlen (concat (map sg_raw segs))) s'.
Proof.
  induction segs as [|g r IH]; intros out s c usize I Hc.
  - cbn [inflate_run map concat]. exists s. rewrite app_nil_r. change (zlen (@nil Z)) with 0. rewrite Z.add_0_r. split; [reflexivity|exact I].
  - cbn [inflate_run map concat] in *. rewrite zlen_app in Hc.
    pose proof (zlen_nonneg (sg_raw g)). pose proof (zlen_nonneg (concat (map sg_raw r))).
    destruct (consume_ok raw (S (S (length (sg_raw g)))) (zlen (sg_raw g)) s c I) as (s1 & E & I1); try lia.
    { unfold zlen. destruct (p_buf s =? 0); lia. }
    rewrite E. cbn [bind]. destruct (IH (out ++ sg_out g) s1 (c + zlen (sg_raw g)) usize I1) as (s' & E' & I'); [lia|].
    exists s'. rewrite E'. split.
    + now rewrite <- app_assoc.
    + rewrite zlen_app. replace (c + (zlen (sg_raw g) + zlen (concat (map sg_raw r)))) with (c + zlen (sg_raw g) + zlen (concat (map sg_raw r))) by lia. exact I'.
Qed.

Lemma pinv_init raw script : pinv raw 0 (pst_init raw script).
Proof. unfold pinv, pst_init. cbn. repeat split; lia. Qed.

(* at EOF of the decompressed stream the reader pulls the rest through the tee: what has gone through it is the whole member *)
Lemma drains : reader_drains = true.
Proof. reflexivity. Qed.

(* a stored or deflated member read to EOF: every raw byte goes through the tee, whatever the read script and whatever follows
   the final deflate block *)
Lemma member_read_eof m script : am_ok m ->
  member_read m ToEOF script = Ok (am_raw m, am_out m).
Proof.
  intros (Hm & Hc & Hu & Hs & Hcrc). unfold member_read.
  assert (Hmeth : existsb (Z.eqb (am_method m)) appx_methods = true).
  { unfold appx_methods. cbn [existsb]. destruct Hm as [-> | ->]; reflexivity. }
  change tee_shape_ok with true. rewrite Hmeth. cbn [negb].
  assert (Hfin : forall t o, o = am_out m -> (if appx_reader_size_mismatch (zlen o) (e_usize (am_ent m)) then Err AE_UEOF
             else if appx_reader_crc_mismatch (e_crc (am_ent m)) (am_crc m) then @Err (bytes * bytes) AE_CRC else Ok (t, o)) = Ok (t, o)).
  { intros t o ->. unfold appx_reader_size_mismatch, appx_reader_crc_mismatch. rewrite Hu, Z.eqb_refl. cbn [negb].
    destruct Hcrc as [-> | ->]; [reflexivity|]. rewrite Z.eqb_refl. cbn [negb]. now rewrite andb_false_r. }
  destruct (am_method m =? 0) eqn:E0.
  - assert (Eo : am_raw m = am_out m) by (unfold am_out; now rewrite E0).
    cbn [bind snd]. rewrite (Hfin (am_raw m) (am_raw m) Eo). now rewrite <- Eo.
  - assert (E8 : am_method m = 8) by (destruct Hm as [H|H]; [rewrite H in E0; discriminate|exact H]).
    assert (Eo : concat (map sg_out (am_segs m)) = am_out m) by (unfold am_out; now rewrite E0).
    specialize (Hs E8). unfold seg_raw in Hs.
    destruct (inflate_run_eof (am_raw m) (am_segs m) [] (pst_init (am_raw m) script) 0 (e_usize (am_ent m)) (pinv_init _ _)) as (s' & E & I).
    { assert (L : zlen (am_raw m) = zlen (concat (map sg_raw (am_segs m))) + zlen (am_trail m)) by (rewrite <- Hs; apply zlen_app).
      pose proof (zlen_nonneg (am_trail m)). lia. }
    rewrite E. cbn [bind fst snd app]. rewrite drains. cbv iota. destruct I as (I1 & _). rewrite I1.
    rewrite <- Eo. apply Hfin. exact Eo.
Qed.
