(* FmtAPPX/Model.v — the APPX / MSIX signature layer of lib/signappx (tarappx.go DigestAppxTar / digestFile, blockmap.go,
   sign.go, verify.go, zipmeta.go, contenttypes.go) and the two zipslicer functions only this layer drives
   (File.OpenAndTeeRaw + Reader.Read: the AXPC tee; Directory.Truncate: the verifier's AXCD).  Definitions only.
   Names, magic strings, slice bounds, loop shapes, call orders, branch conditions and field updates are the definitions of
   Generated/FmtAPPX_gen.v (srcgen, regenerated from /repo on every run).  The ZIP container itself is unit C17's: directory
   entries (cdent), GetDirectoryHeader (dir_header), WriteDirectory (write_directory / cd_bytes / wd_tail), NewFile (new_file),
   AddFile (add_file) are taken from C17/Model.v; the 64 KiB walk of the block map is unit C09's (addfile_blocks, chunks).
   The SPEC side (spec_blob, spec_axpc, spec_axcd, spec_blockmap) is written from the format description:
   AppxSignature.p7x carries 'APPX' + AXPC/AXCD/AXCT/AXBM[/AXCI] records; AXPC = every byte in front of the signature member;
   AXCD = the directory the package would have without the signature member; block map = one Block per 64 KiB. *)
From Relic Require Import Base.Prelude Base.Enc Generated.C17_gen C17.Model Generated.FmtAPPX_gen.
From Relic Require Generated.C09_gen C09.Model.

(* error classes (Err) and panics *)
Definition AE_BADSIG := 1.      (* "invalid appx signature" *)
Definition AE_UEOF := 2.        (* io.ErrUnexpectedEOF (member shorter / longer than the directory says) *)
Definition AE_CRC := 3.         (* zip.ErrChecksum *)
Definition AE_METHOD := 4.      (* "unsupported zip compression" *)
Definition AE_NOTCONTIG := 5.   (* zipslicer.ErrNotContiguous *)
Definition AE_ORDER := 6.       (* "file %s is out of order" *)
Definition AE_NOMANIFEST := 7.  (* "missing manifest" / "manifest not found" *)
Definition AE_BMPARSE := 8.     (* "error parsing block map" *)
Definition AE_BMOLD := 9.       (* "old block map has too many files" / "doesn't match new" *)
Definition AE_UNVERIFIED := 10. (* "found compressed files not already in blockmap" *)
Definition AE_CTPARSE := 11.    (* content types do not parse *)
Definition AE_TOOBIG := 12.     (* "file too big for 32-bit ZIP" *)
Definition AE_SHAPE := 90.      (* the source no longer has the statement order this model was written for *)
Definition AE_FUEL := 99.
Definition P_SLICE := 1.        (* slice bounds out of range *)
Definition P_INDEX := 2.        (* index out of range *)

Definition no_panic {A} (r : result A) : Prop := forall p, r <> Panic p.

(* Go slice expression l[lo:hi] (hi = -1: open), checked against len (cap >= len, so this panics at least where Go does) *)
Definition cslice (lo hi : Z) (l : bytes) : result bytes :=
  let hi' := if hi =? -1 then zlen l else hi in
  if (0 <=? lo) && (lo <=? hi') && (hi' <=? zlen l) then Ok (zslice lo hi' l) else Panic P_SLICE.
Definition has_prefix (p l : bytes) : bool := bytes_eqb (ztake (zlen p) l) p.       (* bytes.HasPrefix *)

(* ================================================================== 1. the digest blob ============================ *)
(* ---- relic: writeSignature assembles the blob by the generated program (literal / digest, guarded by len(i.axci) != 0) *)
Definition blob_src (axpc axcd axct axbm axci : bytes) (c : Z) : bytes :=
  if c =? 0 then axpc else if c =? 1 then axcd else if c =? 2 then axct else if c =? 3 then axbm else if c =? 4 then axci else [].
Definition blob_item (axpc axcd axct axbm axci : bytes) (it : Z * Z * list Z) : bytes :=
  let '(g, k, p) := it in
  if (g =? 1) && negb (appx_blob_axci_present (zlen axci)) then []
  else if k =? 0 then p else blob_src axpc axcd axct axbm axci (hd 99 p).
Definition blob_marshal (axpc axcd axct axbm axci : bytes) : bytes :=
  concat (map (blob_item axpc axcd axct axbm axci) appx_blob_program).

(* ---- relic: readSignature, the part that takes the blob apart (hs = hash.Size()) *)
Fixpoint blob_loop (fuel : nat) (hs : Z) (d : bytes) (acc : list (bytes * bytes)) : result (list (bytes * bytes)) :=
  match fuel with
  | O => Err AE_FUEL
  | S k =>
      if negb (appx_parse_more (zlen d)) then Ok acc
      else if appx_parse_short (zlen d) hs then Err AE_BADSIG
      else name <- cslice (appx_parse_name_lo hs) (appx_parse_name_hi hs) d ;;
           v <- cslice (appx_parse_value_lo hs) (appx_parse_value_hi hs) d ;;
           rest <- cslice (appx_parse_next_lo hs) (appx_parse_next_hi hs) d ;;
           blob_loop k hs rest (acc ++ [(name, v)])
  end.
Definition blob_parse (hs : Z) (d : bytes) : result (list (bytes * bytes)) :=
  if negb (has_prefix appx_parse_magic d) then Err AE_BADSIG else
  d' <- cslice appx_parse_magic_skip_lo appx_parse_magic_skip_hi d ;;
  blob_loop (S (length d')) hs d' [].
(* digestmap[name] = ...: a Go map, a later record with the same tag replaces an earlier one *)
Fixpoint dm_first (tag : bytes) (m : list (bytes * bytes)) : option bytes :=
  match m with [] => None | (t, v) :: r => if bytes_eqb t tag then Some v else dm_first tag r end.
Definition dm_get (tag : bytes) (m : list (bytes * bytes)) : option bytes :=
  if appx_parse_map_last_wins then dm_first tag (rev m) else dm_first tag m.

(* ---- SPEC: 'APPX', then AXPC AXCD AXCT AXBM records (4-byte tag + hs bytes) in this order, then optionally AXCI, nothing else *)
Definition T_APPX : bytes := [65; 80; 80; 88].
Definition T_AXPC : bytes := [65; 88; 80; 67].
Definition T_AXCD : bytes := [65; 88; 67; 68].
Definition T_AXCT : bytes := [65; 88; 67; 84].
Definition T_AXBM : bytes := [65; 88; 66; 77].
Definition T_AXCI : bytes := [65; 88; 67; 73].
Fixpoint spec_records (hs : Z) (tags : list bytes) (d : bytes) : option (list bytes * bytes) :=
  match tags with
  | [] => Some ([], d)
  | t :: ts =>
      if has_prefix t d && (4 + hs <=? zlen d) then
        match spec_records hs ts (zdrop (4 + hs) d) with
        | Some (vs, rest) => Some (zslice 4 (4 + hs) d :: vs, rest)
        | None => None
        end
      else None
  end.
Record digests := mkDg { dg_axpc : bytes; dg_axcd : bytes; dg_axct : bytes; dg_axbm : bytes; dg_axci : option bytes }.
Definition spec_blob (hs : Z) (d : bytes) : option digests :=
  if negb (has_prefix T_APPX d) then None else
  match spec_records hs [T_AXPC; T_AXCD; T_AXCT; T_AXBM] (zdrop 4 d) with
  | Some ([a; b; c; e], []) => Some (mkDg a b c e None)
  | Some ([a; b; c; e], rest) =>
      match spec_records hs [T_AXCI] rest with
      | Some ([x], []) => Some (mkDg a b c e (Some x))
      | _ => None
      end
  | _ => None
  end.

(* ================================================================== 2. the tee underneath the inflater ============ *)
(* OpenAndTeeRaw: SectionReader(CompressedSize bytes) -> io.TeeReader(sink) -> [flate.NewReader -> bufio.Reader] .
   The raw bytes of a member reach the AXPC hash only when something pulls them through the tee.
   Abstract inflater: the deflate stream is a list of segments; the inflater consumes the raw bytes of a segment and then
   releases its output (a segment ends where compress/flate hands data to its caller: a full window, a sync flush, the end of
   the final block).  After the last segment the inflater reports EOF; it never reads ds_trail (bytes behind the final block). *)
Record seg := mkSeg { sg_raw : bytes; sg_out : bytes }.
(* bufio.Reader over the tee: p_rest not yet read from the member, p_teed what went through the tee (in order),
   p_buf pulled but not yet consumed by the inflater, p_script how many bytes the k-th Read of the source returns at most *)
Record pst := mkP { p_rest : bytes; p_teed : bytes; p_buf : Z; p_script : list Z }.
Definition pst_init (raw : bytes) (script : list Z) : pst := mkP raw [] 0 script.
Definition fill_size (s : pst) : Z :=
  let want := Z.min appx_bufio_size (zlen (p_rest s)) in
  match p_script s with [] => want | k :: _ => Z.min want (Z.max 1 k) end.
(* the inflater takes n more bytes (ReadByte by ReadByte); the buffer is refilled with ONE Read of the source when empty *)
Fixpoint consume (fuel : nat) (n : Z) (s : pst) : result pst :=
  if n <=? p_buf s then Ok (mkP (p_rest s) (p_teed s) (p_buf s - n) (p_script s))
  else match fuel with
       | O => Err AE_FUEL
       | S k =>
           match p_rest s with
           | [] => Err AE_UEOF
           | _ => let f := fill_size s in
                  consume k (n - p_buf s) (mkP (zdrop f (p_rest s)) (p_teed s ++ ztake f (p_rest s)) f (tl (p_script s)))
           end
       end.
(* how far the caller drives the reader: until it reports EOF, or only until `usize` bytes have been delivered *)
Inductive demand := ToEOF | ToSize.
Fixpoint inflate_run (dm : demand) (usize : Z) (segs : list seg) (out : bytes) (s : pst) : result (bytes * pst) :=
  match segs with
  | [] => Ok (out, s)
  | g :: r =>
      if (match dm with ToSize => usize <=? zlen out | ToEOF => false end) then Ok (out, s)
      else s' <- consume (S (S (length (sg_raw g)))) (zlen (sg_raw g)) s ;; inflate_run dm usize r (out ++ sg_out g) s'
  end.
(* blockMap.AddFile: `for { io.CopyN(...); if err == io.EOF { break } }` reads to EOF; a loop with a condition reads to a size *)
Definition addfile_demand : option demand :=
  if appx_addfile_loop_has_cond then Some ToSize else if appx_addfile_break_on_eof then Some ToEOF else None.

(* ================================================================== 3. members, blockMap.AddFile ==================== *)
(* a member as it lies in the file: directory entry (C17), local header bytes, CompressedSize raw bytes, data descriptor,
   and the inflater's view of the raw bytes (deflated members): raw = concat of the segments' raw bytes ++ trail *)
Record amember := mkAM { am_ent : cdent; am_lfh : bytes; am_raw : bytes; am_dd : bytes;
                         am_segs : list seg; am_trail : bytes; am_crc : Z (* CRC-32 of the uncompressed data (hash/crc32) *) }.
Definition am_name (m : amember) : bytes := e_name (am_ent m).
Definition am_method (m : amember) : Z := e_method (am_ent m).
Definition am_out (m : amember) : bytes := if am_method m =? 0 then am_raw m else concat (map sg_out (am_segs m)).
Definition am_extent (m : amember) : bytes := am_lfh m ++ am_raw m ++ am_dd m.
Definition seg_raw (m : amember) : bytes := concat (map sg_raw (am_segs m)) ++ am_trail m.

(* reading one member through OpenAndTeeRaw(sink) the way AddFile does: (bytes that went through the tee, data delivered) *)
(* the shape of OpenAndTeeRaw this model is written for: section of CompressedSize bytes, tee on it, inflater (with its own
   bufio.Reader, the tee is no io.ByteReader) above the tee *)
Definition tee_shape_ok : bool :=
  list_eqb Z.eqb appx_tee_calls [0; 1; 2; 3] && appx_tee_section_is_csize && appx_tee_args && appx_inflater_over_tee && appx_inflater_wraps_bufio.
(* Reader.Read, once the decompressor has reported EOF and the size agrees: the rest of the member's compressed extent is
   pulled through the tee (io.Copy(io.Discard, r.raw)) — only a caller that reads up to the reader's EOF gets there *)
Definition reader_drains : bool :=
  existsb (Z.eqb 1) appx_reader_eof_steps && appx_tee_is_kept_for_draining && appx_reader_gets_tee.
Definition member_read (m : amember) (dm : demand) (script : list Z) : result (bytes * bytes) :=
  let usize := e_usize (am_ent m) in
  if negb tee_shape_ok then Err AE_SHAPE else
  if negb (existsb (Z.eqb (am_method m)) appx_methods) then Err AE_METHOD else
  r <- (if am_method m =? 0 then
          (* stored: the caller reads the tee directly *)
          match dm with
          | ToEOF => Ok (am_raw m, am_raw m)
          | ToSize => if zlen (am_raw m) <? usize then Err AE_UEOF else Ok (ztake usize (am_raw m), ztake usize (am_raw m))
          end
        else
          x <- inflate_run dm usize (am_segs m) [] (pst_init (am_raw m) script) ;;
          match dm with
          | ToEOF => Ok (if reader_drains then p_teed (snd x) ++ p_rest (snd x) else p_teed (snd x), fst x)
          | ToSize => if zlen (fst x) <? usize then Err AE_UEOF else Ok (p_teed (snd x), ztake usize (fst x))
          end) ;;
  match dm with
  | ToEOF =>   (* zipslicer.Reader.Read at EOF: size and CRC of what was delivered *)
      if appx_reader_size_mismatch (zlen (snd r)) usize then Err AE_UEOF
      else if appx_reader_crc_mismatch (e_crc (am_ent m)) (am_crc m) then Err AE_CRC
      else Ok r
  | ToSize => Ok r
  end.

(* block map entries *)
Record bblock := mkBB { bb_data : bytes (* the block; its digest is Hash *); bb_size : Z (* compressed size, 0 = attribute omitted *) }.
Record bfile := mkBF { bf_name : bytes; bf_size : Z; bf_lfh : Z; bf_blocks : list bblock }.
Definition zip_to_dos (n : bytes) : bytes := if appx_ziptodos_slash_to_backslash then map (fun c => if c =? 47 then 92 else c) n else n.
Definition dos_to_zip (n : bytes) : bytes := if appx_dostozip_backslash_to_slash then map (fun c => if c =? 92 then 47 else c) n else n.
Definition in_names (n : bytes) (l : list bytes) : bool := existsb (bytes_eqb n) l.

Record addres := mkAR { ar_raw : bytes; ar_out : bytes; ar_file : option bfile; ar_unverified : bool }.
Definition raw_piece (m : amember) (c : Z) : bytes := if c =? 0 then am_lfh m else if c =? 2 then am_dd m else [].
Definition add_file_appx (m : amember) (script oscript : list Z) : result addres :=
  if negb (list_eqb Z.eqb appx_addfile_calls [0; 1; 2; 3; 4; 5; 1]) then Err AE_SHAPE else
  match addfile_demand with
  | None => Err AE_SHAPE
  | Some dm =>
      r <- member_read m dm script ;;
      let teed := if list_eqb Z.eqb appx_addfile_tee_arg [1] then fst r else [] in
      let blocks := C09.Model.addfile_blocks (C09.Model.mkRd (snd r) oscript) in
      let listed := appx_addfile_listed (in_names (am_name m) appx_nohash_names) (am_name m) in
      let bf := mkBF (zip_to_dos (am_name m)) (if appx_addfile_size_accumulates then zlen (snd r) else 0)
                     (if appx_addfile_lfhsize_is_len then zlen (am_lfh m) else 0)
                     (map (fun b => mkBB b 0) blocks) in
      Ok (mkAR (raw_piece m (nth 0 appx_addfile_raw_writes 99) ++ teed ++ raw_piece m (nth 1 appx_addfile_raw_writes 99))
               (snd r) (if listed then Some bf else None) (listed && appx_addfile_sizes_unverified (am_method m)))
  end.

(* a member the ZIP layer accepts: sizes agree with the directory, the segments tile the raw bytes, the CRC is right *)
Definition am_ok (m : amember) : Prop :=
  (am_method m = 0 \/ am_method m = 8) /\ e_csize (am_ent m) = zlen (am_raw m) /\ e_usize (am_ent m) = zlen (am_out m) /\
  (am_method m = 8 -> seg_raw m = am_raw m) /\ (e_crc (am_ent m) = 0 \/ e_crc (am_ent m) = am_crc m).
(* ... whose deflate stream ends with the compressed data (nothing behind the final block); no theorem needs this any more
   since the reader drains the tee at EOF (relic 71d8dc1) *)
Definition am_tight (m : amember) : Prop := am_method m = 8 -> am_trail m = [].

(* ---- SPEC: AXPC covers every byte of every member in front of the signature: local header, data as stored, descriptor *)
Definition spec_axpc (ms : list amember) : bytes := concat (map am_extent ms).
(* what the signer accumulates over a list of members (one read script per member) *)
Fixpoint signer_axpc (ms : list amember) (scripts : list (list Z * list Z)) : result bytes :=
  match ms with
  | [] => Ok []
  | m :: r => a <- add_file_appx m (fst (hd ([], []) scripts)) (snd (hd ([], []) scripts)) ;;
              t <- signer_axpc r (tl scripts) ;; Ok (ar_raw a ++ t)
  end.
(* what the verifier hashes: Directory.Truncate copies [Offset, Offset + GetTotalSize) of every member in front of the
   signature out of the file *)
Definition am_total (m : amember) : Z := zlen (am_extent m).
Fixpoint verifier_axpc (file : bytes) (ms : list amember) : bytes :=
  match ms with
  | [] => []
  | m :: r => zslice (e_offset (am_ent m)) (e_offset (am_ent m) + am_total m) file ++ verifier_axpc file r
  end.
(* members lying back to back from `pos` *)
Fixpoint laid_out (pos : Z) (ms : list amember) : Prop :=
  match ms with [] => True | m :: r => e_offset (am_ent m) = pos /\ laid_out (pos + am_total m) r end.

(* ================================================================== 4. Directory.Truncate: the verifier's AXCD ======= *)
(* binary.Read of a struct, assignments to some fields, binary.Write: the bytes of exactly those fields are replaced *)
Definition splice (l : bytes) (u : Z * Z * Z) : bytes :=
  let '(off, w, v) := u in ztake off l ++ le_enc (Z.to_nat w) v ++ zdrop (off + w) l.
Definition splices (l : bytes) (us : list (Z * Z * Z)) : bytes := fold_left splice us l.
Definition ent0 : cdent := mkEnt 0 0 0 0 0 0 0 0 0 [] [] [] 0 0 0 [].
Definition truncate_dir (d : directory) (n : Z) : result bytes :=
  if (n <? 0) || (zlen (d_files d) <=? n) then Panic P_INDEX else          (* d.File[n] *)
  let cdo := appx_trunc_cd_offset (e_offset (nth (Z.to_nat n) (d_files d) ent0)) in
  let hdrs := cd_bytes (ztake n (d_files d)) in
  let size := zlen hdrs in
  if appx_trunc_is_zip64 (fld e64_off_Signature e64_w_Signature (d_end64 d)) then
    let parts := [(3, splices (d_end64 d) (appx_trunc_end64_updates n size cdo));
                  (1, splices (d_loc64 d) (appx_trunc_loc_updates n size cdo));
                  (2, d_end d)] in
    Ok (hdrs ++ concat (map (pick parts) appx_trunc_write_order))
  else if appx_trunc_too_big cdo n then Err AE_TOOBIG
  else Ok (hdrs ++ splices (d_end d) (appx_trunc_end_updates n size cdo)).

(* what ReadWithDirectory holds after reading a directory relic wrote itself: every entry keeps its bytes as cached raw
   entry, the three end records are the bytes WriteDirectory(…, forceZip64 = true) emitted (C17: writer/reader round trip) *)
Definition written_ent (f : cdent) : cdent :=
  mkEnt (e_creator f) (e_reader f) (e_flags f) (e_method f) (e_mtime f) (e_mdate f) (e_crc f) (e_csize f) (e_usize f)
        (e_name f) (e_extra f) (e_comment f) (e_iattrs f) (e_eattrs f) (e_offset f) (dir_header f).
Definition reread_dir (files : list cdent) (dirloc size : Z) : directory :=
  let count := zlen files in
  let cdsize := zlen (cd_bytes files) in
  mkDir (map written_ent files) size dirloc
        (enc_struct e64_widths (wd_end64 wd_forced_version count cdsize (wd_cdoff dirloc)))
        (enc_struct l64_widths (wd_loc64 (wd_end64off (wd_cdoff dirloc) cdsize)))
        (enc_struct eocd_widths wd_end_sat).
(* ---- SPEC: AXCD = the central directory and end records the package would have if the signature member (the last one)
   were not there: the entries of all other members, a ZIP64 end record counting them and pointing at the offset where
   the signature member starts, the locator behind it, the saturated end record *)
Definition spec_axcd (entries : list bytes) (sig_offset : Z) : bytes :=
  let cd := concat entries in
  cd ++ le_enc 4 101075792 ++ le_enc 8 44 ++ le_enc 2 45 ++ le_enc 2 45 ++ le_enc 4 0 ++ le_enc 4 0 ++
        le_enc 8 (zlen entries) ++ le_enc 8 (zlen entries) ++ le_enc 8 (zlen cd) ++ le_enc 8 sig_offset
     ++ le_enc 4 117853008 ++ le_enc 4 0 ++ le_enc 8 (sig_offset + zlen cd) ++ le_enc 4 1
     ++ le_enc 4 101010256 ++ le_enc 2 0 ++ le_enc 2 0 ++ le_enc 2 65535 ++ le_enc 2 65535 ++ le_enc 4 4294967295 ++ le_enc 4 4294967295 ++ le_enc 2 0.

(* ================================================================== 5. block map: CopySizes, the verifier's walk ==== *)
(* newf.Block[j].Size = oldblock.Size for every old block (index checked) *)
Fixpoint copy_blocks (olds news : list bblock) : result (list bblock) :=
  match olds with
  | [] => Ok news
  | o :: os => match news with
               | [] => Panic P_INDEX
               | n :: ns => r <- copy_blocks os ns ;; Ok (mkBB (bb_data n) (if appx_copysizes_copies_size then bb_size o else bb_size n) :: r)
               end
  end.
Fixpoint set_nth {A} (i : nat) (x : A) (l : list A) : list A :=
  match l with [] => [] | y :: r => match i with O => x :: r | S k => y :: set_nth k x r end end.
Fixpoint copy_sizes_loop (olds : list bfile) (i : Z) (files : list bfile) : result (list bfile) :=
  match olds with
  | [] => Ok files
  | o :: r =>
      if appx_copysizes_skip (dos_to_zip (bf_name o)) then copy_sizes_loop r (i + 1) files
      else if appx_copysizes_too_many i (zlen files) then Err AE_BMOLD
      else match nth_error files (Z.to_nat i) with
           | None => Panic P_INDEX
           | Some nf =>
               if appx_copysizes_name_differs (bf_name nf) (bf_name o) then Err AE_BMOLD
               else if appx_copysizes_more_blocks (zlen (bf_blocks o)) (zlen (bf_blocks nf)) then Err AE_BMOLD
               else bl <- copy_blocks (bf_blocks o) (bf_blocks nf) ;;
                    copy_sizes_loop r (i + 1) (set_nth (Z.to_nat i) (mkBF (bf_name nf) (bf_size nf) (bf_lfh nf) bl) files)
           end
  end.
Definition copy_sizes (olds files : list bfile) : result (list bfile) :=
  if appx_copysizes_by_index then copy_sizes_loop olds 0 files else Err AE_SHAPE.

(* ---- SPEC (AppxBlockMap schema): one File per payload member in package order — DOS path separators, uncompressed size,
   size of the local file header — with one Block per 64 KiB of uncompressed data; a Block of a deflated member also
   records the compressed size of that block (bsizes, known to the packer), a Block of a stored member has no size *)
Fixpoint spec_blocks (chunks : list bytes) (bsizes : list Z) (deflated : bool) : list bblock :=
  match chunks with
  | [] => []
  | c :: cs => mkBB c (if deflated then hd 0 bsizes else 0) :: spec_blocks cs (tl bsizes) deflated
  end.
Definition spec_bfile (m : amember) (bsizes : list Z) : bfile :=
  mkBF (map (fun c => if c =? 47 then 92 else c) (am_name m)) (zlen (am_out m)) (zlen (am_lfh m))
       (spec_blocks (C09.Model.chunks 65536 (am_out m)) bsizes (negb (am_method m =? 0))).

(* verifyBlockMap: the walk over the archive's members against the parsed block map.  Hv = digest of a block. *)
Section VerifyBM.
  Variable Hv : bytes -> bytes.
  (* for i, block := range bmf.Block { count := min(remaining, 64 KiB); io.CopyN(d, r, count); compare } *)
  Fixpoint vbm_blocks (blocks : list (bytes * Z)) (data : bytes) (remaining : Z) : result Z :=
    match blocks with
    | [] => Ok remaining
    | (h, _) :: r =>
        let count := if C09_gen.bm_verify_clip remaining then C09_gen.blockMapSize else remaining in
        if zlen data <? count then Err AE_UEOF
        else if negb (bytes_eqb (Hv (ztake count data)) h) then Err AE_BADSIG
        else vbm_blocks r (zdrop count data) (remaining - count)
    end.
  Record pfile := mkPF { pf_name : bytes; pf_size : Z; pf_blocks : list (bytes * Z) (* digest, size *) }.
  Fixpoint vbm_walk (ms : list amember) (is_bundle : bool) (bm : list pfile) : result unit :=
    match ms with
    | [] => Ok tt
    | m :: r =>
        if appx_vbm_skips (in_names (am_name m) appx_nohash_names) is_bundle (am_name m) then vbm_walk r is_bundle bm
        else if appx_vbm_unhashed (zlen bm) then Err AE_BMOLD
        else match bm with
             | [] => Panic P_INDEX
             | f :: bm' =>
                 let usize := e_usize (am_ent m) in
                 if appx_vbm_name_differs (pf_name f) (zip_to_dos (am_name m)) then Err AE_BMOLD
                 else if appx_vbm_size_differs (pf_size f) usize then Err AE_BMOLD
                 else if C09_gen.bm_count_bad (zlen (pf_blocks f)) usize then Err AE_BMOLD
                 else rem <- vbm_blocks (pf_blocks f) (am_out m) usize ;;
                      if appx_vbm_data_left rem then Err AE_BMOLD else vbm_walk r is_bundle bm'
             end
    end.
End VerifyBM.

(* ================================================================== 6. content types ================================ *)
Definition amap := list (bytes * bytes).
Fixpoint amap_get (k : bytes) (m : amap) : bytes :=
  match m with [] => [] | (k', v) :: r => if bytes_eqb k' k then v else amap_get k r end.
Fixpoint amap_set (k v : bytes) (m : amap) : amap :=
  match m with [] => [(k, v)] | (k', v') :: r => if bytes_eqb k' k then (k, v) :: r else (k', v') :: amap_set k v r end.
Record ctypes := mkCT { ct_ext : amap; ct_ovr : amap }.
(* path.Base: trailing slashes removed, then what follows the last slash; "" -> ".", only slashes -> "/" *)
Fixpoint strip_slashes_rev (r : bytes) : bytes := match r with 47 :: t => strip_slashes_rev t | _ => r end.
Fixpoint after_last (c : Z) (l acc : bytes) : bytes :=
  match l with [] => acc | x :: t => if x =? c then after_last c t [] else after_last c t (acc ++ [x]) end.
Definition path_base (p : bytes) : bytes :=
  match p with
  | [] => [46]
  | _ => let q := rev (strip_slashes_rev (rev p)) in
         match q with [] => [47] | _ => after_last 47 q [] end
  end.
(* path.Ext: from the last dot of the last element ("" if none) *)
Fixpoint ext_scan (r acc : bytes) : bytes :=     (* r = reversed path *)
  match r with [] => [] | 47 :: _ => [] | 46 :: _ => 46 :: acc | x :: t => ext_scan t (x :: acc) end.
Definition path_ext (p : bytes) : bytes := ext_scan (rev p) [].
Definition nonempty (b : bytes) : bool := match b with [] => false | _ => true end.
Definition ct_add (name : bytes) (c : ctypes) : ctypes :=
  if appx_ct_is_bundle_manifest name then
    (if appx_ct_bundle_sets_xml then mkCT (amap_set [120; 109; 108] appx_ct_bundle (ct_ext c)) (ct_ovr c) else c)
  else
    let oname := if appx_ct_partname_is_slash_name then 47 :: name else name in
    let d := amap_get oname appx_ct_default_ovr in
    if nonempty d then mkCT (ct_ext c) (amap_set oname d (ct_ovr c))
    else if nonempty (amap_get oname (ct_ovr c)) then c
    else
      let ext := if appx_ct_ext_of_base then path_ext (path_base name) else path_ext name in
      match ext with
      | 46 :: e =>
          let de := amap_get e appx_ct_default_ext in
          if nonempty de then mkCT (amap_set e de (ct_ext c)) (ct_ovr c)
          else if nonempty (amap_get e (ct_ext c)) then c
          else if appx_ct_unknown_ext_octet then mkCT (amap_set e appx_ct_octet (ct_ext c)) (ct_ovr c) else c
      | _ => if appx_ct_noext_override_octet then mkCT (ct_ext c) (amap_set oname appx_ct_octet (ct_ovr c)) else c
      end.
Definition ct_find (name : bytes) (c : ctypes) : bytes :=
  let o := amap_get (47 :: name) (ct_ovr c) in
  if nonempty o then o else
  match path_ext (path_base name) with 46 :: e => amap_get e (ct_ext c) | _ => [] end.
(* writeContentTypes: every member of the output so far except [Content_Types].xml, the catalog if there will be one, the
   signature *)
Definition ct_regen (c : ctypes) (names : list bytes) (npe : Z) : ctypes :=
  let c1 := fold_left (fun acc n => if appx_ctypes_adds_member n then ct_add n acc else acc) names c in
  let c2 := if appx_ctypes_adds_catalog npe then ct_add appx_n_codeintegrity c1 else c1 in
  ct_add appx_n_signature c2.

(* ================================================================== 7. DigestAppxTar, Sign, Verify ================= *)
Definition is_pe (n : bytes) : bool := appx_has_suffix n [46; 101; 120; 101] || appx_has_suffix n [46; 100; 108; 108].
Definition am_total_go (m : amember) : Z := zlen (am_lfh m) + e_csize (am_ent m) + zlen (am_dd m).   (* GetTotalSize *)
Definition footprint_action (name : bytes) : Z :=
  match find (fun p => in_names name (fst p)) appx_footprint_actions with
  | Some p => snd p
  | None => match find (fun p => match fst p with [] => true | _ => false end) appx_footprint_actions with Some p => snd p | None => 5 end
  end.

Section Appx.
  Variable H : bytes -> bytes.                       (* the digest algorithm *)
  Variable deflate : bytes -> bytes.                 (* compress/flate level 9: the last data block is the final block *)
  Variable crc32 : bytes -> Z.
  Variable ser_bm : list bfile -> bytes.             (* encoding/xml: AppxBlockMap.xml *)
  Variable parse_bm : bytes -> option (list bfile).  (* the old block map (only names, block counts and Size attributes are used) *)
  Variable ser_ct : ctypes -> bytes.
  Variable parse_ct : bytes -> option ctypes.
  Variable repub : bytes -> bytes.                   (* manifest with the Publisher attribute set to the certificate subject *)
  Variable mkcat : bytes.                            (* the signed security catalog (authenticode.Catalog.Sign) *)
  Variable mksig : bytes -> bytes.                   (* PKCS#7 SignedData over SpcIndirectData carrying the digest blob *)

  Record dinfo := mkDI { di_kept : list amember; di_axpc : bytes; di_bm : list bfile; di_unverified : bool;
                         di_files : list cdent; di_dirloc : Z; di_npe : Z; di_patch_start : Z; di_patch_len : Z;
                         di_manifest : option bytes; di_bundle : option bytes; di_ct : ctypes; di_mtime : Z * Z }.
  Definition di_init : dinfo := mkDI [] [] [] false [] 0 0 0 0 None None (mkCT [] []) (0, 0).

  (* first loop: payload members are digested and kept until the first footprint member *)
  Fixpoint digest_copy (ms : list amember) (size pos : Z) (st : dinfo) (scripts : list (list Z * list Z)) : result (dinfo * list amember) :=
    match ms with
    | [] => Ok (st, [])
    | m :: r =>
        if in_names (am_name m) appx_footprint_names then
          if appx_footprint_gap (e_offset (am_ent m)) pos then Err AE_NOTCONTIG
          else let ps := appx_patch_start (e_offset (am_ent m)) in
               Ok (mkDI (di_kept st) (di_axpc st) (di_bm st) (di_unverified st) (di_files st) (di_dirloc st) (di_npe st)
                        ps (appx_patch_len size ps) (di_manifest st) (di_bundle st) (di_ct st) (di_mtime st), m :: r)
        else
          a <- add_file_appx m (fst (hd ([], []) scripts)) (snd (hd ([], []) scripts)) ;;
          if negb (e_offset (am_ent m) =? pos) then Err AE_NOTCONTIG else
          let fa := add_file (di_files st) (di_dirloc st) (am_ent m) (am_total_go m) in
          digest_copy r size (pos + am_total_go m)
            (mkDI (di_kept st ++ [m]) (di_axpc st ++ ar_raw a)
                  (match ar_file a with Some f => di_bm st ++ [f] | None => di_bm st end)
                  (di_unverified st || ar_unverified a) (fst fa) (snd fa)
                  (di_npe st + (if is_pe (am_name m) then 2 else 0)) (di_patch_start st) (di_patch_len st)
                  (di_manifest st) (di_bundle st) (di_ct st) (if appx_mtime_from_payload then (e_mtime (am_ent m), e_mdate (am_ent m)) else di_mtime st))
            (tl scripts)
    end.
  (* second loop: the footprint members are read and parsed; anything else there is out of order *)
  Fixpoint digest_footprint (ms : list amember) (st : dinfo) : result dinfo :=
    match ms with
    | [] => Ok st
    | m :: r =>
        x <- member_read m ToEOF [] ;;
        let blob := snd x in
        let a := footprint_action (am_name m) in
        let upd := fun man bun bm unv ct =>
                     mkDI (di_kept st) (di_axpc st) bm unv (di_files st) (di_dirloc st) (di_npe st) (di_patch_start st) (di_patch_len st) man bun ct (di_mtime st) in
        if a =? 0 then digest_footprint r (upd (Some blob) (di_bundle st) (di_bm st) (di_unverified st) (di_ct st))
        else if a =? 1 then digest_footprint r (upd (di_manifest st) (Some blob) (di_bm st) (di_unverified st) (di_ct st))
        else if a =? 2 then
          match parse_bm blob with
          | None => Err AE_BMPARSE
          | Some olds => bm <- copy_sizes olds (di_bm st) ;;
                         digest_footprint r (upd (di_manifest st) (di_bundle st) bm (if appx_copysizes_clears_flag then false else di_unverified st) (di_ct st))
          end
        else if a =? 3 then
          match parse_ct blob with
          | None => Err AE_CTPARSE
          | Some c => digest_footprint r (upd (di_manifest st) (di_bundle st) (di_bm st) (di_unverified st)
                                              (mkCT (fold_left (fun acc p => amap_set (fst p) (snd p) acc) (ct_ext c) (ct_ext (di_ct st)))
                                                    (fold_left (fun acc p => amap_set (fst p) (snd p) acc) (ct_ovr c) (ct_ovr (di_ct st)))))
          end
        else if a =? 4 then digest_footprint r st
        else Err AE_ORDER
    end.
  Definition digest_appx (ms : list amember) (size : Z) (scripts : list (list Z * list Z)) : result dinfo :=
    if negb (list_eqb Z.eqb appx_digest_calls [0; 1; 2; 3; 4; 5]) then Err AE_SHAPE else
    x <- digest_copy ms size 0 di_init scripts ;;
    st <- digest_footprint (if appx_footprint_starts_after_kept then snd x else ms) (fst x) ;;
    if appx_missing_manifest (match di_manifest st with None => true | _ => false end) (match di_bundle st with None => true | _ => false end)
    then Err AE_NOMANIFEST else Ok st.

  (* addZipEntry: NewFile (C17 new_file; deflate level 9 / CRC-32 are library functions) then blockMap.AddFile(f, axpc, nil) *)
  Definition new_member (name contents : bytes) (mt : Z * Z) : amember :=
    let dfl := appx_entry_deflate name in
    let ud := appx_entry_use_desc name in
    let cdata := if dfl then deflate contents else contents in
    let method := if dfl then 8 else 0 in
    let crc := crc32 contents in
    let nf := new_file name [] cdata (zlen contents) crc method (fst mt) (snd mt) ud in
    let rdr := if nf_desc_branch ud then nf_desc_reader else nf_reader0 in
    let flg := if nf_desc_branch ud then nf_desc_flags else 0 in
    mkAM (snd nf)
         (enc_struct lfh_widths (new_file_lfh rdr flg method (fst mt) (snd mt) crc (zlen cdata) (zlen contents) name [] ud) ++ name ++ [])
         cdata
         (if nf_write_desc ud then enc_struct dd64_widths (nf_desc64 crc (zlen cdata) (zlen contents)) else [])
         (if dfl then [mkSeg cdata contents] else []) [] crc.
  Record sstate := mkSS { ss_new : list amember; ss_axpc : bytes; ss_bm : list bfile; ss_files : list cdent; ss_dirloc : Z }.
  Definition add_zip_entry (name contents : bytes) (mt : Z * Z) (st : sstate) : result sstate :=
    if negb (appx_entry_newfile_args && appx_entry_feeds_axpc) then Err AE_SHAPE else
    let m0 := new_member name contents mt in
    let fa := add_file (ss_files st) (ss_dirloc st) (am_ent m0) (am_total_go m0) in
    let m := mkAM (last (fst fa) ent0) (am_lfh m0) (am_raw m0) (am_dd m0) (am_segs m0) (am_trail m0) (am_crc m0) in
    a <- add_file_appx m [] [] ;;
    Ok (mkSS (ss_new st ++ [m]) (ss_axpc st ++ ar_raw a) (match ar_file a with Some f => ss_bm st ++ [f] | None => ss_bm st end) (fst fa) (snd fa)).

  Record signed := mkSG { sg_members : list amember;     (* kept ++ manifest, block map, content types, [catalog], signature *)
                          sg_files : list cdent; sg_dirloc : Z; sg_directory : bytes;   (* what WriteDirectory wrote behind them *)
                          sg_patch_start : Z; sg_patch : bytes;
                          sg_axpc : bytes; sg_axcd : bytes; sg_axct : bytes; sg_axbm : bytes; sg_axci : option bytes;  (* the five preimages *)
                          sg_blob : bytes; sg_bm : list bfile; sg_ct : ctypes }.
  Definition sign_appx (st : dinfo) : result signed :=
    if negb (list_eqb Z.eqb appx_sign_calls [0; 1; 2; 3; 4; 5; 6] && appx_sign_directory_forced_zip64_single_writer && appx_sign_patch_is_tail
             && appx_sign_directory_into_patch && appx_axcd_is_forced_zip64_single_writer && appx_pkcx_appends_pkcs7 && appx_sig_entry_args
             && appx_blockmap_entry_args && appx_ctypes_entry_args && appx_catalog_entry_args && list_eqb Z.eqb appx_ctypes_add_order [0; 1; 2])
    then Err AE_SHAPE else
    let mt := di_mtime st in
    let s0 := mkSS [] (di_axpc st) (di_bm st) (di_files st) (di_dirloc st) in
    (* writeManifest *)
    s1 <- (match di_manifest st, di_bundle st with
           | Some man, _ => if appx_manifest_is_package false then add_zip_entry appx_n_manifest (repub man) mt s0 else Err AE_NOMANIFEST
           | None, Some bun => add_zip_entry appx_n_bundlemanifest (repub bun) mt s0
           | None, None => Err AE_NOMANIFEST
           end) ;;
    (* writeBlockMap *)
    (if appx_marshal_refuses (di_unverified st) then Err AE_UNVERIFIED else
     let bmx := ser_bm (ss_bm s1) in
     s2 <- add_zip_entry appx_n_blockmap bmx mt s1 ;;
     (* writeContentTypes *)
     let ct := ct_regen (di_ct st) (map e_name (ss_files s2)) (di_npe st) in
     let ctx := ser_ct ct in
     s3 <- add_zip_entry appx_n_contenttypes ctx mt s2 ;;
     (* writeCodeIntegrity *)
     s4 <- (if appx_no_catalog (di_npe st) then Ok s3 else add_zip_entry appx_n_codeintegrity mkcat mt s3) ;;
     let axci := if appx_no_catalog (di_npe st) then None else Some mkcat in
     (* writeSignature *)
     let axcd := cd_bytes (ss_files s4) ++ wd_tail (ss_files s4) (ss_dirloc s4) true in
     let blob := blob_marshal (H (ss_axpc s4)) (H axcd) (if appx_axct_is_plain_ctypes then H ctx else []) (if appx_axbm_is_plain_blockmap then H bmx else [])
                              (match axci with Some c => if appx_axci_is_plain_catalog then H c else [] | None => [] end) in
     s5 <- add_zip_entry appx_n_signature (appx_pkcx_magic ++ mksig blob) mt s4 ;;
     let dirb := cd_bytes (ss_files s5) ++ wd_tail (ss_files s5) (ss_dirloc s5) true in
     Ok (mkSG (di_kept st ++ ss_new s5) (ss_files s5) (ss_dirloc s5) dirb (di_patch_start st)
              (concat (map am_extent (ss_new s5)) ++ dirb)
              (ss_axpc s4) axcd ctx bmx axci blob (ss_bm s1) ct)).

  (* ---- Verify, the digest part: what the verifier recomputes from a signed package (members, the directory relic parses
     from it, the file bytes) and compares with the blob inside the signature *)
  Variable open_sig : bytes -> option (Z * bytes).   (* PKCS#7 verification of the PKCX payload: digest size and digest blob *)
  Definition find_member (name : bytes) (ms : list amember) : option amember :=
    find (fun m => bytes_eqb (am_name m) name) (rev ms).                 (* files[file.Name] = file: the last one wins *)
  Definition verify_file (ms : list amember) (dm : list (bytes * bytes)) (tag name : bytes) : result unit :=
    let expected := dm_get tag dm in
    match find_member name ms with
    | None => if appx_vfile_absent true then (if appx_vfile_absent_ok (match expected with None => true | _ => false end) then Ok tt else Err AE_BADSIG) else Err AE_SHAPE
    | Some zf =>
        match expected with
        | None => if appx_vfile_unsigned true then Err AE_BADSIG else Err AE_SHAPE
        | Some e => if appx_vfile_hashes_plain_content && bytes_eqb (H (am_out zf)) e then Ok tt else Err AE_BADSIG
        end
    end.
  Fixpoint verify_files (ms : list amember) (dm : list (bytes * bytes)) (l : list (bytes * bytes)) : result unit :=
    match l with [] => Ok tt | (tag, name) :: r => _ <- verify_file ms dm tag name ;; verify_files ms dm r end.
  (* sigIdx: index of the signature entry; anything behind it is an error *)
  Fixpoint sig_index (fs : list cdent) (i sig_idx : Z) : result Z :=
    match fs with
    | [] => Ok sig_idx
    | f :: r => if appx_meta_is_sig (e_name f) then sig_index r (i + 1) i
                else if appx_meta_after_sig sig_idx then Err AE_ORDER else sig_index r (i + 1) sig_idx
    end.
  Definition pfile_of (f : bfile) : pfile := mkPF (bf_name f) (bf_size f) (map (fun b => (H (bb_data b), bb_size b)) (bf_blocks f)).
  Definition verify_appx (ms : list amember) (d : directory) (file : bytes) : result unit :=
    match find_member appx_n_signature ms with
    | None => Err AE_BADSIG                                                   (* NotSignedError *)
    | Some sg =>
        if negb (has_prefix appx_parse_pkcx (am_out sg)) then Err AE_BADSIG else
        p7 <- cslice appx_parse_pkcx_skip_lo appx_parse_pkcx_skip_hi (am_out sg) ;;
        match open_sig p7 with
        | None => Err AE_BADSIG
        | Some (hs, blob) =>
            dm <- blob_parse hs blob ;;
            _ <- verify_files ms dm appx_verify_files ;;
            _ <- (match find_member appx_n_blockmap ms with
                  | None => Err AE_BMPARSE
                  | Some b => match parse_bm (am_out b) with
                              | None => Err AE_BMPARSE
                              | Some bm => vbm_walk H ms (match find_member appx_n_bundlemanifest ms with Some _ => true | None => false end) (map pfile_of bm)
                              end
                  end) ;;
            _ <- (match find_member appx_n_codeintegrity ms with       (* verifyCatalog (its PKCS#7 checks are not modelled) *)
                  | None => if appx_catalog_absent_ok then Ok tt else Err AE_BADSIG
                  | Some _ => Ok tt
                  end) ;;
            idx <- sig_index (d_files d) 0 (-1) ;;
            if negb appx_meta_truncates_at_sig then Err AE_SHAPE else
            let body := verifier_axpc file (ztake idx ms) in
            dirb <- truncate_dir d idx ;;
            if negb (match dm_get (nth 0 appx_meta_tags []) dm with Some e => bytes_eqb (H body) e | None => false end) then Err AE_BADSIG
            else if negb (match dm_get (nth 1 appx_meta_tags []) dm with Some e => bytes_eqb (H dirb) e | None => false end) then Err AE_BADSIG
            else Ok tt
        end
    end.
End Appx.
