(* FmtAPPX/Properties.v — the APPX / MSIX signature layer (lib/signappx + the AXPC tee and Truncate of lib/zipslicer).
   Statements only; every theorem is closed by a lemma of FmtAPPX/Proofs*.v.  The property each theorem serves is named above it. *)
From Relic Require Import Base.Prelude Base.Enc Generated.C17_gen C17.Model Generated.FmtAPPX_gen FmtAPPX.Model.
From Relic Require Generated.C09_gen C09.Model.
From Relic Require FmtAPPX.ProofsA FmtAPPX.ProofsB FmtAPPX.ProofsC FmtAPPX.ProofsD FmtAPPX.ProofsW.

(* ================================================================== the digest blob inside AppxSignature.p7x *)
(* C01 C05: what writeSignature marshals is read back by readSignature as exactly the five digests under their tags — and by
   the specification's reader (tags and order fixed by the format; AXCI only when there is a catalog) as the same five *)
Theorem appx_digest_blob_roundtrip : forall hs axpc axcd axct axbm axci,
  0 <= hs -> zlen axpc = hs -> zlen axcd = hs -> zlen axct = hs -> zlen axbm = hs -> (zlen axci = 0 \/ zlen axci = hs) ->
  let blob := blob_marshal axpc axcd axct axbm axci in
  (exists m, blob_parse hs blob = Ok m /\ dm_get T_AXPC m = Some axpc /\ dm_get T_AXCD m = Some axcd /\ dm_get T_AXCT m = Some axct /\
             dm_get T_AXBM m = Some axbm /\ dm_get T_AXCI m = (if zlen axci =? 0 then None else Some axci)) /\
  spec_blob hs blob = Some (mkDg axpc axcd axct axbm (if zlen axci =? 0 then None else Some axci)).
Proof.
  intros hs axpc axcd axct axbm axci Hh H1 H2 H3 H4 H5 blob. split.
  - exists (FmtAPPX.ProofsA.canon_records axpc axcd axct axbm axci). split; [apply FmtAPPX.ProofsA.blob_roundtrip; assumption|].
    apply FmtAPPX.ProofsA.canon_lookup.
  - apply FmtAPPX.ProofsA.spec_blob_marshal; assumption.
Qed.
(* C05: every blob the specification's reader accepts is a blob relic's marshaller writes (so relic reads it as the same digests) *)
Theorem appx_blob_spec_is_canonical : forall hs d g, 0 <= hs -> spec_blob hs d = Some g -> (dg_axci g = None \/ 0 < hs) ->
  let x := match dg_axci g with Some x => x | None => [] end in
  d = blob_marshal (dg_axpc g) (dg_axcd g) (dg_axct g) (dg_axbm g) x /\
  zlen (dg_axpc g) = hs /\ zlen (dg_axcd g) = hs /\ zlen (dg_axct g) = hs /\ zlen (dg_axbm g) = hs /\
  (zlen x = 0 \/ zlen x = hs) /\ dg_axci g = (if zlen x =? 0 then None else Some x).
Proof. intros hs d g Hh H Hc. exact (FmtAPPX.ProofsA.spec_blob_is_canonical hs d g Hh H Hc). Qed.
(* C11: the blob parser never slices out of range and its loop terminates, for every byte string and digest size *)
Theorem appx_blob_parse_no_panic : forall hs d, 0 <= hs -> no_panic (blob_parse hs d) /\ blob_parse hs d <> Err AE_FUEL.
Proof. intros hs d Hh. split; [apply FmtAPPX.ProofsA.blob_parse_no_panic | apply FmtAPPX.ProofsA.blob_parse_fuel]; assumption. Qed.
(* C02 (leniency, witness): relic's reader accepts a blob with a repeated tag and takes the last record; the format has one *)
Theorem appx_blob_parser_lenient_refuted :
  exists hs d, (exists m, blob_parse hs d = Ok m /\ dm_get T_AXPC m = Some [2]) /\ spec_blob hs d = None.
Proof. exists 1, FmtAPPX.ProofsW.w_dup_blob. split; [exact FmtAPPX.ProofsW.w_dup_relic | exact FmtAPPX.ProofsW.w_dup_spec]. Qed.

(* ================================================================== AXPC *)
(* C01 C02 C05 C08: for EVERY member the ZIP layer accepts — also one whose CompressedSize reaches beyond the final deflate block —
   and EVERY way the source splits its reads, a member read to EOF through the tee underneath the inflater delivers every raw
   byte to the AXPC hash: the inflater stops asking after the final block, the buffer in between only reads ahead, and at EOF
   the reader pulls the rest of the compressed extent through the tee (relic 71d8dc1); AddFile reads to EOF *)
Theorem appx_tee_sees_every_raw_byte : forall m script, am_ok m ->
  member_read m ToEOF script = Ok (am_raw m, am_out m) /\ addfile_demand = Some ToEOF /\ reader_drains = true.
Proof. intros. split; [now apply FmtAPPX.ProofsA.member_read_eof | split; [exact FmtAPPX.ProofsB.demand_is_eof | exact FmtAPPX.ProofsA.drains]]. Qed.
(* ... so what the signer accumulates over any list of members = local header ++ raw bytes ++ descriptor of each, in order
   (the specification's AXPC) = what Directory.Truncate copies out of the file, wherever the members lie back to back *)
Theorem appx_axpc_is_all_raw_bytes : forall ms scripts pre post, Forall am_ok ms -> laid_out (zlen pre) ms ->
  signer_axpc ms scripts = Ok (spec_axpc ms) /\ verifier_axpc (pre ++ spec_axpc ms ++ post) ms = spec_axpc ms.
Proof. intros. split; [now apply FmtAPPX.ProofsB.signer_axpc_spec | now apply FmtAPPX.ProofsB.verifier_axpc_spec]. Qed.
(* the class of the seeded change C09-r2, which the drain at EOF does NOT repair: a caller that stops at UncompressedSize never
   drives the reader to its EOF, so neither the inflater nor the drain pulls the tail of the stream through the tee; reading to
   EOF does (empty deflated member, raw bytes 03 00; and the member with 4096 bytes behind its final block) *)
Theorem appx_axpc_needs_eof_demand : exists m, am_ok m /\ am_tight m /\
  member_read m ToSize [] = Ok ([], []) /\ member_read m ToEOF [] = Ok (am_raw m, []) /\ am_raw m = [3; 0].
Proof.
  exists FmtAPPX.ProofsW.w_empty. destruct FmtAPPX.ProofsW.w_empty_ok as [H1 H2].
  split; [exact H1|]. split; [exact H2|]. split; [exact FmtAPPX.ProofsW.w_empty_to_size|]. split; [exact FmtAPPX.ProofsW.w_empty_to_eof|reflexivity].
Qed.
(* regression for FMTAPPX:appx:axpc-signer-differs@trailing-bytes (fixed): the former counterexample — a deflated member whose
   CompressedSize reaches a buffer length beyond its final block — now has all 4098 raw bytes hashed *)
Example appx_axpc_trailing_bytes_regression : am_ok FmtAPPX.ProofsW.w_trail /\ am_trail FmtAPPX.ProofsW.w_trail <> [] /\
  member_read FmtAPPX.ProofsW.w_trail ToEOF [] = Ok (am_raw FmtAPPX.ProofsW.w_trail, []) /\ zlen (am_raw FmtAPPX.ProofsW.w_trail) = 4098 /\
  member_read FmtAPPX.ProofsW.w_trail ToSize [] = Ok ([], []).
Proof.
  split; [exact FmtAPPX.ProofsW.w_trail_ok|]. destruct FmtAPPX.ProofsW.w_trail_not_tight as [T L].
  split; [exact T|]. split; [exact FmtAPPX.ProofsW.w_trail_reads|]. split; [exact L | exact FmtAPPX.ProofsW.w_trail_to_size].
Qed.

(* ================================================================== AXCD *)
(* C01 C05: the directory the signer hashes (WriteDirectory of everything but the signature, ZIP64 forced, located where the
   signature member will start) is the specification's AXCD, and it is byte for byte what Directory.Truncate reconstructs from
   the directory that is finally written (which also lists the signature and lies behind it): the entries of the appended
   members included, the signature's entry and the real count / size / offset excluded *)
Theorem appx_axcd_is_written_directory : forall files sg dirloc size,
  let pre := cd_bytes files ++ wd_tail files (e_offset sg) true in
  pre = spec_axcd (map dir_header files) (e_offset sg) /\
  truncate_dir (reread_dir (files ++ [sg]) dirloc size) (zlen files) = Ok pre.
Proof. intros. split; [apply FmtAPPX.ProofsB.axcd_is_spec | apply FmtAPPX.ProofsB.truncate_reread]. Qed.
(* C11: Truncate indexes d.File[n]: in range it never panics; verifyMeta passes sigIdx = -1 when the slicer's directory has no
   signature entry (not reachable through Verify, which finds the member first) *)
Theorem appx_truncate_no_panic : forall d n, 0 <= n < zlen (d_files d) -> no_panic (truncate_dir d n).
Proof. exact FmtAPPX.ProofsB.truncate_no_panic. Qed.
Theorem appx_truncate_without_signature_refuted : forall d, truncate_dir d (-1) = Panic P_INDEX.
Proof. exact FmtAPPX.ProofsB.truncate_without_signature. Qed.

(* ================================================================== block map *)
(* C03 C05: AddFile records, for every read split, the 64 KiB blocks of the uncompressed data (C09 blockmap_split_indep), the DOS
   name, the uncompressed size and the local header size; CopySizes against the block map of the input package (the
   specification's: compressed block sizes for deflated members, none for stored ones; the manifest entry is skipped) yields the
   specification's block map of the kept members *)
Theorem appx_blockmap_spec : forall ms bss tail s os, length ms = length bss ->
  Forall am_ok ms -> Forall FmtAPPX.ProofsB.not_manifest_like ms -> Forall FmtAPPX.ProofsB.old_skipped tail ->
  (forall m, In m ms -> exists a, add_file_appx m s os = Ok a /\ ar_raw a = am_extent m /\
                                  (FmtAPPX.ProofsB.am_listed m = true -> ar_file a = Some (FmtAPPX.ProofsB.plain_bfile m))) /\
  copy_sizes (map (fun p => spec_bfile (fst p) (snd p)) (combine ms bss) ++ tail) (map FmtAPPX.ProofsB.plain_bfile ms) =
  Ok (map (fun p => spec_bfile (fst p) (snd p)) (combine ms bss)).
Proof.
  intros ms bss tail s os Hl Hok Hn Hs. split.
  - intros m Hin. rewrite Forall_forall in Hok. eexists. split; [apply FmtAPPX.ProofsB.add_file_appx_ok; auto|].
    cbn [ar_raw ar_file]. split; [reflexivity|]. intros ->. reflexivity.
  - unfold copy_sizes. change appx_copysizes_by_index with true. cbv iota.
    exact (FmtAPPX.ProofsB.copy_sizes_loop_spec ms bss [] tail Hl Hn Hs).
Qed.
(* C11: CopySizes never indexes out of range, whatever the old block map lists *)
Theorem appx_copysizes_no_panic : forall olds files, no_panic (copy_sizes olds files).
Proof.
  intros olds files p. unfold copy_sizes. destruct appx_copysizes_by_index; [|discriminate].
  apply FmtAPPX.ProofsB.copy_sizes_loop_no_panic. lia.
Qed.
(* C05 (witness): CopySizes does not require the old block map to cover the new one: with an old map that lists nothing, the flag
   that makes Marshal refuse is cleared and a deflated member's Block keeps no Size (the specification's has one) *)
Theorem appx_blockmap_sizes_unchecked_refuted : exists m bs,
  copy_sizes [] [FmtAPPX.ProofsB.plain_bfile m] = Ok [FmtAPPX.ProofsB.plain_bfile m] /\ appx_copysizes_clears_flag = true /\
  map bb_size (bf_blocks (FmtAPPX.ProofsB.plain_bfile m)) = [0] /\ map bb_size (bf_blocks (spec_bfile m bs)) = [5].
Proof. exists FmtAPPX.ProofsW.w_defl, [5]. exact FmtAPPX.ProofsW.w_nosizes. Qed.

(* ================================================================== content types *)
(* C03 (witnesses; the first is the known finding C03:spec:appx:payload-changed@content-types): the content type the package
   declared for a payload file, or for a footprint part, is replaced by relic's table when [Content_Types].xml is regenerated *)
Theorem appx_content_type_default_overwritten_refuted : exists c n, ct_find n (ct_regen c [n] 0) <> ct_find n c.
Proof.
  exists FmtAPPX.ProofsW.w_ct0, FmtAPPX.ProofsW.w_name. destruct FmtAPPX.ProofsW.w_ct_overwritten as [H1 H2]. rewrite H1, H2. discriminate.
Qed.
Theorem appx_content_type_override_overwritten_refuted : exists c n, ct_find n (ct_regen c [n] 0) <> ct_find n c.
Proof.
  exists FmtAPPX.ProofsW.w_ct1, appx_n_blockmap. destruct FmtAPPX.ProofsW.w_ovr_overwritten as (H1 & H2 & H3). intro E. apply H3. rewrite <- H2, <- H1. exact E.
Qed.

(* ================================================================== DigestAppxTar, Sign, Verify *)
(* C01 C08: DigestAppxTar on a package — well-formed payload members lying back to back from offset 0, then the first footprint
   member — keeps exactly the payload members, has accumulated the specification's AXPC over them, has them in the output
   directory at their offsets, and patches from the first footprint member to the end of the file *)
Theorem appx_digest_establishes : forall parse_bm parse_ct kept f rest size scripts st,
  Forall am_ok kept -> Forall FmtAPPX.ProofsD.not_footprint kept -> laid_out 0 kept ->
  in_names (am_name f) appx_footprint_names = true -> e_offset (am_ent f) = zlen (spec_axpc kept) ->
  digest_appx parse_bm parse_ct (kept ++ f :: rest) size scripts = Ok st ->
  FmtAPPX.ProofsC.dinv st /\ di_kept st = kept /\ di_patch_start st = e_offset (am_ent f) /\ di_patch_len st = size - e_offset (am_ent f).
Proof. exact FmtAPPX.ProofsD.digest_appx_establishes. Qed.

(* C01 C05: sign then verify.  For every package DigestAppxTar accepted (invariant above), whatever the library functions return
   (deflate, CRC-32, the XML serialisers, the manifest rewrite, the catalog, the PKCS#7 wrapper) and for every digest function of
   fixed positive size: the signed package is the kept members, the regenerated footprint, the signature LAST; the blob inside
   the signature parses; and each of the five digests in it is the digest of what the verifier recomputes from the signed file:
   AXPC over the members in front of the signature as Truncate copies them out of the file, AXCD over Truncate's reconstruction of
   the directory from the directory that was finally written, AXBM / AXCT / AXCI over the plain block map / content types /
   catalog members (AXCI absent exactly when there is no catalog) *)
Theorem appx_sign_then_verify : forall H deflate crc32 ser_bm ser_ct repub mkcat mksig st man sg hs,
  FmtAPPX.ProofsC.dinv st -> di_manifest st = Some man -> di_unverified st = false ->
  (forall x, zlen (H x) = hs) -> 0 < hs ->
  sign_appx H deflate crc32 ser_bm ser_ct repub mkcat mksig st = Ok sg ->
  let file := spec_axpc (sg_members sg) ++ sg_directory sg in
  exists front sigm dm dirb,
    sg_members sg = front ++ [sigm] /\ am_name sigm = appx_n_signature /\ am_out sigm = appx_pkcx_magic ++ mksig (sg_blob sg) /\
    blob_parse hs (sg_blob sg) = Ok dm /\
    truncate_dir (reread_dir (sg_files sg) (sg_dirloc sg) (zlen file)) (zlen front) = Ok dirb /\
    dm_get T_AXPC dm = Some (H (verifier_axpc file front)) /\
    dm_get T_AXCD dm = Some (H dirb) /\
    (exists mB, In mB front /\ am_name mB = appx_n_blockmap /\ dm_get T_AXBM dm = Some (H (am_out mB)) /\ am_out mB = ser_bm (sg_bm sg)) /\
    (exists mC, In mC front /\ am_name mC = appx_n_contenttypes /\ dm_get T_AXCT dm = Some (H (am_out mC))) /\
    match sg_axci sg with
    | Some _ => exists mK, In mK front /\ am_name mK = appx_n_codeintegrity /\ dm_get T_AXCI dm = Some (H (am_out mK))
    | None => dm_get T_AXCI dm = None
    end.
Proof. exact FmtAPPX.ProofsD.sign_then_verify_digests. Qed.
(* C01: verifyBlockMap's walk accepts a block map whose entries describe the listed members in order (DOS name, uncompressed
   size, one entry per 64 KiB block with the digest of that block): the count test (size+65535)/65536 and the 64 KiB reads of
   the verifier agree with the chunking of the signer for every size *)
Theorem appx_verify_blockmap_accepts : forall Hv ms fs extra, Forall am_ok ms ->
  Forall (fun m => appx_vbm_skips (in_names (am_name m) appx_nohash_names) false (am_name m) = negb (FmtAPPX.ProofsB.am_listed m)) ms ->
  Forall2 (FmtAPPX.ProofsD.describes) (filter FmtAPPX.ProofsB.am_listed ms) fs ->
  vbm_walk Hv ms false (map (FmtAPPX.ProofsD.vpfile Hv) fs ++ extra) = Ok tt.
Proof. exact FmtAPPX.ProofsD.vbm_walk_ok. Qed.

(* C03: signing keeps every payload member — same directory entry, same offset, same local header, raw bytes and descriptor —
   and the file in front of the patch; what is regenerated starts with AppxManifest.xml where the input's first footprint member
   started and ends with AppxSignature.p7x and the directory: the patch is exactly that *)
Theorem appx_payload_kept : forall H deflate crc32 ser_bm ser_ct repub mkcat mksig st man sg,
  FmtAPPX.ProofsC.dinv st -> di_manifest st = Some man -> di_unverified st = false ->
  sign_appx H deflate crc32 ser_bm ser_ct repub mkcat mksig st = Ok sg ->
  exists mM midr sigm, sg_members sg = di_kept st ++ (mM :: midr) ++ [sigm] /\ am_name mM = appx_n_manifest /\ am_name sigm = appx_n_signature /\
    e_offset (am_ent mM) = zlen (spec_axpc (di_kept st)) /\
    ztake (zlen (spec_axpc (di_kept st))) (spec_axpc (sg_members sg) ++ sg_directory sg) = spec_axpc (di_kept st) /\
    sg_patch_start sg = di_patch_start st /\
    spec_axpc (sg_members sg) ++ sg_directory sg = spec_axpc (di_kept st) ++ sg_patch sg.
Proof. exact FmtAPPX.ProofsD.payload_kept. Qed.

(* C08: re-signing.  Two packages with the same payload prefix and their first footprint member at the same place — a package
   and what relic made of it by signing (appx_payload_kept), any number of times — leave the digest loop with the same kept
   members, the same AXPC preimage (the specification's over the payload), the same output directory, block map entries and
   patch start: nothing of an existing signature, block map, content types or catalog enters them; the old footprint is
   inside the patched range and is replaced *)
Theorem appx_resign : forall kept f1 rest1 f2 rest2 size1 size2 scripts1 scripts2,
  Forall am_ok kept -> Forall FmtAPPX.ProofsD.not_footprint kept -> laid_out 0 kept ->
  in_names (am_name f1) appx_footprint_names = true -> in_names (am_name f2) appx_footprint_names = true ->
  e_offset (am_ent f1) = zlen (spec_axpc kept) -> e_offset (am_ent f2) = zlen (spec_axpc kept) ->
  exists s1 s2, digest_copy (kept ++ f1 :: rest1) size1 0 di_init scripts1 = Ok (s1, f1 :: rest1) /\
                digest_copy (kept ++ f2 :: rest2) size2 0 di_init scripts2 = Ok (s2, f2 :: rest2) /\
                di_kept s1 = kept /\ di_kept s2 = kept /\ di_axpc s1 = di_axpc s2 /\ di_axpc s1 = spec_axpc kept /\ di_files s1 = di_files s2 /\
                di_dirloc s1 = di_dirloc s2 /\ di_bm s1 = di_bm s2 /\ di_patch_start s1 = di_patch_start s2.
Proof. exact FmtAPPX.ProofsD.digest_ignores_footprint. Qed.

(* C02: what the digests cover.  The AXPC preimage the verifier recomputes IS the file in front of the signature member, so with a
   collision-free digest every byte of every payload member (local header, data as stored, descriptor) and of the regenerated
   manifest / block map / content types / catalog members is fixed by AXPC; the uncompressed data is fixed a second time by the
   block map under AXBM.  Not covered (witness): where the directory lies — Truncate rebuilds count, size and offsets — so bytes
   between the signature member and the directory change no digest (replayed on the real code: accepted) *)
Theorem appx_protect : forall front post, laid_out 0 front ->
  verifier_axpc (spec_axpc front ++ post) front = ztake (zlen (spec_axpc front)) (spec_axpc front ++ post).
Proof. exact FmtAPPX.ProofsD.verifier_axpc_is_prefix. Qed.
Theorem appx_directory_position_unprotected_refuted : forall files sg d1 s1 d2 s2,
  truncate_dir (reread_dir (files ++ [sg]) d1 s1) (zlen files) = truncate_dir (reread_dir (files ++ [sg]) d2 s2) (zlen files).
Proof. exact FmtAPPX.ProofsD.truncate_ignores_directory_position. Qed.

(* non-vacuity *)
Example blob_example : blob_marshal [1] [2] [3] [4] [] = T_APPX ++ T_AXPC ++ [1] ++ T_AXCD ++ [2] ++ T_AXCT ++ [3] ++ T_AXBM ++ [4].
Proof. reflexivity. Qed.
Example sign_hypotheses_satisfiable : exists st sg, FmtAPPX.ProofsW.ex_digest = Ok st /\ FmtAPPX.ProofsW.ex_sign st = Ok sg /\
  di_manifest st = Some [9; 9] /\ di_unverified st = false /\
  map am_name (sg_members sg) = [[97]; appx_n_manifest; appx_n_blockmap; appx_n_contenttypes; appx_n_signature] /\ sg_patch_start sg = 34.
Proof. exact FmtAPPX.ProofsW.ex_signs. Qed.
Example empty_deflated_member_ok : am_ok FmtAPPX.ProofsW.w_empty /\ am_tight FmtAPPX.ProofsW.w_empty.
Proof. exact FmtAPPX.ProofsW.w_empty_ok. Qed.
