(* FmtCAT/ProofsCodec.v — the text codecs (hex, base64, the JSON subset) against their specification readers, and the cosign
   payload / signature manifest decisions. *)
From Relic Require Import Base.Prelude Base.Enc Generated.C16_gen C16.Model C16.VModel Generated.FmtCAT_gen FmtCAT.Model.

Local Open Scope Z_scope.

Lemma all_bytes_cons'' b l : all_bytes (b :: l) = true <-> (0 <= b < 256) /\ all_bytes l = true.
Proof. unfold all_bytes. cbn [forallb]. rewrite andb_true_iff. unfold is_byte. split; intros [H1 H2]; split; auto; lia. Qed.

(* ------------------------------------------------------------------ hex *)
Lemma hexd_dec n : 0 <= n < 16 -> spec_hexv (hexd n) = Some n.
Proof.
  intros H. unfold hexd, spec_hexv. destruct (n <? 10) eqn:E.
  - replace ((48 <=? 48 + n) && (48 + n <=? 57)) with true by lia. f_equal. lia.
  - replace ((48 <=? 87 + n) && (87 + n <=? 57)) with false by lia.
    replace ((97 <=? 87 + n) && (87 + n <=? 102)) with true by lia. f_equal. lia.
Qed.
Theorem hex_roundtrip l : all_bytes l = true -> spec_hex_dec (hex_enc l) = Some l.
Proof.
  induction l as [|b l IH]; intros Hb; [reflexivity|].
  apply all_bytes_cons'' in Hb as [Hr Hb]. unfold hex_enc. cbn [flat_map app]. fold (hex_enc l). cbn [spec_hex_dec].
  rewrite !hexd_dec by lia. rewrite (IH Hb). f_equal. f_equal. lia.
Qed.
Lemma hex_enc_len l : zlen (hex_enc l) = 2 * zlen l.
Proof. induction l as [|b l IH]; [reflexivity|]. unfold hex_enc. cbn [flat_map app]. fold (hex_enc l). rewrite !zlen_cons, IH. lia. Qed.

(* the digest string go-digest builds is read back by the OCI reader: algorithm, and the raw digest *)
Lemma split_colon_app a r : ~ In 58 a -> split_colon (a ++ 58 :: r) = Some (a, r).
Proof.
  induction a as [|c a IH]; intros H; [reflexivity|]. cbn [app split_colon].
  destruct (c =? 58) eqn:E; [exfalso; apply H; left; lia|]. rewrite IH; [reflexivity|]. intro Hi. apply H. right. exact Hi.
Qed.
Theorem digest_wellformed name raw :
  In name [A_sha256; A_sha384; A_sha512] -> all_bytes raw = true ->
  zlen raw = (if bytes_eqb name A_sha256 then 32 else if bytes_eqb name A_sha384 then 48 else 64) ->
  spec_digest_parse (digest_str name raw) = Some (name, raw).
Proof.
  intros Hin Hb Hl. unfold spec_digest_parse, digest_str. cbn [app].
  rewrite split_colon_app.
  2:{ destruct Hin as [<-|[<-|[<-|[]]]]; cbn; intuition discriminate. }
  rewrite (hex_roundtrip raw Hb).
  assert (E1 : bytes_eqb A_sha256 A_sha256 = true) by reflexivity. assert (E2 : bytes_eqb A_sha384 A_sha256 = false) by reflexivity.
  assert (E3 : bytes_eqb A_sha384 A_sha384 = true) by reflexivity. assert (E4 : bytes_eqb A_sha512 A_sha256 = false) by reflexivity.
  assert (E5 : bytes_eqb A_sha512 A_sha384 = false) by reflexivity. assert (E6 : bytes_eqb A_sha512 A_sha512 = true) by reflexivity.
  destruct Hin as [<-|[<-|[<-|[]]]]; rewrite ?E1, ?E2, ?E3, ?E4, ?E5, ?E6 in *; rewrite Hl; reflexivity.
Qed.

(* ------------------------------------------------------------------ base64 *)
Lemma b64v_c n : 0 <= n < 64 -> spec_b64v (b64c n) = Some n /\ b64c n <> 61.
Proof.
  intros H. unfold b64c, spec_b64v.
  destruct (n <? 26) eqn:E1.
  { replace ((65 <=? 65 + n) && (65 + n <=? 90)) with true by lia. split; [f_equal; lia|lia]. }
  destruct (n <? 52) eqn:E2.
  { replace ((65 <=? 71 + n) && (71 + n <=? 90)) with false by lia. replace ((97 <=? 71 + n) && (71 + n <=? 122)) with true by lia. split; [f_equal; lia|lia]. }
  destruct (n <? 62) eqn:E3.
  { replace ((65 <=? n - 4) && (n - 4 <=? 90)) with false by lia. replace ((97 <=? n - 4) && (n - 4 <=? 122)) with false by lia.
    replace ((48 <=? n - 4) && (n - 4 <=? 57)) with true by lia. split; [f_equal; lia|lia]. }
  destruct (n =? 62) eqn:E4.
  { assert (n = 62) by lia. subst n. split; [reflexivity|lia]. }
  assert (n = 63) by lia. subst n. split; [reflexivity|lia].
Qed.
Lemma b64_dec_nil fuel : spec_b64_dec_f fuel [] = Some [].
Proof. destruct fuel; reflexivity. Qed.
Lemma b64_rt : forall n l, (length l <= n)%nat -> all_bytes l = true ->
  forall fuel, (length l < fuel)%nat \/ l = [] -> spec_b64_dec_f fuel (b64_enc l) = Some l.
Proof.
  induction n as [|n IH]; intros l Hn Hb fuel Hf.
  { destruct l; [apply b64_dec_nil|cbn in Hn; lia]. }
  destruct l as [|a [|b [|c r]]]; [apply b64_dec_nil| | |].
  - (* one octet *)
    apply all_bytes_cons'' in Hb as [Ha _]. destruct Hf as [Hf|Hf]; [|discriminate]. destruct fuel as [|f]; [cbn in Hf; lia|].
    cbn [b64_enc spec_b64_dec_f].
    destruct (b64v_c (a / 4)) as [E1 _]; [lia|]. destruct (b64v_c (a mod 4 * 16)) as [E2 _]; [lia|]. rewrite E1, E2.
    replace (61 =? 61) with true by reflexivity. cbn [andb]. cbv iota.
    replace (a mod 4 * 16 mod 16 =? 0) with true by lia. f_equal. f_equal. lia.
  - (* two octets *)
    apply all_bytes_cons'' in Hb as [Ha Hb]. apply all_bytes_cons'' in Hb as [Hb' _].
    destruct Hf as [Hf|Hf]; [|discriminate]. destruct fuel as [|f]; [cbn in Hf; lia|].
    cbn [b64_enc spec_b64_dec_f].
    destruct (b64v_c (a / 4)) as [E1 _]; [lia|]. destruct (b64v_c (a mod 4 * 16 + b / 16)) as [E2 _]; [lia|].
    destruct (b64v_c (b mod 16 * 4)) as [E3 N3]; [lia|]. rewrite E1, E2.
    replace (b64c (b mod 16 * 4) =? 61) with false by lia. cbn [andb]. rewrite E3. replace (61 =? 61) with true by reflexivity. cbv iota.
    replace (b mod 16 * 4 mod 4 =? 0) with true by lia. f_equal. f_equal; [lia|]. f_equal. lia.
  - (* a full group *)
    apply all_bytes_cons'' in Hb as [Ha Hb]. apply all_bytes_cons'' in Hb as [Hb' Hb]. apply all_bytes_cons'' in Hb as [Hc Hb].
    destruct Hf as [Hf|Hf]; [|discriminate]. destruct fuel as [|f]; [cbn in Hf; lia|].
    cbn [b64_enc spec_b64_dec_f].
    destruct (b64v_c (a / 4)) as [E1 _]; [lia|]. destruct (b64v_c (a mod 4 * 16 + b / 16)) as [E2 _]; [lia|].
    destruct (b64v_c (b mod 16 * 4 + c / 64)) as [E3 N3]; [lia|]. destruct (b64v_c (c mod 64)) as [E4 N4]; [lia|].
    rewrite E1, E2. replace (b64c (b mod 16 * 4 + c / 64) =? 61) with false by lia. cbn [andb]. rewrite E3.
    replace (b64c (c mod 64) =? 61) with false by lia. rewrite E4.
    rewrite (IH r); [|cbn in Hn; lia|exact Hb|destruct r; [right; reflexivity|left; cbn in Hf |- *; lia]].
    f_equal. f_equal; [lia|]. f_equal; [lia|]. f_equal. lia.
Qed.
Lemma b64_enc_longer l : l <> [] -> (length l < length (b64_enc l))%nat.
Proof.
  assert (K : forall n l, (length l <= n)%nat -> l <> [] -> (length l < length (b64_enc l))%nat).
  { induction n as [|n IH]; intros l0 Hn Hne; [destruct l0; [congruence|cbn in Hn; lia]|].
    destruct l0 as [|a [|b [|c r]]]; [congruence|cbn; lia|cbn; lia|].
    cbn [b64_enc length]. destruct r as [|d r]; [cbn; lia|].
    assert (length (d :: r) < length (b64_enc (d :: r)))%nat by (apply IH; [cbn in Hn |- *; lia|discriminate]). lia. }
  intros H. apply (K (length l)); [lia|exact H].
Qed.
Theorem b64_roundtrip l : all_bytes l = true -> spec_b64_dec (b64_enc l) = Some l.
Proof.
  intros Hb. unfold spec_b64_dec. apply (b64_rt (length l)); [lia|exact Hb|].
  destruct l as [|a l]; [right; reflexivity|left; apply b64_enc_longer; discriminate].
Qed.

(* ------------------------------------------------------------------ JSON subset *)
Fixpoint ser_members (m : list (bytes * json)) : bytes :=
  match m with
  | [] => []
  | [(k, x)] => json_quote k ++ [58] ++ json_ser x
  | (k, x) :: r => json_quote k ++ [58] ++ json_ser x ++ [44] ++ ser_members r
  end.
Fixpoint safe_members (m : list (bytes * json)) : bool :=
  match m with [] => true | (k, x) :: r => json_safe_str k && json_safe x && safe_members r end.
Fixpoint jsize (v : json) : nat :=
  match v with
  | JStr _ => 1
  | JObj m => S ((fix ms (m : list (bytes * json)) : nat := match m with [] => O | (_, x) :: r => S (jsize x + ms r) end) m)
  end.
Fixpoint msize (m : list (bytes * json)) : nat := match m with [] => O | (_, x) :: r => S (jsize x + msize r) end.
Lemma json_ser_obj m : json_ser (JObj m) = [123] ++ ser_members m ++ [125].
Proof.
  cbn [json_ser].
  match goal with |- [123] ++ ?g m ++ [125] = _ => set (f := g) end.
  assert (E : forall m', f m' = ser_members m').
  { induction m' as [|[k x] r IH]; [reflexivity|]. destruct r as [|[k2 x2] r']; [reflexivity|].
    change (json_quote k ++ [58] ++ json_ser x ++ [44] ++ f ((k2, x2) :: r') = json_quote k ++ [58] ++ json_ser x ++ [44] ++ ser_members ((k2, x2) :: r')).
    rewrite IH. reflexivity. }
  rewrite E. reflexivity.
Qed.
Lemma json_safe_obj m : json_safe (JObj m) = safe_members m.
Proof.
  cbn [json_safe].
  match goal with |- ?f m = _ => assert (E : forall m', f m' = safe_members m') end.
  { induction m' as [|[k x] r IH]; [reflexivity|]. cbn [safe_members]. rewrite <- IH. reflexivity. }
  apply E.
Qed.
Lemma jsize_obj m : jsize (JObj m) = S (msize m).
Proof.
  cbn [jsize].
  match goal with |- S (?f m) = _ => assert (E : forall m', f m' = msize m') end.
  { induction m' as [|[k x] r IH]; [reflexivity|]. cbn [msize]. rewrite <- IH. reflexivity. }
  rewrite E. reflexivity.
Qed.

Lemma chars_rt s rest : json_safe_str s = true -> spec_json_chars (s ++ 34 :: rest) = Some (s, rest).
Proof.
  induction s as [|c s IH]; intros H; [reflexivity|].
  cbn [json_safe_str forallb] in H. apply andb_true_iff in H as [Hc Hs]. unfold json_safe_char in Hc.
  cbn [app spec_json_chars]. replace (c =? 34) with false by lia. replace ((c =? 92) || (c <? 32)) with false by lia.
  rewrite (IH Hs). reflexivity.
Qed.
Lemma quote_app k r : json_quote k ++ r = 34 :: k ++ 34 :: r.
Proof. unfold json_quote. cbn [app]. rewrite <- app_assoc. reflexivity. Qed.

Lemma ser_members_cons k x p r : ser_members ((k, x) :: p :: r) = json_quote k ++ [58] ++ json_ser x ++ [44] ++ ser_members (p :: r).
Proof. reflexivity. Qed.
Lemma ser_members_one k x : ser_members [(k, x)] = json_quote k ++ [58] ++ json_ser x.
Proof. reflexivity. Qed.
Lemma jsize_pos v : (1 <= jsize v)%nat.
Proof. destruct v; [cbn; lia|rewrite jsize_obj; lia]. Qed.
Lemma rt_all : forall n,
  (forall v, (jsize v <= n)%nat -> json_safe v = true -> forall rest fuel, (jsize v <= fuel)%nat ->
             spec_json_value fuel (json_ser v ++ rest) = Some (v, rest)) /\
  (forall m, (msize m <= n)%nat -> m <> [] -> safe_members m = true -> forall rest g, (msize m <= g)%nat ->
             spec_json_members g (ser_members m ++ 125 :: rest) = Some (m, rest)).
Proof.
  induction n as [|n [IHv IHm]].
  { split.
    - intros v Hn. pose proof (jsize_pos v). lia.
    - intros m Hn Hne. destruct m as [|[k x] r]; [congruence|]. cbn [msize] in Hn. lia. }
  split.
  - intros v Hn. destruct v as [s|m].
    + intros Hs rest fuel Hf. destruct fuel as [|f]; [cbn in Hf; lia|].
      cbn [json_ser]. rewrite quote_app. cbn [spec_json_value]. cbn [json_safe] in Hs. rewrite (chars_rt _ _ Hs). reflexivity.
    + rewrite json_safe_obj, json_ser_obj. rewrite jsize_obj in Hn |- *. intros Hs rest fuel Hf.
      destruct fuel as [|f]; [lia|]. destruct m as [|[k x] r]; [reflexivity|].
      cbn [app]. rewrite <- app_assoc. cbn [app].
      assert (E : exists t, ser_members ((k, x) :: r) ++ 125 :: rest = 34 :: t).
      { destruct r; [rewrite ser_members_one|rewrite ser_members_cons]; rewrite quote_app; eexists; reflexivity. }
      destruct E as [t E]. cbn [spec_json_value]. rewrite E. rewrite <- E.
      rewrite IHm; [reflexivity|lia|discriminate|exact Hs|lia].
  - intros m Hn Hne Hs rest g Hg. destruct m as [|[k x] r]; [congruence|].
    cbn [safe_members] in Hs. apply andb_true_iff in Hs as [Hs Hr]. apply andb_true_iff in Hs as [Hk Hx].
    cbn [msize] in Hg, Hn. destruct g as [|g']; [lia|].
    destruct r as [|p r'].
    + rewrite ser_members_one. rewrite quote_app. cbn [spec_json_members app]. repeat (rewrite <- app_assoc; cbn [app]).
      rewrite (chars_rt _ _ Hk). pose proof (IHv x ltac:(lia) Hx (125 :: rest) g' ltac:(lia)) as Ex. rewrite Ex. reflexivity.
    + rewrite ser_members_cons. rewrite quote_app. cbn [spec_json_members app]. repeat (rewrite <- app_assoc; cbn [app]).
      rewrite (chars_rt _ _ Hk). pose proof (IHv x ltac:(lia) Hx (44 :: ser_members (p :: r') ++ 125 :: rest) g' ltac:(lia)) as Ex. rewrite Ex.
      rewrite (IHm (p :: r')); [reflexivity|lia|discriminate|exact Hr|lia].
Qed.
Lemma value_rt v : json_safe v = true -> forall rest fuel, (jsize v <= fuel)%nat ->
  spec_json_value fuel (json_ser v ++ rest) = Some (v, rest).
Proof. intros H. apply (proj1 (rt_all (jsize v))); [lia|exact H]. Qed.
Lemma len_all : forall n,
  (forall v, (jsize v <= n)%nat -> (jsize v <= length (json_ser v))%nat) /\
  (forall m, (msize m <= n)%nat -> (msize m <= length (ser_members m))%nat).
Proof.
  induction n as [|n [IHv IHm]].
  { split; [intros v Hn; pose proof (jsize_pos v); lia|]. intros m Hn. destruct m as [|[k x] r]; [cbn; lia|cbn [msize] in Hn; lia]. }
  split.
  - intros v Hn. destruct v as [s|m].
    + cbn [jsize json_ser]. unfold json_quote. rewrite !app_length. cbn. lia.
    + rewrite json_ser_obj. rewrite jsize_obj in Hn |- *. rewrite !app_length. cbn [length]. pose proof (IHm m ltac:(lia)). lia.
  - intros m Hn. destruct m as [|[k x] r]; [cbn; lia|]. cbn [msize] in Hn |- *.
    pose proof (IHv x ltac:(lia)). pose proof (IHm r ltac:(lia)).
    destruct r as [|p r']; [rewrite ser_members_one|rewrite ser_members_cons]; unfold json_quote; rewrite !app_length; cbn [length]; cbn [msize] in *; lia.
Qed.
Lemma jsize_le_len v : (jsize v <= length (json_ser v))%nat.
Proof. apply (proj1 (len_all (jsize v))). lia. Qed.
Theorem json_roundtrip v : json_safe v = true -> spec_json_parse (json_ser v) = Some v.
Proof.
  intros H. unfold spec_json_parse. rewrite <- (app_nil_r (json_ser v)) at 2.
  rewrite (value_rt v H); [reflexivity|]. pose proof (jsize_le_len v). lia.
Qed.

(* ------------------------------------------------------------------ cosign *)
Lemma cosign_layout_ok_true : cosign_layout_ok = true. Proof. vm_compute. reflexivity. Qed.
Definition K_critical : bytes := [99; 114; 105; 116; 105; 99; 97; 108].
Definition K_image : bytes := [105; 109; 97; 103; 101].
Definition K_dmd : bytes := [100; 111; 99; 107; 101; 114; 45; 109; 97; 110; 105; 102; 101; 115; 116; 45; 100; 105; 103; 101; 115; 116].
Definition K_type : bytes := [116; 121; 112; 101].
Definition K_optional : bytes := [111; 112; 116; 105; 111; 110; 97; 108].
Definition K_creator : bytes := [99; 114; 101; 97; 116; 111; 114].
Definition K_identity : bytes := [105; 100; 101; 110; 116; 105; 116; 121].
Definition V_type : bytes := (* "cosign container image signature" *)
  [99; 111; 115; 105; 103; 110; 32; 99; 111; 110; 116; 97; 105; 110; 101; 114; 32; 105; 109; 97; 103; 101; 32; 115; 105; 103; 110; 97; 116; 117; 114; 101].

(* the simple-signing document: for EVERY digest string without characters JSON escapes, the payload relic writes is read by an
   RFC 8259 reader as the object { critical: { image: { docker-manifest-digest: d }, type: "cosign container image signature" },
   optional: { creator: <user agent> } } with the members in that order *)
Theorem payload_spec d p : cosign_payload d = Ok p ->
  exists j, spec_json_parse p = Some j /\
    json_get [K_critical; K_image; K_dmd] j = Some (JStr d) /\
    json_get [K_critical; K_type] j = Some (JStr V_type) /\
    json_get [K_optional; K_creator] j = Some (JStr relic_user_agent) /\
    json_keys j = [K_critical; K_optional] /\
    option_map json_keys (json_get [K_critical] j) = Some [K_image; K_type] /\
    json_get [K_critical; K_identity] j = None.
Proof.
  unfold cosign_payload. destruct (json_safe (cosign_payload_value d)) eqn:Hs; [|discriminate]. intros H.
  assert (Hp : p = json_ser (cosign_payload_value d)) by congruence. clear H. subst p.
  exists (cosign_payload_value d). split; [exact (json_roundtrip _ Hs)|].
  repeat split; reflexivity.
Qed.
Lemma payload_safe d : json_safe_str d = true -> exists p, cosign_payload d = Ok p.
Proof.
  intros H. unfold cosign_payload.
  assert (E : json_safe (cosign_payload_value d) = true).
  { unfold cosign_payload_value. cbn [json_safe]. rewrite H. vm_compute. reflexivity. }
  rewrite E. eexists. reflexivity.
Qed.
Lemma hexd_safe n : 0 <= n < 16 -> json_safe_char (hexd n) = true.
Proof. intros H. unfold hexd, json_safe_char. destruct (n <? 10) eqn:E; lia. Qed.
Lemma hex_safe l : all_bytes l = true -> json_safe_str (hex_enc l) = true.
Proof.
  induction l as [|b l IH]; intros Hb; [reflexivity|]. apply all_bytes_cons'' in Hb as [Hr Hb].
  unfold hex_enc. cbn [flat_map app]. fold (hex_enc l). cbn [json_safe_str forallb]. rewrite !hexd_safe by lia. exact (IH Hb).
Qed.
Lemma digest_str_safe name raw : In name [A_sha256; A_sha384; A_sha512] -> all_bytes raw = true -> json_safe_str (digest_str name raw) = true.
Proof.
  intros Hin Hb. unfold digest_str, json_safe_str. rewrite !forallb_app. fold (json_safe_str (hex_enc raw)). rewrite (hex_safe raw Hb).
  destruct Hin as [<-|[<-|[<-|[]]]]; reflexivity.
Qed.
Lemma cosign_alg_names h name : cosign_alg h = Some name -> In name [A_sha256; A_sha384; A_sha512].
Proof.
  unfold cosign_alg, cosign_algorithms. cbn [assoc_z].
  destruct (5 =? h); [intros H; injection H as <-; left; reflexivity|].
  destruct (6 =? h); [intros H; injection H as <-; right; left; reflexivity|].
  destruct (7 =? h); [intros H; injection H as <-; right; right; left; reflexivity|discriminate].
Qed.
Lemma cosign_check_name mlen h jok mt name : cosign_check mlen h jok mt = Ok name -> cosign_alg h = Some name.
Proof.
  unfold cosign_check. rewrite cosign_layout_ok_true. cbn [negb]. destruct (cosign_too_big _); [discriminate|].
  destruct (cosign_alg h) as [n|]; [|destruct (cosign_dm_alg_refused false); discriminate].
  destruct (cosign_dm_alg_refused true); [discriminate|]. destruct (negb jok); [discriminate|].
  destruct (cosign_dm_no_media_type mt); [discriminate|]. destruct (cosign_dm_type_refused _); [discriminate|]. intros H. injection H as <-. reflexivity.
Qed.

(* C01 / C05: whenever cosign signs, (a) the signature value is the key's signature over the digest of EXACTLY the payload bytes stored
   in the layer, (b) the layer descriptor is the digest and size of those bytes, (c) the subject descriptor is the digest, size and media
   type of the manifest, (d) the annotation decodes (RFC 4648) to the signature, (e) the payload names the manifest digest, which
   (f) parses as a registered digest of the manifest *)
Theorem signature_over_payload Hf sgn key h manifest jok mt o :
  (forall a m, all_bytes (Hf a m) = true) -> (forall k m, all_bytes (sgn k m) = true) ->
  (forall m, zlen (Hf h m) = (if h =? 5 then 32 else if h =? 6 then 48 else 64)) ->
  cosign_sign Hf sgn key h manifest jok mt = Ok o ->
  co_sig o = sgn key (Hf h (co_payload o)) /\ co_layer_data o = co_payload o /\
  co_layer_size o = zlen (co_payload o) /\ co_subject_size o = zlen manifest /\ co_subject_type o = mt /\
  spec_b64_dec (co_sig_b64 o) = Some (co_sig o) /\
  (exists name, spec_digest_parse (co_subject_digest o) = Some (name, Hf h manifest) /\ spec_digest_parse (co_layer_digest o) = Some (name, Hf h (co_payload o))) /\
  exists j, spec_json_parse (co_payload o) = Some j /\ json_get [K_critical; K_image; K_dmd] j = Some (JStr (co_subject_digest o)) /\
            json_get [K_critical; K_type] j = Some (JStr V_type).
Proof.
  intros HH Hsg Hlen H. unfold cosign_sign in H.
  destruct (cosign_check (zlen manifest) h jok mt) as [name| |] eqn:Ec; cbn [bind] in H; try discriminate.
  pose proof (cosign_check_name _ _ _ _ _ Ec) as Ha. pose proof (cosign_alg_names _ _ Ha) as Hin.
  destruct (cosign_payload (digest_str name (Hf h manifest))) as [p| |] eqn:Ep; cbn [bind] in H; try discriminate.
  injection H as <-. cbn [co_sig co_payload co_layer_data co_layer_size co_subject_size co_subject_type co_sig_b64 co_subject_digest co_layer_digest].
  assert (Hw : forall m, zlen (Hf h m) = (if bytes_eqb name A_sha256 then 32 else if bytes_eqb name A_sha384 then 48 else 64)).
  { intros m. rewrite Hlen. unfold cosign_alg, cosign_algorithms in Ha. cbn [assoc_z] in Ha.
    destruct (5 =? h) eqn:E5; [injection Ha as <-; replace (h =? 5) with true by lia; reflexivity|].
    destruct (6 =? h) eqn:E6; [injection Ha as <-; replace (h =? 5) with false by lia; replace (h =? 6) with true by lia; reflexivity|].
    destruct (7 =? h) eqn:E7; [injection Ha as <-; replace (h =? 5) with false by lia; replace (h =? 6) with false by lia; reflexivity|discriminate]. }
  repeat split; try reflexivity.
  - apply b64_roundtrip. apply Hsg.
  - exists name. split; apply digest_wellformed; auto.
  - destruct (payload_spec _ _ Ep) as (j & Hj & H1 & H2 & _). exists j. auto.
Qed.

(* C01: the refusals, all explicit errors: too large, unsupported digest, not JSON, no media type, media type not signable *)
Theorem refuses_clean Hf sgn key h manifest jok mt :
  (cosign_max_size < zlen manifest -> cosign_sign Hf sgn key h manifest jok mt = Err E_COSIGN_BIG) /\
  (zlen manifest <= cosign_max_size -> ~ In h [5; 6; 7] -> cosign_sign Hf sgn key h manifest jok mt = Err E_COSIGN_ALG) /\
  (zlen manifest <= cosign_max_size -> In h [5; 6; 7] -> jok = false -> cosign_sign Hf sgn key h manifest jok mt = Err E_COSIGN_JSON) /\
  (zlen manifest <= cosign_max_size -> In h [5; 6; 7] -> jok = true -> mt = [] -> cosign_sign Hf sgn key h manifest jok mt = Err E_COSIGN_NOTYPE) /\
  (zlen manifest <= cosign_max_size -> In h [5; 6; 7] -> jok = true -> mt <> [] -> existsb (bytes_eqb mt) cosign_allowed_types = false ->
   cosign_sign Hf sgn key h manifest jok mt = Err E_COSIGN_TYPE).
Proof.
  unfold cosign_sign, cosign_check. rewrite cosign_layout_ok_true. cbn [negb]. unfold cosign_too_big, cosign_read_limit.
  assert (A : forall h, In h [5; 6; 7] -> exists n, cosign_alg h = Some n).
  { intros h0 [<-|[<-|[<-|[]]]]; eexists; reflexivity. }
  assert (B : forall h, ~ In h [5; 6; 7] -> cosign_alg h = None).
  { intros h0 Hn. unfold cosign_alg, cosign_algorithms. cbn [assoc_z].
    destruct (5 =? h0) eqn:E5; [exfalso; apply Hn; left; lia|]. destruct (6 =? h0) eqn:E6; [exfalso; apply Hn; right; left; lia|].
    destruct (7 =? h0) eqn:E7; [exfalso; apply Hn; right; right; left; lia|reflexivity]. }
  repeat split.
  - intros Hb. replace (Z.min (zlen manifest) (cosign_max_size + 1) >? cosign_max_size) with true by lia. reflexivity.
  - intros Hs Hn. replace (Z.min (zlen manifest) (cosign_max_size + 1) >? cosign_max_size) with false by lia. rewrite (B _ Hn). reflexivity.
  - intros Hs Hi ->. replace (Z.min (zlen manifest) (cosign_max_size + 1) >? cosign_max_size) with false by lia. destruct (A _ Hi) as [n ->]. reflexivity.
  - intros Hs Hi -> ->. replace (Z.min (zlen manifest) (cosign_max_size + 1) >? cosign_max_size) with false by lia. destruct (A _ Hi) as [n ->]. reflexivity.
  - intros Hs Hi -> Hm He. replace (Z.min (zlen manifest) (cosign_max_size + 1) >? cosign_max_size) with false by lia. destruct (A _ Hi) as [n ->].
    cbn [negb]. unfold cosign_dm_no_media_type, cosign_dm_type_refused. rewrite He.
    replace (bytes_eqb mt []) with false by (destruct mt; [congruence|reflexivity]). reflexivity.
Qed.
(* ... and everything else is signed (given a hash whose output encoding/json does not escape: always, it is hex) *)
Theorem signs_signable Hf sgn key h manifest mt :
  (forall a m, all_bytes (Hf a m) = true) ->
  zlen manifest <= cosign_max_size -> In h [5; 6; 7] -> existsb (bytes_eqb mt) cosign_allowed_types = true ->
  exists o, cosign_sign Hf sgn key h manifest true mt = Ok o.
Proof.
  intros HH Hs Hi He. unfold cosign_sign, cosign_check. rewrite cosign_layout_ok_true. cbn [negb]. unfold cosign_too_big, cosign_read_limit.
  replace (Z.min (zlen manifest) (cosign_max_size + 1) >? cosign_max_size) with false by lia.
  assert (A : exists n, cosign_alg h = Some n) by (destruct Hi as [<-|[<-|[<-|[]]]]; eexists; reflexivity).
  destruct A as [n Hn]. rewrite Hn. cbn [negb]. unfold cosign_dm_no_media_type.
  assert (mt <> []).
  { intros ->. vm_compute in He. discriminate. }
  unfold cosign_dm_type_refused. rewrite He. replace (bytes_eqb mt []) with false by (destruct mt; [congruence|reflexivity]). cbn [negb bind].
  destruct (payload_safe (digest_str n (Hf h manifest))) as [p Hp].
  { apply digest_str_safe; [apply (cosign_alg_names _ _ Hn)|apply HH]. }
  change (cosign_dm_alg_refused true) with false. cbv iota. cbn [bind]. rewrite Hp. cbn [bind]. eexists. reflexivity.
Qed.
(* C11: no input makes the decision part panic (the model has no Panic source: every guard is an explicit error) *)
Theorem no_panic Hf sgn key h manifest jok mt e : cosign_sign Hf sgn key h manifest jok mt <> Panic e.
Proof.
  unfold cosign_sign. destruct (cosign_check (zlen manifest) h jok mt) eqn:Ec; cbn [bind]; try discriminate.
  - unfold cosign_payload. destruct (json_safe _); cbn [bind]; discriminate.
  - exfalso. unfold cosign_check in Ec. destruct (negb cosign_layout_ok); [discriminate|]. destruct (cosign_too_big _); [discriminate|].
    destruct (cosign_alg h); [|destruct (cosign_dm_alg_refused false); discriminate].
    destruct (cosign_dm_alg_refused true); [discriminate|]. destruct (negb jok); [discriminate|].
    destruct (cosign_dm_no_media_type mt); [discriminate|]. destruct (cosign_dm_type_refused _); discriminate.
Qed.
