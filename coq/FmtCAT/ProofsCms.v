(* FmtCAT/ProofsCms.v — magic.Detect; signers/cat.sign, the PKCS#7 sign / verify round trips over C16's CMS model. *)
From Relic Require Import Base.Prelude Base.Enc Generated.C16_gen C16.Model C16.Tlv C16.Proofs C16.VModel C16.VProofs Generated.FmtCAT_gen FmtCAT.Model.

Local Open Scope Z_scope.

(* ================================================================== magic.Detect *)
Lemma has_prefix_len p : forall l, has_prefix p l = true -> zlen p <= zlen l.
Proof.
  induction p as [|a p IH]; intros l H; [rewrite zlen_nil; apply zlen_nonneg|].
  destruct l as [|b l]; [discriminate|]. cbn [has_prefix] in H. apply andb_true_iff in H as [_ H]. rewrite !zlen_cons. specialize (IH _ H). lia.
Qed.
Lemma contains_len p : forall l, contains_b p l = true -> zlen p <= zlen l.
Proof.
  induction l as [|b l IH]; intros H; cbn [contains_b] in H.
  - rewrite orb_false_r in H. apply has_prefix_len. exact H.
  - apply orb_true_iff in H as [H|H]; [apply has_prefix_len; exact H|]. specialize (IH H). rewrite zlen_cons. lia.
Qed.
Lemma ztake_len_le {A} n (l : list A) : zlen (ztake n l) <= zlen l /\ (0 <= n <= zlen l -> zlen (ztake n l) = n).
Proof. split; [unfold zlen, ztake; rewrite firstn_length; lia|apply zlen_ztake]. Qed.
Lemma test_prefix t p f : magic_test (0, t, p, 0) f = has_prefix p f.
Proof.
  unfold magic_test. change (0 =? 0) with true. cbv iota. unfold magic_at_short.
  destruct (has_prefix p f) eqn:E; [|apply andb_false_r].
  apply has_prefix_len in E. pose proof (zlen_nonneg p). rewrite zlen_ztake by lia. replace (zlen p <? zlen p) with false by lia. reflexivity.
Qed.
Lemma test_contains t p w f : magic_test (1, t, p, w) f = contains_b p (ztake w f).
Proof.
  unfold magic_test. change (1 =? 0) with false. cbv iota.
  destruct (contains_b p (ztake w f)) eqn:E; [|apply andb_false_r].
  apply contains_len in E. replace (zlen (ztake w f) <? zlen p) with false by lia. reflexivity.
Qed.
Definition P_rpm : bytes := [237; 171; 238; 219].
Definition P_deb : bytes := [33; 60; 97; 114; 99; 104; 62; 10; 100; 101; 98; 105; 97; 110].
Definition P_pgp : bytes := [45; 45; 45; 45; 45; 66; 69; 71; 73; 78; 32; 80; 71; 80].
Definition P_ctl : bytes := 6 :: 9 :: OID_ctl.
Definition P_sd : bytes := 6 :: 9 :: enc_oid oid_signed_data.
(* the clauses, in order: what magic.Detect answers is decided by three prefixes and two markers in the first 256 bytes *)
Theorem detect_spec f :
  detect f = if has_prefix P_rpm f then Some magic_FileTypeRPM else if has_prefix P_deb f then Some magic_FileTypeDEB
             else if has_prefix P_pgp f then Some magic_FileTypePGP
             else if contains_b P_ctl (ztake 256 f) then Some magic_FileTypeCAT
             else if contains_b P_sd (ztake 256 f) then Some magic_FileTypePKCS7 else None.
Proof.
  unfold detect. change magic_helpers_ok with true. cbv iota. unfold magic_table. cbn [detect_in magic_type].
  rewrite !test_prefix, !test_contains. reflexivity.
Qed.
(* C01: a DER file (first octet 0x30) that carries the certTrustList object identifier within its first 256 bytes goes to the
   catalog signer *)
Theorem routes_catalog r : contains_b P_ctl (ztake 256 (48 :: r)) = true -> detect (48 :: r) = Some magic_FileTypeCAT.
Proof. intros H. rewrite detect_spec. cbn [has_prefix P_rpm P_deb P_pgp Z.eqb andb]. rewrite H. reflexivity. Qed.
Theorem routes_pkcs7 r : contains_b P_ctl (ztake 256 (48 :: r)) = false -> contains_b P_sd (ztake 256 (48 :: r)) = true ->
  detect (48 :: r) = Some magic_FileTypePKCS7.
Proof. intros H1 H2. rewrite detect_spec. cbn [has_prefix P_rpm P_deb P_pgp Z.eqb andb]. rewrite H1, H2. reflexivity. Qed.

(* ================================================================== the signer and what it contributes *)
Definition signer_wf (S : signer) : Prop :=
  (exists ti, valid ti /\ sg_issuer S = t_full ti) /\
  all_bytes (sg_serial S) = true /\ int_ok (sg_serial S) = true /\ small (sg_serial S) /\
  wf_alg (sg_dalg S) /\ wf_alg (sg_ealg S) /\ wf_raws (sg_chain S) /\ sg_chain S <> [] /\ sg_samekey S = true.

(* the SignerInfo relic builds when there are no attributes, and its parsed form *)
Definition new_si (S : signer) (sig : bytes) : sinfo :=
  mkSi [] sign_si_Version (sg_issuer S) (sg_serial S) (sg_dalg S) None (sg_ealg S) sig None.
Definition si_body (S : signer) (sig : bytes) : bytes :=
  enc_tlv T_INT (enc_int sign_si_Version) ++ enc_tlv T_SEQ (sg_issuer S ++ enc_tlv T_INT (sg_serial S)) ++
  emit_algid (sg_dalg S) ++ emit_algid (sg_ealg S) ++ enc_tlv T_OCT sig.
Definition si_tlv (S : signer) (sig : bytes) : tlv := mkTlv T_SEQ (si_body S sig) (enc_tlv T_SEQ (si_body S sig)).
Definition parsed_si (S : signer) (sig : bytes) : sinfo :=
  mkSi (enc_tlv T_SEQ (si_body S sig)) sign_si_Version (sg_issuer S) (sg_serial S) (sg_dalg S) None (sg_ealg S) sig None.

Lemma emit_new_si S sig : emit_si (new_si S sig) = enc_tlv T_SEQ (si_body S sig).
Proof.
  unfold emit_si, new_si. cbn [si_raw]. unfold emit_si_fields. cbn [si_version si_issuer si_serial si_dalg si_auth si_ealg si_sig si_unauth emit_opt_attrs].
  unfold si_body. rewrite !app_nil_r. cbn [app]. reflexivity.
Qed.

Lemma small_sub a b : small (a ++ b) -> small a /\ small b. Proof. apply small_app. Qed.

Lemma si_reparse S sig : signer_wf S -> all_bytes sig = true -> small (enc_tlv T_SEQ (si_body S sig)) ->
  valid (si_tlv S sig) /\ t_tag (si_tlv S sig) = T_SEQ /\ parse_si (si_tlv S sig) = Ok (parsed_si S sig) /\
  exists t1 t2 t3 t4 t5, read_all (si_body S sig) = Ok [t1; t2; t3; t4; t5] /\ t_tag t4 = T_SEQ.
Proof.
  intros ((ti & Hvi & Hi) & Hsb & Hsi & Hss & Hd & He & _) Hsig Hsm.
  pose proof Hsm as Hsm0. apply small_enc_tlv in Hsm. unfold si_body in Hsm.
  apply small_sub in Hsm as [S1 Hsm]. apply small_sub in Hsm as [S2 Hsm]. apply small_sub in Hsm as [S3 Hsm]. apply small_sub in Hsm as [S4 S5].
  change sign_si_Version with 1 in *. change (enc_int 1) with [1] in *.
  set (t1 := mkTlv T_INT [1] (enc_tlv T_INT [1])).
  set (iasb := sg_issuer S ++ enc_tlv T_INT (sg_serial S)) in *.
  set (t2 := mkTlv T_SEQ iasb (enc_tlv T_SEQ iasb)).
  set (t3 := mk_alg (sg_dalg S)). set (t4 := mk_alg (sg_ealg S)).
  set (t5 := mkTlv T_OCT sig (enc_tlv T_OCT sig)).
  assert (V1 : valid t1) by (apply valid_enc; [tagok|unfold small; cbn; lia|reflexivity]).
  set (tser := mkTlv T_INT (sg_serial S) (enc_tlv T_INT (sg_serial S))).
  assert (Vser : valid tser) by (apply valid_enc; [tagok|exact Hss|exact Hsb]).
  assert (Biasb : all_bytes iasb = true).
  { unfold iasb. apply all_bytes_app_iff. split; [rewrite Hi; apply valid_full_bytes; exact Hvi|apply (valid_full_bytes _ Vser)]. }
  assert (V2 : valid t2) by (apply valid_enc; [tagok|apply small_enc_tlv in S2; exact S2|exact Biasb]).
  destruct (algid_reparse _ Hd S3) as (V3 & T3 & P3). destruct (algid_reparse _ He S4) as (V4 & T4 & P4). fold t3 in V3, T3, P3. fold t4 in V4, T4, P4.
  assert (V5 : valid t5) by (apply valid_enc; [tagok|apply small_enc_tlv in S5; exact S5|exact Hsig]).
  assert (Ebody : si_body S sig = concat (map t_full [t1; t2; t3; t4; t5])).
  { unfold si_body. cbn [map concat t_full t1 t2 t3 t4 t5 mk_alg]. rewrite app_nil_r. change sign_si_Version with 1. reflexivity. }
  assert (Vall : Forall valid [t1; t2; t3; t4; t5]) by exact (Forall_cons _ V1 (Forall_cons _ V2 (Forall_cons _ V3 (Forall_cons _ V4 (Forall_cons _ V5 (Forall_nil _)))))).
  assert (Bbody : all_bytes (si_body S sig) = true) by (rewrite Ebody; apply all_bytes_concat_valid; exact Vall).
  assert (Vt : valid (si_tlv S sig)) by (apply valid_enc; [tagok|apply small_enc_tlv in Hsm0; exact Hsm0|exact Bbody]).
  split; [exact Vt|]. split; [reflexivity|]. split.
  - unfold parse_si, parsed_si. cbn [si_tlv t_body t_full]. rewrite Ebody. cbn [map concat].
    change (t_full t1) with (enc_tlv T_INT [1]). rewrite read_expect_enc by (try tagok; unfold small; cbn; lia). cbn [bind fst snd t_body].
    change (int64_ok [1]) with true. cbn [negb].
    rewrite read_expect_valid by (try exact V2; reflexivity). cbn [bind fst snd]. cbn [t2 t_body]. unfold iasb. rewrite Hi.
    rewrite read_tlv_valid by exact Hvi. cbn [bind fst snd].
    rewrite <- (app_nil_r (enc_tlv T_INT (sg_serial S))). rewrite read_expect_enc by (try tagok; exact Hss). cbn [bind fst snd t_body]. rewrite Hsi. cbn [negb].
    rewrite read_expect_valid by (try exact V3; exact T3). cbn [bind fst snd]. rewrite P3. cbn [bind].
    rewrite auth_opt_v. rewrite read_optional_absent by (try exact V4; rewrite T4, OCT_auth_v; discriminate). cbn [bind fst snd opt_attrs].
    rewrite read_expect_valid by (try exact V4; exact T4). cbn [bind fst snd]. rewrite P4. cbn [bind].
    rewrite app_nil_r. change (t_full t5) with (enc_tlv T_OCT sig). rewrite <- (app_nil_r (enc_tlv T_OCT sig)).
    rewrite read_expect_enc by (try tagok; apply small_enc_tlv in S5; exact S5). cbn [bind fst snd t_body].
    rewrite unauth_opt_v, read_optional_absent_nil. cbn [bind fst snd opt_attrs].
    change (dec_int [1]) with 1. change sign_si_Version with 1. rewrite <- Hi. reflexivity.
  - exists t1, t2, t3, t4, t5. split; [rewrite Ebody; apply read_all_concat; exact Vall|exact T4].
Qed.

(* ================================================================== the SignedData relic builds, and what Unmarshal makes of its bytes *)
Definition OID_sd : bytes := enc_oid oid_signed_data.
Definition built_sd (S : signer) (ci : cinfo) (sig : bytes) : sdata :=
  mkSd sign_sd_Version [sg_dalg S] ci (Some (sg_chain S)) None [new_si S sig].
Definition parsed_sd (S : signer) (ci : cinfo) (sig : bytes) : sdata :=
  mkSd sign_sd_Version [sg_dalg S] ci (Some (sg_chain S)) None [parsed_si S sig].

Lemma emit_parsed_si S sig : signer_wf S -> all_bytes sig = true -> small (enc_tlv T_SEQ (si_body S sig)) ->
  emit_si (parsed_si S sig) = enc_tlv T_SEQ (si_body S sig) /\ wf_si (parsed_si S sig).
Proof.
  intros Hw Hs Hsm. destruct (si_reparse S sig Hw Hs Hsm) as (Hv & Ht & Hp & _).
  assert (W : wf_si (parsed_si S sig)) by (exists (si_tlv S sig); auto).
  split; [|exact W]. rewrite (emit_si_wf _ W). reflexivity.
Qed.
Lemma emit_sd_built_parsed S ci sig : signer_wf S -> all_bytes sig = true -> small (enc_tlv T_SEQ (si_body S sig)) ->
  emit_sd_body (built_sd S ci sig) = emit_sd_body (parsed_sd S ci sig).
Proof.
  intros Hw Hs Hsm. unfold emit_sd_body, built_sd, parsed_sd. cbn [sd_version sd_dalgs sd_ci sd_certs sd_crls sd_sis map].
  rewrite emit_new_si. rewrite (proj1 (emit_parsed_si S sig Hw Hs Hsm)). reflexivity.
Qed.
Lemma small_sis_inner S ci sig : small (emit_cms (mkCms OID_sd (Some (built_sd S ci sig)))) -> small (enc_tlv T_SEQ (si_body S sig)).
Proof.
  unfold emit_cms. cbn [o_ctype o_sd]. intros H. apply small_enc_tlv in H. apply small_app in H as [_ H].
  apply small_enc_tlv in H. apply small_enc_tlv in H. unfold emit_sd_body, built_sd in H.
  cbn [sd_version sd_dalgs sd_ci sd_certs sd_crls sd_sis map] in H.
  repeat (apply small_app in H as [_ H]). apply small_enc_tlv in H. rewrite sis_set_v in H. cbn [maybe_sort sort_b fold_right insert_b concat] in H.
  rewrite app_nil_r in H. rewrite emit_new_si in H. exact H.
Qed.
Lemma wf_OID_sd : oid_ok OID_sd = true /\ all_bytes OID_sd = true /\ small OID_sd.
Proof. split; [vm_compute; reflexivity|]. split; [vm_compute; reflexivity|]. unfold small. vm_compute. reflexivity. Qed.

Theorem built_reparse S ci sig : signer_wf S -> all_bytes sig = true -> wf_ci ci ->
  small (emit_cms (mkCms OID_sd (Some (built_sd S ci sig)))) ->
  parse_cms (emit_cms (mkCms OID_sd (Some (built_sd S ci sig)))) = Ok (mkCms OID_sd (Some (parsed_sd S ci sig))).
Proof.
  intros Hw Hs Hci Hsm. pose proof (small_sis_inner _ _ _ Hsm) as Hsi.
  assert (E : emit_cms (mkCms OID_sd (Some (built_sd S ci sig))) = emit_cms (mkCms OID_sd (Some (parsed_sd S ci sig)))).
  { unfold emit_cms. cbn [o_ctype o_sd]. rewrite (emit_sd_built_parsed S ci sig Hw Hs Hsi). reflexivity. }
  rewrite E in Hsm |- *.
  rewrite cms_reparse; [| |exact Hsm].
  - unfold norm_cms, norm_sd, parsed_sd. cbn [o_ctype o_sd option_map sd_version sd_dalgs sd_ci sd_certs sd_crls sd_sis sort_on fold_right insert_on]. reflexivity.
  - destruct wf_OID_sd as (H1 & H2 & H3). unfold wf_cms. cbn [o_ctype o_sd].
    split; [exact H1|]. split; [exact H2|]. split; [exact H3|]. unfold wf_sd.
    split. { exists [1]. split; [reflexivity|]. split; [reflexivity|]. split; [unfold small; cbn; lia|reflexivity]. }
    split. { cbn [parsed_sd sd_dalgs]. constructor; [|constructor]. apply Hw. }
    split. { exact Hci. }
    split. { cbn [parsed_sd sd_certs opt_list]. apply Hw. }
    split. { cbn [parsed_sd sd_crls opt_list]. constructor. }
    cbn [parsed_sd sd_sis]. constructor; [|constructor]. apply (emit_parsed_si S sig Hw Hs Hsi).
Qed.

(* ================================================================== SignedData.Verify on one signer info without attributes *)
Lemma sd_verify_one C sd s ext : sd_sis sd = [s] ->
  sd_verify C sd (ext_val ext) false =
  match ref_sd_select (hooks3 (real_prims C)) (real_prims C) sd ext false with
  | SelReject e => SdReject e
  | SelContent content =>
      match ref_sd_step (hooks3 (real_prims C)) content false (fst (c_parse_certs C (sd_certs sd)))
                        (if snd (c_parse_certs C (sd_certs sd)) =? 0 then 0 else EV_PARSE) s with
      | VAccept c => SdAccept s c
      | VReject e => SdReject e
      end
  end.
Proof.
  intros Hs. rewrite sd_verify_def, sd_verify_eq. unfold ref_sd_verify.
  destruct (ref_sd_select _ _ sd ext false); [|reflexivity].
  rewrite Hs. expose. change (zlen [s] =? 0) with false. cbv iota. cbn [ref_sd_loop].
  destruct (ref_sd_step _ _ _ _ _ s); reflexivity.
Qed.
Lemma select_by_ci C sd ext :
  ref_sd_select (hooks3 (real_prims C)) (real_prims C) sd ext false =
  match ci_bytes_m C (sd_ci sd) with
  | Ok None => match ext with Some e => SelContent (Wby e) | None => SelReject EV_NEW end
  | Ok (Some b) => match ext with None => SelContent (Wby b) | Some e => if bytes_eqb e b then SelContent (Wby b) else SelReject EV_NEW end
  | Err _ => SelReject EV_CI
  | Panic _ => SelReject EV_PANIC
  end.
Proof. unfold ref_sd_select. expose. rewrite <- ci_bytes_m_def. reflexivity. Qed.

Lemma has_empty_new C S sig : has_empty_m C (new_si S sig) = false.
Proof. unfold has_empty_m. rewrite has_empty_eq. reflexivity. Qed.
Lemma has_empty_parsed_si C S sig : signer_wf S -> all_bytes sig = true -> small (enc_tlv T_SEQ (si_body S sig)) ->
  has_empty_m C (parsed_si S sig) = false.
Proof.
  intros Hw Hs Hsm. destruct (si_reparse S sig Hw Hs Hsm) as (Hv & Ht & Hp & t1 & t2 & t3 & t4 & t5 & Hall & _).
  rewrite (has_empty_parsed C _ _ _ Hv Ht Hp Hall). reflexivity.
Qed.
(* Verify of a signer info without attributes depends on its fields only (not on whether it was built or parsed) *)
Lemma si_verify_fields C s content certs : si_auth s = None -> has_empty_m C s = false ->
  si_verify C s (Wby content) false certs =
  match c_hash_of C (si_dalg s) with
  | None => VReject EV_HASH
  | Some h => ref_finish (real_prims C) s certs (Some (c_H C h content))
  end.
Proof.
  intros Ha He. rewrite si_verify_unfold. unfold ref_si_verify. expose. rewrite Ha. cbn [opt_list]. change (zlen (@nil attr) =? 0) with true. cbv iota.
  rewrite <- has_empty_m_def, He. reflexivity.
Qed.
Lemma si_verify_parsed_eq C S sig content certs : signer_wf S -> all_bytes sig = true -> small (enc_tlv T_SEQ (si_body S sig)) ->
  si_verify C (parsed_si S sig) (Wby content) false certs = si_verify C (new_si S sig) (Wby content) false certs.
Proof.
  intros Hw Hs Hsm.
  rewrite (si_verify_fields C (parsed_si S sig) content certs eq_refl (has_empty_parsed_si C S sig Hw Hs Hsm)).
  rewrite (si_verify_fields C (new_si S sig) content certs eq_refl (has_empty_new C S sig)).
  reflexivity.
Qed.
Lemma step_parsed_eq C S sig content certs cerr : signer_wf S -> all_bytes sig = true -> small (enc_tlv T_SEQ (si_body S sig)) ->
  ref_sd_step (hooks3 (real_prims C)) (Wby content) false certs cerr (parsed_si S sig) =
  ref_sd_step (hooks3 (real_prims C)) (Wby content) false certs cerr (new_si S sig).
Proof.
  intros Hw Hs Hsm. unfold ref_sd_step. rewrite hk_verify3, <- si_verify_def. rewrite (si_verify_parsed_eq C S sig content certs Hw Hs Hsm). reflexivity.
Qed.
(* hence Verify answers the same on the built structure and on what Unmarshal makes of its bytes; the accepted signer info differs
   only in carrying its encoding *)
Definition same_verdict (a b : sdres) : Prop :=
  match a, b with
  | SdAccept _ c1, SdAccept _ c2 => c1 = c2
  | SdReject e1, SdReject e2 => e1 = e2
  | _, _ => False
  end.
Lemma sd_verify_parsed_eq C S ci sig ext : signer_wf S -> all_bytes sig = true -> small (enc_tlv T_SEQ (si_body S sig)) ->
  same_verdict (sd_verify C (parsed_sd S ci sig) (ext_val ext) false) (sd_verify C (built_sd S ci sig) (ext_val ext) false) /\
  (forall s c, sd_verify C (parsed_sd S ci sig) (ext_val ext) false = SdAccept s c -> s = parsed_si S sig).
Proof.
  intros Hw Hs Hsm. rewrite (sd_verify_one C (parsed_sd S ci sig) (parsed_si S sig) ext eq_refl).
  rewrite (sd_verify_one C (built_sd S ci sig) (new_si S sig) ext eq_refl).
  rewrite !select_by_ci. cbn [parsed_sd built_sd sd_ci sd_certs].
  set (certs := fst (c_parse_certs C (Some (sg_chain S)))). set (cerr := if snd (c_parse_certs C (Some (sg_chain S))) =? 0 then 0 else EV_PARSE).
  assert (K : forall content,
    same_verdict (match ref_sd_step (hooks3 (real_prims C)) (Wby content) false certs cerr (parsed_si S sig) with VAccept c => SdAccept (parsed_si S sig) c | VReject e => SdReject e end)
                 (match ref_sd_step (hooks3 (real_prims C)) (Wby content) false certs cerr (new_si S sig) with VAccept c => SdAccept (new_si S sig) c | VReject e => SdReject e end) /\
    (forall s c, (match ref_sd_step (hooks3 (real_prims C)) (Wby content) false certs cerr (parsed_si S sig) with VAccept c => SdAccept (parsed_si S sig) c | VReject e => SdReject e end) = SdAccept s c ->
                 s = parsed_si S sig)).
  { intros content. rewrite (step_parsed_eq C S sig content certs cerr Hw Hs Hsm).
    destruct (ref_sd_step _ _ _ _ _ (new_si S sig)); cbn [same_verdict]; split; try reflexivity; intros s0 c0 H; inversion H; reflexivity. }
  destruct (ci_bytes_m C ci) as [[b|]| |]; cbn [same_verdict].
  - destruct ext as [e|]; [destruct (bytes_eqb e b)|]; try apply K. split; [reflexivity|discriminate].
  - destruct ext as [e|]; [apply K|]. split; [reflexivity|discriminate].
  - split; [reflexivity|discriminate].
  - split; [reflexivity|discriminate].
Qed.
