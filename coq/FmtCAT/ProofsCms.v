(* FmtCAT/ProofsCms.v — magic.Detect; signers/cat.sign, the PKCS#7 sign / verify round trips over C16's CMS model. *)
From Relic Require Import Base.Prelude Base.Enc Generated.C16_gen C16.Model C16.Tlv C16.Proofs C16.VModel C16.VProofs Generated.FmtCAT_gen FmtCAT.Model.

Local Open Scope Z_scope.

(* ================================================================== magic.Detect *)
Lemma has_prefix_len p : forall l, has_prefix p l = true -> zlen p <= zlen l.
Proof.
  induction p as [|a p IH]; intros l H; [rewrite zlen_nil; apply zlen_nonneg|].
  destruct l as [|b l]; [discriminate|]. cbn [has_prefix] in H. apply andb_true_iff in H as [_ H]. rewrite !zlen_cons. specialize (IH _ H). lia.
Qed.
Lemma contains_len p : forall l, contains_b p l = true -> zlen p <= zlen l.
Proof.
  induction l as [|b l IH]; intros H; cbn [contains_b] in H.
  - rewrite orb_false_r in H. apply has_prefix_len. exact H.
  - apply orb_true_iff in H as [H|H]; [apply has_prefix_len; exact H|]. specialize (IH H). rewrite zlen_cons. lia.
Qed.
Lemma ztake_len_le {A} n (l : list A) : zlen (ztake n l) <= zlen l /\ (0 <= n <= zlen l -> zlen (ztake n l) = n).
Proof. split; [unfold zlen, ztake; rewrite firstn_length; lia|apply zlen_ztake]. Qed.
Lemma test_prefix t p f : magic_test (0, t, p, 0) f = has_prefix p f.
Proof.
  unfold magic_test. change (0 =? 0) with true. cbv iota. unfold magic_at_short.
  destruct (has_prefix p f) eqn:E; [|apply andb_false_r].
  apply has_prefix_len in E. pose proof (zlen_nonneg p). rewrite zlen_ztake by lia. replace (zlen p <? zlen p) with false by lia. reflexivity.
Qed.
Lemma test_contains t p w f : magic_test (1, t, p, w) f = contains_b p (ztake w f).
Proof.
  unfold magic_test. change (1 =? 0) with false. cbv iota.
  destruct (contains_b p (ztake w f)) eqn:E; [|apply andb_false_r].
  apply contains_len in E. replace (zlen (ztake w f) <? zlen p) with false by lia. reflexivity.
Qed.
Definition P_rpm : bytes := [237; 171; 238; 219].
Definition P_deb : bytes := [33; 60; 97; 114; 99; 104; 62; 10; 100; 101; 98; 105; 97; 110].
Definition P_pgp : bytes := [45; 45; 45; 45; 45; 66; 69; 71; 73; 78; 32; 80; 71; 80].
Definition P_ctl : bytes := 6 :: 9 :: OID_ctl.
Definition P_sd : bytes := 6 :: 9 :: enc_oid oid_signed_data.
(* the clauses, in order: what magic.Detect answers is decided by three prefixes and two markers in the first 256 bytes *)
Theorem detect_spec f :
  detect f = if has_prefix P_rpm f then Some magic_FileTypeRPM else if has_prefix P_deb f then Some magic_FileTypeDEB
             else if has_prefix P_pgp f then Some magic_FileTypePGP
             else if contains_b P_ctl (ztake 256 f) then Some magic_FileTypeCAT
             else if contains_b P_sd (ztake 256 f) then Some magic_FileTypePKCS7 else None.
Proof.
  unfold detect. change magic_helpers_ok with true. cbv iota. unfold magic_table. cbn [detect_in magic_type].
  rewrite !test_prefix, !test_contains. reflexivity.
Qed.
(* C01: a DER file (first octet 0x30) that carries the certTrustList object identifier within its first 256 bytes goes to the
   catalog signer *)
Theorem routes_catalog r : contains_b P_ctl (ztake 256 (48 :: r)) = true -> detect (48 :: r) = Some magic_FileTypeCAT.
Proof. intros H. rewrite detect_spec. cbn [has_prefix P_rpm P_deb P_pgp Z.eqb andb]. rewrite H. reflexivity. Qed.
Theorem routes_pkcs7 r : contains_b P_ctl (ztake 256 (48 :: r)) = false -> contains_b P_sd (ztake 256 (48 :: r)) = true ->
  detect (48 :: r) = Some magic_FileTypePKCS7.
Proof. intros H1 H2. rewrite detect_spec. cbn [has_prefix P_rpm P_deb P_pgp Z.eqb andb]. rewrite H1, H2. reflexivity. Qed.

(* ================================================================== the signer and what it contributes *)
Definition signer_wf (S : signer) : Prop :=
  (exists ti, valid ti /\ sg_issuer S = t_full ti) /\
  all_bytes (sg_serial S) = true /\ int_ok (sg_serial S) = true /\ small (sg_serial S) /\
  wf_alg (sg_dalg S) /\ wf_alg (sg_ealg S) /\ wf_raws (sg_chain S) /\ sg_chain S <> [] /\ sg_samekey S = true.

(* the SignerInfo relic builds when there are no attributes, and its parsed form *)
Definition new_si (S : signer) (sig : bytes) : sinfo :=
  mkSi [] sign_si_Version (sg_issuer S) (sg_serial S) (sg_dalg S) None (sg_ealg S) sig None.
Definition si_body (S : signer) (sig : bytes) : bytes :=
  enc_tlv T_INT (enc_int sign_si_Version) ++ enc_tlv T_SEQ (sg_issuer S ++ enc_tlv T_INT (sg_serial S)) ++
  emit_algid (sg_dalg S) ++ emit_algid (sg_ealg S) ++ enc_tlv T_OCT sig.
Definition si_tlv (S : signer) (sig : bytes) : tlv := mkTlv T_SEQ (si_body S sig) (enc_tlv T_SEQ (si_body S sig)).
Definition parsed_si (S : signer) (sig : bytes) : sinfo :=
  mkSi (enc_tlv T_SEQ (si_body S sig)) sign_si_Version (sg_issuer S) (sg_serial S) (sg_dalg S) None (sg_ealg S) sig None.

Lemma emit_new_si S sig : emit_si (new_si S sig) = enc_tlv T_SEQ (si_body S sig).
Proof.
  unfold emit_si, new_si. cbn [si_raw]. unfold emit_si_fields. cbn [si_version si_issuer si_serial si_dalg si_auth si_ealg si_sig si_unauth emit_opt_attrs].
  unfold si_body. rewrite !app_nil_r. cbn [app]. reflexivity.
Qed.

Lemma small_sub a b : small (a ++ b) -> small a /\ small b. Proof. apply small_app. Qed.

Lemma si_reparse S sig : signer_wf S -> all_bytes sig = true -> small (enc_tlv T_SEQ (si_body S sig)) ->
  valid (si_tlv S sig) /\ t_tag (si_tlv S sig) = T_SEQ /\ parse_si (si_tlv S sig) = Ok (parsed_si S sig) /\
  exists t1 t2 t3 t4 t5, read_all (si_body S sig) = Ok [t1; t2; t3; t4; t5] /\ t_tag t4 = T_SEQ.
Proof.
  intros ((ti & Hvi & Hi) & Hsb & Hsi & Hss & Hd & He & _) Hsig Hsm.
  pose proof Hsm as Hsm0. apply small_enc_tlv in Hsm. unfold si_body in Hsm.
  apply small_sub in Hsm as [S1 Hsm]. apply small_sub in Hsm as [S2 Hsm]. apply small_sub in Hsm as [S3 Hsm]. apply small_sub in Hsm as [S4 S5].
  change sign_si_Version with 1 in *. change (enc_int 1) with [1] in *.
  set (t1 := mkTlv T_INT [1] (enc_tlv T_INT [1])).
  set (iasb := sg_issuer S ++ enc_tlv T_INT (sg_serial S)) in *.
  set (t2 := mkTlv T_SEQ iasb (enc_tlv T_SEQ iasb)).
  set (t3 := mk_alg (sg_dalg S)). set (t4 := mk_alg (sg_ealg S)).
  set (t5 := mkTlv T_OCT sig (enc_tlv T_OCT sig)).
  assert (V1 : valid t1) by (apply valid_enc; [tagok|unfold small; cbn; lia|reflexivity]).
  set (tser := mkTlv T_INT (sg_serial S) (enc_tlv T_INT (sg_serial S))).
  assert (Vser : valid tser) by (apply valid_enc; [tagok|exact Hss|exact Hsb]).
  assert (Biasb : all_bytes iasb = true).
  { unfold iasb. apply all_bytes_app_iff. split; [rewrite Hi; apply valid_full_bytes; exact Hvi|apply (valid_full_bytes _ Vser)]. }
  assert (V2 : valid t2) by (apply valid_enc; [tagok|apply small_enc_tlv in S2; exact S2|exact Biasb]).
  destruct (algid_reparse _ Hd S3) as (V3 & T3 & P3). destruct (algid_reparse _ He S4) as (V4 & T4 & P4). fold t3 in V3, T3, P3. fold t4 in V4, T4, P4.
  assert (V5 : valid t5) by (apply valid_enc; [tagok|apply small_enc_tlv in S5; exact S5|exact Hsig]).
  assert (Ebody : si_body S sig = concat (map t_full [t1; t2; t3; t4; t5])).
  { unfold si_body. cbn [map concat t_full t1 t2 t3 t4 t5 mk_alg]. rewrite app_nil_r. change sign_si_Version with 1. reflexivity. }
  assert (Vall : Forall valid [t1; t2; t3; t4; t5]) by exact (Forall_cons _ V1 (Forall_cons _ V2 (Forall_cons _ V3 (Forall_cons _ V4 (Forall_cons _ V5 (Forall_nil _)))))).
  assert (Bbody : all_bytes (si_body S sig) = true) by (rewrite Ebody; apply all_bytes_concat_valid; exact Vall).
  assert (Vt : valid (si_tlv S sig)) by (apply valid_enc; [tagok|apply small_enc_tlv in Hsm0; exact Hsm0|exact Bbody]).
  split; [exact Vt|]. split; [reflexivity|]. split.
  - unfold parse_si, parsed_si. cbn [si_tlv t_body t_full]. rewrite Ebody. cbn [map concat].
    change (t_full t1) with (enc_tlv T_INT [1]). rewrite read_expect_enc by (try tagok; unfold small; cbn; lia). cbn [bind fst snd t_body].
    change (int64_ok [1]) with true. cbn [negb].
    rewrite read_expect_valid by (try exact V2; reflexivity). cbn [bind fst snd]. cbn [t2 t_body]. unfold iasb. rewrite Hi.
    rewrite read_tlv_valid by exact Hvi. cbn [bind fst snd].
    rewrite <- (app_nil_r (enc_tlv T_INT (sg_serial S))). rewrite read_expect_enc by (try tagok; exact Hss). cbn [bind fst snd t_body]. rewrite Hsi. cbn [negb].
    rewrite read_expect_valid by (try exact V3; exact T3). cbn [bind fst snd]. rewrite P3. cbn [bind].
    rewrite auth_opt_v. rewrite read_optional_absent by (try exact V4; rewrite T4, OCT_auth_v; discriminate). cbn [bind fst snd opt_attrs].
    rewrite read_expect_valid by (try exact V4; exact T4). cbn [bind fst snd]. rewrite P4. cbn [bind].
    rewrite app_nil_r. change (t_full t5) with (enc_tlv T_OCT sig). rewrite <- (app_nil_r (enc_tlv T_OCT sig)).
    rewrite read_expect_enc by (try tagok; apply small_enc_tlv in S5; exact S5). cbn [bind fst snd t_body].
    rewrite unauth_opt_v, read_optional_absent_nil. cbn [bind fst snd opt_attrs].
    change (dec_int [1]) with 1. change sign_si_Version with 1. rewrite <- Hi. reflexivity.
  - exists t1, t2, t3, t4, t5. split; [rewrite Ebody; apply read_all_concat; exact Vall|exact T4].
Qed.

(* ================================================================== the SignedData relic builds, and what Unmarshal makes of its bytes *)
Definition OID_sd : bytes := enc_oid oid_signed_data.
Definition built_sd (S : signer) (ci : cinfo) (sig : bytes) : sdata :=
  mkSd sign_sd_Version [sg_dalg S] ci (Some (sg_chain S)) None [new_si S sig].
Definition parsed_sd (S : signer) (ci : cinfo) (sig : bytes) : sdata :=
  mkSd sign_sd_Version [sg_dalg S] ci (Some (sg_chain S)) None [parsed_si S sig].

Lemma emit_parsed_si S sig : signer_wf S -> all_bytes sig = true -> small (enc_tlv T_SEQ (si_body S sig)) ->
  emit_si (parsed_si S sig) = enc_tlv T_SEQ (si_body S sig) /\ wf_si (parsed_si S sig).
Proof.
  intros Hw Hs Hsm. destruct (si_reparse S sig Hw Hs Hsm) as (Hv & Ht & Hp & _).
  assert (W : wf_si (parsed_si S sig)) by (exists (si_tlv S sig); auto).
  split; [|exact W]. rewrite (emit_si_wf _ W). reflexivity.
Qed.
Lemma emit_sd_built_parsed S ci sig : signer_wf S -> all_bytes sig = true -> small (enc_tlv T_SEQ (si_body S sig)) ->
  emit_sd_body (built_sd S ci sig) = emit_sd_body (parsed_sd S ci sig).
Proof.
  intros Hw Hs Hsm. unfold emit_sd_body, built_sd, parsed_sd. cbn [sd_version sd_dalgs sd_ci sd_certs sd_crls sd_sis map].
  rewrite emit_new_si. rewrite (proj1 (emit_parsed_si S sig Hw Hs Hsm)). reflexivity.
Qed.
Lemma small_sis_inner S ci sig : small (emit_cms (mkCms OID_sd (Some (built_sd S ci sig)))) -> small (enc_tlv T_SEQ (si_body S sig)).
Proof.
  unfold emit_cms. cbn [o_ctype o_sd]. intros H. apply small_enc_tlv in H. apply small_app in H as [_ H].
  apply small_enc_tlv in H. apply small_enc_tlv in H. unfold emit_sd_body, built_sd in H.
  cbn [sd_version sd_dalgs sd_ci sd_certs sd_crls sd_sis map] in H.
  repeat (apply small_app in H as [_ H]). apply small_enc_tlv in H. rewrite sis_set_v in H. cbn [maybe_sort sort_b fold_right insert_b concat] in H.
  rewrite app_nil_r in H. rewrite emit_new_si in H. exact H.
Qed.
Lemma wf_OID_sd : oid_ok OID_sd = true /\ all_bytes OID_sd = true /\ small OID_sd.
Proof. split; [vm_compute; reflexivity|]. split; [vm_compute; reflexivity|]. unfold small. vm_compute. reflexivity. Qed.

Lemma wf_parsed S ci sig : signer_wf S -> all_bytes sig = true -> wf_ci ci -> small (enc_tlv T_SEQ (si_body S sig)) ->
  wf_cms (mkCms OID_sd (Some (parsed_sd S ci sig))).
Proof.
  intros Hw Hs Hci Hsi. destruct wf_OID_sd as (H1 & H2 & H3). unfold wf_cms. cbn [o_ctype o_sd].
  split; [exact H1|]. split; [exact H2|]. split; [exact H3|]. unfold wf_sd.
  split. { exists [1]. split; [reflexivity|]. split; [reflexivity|]. split; [unfold small; cbn; lia|reflexivity]. }
  split. { cbn [parsed_sd sd_dalgs]. constructor; [|constructor]. apply Hw. }
  split. { exact Hci. }
  split. { cbn [parsed_sd sd_certs opt_list]. apply Hw. }
  split. { cbn [parsed_sd sd_crls opt_list]. constructor. }
  cbn [parsed_sd sd_sis]. constructor; [|constructor]. apply (emit_parsed_si S sig Hw Hs Hsi).
Qed.
Lemma emit_built_parsed S ci sig : signer_wf S -> all_bytes sig = true -> small (enc_tlv T_SEQ (si_body S sig)) ->
  emit_cms (mkCms OID_sd (Some (built_sd S ci sig))) = emit_cms (mkCms OID_sd (Some (parsed_sd S ci sig))).
Proof. intros Hw Hs Hsi. unfold emit_cms. cbn [o_ctype o_sd]. rewrite (emit_sd_built_parsed S ci sig Hw Hs Hsi). reflexivity. Qed.
Lemma emit_cms_bytes o sd : wf_cms o -> o_sd o = Some sd -> small (emit_cms o) -> all_bytes (emit_cms o) = true.
Proof.
  intros (H1 & H2 & H3 & Hwsd) Hsd Hsm. rewrite Hsd in Hwsd. unfold emit_cms in *. rewrite Hsd in *.
  pose proof Hsm as Hs1. apply small_enc_tlv in Hs1.
  apply small_app in Hs1 as [_ Hs2]. pose proof Hs2 as Hs3. apply small_enc_tlv in Hs3. pose proof Hs3 as Hs4. apply small_enc_tlv in Hs4.
  pose proof (emit_sd_body_bytes _ Hwsd Hs4) as Bsd.
  set (inner := enc_tlv T_SEQ (emit_sd_body sd)) in *. set (wrap := enc_tlv OCT_explicit inner) in *.
  set (oidt := enc_tlv T_OID (o_ctype o)) in *.
  assert (Binner : all_bytes inner = true) by (apply (valid_full_bytes (mkTlv T_SEQ (emit_sd_body sd) inner)); apply valid_enc; [tagok|exact Hs4|exact Bsd]).
  assert (Bwrap : all_bytes wrap = true) by (apply (valid_full_bytes (mkTlv OCT_explicit inner wrap)); apply valid_enc; [tagok|exact Hs3|exact Binner]).
  assert (Boid : all_bytes oidt = true) by (apply (valid_full_bytes (mkTlv T_OID (o_ctype o) oidt)); apply valid_enc; [tagok|exact H3|exact H2]).
  apply (valid_full_bytes (mkTlv T_SEQ (oidt ++ wrap) (enc_tlv T_SEQ (oidt ++ wrap)))). apply valid_enc; [tagok|apply small_enc_tlv in Hsm; exact Hsm|].
  apply all_bytes_app_iff. split; assumption.
Qed.

Theorem built_reparse S ci sig : signer_wf S -> all_bytes sig = true -> wf_ci ci ->
  small (emit_cms (mkCms OID_sd (Some (built_sd S ci sig)))) ->
  parse_cms (emit_cms (mkCms OID_sd (Some (built_sd S ci sig)))) = Ok (mkCms OID_sd (Some (parsed_sd S ci sig))) /\
  all_bytes (emit_cms (mkCms OID_sd (Some (built_sd S ci sig)))) = true.
Proof.
  intros Hw Hs Hci Hsm. pose proof (small_sis_inner _ _ _ Hsm) as Hsi.
  rewrite (emit_built_parsed S ci sig Hw Hs Hsi) in Hsm |- *.
  pose proof (wf_parsed S ci sig Hw Hs Hci Hsi) as Hwf.
  split; [|apply (emit_cms_bytes _ _ Hwf eq_refl Hsm)].
  rewrite cms_reparse; [|exact Hwf|exact Hsm].
  unfold norm_cms, norm_sd, parsed_sd. cbn [o_ctype o_sd option_map sd_version sd_dalgs sd_ci sd_certs sd_crls sd_sis sort_on fold_right insert_on]. reflexivity.
Qed.

Lemma children_of tag body ts : tag_ok tag -> Forall valid ts -> body = concat (map t_full ts) ->
  children (mkTlv tag body (enc_tlv tag body)) = Some ts.
Proof. intros _ Hv ->. unfold children. cbn [t_body]. rewrite read_all_concat by exact Hv. reflexivity. Qed.

(* the RFC 5652 walker accepts every catalog relic writes and finds: the input's encapsulated content info, the configured chain, no CRL,
   the one new signer info *)
Lemma spec_regions_parsed S ci sig : signer_wf S -> all_bytes sig = true -> wf_ci ci ->
  small (emit_cms (mkCms OID_sd (Some (parsed_sd S ci sig)))) -> small (enc_tlv T_SEQ (si_body S sig)) ->
  spec_regions (emit_cms (mkCms OID_sd (Some (parsed_sd S ci sig)))) =
  Some (mkReg (ci_raw ci) (sort_b (sg_chain S)) [] [enc_tlv T_SEQ (si_body S sig)]).
Proof.
  intros Hw Hs Hci Hsm Hsi.
  destruct (si_reparse S sig Hw Hs Hsi) as (Vsi & Tsi & _).
  destruct (emit_parsed_si S sig Hw Hs Hsi) as [Esi _].
  destruct (wf_ci_mk _ Hci) as (Veci & Teci & _). pose proof (emit_ci_wf _ Hci) as Eci.
  destruct Hw as (_ & _ & _ & _ & Hd & _ & Hch & _).
  destruct (wf_raws_read _ Hch) as (cts & Vcts & Ech).
  destruct wf_OID_sd as (O1 & O2 & O3).
  unfold emit_cms in *. cbn [o_ctype o_sd] in *.
  set (sdbody := emit_sd_body (parsed_sd S ci sig)) in *.
  pose proof Hsm as S0. apply small_enc_tlv in S0. pose proof S0 as S1. apply small_app in S1 as [_ S1].
  pose proof S1 as S2. apply small_enc_tlv in S2. pose proof S2 as S3. apply small_enc_tlv in S3.
  (* the five elements of SignedData *)
  set (tver := mkTlv T_INT [1] (enc_tlv T_INT [1])).
  set (tdal := mkTlv OCT_dalgs (emit_algid (sg_dalg S)) (enc_tlv OCT_dalgs (emit_algid (sg_dalg S)))).
  set (teci := mk_raw (ci_raw ci)).
  set (tcerts := mkTlv OCT_certs (concat (sg_chain S)) (enc_tlv OCT_certs (concat (sg_chain S)))).
  set (tsis := mkTlv OCT_sis (enc_tlv T_SEQ (si_body S sig)) (enc_tlv OCT_sis (enc_tlv T_SEQ (si_body S sig)))).
  assert (Ebody : sdbody = concat (map t_full [tver; tdal; teci; tcerts; tsis])).
  { unfold sdbody, emit_sd_body, parsed_sd. cbn [sd_version sd_dalgs sd_ci sd_certs sd_crls sd_sis map option_map emit_opt_list].
    rewrite dalgs_set_v, sis_set_v, certs_set_v. cbn [maybe_sort sort_b fold_right insert_b concat]. rewrite (app_nil_r (emit_algid (sg_dalg S))), (app_nil_r (emit_si (parsed_si S sig))). rewrite Eci, Esi.
    change sign_sd_Version with 1. change (enc_int 1) with [1]. cbn [map concat t_full tver tdal teci tcerts tsis mk_raw app]. rewrite (app_nil_r (enc_tlv OCT_sis (enc_tlv T_SEQ (si_body S sig)))). reflexivity. }
  pose proof S3 as Sbody. rewrite Ebody in S3. cbn [map concat] in S3. rewrite app_nil_r in S3.
  apply small_app in S3 as [Sv S3]. apply small_app in S3 as [Sd S3]. apply small_app in S3 as [Se S3]. apply small_app in S3 as [Sc Ss].
  cbn [t_full tver tdal tcerts tsis] in Sv, Sd, Sc, Ss.
  assert (Vver : valid tver) by (apply valid_enc; [tagok|unfold small; cbn; lia|reflexivity]).
  assert (Vdal : valid tdal).
  { apply valid_enc; [rewrite OCT_dalgs_v; tagok|apply small_enc_tlv in Sd; exact Sd|]. apply small_enc_tlv in Sd. destruct (algid_reparse _ Hd Sd) as (V & _). apply (valid_full_bytes _ V). }
  assert (Vcerts : valid tcerts).
  { apply valid_enc; [rewrite OCT_certs_v; tagok|apply small_enc_tlv in Sc; exact Sc|]. rewrite Ech. apply all_bytes_concat_valid. exact Vcts. }
  assert (Vsis : valid tsis).
  { apply valid_enc; [rewrite OCT_sis_v; tagok|apply small_enc_tlv in Ss; exact Ss|]. apply (valid_full_bytes _ Vsi). }
  assert (Vall : Forall valid [tver; tdal; teci; tcerts; tsis]) by exact (Forall_cons _ Vver (Forall_cons _ Vdal (Forall_cons _ Veci (Forall_cons _ Vcerts (Forall_cons _ Vsis (Forall_nil _)))))).
  assert (Bbody : all_bytes sdbody = true) by (rewrite Ebody; apply all_bytes_concat_valid; exact Vall).
  set (inner := enc_tlv T_SEQ sdbody) in *.
  set (sdt := mkTlv T_SEQ sdbody inner).
  assert (Vsdt : valid sdt) by (apply valid_enc; [tagok|exact Sbody|exact Bbody]).
  set (wrapb := enc_tlv OCT_explicit inner) in *.
  set (wrap := mkTlv OCT_explicit inner wrapb).
  assert (Vwrap : valid wrap) by (apply valid_enc; [rewrite OCT_explicit_v; tagok|exact S2|apply (valid_full_bytes _ Vsdt)]).
  set (ct := mkTlv T_OID OID_sd (enc_tlv T_OID OID_sd)).
  assert (Vct : valid ct) by (apply valid_enc; [tagok|exact O3|exact O2]).
  set (topbody := enc_tlv T_OID OID_sd ++ wrapb) in *.
  set (top := mkTlv T_SEQ topbody (enc_tlv T_SEQ topbody)).
  assert (Btop : all_bytes topbody = true) by (unfold topbody; apply all_bytes_app_iff; split; [apply (valid_full_bytes _ Vct)|apply (valid_full_bytes _ Vwrap)]).
  assert (Vtop : valid top) by (apply valid_enc; [tagok|exact S0|exact Btop]).
  (* the walk *)
  unfold spec_regions, one.
  change (enc_tlv T_SEQ topbody) with (t_full top). rewrite <- (app_nil_r (t_full top)).
  change (t_full top ++ []) with (concat (map t_full [top])). rewrite read_all_concat by (constructor; [exact Vtop|constructor]).
  change (t_tag top =? 48) with true. cbn [negb].
  assert (Ctop : children top = Some [ct; wrap]).
  { unfold children. cbn [top t_body]. unfold topbody. change (enc_tlv T_OID OID_sd ++ wrapb) with (concat (map t_full [ct; wrap]) ) || idtac.
    replace (enc_tlv T_OID OID_sd ++ wrapb) with (concat (map t_full [ct; wrap])) by (cbn [map concat t_full ct wrap]; rewrite app_nil_r; reflexivity).
    rewrite read_all_concat by (constructor; [exact Vct|constructor; [exact Vwrap|constructor]]). reflexivity. }
  rewrite Ctop. cbn [t_tag ct wrap]. rewrite OCT_explicit_v. change ((T_OID =? 6) && (160 =? 160)) with true. cbn [negb].
  assert (Cwrap : children wrap = Some [sdt]).
  { unfold children. cbn [wrap t_body]. replace inner with (concat (map t_full [sdt])) by (cbn [map concat t_full sdt]; apply app_nil_r).
    rewrite read_all_concat by (constructor; [exact Vsdt|constructor]). reflexivity. }
  rewrite Cwrap. change (t_tag sdt =? 48) with true. cbn [negb].
  assert (Csdt : children sdt = Some [tver; tdal; teci; tcerts; tsis]).
  { unfold children. cbn [sdt t_body]. rewrite Ebody. rewrite read_all_concat by exact Vall. reflexivity. }
  rewrite Csdt. cbn [t_tag tver tdal]. rewrite OCT_dalgs_v. replace (t_tag teci) with T_SEQ by (symmetry; exact Teci).
  change ((T_INT =? 2) && (49 =? 49) && (T_SEQ =? 48)) with true. cbn [negb].
  unfold spec_split_optional at 1. cbn [t_tag tcerts]. rewrite OCT_certs_v. change (160 =? 160) with true. cbv iota.
  assert (Ccerts : children tcerts = Some cts).
  { unfold children. cbn [tcerts t_body]. rewrite Ech. rewrite read_all_concat by exact Vcts. reflexivity. }
  rewrite Ccerts. unfold spec_split_optional. cbn [t_tag tsis]. rewrite OCT_sis_v. change (49 =? 161) with false. cbv iota.
  change (49 =? 49) with true. cbn [negb].
  assert (Csis : children tsis = Some [si_tlv S sig]).
  { unfold children. cbn [tsis t_body]. replace (enc_tlv T_SEQ (si_body S sig)) with (concat (map t_full [si_tlv S sig])) by (cbn [map concat t_full si_tlv]; apply app_nil_r).
    rewrite read_all_concat by (constructor; [exact Vsi|constructor]). reflexivity. }
  rewrite Csis. cbn [map all_some forallb]. rewrite Tsi. change (T_SEQ =? 48) with true. cbn [andb].
  cbn [t_full teci mk_raw si_tlv sort_b fold_right insert_b]. rewrite <- Ech. reflexivity.
Qed.

(* ================================================================== SignedData.Verify on one signer info without attributes *)
Lemma sd_verify_one C sd s ext : sd_sis sd = [s] ->
  sd_verify C sd (ext_val ext) false =
  match ref_sd_select (hooks3 (real_prims C)) (real_prims C) sd ext false with
  | SelReject e => SdReject e
  | SelContent content =>
      match ref_sd_step (hooks3 (real_prims C)) content false (fst (c_parse_certs C (sd_certs sd)))
                        (if snd (c_parse_certs C (sd_certs sd)) =? 0 then 0 else EV_PARSE) s with
      | VAccept c => SdAccept s c
      | VReject e => SdReject e
      end
  end.
Proof.
  intros Hs. rewrite sd_verify_def, sd_verify_eq. unfold ref_sd_verify.
  destruct (ref_sd_select _ _ sd ext false); [|reflexivity].
  rewrite Hs. expose. change (zlen [s] =? 0) with false. cbv iota. cbn [ref_sd_loop].
  destruct (ref_sd_step _ _ _ _ _ s); reflexivity.
Qed.
Lemma select_by_ci C sd ext :
  ref_sd_select (hooks3 (real_prims C)) (real_prims C) sd ext false =
  match ci_bytes_m C (sd_ci sd) with
  | Ok None => match ext with Some e => SelContent (Wby e) | None => SelReject EV_NEW end
  | Ok (Some b) => match ext with None => SelContent (Wby b) | Some e => if bytes_eqb e b then SelContent (Wby b) else SelReject EV_NEW end
  | Err _ => SelReject EV_CI
  | Panic _ => SelReject EV_PANIC
  end.
Proof. unfold ref_sd_select. expose. rewrite <- ci_bytes_m_def. reflexivity. Qed.

Lemma has_empty_new C S sig : has_empty_m C (new_si S sig) = false.
Proof. unfold has_empty_m. rewrite has_empty_eq. reflexivity. Qed.
Lemma has_empty_parsed_si C S sig : signer_wf S -> all_bytes sig = true -> small (enc_tlv T_SEQ (si_body S sig)) ->
  has_empty_m C (parsed_si S sig) = false.
Proof.
  intros Hw Hs Hsm. destruct (si_reparse S sig Hw Hs Hsm) as (Hv & Ht & Hp & t1 & t2 & t3 & t4 & t5 & Hall & _).
  rewrite (has_empty_parsed C _ _ _ Hv Ht Hp Hall). reflexivity.
Qed.
(* Verify of a signer info without attributes depends on its fields only (not on whether it was built or parsed) *)
Lemma si_verify_fields C s content certs : si_auth s = None -> has_empty_m C s = false ->
  si_verify C s (Wby content) false certs =
  match c_hash_of C (si_dalg s) with
  | None => VReject EV_HASH
  | Some h => ref_finish (real_prims C) s certs (Some (c_H C h content))
  end.
Proof.
  intros Ha He. rewrite si_verify_unfold. unfold ref_si_verify. expose. rewrite Ha. cbn [opt_list]. change (zlen (@nil attr) =? 0) with true. cbv iota.
  rewrite <- has_empty_m_def, He. reflexivity.
Qed.
Lemma si_verify_parsed_eq C S sig content certs : signer_wf S -> all_bytes sig = true -> small (enc_tlv T_SEQ (si_body S sig)) ->
  si_verify C (parsed_si S sig) (Wby content) false certs = si_verify C (new_si S sig) (Wby content) false certs.
Proof.
  intros Hw Hs Hsm.
  rewrite (si_verify_fields C (parsed_si S sig) content certs eq_refl (has_empty_parsed_si C S sig Hw Hs Hsm)).
  rewrite (si_verify_fields C (new_si S sig) content certs eq_refl (has_empty_new C S sig)).
  reflexivity.
Qed.
Lemma step_parsed_eq C S sig content certs cerr : signer_wf S -> all_bytes sig = true -> small (enc_tlv T_SEQ (si_body S sig)) ->
  ref_sd_step (hooks3 (real_prims C)) (Wby content) false certs cerr (parsed_si S sig) =
  ref_sd_step (hooks3 (real_prims C)) (Wby content) false certs cerr (new_si S sig).
Proof.
  intros Hw Hs Hsm. unfold ref_sd_step. rewrite hk_verify3, <- si_verify_def. rewrite (si_verify_parsed_eq C S sig content certs Hw Hs Hsm). reflexivity.
Qed.
(* hence Verify answers the same on the built structure and on what Unmarshal makes of its bytes; the accepted signer info differs
   only in carrying its encoding *)
Definition same_verdict (a b : sdres) : Prop :=
  match a, b with
  | SdAccept _ c1, SdAccept _ c2 => c1 = c2
  | SdReject e1, SdReject e2 => e1 = e2
  | _, _ => False
  end.
Lemma sd_verify_parsed_eq C S ci sig ext : signer_wf S -> all_bytes sig = true -> small (enc_tlv T_SEQ (si_body S sig)) ->
  same_verdict (sd_verify C (parsed_sd S ci sig) (ext_val ext) false) (sd_verify C (built_sd S ci sig) (ext_val ext) false) /\
  (forall s c, sd_verify C (parsed_sd S ci sig) (ext_val ext) false = SdAccept s c -> s = parsed_si S sig).
Proof.
  intros Hw Hs Hsm. rewrite (sd_verify_one C (parsed_sd S ci sig) (parsed_si S sig) ext eq_refl).
  rewrite (sd_verify_one C (built_sd S ci sig) (new_si S sig) ext eq_refl).
  rewrite !select_by_ci. cbn [parsed_sd built_sd sd_ci sd_certs].
  set (certs := fst (c_parse_certs C (Some (sg_chain S)))). set (cerr := if snd (c_parse_certs C (Some (sg_chain S))) =? 0 then 0 else EV_PARSE).
  assert (K : forall content,
    same_verdict (match ref_sd_step (hooks3 (real_prims C)) (Wby content) false certs cerr (parsed_si S sig) with VAccept c => SdAccept (parsed_si S sig) c | VReject e => SdReject e end)
                 (match ref_sd_step (hooks3 (real_prims C)) (Wby content) false certs cerr (new_si S sig) with VAccept c => SdAccept (new_si S sig) c | VReject e => SdReject e end) /\
    (forall s c, (match ref_sd_step (hooks3 (real_prims C)) (Wby content) false certs cerr (parsed_si S sig) with VAccept c => SdAccept (parsed_si S sig) c | VReject e => SdReject e end) = SdAccept s c ->
                 s = parsed_si S sig)).
  { intros content. rewrite (step_parsed_eq C S sig content certs cerr Hw Hs Hsm).
    destruct (ref_sd_step _ _ _ _ _ (new_si S sig)); cbn [same_verdict]; split; try reflexivity; intros s0 c0 H; inversion H; reflexivity. }
  destruct (ci_bytes_m C ci) as [[b|]| |].
  - destruct ext as [e|].
    + destruct (bytes_eqb e b); [exact (K b)|]. split; [reflexivity|intros s0 c0 H; discriminate H].
    + exact (K b).
  - destruct ext as [e|]; [exact (K e)|]. split; [reflexivity|intros s0 c0 H; discriminate H].
  - split; [reflexivity|intros s0 c0 H; discriminate H].
  - split; [reflexivity|intros s0 c0 H; discriminate H].
Qed.

(* ================================================================== signers/cat.sign *)
Lemma cat_layout_ok_true : cat_layout_ok = true. Proof. vm_compute. reflexivity. Qed.
Lemma builder_layout_ok_true : builder_layout_ok = true. Proof. vm_compute. reflexivity. Qed.
Lemma tsm_layout_ok_true : tsm_layout_ok = true. Proof. vm_compute. reflexivity. Qed.
Lemma pkcs_layout_ok_true : pkcs_layout_ok = true. Proof. vm_compute. reflexivity. Qed.

Lemma built_cms_noattrs ctype digest ci S sig :
  built_cms (mkB ctype digest None) ci (sg_chain S) (sg_issuer S) (sg_serial S) (sg_dalg S) (sg_ealg S) sig = mkCms OID_sd (Some (built_sd S ci sig)).
Proof.
  unfold built_cms, built_si, built_sd, new_si, OID_sd. destruct (builder_no_attrs (mkB ctype digest None) eq_refl) as [E _]. rewrite E. reflexivity.
Qed.
Lemma builder_sign_noattrs C sgn S ci digest n : builder_sign C sgn S ci digest None = Ok n ->
  n = mkCms OID_sd (Some (built_sd S ci (sgn (sg_key S) digest))) /\ sg_chain S <> [] /\ sg_samekey S = true.
Proof.
  unfold builder_sign. change (b_sign_no_content false) with false. cbv iota. unfold b_sign_bad_cert.
  destruct ((zlen (sg_chain S) <? 1) || negb (sg_samekey S)) eqn:E; [discriminate|]. apply orb_false_iff in E as [E1 E2].
  destruct (builder_no_attrs (mkB (ci_ctype ci) digest None) eq_refl) as [_ Ep]. rewrite Ep. cbn [bind fst snd]. change (0 =? 0) with true. cbv iota.
  intros H. injection H as <-. split; [apply built_cms_noattrs|]. split.
  - intros Hn. rewrite Hn in E1. discriminate.
  - destruct (sg_samekey S); [reflexivity|discriminate].
Qed.
Lemma ts_and_marshal_inv C o y : ts_and_marshal C o = Ok y -> y = emit_cms o /\ exists s c, sd_verify C (sd_of o) Wnil false = SdAccept s c.
Proof.
  unfold ts_and_marshal. rewrite tsm_layout_ok_true. cbn [negb]. destruct (sd_verify C (sd_of o) Wnil false) as [s c|e] eqn:E; [|discriminate].
  intros H. injection H as <-. split; [reflexivity|eauto].
Qed.

Lemma cat_sign_inv C sgn S x y : cat_sign C sgn S x = Ok y ->
  exists o sd b, parse_cms x = Ok o /\ o_sd o = Some sd /\ ci_ctype (sd_ci sd) = OID_ctl /\
    ci_bytes (ci_raw (sd_ci sd)) = Ok (Some b) /\
    y = emit_cms (mkCms OID_sd (Some (built_sd S (sd_ci sd) (sgn (sg_key S) (c_H C (sg_hash S) b))))) /\
    (exists s c, sd_verify C (built_sd S (sd_ci sd) (sgn (sg_key S) (c_H C (sg_hash S) b))) Wnil false = SdAccept s c) /\
    sg_chain S <> [] /\ sg_samekey S = true.
Proof.
  unfold cat_sign. rewrite cat_layout_ok_true. cbn [negb]. intros H.
  apply bind_ok in H as (o & Ho & H). unfold cat_refuses in H.
  destruct (bytes_eqb (ci_ctype (sd_ci (sd_of o))) OID_ctl) eqn:Ec; cbn [negb] in H; [|discriminate].
  apply list_eqb_Z_eq in Ec.
  destruct (o_sd o) as [sd|] eqn:Esd; [|unfold sd_of in Ec; rewrite Esd in Ec; cbn in Ec; discriminate].
  assert (Esdo : sd_of o = sd) by (unfold sd_of; rewrite Esd; reflexivity). rewrite Esdo in *.
  apply bind_ok in H as ([ci digest] & Hsc & H). unfold set_content_info in Hsc. rewrite builder_layout_ok_true in Hsc. cbn [negb] in Hsc.
  apply bind_ok in Hsc as (blob & Hb & Hsc). injection Hsc as <- <-. cbn [fst snd] in H.
  apply bind_ok in H as (n & Hn & H). apply builder_sign_noattrs in Hn as (-> & Hch & Hsk).
  apply ts_and_marshal_inv in H as (-> & s & c & Hv). unfold sd_of in Hv. cbn [o_sd] in Hv.
  destruct (sd_verify_embedded_content _ _ _ _ Hv) as (b & certs & Hcb & _). cbn [built_sd sd_ci] in Hcb.
  rewrite Hcb in Hb. injection Hb as <-.
  exists o, sd, b. repeat split; try assumption; try reflexivity. exists s, c. exact Hv.
Qed.

Lemma parse_cms_wf_ci x o sd : all_bytes x = true -> parse_cms x = Ok o -> o_sd o = Some sd -> wf_ci (sd_ci sd).
Proof.
  intros Hb Hp Hs. pose proof (parse_cms_wf x o Hb Hp) as (_ & _ & _ & Hw). rewrite Hs in Hw. apply Hw.
Qed.

(* C03 / C08 (cat_content_preserved): re-signing keeps the encapsulated content info — content type and CTL — byte for byte; the
   output, read again by pkcs7.Unmarshal, carries exactly the configured chain and ONE signer info, the new one; whatever the input
   carried as certificates, CRLs and signer infos is gone *)
Theorem content_preserved C sgn S x y : all_bytes x = true -> signer_wf S -> (forall k d, all_bytes (sgn k d) = true) ->
  cat_sign C sgn S x = Ok y -> small y ->
  exists o sd b sig,
    parse_cms x = Ok o /\ o_sd o = Some sd /\ ci_bytes (ci_raw (sd_ci sd)) = Ok (Some b) /\ sig = sgn (sg_key S) (c_H C (sg_hash S) b) /\
    parse_cms y = Ok (mkCms OID_sd (Some (parsed_sd S (sd_ci sd) sig))) /\
    subslice (ci_raw (sd_ci sd)) x /\ subslice (ci_raw (sd_ci sd)) y /\
    spec_regions y = Some (mkReg (ci_raw (sd_ci sd)) (sort_b (sg_chain S)) [] [enc_tlv T_SEQ (si_body S sig)]).
Proof.
  intros Hb Hw Hsg H Hsm. destruct (cat_sign_inv _ _ _ _ _ H) as (o & sd & b & Ho & Hsd & Hct & Hcb & Hy & _).
  set (sig := sgn (sg_key S) (c_H C (sg_hash S) b)) in *.
  pose proof (parse_cms_wf_ci x o sd Hb Ho Hsd) as Hci.
  destruct (built_reparse S (sd_ci sd) sig Hw (Hsg _ _) Hci ltac:(rewrite <- Hy; exact Hsm)) as [Hrep Hby]. rewrite <- Hy in Hrep, Hby.
  exists o, sd, b, sig. split; [exact Ho|]. split; [exact Hsd|]. split; [exact Hcb|]. split; [reflexivity|]. split; [exact Hrep|].
  split. { apply (regions_are_subslices x o sd _ Hb Ho Hsd). left. reflexivity. }
  split. { apply (regions_are_subslices y _ (parsed_sd S (sd_ci sd) sig) _ Hby Hrep eq_refl). left. reflexivity. }
  pose proof (small_sis_inner S (sd_ci sd) sig ltac:(rewrite <- Hy; exact Hsm)) as Hsi.
  rewrite Hy, (emit_built_parsed S (sd_ci sd) sig Hw (Hsg _ _) Hsi).
  apply spec_regions_parsed; [exact Hw|apply Hsg|exact Hci| |exact Hsi].
  rewrite <- (emit_built_parsed S (sd_ci sd) sig Hw (Hsg _ _) Hsi), <- Hy. exact Hsm.
Qed.

(* what ContentInfo.Bytes returns is what the RFC 5652 reader calls the eContent octets, whenever that reader accepts the element *)
Lemma ci_bytes_spec_agree raw b b' : all_bytes raw = true -> ci_bytes raw = Ok (Some b) -> spec_econtent raw = Some (Some b') -> b' = b.
Proof.
  intros Hb Hc Hs. unfold spec_econtent, one in Hs.
  destruct (read_all raw) as [[|eci [|]]| |] eqn:Er; try discriminate.
  apply read_all_cons in Er as (_ & Hve & _ & Hre & _); [|exact Hb]. cbn [map concat] in Hre.
  destruct (children eci) as [[|ot [|wrap [|]]]|] eqn:Ec; try discriminate.
  apply children_ok in Ec; [|exact Hve].
  apply read_all_cons in Ec as (_ & Hvo & Hvw & Hro & Hrw); [|apply valid_body_bytes; exact Hve]. cbn [map concat] in Hro, Hrw.
  assert (Hvw' : valid wrap) by (inversion Hvw; assumption).
  apply read_all_cons in Hrw as (_ & _ & _ & Hrw & _); [|rewrite app_nil_r; apply valid_full_bytes; exact Hvw']. cbn [map concat] in Hrw.
  destruct (t_tag wrap =? 160); [|discriminate].
  destruct (children wrap) as [[|e [|]]|] eqn:Ew; try discriminate.
  apply children_ok in Ew; [|exact Hvw'].
  apply read_all_cons in Ew as (_ & _ & _ & Hrb & _); [|apply valid_body_bytes; exact Hvw']. injection Hs as <-.
  unfold ci_bytes, read_expect in Hc. rewrite Hre in Hc. cbn [bind fst] in Hc.
  destruct (t_tag eci =? T_SEQ); [|discriminate]. rewrite Hro in Hc. cbn [bind fst snd] in Hc.
  destruct (t_tag ot =? T_OID); [|discriminate]. destruct (negb (oid_ok (t_body ot))); [discriminate|].
  rewrite Hrw in Hc. rewrite Hrb in Hc. injection Hc as <-. reflexivity.
Qed.

(* C05 (cat_digest_is_econtent_octets): the digest the new signature covers is the digest of the content octets of the element inside
   [0] of the encapsulated content info — identifier and length octets of that element excluded —, the same octets on which the
   RFC 5652 reader and, when the input is SEQUENCE { type, [0] { tag len payload } }, the payload *)
Theorem digest_is_econtent C sgn S x y : all_bytes x = true -> signer_wf S -> (forall k d, all_bytes (sgn k d) = true) ->
  cat_sign C sgn S x = Ok y -> small y ->
  exists o sd b, parse_cms x = Ok o /\ o_sd o = Some sd /\ cat_hashin x = Ok b /\
    parse_cms y = Ok (mkCms OID_sd (Some (parsed_sd S (sd_ci sd) (sgn (sg_key S) (c_H C (sg_hash S) b))))) /\
    (forall b', spec_econtent (ci_raw (sd_ci sd)) = Some (Some b') -> b' = b) /\
    (forall ctype tag payload, ci_raw (sd_ci sd) = enc_tlv T_SEQ (enc_tlv T_OID ctype ++ enc_tlv 160 (enc_tlv tag payload)) ->
       small (ci_raw (sd_ci sd)) -> oid_ok ctype = true -> all_bytes ctype = true -> tag_ok tag -> all_bytes payload = true -> b = payload).
Proof.
  intros Hb Hw Hsg H Hsm. destruct (content_preserved C sgn S x y Hb Hw Hsg H Hsm) as (o & sd & b & sig & Ho & Hsd & Hcb & -> & Hrep & Hsub & _).
  exists o, sd, b. split; [exact Ho|]. split; [exact Hsd|].
  split. { unfold cat_hashin. rewrite Ho. cbn [bind]. unfold sd_of. rewrite Hsd. rewrite Hcb. reflexivity. }
  split; [exact Hrep|].
  assert (Hbr : all_bytes (ci_raw (sd_ci sd)) = true).
  { destruct Hsub as (pre & post & E). rewrite E in Hb. apply all_bytes_app_iff in Hb as [_ Hb]. apply all_bytes_app_iff in Hb as [Hb _]. exact Hb. }
  split.
  - intros b' Hs. apply (ci_bytes_spec_agree _ _ _ Hbr Hcb Hs).
  - intros ctype tag payload Er Hsr Ho1 Ho2 Ht Hp.
    rewrite Er in Hcb, Hsr. destruct (ci_bytes_is_econtent ctype tag payload Ho1 Ho2 Ht Hp Hsr) as [E _]. cbv zeta in E. rewrite E in Hcb. injection Hcb as <-. reflexivity.
Qed.


(* C05 (known deviation, recorded as C05:spec:cat:pkcs7-signedattrs-absent-for-non-data-content): the signer info relic writes into a
   catalog has NO signed attributes although the content type is not id-data (RFC 5652 5.3 requires content-type and message-digest
   attributes in that case) *)
Theorem no_signed_attributes C sgn S x y : all_bytes x = true -> signer_wf S -> (forall k d, all_bytes (sgn k d) = true) ->
  cat_sign C sgn S x = Ok y -> small y ->
  exists o' sd' s, parse_cms y = Ok o' /\ o_sd o' = Some sd' /\ sd_sis sd' = [s] /\ si_auth s = None /\
    ci_ctype (sd_ci sd') = OID_ctl /\ OID_ctl <> OID_data /\ spec_signed_attrs_preimage (si_raw s) = None.
Proof.
  intros Hb Hw Hsg H Hsm. destruct (content_preserved C sgn S x y Hb Hw Hsg H Hsm) as (o & sd & b & sig & Ho & Hsd & Hcb & -> & Hrep & _).
  destruct (cat_sign_inv _ _ _ _ _ H) as (o2 & sd2 & b2 & Ho2 & Hsd2 & Hct & Hcb2 & Hy & _). rewrite Ho in Ho2. injection Ho2 as <-. rewrite Hsd in Hsd2. injection Hsd2 as <-.
  rewrite Hcb in Hcb2. injection Hcb2 as <-. set (sig := sgn (sg_key S) (c_H C (sg_hash S) b)) in *.
  exists (mkCms OID_sd (Some (parsed_sd S (sd_ci sd) sig))), (parsed_sd S (sd_ci sd) sig), (parsed_si S sig).
  split; [exact Hrep|]. split; [reflexivity|]. split; [reflexivity|]. split; [reflexivity|]. split; [exact Hct|]. split; [vm_compute; discriminate|].
  pose proof (small_sis_inner S (sd_ci sd) sig ltac:(rewrite <- Hy; exact Hsm)) as Hsi.
  destruct (si_reparse S sig Hw (Hsg _ _) Hsi) as (Hv & Ht & Hp & t1 & t2 & t3 & t4 & t5 & Hall & T4).
  unfold spec_signed_attrs_preimage, one. cbn [parsed_si si_raw].
  change (enc_tlv T_SEQ (si_body S sig)) with (t_full (si_tlv S sig)). rewrite <- (app_nil_r (t_full (si_tlv S sig))).
  change (t_full (si_tlv S sig) ++ []) with (concat (map t_full [si_tlv S sig])). rewrite read_all_concat by (constructor; [exact Hv|constructor]).
  unfold children. cbn [si_tlv t_body]. rewrite Hall. rewrite T4. reflexivity.
Qed.

(* C01 (cat_sign_then_verify): relic's verifier, run on the bytes it wrote, accepts them under the certificate of the configured
   chain that matches the signer's issuer and serial number, checking the signature over the digest of the eContent octets *)
Theorem sign_then_verify C sgn S x y cf : all_bytes x = true -> signer_wf S -> (forall k d, all_bytes (sgn k d) = true) ->
  cat_sign C sgn S x = Ok y -> small y ->
  exists b c h, cat_hashin x = Ok b /\
    pkcs_verify C y false [] cf = Ok (SdAccept (parsed_si S (sgn (sg_key S) (c_H C (sg_hash S) b))) c) /\
    find_cert (fst (c_parse_certs C (Some (sg_chain S)))) (sg_issuer S) (sg_serial S) = Some c /\
    c_hash_of C (sg_dalg S) = Some h /\
    signature_accepted C c (new_si S (sgn (sg_key S) (c_H C (sg_hash S) b))) (c_H C h b).
Proof.
  intros Hb Hw Hsg H Hsm. destruct (digest_is_econtent C sgn S x y Hb Hw Hsg H Hsm) as (o & sd & b & Ho & Hsd & Hh & Hrep & _).
  destruct (cat_sign_inv _ _ _ _ _ H) as (o2 & sd2 & b2 & Ho2 & Hsd2 & _ & Hcb & Hy & (s0 & c0 & Hv) & _).
  rewrite Ho in Ho2. injection Ho2 as <-. rewrite Hsd in Hsd2. injection Hsd2 as <-.
  assert (b2 = b).
  { unfold cat_hashin in Hh. rewrite Ho in Hh. cbn [bind] in Hh. unfold sd_of in Hh. rewrite Hsd, Hcb in Hh. cbn [bind] in Hh. congruence. }
  subst b2. set (sig := sgn (sg_key S) (c_H C (sg_hash S) b)) in *.
  pose proof (small_sis_inner S (sd_ci sd) sig ltac:(rewrite <- Hy; exact Hsm)) as Hsi.
  destruct (sd_verify_parsed_eq C S (sd_ci sd) sig None Hw (Hsg _ _) Hsi) as [Hsame Hwho]. cbn [ext_val] in Hsame, Hwho.
  rewrite Hv in Hsame. destruct (sd_verify C (parsed_sd S (sd_ci sd) sig) Wnil false) as [s1 c1|e1] eqn:Ep; cbn [same_verdict] in Hsame; [|contradiction]. subst c1.
  rewrite (Hwho s1 c0 eq_refl) in Ep.
  (* what the accepting self check established *)
  change Wnil with (ext_val None) in Hv. rewrite (sd_verify_one C (built_sd S (sd_ci sd) sig) (new_si S sig) None eq_refl) in Hv. rewrite select_by_ci in Hv. cbn [built_sd sd_ci sd_certs] in Hv.
  rewrite (proj2 (ci_bytes_m_ok C (sd_ci sd) (Some b)) Hcb) in Hv.
  destruct (ref_sd_step _ (Wby b) false _ _ (new_si S sig)) as [c|e] eqn:Est; [|discriminate]. injection Hv as _ ->.
  apply ref_sd_step_accept in Est. rewrite hk_verify3, <- si_verify_def in Est.
  destruct (si_verify_accept_inv _ _ _ _ _ _ Est) as (h & Hho & Hf & [(_ & _ & [Hk|Hk])|(Hne & _)]); [discriminate| |exfalso; apply Hne; reflexivity].
  exists b, c0, h. split; [exact Hh|]. split.
  - unfold pkcs_verify. rewrite pkcs_layout_ok_true. cbn [negb]. rewrite Hrep. cbn [bind]. unfold sd_of. cbn [o_sd].
    unfold pkcs_cblob, pkcs_reads_content. cbn [bytes_eqb list_eqb negb andb ext_val]. rewrite Ep. reflexivity.
  - split; [exact Hf|]. split; [exact Hho|exact Hk].
Qed.

(* C01 (cat_refuses_clean): what is not signed is refused with an error: input pkcs7.Unmarshal rejects; content that is not a
   certificate trust list (also SignedData without the content field); a catalog without its content *)
Theorem refuses_clean C sgn S x :
  (forall e, parse_cms x = Err e -> cat_sign C sgn S x = Err e) /\
  (forall o, parse_cms x = Ok o -> ci_ctype (sd_ci (sd_of o)) <> OID_ctl -> cat_sign C sgn S x = Err E_NOT_CATALOG) /\
  (forall o, parse_cms x = Ok o -> ci_ctype (sd_ci (sd_of o)) = OID_ctl -> ci_bytes (ci_raw (sd_ci (sd_of o))) = Ok None ->
     sg_chain S <> [] -> sg_samekey S = true -> cat_sign C sgn S x = Err E_SELFCHECK).
Proof.
  unfold cat_sign. rewrite cat_layout_ok_true. cbn [negb]. split; [|split].
  - intros e ->. reflexivity.
  - intros o -> Hn. cbn [bind]. unfold cat_refuses.
    destruct (bytes_eqb (ci_ctype (sd_ci (sd_of o))) OID_ctl) eqn:E; [apply list_eqb_Z_eq in E; contradiction|reflexivity].
  - intros o -> Hc Hb Hch Hsk. cbn [bind]. unfold cat_refuses. rewrite Hc.
    replace (bytes_eqb OID_ctl OID_ctl) with true by (symmetry; apply list_eqb_Z_eq; reflexivity). cbn [negb].
    unfold set_content_info. rewrite builder_layout_ok_true. cbn [negb]. rewrite Hb. cbn [bind fst snd].
    unfold builder_sign. change (b_sign_no_content false) with false. cbv iota. unfold b_sign_bad_cert. rewrite Hsk.
    replace (zlen (sg_chain S) <? 1) with false by (destruct (sg_chain S); [congruence|rewrite zlen_cons; pose proof (zlen_nonneg l); lia]).
    cbn [negb orb]. destruct (builder_no_attrs (mkB (ci_ctype (sd_ci (sd_of o))) (c_H C (sg_hash S) []) None) eq_refl) as [_ Ep]. rewrite Ep.
    cbn [bind fst snd b_digest]. change (0 =? 0) with true. cbv iota. rewrite built_cms_noattrs.
    unfold ts_and_marshal. rewrite tsm_layout_ok_true. cbn [negb]. unfold sd_of at 1. cbn [o_sd].
    change Wnil with (ext_val None).
    rewrite (sd_verify_one C (built_sd S (sd_ci (sd_of o)) (sgn (sg_key S) (c_H C (sg_hash S) []))) (new_si S (sgn (sg_key S) (c_H C (sg_hash S) []))) None eq_refl).
    rewrite select_by_ci. cbn [built_sd sd_ci].
    rewrite (proj2 (ci_bytes_m_ok C (sd_ci (sd_of o)) None) Hb). reflexivity.
Qed.

(* C08: the digest preimage of a catalog does not depend on the signature it carries; signing again replaces the signer info and the
   certificates and keeps the content; the is-signed probe answers true for every output *)
Theorem hashin_ignores_signature C sgn S x y : all_bytes x = true -> signer_wf S -> (forall k d, all_bytes (sgn k d) = true) ->
  cat_sign C sgn S x = Ok y -> small y -> cat_hashin y = cat_hashin x /\ cms_is_signed y = Ok true /\ all_bytes y = true.
Proof.
  intros Hb Hw Hsg H Hsm. destruct (digest_is_econtent C sgn S x y Hb Hw Hsg H Hsm) as (o & sd & b & Ho & Hsd & Hh & Hrep & _).
  destruct (cat_sign_inv _ _ _ _ _ H) as (o2 & sd2 & b2 & Ho2 & Hsd2 & _ & Hcb & Hy & _).
  rewrite Ho in Ho2. injection Ho2 as <-. rewrite Hsd in Hsd2. injection Hsd2 as <-.
  split; [|split].
  - rewrite Hh. unfold cat_hashin in Hh |- *. rewrite Hrep. rewrite Ho in Hh. cbn [bind] in *. unfold sd_of in *. rewrite Hsd in Hh. cbn [o_sd parsed_sd sd_ci]. exact Hh.
  - unfold cms_is_signed. rewrite Hrep. reflexivity.
  - pose proof (parse_cms_wf_ci x o sd Hb Ho Hsd) as Hci.
    rewrite Hy. apply built_reparse; [exact Hw|apply Hsg|exact Hci|rewrite <- Hy; exact Hsm].
Qed.
Theorem resign_replaces C sgn S1 S2 x y1 y2 : all_bytes x = true -> signer_wf S1 -> signer_wf S2 -> (forall k d, all_bytes (sgn k d) = true) ->
  cat_sign C sgn S1 x = Ok y1 -> small y1 -> cat_sign C sgn S2 y1 = Ok y2 -> small y2 ->
  exists o sd b, parse_cms x = Ok o /\ o_sd o = Some sd /\ cat_hashin x = Ok b /\ cat_hashin y2 = Ok b /\
    parse_cms y2 = Ok (mkCms OID_sd (Some (parsed_sd S2 (sd_ci sd) (sgn (sg_key S2) (c_H C (sg_hash S2) b))))).
Proof.
  intros Hb Hw1 Hw2 Hsg H1 Hs1 H2 Hs2.
  destruct (digest_is_econtent C sgn S1 x y1 Hb Hw1 Hsg H1 Hs1) as (o & sd & b & Ho & Hsd & Hh & Hrep & _).
  destruct (hashin_ignores_signature C sgn S1 x y1 Hb Hw1 Hsg H1 Hs1) as (Hh1 & _ & Hb1).
  destruct (digest_is_econtent C sgn S2 y1 y2 Hb1 Hw2 Hsg H2 Hs2) as (o1 & sd1 & b1 & Ho1 & Hsd1 & Hh2 & Hrep2 & _).
  destruct (hashin_ignores_signature C sgn S2 y1 y2 Hb1 Hw2 Hsg H2 Hs2) as (Hh3 & _ & _).
  rewrite Hrep in Ho1. injection Ho1 as <-. cbn [o_sd] in Hsd1. injection Hsd1 as <-. cbn [parsed_sd sd_ci] in Hrep2.
  rewrite Hh1, Hh in Hh2. injection Hh2 as <-.
  exists o, sd, b. repeat split; try assumption. rewrite Hh3, Hh1. exact Hh.
Qed.
Theorem is_signed_spec x o : parse_cms x = Ok o -> cms_is_signed x = Ok (negb (zlen (sd_sis (sd_of o)) =? 0)).
Proof. intros H. unfold cms_is_signed. rewrite H. reflexivity. Qed.

(* ================================================================== PKCS#7 over arbitrary content *)
Definition ci_att (content : bytes) : cinfo := new_ci OID_data (Some (enc_tlv T_OCT content)).
Definition ci_det : cinfo := mkCi [] OID_data.
Definition ci_det_p : cinfo := mkCi (enc_tlv T_SEQ (enc_tlv T_OID OID_data)) OID_data.

Lemma wf_OID_data : oid_ok OID_data = true /\ all_bytes OID_data = true /\ small OID_data.
Proof. split; [vm_compute; reflexivity|]. split; [vm_compute; reflexivity|]. unfold small. vm_compute. reflexivity. Qed.
Lemma ci_att_raw content : ci_raw (ci_att content) = enc_tlv T_SEQ (enc_tlv T_OID OID_data ++ enc_tlv 160 (enc_tlv T_OCT content)).
Proof. reflexivity. Qed.
(* C05 (pkcs_digest_is_content): SetContentData stores the data as an OCTET STRING inside [0] and digests exactly the data *)
Lemma ci_att_facts content : all_bytes content = true -> small (ci_raw (ci_att content)) ->
  wf_ci (ci_att content) /\ ci_bytes (ci_raw (ci_att content)) = Ok (Some content) /\ spec_econtent (ci_raw (ci_att content)) = Some (Some content).
Proof.
  intros Hb Hs. destruct wf_OID_data as (H1 & H2 & H3). rewrite ci_att_raw in *.
  destruct (ci_bytes_is_econtent OID_data T_OCT content H1 H2 ltac:(tagok) Hb Hs) as [E1 E2]. cbv zeta in E1, E2.
  split; [|split; assumption].
  set (body := enc_tlv T_OID OID_data ++ enc_tlv 160 (enc_tlv T_OCT content)) in *.
  exists (mkTlv T_SEQ body (enc_tlv T_SEQ body)).
  pose proof (small_enc_tlv _ _ Hs) as Hsb. pose proof Hsb as Hsb'. unfold body in Hsb'. apply small_app in Hsb' as [So Sw].
  pose proof (small_enc_tlv _ _ Sw) as Si. pose proof (small_enc_tlv _ _ Si) as Sc.
  assert (Bo : all_bytes (enc_tlv T_OID OID_data) = true) by (apply (valid_full_bytes (mkTlv T_OID OID_data (enc_tlv T_OID OID_data))); apply valid_enc; [tagok|exact H3|exact H2]).
  assert (Bi : all_bytes (enc_tlv T_OCT content) = true) by (apply (valid_full_bytes (mkTlv T_OCT content (enc_tlv T_OCT content))); apply valid_enc; [tagok|exact Sc|exact Hb]).
  assert (Bw : all_bytes (enc_tlv 160 (enc_tlv T_OCT content)) = true) by (apply (valid_full_bytes (mkTlv 160 (enc_tlv T_OCT content) (enc_tlv 160 (enc_tlv T_OCT content)))); apply valid_enc; [tagok|exact Si|exact Bi]).
  split; [apply valid_enc; [tagok|exact Hsb|apply all_bytes_app_iff; split; assumption]|]. split; [reflexivity|].
  unfold parse_ci. cbn [t_body t_full]. unfold body. rewrite read_expect_enc by (try tagok; exact H3). cbn [bind fst t_body]. rewrite H1. reflexivity.
Qed.
Lemma ci_det_p_facts : wf_ci ci_det_p /\ ci_bytes (ci_raw ci_det_p) = Ok None /\ emit_ci ci_det = ci_raw ci_det_p.
Proof.
  split; [|split; [vm_compute; reflexivity|reflexivity]].
  exists (mkTlv T_SEQ (enc_tlv T_OID OID_data) (enc_tlv T_SEQ (enc_tlv T_OID OID_data))).
  split; [apply valid_enc; [tagok|unfold small; vm_compute; reflexivity|vm_compute; reflexivity]|]. split; [reflexivity|vm_compute; reflexivity].
Qed.
Lemma emit_det S sig : emit_cms (mkCms OID_sd (Some (built_sd S ci_det sig))) = emit_cms (mkCms OID_sd (Some (built_sd S ci_det_p sig))).
Proof.
  unfold emit_cms, emit_sd_body, built_sd. cbn [o_ctype o_sd sd_version sd_dalgs sd_ci sd_certs sd_crls sd_sis].
  destruct ci_det_p_facts as (Hw & _ & E). rewrite E. rewrite (emit_ci_wf _ Hw). reflexivity.
Qed.
Lemma detach_built S ci sig : detach (mkCms OID_sd (Some (built_sd S ci sig))) = mkCms OID_sd (Some (built_sd S (mkCi [] (ci_ctype ci)) sig)).
Proof. reflexivity. Qed.

Lemma pkcs_sign_inv C sgn S content detached y : all_bytes content = true -> small (ci_raw (ci_att content)) ->
  pkcs_sign C sgn S content detached None = Ok y ->
  (exists s c, sd_verify C (built_sd S (ci_att content) (sgn (sg_key S) (c_H C (sg_hash S) content))) Wnil false = SdAccept s c) /\
  sg_chain S <> [] /\ sg_samekey S = true /\
  y = emit_cms (mkCms OID_sd (Some (built_sd S (if detached then ci_det else ci_att content) (sgn (sg_key S) (c_H C (sg_hash S) content))))).
Proof.
  intros Hb Hs. destruct (ci_att_facts content Hb Hs) as (_ & Hcb & _).
  unfold pkcs_sign, set_content_data, set_content_info. rewrite builder_layout_ok_true. cbn [negb]. fold (ci_att content). rewrite Hcb. cbn [bind fst snd].
  intros H. apply bind_ok in H as (n & Hn & H). apply builder_sign_noattrs in Hn as (-> & Hch & Hsk).
  apply bind_ok in H as (att & Ha & H). apply ts_and_marshal_inv in Ha as (-> & s & c & Hv). unfold sd_of in Hv. cbn [o_sd] in Hv.
  split; [exists s, c; exact Hv|]. split; [exact Hch|]. split; [exact Hsk|].
  destruct detached; injection H as <-; [rewrite detach_built|]; reflexivity.
Qed.

(* the step the self check took on the attached form *)
Lemma selfcheck_step C S content sig s c : all_bytes content = true -> small (ci_raw (ci_att content)) ->
  sd_verify C (built_sd S (ci_att content) sig) Wnil false = SdAccept s c ->
  ref_sd_step (hooks3 (real_prims C)) (Wby content) false (fst (c_parse_certs C (Some (sg_chain S))))
              (if snd (c_parse_certs C (Some (sg_chain S))) =? 0 then 0 else EV_PARSE) (new_si S sig) = VAccept c.
Proof.
  intros Hb Hs Hv. destruct (ci_att_facts content Hb Hs) as (_ & Hcb & _).
  change Wnil with (ext_val None) in Hv. rewrite (sd_verify_one C (built_sd S (ci_att content) sig) (new_si S sig) None eq_refl) in Hv.
  rewrite select_by_ci in Hv. cbn [built_sd sd_ci sd_certs] in Hv. rewrite (proj2 (ci_bytes_m_ok C (ci_att content) (Some content)) Hcb) in Hv.
  destruct (ref_sd_step _ (Wby content) false _ _ (new_si S sig)) as [c'|e]; [|discriminate]. injection Hv as _ ->. reflexivity.
Qed.

Lemma cblob_none nod cf : pkcs_cblob nod [] cf = None.
Proof. unfold pkcs_cblob, pkcs_reads_content. cbn [bytes_eqb list_eqb negb]. rewrite andb_false_r. reflexivity. Qed.
Lemma cblob_some path cf : path <> [] -> pkcs_cblob false path cf = Some cf.
Proof. intros H. unfold pkcs_cblob, pkcs_reads_content. destruct path; [congruence|reflexivity]. Qed.
Lemma cblob_nodigests path cf : pkcs_cblob true path cf = None.
Proof. reflexivity. Qed.

Section PkcsRoundTrip.
  Variables (C : crypto) (sgn : Z -> bytes -> bytes) (S : signer) (content : bytes).
  Hypothesis Hb : all_bytes content = true.
  Hypothesis Hw : signer_wf S.
  Hypothesis Hsg : forall k d, all_bytes (sgn k d) = true.
  Let sig := sgn (sg_key S) (c_H C (sg_hash S) content).

  (* C01 (pkcs_attached_verify_roundtrip) / C02 (pkcs_attached_other_content_rejected): an attached signature verifies without
     --content and with --content naming the same bytes; any other --content is refused before a signature is looked at *)
  Theorem attached_roundtrip y : pkcs_sign C sgn S content false None = Ok y -> small y -> small (ci_raw (ci_att content)) ->
    exists c, (forall cf, pkcs_verify C y false [] cf = Ok (SdAccept (parsed_si S sig) c)) /\
              (forall path, pkcs_verify C y false path content = Ok (SdAccept (parsed_si S sig) c)) /\
              (forall path other, path <> [] -> other <> content -> pkcs_verify C y false path other = Ok (SdReject EV_NEW)).
  Proof.
    intros H Hsm Hs. destruct (pkcs_sign_inv C sgn S content false y Hb Hs H) as ((s0 & c0 & Hv) & Hch & Hsk & Hy). fold sig in Hv, Hy.
    destruct (ci_att_facts content Hb Hs) as (Hci & Hcb & _).
    destruct (built_reparse S (ci_att content) sig Hw (Hsg _ _) Hci ltac:(rewrite <- Hy; exact Hsm)) as [Hrep _]. rewrite <- Hy in Hrep.
    pose proof (small_sis_inner S (ci_att content) sig ltac:(rewrite <- Hy; exact Hsm)) as Hsi.
    pose proof (selfcheck_step C S content sig s0 c0 Hb Hs Hv) as Hst.
    assert (V : forall ext, (ext = None \/ ext = Some content) -> sd_verify C (parsed_sd S (ci_att content) sig) (ext_val ext) false = SdAccept (parsed_si S sig) c0).
    { intros ext He. destruct (sd_verify_parsed_eq C S (ci_att content) sig ext Hw (Hsg _ _) Hsi) as [Hsame Hwho].
      rewrite (sd_verify_one C (built_sd S (ci_att content) sig) (new_si S sig) ext eq_refl) in Hsame. rewrite select_by_ci in Hsame. cbn [built_sd sd_ci sd_certs] in Hsame.
      rewrite (proj2 (ci_bytes_m_ok C (ci_att content) (Some content)) Hcb) in Hsame.
      assert (E : match ext with None => SelContent (Wby content) | Some e => if bytes_eqb e content then SelContent (Wby content) else SelReject EV_NEW end = SelContent (Wby content)).
      { destruct He as [->| ->]; [reflexivity|]. replace (bytes_eqb content content) with true by (symmetry; apply list_eqb_Z_eq; reflexivity). reflexivity. }
      rewrite E, Hst in Hsame. destruct (sd_verify C (parsed_sd S (ci_att content) sig) (ext_val ext) false) as [s1 c1|e1] eqn:Ep; cbn [same_verdict] in Hsame; [|contradiction].
      subst c1. rewrite (Hwho s1 c0 eq_refl). reflexivity. }
    exists c0. split; [|split].
    - intros cf. unfold pkcs_verify. rewrite pkcs_layout_ok_true. cbn [negb]. rewrite Hrep. cbn [bind]. unfold sd_of. cbn [o_sd]. rewrite cblob_none. rewrite (V None); auto.
    - intros path. unfold pkcs_verify. rewrite pkcs_layout_ok_true. cbn [negb]. rewrite Hrep. cbn [bind]. unfold sd_of. cbn [o_sd].
      destruct path as [|p0 path']; [rewrite cblob_none; rewrite (V None); auto|]. rewrite cblob_some by discriminate. rewrite (V (Some content)); auto.
    - intros path other Hp Ho. unfold pkcs_verify. rewrite pkcs_layout_ok_true. cbn [negb]. rewrite Hrep. cbn [bind]. unfold sd_of. cbn [o_sd]. rewrite (cblob_some path other Hp).
      rewrite (sd_verify_one C (parsed_sd S (ci_att content) sig) (parsed_si S sig) (Some other) eq_refl). rewrite select_by_ci. cbn [parsed_sd sd_ci].
      rewrite (proj2 (ci_bytes_m_ok C (ci_att content) (Some content)) Hcb).
      replace (bytes_eqb other content) with false; [reflexivity|]. symmetry. destruct (bytes_eqb other content) eqn:E; [apply list_eqb_Z_eq in E; contradiction|reflexivity].
  Qed.

  (* C01 (pkcs_detached_verify_roundtrip) / C02: a detached signature verifies with --content naming the signed bytes; without
     --content it is refused; with other bytes it is refused as soon as the signature does not verify over their digest *)
  Theorem detached_roundtrip y : pkcs_sign C sgn S content true None = Ok y -> small y -> small (ci_raw (ci_att content)) ->
    exists c, (forall path, path <> [] -> pkcs_verify C y false path content = Ok (SdAccept (parsed_si S sig) c)) /\
              (forall cf, pkcs_verify C y false [] cf = Ok (SdReject EV_NEW)) /\
              (forall path other h, path <> [] -> c_hash_of C (sg_dalg S) = Some h ->
                 (forall c', ~ signature_accepted C c' (new_si S sig) (c_H C h other)) ->
                 exists e, pkcs_verify C y false path other = Ok (SdReject e)) /\
              (forall path cf, pkcs_verify C y true path cf = Ok (sd_verify C (parsed_sd S ci_det_p sig) Wnil true)).
  Proof.
    intros H Hsm Hs. destruct (pkcs_sign_inv C sgn S content true y Hb Hs H) as ((s0 & c0 & Hv) & Hch & Hsk & Hy). fold sig in Hv, Hy.
    rewrite emit_det in Hy. destruct ci_det_p_facts as (Hci & Hcb & _).
    destruct (built_reparse S ci_det_p sig Hw (Hsg _ _) Hci ltac:(rewrite <- Hy; exact Hsm)) as [Hrep _]. rewrite <- Hy in Hrep.
    pose proof (small_sis_inner S ci_det_p sig ltac:(rewrite <- Hy; exact Hsm)) as Hsi.
    pose proof (selfcheck_step C S content sig s0 c0 Hb Hs Hv) as Hst.
    assert (U : forall nod path cf, pkcs_verify C y nod path cf = Ok (sd_verify C (parsed_sd S ci_det_p sig) (ext_val (pkcs_cblob nod path cf)) nod)).
    { intros nod path cf. unfold pkcs_verify. rewrite pkcs_layout_ok_true. cbn [negb]. rewrite Hrep. reflexivity. }
    exists c0. split; [|split; [|split]].
    - intros path Hp. rewrite U, (cblob_some path content Hp).
      destruct (sd_verify_parsed_eq C S ci_det_p sig (Some content) Hw (Hsg _ _) Hsi) as [Hsame Hwho].
      rewrite (sd_verify_one C (built_sd S ci_det_p sig) (new_si S sig) (Some content) eq_refl) in Hsame. rewrite select_by_ci in Hsame. cbn [built_sd sd_ci sd_certs] in Hsame.
      rewrite (proj2 (ci_bytes_m_ok C ci_det_p None) Hcb), Hst in Hsame.
      destruct (sd_verify C (parsed_sd S ci_det_p sig) (ext_val (Some content)) false) as [s1 c1|e1] eqn:Ep; cbn [same_verdict] in Hsame; [|contradiction].
      subst c1. rewrite (Hwho s1 c0 eq_refl). reflexivity.
    - intros cf. rewrite U, cblob_none. rewrite (sd_verify_one C (parsed_sd S ci_det_p sig) (parsed_si S sig) None eq_refl). rewrite select_by_ci. cbn [parsed_sd sd_ci].
      rewrite (proj2 (ci_bytes_m_ok C ci_det_p None) Hcb). reflexivity.
    - intros path other h Hp Hh Hno. rewrite U, (cblob_some path other Hp).
      rewrite (sd_verify_one C (parsed_sd S ci_det_p sig) (parsed_si S sig) (Some other) eq_refl). rewrite select_by_ci. cbn [parsed_sd sd_ci sd_certs].
      rewrite (proj2 (ci_bytes_m_ok C ci_det_p None) Hcb).
      set (certs := fst (c_parse_certs C (Some (sg_chain S)))). set (cerr := if snd (c_parse_certs C (Some (sg_chain S))) =? 0 then 0 else EV_PARSE).
      rewrite (step_parsed_eq C S sig other certs cerr Hw (Hsg _ _) Hsi).
      assert (R : exists e, si_verify C (new_si S sig) (Wby other) false certs = VReject e).
      { rewrite (si_verify_fields C (new_si S sig) other certs eq_refl (has_empty_new C S sig)). cbn [new_si si_dalg]. rewrite Hh.
        unfold ref_finish. expose. cbn [si_issuer si_serial].
        destruct (find_cert certs (si_issuer (new_si S sig)) (si_serial (new_si S sig))) as [c'|]; [|eexists; reflexivity].
        specialize (Hno c'). unfold signature_accepted in Hno. fold (new_si S sig).
        destruct (sig_decides (real_prims C) c' (new_si S sig) (c_H C h other)); [contradiction Hno; reflexivity| |]; cbn [sig_err]; eexists; reflexivity. }
      destruct R as [e R]. unfold ref_sd_step. rewrite hk_verify3, <- si_verify_def, R.
      destruct ((e =? EV_CERT) && negb (cerr =? 0)); eexists; reflexivity.
    - intros path cf. rewrite U, cblob_nodigests. reflexivity.
  Qed.
End PkcsRoundTrip.

(* C05: what SetContentData digests and stores *)
Theorem digest_is_content C h data : all_bytes data = true -> small (ci_raw (ci_att data)) ->
  set_content_data C h data = Ok (ci_att data, c_H C h data) /\ spec_econtent (ci_raw (ci_att data)) = Some (Some data) /\ ci_ctype (ci_att data) = OID_data.
Proof.
  intros Hb Hs. destruct (ci_att_facts data Hb Hs) as (_ & Hcb & Hsp).
  unfold set_content_data, set_content_info. rewrite builder_layout_ok_true. cbn [negb]. fold (ci_att data). rewrite Hcb. repeat split; assumption.
Qed.
(* C01: the builder's refusals *)
Theorem builder_refuses C sgn S ci digest attrs hsize ctype :
  (sg_chain S = [] -> builder_sign C sgn S ci digest attrs = Err E_BUILDER) /\
  (sg_samekey S = false -> builder_sign C sgn S ci digest attrs = Err E_BUILDER) /\
  (zlen digest <> hsize -> set_detached_content hsize ctype digest = Err E_BUILDER) /\
  (zlen digest = hsize -> set_detached_content hsize ctype digest = Ok (mkCi [] ctype, digest)).
Proof.
  unfold builder_sign, set_detached_content. rewrite builder_layout_ok_true. change (b_sign_no_content false) with false. cbn [negb]. unfold b_sign_bad_cert, b_detached_size_mismatch.
  repeat split.
  - intros ->. reflexivity.
  - intros ->. rewrite orb_true_r. reflexivity.
  - intros Hn. replace (zlen digest =? hsize) with false by lia. reflexivity.
  - intros He. replace (zlen digest =? hsize) with true by lia. reflexivity.
Qed.

(* ================================================================== magic: a well-formed catalog that is NOT routed to the catalog signer *)
Definition ex_alg : bytes := enc_tlv 48 (enc_tlv 6 [96; 134; 72; 1; 101; 3; 4; 2; 1] ++ [5; 0]).
Definition ex_far_catalog : bytes :=
  enc_tlv 48 (enc_tlv 6 OID_sd ++ enc_tlv 160 (enc_tlv 48 (enc_tlv 2 [1] ++ enc_tlv 49 (concat (repeat ex_alg 17)) ++
              enc_tlv 48 (enc_tlv 6 OID_ctl ++ enc_tlv 160 (enc_tlv 48 [4; 1; 7])) ++ enc_tlv 49 []))).
Theorem routes_every_catalog_refuted :
  exists x o, parse_cms x = Ok o /\ ci_ctype (sd_ci (sd_of o)) = OID_ctl /\ spec_econtent (ci_raw (sd_ci (sd_of o))) = Some (Some [4; 1; 7]) /\
              detect x = Some magic_FileTypePKCS7.
Proof.
  exists ex_far_catalog. eexists. split; [vm_compute; reflexivity|]. split; [vm_compute; reflexivity|]. split; vm_compute; reflexivity.
Qed.
