(* FmtCAT/Run.v — evaluation of the models and the specification functions on harness cases.  input [kind ...]:
   0 magic   [0 f]                                   -> [type]            (-2: none of the modelled clauses)
   1 cat-pre [1 x]                                   -> [status preimage present ci_raw spec_econtent_agrees]
   2 cat-emit [2 x signer digest sig]                -> [status y spec_ci_kept spec_certs_are_chain spec_one_si]
   3 pkcs-select [3 y nodigests path file]           -> [status sel e content nsis is_signed]
   4 pkcs-emit [4 content detached attrs signer digest sig] -> [status y kind preimage]
   5 cosign  [5 mlen h json_ok media_type mdigest pdigest sig] -> [status payload subject_digest layer_digest sig_b64 read_ok]
   6 rpm     [6 f blob]                              -> [sig_span gen_start gen_len hashin_hdr hashin_all nsigs embed_status g extract_ok spec_ok]
   7 rpm-report [7 sigs nochain]                     -> [status n kids]
   8 codecs  [8 bytes]                               -> [hex b64 hex_back b64_back]
   signer = [chain issuer serial dalg_oid dalg_params ealg_oid ealg_params ncerts_same_key] *)
From Relic Require Import Base.Prelude Base.Enc Base.Val Generated.C16_gen C16.Model C16.VModel Generated.FmtCAT_gen FmtCAT.Model.

Definition st_of {A} (r : result A) : Z := match r with Ok _ => 0 | Err e => e | Panic e => 1000 + e end.
Definition rb (r : result bytes) : bytes := match r with Ok b => b | _ => [] end.

Definition signer_of (v : val) : signer :=
  mkSigner 0 (vb (vnth 1 v)) (vb (vnth 2 v)) (map vb (vl (vnth 0 v)))
           (mkAlg (vb (vnth 3 v)) (vb (vnth 4 v))) (mkAlg (vb (vnth 5 v)) (vb (vnth 6 v))) 0 (vbool (vnth 7 v)).
(* a permissive stand-in for the cryptography: the digest is the one the harness observed, every signature check passes,
   the certificate bundle yields the signer's certificate *)
Definition toy (S : signer) (digest : bytes) : crypto :=
  mkCrypto (fun _ => Some 0) (fun _ _ => digest) (fun _ _ _ _ _ => SigOk) (fun _ _ _ _ => SigOk)
           (fun _ => ([mkCert (sg_issuer S) (sg_serial S) 0], 0)) (fun _ => Err 0) (fun _ => 0).

Definition run_magic (v : val) : val :=
  VL [VZ (match detect (vb (vnth 1 v)) with Some t => t | None => -2 end)].

Definition run_cat_pre (v : val) : val :=
  let x := vb (vnth 1 v) in
  match parse_cms x with
  | Ok o =>
      let ci := sd_ci (sd_of o) in
      if cat_refuses (bytes_eqb (ci_ctype ci) OID_ctl) then VL [VZ E_NOT_CATALOG; VB []; VZ 0; VB []; VZ 0] else
      match ci_bytes (ci_raw ci) with
      | Ok (Some b) => VL [VZ 0; VB b; VZ 1; VB (ci_raw ci);
                           of_bool (match spec_econtent (ci_raw ci) with Some (Some b') => bytes_eqb b b' | _ => false end)]
      | Ok None => VL [VZ 0; VB []; VZ 0; VB (ci_raw ci); VZ 0]
      | Err e => VL [VZ e; VB []; VZ 0; VB []; VZ 0]
      | Panic e => VL [VZ (1000 + e); VB []; VZ 0; VB []; VZ 0]
      end
  | Err e => VL [VZ e; VB []; VZ 0; VB []; VZ 0]
  | Panic e => VL [VZ (1000 + e); VB []; VZ 0; VB []; VZ 0]
  end.

Definition run_cat_emit (v : val) : val :=
  let x := vb (vnth 1 v) in
  let S := signer_of (vnth 2 v) in
  let digest := vb (vnth 3 v) in
  let sig := vb (vnth 4 v) in
  let r := cat_sign (toy S digest) (fun _ _ => sig) S x in
  match r with
  | Ok y =>
      let kept := match parse_cms x, spec_regions y with
                  | Ok o, Some rg => [of_bool (bytes_eqb (r_ci rg) (ci_raw (sd_ci (sd_of o))));
                                      of_bool (list_eqb bytes_eqb (r_certs rg) (sort_b (sg_chain S)));
                                      of_bool (zlen (r_sis rg) =? 1)]
                  | _, _ => [VZ 0; VZ 0; VZ 0]
                  end in
      VL (VZ 0 :: VB y :: kept)
  | _ => VL [VZ (st_of r); VB []; VZ 0; VZ 0; VZ 0]
  end.

Definition run_pkcs_select (v : val) : val :=
  let y := vb (vnth 1 v) in
  let r := pkcs_select y (vbool (vnth 2 v)) (vb (vnth 3 v)) (vb (vnth 4 v)) in
  match r with
  | Ok (SelContent Wnil, n) => VL [VZ 0; VZ 0; VZ 0; VB []; VZ n; of_bool (negb (n =? 0))]
  | Ok (SelContent (Wby b), n) => VL [VZ 0; VZ 1; VZ 0; VB b; VZ n; of_bool (negb (n =? 0))]
  | Ok (SelContent _, n) => VL [VZ 0; VZ 9; VZ 0; VB []; VZ n; of_bool (negb (n =? 0))]
  | Ok (SelReject e, n) => VL [VZ 0; VZ 2; VZ e; VB []; VZ n; of_bool (negb (n =? 0))]
  | _ => VL [VZ (st_of r); VZ 0; VZ 0; VB []; VZ 0; VZ 0]
  end.

Definition attr_of (v : val) : attr := mkAttr (vb (vnth 0 v)) (vz (vnth 1 v)) (vb (vnth 2 v)) [].
Definition run_pkcs_emit (v : val) : val :=
  let content := vb (vnth 1 v) in
  let detached := vbool (vnth 2 v) in
  let attrs := match vl (vnth 3 v) with [] => None | l => Some (map attr_of l) end in
  let S := signer_of (vnth 4 v) in
  let digest := vb (vnth 5 v) in
  let sig := vb (vnth 6 v) in
  let C := toy S digest in
  let r := pkcs_sign C (fun _ _ => sig) S content detached attrs in
  let pre := match set_content_data C 0 content with
             | Ok sc => match sign_preimage (mkB (ci_ctype (fst sc)) (snd sc) attrs) with Ok p => p | _ => (-1, []) end
             | _ => (-1, [])
             end in
  VL [VZ (st_of r); VB (rb r); VZ (fst pre); VB (snd pre)].

Definition run_cosign (v : val) : val :=
  let mlen := vz (vnth 1 v) in
  let h := vz (vnth 2 v) in
  let json_ok := vbool (vnth 3 v) in
  let mt := vb (vnth 4 v) in
  let mdig := vb (vnth 5 v) in
  let pdig := vb (vnth 6 v) in
  let sig := vb (vnth 7 v) in
  match cosign_check mlen h json_ok mt with
  | Ok name =>
      let md := digest_str name mdig in
      match cosign_payload md with
      | Ok p =>
          let read_ok :=
            match spec_json_parse p with
            | Some j =>
                match json_get [jn cosign_json_top 0; jn cosign_json_critical 0; jn cosign_json_image 0] j,
                      json_get [jn cosign_json_top 0; jn cosign_json_critical 1] j with
                | Some (JStr d), Some (JStr t) =>
                    bytes_eqb d md && bytes_eqb t cosign_signature_type &&
                    match spec_digest_parse d with Some (a, raw) => bytes_eqb a name && bytes_eqb raw mdig | None => false end &&
                    match spec_b64_dec (b64_enc sig) with Some s => bytes_eqb s sig | None => false end
                | _, _ => false
                end
            | None => false
            end in
          VL [VZ 0; VB p; VB md; VB (digest_str name pdig); VB (b64_enc sig); of_bool read_ok]
      | Err e => VL [VZ e; VB []; VB md; VB []; VB []; VZ 0]
      | Panic e => VL [VZ (1000 + e); VB []; VB []; VB []; VB []; VZ 0]
      end
  | Err e => VL [VZ e; VB []; VB []; VB []; VB []; VZ 0]
  | Panic e => VL [VZ (1000 + e); VB []; VB []; VB []; VB []; VZ 0]
  end.

Definition run_rpm (v : val) : val :=
  let f := vb (vnth 1 v) in
  let blob := vb (vnth 2 v) in
  let ss := rpm_sig_span f in
  let gs := rpm_gen_span f in
  let hh := rpm_hashin_hdr f in
  let ha := rpm_hashin_all f in
  let g := rpm_embed f blob in
  let extract_ok := match g with
                    | Ok gb => match rpm_extract gb with Ok (Some b) => bytes_eqb b blob | _ => false end
                    | _ => false
                    end in
  let spec_ok := match spec_rpm_split f, hh, ha with
                 | Some p, Ok a, Ok b => bytes_eqb a (rp_hdr p) && bytes_eqb b (rp_hdr p ++ rp_payload p) &&
                                         bytes_eqb f (rp_lead p ++ rp_sig p ++ rp_hdr p ++ rp_payload p)
                 | None, Err _, Err _ => true
                 | _, _, _ => false
                 end in
  VL [VZ (match ss with Ok n => n | Err e => - e | Panic e => -1000 - e end);
      VZ (match gs with Ok p => fst p | _ => -1 end); VZ (match gs with Ok p => snd p | _ => -1 end);
      VB (rb hh); VB (rb ha); VZ (match ss with Ok _ => rpm_nsigs f | _ => -1 end);
      VZ (st_of g); VB (rb g); of_bool extract_ok; of_bool spec_ok;
      VZ (match rpm_extract f with Ok (Some _) => 1 | Ok None => 0 | Err e => - e | Panic e => -1000 - e end)].

Definition run_rpm_report (v : val) : val :=
  let sigs := map (fun p => (vz (vnth 0 p), vbool (vnth 1 p))) (vl (vnth 1 v)) in
  match rpm_verify_report sigs (vbool (vnth 2 v)) with
  | Ok None => VL [VZ 0; VZ (-1); VL []]
  | Ok (Some l) => VL [VZ 0; VZ (zlen l); VZs (map fst l)]
  | Err e => VL [VZ e; VZ 0; VL []]
  | Panic e => VL [VZ (1000 + e); VZ 0; VL []]
  end.

Definition ob (o : option bytes) : val := match o with Some b => VL [VZ 1; VB b] | None => VL [VZ 0; VB []] end.
Definition run_codecs (v : val) : val :=
  let b := vb (vnth 1 v) in
  VL [VB (hex_enc b); VB (b64_enc b); ob (spec_hex_dec (hex_enc b)); ob (spec_b64_dec (b64_enc b)); ob (spec_b64_dec b); ob (spec_hex_dec b)].

Definition run (v : val) : val :=
  let k := vz (vnth 0 v) in
  if k =? 0 then run_magic v
  else if k =? 1 then run_cat_pre v
  else if k =? 2 then run_cat_emit v
  else if k =? 3 then run_pkcs_select v
  else if k =? 4 then run_pkcs_emit v
  else if k =? 5 then run_cosign v
  else if k =? 6 then run_rpm v
  else if k =? 7 then run_rpm_report v
  else run_codecs v.
