(* FmtCAT/Model.v — executable models of the small signers: signers/cat, signers/pkcs (+ the builder entry points of
   lib/pkcs7 they rely on), signers/cosign, signers/rpm, and the clauses of lib/magic.Detect that route files to them.
   Definitions only.  Constants, comparisons, argument choices and guards are the definitions of Generated/FmtCAT_gen.v
   (regenerated from /repo on every run); the CMS layer (parser, emitter, ContentInfo.Bytes, builder, SignedData.Verify)
   is C16's model, reused as is.

   Part 1  magic.Detect (RPM, DEB, PGP, CAT, PKCS7 clauses)
   Part 2  RPM: lead / signature header / general header spans (go-rpmutils, third party: modelled as OBSERVED, sizes and
           constants tied to the module source), relic's patch, the digest preimages; SPEC: the RPM file format
   Part 3  CAT: signers/cat.sign over C16's CMS model; PKCS: builder entry points, signers/pkcs.Verify
   Part 4  text codecs written from their specifications (lower-case hex, RFC 4648 base64, a JSON subset) and the cosign
           payload / signature manifest decisions *)
From Relic Require Import Base.Prelude Base.Enc Generated.C16_gen C16.Model C16.VModel Generated.FmtCAT_gen.

Local Open Scope Z_scope.

(* error classes of this unit (C16's parse errors 1..13 are passed through) *)
Definition E_CAT_LAYOUT := 100.   (* the Go source no longer has the shape this model was written for *)
Definition E_NOT_CATALOG := 101.  (* "not a security catalog" *)
Definition E_SELFCHECK := 102.    (* "pkcs7: failed signature self-check" *)
Definition E_BUILDER := 103.      (* SetContent was not called / first certificate must match private key / digest size mismatch *)
Definition E_RPM_SHORT := 110.    (* error reading RPM lead / header (short read) *)
Definition E_RPM_MAGIC := 111.    (* file is not an RPM / bad magic for header *)
Definition E_RPM_BLOB := 112.     (* MODEL: the signature header blob handed to the patch is not a well-formed lead + signature header *)
Definition E_COSIGN_BIG := 120.   (* image manifest exceeds N bytes *)
Definition E_COSIGN_ALG := 121.   (* unsupported digest *)
Definition E_COSIGN_JSON := 122.  (* unable to determine mediaType (not JSON) *)
Definition E_COSIGN_NOTYPE := 123. (* unable to determine mediaType (empty) *)
Definition E_COSIGN_TYPE := 124.  (* mediaType cannot be signed *)
Definition E_UNMODELLED := 130.   (* MODEL LIMIT: a string that encoding/json would escape *)

Definition zs_eqb (a b : list Z) : bool := list_eqb Z.eqb a b.
Definition zzs_eqb (a b : list (Z * Z)) : bool := list_eqb (fun x y => (fst x =? fst y) && (snd x =? snd y)) a b.

(* ================================================================== Part 1: magic.Detect *)
Fixpoint has_prefix (p l : bytes) : bool :=
  match p, l with
  | [], _ => true
  | a :: p', b :: l' => (a =? b) && has_prefix p' l'
  | _ :: _, [] => false
  end.
(* bytes.Contains *)
Fixpoint contains_b (p l : bytes) : bool :=
  has_prefix p l || match l with [] => false | _ :: r => contains_b p r end.
Definition magic_helpers_ok : bool :=
  magic_contains_is_bytes_contains && magic_contains_peeks_n && magic_prefix_is_at_0 && magic_at_compares_equal.
(* hasPrefix(br, blob) = atPosition(br, blob, 0): Peek(len blob), too short -> false, else equal;
   contains(br, blob, n): Peek(n), shorter than blob -> false, else bytes.Contains *)
Definition magic_test (e : Z * Z * list Z * Z) (f : bytes) : bool :=
  let '(k, _, p, w) := e in
  if k =? 0 then negb (magic_at_short (zlen (ztake (zlen p) f)) (zlen p)) && has_prefix p f
  else negb (zlen (ztake w f) <? zlen p) && contains_b p (ztake w f).
Definition magic_type (e : Z * Z * list Z * Z) : Z := let '(_, t, _, _) := e in t.
Fixpoint detect_in (tbl : list (Z * Z * list Z * Z)) (f : bytes) : option Z :=
  match tbl with
  | [] => None
  | e :: r => if magic_test e f then Some (magic_type e) else detect_in r f
  end.
(* None = none of the modelled clauses fires (the later clauses of Detect are other units') *)
Definition detect (f : bytes) : option Z := if magic_helpers_ok then detect_in magic_table f else Some (-1).

(* ================================================================== Part 2: RPM *)
Definition be32 (l : bytes) (off : Z) : Z := be_dec (zslice off (off + 4) l).
Definition be32_enc (n : Z) : bytes := be_enc 4 n.

(* --- go-rpmutils as observed (readSignatureHeader, readHeader: how many bytes a header occupies; which index tags it has) *)
Definition rpmu_layout_ok : bool :=
  (rpmu_intro_size =? 16) && (rpmu_intro_off_Magic =? 0) && (rpmu_intro_off_Entries =? 8) && (rpmu_intro_off_Size =? 12) &&
  (rpmu_tag_size =? 16) && (rpmu_tag_off_Tag =? 0) &&
  zs_eqb rpmu_sighdr_read_args [1; 2; 3; 4; 5] && zs_eqb rpmu_genhdr_read_args [1; 2; 3; 4; 6] &&
  rpmu_pads_when true && negb (rpmu_pads_when false).
(* one header structure at the start of l: total size in bytes (intro + index + store, the store padded when pad) *)
Definition hdr_span (pad : bool) (l : bytes) : result Z :=
  if zlen l <? rpmu_intro_size then Err E_RPM_SHORT else
  if rpmu_bad_intro_magic (be32 l rpmu_intro_off_Magic) then Err E_RPM_MAGIC else
  let entries := be32 l rpmu_intro_off_Entries in
  let size := be32 l rpmu_intro_off_Size in
  let store := if rpmu_pads_when pad then rpmu_padded_size size else size in
  let total := rpmu_intro_size + rpmu_index_bytes entries + store in
  if zlen l <? total then Err E_RPM_SHORT else Ok total.
(* the tags of the index entries *)
Fixpoint hdr_tags_f (n : nat) (l : bytes) : list Z :=
  match n with O => [] | S k => be32 l rpmu_tag_off_Tag :: hdr_tags_f k (zdrop rpmu_tag_size l) end.
Definition hdr_tags (l : bytes) : list Z :=
  hdr_tags_f (Z.to_nat (be32 l rpmu_intro_off_Entries)) (zdrop rpmu_intro_size l).

(* lead + signature header: OriginalSignatureHeaderSize() *)
Definition rpm_sig_span (f : bytes) : result Z :=
  if negb rpmu_layout_ok then Err E_CAT_LAYOUT else
  if zlen f <? rpmu_lead_size then Err E_RPM_SHORT else
  if rpmu_bad_lead_magic (be32 f 0) then Err E_RPM_MAGIC else
  n <- hdr_span true (zdrop rpmu_lead_size f) ;; Ok (rpmu_orig_size n).
(* the general header: (start, length) *)
Definition rpm_gen_span (f : bytes) : result (Z * Z) :=
  s <- rpm_sig_span f ;; n <- hdr_span false (zdrop s f) ;; Ok (s, n).

(* what the two signatures are computed over (digestForSigning / SignRpmStream / insertSignatures of go-rpmutils):
   tag SIG_RSA (header only) <- genHeader.orig ; tag SIG_PGP (header + payload) <- genHeader.orig ++ rest of the stream *)
Definition rpmu_cover_ok : bool :=
  rpmu_genhash_covers_header && rpmu_combined_covers_header && (rpmu_dfs_write_count =? 2) &&
  zs_eqb rpmu_payload_writers [1; 2; 3; 4] && zs_eqb rpmu_sigpgp_args [1; 3; 4] && zs_eqb rpmu_sigrsa_args [2; 3; 4] && rpmu_sigpgp_is_first &&
  zs_eqb rpmu_insert_pgp_args [1; 2; 3] && zs_eqb rpmu_insert_rsa_args [1; 4; 5] &&
  zs_eqb rpmu_delete_gpg_args [1; 2] && zs_eqb rpmu_delete_dsa_args [1; 3].
Definition rpm_hashin_hdr (f : bytes) : result bytes :=
  if negb rpmu_cover_ok then Err E_CAT_LAYOUT else
  g <- rpm_gen_span f ;; Ok (zslice (fst g) (fst g + snd g) f).
Definition rpm_hashin_all (f : bytes) : result bytes :=
  if negb rpmu_cover_ok then Err E_CAT_LAYOUT else
  g <- rpm_gen_span f ;; Ok (zdrop (fst g) f).

(* the tags that hold signatures: headerSigTags / payloadSigTags of go-rpmutils verify_digests.go *)
Definition rpm_tag_pgp : Z := rpmu_SIG_PGP - rpmu_SIGHEADER_TAG_BASE.
Definition rpm_tag_gpg : Z := rpmu_SIG_GPG - rpmu_SIGHEADER_TAG_BASE.
Definition rpm_sig_tag (t : Z) : bool := (t =? rpmu_SIG_RSA) || (t =? rpmu_SIG_DSA) || (t =? rpm_tag_pgp) || (t =? rpm_tag_gpg).
Definition rpm_nsigs (f : bytes) : Z := zlen (filter rpm_sig_tag (hdr_tags (zdrop rpmu_lead_size f))).

(* --- relic: signers/rpm.sign.  The blob is DumpSignatureHeader(true): lead + rebuilt signature header *)
Definition rpm_sign_layout_ok : bool :=
  zs_eqb rpm_patch_args [1; 2; 3] && zs_eqb rpm_dump_args [1] && zs_eqb rpm_signstream_args [1; 2; 3] && zs_eqb rpm_setpatch_args [1] &&
  zs_eqb rpm_sign_call_order [0; 1; 2; 3; 4; 5] && zzs_eqb rpm_sigopts_literal [(0, 1); (1, 2)] && (rpm_verify_fn =? 1) && (rpm_cert_types =? 1).
(* a blob the patch may carry: a lead and a signature header that occupy it exactly, with a signature tag in the index *)
Definition rpm_blob_ok (b : bytes) : bool :=
  match rpm_sig_span b with Ok n => (n =? zlen b) && (0 <? rpm_nsigs b) | _ => false end.
(* binpatch with the single entry Add(offset, oldsize, blob), applied by the client *)
Definition rpm_embed (f blob : bytes) : result bytes :=
  if negb rpm_sign_layout_ok then Err E_CAT_LAYOUT else
  n <- rpm_sig_span f ;;
  if negb (rpm_blob_ok blob) then Err E_RPM_BLOB else
  Ok (ztake rpm_patch_offset f ++ blob ++ zdrop (rpm_patch_offset + rpm_patch_oldsize n) f).
(* what the verifier finds: lead + signature header, when it holds a signature tag *)
Definition rpm_extract (g : bytes) : result (option bytes) :=
  n <- rpm_sig_span g ;;
  if rpm_not_signed (rpm_nsigs g) then Ok None else Ok (Some (ztake n g)).

(* signers/rpm.verify: the signatures reported, given what rpmutils.Verify returned as (key id, signer known) per signature *)
Fixpoint rpm_dedupe (seen : list Z) (sigs : list (Z * bool)) (nochain : bool) : result (list (Z * bool)) :=
  match sigs with
  | [] => Ok []
  | (kid, known) :: r =>
      if rpm_skip_seen (existsb (Z.eqb kid) seen) then rpm_dedupe seen r nochain else
      if rpm_unknown_signer (negb known) && rpm_nokey_is_error nochain then Err 1 else
      rs <- rpm_dedupe (kid :: seen) r nochain ;; Ok ((kid, known) :: rs)
  end.
Definition rpm_verify_report (sigs : list (Z * bool)) (nochain : bool) : result (option (list (Z * bool))) :=
  if rpm_not_signed (zlen sigs) then Ok None else r <- rpm_dedupe [] sigs nochain ;; Ok (Some r).
(* nevra(): NEVRA.String() is "<name>-<epoch>:<version>-<release>.<arch>" followed by ".rpm" (go-rpmutils); relic cuts the last four
   characters.  The argument is what precedes ".rpm", None when GetNEVRA fails (no NAME / VERSION / RELEASE / ARCH tag): the error is looked
   at first and the name is empty.  Panic 1 = the result used although GetNEVRA failed (nil receiver); Panic 2 = slice bound below zero. *)
Definition DOT_RPM : bytes := [46; 114; 112; 109].
Definition rpm_nevra (nevra : option bytes) : result bytes :=
  match nevra with
  | None => if rpm_nevra_keeps_error && rpm_nevra_gives_up true then Ok [] else Panic 1
  | Some p =>
      if rpm_nevra_gives_up false then Ok [] else
      let s := if rpmu_nevra_ends_in_dot_rpm then p ++ DOT_RPM else p in
      if rpm_nevra_cut (zlen s) <? 0 then Panic 2 else Ok (ztake (rpm_nevra_cut (zlen s)) s)
  end.
(* server/view_sign.go serveSign: a signature type is served when the module exists and can sign; calling the nil Sign of a module that only
   verifies would be Panic 3 *)
Definition srv_sign_dispatch (module_exists can_sign : bool) : result bool :=
  if srv_refuses_sigtype (negb module_exists) (negb can_sign) then Ok false
  else if negb module_exists then Panic 4 else if negb can_sign then Panic 3 else Ok true.

(* --- SPEC: RPM file format (rpm.org "RPM Package format": 96-byte lead with magic ED AB EE DB; header structure = 8E AD E8,
   version 01, 4 reserved bytes, big-endian index count il, big-endian store size dl, il 16-byte index entries, dl bytes of
   store; the SIGNATURE header is followed by padding to a multiple of 8; the header follows; the payload is the rest.
   The header-only signature (RSA, tag 268) covers the header structure from its magic to the end of its store; the
   header+payload signature (PGP, tag 1002) covers the header and the payload.) *)
Record rpm_parts := mkRpm { rp_lead : bytes; rp_sig : bytes; rp_hdr : bytes; rp_payload : bytes }.
Definition spec_hdr_len (l : bytes) : option Z :=
  match l with
  | m0 :: m1 :: m2 :: v :: _ :: _ :: _ :: _ :: i3 :: i2 :: i1 :: i0 :: d3 :: d2 :: d1 :: d0 :: _ =>
      if (m0 =? 142) && (m1 =? 173) && (m2 =? 232) && (v =? 1)
      then Some (16 + 16 * (((i3 * 256 + i2) * 256 + i1) * 256 + i0) + (((d3 * 256 + d2) * 256 + d1) * 256 + d0))
      else None
  | _ => None
  end.
Definition spec_pad8 (n : Z) : Z := n + (8 - n mod 8) mod 8.
Definition spec_lead_ok (f : bytes) : bool :=
  match f with
  | a :: b :: c :: d :: _ => (a =? 237) && (b =? 171) && (c =? 238) && (d =? 219) && negb (zlen f <? 96)
  | _ => false
  end.
Definition spec_rpm_split (f : bytes) : option rpm_parts :=
  if negb (spec_lead_ok f) then None else
  let r := zdrop 96 f in
  match spec_hdr_len r with
  | Some n =>
      let ns := spec_pad8 n in
      if zlen r <? ns then None else
      let r2 := zdrop ns r in
      match spec_hdr_len r2 with
      | Some m => if zlen r2 <? m then None else Some (mkRpm (ztake 96 f) (ztake ns r) (ztake m r2) (zdrop m r2))
      | None => None
      end
  | None => None
  end.

(* ================================================================== Part 3: CAT and PKCS over C16's CMS model *)
(* who signs: key handle, the leaf's issuer (RawIssuer, a whole element) and serial number (contents octets), the chain
   (each certificate a whole element), the AlgorithmIdentifiers PkixAlgorithms chose, the hash, SameKey(pub, certs[0]) *)
Record signer := mkSigner {
  sg_key : Z; sg_issuer : bytes; sg_serial : bytes; sg_chain : list bytes;
  sg_dalg : algid; sg_ealg : algid; sg_hash : Z; sg_samekey : bool }.

Definition builder_layout_ok : bool :=
  b_setci_blob_is_bytes && b_setci_hashes_blob && b_setci_keeps_cinfo && b_setci_digest_is_sum && b_setci_hash_is_opts &&
  (b_setci_write_count =? 1) &&
  zs_eqb b_setdata_args [1; 2] && zs_eqb b_setcontent_calls [0; 1] && zs_eqb b_setcontent_nci_args [1; 2] && zs_eqb b_setcontent_sci_args [1] &&
  zs_eqb b_detached_nci_args [1; 2] && b_detached_keeps_digest && zs_eqb b_sign_args [1; 2; 3] &&
  zzs_eqb b_sd_literal [(0, 1); (1, 2); (2, 3); (3, 4); (4, 5); (5, 2)] && nci_absent true && negb (nci_absent false).

(* SignatureBuilder.SetContentInfo: the digest is taken over cinfo.Bytes() (nothing when the content is absent) *)
Definition set_content_info (C : crypto) (h : Z) (ci : cinfo) : result (cinfo * bytes) :=
  if negb builder_layout_ok then Err E_CAT_LAYOUT else
  blob <- ci_bytes (ci_raw ci) ;;
  Ok (ci, c_H C h (match blob with Some b => b | None => [] end)).
(* SetContentData(data) = SetContent(OidData, data): asn1.Marshal([]byte) is an OCTET STRING *)
Definition OID_data : bytes := enc_oid oid_data.
Definition set_content_data (C : crypto) (h : Z) (data : bytes) : result (cinfo * bytes) :=
  set_content_info C h (new_ci OID_data (Some (enc_tlv T_OCT data))).
(* SetDetachedContent(ctype, digest) *)
Definition set_detached_content (hsize : Z) (ctype digest : bytes) : result (cinfo * bytes) :=
  if negb builder_layout_ok then Err E_CAT_LAYOUT else
  if b_detached_size_mismatch (zlen digest) hsize then Err E_BUILDER else Ok (new_ci ctype None, digest).

(* SignatureBuilder.Sign: what is handed to the private key is the content digest, or the digest of the attribute bytes *)
Definition builder_sign (C : crypto) (sgn : Z -> bytes -> bytes) (S : signer) (ci : cinfo) (digest : bytes) (attrs : option (list attr)) : result cms :=
  if b_sign_no_content false then Err E_BUILDER else
  if b_sign_bad_cert (zlen (sg_chain S)) (sg_samekey S) then Err E_BUILDER else
  let b := mkB (ci_ctype ci) digest attrs in
  p <- sign_preimage b ;;
  let tosign := if fst p =? 0 then snd p else c_H C (sg_hash S) (snd p) in
  Ok (built_cms b ci (sg_chain S) (sg_issuer S) (sg_serial S) (sg_dalg S) (sg_ealg S) (sgn (sg_key S) tosign)).

(* pkcs9.TimestampAndMarshal without a timestamper: self check on the structure (embedded content, digests checked), Marshal *)
Definition tsm_layout_ok : bool :=
  zs_eqb tsm_call_order [0; 1; 2; 3; 4; 5] && zs_eqb tsm_selfcheck_args [1; 2] && tsm_raw_is_marshal && setpkcs7_returns_raw &&
  tsm_stamps true && negb (tsm_stamps false).
Definition empty_sd : sdata := mkSd 0 [] (mkCi [] []) None None [].
Definition sd_of (o : cms) : sdata := match o_sd o with Some sd => sd | None => empty_sd end.
Definition ts_and_marshal (C : crypto) (o : cms) : result bytes :=
  if negb tsm_layout_ok then Err E_CAT_LAYOUT else
  match sd_verify C (sd_of o) Wnil false with
  | SdAccept _ _ => Ok (emit_cms o)
  | SdReject _ => Err E_SELFCHECK
  end.

(* --- signers/cat.sign *)
Definition cat_layout_ok : bool :=
  zs_eqb cat_call_order [0; 1; 2; 3; 8; 9; 10] && zs_eqb cat_unmarshal_args [1] && zs_eqb cat_builder_args [1; 2; 3] && zs_eqb cat_setci_args [1] &&
  zs_eqb cat_ts_args [1; 2; 3; 4] && zs_eqb cat_setpkcs7_args [1] && (cat_verify_fn =? 1) && (cat_magic_field =? 1).
Definition OID_ctl : bytes := enc_oid cat_oid_ctl.
Definition cat_sign (C : crypto) (sgn : Z -> bytes -> bytes) (S : signer) (x : bytes) : result bytes :=
  if negb cat_layout_ok then Err E_CAT_LAYOUT else
  o <- parse_cms x ;;
  let ci := sd_ci (sd_of o) in
  if cat_refuses (bytes_eqb (ci_ctype ci) OID_ctl) then Err E_NOT_CATALOG else
  sc <- set_content_info C (sg_hash S) ci ;;
  n <- builder_sign C sgn S (fst sc) (snd sc) None ;;
  ts_and_marshal C n.
(* the bytes whose digest the new signature covers *)
Definition cat_hashin (x : bytes) : result bytes :=
  o <- parse_cms x ;;
  blob <- ci_bytes (ci_raw (sd_ci (sd_of o))) ;;
  Ok (match blob with Some b => b | None => [] end).

(* --- the sign-detached / sign-attached pattern of every caller of SetContentData (signjar, csblob, xar and the harness):
   SetContentData, attributes, Sign, TimestampAndMarshal (self check on the attached form), then Detach + Marshal *)
Definition pkcs_sign (C : crypto) (sgn : Z -> bytes -> bytes) (S : signer) (content : bytes) (detached : bool) (attrs : option (list attr)) : result bytes :=
  sc <- set_content_data C (sg_hash S) content ;;
  n <- builder_sign C sgn S (fst sc) (snd sc) attrs ;;
  att <- ts_and_marshal C n ;;
  if detached then Ok (emit_cms (detach n)) else Ok att.

(* --- signers/pkcs.Verify (also the verifier of catalogs): Unmarshal, read --content unless integrity checks are off, Verify *)
Definition pkcs_layout_ok : bool :=
  zs_eqb pkcs_call_order [0; 1; 2; 3; 4; 5] && zs_eqb pkcs_verify_args [1; 2] && zs_eqb pkcs_readfile_args [1] && (pkcs_sign_fn =? 0) && (pkcs_verify_fn =? 1) &&
  zs_eqb unmarshal_trim_args [1; 2].
Definition pkcs_cblob (nodigests : bool) (content_path : bytes) (content_file : bytes) : option bytes :=
  if pkcs_reads_content nodigests content_path then Some content_file else None.
Definition pkcs_verify (C : crypto) (y : bytes) (nodigests : bool) (content_path content_file : bytes) : result sdres :=
  if negb pkcs_layout_ok then Err E_CAT_LAYOUT else
  o <- parse_cms y ;;
  Ok (sd_verify C (sd_of o) (ext_val (pkcs_cblob nodigests content_path content_file)) nodigests).
(* the crypto-free part of SignedData.Verify: which content the signer infos are checked against (C16's reference function) *)
Definition pkcs_select (y : bytes) (nodigests : bool) (content_path content_file : bytes) : result (selected * Z) :=
  if negb pkcs_layout_ok then Err E_CAT_LAYOUT else
  o <- parse_cms y ;;
  let sd := sd_of o in
  let P := real_prims (mkCrypto (fun _ => None) (fun _ _ => []) (fun _ _ _ _ _ => SigOther) (fun _ _ _ _ => SigOther) (fun _ => ([], 0)) (fun _ => Err 0) (fun _ => 0)) in
  Ok (ref_sd_select (hooks3 P) P sd (pkcs_cblob nodigests content_path content_file) nodigests, zlen (sd_sis sd)).
(* is-signed probe (signers.IsSigned): Verify with NoDigests and NoChain; NotSignedError = false *)
Definition cms_is_signed (y : bytes) : result bool :=
  o <- parse_cms y ;; Ok (negb (zlen (sd_sis (sd_of o)) =? 0)).

(* ================================================================== Part 4: cosign *)
(* --- lower-case hexadecimal (go-digest Algorithm.Encode = fmt.Sprintf("%x")) and its reader *)
Definition hexd (n : Z) : Z := if n <? 10 then 48 + n else 87 + n.
Definition hex_enc (l : bytes) : bytes := flat_map (fun b => [hexd (b / 16); hexd (b mod 16)]) l.
Definition spec_hexv (c : Z) : option Z :=
  if (48 <=? c) && (c <=? 57) then Some (c - 48) else if (97 <=? c) && (c <=? 102) then Some (c - 87) else None.
Fixpoint spec_hex_dec (l : bytes) : option bytes :=
  match l with
  | [] => Some []
  | a :: b :: r => match spec_hexv a, spec_hexv b, spec_hex_dec r with
                   | Some x, Some y, Some t => Some ((16 * x + y) :: t)
                   | _, _, _ => None
                   end
  | [_] => None
  end.
(* digest.NewDigestFromBytes(alg, raw) = alg ":" hex(raw) *)
Definition godigest_ok : bool := godigest_format_is_alg_colon_encoded && godigest_encode_is_lower_hex.
Definition digest_str (alg raw : bytes) : bytes := alg ++ [58] ++ hex_enc raw.
(* SPEC (OCI image-spec, descriptor "digest"; go-digest's registered algorithms): algorithm ":" encoded with encoded the
   lower-case hex of 32 / 48 / 64 octets for sha256 / sha384 / sha512 *)
Definition A_sha256 : bytes := [115; 104; 97; 50; 53; 54].
Definition A_sha384 : bytes := [115; 104; 97; 51; 56; 52].
Definition A_sha512 : bytes := [115; 104; 97; 53; 49; 50].
Fixpoint split_colon (l : bytes) : option (bytes * bytes) :=
  match l with
  | [] => None
  | c :: r => if c =? 58 then Some ([], r) else match split_colon r with Some (a, b) => Some (c :: a, b) | None => None end
  end.
Definition spec_digest_parse (s : bytes) : option (bytes * bytes) :=
  match split_colon s with
  | Some (alg, enc) =>
      let want := if bytes_eqb alg A_sha256 then 32 else if bytes_eqb alg A_sha384 then 48 else if bytes_eqb alg A_sha512 then 64 else -1 in
      match spec_hex_dec enc with
      | Some raw => if zlen raw =? want then Some (alg, raw) else None
      | None => None
      end
  | None => None
  end.

(* --- base64, standard alphabet with padding (encoder as relic calls it; decoder written from RFC 4648 section 4) *)
Definition b64c (n : Z) : Z :=
  if n <? 26 then 65 + n else if n <? 52 then 71 + n else if n <? 62 then n - 4 else if n =? 62 then 43 else 47.
Fixpoint b64_enc (l : bytes) : bytes :=
  match l with
  | a :: b :: c :: r => b64c (a / 4) :: b64c ((a mod 4) * 16 + b / 16) :: b64c ((b mod 16) * 4 + c / 64) :: b64c (c mod 64) :: b64_enc r
  | [a; b] => [b64c (a / 4); b64c ((a mod 4) * 16 + b / 16); b64c ((b mod 16) * 4); 61]
  | [a] => [b64c (a / 4); b64c ((a mod 4) * 16); 61; 61]
  | [] => []
  end.
Definition spec_b64v (c : Z) : option Z :=
  if (65 <=? c) && (c <=? 90) then Some (c - 65) else if (97 <=? c) && (c <=? 122) then Some (c - 71)
  else if (48 <=? c) && (c <=? 57) then Some (c + 4) else if c =? 43 then Some 62 else if c =? 47 then Some 63 else None.
Fixpoint spec_b64_dec_f (fuel : nat) (l : bytes) : option bytes :=
  match fuel with
  | O => match l with [] => Some [] | _ => None end
  | S f =>
      match l with
      | [] => Some []
      | c1 :: c2 :: c3 :: c4 :: r =>
          match spec_b64v c1, spec_b64v c2 with
          | Some v1, Some v2 =>
              if (c3 =? 61) && (c4 =? 61) then
                match r with [] => if v2 mod 16 =? 0 then Some [v1 * 4 + v2 / 16] else None | _ => None end
              else match spec_b64v c3 with
                   | Some v3 =>
                       if c4 =? 61 then
                         match r with [] => if v3 mod 4 =? 0 then Some [v1 * 4 + v2 / 16; (v2 mod 16) * 16 + v3 / 4] else None | _ => None end
                       else match spec_b64v c4, spec_b64_dec_f f r with
                            | Some v4, Some t => Some ((v1 * 4 + v2 / 16) :: ((v2 mod 16) * 16 + v3 / 4) :: ((v3 mod 4) * 64 + v4) :: t)
                            | _, _ => None
                            end
                   | None => None
                   end
          | _, _ => None
          end
      | _ => None
      end
  end.
Definition spec_b64_dec (l : bytes) : option bytes := spec_b64_dec_f (length l) l.

(* --- a JSON subset: objects and strings.  json_ser is encoding/json's compact output for strings it does not escape (printable
   ASCII other than the quotation mark, the reverse solidus and the three characters the HTML-safe mode escapes: < > &);
   anything else is outside the modelled domain.  spec_json_parse is a reader written from RFC 8259 for the same subset. *)
Inductive json := JStr (s : bytes) | JObj (m : list (bytes * json)).
Definition json_safe_char (c : Z) : bool :=
  (32 <=? c) && (c <=? 126) && negb (c =? 34) && negb (c =? 92) && negb (c =? 60) && negb (c =? 62) && negb (c =? 38).
Definition json_safe_str (s : bytes) : bool := forallb json_safe_char s.
Definition json_quote (s : bytes) : bytes := [34] ++ s ++ [34].
Fixpoint json_ser (v : json) : bytes :=
  match v with
  | JStr s => json_quote s
  | JObj m =>
      let fix members (m : list (bytes * json)) : bytes :=
        match m with
        | [] => []
        | [(k, x)] => json_quote k ++ [58] ++ json_ser x
        | (k, x) :: r => json_quote k ++ [58] ++ json_ser x ++ [44] ++ members r
        end in
      [123] ++ members m ++ [125]
  end.
Fixpoint json_safe (v : json) : bool :=
  match v with
  | JStr s => json_safe_str s
  | JObj m =>
      (fix all (m : list (bytes * json)) : bool :=
         match m with [] => true | (k, x) :: r => json_safe_str k && json_safe x && all r end) m
  end.
(* RFC 8259 reader: string = quotation-mark *char quotation-mark (escapes not in the subset); object = { member *( , member ) } *)
Fixpoint spec_json_chars (l : bytes) : option (bytes * bytes) :=
  match l with
  | [] => None
  | c :: r => if c =? 34 then Some ([], r)
              else if (c =? 92) || (c <? 32) then None
              else match spec_json_chars r with Some (s, r') => Some (c :: s, r') | None => None end
  end.
Fixpoint spec_json_value (fuel : nat) (l : bytes) : option (json * bytes) :=
  match fuel with
  | O => None
  | S f =>
      match l with
      | 34 :: r => match spec_json_chars r with Some (s, r') => Some (JStr s, r') | None => None end
      | 123 :: 125 :: r => Some (JObj [], r)
      | 123 :: r => match spec_json_members f r with Some (m, r') => Some (JObj m, r') | None => None end
      | _ => None
      end
  end
with spec_json_members (fuel : nat) (l : bytes) : option (list (bytes * json) * bytes) :=
  match fuel with
  | O => None
  | S f =>
      match l with
      | 34 :: r =>
          match spec_json_chars r with
          | Some (k, 58 :: r1) =>
              match spec_json_value f r1 with
              | Some (x, 44 :: r2) => match spec_json_members f r2 with Some (m, r3) => Some ((k, x) :: m, r3) | None => None end
              | Some (x, 125 :: r2) => Some ([(k, x)], r2)
              | _ => None
              end
          | _ => None
          end
      | _ => None
      end
  end.
Definition spec_json_parse (l : bytes) : option json :=
  match spec_json_value (S (length l)) l with Some (v, []) => Some v | _ => None end.
Fixpoint json_get (path : list bytes) (v : json) : option json :=
  match path with
  | [] => Some v
  | k :: p => match v with
              | JObj m => match find (fun e => bytes_eqb (fst e) k) m with Some e => json_get p (snd e) | None => None end
              | JStr _ => None
              end
  end.
Definition json_keys (v : json) : list bytes := match v with JObj m => map fst m | JStr _ => [] end.

(* --- signers/cosign *)
Definition cosign_layout_ok : bool :=
  zs_eqb cosign_call_order [0; 1; 2; 3; 4; 5; 6; 7] && zs_eqb cosign_dm_args [1; 2] && zs_eqb cosign_np_args [1; 2] && zs_eqb cosign_dp_args [1; 2] &&
  zs_eqb cosign_sign_args [1; 2; 3] && zs_eqb cosign_sig_b64_args [1] && (cosign_sig_encoding =? 1) && cosign_sig_annotation_is_b64_of_signature &&
  zzs_eqb cosign_subject_literal [(0, 1); (1, 2); (2, 3)] && zzs_eqb cosign_layer_literal [(0, 4); (1, 5); (2, 6); (5, 7); (4, 8)] &&
  zzs_eqb cosign_manifest_literal [(0, 8); (1, 9); (2, 10); (3, 11); (5, 8); (4, 8)] &&
  zzs_eqb cosign_critical_literal [(0, 1); (1, 2)] && zzs_eqb cosign_image_literal [(0, 1)] && zs_eqb cosign_np_guards [1; 2; 3] &&
  cosign_creator_is_user_agent && zs_eqb cosign_np_marshal_args [1] && zs_eqb cosign_dm_guards [1; 2; 3; 4] && cosign_dm_digest_is_of_whole_blob &&
  cosign_dp_hashes_blob && cosign_dp_raw_is_sum && zs_eqb cosign_dp_format_args [1; 2] && godigest_ok &&
  (zlen cosign_json_top =? 2) && (zlen cosign_json_critical =? 2) && (zlen cosign_json_image =? 1).
Fixpoint assoc_z (k : Z) (l : list (Z * bytes)) : option bytes :=
  match l with [] => None | (a, b) :: r => if a =? k then Some b else assoc_z k r end.
Definition cosign_alg (h : Z) : option bytes := assoc_z h cosign_algorithms.
(* sign: the size limit (ReadAll of a LimitReader of maxSize+1), then digestManifest's guards in source order.  What encoding/json
   finds in the manifest is an input: json_ok (it parsed) and the value of "mediaType". *)
Definition cosign_check (mlen h : Z) (json_ok : bool) (media_type : bytes) : result bytes :=
  if negb cosign_layout_ok then Err E_CAT_LAYOUT else
  if cosign_too_big (Z.min mlen cosign_read_limit) then Err E_COSIGN_BIG else
  match cosign_alg h with
  | None => if cosign_dm_alg_refused false then Err E_COSIGN_ALG else Err E_CAT_LAYOUT
  | Some name =>
      if cosign_dm_alg_refused true then Err E_COSIGN_ALG else
      if negb json_ok then Err E_COSIGN_JSON else
      if cosign_dm_no_media_type media_type then Err E_COSIGN_NOTYPE else
      if cosign_dm_type_refused (existsb (bytes_eqb media_type) cosign_allowed_types) then Err E_COSIGN_TYPE else
      Ok name
  end.
(* newPayload without the --optional flag: json.Marshal(simpleContainerImage{...}) — struct fields in declaration order *)
Definition jn (l : list (list Z)) (i : nat) : bytes := nth i l [].
Definition cosign_payload_value (digest_s : bytes) : json :=
  JObj [(jn cosign_json_top 0, JObj [(jn cosign_json_critical 0, JObj [(jn cosign_json_image 0, JStr digest_s)]);
                                      (jn cosign_json_critical 1, JStr cosign_signature_type)]);
        (jn cosign_json_top 1, JObj [(cosign_creator_key, JStr relic_user_agent)])].
Definition cosign_payload (digest_s : bytes) : result bytes :=
  let v := cosign_payload_value digest_s in
  if json_safe v then Ok (json_ser v) else Err E_UNMODELLED.
(* everything relic decides about the signature manifest *)
Record cosign_out := mkCo {
  co_payload : bytes;
  co_subject_type : bytes; co_subject_digest : bytes; co_subject_size : Z;
  co_layer_type : bytes; co_layer_digest : bytes; co_layer_size : Z; co_layer_data : bytes;
  co_sig : bytes; co_sig_b64 : bytes }.
Definition cosign_sign (H : Z -> bytes -> bytes) (sgn : Z -> bytes -> bytes) (key h : Z) (manifest : bytes) (json_ok : bool) (media_type : bytes) : result cosign_out :=
  name <- cosign_check (zlen manifest) h json_ok media_type ;;
  let md := digest_str name (H h manifest) in
  p <- cosign_payload md ;;
  let raw := H h p in
  let sig := sgn key raw in
  Ok (mkCo p media_type md (zlen manifest) cosign_payload_media_type (digest_str name raw) (zlen p) p sig (b64_enc sig)).
