(* FmtCAT/ProofsRpm.v — RPM: the patch relic builds over lead + signature header, the format laws, the digest preimages
   against the RPM package format. *)
From Relic Require Import Base.Prelude Base.Enc Generated.C16_gen C16.Model C16.VModel Generated.FmtCAT_gen FmtCAT.Model.
From Relic Require Import Laws.Pipeline.

Local Open Scope Z_scope.

Lemma bind_ok' {A B} (r : result A) (k : A -> result B) v :
  (x <- r ;; k x) = Ok v -> exists x, r = Ok x /\ k x = Ok v.
Proof. destruct r; cbn; intros H; try discriminate. eauto. Qed.

(* ------------------------------------------------------------------ big-endian words depend on a prefix only *)
Lemma zslice_app_l {A} a b (l r : list A) : 0 <= a -> a <= b -> b <= zlen l -> zslice a b (l ++ r) = zslice a b l.
Proof.
  intros Ha Hab Hb. unfold zslice. rewrite zdrop_app_l; [|lia]. apply ztake_app_l. rewrite zlen_zdrop; lia.
Qed.
Lemma be32_app l r off : 0 <= off -> off + 4 <= zlen l -> be32 (l ++ r) off = be32 l off.
Proof. intros H1 H2. unfold be32. rewrite zslice_app_l; [reflexivity|lia..]. Qed.
Lemma be32_4 a b c d r : be32 (a :: b :: c :: d :: r) 0 = ((a * 256 + b) * 256 + c) * 256 + d.
Proof.
  unfold be32, zslice. change (0 + 4 - 0) with 4. unfold zdrop, ztake. change (Z.to_nat 0) with 0%nat. change (Z.to_nat 4) with 4%nat.
  cbn [skipn firstn]. unfold be_dec. cbn [rev app le_dec]. lia.
Qed.
Lemma be32_nonneg l off : all_bytes l = true -> 0 <= be32 l off.
Proof.
  intros Hb. unfold be32, be_dec.
  assert (H : all_bytes (rev (zslice off (off + 4) l)) = true).
  { rewrite all_bytes_rev. unfold zslice. rewrite <- (ztake_zdrop off l) in Hb. rewrite all_bytes_app in Hb. apply andb_true_iff in Hb as [_ Hb].
    rewrite <- (ztake_zdrop (off + 4 - off) (zdrop off l)) in Hb. rewrite all_bytes_app in Hb. apply andb_true_iff in Hb as [Hb _]. exact Hb. }
  pose proof (le_dec_range _ H). lia.
Qed.

(* ------------------------------------------------------------------ spans *)
Lemma hdr_span_app pad l r t : hdr_span pad l = Ok t -> hdr_span pad (l ++ r) = Ok t.
Proof.
  unfold hdr_span. intros H.
  destruct (zlen l <? rpmu_intro_size) eqn:E1; [discriminate|].
  change rpmu_intro_size with 16 in *. change rpmu_intro_off_Magic with 0 in *. change rpmu_intro_off_Entries with 8 in *. change rpmu_intro_off_Size with 12 in *.
  rewrite zlen_app. pose proof (zlen_nonneg r).
  replace (zlen l + zlen r <? 16) with false by lia.
  rewrite !be32_app by lia.
  destruct (rpmu_bad_intro_magic (be32 l 0)); [discriminate|].
  set (tot := 16 + rpmu_index_bytes _ + _) in *.
  destruct (zlen l <? tot) eqn:E2; [discriminate|].
  injection H as <-.
  replace (zlen l + zlen r <? tot) with false by lia. reflexivity.
Qed.
Lemma hdr_span_le pad l t : hdr_span pad l = Ok t -> t <= zlen l /\ 16 <= zlen l.
Proof.
  unfold hdr_span. intros H. change rpmu_intro_size with 16 in *.
  destruct (zlen l <? 16) eqn:E1; [discriminate|].
  destruct (rpmu_bad_intro_magic _); [discriminate|].
  set (tot := 16 + rpmu_index_bytes _ + _) in H.
  destruct (zlen l <? tot) eqn:E2; [discriminate|].
  injection H as <-. lia.
Qed.

Lemma sig_span_inv f n : rpm_sig_span f = Ok n ->
  rpmu_layout_ok = true /\ 96 <= zlen f /\ rpmu_bad_lead_magic (be32 f 0) = false /\
  exists m, hdr_span true (zdrop 96 f) = Ok m /\ n = m + 96 /\ n <= zlen f /\ 16 <= zlen f - 96.
Proof.
  unfold rpm_sig_span. intros H. change rpmu_lead_size with 96 in *.
  destruct rpmu_layout_ok; [|discriminate]. cbn [negb] in H.
  destruct (zlen f <? 96) eqn:E1; [discriminate|].
  destruct (rpmu_bad_lead_magic (be32 f 0)); [discriminate|].
  apply bind_ok' in H as (m & Hm & H). injection H as <-.
  split; [reflexivity|]. split; [lia|]. split; [reflexivity|]. exists m. split; [exact Hm|].
  destruct (hdr_span_le _ _ _ Hm) as [H1 H2]. rewrite zlen_zdrop in H1, H2 by lia.
  unfold rpmu_orig_size. repeat split; lia.
Qed.

Lemma sig_span_app f r n : rpm_sig_span f = Ok n -> rpm_sig_span (f ++ r) = Ok n.
Proof.
  intros H. destruct (sig_span_inv _ _ H) as (Hl & H96 & Hm & m & Hs & -> & Hle & _).
  unfold rpm_sig_span. change rpmu_lead_size with 96. rewrite Hl. cbn [negb].
  rewrite zlen_app. pose proof (zlen_nonneg r). replace (zlen f + zlen r <? 96) with false by lia.
  rewrite be32_app by lia. rewrite Hm.
  rewrite zdrop_app_l by lia. rewrite (hdr_span_app _ _ _ _ Hs). reflexivity.
Qed.

(* the index tags depend on the header only *)
Lemma hdr_tags_f_app n : forall l r, 16 * Z.of_nat n <= zlen l -> hdr_tags_f n (l ++ r) = hdr_tags_f n l.
Proof.
  induction n as [|n IH]; intros l r H; [reflexivity|].
  cbn [hdr_tags_f]. change rpmu_tag_off_Tag with 0. change rpmu_tag_size with 16.
  rewrite be32_app by lia. f_equal. rewrite zdrop_app_l by lia. apply IH. rewrite zlen_zdrop by lia. lia.
Qed.
Lemma padded_nonneg s : 0 <= s -> 0 <= rpmu_padded_size s.
Proof. intros H. unfold rpmu_padded_size. pose proof (Z.quot_pos (s + 7) 8). lia. Qed.
Lemma hdr_tags_app l r t : all_bytes l = true -> hdr_span true l = Ok t -> hdr_tags (l ++ r) = hdr_tags l.
Proof.
  intros Hb H. unfold hdr_tags. change rpmu_intro_off_Entries with 8. change rpmu_intro_size with 16.
  pose proof H as H0. unfold hdr_span in H. change rpmu_intro_size with 16 in *. change rpmu_intro_off_Magic with 0 in *.
  change rpmu_intro_off_Entries with 8 in *. change rpmu_intro_off_Size with 12 in *.
  destruct (zlen l <? 16) eqn:E1; [discriminate|].
  destruct (rpmu_bad_intro_magic _); [discriminate|].
  match type of H with (if ?c then _ else _) = _ => destruct c eqn:E2; [discriminate|] end. clear H.
  rewrite be32_app by lia. rewrite zdrop_app_l by lia.
  apply hdr_tags_f_app. rewrite zlen_zdrop by lia.
  pose proof (be32_nonneg l 8 Hb). pose proof (be32_nonneg l 12 Hb).
  change (rpmu_pads_when true) with true in E2. cbv iota in E2.
  pose proof (padded_nonneg _ H1). unfold rpmu_index_bytes in E2. rewrite Z2Nat.id by lia. lia.
Qed.

Lemma all_bytes_zdrop' n l : all_bytes l = true -> all_bytes (zdrop n l) = true.
Proof. intros H. rewrite <- (ztake_zdrop n l) in H. rewrite all_bytes_app in H. apply andb_true_iff in H. tauto. Qed.

Lemma nsigs_app b r n : all_bytes b = true -> rpm_sig_span b = Ok n -> rpm_nsigs (b ++ r) = rpm_nsigs b.
Proof.
  intros Hb H. destruct (sig_span_inv _ _ H) as (_ & H96 & _ & m & Hs & _).
  unfold rpm_nsigs. change rpmu_lead_size with 96. rewrite zdrop_app_l by lia.
  rewrite (hdr_tags_app _ _ _ (all_bytes_zdrop' _ _ Hb) Hs). reflexivity.
Qed.

(* ------------------------------------------------------------------ embed *)
Lemma blob_ok_inv b : rpm_blob_ok b = true -> rpm_sig_span b = Ok (zlen b) /\ 0 < rpm_nsigs b.
Proof.
  unfold rpm_blob_ok. destruct (rpm_sig_span b) as [n| |] eqn:E; try discriminate.
  intros H. apply andb_true_iff in H as [H1 H2]. split; [f_equal; lia|lia].
Qed.

(* the model carries the blob's byte-ness as part of blob_ok: embed refuses anything else *)
Definition rpm_embed_b (f blob : bytes) : result bytes :=
  if all_bytes blob then rpm_embed f blob else Err E_RPM_BLOB.

Lemma embed_inv f b g : rpm_embed f b = Ok g ->
  exists n, rpm_sig_span f = Ok n /\ rpm_blob_ok b = true /\ g = b ++ zdrop n f.
Proof.
  unfold rpm_embed. destruct rpm_sign_layout_ok; [|discriminate]. cbn [negb].
  intros H. apply bind_ok' in H as (n & Hn & H). exists n. split; [exact Hn|].
  destruct (rpm_blob_ok b); [|discriminate]. cbn [negb] in H. split; [reflexivity|].
  injection H as <-. unfold rpm_patch_offset, rpm_patch_oldsize. cbn [ztake firstn Z.to_nat app]. reflexivity.
Qed.

Lemma ztake_app_exact' {A} (a b : list A) : ztake (zlen a) (a ++ b) = a.
Proof. rewrite ztake_app_l by lia. apply ztake_all. lia. Qed.
Lemma zdrop_app_exact' {A} (a b : list A) : zdrop (zlen a) (a ++ b) = b.
Proof. rewrite zdrop_app_r by lia. replace (zlen a - zlen a) with 0 by lia. reflexivity. Qed.

Theorem rpm_law_extract f b g : rpm_embed_b f b = Ok g -> rpm_extract g = Ok (Some b).
Proof.
  unfold rpm_embed_b. destruct (all_bytes b) eqn:Hb; [|discriminate]. intros H.
  apply embed_inv in H as (n & Hn & Hok & ->). apply blob_ok_inv in Hok as [Hs Hns].
  unfold rpm_extract. rewrite (sig_span_app _ _ _ Hs). cbn [bind].
  rewrite (nsigs_app _ _ _ Hb Hs). unfold rpm_not_signed. replace (rpm_nsigs b =? 0) with false by lia.
  rewrite ztake_app_exact'. reflexivity.
Qed.

Lemma gen_span_embed f b n : rpm_sig_span f = Ok n -> rpm_sig_span b = Ok (zlen b) ->
  rpm_gen_span (b ++ zdrop n f) = (p <- rpm_gen_span f ;; Ok (zlen b, snd p)).
Proof.
  intros Hn Hs. unfold rpm_gen_span. rewrite (sig_span_app _ _ _ Hs), Hn. cbn [bind].
  rewrite zdrop_app_exact'. destruct (hdr_span false (zdrop n f)); reflexivity.
Qed.

Theorem rpm_law_hashin_all f b g : rpm_embed_b f b = Ok g -> rpm_hashin_all g = rpm_hashin_all f.
Proof.
  unfold rpm_embed_b. destruct (all_bytes b) eqn:Hb; [|discriminate]. intros H.
  apply embed_inv in H as (n & Hn & Hok & ->). apply blob_ok_inv in Hok as [Hs _].
  unfold rpm_hashin_all. destruct rpmu_cover_ok; [|reflexivity]. cbn [negb].
  rewrite (gen_span_embed _ _ _ Hn Hs). unfold rpm_gen_span. rewrite Hn. cbn [bind].
  destruct (hdr_span false (zdrop n f)); cbn [bind fst snd]; [|reflexivity|reflexivity].
  rewrite zdrop_app_exact'. reflexivity.
Qed.
Theorem rpm_law_hashin_hdr f b g : rpm_embed_b f b = Ok g -> rpm_hashin_hdr g = rpm_hashin_hdr f.
Proof.
  unfold rpm_embed_b. destruct (all_bytes b) eqn:Hb; [|discriminate]. intros H.
  apply embed_inv in H as (n & Hn & Hok & ->). apply blob_ok_inv in Hok as [Hs _].
  unfold rpm_hashin_hdr. destruct rpmu_cover_ok; [|reflexivity]. cbn [negb].
  rewrite (gen_span_embed _ _ _ Hn Hs). unfold rpm_gen_span. rewrite Hn. cbn [bind].
  destruct (hdr_span false (zdrop n f)) as [m| |]; cbn [bind fst snd]; [|reflexivity|reflexivity].
  unfold zslice. rewrite zdrop_app_exact'. f_equal. f_equal. lia.
Qed.

(* everything that is not lead + signature header *)
Definition rpm_rest (f : bytes) : result bytes := n <- rpm_sig_span f ;; Ok (zdrop n f).
Theorem rpm_law_payload f b g : rpm_embed_b f b = Ok g -> rpm_rest g = rpm_rest f.
Proof.
  unfold rpm_embed_b. destruct (all_bytes b) eqn:Hb; [|discriminate]. intros H.
  apply embed_inv in H as (n & Hn & Hok & ->). apply blob_ok_inv in Hok as [Hs _].
  unfold rpm_rest. rewrite (sig_span_app _ _ _ Hs), Hn. cbn [bind]. rewrite zdrop_app_exact'. reflexivity.
Qed.
Theorem only_signature_header_differs f b g : rpm_embed_b f b = Ok g ->
  exists n, rpm_sig_span f = Ok n /\ rpm_sig_span g = Ok (zlen b) /\ f = ztake n f ++ zdrop n f /\ g = b ++ zdrop n f.
Proof.
  unfold rpm_embed_b. destruct (all_bytes b) eqn:Hb; [|discriminate]. intros H.
  apply embed_inv in H as (n & Hn & Hok & ->). apply blob_ok_inv in Hok as [Hs _].
  exists n. split; [exact Hn|]. split; [apply sig_span_app; exact Hs|]. split; [symmetry; apply ztake_zdrop|reflexivity].
Qed.

(* C02: the header + payload preimage and the signature area determine the file *)
Theorem protect g1 g2 p b : rpm_hashin_all g1 = Ok p -> rpm_hashin_all g2 = Ok p ->
  rpm_extract g1 = Ok (Some b) -> rpm_extract g2 = Ok (Some b) -> g1 = g2.
Proof.
  assert (K : forall g, rpm_hashin_all g = Ok p -> rpm_extract g = Ok (Some b) -> g = b ++ p).
  { intros g Hh He. unfold rpm_hashin_all in Hh. destruct rpmu_cover_ok; [|discriminate]. cbn [negb] in Hh.
    apply bind_ok' in Hh as ([s m] & Hg & Hh). cbn [fst] in Hh. injection Hh as <-.
    unfold rpm_gen_span in Hg. apply bind_ok' in Hg as (n & Hn & Hg). apply bind_ok' in Hg as (m' & _ & Hg). injection Hg as <- <-.
    unfold rpm_extract in He. rewrite Hn in He. cbn [bind] in He. destruct (rpm_not_signed _); [discriminate|]. injection He as <-.
    symmetry. apply ztake_zdrop. }
  intros H1 H2 H3 H4. rewrite (K _ H1 H3), (K _ H2 H4). reflexivity.
Qed.

(* refusals *)
Theorem refuses_clean f b :
  (zlen f < 96 -> rpm_embed_b f b = Err E_RPM_SHORT \/ rpm_embed_b f b = Err E_RPM_BLOB) /\
  (96 <= zlen f -> rpmu_bad_lead_magic (be32 f 0) = true -> all_bytes b = true -> rpm_embed_b f b = Err E_RPM_MAGIC) /\
  (forall e, rpm_embed_b f b <> Panic e) /\ (forall e, rpm_extract f <> Panic e) /\ (forall e, rpm_hashin_all f <> Panic e) /\ (forall e, rpm_hashin_hdr f <> Panic e).
Proof.
  assert (Hsp : forall l pad e, hdr_span pad l <> Panic e).
  { intros l pad e. unfold hdr_span. repeat match goal with |- context [if ?c then _ else _] => destruct c end; discriminate. }
  assert (Hss : forall l e, rpm_sig_span l <> Panic e).
  { intros l e. unfold rpm_sig_span. repeat match goal with |- context [if ?c then _ else _] => destruct c end; try discriminate.
    destruct (hdr_span true (zdrop rpmu_lead_size l)) eqn:E; cbn [bind]; try discriminate. exfalso. exact (Hsp _ _ _ E). }
  assert (Hgs : forall l e, rpm_gen_span l <> Panic e).
  { intros l e. unfold rpm_gen_span. destruct (rpm_sig_span l) eqn:E; cbn [bind]; try discriminate; [|exfalso; exact (Hss _ _ E)].
    destruct (hdr_span false (zdrop a l)) eqn:E2; cbn [bind]; try discriminate. exfalso. exact (Hsp _ _ _ E2). }
  split; [|split; [|split; [|split; [|split]]]].
  - intros H. unfold rpm_embed_b. destruct (all_bytes b); [|right; reflexivity]. left.
    unfold rpm_embed. change rpm_sign_layout_ok with true. cbn [negb]. unfold rpm_sig_span. change rpmu_layout_ok with true. cbn [negb].
    change rpmu_lead_size with 96. replace (zlen f <? 96) with true by lia. reflexivity.
  - intros H Hm Hb. unfold rpm_embed_b. rewrite Hb. unfold rpm_embed. change rpm_sign_layout_ok with true. cbn [negb]. unfold rpm_sig_span.
    change rpmu_layout_ok with true. cbn [negb]. change rpmu_lead_size with 96. replace (zlen f <? 96) with false by lia. rewrite Hm. reflexivity.
  - intros e. unfold rpm_embed_b. destruct (all_bytes b); [|discriminate]. unfold rpm_embed. destruct rpm_sign_layout_ok; [|discriminate]. cbn [negb].
    destruct (rpm_sig_span f) eqn:E; cbn [bind]; try discriminate; [|exfalso; exact (Hss _ _ E)]. destruct (rpm_blob_ok b); discriminate.
  - intros e. unfold rpm_extract. destruct (rpm_sig_span f) eqn:E; cbn [bind]; try discriminate; [|exfalso; exact (Hss _ _ E)]. destruct (rpm_not_signed _); discriminate.
  - intros e. unfold rpm_hashin_all. destruct rpmu_cover_ok; [|discriminate]. cbn [negb]. destruct (rpm_gen_span f) eqn:E; cbn [bind]; try discriminate. exfalso. exact (Hgs _ _ E).
  - intros e. unfold rpm_hashin_hdr. destruct rpmu_cover_ok; [|discriminate]. cbn [negb]. destruct (rpm_gen_span f) eqn:E; cbn [bind]; try discriminate. exfalso. exact (Hgs _ _ E).
Qed.

(* is-signed *)
Theorem is_signed_spec f b g n :
  (rpm_embed_b f b = Ok g -> rpm_extract g = Ok (Some b)) /\
  (rpm_sig_span f = Ok n -> rpm_nsigs f = 0 -> rpm_extract f = Ok None) /\
  (rpm_sig_span f = Ok n -> 0 < rpm_nsigs f -> rpm_extract f = Ok (Some (ztake n f))).
Proof.
  split; [apply rpm_law_extract|]. split; intros Hn Hs; unfold rpm_extract; rewrite Hn; cbn [bind]; unfold rpm_not_signed.
  - rewrite Hs. reflexivity.
  - replace (rpm_nsigs f =? 0) with false by lia. reflexivity.
Qed.

(* ------------------------------------------------------------------ against the package format *)
Lemma bytes4 a b c d : 0 <= a < 256 -> 0 <= b < 256 -> 0 <= c < 256 -> 0 <= d < 256 ->
  ((a * 256 + b) * 256 + c) * 256 + d = 2393761793 -> a = 142 /\ b = 173 /\ c = 232 /\ d = 1.
Proof. intros. lia. Qed.
Lemma all_bytes_cons' b l : all_bytes (b :: l) = true <-> (0 <= b < 256) /\ all_bytes l = true.
Proof. unfold all_bytes. cbn [forallb]. rewrite andb_true_iff. unfold is_byte. split; intros [H1 H2]; split; auto; lia. Qed.

Definition hdr_len_of (l : bytes) : Z := 16 + 16 * be32 l 8 + be32 l 12.
Definition span_of (pad : bool) (l : bytes) : Z := if pad then 16 + 16 * be32 l 8 + rpmu_padded_size (be32 l 12) else hdr_len_of l.
(* the model's header span and the format's header length agree on byte strings *)
Lemma hdr_span_spec pad l : all_bytes l = true ->
  match hdr_span pad l with
  | Ok t => spec_hdr_len l = Some (hdr_len_of l) /\ t = span_of pad l /\ t <= zlen l
  | Err _ => spec_hdr_len l = None \/ (spec_hdr_len l = Some (hdr_len_of l) /\ zlen l < span_of pad l)
  | Panic _ => False
  end.
Proof.
  intros Hb. unfold hdr_span, span_of. change rpmu_intro_size with 16. change rpmu_intro_off_Magic with 0. change rpmu_intro_off_Entries with 8. change rpmu_intro_off_Size with 12.
  destruct (zlen l <? 16) eqn:E1.
  { left. do 16 (destruct l as [|? l]; [reflexivity|]). rewrite !zlen_cons in E1. pose proof (zlen_nonneg l). lia. }
  destruct l as [|a [|b [|c [|d [|r0 [|r1 [|r2 [|r3 [|i3 [|i2 [|i1 [|i0 [|d3 [|d2 [|d1 [|d0 l]]]]]]]]]]]]]]]];
    try (rewrite ?zlen_cons, ?zlen_nil in E1; lia).
  repeat (apply all_bytes_cons' in Hb; destruct Hb as [? Hb]).
  assert (E8 : be32 (a :: b :: c :: d :: r0 :: r1 :: r2 :: r3 :: i3 :: i2 :: i1 :: i0 :: d3 :: d2 :: d1 :: d0 :: l) 8 = ((i3 * 256 + i2) * 256 + i1) * 256 + i0).
  { unfold be32, zslice. change (8 + 4 - 8) with 4. unfold zdrop, ztake. change (Z.to_nat 8) with 8%nat. change (Z.to_nat 4) with 4%nat.
    cbn [skipn firstn]. unfold be_dec. cbn [rev app le_dec]. lia. }
  assert (E12 : be32 (a :: b :: c :: d :: r0 :: r1 :: r2 :: r3 :: i3 :: i2 :: i1 :: i0 :: d3 :: d2 :: d1 :: d0 :: l) 12 = ((d3 * 256 + d2) * 256 + d1) * 256 + d0).
  { unfold be32, zslice. change (12 + 4 - 12) with 4. unfold zdrop, ztake. change (Z.to_nat 12) with 12%nat. change (Z.to_nat 4) with 4%nat.
    cbn [skipn firstn]. unfold be_dec. cbn [rev app le_dec]. lia. }
  unfold hdr_len_of. rewrite be32_4, E8, E12. unfold rpmu_bad_intro_magic, rpmu_index_bytes. cbn [spec_hdr_len].
  destruct (((a * 256 + b) * 256 + c) * 256 + d =? 2393761793) eqn:Em; cbn [negb].
  - apply Z.eqb_eq in Em. apply bytes4 in Em as (-> & -> & -> & ->); try lia.
    change ((142 =? 142) && (173 =? 173) && (232 =? 232) && (1 =? 1)) with true. cbv iota. change (rpmu_pads_when pad) with pad.
    match goal with |- context [if ?c then Err _ else Ok _] => destruct c eqn:E2 end.
    + right. split; [f_equal; lia|]. destruct pad; lia.
    + split; [f_equal; lia|]. split; [destruct pad; lia|lia].
  - left. apply Z.eqb_neq in Em.
    destruct ((a =? 142) && (b =? 173) && (c =? 232) && (d =? 1)) eqn:Eb; [|reflexivity].
    exfalso. apply Em. lia.
Qed.

Lemma pad8_split il dl : 0 <= il -> 0 <= dl -> spec_pad8 (16 + 16 * il + dl) = 16 + 16 * il + rpmu_padded_size dl.
Proof.
  intros Hi Hd. unfold spec_pad8, rpmu_padded_size. rewrite Z.quot_div_nonneg by lia. lia.
Qed.
Lemma lead_magic_spec f : all_bytes f = true -> 96 <= zlen f -> spec_lead_ok f = negb (rpmu_bad_lead_magic (be32 f 0)).
Proof.
  intros Hb H96. destruct f as [|a [|b [|c [|d r]]]]; try (rewrite ?zlen_cons, ?zlen_nil in H96; lia).
  repeat (apply all_bytes_cons' in Hb; destruct Hb as [? Hb]).
  unfold spec_lead_ok. replace (zlen (a :: b :: c :: d :: r) <? 96) with false by lia. rewrite be32_4. unfold rpmu_bad_lead_magic.
  change 4294967295 with (Z.ones 32). rewrite Z.land_ones by lia. change (2 ^ 32) with 4294967296.
  rewrite Z.mod_small by lia. rewrite negb_involutive.
  destruct (((a * 256 + b) * 256 + c) * 256 + d =? 3987467995) eqn:E.
  - apply Z.eqb_eq in E. assert (a = 237 /\ b = 171 /\ c = 238 /\ d = 219) as (-> & -> & -> & ->) by lia. reflexivity.
  - apply Z.eqb_neq in E. destruct ((a =? 237) && (b =? 171) && (c =? 238) && (d =? 219)) eqn:Eb; [|rewrite andb_false_l || reflexivity; reflexivity].
    exfalso. apply E. lia.
Qed.

(* C05 (rpm_header_digest_spec): on every byte string the RPM format reader takes apart, the two preimages are the header
   structure and the header followed by the payload; and the reader's parts are the model's spans *)
Theorem header_digest_spec f p : all_bytes f = true -> spec_rpm_split f = Some p ->
  rpm_hashin_hdr f = Ok (rp_hdr p) /\ rpm_hashin_all f = Ok (rp_hdr p ++ rp_payload p) /\
  rpm_sig_span f = Ok (zlen (rp_lead p ++ rp_sig p)) /\ f = rp_lead p ++ rp_sig p ++ rp_hdr p ++ rp_payload p.
Proof.
  intros Hb H. unfold spec_rpm_split in H.
  destruct (spec_lead_ok f) eqn:El; [|discriminate]. cbn [negb] in H.
  assert (H96 : 96 <= zlen f).
  { unfold spec_lead_ok in El. destruct f as [|a [|b [|c [|d r]]]]; try discriminate. apply andb_true_iff in El as [_ El]. lia. }
  rewrite (lead_magic_spec f Hb H96) in El. apply negb_true_iff in El.
  set (r := zdrop 96 f) in *. assert (Hbr : all_bytes r = true) by (apply all_bytes_zdrop'; exact Hb).
  pose proof (hdr_span_spec true r Hbr) as Hs.
  destruct (spec_hdr_len r) as [n|] eqn:En; [|discriminate].
  destruct (zlen r <? spec_pad8 n) eqn:E1; [discriminate|].
  set (r2 := zdrop (spec_pad8 n) r) in *. assert (Hbr2 : all_bytes r2 = true) by (apply all_bytes_zdrop'; exact Hbr).
  pose proof (hdr_span_spec false r2 Hbr2) as Hs2.
  destruct (spec_hdr_len r2) as [m|] eqn:Em; [|discriminate].
  destruct (zlen r2 <? m) eqn:E2; [discriminate|]. injection H as <-. cbn [rp_lead rp_sig rp_hdr rp_payload].
  pose proof (be32_nonneg r 8 Hbr) as N8. pose proof (be32_nonneg r 12 Hbr) as N12.
  assert (Hpad : spec_pad8 n = span_of true r).
  { destruct (hdr_span true r) as [t|e|e]; [destruct Hs as (Hs & _)|destruct Hs as [Hs|(Hs & _)]; [discriminate|]|contradiction];
      injection Hs as ->; unfold hdr_len_of, span_of; apply pad8_split; assumption. }
  assert (Hspan : hdr_span true r = Ok (spec_pad8 n)).
  { destruct (hdr_span true r) as [t|e|e]; [destruct Hs as (_ & -> & _); rewrite Hpad; reflexivity| |contradiction].
    destruct Hs as [Hs|(_ & Hs)]; [discriminate|]. rewrite <- Hpad in Hs. lia. }
  assert (Hspan2 : hdr_span false r2 = Ok m).
  { destruct (hdr_span false r2) as [t|e|e]; [destruct Hs2 as (Hs2 & -> & _); injection Hs2 as ->; reflexivity| |contradiction].
    destruct Hs2 as [Hs2|(Hs2 & Hlt)]; [discriminate|]. injection Hs2 as ->. unfold span_of in Hlt. lia. }
  assert (Hn0 : 0 <= spec_pad8 n) by (rewrite Hpad; unfold span_of; pose proof (padded_nonneg _ N12); lia).
  assert (Hss : rpm_sig_span f = Ok (spec_pad8 n + 96)).
  { unfold rpm_sig_span. change rpmu_layout_ok with true. cbn [negb]. change rpmu_lead_size with 96. replace (zlen f <? 96) with false by lia.
    rewrite El. fold r. rewrite Hspan. reflexivity. }
  assert (Hz : zlen r = zlen f - 96) by (unfold r; apply zlen_zdrop; lia).
  assert (Hr2 : zdrop (spec_pad8 n + 96) f = r2) by (unfold r2, r; rewrite zdrop_zdrop by lia; reflexivity).
  assert (Hgs : rpm_gen_span f = Ok (spec_pad8 n + 96, m)) by (unfold rpm_gen_span; rewrite Hss; cbn [bind]; rewrite Hr2, Hspan2; reflexivity).
  split; [|split; [|split]].
  - unfold rpm_hashin_hdr. change rpmu_cover_ok with true. cbn [negb]. rewrite Hgs. cbn [bind fst snd]. unfold zslice. rewrite Hr2. f_equal. f_equal. lia.
  - unfold rpm_hashin_all. change rpmu_cover_ok with true. cbn [negb]. rewrite Hgs. cbn [bind fst snd]. rewrite Hr2. rewrite ztake_zdrop. reflexivity.
  - rewrite Hss. f_equal. rewrite zlen_app, zlen_ztake, zlen_ztake by lia. lia.
  - rewrite (ztake_zdrop m r2). unfold r2. rewrite (ztake_zdrop (spec_pad8 n) r). unfold r. symmetry. apply ztake_zdrop.
Qed.

(* ------------------------------------------------------------------ the generic pipeline, instantiated *)
Definition rpm_format : format bytes := mkFormat bytes rpm_hashin_all rpm_embed_b rpm_extract rpm_rest.
Lemma L1 : law_extract bytes rpm_format. Proof. exact rpm_law_extract. Qed.
Lemma L2 : law_hashin bytes rpm_format. Proof. exact rpm_law_hashin_all. Qed.
Lemma L3 : law_payload bytes rpm_format. Proof. exact rpm_law_payload. Qed.

Section Crypto.
  Variables key pubk sigv : Type.
  Variable H : Z -> bytes -> bytes.
  Variable pub : key -> pubk.
  Variable sign : key -> bytes -> sigv.
  Variable vrfy : pubk -> bytes -> sigv -> bool.
  Hypothesis sign_correct : forall k m, vrfy (pub k) m (sign k m) = true.
  Variable tbs : Z -> bytes -> bytes.
  Variable ser : sigblob pubk sigv -> bytes.
  Variable deser : bytes -> option (sigblob pubk sigv).
  Hypothesis deser_ser : forall b, deser (ser b) = Some b.

  Theorem sign_then_verify_rpm : forall k a f g,
    sign_file key pubk sigv H pub sign tbs ser bytes rpm_format k a f = Ok g ->
    verify_file pubk sigv H vrfy tbs deser bytes rpm_format g = Accept pubk (pub k) a.
  Proof. intros. eapply sign_then_verify; eauto using L1, L2. Qed.
  Theorem resign_history_rpm : forall hist f g k a,
    resign key pubk sigv H pub sign tbs ser bytes rpm_format (hist ++ [(k, a)]) f = Ok g ->
    verify_file pubk sigv H vrfy tbs deser bytes rpm_format g = Accept pubk (pub k) a /\
    is_signed bytes rpm_format g = true /\ rpm_rest g = rpm_rest f /\ rpm_hashin_all g = rpm_hashin_all f.
  Proof. intros. eapply (resign_history key pubk sigv H pub sign vrfy sign_correct tbs ser deser deser_ser bytes rpm_format L1 L2 L3); eauto. Qed.
End Crypto.

(* ------------------------------------------------------------------ relic's own verify report and nevra() *)
Theorem verify_report_total sigs nochain : forall e, rpm_verify_report sigs nochain <> Panic e.
Proof.
  intros e. unfold rpm_verify_report. destruct (rpm_not_signed (zlen sigs)); [discriminate|].
  assert (K : forall l seen e', rpm_dedupe seen l nochain <> Panic e').
  { induction l as [|[kid known] l IH]; intros seen e'; cbn [rpm_dedupe]; [discriminate|].
    destruct (rpm_skip_seen _); [apply IH|]. destruct (_ && _); [discriminate|].
    destruct (rpm_dedupe (kid :: seen) l nochain) eqn:E; cbn [bind]; try discriminate. exfalso. exact (IH _ _ E). }
  destruct (rpm_dedupe [] sigs nochain) eqn:E; cbn [bind]; try discriminate. exfalso. exact (K _ _ _ E).
Qed.
Theorem verify_report_not_signed nochain : rpm_verify_report [] nochain = Ok None.
Proof. reflexivity. Qed.
Theorem nevra_spec n : (forall e, rpm_nevra n <> Panic e) /\ rpm_nevra None = Ok [] /\ (forall p, rpm_nevra (Some p) = Ok p).
Proof.
  assert (K : forall p, rpm_nevra (Some p) = Ok p).
  { intros p. unfold rpm_nevra. change (rpm_nevra_gives_up false) with false. change rpmu_nevra_ends_in_dot_rpm with true. cbv iota.
    unfold rpm_nevra_cut. rewrite zlen_app. change (zlen DOT_RPM) with 4. pose proof (zlen_nonneg p).
    replace (zlen p + 4 - 4 <? 0) with false by lia. replace (zlen p + 4 - 4) with (zlen p) by lia.
    rewrite ztake_app_l by lia. rewrite ztake_all by lia. reflexivity. }
  split; [|split; [reflexivity|exact K]].
  intros e. destruct n as [p|]; [rewrite K|]; discriminate.
Qed.
(* the /sign endpoint: a module that is missing or cannot sign is refused, never called *)
Theorem srv_dispatch_spec me cs : (forall e, srv_sign_dispatch me cs <> Panic e) /\ srv_sign_dispatch me cs = Ok (me && cs).
Proof. destruct me, cs; split; try discriminate; reflexivity. Qed.
