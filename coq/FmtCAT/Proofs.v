(* FmtCAT/Proofs.v — the proofs of this unit live in three files; this one gathers them. *)
From Relic Require Export FmtCAT.ProofsRpm FmtCAT.ProofsCodec FmtCAT.ProofsCms.
