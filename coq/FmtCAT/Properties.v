(* FmtCAT/Properties.v — the small signers: catalogs (signers/cat), PKCS#7 over arbitrary content (pkcs7 builder + signers/pkcs),
   cosign, RPM, and the magic.Detect clauses in front of them.  Statements only; each is closed by a lemma of FmtCAT/Proofs*.v.
   The CMS layer is C16's model; cryptography is symbolic (C16's `crypto` record, a signing function `sgn`, Laws.Pipeline's section). *)
From Relic Require Import Base.Prelude Base.Enc Generated.C16_gen C16.Model C16.Tlv C16.Proofs C16.VModel C16.VProofs Generated.FmtCAT_gen FmtCAT.Model.
From Relic Require Import Laws.Pipeline.
From Relic Require FmtCAT.Proofs.
Import FmtCAT.ProofsRpm FmtCAT.ProofsCodec FmtCAT.ProofsCms.

Local Open Scope Z_scope.

(* ====================================================================================================================== catalogs *)
(* C03 C08 — re-signing a catalog keeps the encapsulated content info (content type + CTL) byte for byte: it is a contiguous slice of
   the input and of the output; pkcs7.Unmarshal reads the output back as { version 1, one digest algorithm, THAT content info, the
   configured chain, no CRLs, ONE signer info: the new one }; and the independent RFC 5652 walker ACCEPTS the output (it is strict DER) and
   finds exactly those regions.  x ranges over all byte strings. *)
Theorem cat_content_preserved : forall C sgn S x y, all_bytes x = true -> signer_wf S -> (forall k d, all_bytes (sgn k d) = true) ->
  cat_sign C sgn S x = Ok y -> small y ->
  exists o sd b sig,
    parse_cms x = Ok o /\ o_sd o = Some sd /\ ci_bytes (ci_raw (sd_ci sd)) = Ok (Some b) /\ sig = sgn (sg_key S) (c_H C (sg_hash S) b) /\
    parse_cms y = Ok (mkCms OID_sd (Some (parsed_sd S (sd_ci sd) sig))) /\
    subslice (ci_raw (sd_ci sd)) x /\ subslice (ci_raw (sd_ci sd)) y /\
    spec_regions y = Some (mkReg (ci_raw (sd_ci sd)) (sort_b (sg_chain S)) [] [enc_tlv T_SEQ (si_body S sig)]).
Proof. exact FmtCAT.ProofsCms.content_preserved. Qed.

(* C05 — WHICH octets are digested: the content octets of the element inside [0] of the encapsulated content info, identifier and
   length octets excluded (RFC 5652 5.4 for content types other than id-data): the octets the RFC reader calls eContent whenever it
   accepts the element, and `payload` when the element is SEQUENCE { type, [0] { tag len payload } } *)
Theorem cat_digest_is_econtent_octets : forall C sgn S x y, all_bytes x = true -> signer_wf S -> (forall k d, all_bytes (sgn k d) = true) ->
  cat_sign C sgn S x = Ok y -> small y ->
  exists o sd b, parse_cms x = Ok o /\ o_sd o = Some sd /\ cat_hashin x = Ok b /\
    parse_cms y = Ok (mkCms OID_sd (Some (parsed_sd S (sd_ci sd) (sgn (sg_key S) (c_H C (sg_hash S) b))))) /\
    (forall b', spec_econtent (ci_raw (sd_ci sd)) = Some (Some b') -> b' = b) /\
    (forall ctype tag payload, ci_raw (sd_ci sd) = enc_tlv T_SEQ (enc_tlv T_OID ctype ++ enc_tlv 160 (enc_tlv tag payload)) ->
       small (ci_raw (sd_ci sd)) -> oid_ok ctype = true -> all_bytes ctype = true -> tag_ok tag -> all_bytes payload = true -> b = payload).
Proof. exact FmtCAT.ProofsCms.digest_is_econtent. Qed.
(* C05 — the recorded deviation (known finding C05:spec:cat:pkcs7-signedattrs-absent-for-non-data-content), as a theorem about the code
   as it is: the signer info of every catalog relic signs has no signed attributes although the content type is not id-data *)
Theorem cat_no_signed_attributes : forall C sgn S x y, all_bytes x = true -> signer_wf S -> (forall k d, all_bytes (sgn k d) = true) ->
  cat_sign C sgn S x = Ok y -> small y ->
  exists o' sd' s, parse_cms y = Ok o' /\ o_sd o' = Some sd' /\ sd_sis sd' = [s] /\ si_auth s = None /\
    ci_ctype (sd_ci sd') = OID_ctl /\ OID_ctl <> OID_data /\ spec_signed_attrs_preimage (si_raw s) = None.
Proof. exact FmtCAT.ProofsCms.no_signed_attributes. Qed.

(* C01 — relic's verifier (signers/pkcs.Verify, the catalog module's verifier), run on the BYTES relic wrote, accepts them: under the
   certificate of the configured chain matching the signer's issuer and serial, the signature checked over the digest of the eContent *)
Theorem cat_sign_then_verify : forall C sgn S x y cf, all_bytes x = true -> signer_wf S -> (forall k d, all_bytes (sgn k d) = true) ->
  cat_sign C sgn S x = Ok y -> small y ->
  exists b c h, cat_hashin x = Ok b /\
    pkcs_verify C y false [] cf = Ok (SdAccept (parsed_si S (sgn (sg_key S) (c_H C (sg_hash S) b))) c) /\
    find_cert (fst (c_parse_certs C (Some (sg_chain S)))) (sg_issuer S) (sg_serial S) = Some c /\
    c_hash_of C (sg_dalg S) = Some h /\
    signature_accepted C c (new_si S (sgn (sg_key S) (c_H C (sg_hash S) b))) (c_H C h b).
Proof. exact FmtCAT.ProofsCms.sign_then_verify. Qed.
(* C01 — what is not signed is refused with an explicit error *)
Theorem cat_refuses_clean : forall C sgn S x,
  (forall e, parse_cms x = Err e -> cat_sign C sgn S x = Err e) /\
  (forall o, parse_cms x = Ok o -> ci_ctype (sd_ci (sd_of o)) <> OID_ctl -> cat_sign C sgn S x = Err E_NOT_CATALOG) /\
  (forall o, parse_cms x = Ok o -> ci_ctype (sd_ci (sd_of o)) = OID_ctl -> ci_bytes (ci_raw (sd_ci (sd_of o))) = Ok None ->
     sg_chain S <> [] -> sg_samekey S = true -> cat_sign C sgn S x = Err E_SELFCHECK).
Proof. exact FmtCAT.ProofsCms.refuses_clean. Qed.

(* C08 — the digest preimage does not depend on the signature a catalog carries; signing the output again (other key, other digest)
   keeps the content and the preimage and leaves exactly the last signer; the is-signed probe answers true for every output and
   `signer infos present` in general *)
Theorem cat_hashin_ignores_signature : forall C sgn S x y, all_bytes x = true -> signer_wf S -> (forall k d, all_bytes (sgn k d) = true) ->
  cat_sign C sgn S x = Ok y -> small y -> cat_hashin y = cat_hashin x /\ cms_is_signed y = Ok true /\ all_bytes y = true.
Proof. exact FmtCAT.ProofsCms.hashin_ignores_signature. Qed.
Theorem cat_resign_replaces : forall C sgn S1 S2 x y1 y2, all_bytes x = true -> signer_wf S1 -> signer_wf S2 -> (forall k d, all_bytes (sgn k d) = true) ->
  cat_sign C sgn S1 x = Ok y1 -> small y1 -> cat_sign C sgn S2 y1 = Ok y2 -> small y2 ->
  exists o sd b, parse_cms x = Ok o /\ o_sd o = Some sd /\ cat_hashin x = Ok b /\ cat_hashin y2 = Ok b /\
    parse_cms y2 = Ok (mkCms OID_sd (Some (parsed_sd S2 (sd_ci sd) (sgn (sg_key S2) (c_H C (sg_hash S2) b))))).
Proof. exact FmtCAT.ProofsCms.resign_replaces. Qed.
Theorem cms_is_signed_spec : forall x o, parse_cms x = Ok o -> cms_is_signed x = Ok (negb (zlen (sd_sis (sd_of o)) =? 0)).
Proof. exact FmtCAT.ProofsCms.is_signed_spec. Qed.

(* ====================================================================================================================== PKCS#7 *)
(* C05 — SetContentData: the data goes into [0] as an OCTET STRING, the digest is taken over exactly the data *)
Theorem pkcs_digest_is_content : forall C h data, all_bytes data = true -> small (ci_raw (ci_att data)) ->
  set_content_data C h data = Ok (ci_att data, c_H C h data) /\ spec_econtent (ci_raw (ci_att data)) = Some (Some data) /\ ci_ctype (ci_att data) = OID_data.
Proof. exact FmtCAT.ProofsCms.digest_is_content. Qed.
(* C01 C02 — attached: verifies without --content and with --content naming the same bytes; any other --content is refused *)
Theorem pkcs_attached_verify_roundtrip : forall C sgn S content, all_bytes content = true -> signer_wf S -> (forall k d, all_bytes (sgn k d) = true) ->
  forall y, pkcs_sign C sgn S content false None = Ok y -> small y -> small (ci_raw (ci_att content)) ->
  exists c, (forall cf, pkcs_verify C y false [] cf = Ok (SdAccept (parsed_si S (sgn (sg_key S) (c_H C (sg_hash S) content))) c)) /\
            (forall path, pkcs_verify C y false path content = Ok (SdAccept (parsed_si S (sgn (sg_key S) (c_H C (sg_hash S) content))) c)) /\
            (forall path other, path <> [] -> other <> content -> pkcs_verify C y false path other = Ok (SdReject EV_NEW)).
Proof. exact FmtCAT.ProofsCms.attached_roundtrip. Qed.
(* C01 C02 — detached: verifies with --content naming the signed bytes; refused without --content; refused with other bytes as soon as
   the signature does not verify over THEIR digest (the symbolic idealisation: a signature is good for one digest); with integrity
   checks switched off no content is read at all *)
Theorem pkcs_detached_verify_roundtrip : forall C sgn S content, all_bytes content = true -> signer_wf S -> (forall k d, all_bytes (sgn k d) = true) ->
  forall y, pkcs_sign C sgn S content true None = Ok y -> small y -> small (ci_raw (ci_att content)) ->
  exists c, (forall path, path <> [] -> pkcs_verify C y false path content = Ok (SdAccept (parsed_si S (sgn (sg_key S) (c_H C (sg_hash S) content))) c)) /\
            (forall cf, pkcs_verify C y false [] cf = Ok (SdReject EV_NEW)) /\
            (forall path other h, path <> [] -> c_hash_of C (sg_dalg S) = Some h ->
               (forall c', ~ signature_accepted C c' (new_si S (sgn (sg_key S) (c_H C (sg_hash S) content))) (c_H C h other)) ->
               exists e, pkcs_verify C y false path other = Ok (SdReject e)) /\
            (forall path cf, pkcs_verify C y true path cf = Ok (sd_verify C (parsed_sd S ci_det_p (sgn (sg_key S) (c_H C (sg_hash S) content))) Wnil true)).
Proof. exact FmtCAT.ProofsCms.detached_roundtrip. Qed.
(* C01 — the builder's refusals: no certificate, a first certificate that does not match the key, a detached digest of the wrong size *)
Theorem pkcs_builder_refuses : forall C sgn S ci digest attrs hsize ctype,
  (sg_chain S = [] -> builder_sign C sgn S ci digest attrs = Err E_BUILDER) /\
  (sg_samekey S = false -> builder_sign C sgn S ci digest attrs = Err E_BUILDER) /\
  (zlen digest <> hsize -> set_detached_content hsize ctype digest = Err E_BUILDER) /\
  (zlen digest = hsize -> set_detached_content hsize ctype digest = Ok (mkCi [] ctype, digest)).
Proof. exact FmtCAT.ProofsCms.builder_refuses. Qed.

(* ====================================================================================================================== magic *)
(* C01 C11 — Detect is a total function of the first 256 bytes: three prefixes, then two markers *)
Theorem magic_detect_spec : forall f,
  detect f = if has_prefix P_rpm f then Some magic_FileTypeRPM else if has_prefix P_deb f then Some magic_FileTypeDEB
             else if has_prefix P_pgp f then Some magic_FileTypePGP
             else if contains_b P_ctl (ztake 256 f) then Some magic_FileTypeCAT
             else if contains_b P_sd (ztake 256 f) then Some magic_FileTypePKCS7 else None.
Proof. exact FmtCAT.ProofsCms.detect_spec. Qed.
Theorem magic_routes_catalog : forall r, contains_b P_ctl (ztake 256 (48 :: r)) = true -> detect (48 :: r) = Some magic_FileTypeCAT.
Proof. exact FmtCAT.ProofsCms.routes_catalog. Qed.
(* ... but NOT every well-formed catalog is routed to the catalog signer: with enough digest algorithm identifiers in front, the content
   type lies beyond byte 256 and the file is classified as plain PKCS#7, for which relic has no signer *)
Theorem magic_routes_every_catalog_refuted :
  exists x o, parse_cms x = Ok o /\ ci_ctype (sd_ci (sd_of o)) = OID_ctl /\ spec_econtent (ci_raw (sd_ci (sd_of o))) = Some (Some [4; 1; 7]) /\
              detect x = Some magic_FileTypePKCS7.
Proof. exact FmtCAT.ProofsCms.routes_every_catalog_refuted. Qed.

(* ====================================================================================================================== cosign *)
(* C05 — codecs against their specification readers, for all inputs *)
Theorem hex_roundtrip : forall l, all_bytes l = true -> spec_hex_dec (hex_enc l) = Some l.
Proof. exact FmtCAT.ProofsCodec.hex_roundtrip. Qed.
Theorem cosign_base64_roundtrip : forall l, all_bytes l = true -> spec_b64_dec (b64_enc l) = Some l.
Proof. exact FmtCAT.ProofsCodec.b64_roundtrip. Qed.
Theorem json_roundtrip : forall v, json_safe v = true -> spec_json_parse (json_ser v) = Some v.
Proof. exact FmtCAT.ProofsCodec.json_roundtrip. Qed.
Theorem cosign_digest_wellformed : forall name raw,
  In name [A_sha256; A_sha384; A_sha512] -> all_bytes raw = true ->
  zlen raw = (if bytes_eqb name A_sha256 then 32 else if bytes_eqb name A_sha384 then 48 else 64) ->
  spec_digest_parse (digest_str name raw) = Some (name, raw).
Proof. exact FmtCAT.ProofsCodec.digest_wellformed. Qed.
(* C05 — the simple-signing document relic writes, read by an RFC 8259 reader: critical.image.docker-manifest-digest is the digest
   string, critical.type the cosign constant, optional.creator the user agent; members in that order; NO critical.identity *)
Theorem cosign_payload_spec : forall d p, cosign_payload d = Ok p ->
  exists j, spec_json_parse p = Some j /\
    json_get [K_critical; K_image; K_dmd] j = Some (JStr d) /\
    json_get [K_critical; K_type] j = Some (JStr V_type) /\
    json_get [K_optional; K_creator] j = Some (JStr relic_user_agent) /\
    json_keys j = [K_critical; K_optional] /\
    option_map json_keys (json_get [K_critical] j) = Some [K_image; K_type] /\
    json_get [K_critical; K_identity] j = None.
Proof. exact FmtCAT.ProofsCodec.payload_spec. Qed.
(* C01 C05 — the signature is over the digest of exactly the payload bytes stored in the layer; descriptors describe payload and manifest;
   the annotation decodes to the signature; the payload names the manifest digest, a registered digest of the manifest *)
Theorem cosign_signature_over_payload : forall Hf sgn key h manifest jok mt o,
  (forall a m, all_bytes (Hf a m) = true) -> (forall k m, all_bytes (sgn k m) = true) ->
  (forall m, zlen (Hf h m) = (if h =? 5 then 32 else if h =? 6 then 48 else 64)) ->
  cosign_sign Hf sgn key h manifest jok mt = Ok o ->
  co_sig o = sgn key (Hf h (co_payload o)) /\ co_layer_data o = co_payload o /\
  co_layer_size o = zlen (co_payload o) /\ co_subject_size o = zlen manifest /\ co_subject_type o = mt /\
  spec_b64_dec (co_sig_b64 o) = Some (co_sig o) /\
  (exists name, spec_digest_parse (co_subject_digest o) = Some (name, Hf h manifest) /\ spec_digest_parse (co_layer_digest o) = Some (name, Hf h (co_payload o))) /\
  exists j, spec_json_parse (co_payload o) = Some j /\ json_get [K_critical; K_image; K_dmd] j = Some (JStr (co_subject_digest o)) /\
            json_get [K_critical; K_type] j = Some (JStr V_type).
Proof. exact FmtCAT.ProofsCodec.signature_over_payload. Qed.
(* C01 — the refusals (explicit errors) and their complement *)
Theorem cosign_refuses_clean : forall Hf sgn key h manifest jok mt,
  (cosign_max_size < zlen manifest -> cosign_sign Hf sgn key h manifest jok mt = Err E_COSIGN_BIG) /\
  (zlen manifest <= cosign_max_size -> ~ In h [5; 6; 7] -> cosign_sign Hf sgn key h manifest jok mt = Err E_COSIGN_ALG) /\
  (zlen manifest <= cosign_max_size -> In h [5; 6; 7] -> jok = false -> cosign_sign Hf sgn key h manifest jok mt = Err E_COSIGN_JSON) /\
  (zlen manifest <= cosign_max_size -> In h [5; 6; 7] -> jok = true -> mt = [] -> cosign_sign Hf sgn key h manifest jok mt = Err E_COSIGN_NOTYPE) /\
  (zlen manifest <= cosign_max_size -> In h [5; 6; 7] -> jok = true -> mt <> [] -> existsb (bytes_eqb mt) cosign_allowed_types = false ->
   cosign_sign Hf sgn key h manifest jok mt = Err E_COSIGN_TYPE).
Proof. exact FmtCAT.ProofsCodec.refuses_clean. Qed.
Theorem cosign_signs_signable : forall Hf sgn key h manifest mt,
  (forall a m, all_bytes (Hf a m) = true) ->
  zlen manifest <= cosign_max_size -> In h [5; 6; 7] -> existsb (bytes_eqb mt) cosign_allowed_types = true ->
  exists o, cosign_sign Hf sgn key h manifest true mt = Ok o.
Proof. exact FmtCAT.ProofsCodec.signs_signable. Qed.
(* C11 — the decisions never panic *)
Theorem cosign_no_panic : forall Hf sgn key h manifest jok mt e, cosign_sign Hf sgn key h manifest jok mt <> Panic e.
Proof. exact FmtCAT.ProofsCodec.no_panic. Qed.

(* ====================================================================================================================== RPM *)
(* go-rpmutils is third party: header sizes, which tag covers what and the rebuilt signature header are modelled AS OBSERVED (constants and
   size expressions tied to the module source); relic's own part is the patch over [0, OriginalSignatureHeaderSize) and the verify report.
   rpm_embed_b f blob is relic's patch applied, for a blob that is a lead + signature header occupying it exactly and holding a signature tag. *)
(* C01 C08 — the laws *)
Theorem rpm_law_extract : forall f b g, rpm_embed_b f b = Ok g -> rpm_extract g = Ok (Some b).
Proof. exact FmtCAT.ProofsRpm.rpm_law_extract. Qed.
Theorem rpm_law_hashin : forall f b g, rpm_embed_b f b = Ok g -> rpm_hashin_all g = rpm_hashin_all f /\ rpm_hashin_hdr g = rpm_hashin_hdr f.
Proof. intros f b g H. split; [exact (FmtCAT.ProofsRpm.rpm_law_hashin_all f b g H)|exact (FmtCAT.ProofsRpm.rpm_law_hashin_hdr f b g H)]. Qed.
(* C03 — everything after lead + signature header (header structure and payload) is untouched; only the signature area differs *)
Theorem rpm_law_payload : forall f b g, rpm_embed_b f b = Ok g -> rpm_rest g = rpm_rest f.
Proof. exact FmtCAT.ProofsRpm.rpm_law_payload. Qed.
Theorem rpm_only_signature_header_differs : forall f b g, rpm_embed_b f b = Ok g ->
  exists n, rpm_sig_span f = Ok n /\ rpm_sig_span g = Ok (zlen b) /\ f = ztake n f ++ zdrop n f /\ g = b ++ zdrop n f.
Proof. exact FmtCAT.ProofsRpm.only_signature_header_differs. Qed.
(* C05 (rpm_header_digest_spec) — on every byte string the RPM format reader takes apart, what is handed to the PGP signer for the
   header-only signature (tag 268) is the header structure from its magic to the end of its store, and for the header+payload signature
   (tag 1002) the header followed by the payload; the model's signature area is the reader's lead + padded signature header *)
Theorem rpm_header_digest_spec : forall f p, all_bytes f = true -> spec_rpm_split f = Some p ->
  rpm_hashin_hdr f = Ok (rp_hdr p) /\ rpm_hashin_all f = Ok (rp_hdr p ++ rp_payload p) /\
  rpm_sig_span f = Ok (zlen (rp_lead p ++ rp_sig p)) /\ f = rp_lead p ++ rp_sig p ++ rp_hdr p ++ rp_payload p.
Proof. exact FmtCAT.ProofsRpm.header_digest_spec. Qed.
(* C02 — the header+payload preimage and the signature area determine the whole file *)
Theorem rpm_protect : forall g1 g2 p b, rpm_hashin_all g1 = Ok p -> rpm_hashin_all g2 = Ok p ->
  rpm_extract g1 = Ok (Some b) -> rpm_extract g2 = Ok (Some b) -> g1 = g2.
Proof. exact FmtCAT.ProofsRpm.protect. Qed.
(* C01 C11 — refusals; the spans, the patch and the probes never panic in the model (crashes inside go-rpmutils are C11's recorded findings) *)
Theorem rpm_refuses_clean : forall f b,
  (zlen f < 96 -> rpm_embed_b f b = Err E_RPM_SHORT \/ rpm_embed_b f b = Err E_RPM_BLOB) /\
  (96 <= zlen f -> rpmu_bad_lead_magic (be32 f 0) = true -> all_bytes b = true -> rpm_embed_b f b = Err E_RPM_MAGIC) /\
  (forall e, rpm_embed_b f b <> Panic e) /\ (forall e, rpm_extract f <> Panic e) /\ (forall e, rpm_hashin_all f <> Panic e) /\ (forall e, rpm_hashin_hdr f <> Panic e).
Proof. exact FmtCAT.ProofsRpm.refuses_clean. Qed.
(* C08 — is-signed *)
Theorem rpm_is_signed_spec : forall f b g n,
  (rpm_embed_b f b = Ok g -> rpm_extract g = Ok (Some b)) /\
  (rpm_sig_span f = Ok n -> rpm_nsigs f = 0 -> rpm_extract f = Ok None) /\
  (rpm_sig_span f = Ok n -> 0 < rpm_nsigs f -> rpm_extract f = Ok (Some (ztake n f))).
Proof. exact FmtCAT.ProofsRpm.is_signed_spec. Qed.

Section Crypto.
  Variables key pubk sigv : Type.
  Variable H : Z -> bytes -> bytes.
  Variable pub : key -> pubk.
  Variable sign : key -> bytes -> sigv.
  Variable vrfy : pubk -> bytes -> sigv -> bool.
  Hypothesis sign_correct : forall k m, vrfy (pub k) m (sign k m) = true.
  Variable tbs : Z -> bytes -> bytes.
  Variable ser : sigblob pubk sigv -> bytes.
  Variable deser : bytes -> option (sigblob pubk sigv).
  Hypothesis deser_ser : forall b, deser (ser b) = Some b.
  (* C01 (Laws.Pipeline.sign_then_verify instantiated) *)
  Theorem rpm_sign_then_verify : forall k a f g,
    sign_file key pubk sigv H pub sign tbs ser bytes rpm_format k a f = Ok g ->
    verify_file pubk sigv H vrfy tbs deser bytes rpm_format g = Accept pubk (pub k) a.
  Proof. exact (FmtCAT.ProofsRpm.sign_then_verify_rpm key pubk sigv H pub sign vrfy sign_correct tbs ser deser deser_ser). Qed.
  (* C08 (Laws.Pipeline.resign_history instantiated) *)
  Theorem rpm_resign_history : forall hist f g k a,
    resign key pubk sigv H pub sign tbs ser bytes rpm_format (hist ++ [(k, a)]) f = Ok g ->
    verify_file pubk sigv H vrfy tbs deser bytes rpm_format g = Accept pubk (pub k) a /\
    is_signed bytes rpm_format g = true /\ rpm_rest g = rpm_rest f /\ rpm_hashin_all g = rpm_hashin_all f.
  Proof. exact (FmtCAT.ProofsRpm.resign_history_rpm key pubk sigv H pub sign vrfy sign_correct tbs ser deser deser_ser). Qed.
End Crypto.

(* C11 — relic's own code around go-rpmutils: the verify report is total; nevra() never panics (fix 1e87259: the error of GetNEVRA is
   checked before the result is used; the former witness, a header without NAME tag, now yields the empty name) and is the printed name
   without its ".rpm" *)
Theorem rpm_verify_report_total : forall sigs nochain e, rpm_verify_report sigs nochain <> Panic e.
Proof. exact FmtCAT.ProofsRpm.verify_report_total. Qed.
Theorem rpm_nevra_no_panic : forall n, (forall e, rpm_nevra n <> Panic e) /\ rpm_nevra None = Ok [] /\ (forall p, rpm_nevra (Some p) = Ok p).
Proof. exact FmtCAT.ProofsRpm.nevra_spec. Qed.
(* C11 C01 — the server's /sign endpoint (fix 57ef5f6): a signature type whose module is missing or can only verify (pkcs7: Sign is nil) is
   refused with an error, the nil function is never called; every other module is served *)
Theorem srv_sign_dispatch_spec : forall module_exists can_sign,
  (forall e, srv_sign_dispatch module_exists can_sign <> Panic e) /\ srv_sign_dispatch module_exists can_sign = Ok (module_exists && can_sign).
Proof. exact FmtCAT.ProofsRpm.srv_dispatch_spec. Qed.
Example srv_pkcs7_refused : srv_sign_dispatch true (negb (pkcs_sign_fn =? 0)) = Ok false.
Proof. reflexivity. Qed.

(* ====================================================================================================================== non-vacuity *)
Definition ex_toy (S : signer) : crypto :=
  mkCrypto (fun _ => Some 5) (fun _ m => repeat 7 32) (fun _ _ _ _ _ => SigOk) (fun _ _ _ _ => SigOk)
           (fun _ => ([mkCert (sg_issuer S) (sg_serial S) 0], 0)) (fun _ => Err 0) (fun _ => 0).
Definition ex_signer : signer :=
  mkSigner 1 [48; 2; 49; 0] [9] [[48; 3; 2; 1; 5]] (mkAlg [96; 134; 72; 1; 101; 3; 4; 2; 1] [5; 0]) (mkAlg [42; 134; 72; 134; 247; 13; 1; 1; 1] [5; 0]) 5 true.
Definition ex_catalog : bytes :=
  enc_tlv 48 (enc_tlv 6 OID_sd ++ enc_tlv 160 (enc_tlv 48 (enc_tlv 2 [1] ++ enc_tlv 49 ex_alg ++
              enc_tlv 48 (enc_tlv 6 OID_ctl ++ enc_tlv 160 (enc_tlv 48 [4; 1; 7])) ++ enc_tlv 49 []))).
Example ex_signer_wf : signer_wf ex_signer.
Proof.
  unfold signer_wf, ex_signer. cbn [sg_issuer sg_serial sg_dalg sg_ealg sg_chain sg_samekey].
  assert (V : forall tag body, tag_ok tag -> zlen body < 100 -> all_bytes body = true -> valid (mkTlv tag body (enc_tlv tag body))).
  { intros. apply valid_enc; [assumption|unfold small; lia|assumption]. }
  split. { exists (mkTlv 48 [49; 0] [48; 2; 49; 0]). split; [apply (V 48 [49; 0]); [tagok|cbn; lia|reflexivity]|reflexivity]. }
  split; [reflexivity|]. split; [reflexivity|]. split; [unfold small; cbn; lia|].
  assert (W : forall o, oid_ok o = true -> all_bytes o = true -> zlen o < 100 -> wf_alg (mkAlg o [5; 0])).
  { intros o H1 H2 H3. unfold wf_alg. cbn [a_oid a_params]. split; [exact H1|]. split; [exact H2|]. split; [unfold small; lia|].
    right. exists (mkTlv 5 [] [5; 0]). split; [apply (V 5 []); [tagok|cbn; lia|reflexivity]|reflexivity]. }
  split; [apply W; [reflexivity|reflexivity|cbn; lia]|]. split; [apply W; [reflexivity|reflexivity|cbn; lia]|].
  split. { constructor; [|constructor]. exists (mkTlv 48 [2; 1; 5] [48; 3; 2; 1; 5]). split; [apply (V 48 [2; 1; 5]); [tagok|cbn; lia|reflexivity]|reflexivity]. }
  split; [discriminate|reflexivity].
Qed.
Example ex_cat_signs : match cat_sign (ex_toy ex_signer) (fun _ d => d) ex_signer ex_catalog with
                       | Ok y => zlen y < 2 ^ 31 /\ cat_hashin ex_catalog = Ok [4; 1; 7] /\ detect ex_catalog = Some magic_FileTypeCAT /\
                                 is_ok (cat_sign (ex_toy ex_signer) (fun _ d => d) ex_signer y) = true
                       | _ => False
                       end.
Proof. vm_compute. repeat split; congruence. Qed.
Example ex_pkcs_signs :
  is_ok (pkcs_sign (ex_toy ex_signer) (fun _ d => d) ex_signer [104; 105] false None) = true /\
  is_ok (pkcs_sign (ex_toy ex_signer) (fun _ d => d) ex_signer [104; 105] true None) = true.
Proof. vm_compute. split; reflexivity. Qed.
Example ex_cosign_signs :
  match cosign_sign (fun _ _ => repeat 171 32) (fun _ d => d) 1 5 [123; 125] true (nth 0 cosign_allowed_types []) with
  | Ok o => co_layer_size o = zlen (co_payload o) /\ spec_b64_dec (co_sig_b64 o) = Some (co_sig o)
  | _ => False
  end.
Proof. vm_compute. split; reflexivity. Qed.
(* a small RPM: lead, signature header with one (SHA1) tag, header without entries, three payload bytes; and a signed signature header *)
Definition ex_lead : bytes := [237; 171; 238; 219] ++ repeat 0 92.
Definition ex_hdr (tag typ cnt : Z) (store : bytes) : bytes :=
  [142; 173; 232; 1; 0; 0; 0; 0; 0; 0; 0; 1] ++ be_enc 4 (zlen store) ++ be_enc 4 tag ++ be_enc 4 typ ++ [0; 0; 0; 0] ++ be_enc 4 cnt ++ store.
Definition ex_rpm : bytes := ex_lead ++ ex_hdr 269 6 1 [97; 98; 0; 0; 0; 0; 0; 0] ++ [142; 173; 232; 1; 0; 0; 0; 0; 0; 0; 0; 0; 0; 0; 0; 0] ++ [1; 2; 3].
Definition ex_blob : bytes := ex_lead ++ ex_hdr 268 7 8 [1; 2; 3; 4; 5; 6; 7; 8].
Example ex_rpm_signs :
  rpm_embed_b ex_rpm ex_blob = Ok (ex_blob ++ [142; 173; 232; 1; 0; 0; 0; 0; 0; 0; 0; 0; 0; 0; 0; 0] ++ [1; 2; 3]) /\
  rpm_extract ex_rpm = Ok None /\ rpm_hashin_all ex_rpm = Ok ([142; 173; 232; 1; 0; 0; 0; 0; 0; 0; 0; 0; 0; 0; 0; 0] ++ [1; 2; 3]) /\
  option_map rp_payload (spec_rpm_split ex_rpm) = Some [1; 2; 3].
Proof. vm_compute. repeat split; reflexivity. Qed.
