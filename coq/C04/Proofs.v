(* C04/Proofs.v — proofs of the C04 property theorems (statements repeated in C04/Properties.v).
   All branch conditions come from Generated/C04_gen.v and are unfolded, never assumed. *)
From Relic Require Import Base.Prelude Generated.C04_gen C04.Model.

Ltac unfold_gen :=
  unfold getkey_missing, getkey_follow_alias, getkey_alias_dangling, getkey_alias_of_alias, getkey_needs_token,
         sign_denied, list_skip_hidden, list_include, getkey_view_allowed in *.

(* ------------------------------------------------------------------ get_key *)
Lemma get_key_spec : forall ks n rn kc,
  get_key ks n = Ok (rn, kc) <-> (resolve1 ks n = Some (rn, kc) /\ k_token kc <> 0).
Proof.
  intros ks n rn kc. unfold get_key, resolve1. unfold_gen. cbn [negb].
  destruct (lookup n ks) as [kc0|]; [|split; [discriminate | intros [H _]; discriminate]].
  destruct (k_alias kc0 =? 0) eqn:Ea; cbn [negb].
  - destruct (k_token kc0 =? 0) eqn:Et; split.
    + discriminate.
    + intros [H Hn]. inversion H; subst. apply Z.eqb_eq in Et. contradiction.
    + intros H. inversion H; subst. split; [reflexivity|]. apply Z.eqb_neq. assumption.
    + intros [H _]. inversion H; subst. reflexivity.
  - destruct (lookup (k_alias kc0) ks) as [kc1|]; [|split; [discriminate | intros [H _]; discriminate]].
    destruct (k_alias kc1 =? 0) eqn:Ea1; cbn [negb]; [|split; [discriminate | intros [H _]; discriminate]].
    destruct (k_token kc1 =? 0) eqn:Et; split.
    + discriminate.
    + intros [H Hn]. inversion H; subst. apply Z.eqb_eq in Et. contradiction.
    + intros H. inversion H; subst. split; [reflexivity|]. apply Z.eqb_neq. assumption.
    + intros [H _]. inversion H; subst. reflexivity.
Qed.

Lemma get_key_total : forall ks n, (exists e, get_key ks n = Err e) \/ (exists r, get_key ks n = Ok r).
Proof.
  intros ks n. unfold get_key. unfold_gen. cbn [negb].
  destruct (lookup n ks) as [kc0|]; [|left; eexists; reflexivity].
  destruct (k_alias kc0 =? 0); cbn [negb].
  - destruct (k_token kc0 =? 0); [left|right]; eexists; reflexivity.
  - destruct (lookup (k_alias kc0) ks) as [kc1|]; [|left; eexists; reflexivity].
    destruct (k_alias kc1 =? 0); cbn [negb]; [|left; eexists; reflexivity].
    destruct (k_token kc1 =? 0); [left|right]; eexists; reflexivity.
Qed.

Lemma get_key_no_panic : forall ks n e, get_key ks n <> Panic e.
Proof.
  intros ks n e H. destruct (get_key_total ks n) as [[x Hx]|[x Hx]]; congruence.
Qed.

(* ------------------------------------------------------------------ authentication *)
Lemma authenticate_cases : forall cls chain,
  (exists u, authenticate cls chain = Ok u) \/ authenticate cls chain = Err 401.
Proof.
  intros cls chain. unfold authenticate.
  destruct chain as [|c ?]; [right; reflexivity|].
  destruct (find_fp (ct_fp c) cls); [left; eexists; reflexivity|].
  destruct (if ct_ca c =? 0 then None else find_ca (ct_ca c) cls);
    [left; eexists; reflexivity | right; reflexivity].
Qed.

Lemma unauthenticated_401 : forall cf rq,
  (forall u, snd (identity cf rq) <> Ok u) -> snd (identity cf rq) = Err 401 /\ handle cf rq = Status 401.
Proof.
  intros cf rq H. unfold handle, dispatch.
  assert (E : snd (identity cf rq) = Err 401).
  { unfold identity in *. cbn [snd] in *.
    match goal with |- authenticate ?a ?b = _ => destruct (authenticate_cases a b) as [[u Hu]|He] end.
    - exfalso. apply (H u). exact Hu.
    - exact He. }
  rewrite E. split; reflexivity.
Qed.

(* ------------------------------------------------------------------ authorisation *)
Lemma dispatch_sound : forall cf u rq t k,
  dispatch cf (Ok u) rq = Touch t k ->
  exists rn kc, resolve1 (cf_keys cf) (rq_key rq) = Some (rn, kc) /\ allowed u rn kc = true /\
                t = k_token kc /\ t <> 0 /\ mem t (cf_tokens cf) = true /\
                (k = rq_key rq \/ k = rn).
Proof.
  intros cf u rq t k H. unfold dispatch in H.
  destruct (rq_ep rq); [| |discriminate|discriminate].
  - (* sign *)
    unfold serve_sign in H. unfold_gen.
    destruct (rq_key rq =? 0); [discriminate|].
    destruct (negb (rq_has_filename rq)); [discriminate|].
    destruct (get_key (cf_keys cf) (rq_key rq)) as [[rn kc]|e|e] eqn:G; [|discriminate|discriminate].
    apply get_key_spec in G. destruct G as [G Ht].
    destruct (allowed u rn kc) eqn:A; cbn [negb] in H; [|discriminate].
    destruct (negb (rq_sigtype_ok rq)); [discriminate|].
    destruct (negb (rq_digest_ok rq)); [discriminate|].
    destruct (negb (rq_flags_ok rq)); [discriminate|].
    destruct (mem (k_token kc) (cf_tokens cf)) eqn:M; cbn [negb] in H; [|discriminate].
    inversion H; subst. exists rn, kc. repeat split; auto.
  - (* getkey *)
    unfold serve_getkey in H. unfold_gen.
    destruct (get_key (cf_keys cf) (rq_key rq)) as [[rn kc]|e|e] eqn:G; [| |discriminate].
    + apply get_key_spec in G. destruct G as [G Ht].
      destruct (allowed u rn kc) eqn:A; cbn [andb] in H; [|discriminate].
      destruct (mem (k_token kc) (cf_tokens cf)) eqn:M; cbn [negb] in H; [|discriminate].
      injection H as Ht' Hk. exists rn, kc. subst t k. repeat split; auto.
    + cbn [andb] in H. discriminate.
Qed.

Lemma authz_sound : forall cf rq t k,
  handle cf rq = Touch t k ->
  exists u, snd (identity cf rq) = Ok u /\
  exists rn kc, resolve1 (cf_keys cf) (rq_key rq) = Some (rn, kc) /\ allowed u rn kc = true /\
                t = k_token kc /\ t <> 0 /\ mem t (cf_tokens cf) = true /\
                (k = rq_key rq \/ k = rn).
Proof.
  intros cf rq t k H. unfold handle in H.
  destruct (snd (identity cf rq)) as [u|e|e] eqn:I; [|discriminate|discriminate].
  exists u. split; [reflexivity|]. exact (dispatch_sound _ _ _ _ _ H).
Qed.

Lemma not_entitled_refused : forall cf rq u,
  snd (identity cf rq) = Ok u -> (rq_ep rq = EpSign \/ rq_ep rq = EpGetKey) ->
  ~ entitled (cf_keys cf) u (rq_key rq) ->
  handle cf rq = Status 403 \/ (rq_ep rq = EpSign /\ handle cf rq = Status 400 /\ (rq_key rq = 0 \/ rq_has_filename rq = false)).
Proof.
  intros cf rq u Hi Hep Hne. unfold handle, dispatch. rewrite Hi.
  assert (NA : forall rn kc, get_key (cf_keys cf) (rq_key rq) = Ok (rn, kc) -> allowed u rn kc = false).
  { intros rn kc G. apply get_key_spec in G. destruct G as [G Ht].
    destruct (allowed u rn kc) eqn:A; [|reflexivity].
    exfalso. apply Hne. exists rn, kc. auto. }
  destruct Hep as [Hep|Hep]; rewrite Hep.
  - unfold serve_sign. unfold_gen.
    destruct (rq_key rq =? 0) eqn:K0.
    { right. apply Z.eqb_eq in K0. auto. }
    destruct (rq_has_filename rq) eqn:F; cbn [negb].
    2:{ right. auto. }
    destruct (get_key (cf_keys cf) (rq_key rq)) as [[rn kc]|e|e] eqn:G.
    + rewrite (NA rn kc eq_refl). cbn [negb]. left. reflexivity.
    + left. reflexivity.
    + exfalso. exact (get_key_no_panic _ _ _ G).
  - unfold serve_getkey. unfold_gen.
    destruct (get_key (cf_keys cf) (rq_key rq)) as [[rn kc]|e|e] eqn:G.
    + rewrite (NA rn kc eq_refl). cbn [andb]. left. reflexivity.
    + cbn [andb]. left. reflexivity.
    + exfalso. exact (get_key_no_panic _ _ _ G).
Qed.

(* ------------------------------------------------------------------ listing *)
Lemma list_keys_exact : forall ks u n,
  In n (list_keys ks u) <->
  exists kc, In (n, kc) ks /\ k_hide kc = false /\
  exists rn kc', get_key ks n = Ok (rn, kc') /\ k_hide kc' = false /\ allowed u rn kc' = true.
Proof.
  intros ks u n. unfold list_keys. rewrite in_flat_map. unfold_gen. split.
  - intros [[m kc] [Hin H]].
    destruct (k_hide kc) eqn:Hh; [destruct H|].
    destruct (get_key ks m) as [[rn kc']|e|e] eqn:G; [|destruct H|destruct H].
    destruct (k_hide kc') eqn:Hh'; cbn [negb andb] in H; [destruct H|].
    destruct (allowed u rn kc') eqn:A; [|destruct H].
    destruct H as [H|[]]. subst m.
    exists kc. split; [exact Hin|]. split; [exact Hh|].
    exists rn, kc'. auto.
  - intros [kc [Hin [Hh [rn [kc' [G [Hh' A]]]]]]].
    exists (n, kc). split; [exact Hin|].
    rewrite Hh, G, Hh', A. cbn. left. reflexivity.
Qed.

(* ------------------------------------------------------------------ proxies *)
Lemma header_noninterference : forall cf rq hops' hdr',
  rq_peer_trusted rq = false ->
  let rq' := mkReq (rq_ep rq) (rq_key rq) (rq_has_filename rq) (rq_sigtype_ok rq) (rq_digest_ok rq) (rq_flags_ok rq)
                   (rq_peer rq) false hops' (rq_tls rq) hdr' in
  identity cf rq' = identity cf rq /\ handle cf rq' = handle cf rq /\ fst (fst (identity cf rq)) = rq_peer rq.
Proof.
  intros cf rq hops' hdr' Ht rq'.
  assert (I : identity cf rq' = identity cf rq).
  { unfold identity, real_ip, rq'. cbn [rq_peer rq_peer_trusted rq_hops rq_tls rq_hdr].
    rewrite Ht. cbn. reflexivity. }
  split; [exact I|]. split.
  - unfold handle, dispatch. rewrite I. unfold serve_sign, serve_getkey, rq'. reflexivity.
  - unfold identity, real_ip. rewrite Ht. reflexivity.
Qed.

Lemma rightmost_untrusted_some : forall hops a,
  rightmost_untrusted hops = Some a ->
  exists pre post, hops = pre ++ (a, false) :: post /\ forallb snd post = true.
Proof.
  induction hops as [|[h t] r IH]; intros a H; cbn in H; [discriminate|].
  destruct (rightmost_untrusted r) as [x|] eqn:R.
  - inversion H; subst. destruct (IH a eq_refl) as [pre [post [E F]]].
    exists ((h, t) :: pre), post. split; [rewrite E; reflexivity | exact F].
  - destruct t; [discriminate|]. inversion H; subst.
    exists [], r. split; [reflexivity|].
    clear -R. induction r as [|[h' t'] r IH]; [reflexivity|].
    cbn in R. destruct (rightmost_untrusted r); [discriminate|].
    destruct t'; [|discriminate]. cbn. apply IH. reflexivity.
Qed.

Lemma rightmost_untrusted_none : forall hops,
  rightmost_untrusted hops = None -> forallb snd hops = true.
Proof.
  induction hops as [|[h t] r IH]; intros H; [reflexivity|].
  cbn in H. destruct (rightmost_untrusted r); [discriminate|].
  destruct t; [|discriminate]. cbn. apply IH. reflexivity.
Qed.

Lemma trusted_hop_spec : forall peer hops a,
  fst (real_ip peer true hops) = a ->
  (exists pre post, hops = pre ++ (a, false) :: post /\ forallb snd post = true) \/
  (forallb snd hops = true /\ a = match hops with [] => peer | (h, _) :: _ => h end).
Proof.
  intros peer hops a H. unfold real_ip in H. cbn [negb] in H.
  destruct (rightmost_untrusted hops) as [x|] eqn:R.
  - cbn in H. subst x. left. apply rightmost_untrusted_some. exact R.
  - right. split; [apply rightmost_untrusted_none; exact R|].
    destruct hops as [|[h t] r]; cbn in H; auto.
Qed.

(* statement order of serveSign (generated call table): key resolution and the entitlement check precede
   signinit.Init (first token access), Sign, audit and the response *)
Lemma sign_order : sign_call_order = [0; 1; 2; 3; 4; 5; 6; 7; 8; 9].
Proof. reflexivity. Qed.
