(* C04/Names.v — key NAME resolution end to end: which configuration entry is AUTHORISED and which entry's private
   material / certificate is USED, on /sign, /keys/{key} and /list_keys.

   config.GetKey follows ONE alias.  The HTTP views call it once and check the roles of the entry it returns; then they
   hand a NAME to signinit.Init / InitKey, which hands it to the token object (through the wrappers of token/tokencache),
   and every token implementation calls config.GetKey AGAIN on the name it receives (token/filetoken, token/p11token,
   and — twice over — token/worker + the worker process).  Whether authorisation and use meet at the SAME entry depends
   on WHICH name each site passes on: the name it received, or Name() of the entry it resolved.  Each of those choices is
   a definition of Generated/C04_gen.v (terms of nexpr / cexpr, traced from the Go call arguments), evaluated here.

   Since relic 1867fd2 GetKey refuses an alias whose target is itself an alias (getkey_alias_of_alias), so the entry it
   returns never has an alias of its own and resolution is idempotent (C04/NamesProofs.v get_key_idempotent); every
   path below then ends at the checked entry whatever name each site passes on.  On a tree without the guard the
   generated definition is the constant false, this model stays faithful, and the idempotence theorems fail.

   Executable definitions only.  An entry is identified by its name in the `keys` map (KeyConfig.Name() is the map key:
   keyconf_name_is_field, normalize_names_keys_by_map_key).  Key material: every entry may have its own key file and its
   own certificate file, also when it carries an `alias:` (a "complete" entry in the middle of a chain). *)
From Relic Require Import Base.Prelude Generated.C04_gen C04.Model.

(* ------------------------------------------------------------------ evaluation of the generated expressions *)
Definition cres := result (Z * keyconf).
Fixpoint zassoc {A : Type} (k : Z) (l : list (Z * A)) : option A :=
  match l with
  | [] => None
  | (m, a) :: r => if m =? k then Some a else zassoc k r
  end.

Record env := mkEnv {
  e_req : Z;                   (* NReq *)
  e_mapkey : Z;                (* NMapKey *)
  e_mapval : cres;             (* CMapVal *)
  e_rpc : Z;                   (* NRpc *)
  e_np : list (Z * Z);         (* name parameters *)
  e_cp : list (Z * cres);      (* entry parameters *)
  e_field : cres;              (* CField *)
  e_keyconf : cres }.          (* CKeyConfig *)
Definition env0 : env := mkEnv 0 0 (Panic 97) 0 [] [] (Panic 97) (Panic 97).
Definition with_req (n : Z) : env := mkEnv n 0 (Panic 97) 0 [] [] (Panic 97) (Panic 97).
Definition with_mapkey (n : Z) (kc : keyconf) : env := mkEnv 0 n (Ok (n, kc)) 0 [] [] (Panic 97) (Panic 97).
Definition with_rpc (n : Z) : env := mkEnv 0 0 (Panic 97) n [] [] (Panic 97) (Panic 97).
Definition with_np (k n : Z) : env := mkEnv 0 0 (Panic 97) 0 [(k, n)] [] (Panic 97) (Panic 97).
Definition with_cp (k : Z) (c : cres) : env := mkEnv 0 0 (Panic 97) 0 [] [(k, c)] (Panic 97) (Panic 97).
Definition with_field (c : cres) : env := mkEnv 0 0 (Panic 97) 0 [] [] c (Panic 97).
Definition with_keyconf (c : cres) : env := mkEnv 0 0 (Panic 97) 0 [] [] (Panic 97) c.

(* 99: the translator did not recognise the Go expression; 98: parameter not bound; 96: token selector used as an entry *)
Fixpoint neval (ks : keys) (e : env) (x : nexpr) {struct x} : result Z :=
  match x with
  | NReq => Ok (e_req e)
  | NMapKey => Ok (e_mapkey e)
  | NRpc => Ok (e_rpc e)
  | NParam k => match zassoc k (e_np e) with Some n => Ok n | None => Panic 98 end
  | NNameOf c => match ceval ks e c with Ok (rn, _) => Ok rn | Err x => Err x | Panic x => Panic x end
  | NAliasOf c => match ceval ks e c with Ok (_, kc) => Ok (k_alias kc) | Err x => Err x | Panic x => Panic x end
  | NUnknown => Panic 99
  end
with ceval (ks : keys) (e : env) (c : cexpr) {struct c} : cres :=
  match c with
  | CGetKey n => match neval ks e n with Ok x => get_key ks x | Err x => Err x | Panic x => Panic x end
  | CRaw n => match neval ks e n with
              | Ok x => match lookup x ks with Some kc => Ok (x, kc) | None => Panic 95 end   (* nil entry dereferenced *)
              | Err x => Err x | Panic x => Panic x
              end
  | CMapVal => e_mapval e
  | CParam k => match zassoc k (e_cp e) with Some r => r | None => Panic 98 end
  | CTokParam _ => Panic 96
  | CField => e_field e
  | CKeyConfig => e_keyconf e
  | CUnknown => Panic 99
  end.

(* ------------------------------------------------------------------ key material *)
(* m_key: the key pair in the entry's key file / token object (0 = no KeyFile setting); m_cert: the key pair certified by
   the entry's certificate file (0 = no x509certificate setting); m_tokcert: the key pair certified by a certificate that
   the token stores WITH the key (PKCS#12 bundle of a file token, certificate object of an HSM; 0 = none) *)
Record mat := mkM { m_key : Z; m_cert : Z; m_tokcert : Z }.
Definition mats := list (Z * mat).
Definition mat_of (ms : mats) (n : Z) : mat := match zassoc n ms with Some m => m | None => mkM 0 0 0 end.

(* n_worker: tokens the server opens through token/worker (open_worker_types: type pkcs11, which is also the type of a
   token that names none: default_token_type) *)
Record ncfg := mkN { n_base : config; n_mats : mats; n_worker : list Z }.

(* ------------------------------------------------------------------ token objects *)
(* what token.GetKey returns: tk_entry / tk_priv: the entry whose key file was loaded and its key pair (Sign uses its
   private half); tk_pub: the pair Public() reports; tk_conf: Config(); tk_cert: pair certified by a certificate the token
   itself supplies (0 = none) *)
Record tkey := mkTK { tk_entry : Z; tk_priv : Z; tk_pub : Z; tk_conf : cres; tk_cert : Z }.
Definition E_NOKEYFILE := 4. Definition E_MISMATCH := 5. Definition E_NOCERT := 6.
Definition token_fn := Z -> result tkey.

(* token/filetoken GetKey (p11token.GetKey handles the name identically: p11_resolve_name, p11_material_conf) *)
Definition file_getkey (ks : keys) (ms : mats) : token_fn := fun name =>
  let e := with_np 1 name in
  bind (ceval ks e file_material_conf) (fun me =>
    let pair := m_key (mat_of ms (fst me)) in
    if pair =? 0 then Err E_NOKEYFILE
    else Ok (mkTK (fst me) pair pair (ceval ks e file_key_conf) (m_tokcert (mat_of ms (fst me))))).

(* a wrapper of token/tokencache: passes a name on to the token it wraps.  (Cache additionally remembers the key object
   under the index cache_index_names; the configuration never changes while the server runs, so a remembered key is the
   key a fresh look-up of the SAME name returns: C15 covers expiry and pinned ids.) *)
Definition wrap (ks : keys) (inner_name : nexpr) (tok : token_fn) : token_fn := fun name =>
  bind (neval ks (with_np 1 name) inner_name) tok.
Fixpoint wraps (ks : keys) (ws : list nexpr) (tok : token_fn) : token_fn :=
  match ws with
  | [] => tok
  | w :: r => wrap ks w (wraps ks r tok)
  end.
Definition layer_of (code : Z) : option nexpr :=
  if code =? 1 then Some metrics_inner_name
  else if code =? 2 then Some limiter_inner_name
  else if code =? 3 then Some cache_inner_name
  else if code =? 0 then None           (* the opened token itself *)
  else Some NUnknown.
Fixpoint layers_of (l : list Z) : list nexpr :=
  match l with
  | [] => []
  | s :: r => match layer_of s with Some w => w :: layers_of r | None => layers_of r end
  end.
(* outermost wrapper first *)
Definition server_stack : list nexpr := rev (layers_of open_default_stack).
Definition worker_stack : list nexpr := rev (layers_of worker_process_stack).

Definition direct_getkey (ks : keys) (ms : mats) : token_fn := wraps ks server_stack (file_getkey ks ms).

(* token/worker: the client resolves the name, sends an RPC name to the worker process, whose handler hands the RPC name to
   its own (wrapped) token.  Public key and certificate come from the GetKey RPC, the signature from the Sign RPC. *)
Definition worker_backing (ks : keys) (ms : mats) : token_fn := wraps ks worker_stack (file_getkey ks ms).
Definition worker_getkey (ks : keys) (ms : mats) : token_fn := fun name =>
  let e := with_np 1 name in
  bind (ceval ks e wk_key_conf) (fun kc =>
  bind (neval ks e wk_rpc_name) (fun rn =>
  bind (neval ks (with_rpc rn) wh_getkey_name) (fun n1 =>
  bind (worker_backing ks ms n1) (fun k1 =>
  let ef := with_field (Ok kc) in
  bind (neval ks ef wk_sign_name) (fun sn =>
  bind (neval ks (with_rpc sn) wh_sign_name) (fun n2 =>
  bind (worker_backing ks ms n2) (fun k2 =>
  Ok (mkTK (tk_entry k2) (tk_priv k2) (tk_pub k1) (ceval ks ef wk_config_conf) (tk_cert k1))))))))).

Definition token_getkey (nc : ncfg) (t : Z) : token_fn :=
  if mem t (n_worker nc) then worker_getkey (cf_keys (n_base nc)) (n_mats nc)
  else direct_getkey (cf_keys (n_base nc)) (n_mats nc).

(* ------------------------------------------------------------------ signinit *)
(* InitKey: key object, the entry it reports, the entry whose certificate file is loaded (or the token's own
   certificate), and the check that the certificate belongs to the key (certloader.LoadTokenCertificates) *)
Record loaded := mkL { l_key : tkey; l_conf : cres; l_cert_entry : Z; l_cert : Z }.
Definition init_key (ks : keys) (ms : mats) (tok : token_fn) (name : Z) : result loaded :=
  bind (neval ks (with_np 2 name) initkey_getkey_name) (fun n =>
  bind (tok n) (fun k =>
  let ek := with_keyconf (tk_conf k) in
  bind (ceval ks ek initkey_x509_conf) (fun xc =>
  let filecert := m_cert (mat_of ms (fst xc)) in
  let cert := if filecert =? 0 then tk_cert k else filecert in
  let cert_entry := if filecert =? 0 then tk_entry k else fst xc in
  if cert =? 0 then Ok (mkL k (ceval ks ek initkey_returned_conf) 0 0)
  else if cert =? tk_pub k then Ok (mkL k (ceval ks ek initkey_returned_conf) cert_entry cert)
  else Err E_MISMATCH))).
(* Init for a signature type that needs an X.509 certificate *)
Definition init_sign (ks : keys) (ms : mats) (tok : token_fn) (name : Z) : result loaded :=
  bind (neval ks (with_np 3 name) init_initkey_name) (fun n =>
  bind (init_key ks ms tok n) (fun l => if l_cert l =? 0 then Err E_NOCERT else Ok l)).

(* ------------------------------------------------------------------ effects *)
Inductive fin :=
| FErr (e : Z)                      (* the request fails after the token was asked (HTTP 500) *)
| FSigned (entry pair cert audit : Z)  (* signature made with the private key of `entry` (key pair `pair`), certificate of
                                          pair `cert` attached, audit record names `audit` *)
| FDisclosed (entry cert : Z).      (* certificate of `entry` (certifying pair `cert`) returned; entry 0 = nothing *)
Inductive eff :=
| EStatus (code : Z)
| ETouch (token : Z) (passed : Z) (f : fin)
| EListing (names : list Z).
Definition erase (e : eff) : outcome :=
  match e with
  | EStatus c => Status c
  | ETouch t p _ => Touch t p
  | EListing l => Listing l
  end.

Definition sign_fin (nc : ncfg) (t : Z) (name : Z) : fin :=
  match init_sign (cf_keys (n_base nc)) (n_mats nc) (token_getkey nc t) name with
  | Ok l => FSigned (tk_entry (l_key l)) (tk_priv (l_key l)) (l_cert l)
                    (match l_conf l with Ok (an, _) => an | _ => 0 end)
  | Err e => FErr e
  | Panic e => FErr (1000 + e)
  end.
Definition info_fin (nc : ncfg) (t : Z) (name : Z) : fin :=
  match init_key (cf_keys (n_base nc)) (n_mats nc) (token_getkey nc t) name with
  | Ok l => FDisclosed (l_cert_entry l) (l_cert l)
  | Err e => FErr e
  | Panic e => FErr (1000 + e)
  end.

(* ------------------------------------------------------------------ the views, assembled from the generated sites *)
Definition serve_sign_e (nc : ncfg) (u : user) (rq : request) : eff :=
  let cf := n_base nc in let ks := cf_keys cf in
  let e := with_req (rq_key rq) in
  if rq_key rq =? 0 then EStatus 400 else
  if negb (rq_has_filename rq) then EStatus 400 else
  match ceval ks e (CGetKey sign_getkey_arg) with
  | Ok _ =>
      match ceval ks e sign_allowed_conf with
      | Ok (an, akc) =>
          if sign_denied (allowed u an akc) then EStatus 403 else
          if negb (rq_sigtype_ok rq) then EStatus 400 else
          if negb (rq_digest_ok rq) then EStatus 400 else
          if negb (rq_flags_ok rq) then EStatus 400 else
          match ceval ks e sign_init_token, neval ks e sign_init_name with
          | Ok (_, tkc), Ok nm =>
              if negb (mem (k_token tkc) (cf_tokens cf)) then EStatus 500
              else ETouch (k_token tkc) nm (sign_fin nc (k_token tkc) nm)
          | _, _ => EStatus 500
          end
      | _ => EStatus 500
      end
  | Err _ => EStatus 403
  | Panic _ => EStatus 500
  end.

(* serveGetKey + getKeyInfo (parameter 1 of getKeyInfo is the entry the view passes) *)
Definition serve_getkey_e (nc : ncfg) (u : user) (rq : request) : eff :=
  let cf := n_base nc in let ks := cf_keys cf in
  let e := with_req (rq_key rq) in
  match ceval ks e (CGetKey view_getkey_arg) with
  | Ok _ =>
      match ceval ks e view_allowed_conf with
      | Ok (an, akc) =>
          if getkey_view_allowed true (allowed u an akc) then
            let ei := with_cp 1 (ceval ks e view_info_conf) in
            match ceval ks ei info_init_token, neval ks ei info_init_name with
            | Ok (_, tkc), Ok nm =>
                if negb (mem (k_token tkc) (cf_tokens cf)) then EStatus 500
                else ETouch (k_token tkc) nm (info_fin nc (k_token tkc) nm)
            | _, _ => EStatus 500
            end
          else EStatus 403
      | _ => EStatus 500
      end
  | Err _ => if getkey_view_allowed false true then EStatus 500 else EStatus 403
  | Panic _ => EStatus 500
  end.

Definition list_keys_e (ks : keys) (u : user) : list Z :=
  flat_map (fun en : Z * keyconf =>
    let e := with_mapkey (fst en) (snd en) in
    match ceval ks e list_skip_conf with
    | Ok (_, skc) =>
        if list_skip_hidden (k_hide skc) then [] else
        match ceval ks e (CGetKey list_getkey_arg) with
        | Ok _ =>
            match ceval ks e list_allowed_conf, neval ks e list_appended_name with
            | Ok (an, akc), Ok nm => if list_include (k_hide akc) (allowed u an akc) then [nm] else []
            | _, _ => []
            end
        | _ => []
        end
    | _ => []
    end) ks.

Definition dispatch_e (nc : ncfg) (ru : result user) (rq : request) : eff :=
  match ru with
  | Err c => EStatus c
  | Panic _ => EStatus 500
  | Ok u =>
      match rq_ep rq with
      | EpSign => serve_sign_e nc u rq
      | EpGetKey => serve_getkey_e nc u rq
      | EpList => EListing (list_keys_e (cf_keys (n_base nc)) u)
      | EpHome => EStatus 200
      end
  end.
Definition handle_e (nc : ncfg) (rq : request) : eff :=
  dispatch_e nc (snd (identity (n_base nc) rq)) rq.

(* ------------------------------------------------------------------ SPECIFICATION (from the property text)
   "the key the requested name resolves to (following one alias)": the entry itself, or, if it has an alias, the entry
   that the alias names — one step.  An alias that names nothing, or names another alias, is a malformed entry and denotes
   no key ("a malformed configuration entry yields an error").  A caller is entitled to an entry when the entry names
   a token and shares a role with the caller (or a policy decision lists the entry). *)
Definition spec_denotes (ks : keys) (n : Z) : option Z :=
  match lookup n ks with
  | None => None
  | Some kc => if k_alias kc =? 0 then Some n
               else match lookup (k_alias kc) ks with
                    | Some target => if k_alias target =? 0 then Some (k_alias kc) else None
                    | None => None
                    end
  end.
Definition spec_entitled (ks : keys) (u : user) (m : Z) : bool :=
  match lookup m ks with
  | Some kc => negb (k_token kc =? 0) && allowed u m kc
  | None => false
  end.
(* the entry `m` may serve a request of caller u for the name n *)
Definition spec_may_use (ks : keys) (u : user) (n m : Z) : bool :=
  match spec_denotes ks n with
  | Some d => (d =? m) && spec_entitled ks u m
  | None => false
  end.

(* ------------------------------------------------------------------ re-resolution in general
   A pipeline of components each of which resolves the name it receives with config.GetKey and passes on either that
   same name (false) or Name() of the entry it found (true); the last component uses the entry it resolves. *)
Fixpoint relayers (ks : keys) (fs : list bool) (n : Z) : cres :=
  match fs with
  | [] => get_key ks n
  | f :: r => match get_key ks n with
              | Ok (rn, _) => relayers ks r (if f then rn else n)
              | Err e => Err e
              | Panic e => Panic e
              end
  end.
(* k-fold resolution *)
Fixpoint resolve_times (ks : keys) (k : nat) (n : Z) : cres :=
  match k with
  | O => Panic 0
  | S O => get_key ks n
  | S k' => match get_key ks n with Ok (rn, _) => resolve_times ks k' rn | Err e => Err e | Panic e => Panic e end
  end.
(* resolving the name again finds the same entry: the entry has no alias of its own (or names itself) *)
Definition terminal_at (ks : keys) (n : Z) : Prop :=
  forall rn kc, get_key ks n = Ok (rn, kc) -> k_alias kc = 0 \/ k_alias kc = rn.
Definition fwd_of (x : nexpr) : option bool :=
  match x with
  | NParam _ | NReq | NRpc | NMapKey => Some false
  | NNameOf (CGetKey (NParam _)) | NNameOf (CGetKey NReq) | NNameOf (CParam _) | NNameOf CField => Some true
  | _ => None
  end.
