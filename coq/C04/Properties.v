(* C04/Properties.v — property theorems only; each closed by a lemma of C04/Proofs.v. *)
From Relic Require Import Base.Prelude Generated.C04_gen C04.Model C04.Proofs C04.History C04.HistoryProofs C04.Names C04.NamesProofs.
Require Coq.Strings.String.
Import Coq.Strings.String.StringSyntax.
Delimit Scope string_scope with string.

(* a token is touched only for a recognised caller entitled to the key the name resolves to (one alias hop),
   and the token touched is that key's token *)
Theorem authz_sound : forall cf rq t k,
  handle cf rq = Touch t k ->
  exists u, snd (identity cf rq) = Ok u /\
  exists rn kc, resolve1 (cf_keys cf) (rq_key rq) = Some (rn, kc) /\ allowed u rn kc = true /\
                t = k_token kc /\ t <> 0 /\ mem t (cf_tokens cf) = true /\
                (k = rq_key rq \/ k = rn).
Proof. exact C04.Proofs.authz_sound. Qed.

(* every other signing / key-info request is refused: unauthenticated -> 401; authenticated but not entitled -> 403
   (or 400 for a missing parameter) — never a token call *)
Theorem unauthenticated_401 : forall cf rq,
  (forall u, snd (identity cf rq) <> Ok u) -> snd (identity cf rq) = Err 401 /\ handle cf rq = Status 401.
Proof. exact C04.Proofs.unauthenticated_401. Qed.
Theorem not_entitled_refused : forall cf rq u,
  snd (identity cf rq) = Ok u -> (rq_ep rq = EpSign \/ rq_ep rq = EpGetKey) ->
  ~ entitled (cf_keys cf) u (rq_key rq) ->
  handle cf rq = Status 403 \/ (rq_ep rq = EpSign /\ handle cf rq = Status 400 /\ (rq_key rq = 0 \/ rq_has_filename rq = false)).
Proof. exact C04.Proofs.not_entitled_refused. Qed.

(* ... and in the source, key resolution and the entitlement check come before the first token access *)
Theorem authz_precedes_token : sign_call_order = [0; 1; 2; 3; 4; 5; 6; 7; 8; 9].
Proof. exact C04.Proofs.sign_order. Qed.

(* malformed configuration entries (unknown name, dangling alias, entry without token) yield an error, not a panic *)
Theorem get_key_total : forall ks n, (exists e, get_key ks n = Err e) \/ (exists r, get_key ks n = Ok r).
Proof. exact C04.Proofs.get_key_total. Qed.
Theorem get_key_spec : forall ks n rn kc,
  get_key ks n = Ok (rn, kc) <-> (resolve1 ks n = Some (rn, kc) /\ k_token kc <> 0).
Proof. exact C04.Proofs.get_key_spec. Qed.

(* listings contain exactly the non-hidden names the caller could sign with *)
Theorem list_keys_exact : forall ks u n,
  In n (list_keys ks u) <->
  exists kc, In (n, kc) ks /\ k_hide kc = false /\
  exists rn kc', get_key ks n = Ok (rn, kc') /\ k_hide kc' = false /\ allowed u rn kc' = true.
Proof. exact C04.Proofs.list_keys_exact. Qed.

(* headers from peers that are not trusted proxies never influence identity or recorded address *)
Theorem header_noninterference : forall cf rq hops' hdr',
  rq_peer_trusted rq = false ->
  let rq' := mkReq (rq_ep rq) (rq_key rq) (rq_has_filename rq) (rq_sigtype_ok rq) (rq_digest_ok rq) (rq_flags_ok rq)
                   (rq_peer rq) false hops' (rq_tls rq) hdr' in
  identity cf rq' = identity cf rq /\ handle cf rq' = handle cf rq /\ fst (fst (identity cf rq)) = rq_peer rq.
Proof. exact C04.Proofs.header_noninterference. Qed.

(* behind trusted proxies the recorded address is the rightmost untrusted hop *)
Theorem trusted_hop_spec : forall peer hops a,
  fst (real_ip peer true hops) = a ->
  (exists pre post, hops = pre ++ (a, false) :: post /\ forallb snd post = true) \/
  (forallb snd hops = true /\ a = match hops with [] => peer | (h, _) :: _ => h end).
Proof. exact C04.Proofs.trusted_hop_spec. Qed.

Example alias_and_roles :
  let ks := [(1, mkK 7 0 [10] false); (2, mkK 0 1 [] false); (3, mkK 0 9 [] false); (4, mkK 0 0 [10] false)] in
  let cf := mkCfg ks [mkCl 100 0 [10]; mkCl 0 5 [11]] [7] in
  let rq n tls := mkReq EpSign n true true true true 50 false [] tls [] in
  handle cf (rq 2 [mkCert 100 0]) = Touch 7 2 /\ handle cf (rq 2 [mkCert 101 5]) = Status 403 /\
  handle cf (rq 3 [mkCert 100 0]) = Status 403 /\ handle cf (rq 4 [mkCert 100 0]) = Status 403 /\
  handle cf (rq 1 [mkCert 102 0]) = Status 401 /\ list_keys ks (UCert [10]) = [1; 2].
Proof. vm_compute. repeat split. Qed.

(* ==================================================================== request histories on one long-lived server *)

(* every request's outcome (status / token touched / listing, and the identity the authenticator reports) equals the
   outcome the same request has on a FRESH server — for every configuration, every starting state and every sequence *)
Theorem history_independent : forall cf rqs st,
  hrun cf st rqs = map (fun rq => fst (hstep cf fresh rq)) rqs.
Proof. exact C04.HistoryProofs.history_independent. Qed.

(* ... because Authenticate reads no state that outlives a request (holds for ANY action table and ANY writes) *)
Theorem authenticate_reads_no_history : forall stores action cls st st' now chain,
  fst (hauth_g [] stores action cls st now chain) = fst (hauth_g [] stores action cls st' now chain).
Proof. exact C04.HistoryProofs.hauth_g_stateless. Qed.
Theorem authenticate_keeps_no_history : forall cls st now chain, snd (hauth cls st now chain) = st.
Proof. exact C04.HistoryProofs.hauth_state_unchanged. Qed.

(* Authenticate = the specification of "recognised": Ok with the roles of an entry that is keyed by the certificate's
   public key or whose CA pool verifies the presented chain now for client authentication; otherwise 401 *)
Theorem authenticate_spec : forall cls st now chain,
  match fst (hauth cls st now chain) with
  | Ok i => exists cl, In cl cls /\ spec_recognises cl now chain = true /\ id_roles i = xc_roles cl /\ id_name i = xc_nick cl
  | Err e => e = 401 /\ forall cl, In cl cls -> spec_recognises cl now chain = false
  | Panic _ => False
  end.
Proof. exact C04.HistoryProofs.hauth_result. Qed.
Theorem authenticate_complete : forall cls st now chain cl,
  In cl cls -> spec_recognises cl now chain = true -> exists i, fst (hauth cls st now chain) = Ok i.
Proof. exact C04.HistoryProofs.hauth_complete. Qed.
Theorem match_is_path_validation : forall roots now leaf inter,
  fst (match_model roots now (leaf :: inter)) =
  (match roots with [] => false | _ => true end && verify_spec roots inter now [EKU_CLIENT] leaf).
Proof. exact C04.HistoryProofs.match_model_spec. Qed.

(* whatever the server has seen before, a certificate that nobody recognises at the time of the request gets 401 *)
Theorem history_unrecognised_refused : forall cf rqs st i rq,
  nth_error rqs i = Some rq ->
  (forall cl, In cl (hc_clients cf) -> spec_recognises cl (h_now rq) (h_chain rq) = false) ->
  exists r, nth_error (hrun cf st rqs) i = Some (Status 401, r).
Proof. exact C04.HistoryProofs.history_unrecognised_refused. Qed.

(* every response of every history satisfies the per-request specification *)
Theorem history_spec : forall cf rqs st i rq,
  nth_error rqs i = Some rq ->
  exists o r, nth_error (hrun cf st rqs) i = Some (o, r) /\ spec_response cf rq o.
Proof. exact C04.HistoryProofs.history_spec. Qed.

(* a token is touched in a history only for a caller recognised at that moment and entitled to the resolved key *)
Theorem history_authz_sound : forall cf rqs st i t k r,
  nth_error (hrun cf st rqs) i = Some (Touch t k, r) ->
  exists rq cl, nth_error rqs i = Some rq /\ In cl (hc_clients cf) /\
    spec_recognises cl (h_now rq) (h_chain rq) = true /\
    exists rn kc, resolve1 (cf_keys (hc_base cf)) (rq_key (h_base rq)) = Some (rn, kc) /\
                  allowed (UCert (xc_roles cl)) rn kc = true /\
                  t = k_token kc /\ t <> 0 /\ mem t (cf_tokens (hc_base cf)) = true /\
                  (k = rq_key (h_base rq) \/ k = rn).
Proof. exact C04.HistoryProofs.history_authz_sound. Qed.

(* the mutable state reachable from request handling in the anchored packages is exactly the reviewed list, the
   authenticator mentions no receiver field but its configuration, it neither reads nor writes remembered verdicts *)
Theorem state_inventory_reviewed :
  c04_package_vars = reviewed_package_vars /\ c04_state_fields = reviewed_state_fields /\
  c04_state_writes = reviewed_state_writes /\ auth_receiver_fields = reviewed_receiver_fields.
Proof. exact C04.HistoryProofs.inventory_reviewed. Qed.
Theorem authenticator_has_no_memory : auth_memo_loads = [] /\ auth_memo_stores = [].
Proof. exact (conj C04.HistoryProofs.gen_no_memo_loads C04.HistoryProofs.gen_no_memo_stores). Qed.
Theorem client_loop_takes_exactly_matches : forall m e,
  bit (auth_loop_action m e) 1 = m /\ bit (auth_loop_action m e) 2 = m /\ bit (auth_loop_action m e) 8 = m /\
  bit (auth_loop_action m e) 16 = false /\ bit (auth_loop_action m e) 32 = false.
Proof. exact C04.HistoryProofs.gen_loop_action. Qed.
(* Authenticate: certificate-required refusal, lookup by fingerprint, then the client loop asking every entry about the
   whole presented chain, then the refusal, then the user — in this order, with nothing else in the loop *)
Theorem authenticate_stage_order : auth_match_arg = 1 /\ auth_loop_extra_stmts = 0 /\ auth_leaf_index = 0 /\ auth_first_lookup_key = 1 /\
  auth_stage_order = [6; 0; 1; 2; 3; 5].
Proof. exact C04.HistoryProofs.gen_loop_shape. Qed.
Theorem fingerprint_is_public_key_digest : forall c, fingerprint c = x_key c /\ fp_hash = 256 /\ fp_encoding = 1.
Proof. exact C04.HistoryProofs.gen_fingerprint_is_key. Qed.
(* every key-bearing route sits behind the authentication middleware, which ends the request when Authenticate fails *)
Theorem routes_behind_authentication :
  handler_routes = reviewed_routes /\ handler_middleware = reviewed_middleware /\
  mw_call_order = [0; 1; 2; 3] /\ mw_first_is_authenticate = true /\ mw_err_returns = true.
Proof. exact C04.HistoryProofs.routes_reviewed. Qed.

(* non-vacuity: a history in which a CA-issued certificate is served and the same public key under a self-signed and
   under an expired certificate is refused before AND after it; and the remembered-by-public-key authenticator, run
   through the same definitions, serves both after the valid request (so the theorems above do exclude something) *)
Example history_same_key_other_certificates :
  map fst (hrun ex_cf fresh [ex_rq ex_selfsigned; ex_rq ex_good; ex_rq ex_selfsigned; ex_rq ex_expired])
  = [Status 401; Touch 7 1; Status 401; Status 401].
Proof. exact C04.HistoryProofs.real_authenticator_on_the_same_history. Qed.
Example remembering_by_public_key_is_refuted :
  map fst (hrun_g [1] [1] memo_action ex_cf fresh [ex_rq ex_selfsigned; ex_rq ex_good; ex_rq ex_selfsigned; ex_rq ex_expired])
  = [Status 401; Touch 7 1; Touch 7 1; Touch 7 1].
Proof. exact C04.HistoryProofs.memo_by_public_key_refuted. Qed.
Example recognition_is_satisfiable :
  spec_recognises (mkXC 900 [50] [10] 5) 1000 [ex_good] = true /\ spec_recognises (mkXC 900 [50] [10] 5) 1000 [ex_selfsigned] = false /\
  spec_recognises (mkXC 900 [50] [10] 5) 1000 [ex_expired] = false /\ spec_recognises (mkXC 77 [] [10] 5) 1000 [ex_selfsigned] = true /\
  (* through an intermediate presented by the peer, and not without it *)
  spec_recognises (mkXC 900 [50] [10] 5) 1000 [mkX 105 78 1 60 0 2000 [] false; mkX 60 61 2 50 0 2000 [] true] = true /\
  spec_recognises (mkXC 900 [50] [10] 5) 1000 [mkX 105 78 1 60 0 2000 [] false] = false.
Proof. vm_compute. repeat split. Qed.

(* ==================================================================== key names end to end: authorised entry = used entry *)

(* the views assembled from the generated call sites (which name / which entry every call passes on) behave exactly like
   the single-request model above: same status, same token, same name handed to the token, same listing *)
Theorem views_refine_model : forall nc rq, erase (handle_e nc rq) = handle (n_base nc) rq.
Proof. exact C04.NamesProofs.handle_e_refines. Qed.

(* RESOLUTION IS IDEMPOTENT, for ALL alias graphs (chains of any length through complete entries, cycles, self-aliases,
   dangling links): the entry GetKey returns carries no alias of its own, and looking its name up again finds it again *)
Theorem resolved_entry_has_no_alias : forall ks n rn kc, get_key ks n = Ok (rn, kc) -> k_alias kc = 0.
Proof. exact C04.NamesProofs.resolved_entry_has_no_alias. Qed.
Theorem get_key_idempotent : forall ks n rn kc, get_key ks n = Ok (rn, kc) -> get_key ks rn = Ok (rn, kc).
Proof. exact C04.NamesProofs.get_key_idempotent. Qed.
(* ... so ANY pipeline of components that each resolve the name they are given — of any length, whatever each passes on
   (the name it received or Name() of the entry it found) — ends at the entry the first resolution found *)
Theorem pipeline_idempotent : forall ks fs n, relayers ks fs n = get_key ks n.
Proof. exact C04.NamesProofs.relayers_idempotent. Qed.
Theorem resolve_times_idempotent : forall ks k n, (1 <= k)%nat -> resolve_times ks k n = get_key ks n.
Proof. exact C04.NamesProofs.resolve_times_idempotent. Qed.
(* in a chain of complete entries of any length, entry 2 denotes entry 1 and every name further up is a configuration error *)
Theorem chain_of_any_length_refused : forall len i, (3 <= i <= S len)%nat ->
  get_key (chain_keys len) (Z.of_nat i) = Err E_ALIAS_OF_ALIAS.
Proof. exact C04.NamesProofs.chain_refused. Qed.
Theorem chain_second_denotes_first : forall len, (1 <= len)%nat ->
  get_key (chain_keys len) (Z.of_nat 2) = Ok (Z.of_nat 1, mkK 7 0 [1] false).
Proof. exact C04.NamesProofs.chain_second. Qed.

(* AUTHORISATION AND USE MEET AT THE SAME ENTRY on every path that re-resolves by name — ALL configurations, ALL requests.
   /sign, tokens the server opens itself (handler -> Init -> InitKey -> Cache -> Limiter -> Metrics -> file token): the entry
   whose private key makes the signature is the entry the requested name resolves to following one alias, its roles were
   checked against the caller, the token is that entry's token, certificate and audit record are that entry's *)
Theorem sign_uses_checked_entry : forall nc rq t p m pr cp au,
  handle_e nc rq = ETouch t p (FSigned m pr cp au) -> mem t (n_worker nc) = false ->
  exists u, snd (identity (n_base nc) rq) = Ok u /\
  exists kc, resolve1 (cf_keys (n_base nc)) (rq_key rq) = Some (m, kc) /\ allowed u m kc = true /\
             t = k_token kc /\ t <> 0 /\ mem t (cf_tokens (n_base nc)) = true /\
             pr = m_key (mat_of (n_mats nc) m) /\ pr <> 0 /\ cp = pr /\ au = m.
Proof. exact C04.NamesProofs.sign_uses_checked_entry. Qed.
(* ... in the words of the specification: the entry is the one the name denotes, and its own roles admit the caller *)
Theorem sign_within_roles : forall nc rq t p m pr cp au,
  handle_e nc rq = ETouch t p (FSigned m pr cp au) -> mem t (n_worker nc) = false ->
  exists u, snd (identity (n_base nc) rq) = Ok u /\
            spec_may_use (cf_keys (n_base nc)) u (rq_key rq) m = true /\ spec_entitled (cf_keys (n_base nc)) u m = true.
Proof. exact C04.NamesProofs.sign_within_roles. Qed.
(* /sign, token behind token/worker (type pkcs11): handler -> worker client (resolves, sends Name()) -> worker process
   (resolves again, for the public key and for every signature) *)
Theorem sign_worker_checked_entry : forall nc rq t p m pr cp au,
  handle_e nc rq = ETouch t p (FSigned m pr cp au) -> mem t (n_worker nc) = true ->
  exists u, snd (identity (n_base nc) rq) = Ok u /\
  exists kc, resolve1 (cf_keys (n_base nc)) (rq_key rq) = Some (m, kc) /\ allowed u m kc = true /\ t = k_token kc /\ au = m /\
             pr = m_key (mat_of (n_mats nc) m) /\ pr <> 0 /\
             spec_may_use (cf_keys (n_base nc)) u (rq_key rq) m = true /\ spec_entitled (cf_keys (n_base nc)) u m = true.
Proof. exact C04.NamesProofs.sign_worker_checked_entry. Qed.
(* /keys/{key}: the view hands the token Name() of the checked entry, the token resolves it again *)
Theorem keys_discloses_checked_entry : forall nc rq t p m cp,
  handle_e nc rq = ETouch t p (FDisclosed m cp) -> mem t (n_worker nc) = false ->
  exists u, snd (identity (n_base nc) rq) = Ok u /\
  exists kc, resolve1 (cf_keys (n_base nc)) (rq_key rq) = Some (p, kc) /\ allowed u p kc = true /\ t = k_token kc /\
             (m = 0 \/ (m = p /\ cp = m_key (mat_of (n_mats nc) m) /\ cp <> 0 /\
                        spec_may_use (cf_keys (n_base nc)) u (rq_key rq) m = true /\ spec_entitled (cf_keys (n_base nc)) u m = true)).
Proof. exact C04.NamesProofs.keys_discloses_checked_entry. Qed.
(* /keys/{key} behind the worker: three look-ups by name, one entry *)
Theorem keys_worker_discloses_checked_entry : forall nc rq t p m cp,
  handle_e nc rq = ETouch t p (FDisclosed m cp) -> mem t (n_worker nc) = true ->
  exists u, snd (identity (n_base nc) rq) = Ok u /\
  exists kc, resolve1 (cf_keys (n_base nc)) (rq_key rq) = Some (p, kc) /\ allowed u p kc = true /\ t = k_token kc /\
             (m = 0 \/ (m = p /\ spec_may_use (cf_keys (n_base nc)) u (rq_key rq) m = true)).
Proof. exact C04.NamesProofs.keys_worker_discloses_checked_entry. Qed.

(* the concrete paths are instances of the general pipeline: the handler's choice of name is one component *)
Theorem sign_entry_is_pipeline : forall nc rq t p m pr cp au,
  handle_e nc rq = ETouch t p (FSigned m pr cp au) -> mem t (n_worker nc) = false ->
  exists f kc, fwd_of sign_init_name = Some f /\ relayers (cf_keys (n_base nc)) [f] (rq_key rq) = Ok (m, kc).
Proof. exact C04.NamesProofs.sign_entry_is_pipeline. Qed.
Theorem keys_entry_is_pipeline : forall nc rq t p m cp,
  handle_e nc rq = ETouch t p (FDisclosed m cp) -> mem t (n_worker nc) = false -> m <> 0 ->
  exists f kc, fwd_of info_init_name = Some f /\ relayers (cf_keys (n_base nc)) [f] (rq_key rq) = Ok (m, kc).
Proof. exact C04.NamesProofs.keys_entry_is_pipeline. Qed.

(* token wrappers of any depth that pass on the name they receive are transparent; the server's and the worker's are *)
Theorem wrappers_transparent : forall ks ws tok n, Forall (fun w => w = NParam 1) ws -> wraps ks ws tok n = tok n.
Proof. exact C04.NamesProofs.wraps_transparent. Qed.
Theorem relic_wrappers_pass_the_name_on :
  Forall (fun w => w = NParam 1) server_stack /\ Forall (fun w => w = NParam 1) worker_stack /\ server_stack <> [] /\ worker_stack <> [].
Proof. exact (conj C04.NamesProofs.server_stack_same (conj C04.NamesProofs.worker_stack_same C04.NamesProofs.stacks_nonempty)). Qed.

(* the sites as read from the source: Name() is the map key; GetKey reads the requested entry and the entry its alias
   names and returns the latter; file and PKCS#11 tokens resolve the name they get and load that entry's material; the key
   cache is indexed by the name it looks up; only pkcs11 tokens (also the default type) sit behind the worker *)
Theorem name_sites_reviewed :
  (keyconf_name_is_field = true /\ normalize_names_keys_by_map_key = true) /\
  (getkey_map_lookups = [NParam 0; NAliasOf (CRaw (NParam 0))] /\ getkey_returns = CRaw (NAliasOf (CRaw (NParam 0)))) /\
  (file_resolve_name = NParam 1 /\ file_material_conf = CGetKey file_resolve_name /\ file_key_conf = file_material_conf /\
   p11_resolve_name = file_resolve_name /\ p11_material_conf = file_material_conf) /\
  (Forall (fun i => i = cache_inner_name) cache_index_names /\ cache_index_names <> []) /\
  (open_worker_types = ["pkcs11"%string] /\ default_token_type = "pkcs11"%string).
Proof.
  exact (conj C04.NamesProofs.name_is_map_key (conj C04.NamesProofs.getkey_reads_one_alias
        (conj C04.NamesProofs.tokens_resolve_what_they_get (conj C04.NamesProofs.cache_indexed_by_lookup_name C04.NamesProofs.worker_only_for_pkcs11)))).
Qed.

(* non-vacuity and regression: the chain old(3) -> legacy(2) -> release(1), the configuration that broke /keys and the worker
   path before relic 1867fd2.  A caller of `legacy` only is served nothing (old is a configuration error, legacy denotes
   release); a caller of `release` is served through `legacy` on every path with the key of release *)
Example names_examples :
  handle_e (wit_nc [20] [] wit_files) (wit_rq EpSign 3) = EStatus 403 /\
  handle_e (wit_nc [20] [] wit_files) (wit_rq EpGetKey 3) = EStatus 403 /\
  handle_e (wit_nc [20] [7] wit_hsm) (wit_rq EpSign 3) = EStatus 403 /\
  handle_e (wit_nc [20] [] wit_files) (wit_rq EpSign 2) = EStatus 403 /\
  handle_e (wit_nc [20] [] wit_files) (wit_rq EpSign 1) = EStatus 403 /\
  handle_e (wit_nc [20] [] wit_files) (wit_rq EpList 0) = EListing [] /\
  get_key wit_keys 3 = Err E_ALIAS_OF_ALIAS /\
  handle_e (wit_nc [10] [] wit_files) (wit_rq EpSign 2) = ETouch 7 2 (FSigned 1 101 101 1) /\
  handle_e (wit_nc [10] [] wit_files) (wit_rq EpGetKey 2) = ETouch 7 1 (FDisclosed 1 101) /\
  handle_e (wit_nc [10] [7] wit_hsm) (wit_rq EpSign 2) = ETouch 7 2 (FSigned 1 101 101 1) /\
  handle_e (wit_nc [10] [7] wit_hsm) (wit_rq EpGetKey 2) = ETouch 7 1 (FDisclosed 1 101) /\
  handle_e (wit_nc [10] [7] wit_files) (wit_rq EpSign 1) = ETouch 7 1 (FSigned 1 101 101 1) /\
  handle_e (wit_nc [10] [] wit_files) (wit_rq EpList 0) = EListing [1; 2].
Proof. exact C04.NamesProofs.names_examples. Qed.
