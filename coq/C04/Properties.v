(* C04/Properties.v — property theorems only; each closed by a lemma of C04/Proofs.v. *)
From Relic Require Import Base.Prelude Generated.C04_gen C04.Model C04.Proofs.

(* a token is touched only for a recognised caller entitled to the key the name resolves to (one alias hop),
   and the token touched is that key's token *)
Theorem authz_sound : forall cf rq t k,
  handle cf rq = Touch t k ->
  exists u, snd (identity cf rq) = Ok u /\
  exists rn kc, resolve1 (cf_keys cf) (rq_key rq) = Some (rn, kc) /\ allowed u rn kc = true /\
                t = k_token kc /\ t <> 0 /\ mem t (cf_tokens cf) = true /\
                (k = rq_key rq \/ k = rn).
Proof. exact C04.Proofs.authz_sound. Qed.

(* every other signing / key-info request is refused: unauthenticated -> 401; authenticated but not entitled -> 403
   (or 400 for a missing parameter) — never a token call *)
Theorem unauthenticated_401 : forall cf rq,
  (forall u, snd (identity cf rq) <> Ok u) -> snd (identity cf rq) = Err 401 /\ handle cf rq = Status 401.
Proof. exact C04.Proofs.unauthenticated_401. Qed.
Theorem not_entitled_refused : forall cf rq u,
  snd (identity cf rq) = Ok u -> (rq_ep rq = EpSign \/ rq_ep rq = EpGetKey) ->
  ~ entitled (cf_keys cf) u (rq_key rq) ->
  handle cf rq = Status 403 \/ (rq_ep rq = EpSign /\ handle cf rq = Status 400 /\ (rq_key rq = 0 \/ rq_has_filename rq = false)).
Proof. exact C04.Proofs.not_entitled_refused. Qed.

(* ... and in the source, key resolution and the entitlement check come before the first token access *)
Theorem authz_precedes_token : sign_call_order = [0; 1; 2; 3; 4; 5; 6; 7; 8; 9].
Proof. exact C04.Proofs.sign_order. Qed.

(* malformed configuration entries (unknown name, dangling alias, entry without token) yield an error, not a panic *)
Theorem get_key_total : forall ks n, (exists e, get_key ks n = Err e) \/ (exists r, get_key ks n = Ok r).
Proof. exact C04.Proofs.get_key_total. Qed.
Theorem get_key_spec : forall ks n rn kc,
  get_key ks n = Ok (rn, kc) <-> (resolve1 ks n = Some (rn, kc) /\ k_token kc <> 0).
Proof. exact C04.Proofs.get_key_spec. Qed.

(* listings contain exactly the non-hidden names the caller could sign with *)
Theorem list_keys_exact : forall ks u n,
  In n (list_keys ks u) <->
  exists kc, In (n, kc) ks /\ k_hide kc = false /\
  exists rn kc', get_key ks n = Ok (rn, kc') /\ k_hide kc' = false /\ allowed u rn kc' = true.
Proof. exact C04.Proofs.list_keys_exact. Qed.

(* headers from peers that are not trusted proxies never influence identity or recorded address *)
Theorem header_noninterference : forall cf rq hops' hdr',
  rq_peer_trusted rq = false ->
  let rq' := mkReq (rq_ep rq) (rq_key rq) (rq_has_filename rq) (rq_sigtype_ok rq) (rq_digest_ok rq) (rq_flags_ok rq)
                   (rq_peer rq) false hops' (rq_tls rq) hdr' in
  identity cf rq' = identity cf rq /\ handle cf rq' = handle cf rq /\ fst (fst (identity cf rq)) = rq_peer rq.
Proof. exact C04.Proofs.header_noninterference. Qed.

(* behind trusted proxies the recorded address is the rightmost untrusted hop *)
Theorem trusted_hop_spec : forall peer hops a,
  fst (real_ip peer true hops) = a ->
  (exists pre post, hops = pre ++ (a, false) :: post /\ forallb snd post = true) \/
  (forallb snd hops = true /\ a = match hops with [] => peer | (h, _) :: _ => h end).
Proof. exact C04.Proofs.trusted_hop_spec. Qed.

Example alias_and_roles :
  let ks := [(1, mkK 7 0 [10] false); (2, mkK 0 1 [] false); (3, mkK 0 9 [] false); (4, mkK 0 0 [10] false)] in
  let cf := mkCfg ks [mkCl 100 0 [10]; mkCl 0 5 [11]] [7] in
  let rq n tls := mkReq EpSign n true true true true 50 false [] tls [] in
  handle cf (rq 2 [mkCert 100 0]) = Touch 7 2 /\ handle cf (rq 2 [mkCert 101 5]) = Status 403 /\
  handle cf (rq 3 [mkCert 100 0]) = Status 403 /\ handle cf (rq 4 [mkCert 100 0]) = Status 403 /\
  handle cf (rq 1 [mkCert 102 0]) = Status 401 /\ list_keys ks (UCert [10]) = [1; 2].
Proof. vm_compute. repeat split. Qed.
