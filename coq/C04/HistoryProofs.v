(* C04/HistoryProofs.v — proofs about C04/History.v.  Generated definitions are unfolded, never assumed. *)
From Relic Require Import Base.Prelude Generated.C04_gen C04.Model C04.Proofs C04.History.

(* ------------------------------------------------------------------ facts read off the generated definitions *)
Lemma gen_no_memo_loads : auth_memo_loads = [].
Proof. reflexivity. Qed.
Lemma gen_no_memo_stores : auth_memo_stores = [].
Proof. reflexivity. Qed.
Lemma gen_loop_action : forall m e,
  bit (auth_loop_action m e) 1 = m /\ bit (auth_loop_action m e) 2 = m /\ bit (auth_loop_action m e) 8 = m /\
  bit (auth_loop_action m e) 16 = false /\ bit (auth_loop_action m e) 32 = false.
Proof. intros [] []; vm_compute; repeat split. Qed.
Lemma gen_loop_shape : auth_match_arg = 1 /\ auth_loop_extra_stmts = 0 /\ auth_leaf_index = 0 /\ auth_first_lookup_key = 1 /\
  auth_stage_order = [6; 0; 1; 2; 3; 5].
Proof. repeat split. Qed.
Lemma gen_fingerprint_is_key : forall c, fingerprint c = x_key c /\ fp_hash = 256 /\ fp_encoding = 1.
Proof. intros c. repeat split. Qed.

(* ------------------------------------------------------------------ Match = specification *)
Lemma match_model_nil : forall roots now, fst (match_model roots now []) = false.
Proof. intros roots now. unfold match_model, match_skip. cbn. rewrite orb_true_r. reflexivity. Qed.

Lemma match_model_spec : forall roots now leaf inter,
  fst (match_model roots now (leaf :: inter)) =
  (match roots with [] => false | _ => true end && verify_spec roots inter now [EKU_CLIENT] leaf).
Proof.
  intros roots now leaf inter. unfold match_model.
  unfold match_skip, match_leaf_index, match_inter_from, match_opts_inter_is_rest, match_opts_roots_is_pool,
         match_opts_sets_time, match_verify_on_leaf, match_result, eku_wanted, match_opts_eku.
  assert (Z : (zlen (leaf :: inter) =? 0) = false).
  { unfold zlen. cbn [length]. apply Z.eqb_neq. lia. }
  rewrite Z.
  change (Z.to_nat 0) with 0%nat. cbn [nth].
  assert (D : zdrop 1 (leaf :: inter) = inter) by reflexivity.
  rewrite D.
  destruct roots as [|r0 rs]; cbn [orb andb].
  - reflexivity.
  - change [2] with [EKU_CLIENT].
    destruct (verify_spec (r0 :: rs) inter now [EKU_CLIENT] leaf); [reflexivity|].
    match goal with |- fst (if ?b then _ else _) = _ => destruct b end; reflexivity.
Qed.

(* ------------------------------------------------------------------ the client loop *)
Lemma ca_loop_state_irrelevant : forall stores action cls now chain cert acc st st',
  fst (ca_loop stores action cls now chain cert acc st) = fst (ca_loop stores action cls now chain cert acc st').
Proof.
  induction cls as [|c2 rest IH]; intros now chain cert acc st st'; cbn [ca_loop]; [reflexivity|].
  destruct (match_model (xc_roots c2) now (if auth_match_arg =? 1 then chain else [])) as [m e].
  destruct (bit (action m e) 2); [reflexivity|]. apply IH.
Qed.

Lemma ca_loop_no_store : forall cls now chain cert acc st,
  snd (ca_loop auth_memo_stores auth_loop_action cls now chain cert acc st) = st.
Proof.
  induction cls as [|c2 rest IH]; intros now chain cert acc st; cbn [ca_loop]; [reflexivity|].
  destruct (match_model (xc_roots c2) now (if auth_match_arg =? 1 then chain else [])) as [m e].
  destruct (gen_loop_action m e) as [_ [_ [_ [H16 _]]]]. rewrite H16.
  destruct (bit (auth_loop_action m e) 2); [reflexivity|]. apply IH.
Qed.

(* started with no client, the loop ends with the first entry whose Match succeeds, if any *)
Lemma ca_loop_first_match : forall stores cls now chain cert st,
  let r := fst (ca_loop stores auth_loop_action cls now chain cert (None, false) st) in
  (r = (None, false) /\ forall c, In c cls -> fst (match_model (xc_roots c) now chain) = false) \/
  (exists c, r = (Some c, true) /\ In c cls /\ fst (match_model (xc_roots c) now chain) = true).
Proof.
  intros stores cls now chain cert. induction cls as [|c2 rest IH]; intros st; cbn [ca_loop].
  - left. split; [reflexivity|]. intros c [].
  - change (auth_match_arg =? 1) with true. cbv iota.
    destruct (match_model (xc_roots c2) now chain) as [m e] eqn:M.
    destruct (gen_loop_action m e) as [H1 [H2 [H8 _]]]. rewrite H1, H2, H8.
    destruct m.
    + right. exists c2. cbn. split; [reflexivity|]. split; [left; reflexivity|]. rewrite M. reflexivity.
    + cbn [fst snd orb].
      match goal with |- context [ca_loop ?s ?a rest now chain cert (None, false) ?st'] => specialize (IH st') end.
      cbv zeta in IH. destruct IH as [[Hr Hn]|[c [Hr [Hin Hm]]]].
      * left. split; [exact Hr|]. intros c [Hc|Hc]; [subst c; rewrite M; reflexivity | apply Hn; exact Hc].
      * right. exists c. split; [exact Hr|]. split; [right; exact Hin | exact Hm].
Qed.

(* ------------------------------------------------------------------ Authenticate *)
(* without reads of authenticator state, the verdict does not depend on the state — for ANY action table and any writes *)
Lemma hauth_g_stateless : forall stores action cls st st' now chain,
  fst (hauth_g [] stores action cls st now chain) = fst (hauth_g [] stores action cls st' now chain).
Proof.
  intros stores action cls st st' now chain. unfold hauth_g.
  destruct (auth_no_cert (zlen chain)); [reflexivity|].
  set (cert := nth (Z.to_nat auth_leaf_index) chain no_cert).
  set (acc1 := match (if auth_first_lookup_key =? 0 then None else find (fun c => xc_key c =? key_of_class auth_first_lookup_key cert) cls)
               with Some c => (Some c, false) | None => (None, false) end).
  destruct (auth_try_ca (is_none (fst acc1))).
  - pose proof (ca_loop_state_irrelevant stores action cls now chain cert acc1 st st') as E.
    destruct (ca_loop stores action cls now chain cert acc1 st) as [a1 s1].
    destruct (ca_loop stores action cls now chain cert acc1 st') as [a2 s2].
    cbn [fst] in E. subst a2. destruct (fst a1); reflexivity.
  - destruct (fst acc1); reflexivity.
Qed.

Lemma hauth_stateless : forall cls st now chain,
  fst (hauth cls st now chain) = fst (hauth cls fresh now chain).
Proof. intros. unfold hauth. rewrite gen_no_memo_loads. apply hauth_g_stateless. Qed.

Lemma hauth_state_unchanged : forall cls st now chain, snd (hauth cls st now chain) = st.
Proof.
  intros cls st now chain. unfold hauth, hauth_g. rewrite gen_no_memo_loads.
  destruct (auth_no_cert (zlen chain)); [reflexivity|].
  set (cert := nth (Z.to_nat auth_leaf_index) chain no_cert).
  set (acc1 := match (if auth_first_lookup_key =? 0 then None else find (fun c => xc_key c =? key_of_class auth_first_lookup_key cert) cls)
               with Some c => (Some c, false) | None => (None, false) end).
  destruct (auth_try_ca (is_none (fst acc1))).
  - pose proof (ca_loop_no_store cls now chain cert acc1 st) as E.
    destruct (ca_loop auth_memo_stores auth_loop_action cls now chain cert acc1 st) as [a1 s1].
    cbn [snd] in E. subst s1. destruct (fst a1); reflexivity.
  - destruct (fst acc1); reflexivity.
Qed.

(* the verdict of Authenticate, characterised *)
Lemma hauth_result : forall cls st now chain,
  match fst (hauth cls st now chain) with
  | Ok i => exists cl, In cl cls /\ spec_recognises cl now chain = true /\ id_roles i = xc_roles cl /\ id_name i = xc_nick cl
  | Err e => e = 401 /\ forall cl, In cl cls -> spec_recognises cl now chain = false
  | Panic _ => False
  end.
Proof.
  intros cls st now chain. unfold hauth, hauth_g. rewrite gen_no_memo_loads.
  unfold auth_no_cert, auth_leaf_index, auth_first_lookup_key, auth_try_ca.
  destruct chain as [|leaf inter].
  - cbn. split; [reflexivity|]. intros cl _. reflexivity.
  - assert (Z : (zlen (leaf :: inter) =? 0) = false).
    { unfold zlen. cbn [length]. apply Z.eqb_neq. lia. }
    rewrite Z. change (Z.to_nat 0) with 0%nat. cbn [nth].
    change (1 =? 0) with false. cbv iota.
    change (key_of_class 1 leaf) with (x_key leaf).
    destruct (find (fun c => xc_key c =? x_key leaf) cls) as [c|] eqn:F.
    + cbn [fst is_none]. cbn.
      apply find_some in F. destruct F as [Hin Hk].
      exists c. split; [exact Hin|]. split; [|split; reflexivity].
      unfold spec_recognises. rewrite Hk. reflexivity.
    + cbn [fst is_none].
      pose proof (ca_loop_first_match auth_memo_stores cls now (leaf :: inter) leaf st) as L. cbv zeta in L.
      destruct (ca_loop auth_memo_stores auth_loop_action cls now (leaf :: inter) leaf (None, false) st) as [a1 s1].
      cbn [fst] in L. destruct L as [[Hr Hn]|[c [Hr [Hin Hm]]]]; subst a1; cbn [fst snd].
      * split; [reflexivity|]. intros cl Hin. unfold spec_recognises.
        pose proof (find_none _ _ F cl Hin) as Hk. cbn beta in Hk. rewrite Hk. cbn [orb].
        specialize (Hn cl Hin). rewrite match_model_spec in Hn. exact Hn.
      * exists c. split; [exact Hin|]. split; [|split; reflexivity].
        unfold spec_recognises. rewrite match_model_spec in Hm. rewrite Hm. apply orb_true_r.
Qed.

Lemma hauth_sound : forall cls st now chain i,
  fst (hauth cls st now chain) = Ok i ->
  exists cl, In cl cls /\ spec_recognises cl now chain = true /\ id_roles i = xc_roles cl.
Proof.
  intros cls st now chain i H. pose proof (hauth_result cls st now chain) as R. rewrite H in R.
  destruct R as [cl [A [B [C _]]]]. exists cl. auto.
Qed.

Lemma hauth_refuses : forall cls st now chain,
  (forall cl, In cl cls -> spec_recognises cl now chain = false) -> fst (hauth cls st now chain) = Err 401.
Proof.
  intros cls st now chain H. pose proof (hauth_result cls st now chain) as R.
  destruct (fst (hauth cls st now chain)) as [i|e|e].
  - destruct R as [cl [A [B _]]]. rewrite (H cl A) in B. discriminate.
  - destruct R as [E _]. subst e. reflexivity.
  - destruct R.
Qed.

Lemma hauth_complete : forall cls st now chain cl,
  In cl cls -> spec_recognises cl now chain = true -> exists i, fst (hauth cls st now chain) = Ok i.
Proof.
  intros cls st now chain cl Hin Hr. pose proof (hauth_result cls st now chain) as R.
  destruct (fst (hauth cls st now chain)) as [i|e|e].
  - exists i. reflexivity.
  - destruct R as [_ N]. rewrite (N cl Hin) in Hr. discriminate.
  - destruct R.
Qed.

(* ------------------------------------------------------------------ one request, any server state *)
Lemma hstep_outcome : forall cf st rq,
  fst (hstep cf st rq) = fst (hstep cf fresh rq) /\ snd (hstep cf st rq) = st.
Proof.
  intros cf st rq. unfold hstep, hstep_g. fold hauth.
  pose proof (hauth_stateless (hc_clients cf) st (h_now rq) (h_chain rq)) as E.
  pose proof (hauth_state_unchanged (hc_clients cf) st (h_now rq) (h_chain rq)) as S.
  destruct (hauth (hc_clients cf) st (h_now rq) (h_chain rq)) as [r s].
  destruct (hauth (hc_clients cf) fresh (h_now rq) (h_chain rq)) as [r' s'].
  cbn [fst snd] in *. subst. split; reflexivity.
Qed.

Lemma hstep_spec : forall cf st rq, spec_response cf rq (fst (fst (hstep cf st rq))).
Proof.
  intros cf st rq. unfold hstep, hstep_g. fold hauth.
  pose proof (hauth_result (hc_clients cf) st (h_now rq) (h_chain rq)) as R.
  destruct (hauth (hc_clients cf) st (h_now rq) (h_chain rq)) as [r s]. cbn [fst snd] in *.
  destruct r as [i|e|e]; cbn [user_of dispatch].
  - destruct R as [cl [Hin [Hr [Hroles _]]]]. split.
    + intros N. rewrite (N cl Hin) in Hr. discriminate.
    + intros _. exists cl. split; [exact Hin|]. split; [exact Hr|]. rewrite Hroles. reflexivity.
  - destruct R as [E N]. subst e. split; [reflexivity|]. intros H. exfalso. apply H. reflexivity.
  - destruct R.
Qed.

(* ------------------------------------------------------------------ histories *)
Lemma history_independent : forall cf rqs st,
  hrun cf st rqs = map (fun rq => fst (hstep cf fresh rq)) rqs.
Proof.
  intros cf rqs. induction rqs as [|rq r IH]; intros st; [reflexivity|].
  unfold hrun. cbn [hrun_g map]. fold (hstep cf st rq).
  destruct (hstep_outcome cf st rq) as [E S].
  destruct (hstep cf st rq) as [o s']. cbn [fst snd] in E, S. subst s'. rewrite E.
  f_equal. apply IH.
Qed.

Lemma history_length : forall cf rqs st, length (hrun cf st rqs) = length rqs.
Proof. intros. rewrite history_independent, map_length. reflexivity. Qed.

Lemma history_nth : forall cf rqs st i,
  nth_error (hrun cf st rqs) i = option_map (fun rq => fst (hstep cf fresh rq)) (nth_error rqs i).
Proof. intros. rewrite history_independent. apply nth_error_map. Qed.

Lemma history_spec : forall cf rqs st i rq,
  nth_error rqs i = Some rq ->
  exists o r, nth_error (hrun cf st rqs) i = Some (o, r) /\ spec_response cf rq o.
Proof.
  intros cf rqs st i rq H. rewrite history_nth, H. cbn [option_map].
  destruct (hstep cf fresh rq) as [[o r] s] eqn:E. exists o, r. split; [reflexivity|].
  pose proof (hstep_spec cf fresh rq) as S. rewrite E in S. exact S.
Qed.

(* the headline: whatever happened before, a certificate nobody recognises NOW is refused with 401 *)
Lemma history_unrecognised_refused : forall cf rqs st i rq,
  nth_error rqs i = Some rq ->
  (forall cl, In cl (hc_clients cf) -> spec_recognises cl (h_now rq) (h_chain rq) = false) ->
  exists r, nth_error (hrun cf st rqs) i = Some (Status 401, r).
Proof.
  intros cf rqs st i rq H N. destruct (history_spec cf rqs st i rq H) as [o [r [E [S _]]]].
  exists r. rewrite E, (S N). reflexivity.
Qed.

(* ... and a token is touched only for a caller recognised at that moment and entitled to the key *)
Lemma history_authz_sound : forall cf rqs st i t k r,
  nth_error (hrun cf st rqs) i = Some (Touch t k, r) ->
  exists rq cl, nth_error rqs i = Some rq /\ In cl (hc_clients cf) /\
    spec_recognises cl (h_now rq) (h_chain rq) = true /\
    exists rn kc, resolve1 (cf_keys (hc_base cf)) (rq_key (h_base rq)) = Some (rn, kc) /\
                  allowed (UCert (xc_roles cl)) rn kc = true /\
                  t = k_token kc /\ t <> 0 /\ mem t (cf_tokens (hc_base cf)) = true /\
                  (k = rq_key (h_base rq) \/ k = rn).
Proof.
  intros cf rqs st i t k r H. rewrite history_nth in H.
  destruct (nth_error rqs i) as [rq|] eqn:N; [|discriminate]. cbn [option_map] in H.
  injection H as H.
  pose proof (hstep_spec cf fresh rq) as S. rewrite H in S. cbn [fst] in S.
  destruct S as [_ S]. destruct S as [cl [Hin [Hr Hd]]]; [discriminate|].
  exists rq, cl. split; [reflexivity|]. split; [exact Hin|]. split; [exact Hr|].
  symmetry in Hd. exact (dispatch_sound _ _ _ _ _ Hd).
Qed.

(* ------------------------------------------------------------------ inventory and routing: generated = reviewed *)
Lemma inventory_reviewed :
  c04_package_vars = reviewed_package_vars /\ c04_state_fields = reviewed_state_fields /\
  c04_state_writes = reviewed_state_writes /\ auth_receiver_fields = reviewed_receiver_fields.
Proof. repeat split. Qed.
Lemma routes_reviewed :
  handler_routes = reviewed_routes /\ handler_middleware = reviewed_middleware /\
  mw_call_order = [0; 1; 2; 3] /\ mw_first_is_authenticate = true /\ mw_err_returns = true.
Proof. repeat split. Qed.

(* ------------------------------------------------------------------ the mechanism the theorems exclude
   An authenticator that remembers CA matches under the public-key fingerprint (reads [1], writes [1], store in the
   matching arm) is NOT history independent: the same self-signed certificate is refused by a fresh server and served
   after one request with a CA-issued certificate for the same key. *)
Definition memo_action (m e : bool) : Z := if m then 27 else if e then 4 else 0.
Definition ex_cf : hconfig :=
  mkHC (mkCfg [(1, mkK 7 0 [10] false)] [] [7]) [mkXC 900 [50] [10] 5].
Definition ex_rq (c : xcert) : hreq :=
  mkHR (mkReq EpSign 1 true true true true 60 false [] [] []) 1000 [c] [].
Definition ex_good : xcert := mkX 101 77 1 50 0 2000 [2] false.          (* issued by CA 50, key 77 *)
Definition ex_selfsigned : xcert := mkX 102 77 1 102 0 2000 [2] false.   (* same key, signed by itself *)
Definition ex_expired : xcert := mkX 103 77 1 50 0 999 [2] false.        (* same key, same CA, expired at 999 *)

Lemma memo_by_public_key_refuted :
  map fst (hrun_g [1] [1] memo_action ex_cf fresh [ex_rq ex_selfsigned; ex_rq ex_good; ex_rq ex_selfsigned; ex_rq ex_expired])
  = [Status 401; Touch 7 1; Touch 7 1; Touch 7 1].
Proof. vm_compute. reflexivity. Qed.
Lemma real_authenticator_on_the_same_history :
  map fst (hrun ex_cf fresh [ex_rq ex_selfsigned; ex_rq ex_good; ex_rq ex_selfsigned; ex_rq ex_expired])
  = [Status 401; Touch 7 1; Status 401; Status 401].
Proof. vm_compute. reflexivity. Qed.
