(* C04/History.v — authentication and authorisation as a function of the REQUEST HISTORY of one long-lived server.

   The stateless model of C04/Model.v decides one request against one configuration.  Here the server carries whatever
   mutable state its request handling can reach (Generated/C04_gen.v lists it: c04_package_vars, c04_state_fields,
   c04_state_writes, auth_receiver_fields, auth_memo_loads/stores), requests arrive one after the other at their own
   times, and certificates are concrete objects: the same public key can sit under many certificates (issued by the
   configured CA, self-signed, expired, issued by somebody else, ...).

   Executable definitions only.  Every constant, operator and branch condition of
     internal/authmodel/certificate.go (Authenticate, fingerprint), config/client.go (Match),
     internal/authmodel/authmodel.go (Middleware), server/server.go (Handler)
   that the model depends on is a definition of Generated/C04_gen.v. *)
From Relic Require Import Base.Prelude Generated.C04_gen C04.Model.

(* ------------------------------------------------------------------ certificates *)
(* x_id: identity of the certificate (digest of the whole DER); x_key: identity of the SubjectPublicKeyInfo;
   x_signer: x_id of the certificate whose key made the signature on this one (self-signed: x_signer = x_id);
   x_nb / x_na: NotBefore / NotAfter (same clock as the request times); x_eku: extended key usages ([] = no extension);
   x_ca: basic constraints CA *)
Record xcert := mkX { x_id : Z; x_key : Z; x_subject : Z; x_signer : Z; x_nb : Z; x_na : Z; x_eku : list Z; x_ca : bool }.
Definition no_cert : xcert := mkX 0 0 0 0 0 (-1) [] false.
Definition EKU_ANY := 0. Definition EKU_SERVER := 1. Definition EKU_CLIENT := 2.

(* ------------------------------------------------------------------ X.509 path validation (SPECIFICATION)
   RFC 5280 section 6 restricted to what relic's callers can vary: validity period at the time of the request, extended key
   usage (RFC 5280 4.2.1.12: absent = unrestricted, anyExtendedKeyUsage satisfies every purpose; checked on every
   certificate of the path as the Go verifier does), and a signature path from the certificate to one of the trust
   anchors through CA certificates presented by the peer.  A certificate that is itself a trust anchor is its own path.
   The anchors are assumed to be within their own validity period. *)
Definition time_ok (now : Z) (c : xcert) : bool := (x_nb c <=? now) && (now <=? x_na c).
Definition eku_ok (want : list Z) (c : xcert) : bool :=
  match x_eku c with
  | [] => true
  | l => mem EKU_ANY want || mem EKU_ANY l || intersects want l
  end.
Fixpoint path_ok (fuel : nat) (roots : list Z) (inter : list xcert) (now : Z) (want : list Z) (c : xcert) : bool :=
  mem (x_signer c) roots ||
  match fuel with
  | O => false
  | S f => existsb (fun i => (x_id i =? x_signer c) && x_ca i && time_ok now i && eku_ok want i && path_ok f roots inter now want i) inter
  end.
Definition verify_spec (roots : list Z) (inter : list xcert) (now : Z) (want : list Z) (leaf : xcert) : bool :=
  time_ok now leaf && eku_ok want leaf && (mem (x_id leaf) roots || path_ok (length inter) roots inter now want leaf).

(* ------------------------------------------------------------------ configuration: clients *)
(* xc_key: the key of the entry in the `clients` map (a public-key fingerprint for fingerprint clients, any name for
   CA clients); xc_roots: the certificates of its `certificate:` CA pool ([] = none configured); xc_nick: nickname *)
Record xclient := mkXC { xc_key : Z; xc_roots : list Z; xc_roles : list Z; xc_nick : Z }.

(* SPECIFICATION of "a client certificate that the configuration recognises" (property text + doc/relic.yml):
   the entry is keyed by the SHA-256 of the certificate's public key, or the certificate verifies NOW, for client
   authentication, against the CA pool of the entry. *)
Definition spec_recognises (cl : xclient) (now : Z) (chain : list xcert) : bool :=
  match chain with
  | [] => false
  | leaf :: inter =>
      (xc_key cl =? x_key leaf) ||
      (match xc_roots cl with [] => false | _ => true end && verify_spec (xc_roots cl) inter now [EKU_CLIENT] leaf)
  end.

(* ------------------------------------------------------------------ config.ClientConfig.Match (faithful) *)
Definition eku_wanted : list Z := match match_opts_eku with [] => [EKU_SERVER] | l => l end.
(* returns (matched, error returned) *)
Definition match_model (roots : list Z) (now : Z) (chain : list xcert) : bool * bool :=
  if match_skip (match roots with [] => true | _ => false end) (zlen chain) then (false, false) else
  let leaf := nth (Z.to_nat match_leaf_index) chain no_cert in
  let inter := if match_opts_inter_is_rest then zdrop match_inter_from chain else [] in
  let roots' := if match_opts_roots_is_pool then roots else [] in          (* anything else: not a pool we can chain to *)
  let now' := if match_opts_sets_time then 0 else now in                    (* an explicit CurrentTime is not the request time *)
  let subject := if match_verify_on_leaf then leaf else no_cert in
  let ok := verify_spec roots' inter now' eku_wanted subject in
  let unknown_authority := time_ok now' subject && negb (mem (x_id subject) roots' || path_ok (length inter) roots' inter now' eku_wanted subject) in
  match_result ok unknown_authority.

(* ------------------------------------------------------------------ authmodel.CertificateAuth.Authenticate (faithful, with state) *)
(* what fingerprint() identifies *)
Definition fingerprint (c : xcert) : Z :=
  if fp_source =? 1 then x_key c else if fp_source =? 2 then x_id c else if fp_source =? 3 then x_subject c else 0.
(* what a lookup key of class k identifies (classes as in Generated: 1 fingerprint(cert), 2 the whole certificate) *)
Definition key_of_class (k : Z) (c : xcert) : Z :=
  if k =? 1 then fingerprint c else if k =? 2 then x_id c else 0.

(* authenticator state that outlives a request: remembered (lookup key, client entry) pairs *)
Definition memo := list (Z * xclient).
Fixpoint memo_find (k : Z) (m : memo) : option xclient :=
  match m with
  | [] => None
  | (k', c) :: r => if k' =? k then Some c else memo_find k r
  end.

Record ident := mkId { id_roles : list Z; id_name : Z; id_dn : bool }.
Definition bit (a b : Z) : bool := negb (Z.land a b =? 0).
Definition is_none {A} (o : option A) : bool := match o with None => true | Some _ => false end.

(* the loop `for _, c2 := range a.Config.Clients` ; acc = (client, useDN) ; returns the accumulator and the state *)
Fixpoint ca_loop (stores : list Z) (action : bool -> bool -> Z) (cls : list xclient) (now : Z) (chain : list xcert) (cert : xcert)
                 (acc : option xclient * bool) (st : memo) : (option xclient * bool) * memo :=
  match cls with
  | [] => (acc, st)
  | c2 :: rest =>
      let '(m, e) := match_model (xc_roots c2) now (if auth_match_arg =? 1 then chain else []) in
      let a := action m e in
      let acc' := (if bit a 1 then Some c2 else fst acc, snd acc || bit a 8) in
      let st' := if bit a 16 then match stores with [] => st | k :: _ => (key_of_class k cert, c2) :: st end else st in
      if bit a 2 then (acc', st') else ca_loop stores action rest now chain cert acc' st'
  end.

(* generic in the three generated ingredients that can introduce memory: reads of authenticator state, writes of it,
   and the action table of the client loop *)
Definition hauth_g (loads stores : list Z) (action : bool -> bool -> Z)
                   (cls : list xclient) (st : memo) (now : Z) (chain : list xcert) : result ident * memo :=
  if auth_no_cert (zlen chain) then (Err 401, st) else
  let cert := nth (Z.to_nat auth_leaf_index) chain no_cert in
  let client0 := if auth_first_lookup_key =? 0 then None
                 else find (fun c => xc_key c =? key_of_class auth_first_lookup_key cert) cls in
  let acc1 := match client0 with
              | Some c => (Some c, false)
              | None => match loads with
                        | [] => (None, false)
                        | k :: _ => match memo_find (key_of_class k cert) st with Some c => (Some c, true) | None => (None, false) end
                        end
              end in
  let '(acc2, st2) := if auth_try_ca (is_none (fst acc1)) then ca_loop stores action cls now chain cert acc1 st else (acc1, st) in
  match fst acc2 with
  | None => (Err 401, st2)
  | Some c => (Ok (mkId (xc_roles c) (xc_nick c) (snd acc2)), st2)
  end.
Definition hauth := hauth_g auth_memo_loads auth_memo_stores auth_loop_action.

(* ------------------------------------------------------------------ one request on a server in state st *)
Record hconfig := mkHC { hc_base : config; hc_clients : list xclient }.
Record hreq := mkHR { h_base : request; h_now : Z; h_tls : list xcert; h_hdr : list xcert }.
Definition h_chain (rq : hreq) : list xcert :=
  let b := h_base rq in
  if snd (real_ip (rq_peer b) (rq_peer_trusted b) (rq_hops b)) then h_hdr rq else h_tls rq.
Definition user_of (r : result ident) : result user :=
  match r with Ok i => Ok (UCert (id_roles i)) | Err e => Err e | Panic e => Panic e end.
Definition hstep_g loads stores action (cf : hconfig) (st : memo) (rq : hreq) : (outcome * result ident) * memo :=
  let '(r, st') := hauth_g loads stores action (hc_clients cf) st (h_now rq) (h_chain rq) in
  ((dispatch (hc_base cf) (user_of r) (h_base rq), r), st').
Definition hstep := hstep_g auth_memo_loads auth_memo_stores auth_loop_action.

Fixpoint hrun_g loads stores action (cf : hconfig) (st : memo) (rqs : list hreq) : list (outcome * result ident) :=
  match rqs with
  | [] => []
  | rq :: r => let '(o, st') := hstep_g loads stores action cf st rq in o :: hrun_g loads stores action cf st' r
  end.
Definition hrun := hrun_g auth_memo_loads auth_memo_stores auth_loop_action.
Definition fresh : memo := [].

(* ------------------------------------------------------------------ SPECIFICATION of a history
   Every request is judged alone, against the configuration and the clock, by the property text:
   nobody recognises the certificate -> 401; otherwise the caller acts with the roles of an entry that recognises it. *)
Definition spec_response (cf : hconfig) (rq : hreq) (o : outcome) : Prop :=
  ((forall cl, In cl (hc_clients cf) -> spec_recognises cl (h_now rq) (h_chain rq) = false) -> o = Status 401) /\
  (o <> Status 401 ->
   exists cl, In cl (hc_clients cf) /\ spec_recognises cl (h_now rq) (h_chain rq) = true /\
              o = dispatch (hc_base cf) (Ok (UCert (xc_roles cl))) (h_base rq)).

(* ------------------------------------------------------------------ reviewed inventory of mutable state
   (Properties.v states that the generated inventory EQUALS these lists; a new package variable, struct field or write
   to non-local state in the anchored packages breaks that equality.)
   Review result: nothing below carries a caller's identity, roles or a verification verdict from one request to a later
   one.  r / req / info / opts are per-request objects; health* is the token health state (C20), written by the health
   goroutine only; Server.healthDone (relic aed4bdd) is closed when that goroutine returns; Server.Close runs at shutdown; NewToken / NewKey / SetToken / Validate are used by the command line
   tools, not by the server; a.cli is the HTTP client of the policy engine. *)
From Coq Require Import String.
Definition reviewed_package_vars : list string := [
  "internal/authmodel.ctxKeyUserInfo : ctxKey";
  "internal/authmodel.should401 : map[string]bool{}";
  "internal/realip.ctxKeyTrusted : ctxKey";
  "server.healthStatus : int";
  "server.healthLastPing : time.Time";
  "server.healthMu : sync.Mutex";
  "server.metricTokenCheckErrors : promauto.NewGaugeVec()";
  "config.Version : literal";
  "config.Commit : literal";
  "config.Author : literal";
  "config.UserAgent : expr";
  "internal/httperror.ErrForbidden : &Problem{}";
  "internal/httperror.ErrCertificateRequired : &Problem{}";
  "internal/httperror.ErrCertificateNotRecognized : &Problem{}";
  "internal/httperror.ErrTokenRequired : &Problem{}";
  "internal/httperror.ErrUnknownSignatureType : &Problem{}";
  "internal/httperror.ErrUnknownDigest : &Problem{}"
]%string.
Definition reviewed_state_fields : list string := [
  "internal/authmodel.CertificateAuth.Config : *config.Config";
  "internal/authmodel.CertificateInfo.Name : string";
  "internal/authmodel.CertificateInfo.Subject : string";
  "internal/authmodel.CertificateInfo.Roles : []string";
  "internal/authmodel.Metadata.Hosts : []string";
  "internal/authmodel.Metadata.Auth : []AuthMetadata";
  "internal/authmodel.AuthMetadata.Type : AuthType";
  "internal/authmodel.AuthMetadata.Authority : string";
  "internal/authmodel.AuthMetadata.ClientID : string";
  "internal/authmodel.AuthMetadata.Scopes : []string";
  "internal/authmodel.PolicyAuth.cli : *http.Client";
  "internal/authmodel.PolicyAuth.destURL : string";
  "internal/authmodel.PolicyAuth.usesDefault : bool";
  "internal/authmodel.PolicyInfo.Subject : string";
  "internal/authmodel.PolicyInfo.Roles : []string";
  "internal/authmodel.PolicyInfo.AllowedKeys : []string";
  "internal/authmodel.PolicyInfo.Claims : map[string]interface{}";
  "internal/authmodel.PolicyInfo.DecisionID : string";
  "internal/authmodel.policyRequest.Input : policyInput";
  "internal/authmodel.policyInput.Path : string";
  "internal/authmodel.policyInput.Query : url.Values";
  "internal/authmodel.policyInput.Token : string";
  "internal/authmodel.policyInput.Fingerprint : string";
  "internal/authmodel.policyInput.ClientCert : string";
  "internal/authmodel.policyResponse.Result : struct{..}";
  "internal/authmodel.policyResponse.ID : string";
  "server.Server.Config : *config.Config";
  "server.Server.Closed : <-chan bool";
  "server.Server.closeCh : chan<- bool";
  "server.Server.tokens : map[string]token.Token";
  "server.Server.auth : authmodel.Authenticator";
  "server.Server.realIP : func(http.Handler) http.Handler";
  "server.Server.healthDone : chan struct{}";
  "server.keyInfo.X509Certificate : string";
  "server.keyInfo.PGPCertificate : string";
  "config.ClientConfig.Nickname : string";
  "config.ClientConfig.Roles : []string";
  "config.ClientConfig.Certificate : string";
  "config.ClientConfig.certs : *x509.CertPool";
  "config.Config.Tokens : map[string]*TokenConfig";
  "config.Config.Keys : map[string]*KeyConfig";
  "config.Config.Server : *ServerConfig";
  "config.Config.Clients : map[string]*ClientConfig";
  "config.Config.Remote : *RemoteConfig";
  "config.Config.Notary : *NotaryConfig";
  "config.Config.Timestamp : *TimestampConfig";
  "config.Config.Amqp : *AmqpConfig";
  "config.Config.AuditFile : string";
  "config.Config.PinFile : string";
  "config.Config.path : string"
]%string.
Definition reviewed_state_writes : list string := [
  "internal/authmodel:CertificateInfo.AuditContext : assign info.Attributes[""client.name""] [param]";
  "internal/authmodel:CertificateInfo.AuditContext : assign info.Attributes[""client.dn""] [param]";
  "internal/authmodel:PolicyAuth.evaluate : call a.cli.Do [receiver]";
  "internal/authmodel:PolicyInfo.AuditContext : assign info.Attributes[""client.sub""] [param]";
  "internal/authmodel:PolicyInfo.AuditContext : assign info.Attributes[""client.iss""] [param]";
  "internal/authmodel:PolicyInfo.AuditContext : assign info.Attributes[""client.decision_id""] [param]";
  "internal/realip:.Middleware : assign r.RemoteAddr [param]";
  "server:Server.Close : assign s.closeCh [receiver]";
  "server:Server.serveDirectory : assign sibs[i] [local-alias]";
  "server:Server.serveDirectory : assign sibs[j] [local-alias]";
  "server:Server.healthCheck : call healthMu.Lock [package-var]";
  "server:Server.healthCheck : call healthMu.Unlock [package-var]";
  "server:Server.healthCheck : call healthMu.Lock [package-var]";
  "server:Server.healthCheck : call healthMu.Unlock [package-var]";
  "server:Server.healthCheck : assign healthStatus [package-var]";
  "server:Server.healthCheck : assign healthLastPing [package-var]";
  "server:Server.Healthy : call healthMu.Lock [package-var]";
  "server:Server.Healthy : call healthMu.Unlock [package-var]";
  "server:Server.serveSign : assign opts.Audit.Attributes[""client.ip""] [local-alias]";
  "server:Server.serveSign : assign opts.Audit.Attributes[""client.filename""] [local-alias]";
  "server:Server.serveSign : assign opts.Audit.Attributes[""perf.size.in""] [local-alias]";
  "server:Server.serveSign : assign opts.Audit.Attributes[""perf.size.patch""] [local-alias]";
  "config:Config.NewToken : assign config.Tokens [receiver]";
  "config:Config.NewToken : assign config.Tokens[name] [receiver]";
  "config:Config.NewKey : assign config.Keys [receiver]";
  "config:Config.NewKey : assign config.Keys[name] [receiver]";
  "config:KeyConfig.SetToken : assign keyConf.Token [receiver]";
  "config:KeyConfig.SetToken : assign keyConf.token [receiver]";
  "config:NotaryConfig.Validate : assign n.NotaryURL [receiver]";
  "config:NotaryConfig.Validate : assign n.SubmissionRegion [receiver]"
]%string.
Definition reviewed_receiver_fields : list string := ["Config"]%string.
Definition reviewed_routes : list string := [
  "public Get ""/health"" s.serveHealth";
  "public Get ""/directory"" handleFunc(s.serveDirectory)";
  "auth Get ""/"" handleFunc(s.serveHome)";
  "auth Get ""/list_keys"" handleFunc(s.serveListKeys)";
  "auth Get ""/keys/{key}"" handleFunc(s.serveGetKey)";
  "auth Post ""/sign"" handleFunc(s.serveSign)"
]%string.
Definition reviewed_middleware : list string := [
  "r.Use s.realIP";
  "r.Use zhttp.LoggingMiddleware()";
  "r.Use zhttp.RecoveryMiddleware";
  "r.Use compresshttp.Middleware";
  "a := r.With(authmodel.Middleware(s.auth))"
]%string.
