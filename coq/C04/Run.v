(* C04/Run.v — model evaluation for harness requests.
   input: [ keys clients tokens req ]
     keys:    [ [name token alias [roles] hide] ... ]
     clients: [ [fp ca [roles]] ... ]
     tokens:  [ names ]
     req:     [ ep key has_filename sigtype_ok digest_ok flags_ok peer peer_trusted [[hop trusted]...] [[fp ca]...] [[fp ca]...] ]
   output: [ kind a b [listing]  ip proxied ]   kind 0 = status a ; 1 = touch token a key b ; 2 = listing *)
From Relic Require Import Base.Prelude Base.Val Generated.C04_gen C04.Model C04.History C04.Names.

Definition vkey (v : val) : Z * keyconf :=
  (vz (vnth 0 v), mkK (vz (vnth 1 v)) (vz (vnth 2 v)) (map vz (vl (vnth 3 v))) (vbool (vnth 4 v))).
Definition vclient (v : val) : client := mkCl (vz (vnth 0 v)) (vz (vnth 1 v)) (map vz (vl (vnth 2 v))).
Definition vcert (v : val) : cert := mkCert (vz (vnth 0 v)) (vz (vnth 1 v)).
Definition vep (z : Z) : endpoint := if z =? 0 then EpSign else if z =? 1 then EpGetKey else if z =? 2 then EpList else EpHome.
Definition vreq (v : val) : request :=
  mkReq (vep (vz (vnth 0 v))) (vz (vnth 1 v)) (vbool (vnth 2 v)) (vbool (vnth 3 v)) (vbool (vnth 4 v)) (vbool (vnth 5 v))
        (vz (vnth 6 v)) (vbool (vnth 7 v)) (map (fun h => (vz (vnth 0 h), vbool (vnth 1 h))) (vl (vnth 8 v)))
        (map vcert (vl (vnth 9 v))) (map vcert (vl (vnth 10 v))).

Definition run_single (v : val) : val :=
  let cf := mkCfg (map vkey (vl (vnth 0 v))) (map vclient (vl (vnth 1 v))) (map vz (vl (vnth 2 v))) in
  let rq := vreq (vnth 3 v) in
  let '(ip, proxied) := fst (identity cf rq) in
  match handle cf rq with
  | Status c => VL [VZ 0; VZ c; VZ 0; VL []; VZ ip; of_bool proxied]
  | Touch t k => VL [VZ 1; VZ t; VZ k; VL []; VZ ip; of_bool proxied]
  | Listing l => VL [VZ 2; VZ 0; VZ 0; VZs l; VZ ip; of_bool proxied]
  end.

(* histories on one long-lived server:
   input: [ 1 keys xclients tokens [hreq ...] ]
     xclients: [ [mapkey [roots] [roles] nick] ... ]
     hreq:     [ ep key has_filename sigtype_ok digest_ok flags_ok peer peer_trusted [[hop trusted]...] now [xcert...] [xcert...] ]   (TLS chain, header chain)
     xcert:    [ id key subject signer notbefore notafter [eku] ca ]
   output: [ [kind a b [listing] ip proxied authenticated [roles] nick dn] ... ]  one entry per request, in order *)
Definition vxcert (v : val) : xcert :=
  mkX (vz (vnth 0 v)) (vz (vnth 1 v)) (vz (vnth 2 v)) (vz (vnth 3 v)) (vz (vnth 4 v)) (vz (vnth 5 v)) (map vz (vl (vnth 6 v))) (vbool (vnth 7 v)).
Definition vxclient (v : val) : xclient :=
  mkXC (vz (vnth 0 v)) (map vz (vl (vnth 1 v))) (map vz (vl (vnth 2 v))) (vz (vnth 3 v)).
Definition vhreq (v : val) : hreq :=
  mkHR (mkReq (vep (vz (vnth 0 v))) (vz (vnth 1 v)) (vbool (vnth 2 v)) (vbool (vnth 3 v)) (vbool (vnth 4 v)) (vbool (vnth 5 v))
              (vz (vnth 6 v)) (vbool (vnth 7 v)) (map (fun h => (vz (vnth 0 h), vbool (vnth 1 h))) (vl (vnth 8 v))) [] [])
       (vz (vnth 9 v)) (map vxcert (vl (vnth 10 v))) (map vxcert (vl (vnth 11 v))).
Definition out_val (rq : hreq) (o : outcome * result ident) : val :=
  let b := h_base rq in
  let '(ip, proxied) := real_ip (rq_peer b) (rq_peer_trusted b) (rq_hops b) in
  let idv := match snd o with
             | Ok i => [VZ 1; VZs (id_roles i); VZ (id_name i); of_bool (id_dn i)]
             | _ => [VZ 0; VL []; VZ 0; VZ 0]
             end in
  match fst o with
  | Status c => VL ([VZ 0; VZ c; VZ 0; VL []; VZ ip; of_bool proxied] ++ idv)
  | Touch t k => VL ([VZ 1; VZ t; VZ k; VL []; VZ ip; of_bool proxied] ++ idv)
  | Listing l => VL ([VZ 2; VZ 0; VZ 0; VZs l; VZ ip; of_bool proxied] ++ idv)
  end.
Definition run_history (v : val) : val :=
  let cf := mkHC (mkCfg (map vkey (vl (vnth 1 v))) [] (map vz (vl (vnth 3 v)))) (map vxclient (vl (vnth 2 v))) in
  let rqs := map vhreq (vl (vnth 4 v)) in
  VL (map (fun p => out_val (fst p) (snd p)) (combine rqs (hrun cf fresh rqs))).

(* key names end to end (C04/Names.v):
   input: [ 2 keys clients tokens mats workers req ]
     mats:    [ [entry keypair certpair tokencertpair] ... ]      workers: [ token names opened through token/worker ]
   output: [ kind a b [listing] ip proxied  fkind f1 f2 f3 f4 ]
     fkind 0 none ; 1 failed after the token was asked (f1 = error class) ; 2 signed: f1 entry whose private key signed,
     f2 its key pair, f3 pair of the certificate attached, f4 entry named by the audit record ; 3 disclosed: f1 entry, f2 pair *)
Definition vmat (v : val) : Z * mat := (vz (vnth 0 v), mkM (vz (vnth 1 v)) (vz (vnth 2 v)) (vz (vnth 3 v))).
Definition fin_val (f : fin) : list val :=
  match f with
  | FErr e => [VZ 1; VZ e; VZ 0; VZ 0; VZ 0]
  | FSigned m pr cp au => [VZ 2; VZ m; VZ pr; VZ cp; VZ au]
  | FDisclosed m cp => [VZ 3; VZ m; VZ cp; VZ 0; VZ 0]
  end.
Definition run_names (v : val) : val :=
  let cf := mkCfg (map vkey (vl (vnth 1 v))) (map vclient (vl (vnth 2 v))) (map vz (vl (vnth 3 v))) in
  let nc := mkN cf (map vmat (vl (vnth 4 v))) (map vz (vl (vnth 5 v))) in
  let rq := vreq (vnth 6 v) in
  let '(ip, proxied) := fst (identity cf rq) in
  match handle_e nc rq with
  | EStatus c => VL [VZ 0; VZ c; VZ 0; VL []; VZ ip; of_bool proxied; VZ 0; VZ 0; VZ 0; VZ 0; VZ 0]
  | ETouch t k f => VL ([VZ 1; VZ t; VZ k; VL []; VZ ip; of_bool proxied] ++ fin_val f)
  | EListing l => VL [VZ 2; VZ 0; VZ 0; VZs l; VZ ip; of_bool proxied; VZ 0; VZ 0; VZ 0; VZ 0; VZ 0]
  end.

Definition run (v : val) : val :=
  match vnth 0 v with
  | VZ z => if z =? 2 then run_names v else run_history v
  | _ => run_single v
  end.
