(* C04/NamesProofs.v — proofs about key-name resolution end to end (statements repeated in C04/Properties.v).
   Every site (which name / which entry a call passes on) is a definition of Generated/C04_gen.v and is unfolded here,
   never assumed: when a site changes in the Go source these proofs are re-checked against the new term. *)
From Relic Require Import Base.Prelude Generated.C04_gen C04.Model C04.Proofs C04.Names.
Require Coq.Strings.String.
Import Coq.Strings.String.StringSyntax.
Delimit Scope string_scope with string.

(* ------------------------------------------------------------------ the sites, as read from the source *)
Lemma name_is_map_key : keyconf_name_is_field = true /\ normalize_names_keys_by_map_key = true.
Proof. split; reflexivity. Qed.

(* config.GetKey looks at the requested entry and, from there, at the entry its alias names — and returns that one *)
Lemma getkey_reads_one_alias :
  getkey_map_lookups = [NParam 0; NAliasOf (CRaw (NParam 0))] /\ getkey_returns = CRaw (NAliasOf (CRaw (NParam 0))).
Proof. split; reflexivity. Qed.

(* the real tokens resolve the name they are given and load the material of the entry they find; PKCS#11 = file *)
Lemma tokens_resolve_what_they_get :
  file_resolve_name = NParam 1 /\ file_material_conf = CGetKey file_resolve_name /\ file_key_conf = file_material_conf /\
  p11_resolve_name = file_resolve_name /\ p11_material_conf = file_material_conf.
Proof. repeat split; reflexivity. Qed.

(* the key cache is indexed by the very name it looks up *)
Lemma cache_indexed_by_lookup_name : Forall (fun i => i = cache_inner_name) cache_index_names /\ cache_index_names <> [].
Proof. split; [repeat constructor | discriminate]. Qed.

Lemma worker_only_for_pkcs11 : open_worker_types = ["pkcs11"%string] /\ default_token_type = "pkcs11"%string.
Proof. split; reflexivity. Qed.

(* ------------------------------------------------------------------ wrappers *)
Lemma wrap_same : forall ks tok n, wrap ks (NParam 1) tok n = tok n.
Proof. intros. unfold wrap, with_np. cbn. reflexivity. Qed.

(* any stack of wrappers, of any depth, that pass on the name they receive is transparent *)
Lemma wraps_transparent : forall ks ws tok n,
  Forall (fun w => w = NParam 1) ws -> wraps ks ws tok n = tok n.
Proof.
  intros ks ws tok n H. induction H as [|w r Hw _ IH]; [reflexivity|].
  cbn [wraps]. subst w. rewrite wrap_same. exact IH.
Qed.

Lemma server_stack_same : Forall (fun w => w = NParam 1) server_stack.
Proof. vm_compute. repeat constructor. Qed.
Lemma worker_stack_same : Forall (fun w => w = NParam 1) worker_stack.
Proof. vm_compute. repeat constructor. Qed.
Lemma stacks_nonempty : server_stack <> [] /\ worker_stack <> [].
Proof. split; vm_compute; discriminate. Qed.

Lemma file_getkey_spec : forall ks ms n,
  file_getkey ks ms n =
  match get_key ks n with
  | Ok (m, kc) => if m_key (mat_of ms m) =? 0 then Err E_NOKEYFILE
                  else Ok (mkTK m (m_key (mat_of ms m)) (m_key (mat_of ms m)) (Ok (m, kc)) (m_tokcert (mat_of ms m)))
  | Err e => Err e
  | Panic e => Panic e
  end.
Proof.
  intros ks ms n. unfold file_getkey, file_material_conf, file_key_conf, with_np. cbn.
  destruct (get_key ks n) as [[m kc]|e|e]; reflexivity.
Qed.

Lemma direct_getkey_spec : forall ks ms n, direct_getkey ks ms n = file_getkey ks ms n.
Proof. intros. unfold direct_getkey. apply wraps_transparent. exact server_stack_same. Qed.
Lemma worker_backing_spec : forall ks ms n, worker_backing ks ms n = file_getkey ks ms n.
Proof. intros. unfold worker_backing. apply wraps_transparent. exact worker_stack_same. Qed.

(* ------------------------------------------------------------------ re-resolution *)
Lemma get_key_lookup : forall ks n rn kc, get_key ks n = Ok (rn, kc) -> lookup rn ks = Some kc.
Proof.
  intros ks n rn kc H. apply get_key_spec in H. destruct H as [H _]. unfold resolve1 in H.
  destruct (lookup n ks) as [kc0|] eqn:L; [|discriminate].
  destruct (k_alias kc0 =? 0).
  - injection H as <- <-. exact L.
  - destruct (lookup (k_alias kc0) ks) as [kc1|] eqn:L1; [|discriminate].
    destruct (k_alias kc1 =? 0); [|discriminate]. injection H as <- <-. exact L1.
Qed.

(* the entry GetKey returns never carries an alias of its own (the guard getkey_alias_of_alias) ... *)
Lemma resolved_entry_has_no_alias : forall ks n rn kc, get_key ks n = Ok (rn, kc) -> k_alias kc = 0.
Proof.
  intros ks n rn kc H. apply get_key_spec in H. destruct H as [H _]. unfold resolve1 in H.
  destruct (lookup n ks) as [kc0|]; [|discriminate].
  destruct (k_alias kc0 =? 0) eqn:A.
  - injection H as _ <-. apply Z.eqb_eq. exact A.
  - destruct (lookup (k_alias kc0) ks) as [kc1|]; [|discriminate].
    destruct (k_alias kc1 =? 0) eqn:A1; [|discriminate]. injection H as _ <-. apply Z.eqb_eq. exact A1.
Qed.

(* ... hence resolution is IDEMPOTENT, for every alias graph: looking the resolved name up again finds the same entry *)
Lemma get_key_idempotent : forall ks n rn kc, get_key ks n = Ok (rn, kc) -> get_key ks rn = Ok (rn, kc).
Proof.
  intros ks n rn kc H. pose proof (get_key_lookup _ _ _ _ H) as L. pose proof (resolved_entry_has_no_alias _ _ _ _ H) as A.
  apply get_key_spec in H. destruct H as [_ Ht].
  apply get_key_spec. split; [|exact Ht]. unfold resolve1. rewrite L, A. reflexivity.
Qed.

Lemma all_terminal : forall ks n, terminal_at ks n.
Proof. intros ks n rn kc H. left. exact (resolved_entry_has_no_alias _ _ _ _ H). Qed.

Lemma relayers_all_same : forall ks fs n,
  Forall (fun f => f = false) fs -> relayers ks fs n = get_key ks n.
Proof.
  intros ks fs n H. induction H as [|f r Hf _ IH]; [reflexivity|].
  cbn [relayers]. subst f. rewrite IH. destruct (get_key ks n) as [[rn kc]|e|e]; reflexivity.
Qed.

(* any pipeline of re-resolving components, of any length, whatever name each passes on (the one it received or Name() of
   the entry it found): the entry used at the end is the entry the FIRST resolution found *)
Lemma relayers_idempotent : forall ks fs n, relayers ks fs n = get_key ks n.
Proof.
  intros ks fs. induction fs as [|f r IH]; intros n; [reflexivity|].
  cbn [relayers]. destruct (get_key ks n) as [[rn kc]|e|e] eqn:G; [|reflexivity|reflexivity].
  destruct f; [|rewrite IH; exact G]. rewrite IH. exact (get_key_idempotent _ _ _ _ G).
Qed.

Lemma resolve_times_idempotent : forall ks k n, (1 <= k)%nat -> resolve_times ks k n = get_key ks n.
Proof.
  intros ks k. induction k as [|k IH]; intros n H; [lia|].
  destruct k as [|k']; [reflexivity|].
  change (resolve_times ks (S (S k')) n) with
    (match get_key ks n with Ok (rn, _) => resolve_times ks (S k') rn | Err e => Err e | Panic e => Panic e end).
  destruct (get_key ks n) as [[rn kc]|e|e] eqn:G; [|reflexivity|reflexivity].
  rewrite IH by lia. exact (get_key_idempotent _ _ _ _ G).
Qed.

(* a chain of aliases through complete entries, of any length: entry i+1 is an alias of entry i, all with token, key and
   roles of their own.  Entry 2 denotes entry 1; every name further up is a configuration error — its key is never used *)
Fixpoint chain_keys (len : nat) : keys :=
  match len with
  | O => [(1, mkK 7 0 [1] false)]
  | S l => (Z.of_nat (S (S l)), mkK 7 (Z.of_nat (S l)) [Z.of_nat (S (S l))] false) :: chain_keys l
  end.
Lemma chain_lookup : forall len i, (1 <= i <= S len)%nat ->
  lookup (Z.of_nat i) (chain_keys len) = Some (mkK 7 (Z.of_nat (pred i)) [Z.of_nat i] false).
Proof.
  induction len as [|l IH]; intros i H; cbn [chain_keys lookup].
  - assert (i = 1%nat) by lia. subst i. reflexivity.
  - destruct (Z.of_nat (S (S l)) =? Z.of_nat i) eqn:E.
    + apply Z.eqb_eq in E. apply Nat2Z.inj in E. subst i. reflexivity.
    + apply Z.eqb_neq in E. apply IH. assert (i <> S (S l)) by (intro; subst; apply E; reflexivity). lia.
Qed.
Lemma chain_refused : forall len i, (3 <= i <= S len)%nat ->
  get_key (chain_keys len) (Z.of_nat i) = Err E_ALIAS_OF_ALIAS.
Proof.
  intros len i H. unfold get_key. rewrite (chain_lookup len i) by lia. unfold_gen. cbn [negb k_alias].
  destruct (Z.of_nat (pred i) =? 0) eqn:E; [apply Z.eqb_eq in E; lia|]. cbn [negb].
  rewrite (chain_lookup len (pred i)) by lia. cbn [k_alias].
  destruct (Z.of_nat (pred (pred i)) =? 0) eqn:E2; [apply Z.eqb_eq in E2; lia|]. reflexivity.
Qed.
Lemma chain_second : forall len, (1 <= len)%nat ->
  get_key (chain_keys len) (Z.of_nat 2) = Ok (Z.of_nat 1, mkK 7 0 [1] false).
Proof.
  intros len H. apply get_key_spec. split; [|cbn; discriminate].
  unfold resolve1. rewrite (chain_lookup len 2) by lia. cbn [k_alias pred].
  change (Z.of_nat 1 =? 0) with false. cbn iota.
  rewrite (chain_lookup len 1) by lia. reflexivity.
Qed.

(* ------------------------------------------------------------------ the views refine the single-request model *)
Lemma serve_sign_e_refines : forall nc u rq, erase (serve_sign_e nc u rq) = serve_sign (n_base nc) u rq.
Proof.
  intros nc u rq. unfold serve_sign_e, serve_sign, sign_getkey_arg, sign_allowed_conf, sign_init_token, sign_init_name, with_req.
  cbn [ceval neval e_req].
  destruct (rq_key rq =? 0); [reflexivity|].
  destruct (negb (rq_has_filename rq)); [reflexivity|].
  destruct (get_key (cf_keys (n_base nc)) (rq_key rq)) as [[rn kc]|e|e]; [|reflexivity|reflexivity].
  destruct (sign_denied (allowed u rn kc)); [reflexivity|].
  destruct (negb (rq_sigtype_ok rq)); [reflexivity|].
  destruct (negb (rq_digest_ok rq)); [reflexivity|].
  destruct (negb (rq_flags_ok rq)); [reflexivity|].
  destruct (negb (mem (k_token kc) (cf_tokens (n_base nc)))); reflexivity.
Qed.

Lemma serve_getkey_e_refines : forall nc u rq, erase (serve_getkey_e nc u rq) = serve_getkey (n_base nc) u rq.
Proof.
  intros nc u rq. unfold serve_getkey_e, serve_getkey, view_getkey_arg, view_allowed_conf, view_info_conf, info_init_token, info_init_name, with_req, with_cp.
  cbn [ceval neval e_req e_cp zassoc Z.eqb Pos.eqb].
  destruct (get_key (cf_keys (n_base nc)) (rq_key rq)) as [[rn kc]|e|e]; [|reflexivity|reflexivity].
  destruct (getkey_view_allowed true (allowed u rn kc)); [|reflexivity].
  destruct (negb (mem (k_token kc) (cf_tokens (n_base nc)))); reflexivity.
Qed.

Lemma list_keys_e_refines : forall ks u, list_keys_e ks u = list_keys ks u.
Proof.
  intros ks u. unfold list_keys_e, list_keys. apply flat_map_ext. intros [n kc].
  unfold list_skip_conf, list_getkey_arg, list_allowed_conf, list_appended_name, with_mapkey.
  cbn [ceval neval e_mapkey e_mapval fst snd].
  destruct (list_skip_hidden (k_hide kc)); [reflexivity|].
  destruct (get_key ks n) as [[rn kc']|e|e]; reflexivity.
Qed.

Lemma handle_e_refines : forall nc rq, erase (handle_e nc rq) = handle (n_base nc) rq.
Proof.
  intros nc rq. unfold handle_e, handle, dispatch_e, dispatch.
  destruct (snd (identity (n_base nc) rq)) as [u|e|e]; [|reflexivity|reflexivity].
  destruct (rq_ep rq); cbn [erase].
  - apply serve_sign_e_refines.
  - apply serve_getkey_e_refines.
  - rewrite list_keys_e_refines. reflexivity.
  - reflexivity.
Qed.

(* ------------------------------------------------------------------ /sign *)
(* what a direct (non-worker) token does with the name the sign view passes *)
Lemma init_sign_direct : forall ks ms n l,
  init_sign ks ms (direct_getkey ks ms) n = Ok l ->
  exists m kc, get_key ks n = Ok (m, kc) /\ tk_entry (l_key l) = m /\ tk_priv (l_key l) = m_key (mat_of ms m) /\
               m_key (mat_of ms m) <> 0 /\ l_cert l = m_key (mat_of ms m) /\ l_conf l = Ok (m, kc) /\
               (l_cert_entry l = m) .
Proof.
  intros ks ms n l H. unfold init_sign, init_key, init_initkey_name, initkey_getkey_name, initkey_x509_conf, initkey_returned_conf, with_np, with_keyconf in H.
  cbn [neval ceval e_np e_keyconf zassoc Z.eqb Pos.eqb bind] in H.
  rewrite direct_getkey_spec, file_getkey_spec in H.
  destruct (get_key ks n) as [[m kc]|e|e]; [|discriminate|discriminate].
  destruct (m_key (mat_of ms m) =? 0) eqn:K0; [discriminate|].
  cbn [bind tk_conf tk_cert tk_entry tk_pub fst] in H.
  exists m, kc. split; [reflexivity|].
  set (pk := m_key (mat_of ms m)) in *.
  set (cert := if m_cert (mat_of ms m) =? 0 then m_tokcert (mat_of ms m) else m_cert (mat_of ms m)) in *.
  destruct (cert =? 0) eqn:C0.
  - cbn [bind l_cert] in H. rewrite Z.eqb_refl in H. discriminate.
  - destruct (cert =? pk) eqn:CP; [|discriminate].
    cbn [bind l_cert] in H. rewrite C0 in H. injection H as <-. cbn.
    apply Z.eqb_eq in CP. apply Z.eqb_neq in K0.
    repeat split; auto. destruct (m_cert (mat_of ms m) =? 0); reflexivity.
Qed.

Lemma sign_fin_direct : forall nc t n m pr cp au,
  mem t (n_worker nc) = false ->
  sign_fin nc t n = FSigned m pr cp au ->
  exists kc, get_key (cf_keys (n_base nc)) n = Ok (m, kc) /\ pr = m_key (mat_of (n_mats nc) m) /\ pr <> 0 /\ cp = pr /\ au = m.
Proof.
  intros nc t n m pr cp au W H. unfold sign_fin, token_getkey in H. rewrite W in H.
  destruct (init_sign (cf_keys (n_base nc)) (n_mats nc) (direct_getkey (cf_keys (n_base nc)) (n_mats nc)) n) as [l|e|e] eqn:I; [|discriminate|discriminate].
  destruct (init_sign_direct _ _ _ _ I) as [m' [kc [G [E1 [E2 [E3 [E4 [E5 _]]]]]]]].
  rewrite E1, E2, E4, E5 in H. injection H as H1 H2 H3 H4. subst m' pr cp au.
  exists kc. repeat split; auto.
Qed.

(* /sign on a token the server opens itself: the entry whose private key signs is the entry the requested name resolves
   to (one alias) and whose roles were checked; the certificate attached and the audit record are that entry's *)
Lemma sign_uses_checked_entry : forall nc rq t p m pr cp au,
  handle_e nc rq = ETouch t p (FSigned m pr cp au) -> mem t (n_worker nc) = false ->
  exists u, snd (identity (n_base nc) rq) = Ok u /\
  exists kc, resolve1 (cf_keys (n_base nc)) (rq_key rq) = Some (m, kc) /\ allowed u m kc = true /\
             t = k_token kc /\ t <> 0 /\ mem t (cf_tokens (n_base nc)) = true /\
             pr = m_key (mat_of (n_mats nc) m) /\ pr <> 0 /\ cp = pr /\ au = m.
Proof.
  intros nc rq t p m pr cp au H W. unfold handle_e, dispatch_e in H.
  destruct (snd (identity (n_base nc) rq)) as [u|e|e] eqn:I; [|discriminate|discriminate].
  exists u. split; [reflexivity|].
  destruct (rq_ep rq); [| |discriminate|discriminate].
  - unfold serve_sign_e, sign_getkey_arg, sign_allowed_conf, sign_init_token, sign_init_name, with_req in H.
    cbn [ceval neval e_req] in H.
    destruct (rq_key rq =? 0); [discriminate|].
    destruct (negb (rq_has_filename rq)); [discriminate|].
    destruct (get_key (cf_keys (n_base nc)) (rq_key rq)) as [[rn kc]|e|e] eqn:G; [|discriminate|discriminate].
    unfold sign_denied in H. destruct (allowed u rn kc) eqn:A; cbn [negb] in H; [|discriminate].
    destruct (negb (rq_sigtype_ok rq)); [discriminate|].
    destruct (negb (rq_digest_ok rq)); [discriminate|].
    destruct (negb (rq_flags_ok rq)); [discriminate|].
    destruct (mem (k_token kc) (cf_tokens (n_base nc))) eqn:M; cbn [negb] in H; [|discriminate].
    injection H as Ht Hp Hf. subst t p.
    destruct (sign_fin_direct _ _ _ _ _ _ _ W Hf) as [kc' [G' [E1 [E2 [E3 E4]]]]].
    rewrite G in G'. injection G' as <- <-.
    apply get_key_spec in G. destruct G as [G Ht].
    exists kc. repeat split; auto.
  - unfold serve_getkey_e, view_getkey_arg, view_allowed_conf, view_info_conf, info_init_token, info_init_name, with_req, with_cp in H.
    cbn [ceval neval e_req e_cp zassoc Z.eqb Pos.eqb] in H.
    destruct (get_key (cf_keys (n_base nc)) (rq_key rq)) as [[rn kc]|e|e]; [| |discriminate].
    + destruct (getkey_view_allowed true (allowed u rn kc)); [|discriminate].
      destruct (negb (mem (k_token kc) (cf_tokens (n_base nc)))); [discriminate|].
      injection H as _ _ Hf. unfold info_fin in Hf.
      destruct (init_key _ _ _ _); discriminate.
    + destruct (getkey_view_allowed false true); discriminate.
Qed.

Lemma resolve1_lookup : forall ks n m kc, resolve1 ks n = Some (m, kc) -> lookup m ks = Some kc.
Proof.
  intros ks n m kc R. unfold resolve1 in R. destruct (lookup n ks) as [kc0|] eqn:L0; [|discriminate].
  destruct (k_alias kc0 =? 0).
  - injection R as <- <-. exact L0.
  - destruct (lookup (k_alias kc0) ks) as [kc1|] eqn:L1; [|discriminate].
    destruct (k_alias kc1 =? 0); [|discriminate]. injection R as <- <-. exact L1.
Qed.
Lemma resolve1_denotes : forall ks n m kc, resolve1 ks n = Some (m, kc) -> spec_denotes ks n = Some m.
Proof.
  intros ks n m kc R. unfold resolve1 in R. unfold spec_denotes. destruct (lookup n ks) as [kc0|]; [|discriminate].
  destruct (k_alias kc0 =? 0).
  - injection R as <- _. reflexivity.
  - destruct (lookup (k_alias kc0) ks) as [kc1|]; [|discriminate].
    destruct (k_alias kc1 =? 0); [|discriminate]. injection R as <- _. reflexivity.
Qed.
Lemma may_use_of_resolve1 : forall ks u n m kc,
  resolve1 ks n = Some (m, kc) -> k_token kc <> 0 -> allowed u m kc = true ->
  spec_may_use ks u n m = true /\ spec_entitled ks u m = true.
Proof.
  intros ks u n m kc R T A.
  assert (E : spec_entitled ks u m = true).
  { unfold spec_entitled. rewrite (resolve1_lookup _ _ _ _ R), A.
    destruct (k_token kc =? 0) eqn:T0; [apply Z.eqb_eq in T0; contradiction | reflexivity]. }
  split; [|exact E]. unfold spec_may_use. rewrite (resolve1_denotes _ _ _ _ R), Z.eqb_refl, E. reflexivity.
Qed.

(* the roles of the entry whose key signs admit the caller: nobody is signed for with a key whose own roles refuse him *)
Lemma sign_within_roles : forall nc rq t p m pr cp au,
  handle_e nc rq = ETouch t p (FSigned m pr cp au) -> mem t (n_worker nc) = false ->
  exists u, snd (identity (n_base nc) rq) = Ok u /\
            spec_may_use (cf_keys (n_base nc)) u (rq_key rq) m = true /\ spec_entitled (cf_keys (n_base nc)) u m = true.
Proof.
  intros nc rq t p m pr cp au H W.
  destruct (sign_uses_checked_entry _ _ _ _ _ _ _ _ H W) as [u [I [kc [R [A [Ht [Ht0 _]]]]]]].
  exists u. split; [exact I|]. subst t. exact (may_use_of_resolve1 _ _ _ _ _ R Ht0 A).
Qed.

(* ------------------------------------------------------------------ /keys/{key} *)
Lemma init_key_direct : forall ks ms n l,
  init_key ks ms (direct_getkey ks ms) n = Ok l ->
  exists m kc, get_key ks n = Ok (m, kc) /\ tk_entry (l_key l) = m /\
               ((l_cert_entry l = 0 /\ l_cert l = 0) \/ (l_cert_entry l = m /\ l_cert l = m_key (mat_of ms m) /\ l_cert l <> 0)).
Proof.
  intros ks ms n l H. unfold init_key, initkey_getkey_name, initkey_x509_conf, initkey_returned_conf, with_np, with_keyconf in H.
  cbn [neval ceval e_np e_keyconf zassoc Z.eqb Pos.eqb bind] in H.
  rewrite direct_getkey_spec, file_getkey_spec in H.
  destruct (get_key ks n) as [[m kc]|e|e]; [|discriminate|discriminate].
  destruct (m_key (mat_of ms m) =? 0) eqn:K0; [discriminate|].
  cbn [bind tk_conf tk_cert tk_entry tk_pub fst] in H.
  exists m, kc. split; [reflexivity|].
  set (pk := m_key (mat_of ms m)) in *.
  set (cert := if m_cert (mat_of ms m) =? 0 then m_tokcert (mat_of ms m) else m_cert (mat_of ms m)) in *.
  destruct (cert =? 0) eqn:C0.
  - injection H as <-. cbn. split; [reflexivity|]. left. split; reflexivity.
  - destruct (cert =? pk) eqn:CP; [|discriminate]. injection H as <-. cbn.
    apply Z.eqb_eq in CP. apply Z.eqb_neq in C0. split; [reflexivity|]. right.
    repeat split; auto. destruct (m_cert (mat_of ms m) =? 0); reflexivity.
Qed.

(* what the unchanged source does: the view authorises the entry rn the requested name resolves to, hands the token
   Name() of that entry, and the token resolves THAT name again — the certificate disclosed is the one of the entry rn
   resolves to, which is rn itself only when rn has no alias of its own *)
Lemma keys_discloses_second_hop : forall nc rq t p m cp,
  handle_e nc rq = ETouch t p (FDisclosed m cp) -> mem t (n_worker nc) = false ->
  exists u, snd (identity (n_base nc) rq) = Ok u /\
  exists rn kc, resolve1 (cf_keys (n_base nc)) (rq_key rq) = Some (rn, kc) /\ allowed u rn kc = true /\
                t = k_token kc /\ t <> 0 /\ p = rn /\
                ((m = 0 /\ cp = 0) \/
                 (exists kc2, get_key (cf_keys (n_base nc)) rn = Ok (m, kc2) /\ cp = m_key (mat_of (n_mats nc) m) /\ cp <> 0)).
Proof.
  intros nc rq t p m cp H W. unfold handle_e, dispatch_e in H.
  destruct (snd (identity (n_base nc) rq)) as [u|e|e] eqn:I; [|discriminate|discriminate].
  exists u. split; [reflexivity|].
  destruct (rq_ep rq); [| |discriminate|discriminate].
  - unfold serve_sign_e, sign_getkey_arg, sign_allowed_conf, sign_init_token, sign_init_name, with_req in H.
    cbn [ceval neval e_req] in H.
    destruct (rq_key rq =? 0); [discriminate|].
    destruct (negb (rq_has_filename rq)); [discriminate|].
    destruct (get_key (cf_keys (n_base nc)) (rq_key rq)) as [[rn kc]|e|e]; [|discriminate|discriminate].
    destruct (sign_denied (allowed u rn kc)); [discriminate|].
    destruct (negb (rq_sigtype_ok rq)); [discriminate|].
    destruct (negb (rq_digest_ok rq)); [discriminate|].
    destruct (negb (rq_flags_ok rq)); [discriminate|].
    destruct (negb (mem (k_token kc) (cf_tokens (n_base nc)))); [discriminate|].
    injection H as _ _ Hf. unfold sign_fin in Hf. destruct (init_sign _ _ _ _); discriminate.
  - unfold serve_getkey_e, view_getkey_arg, view_allowed_conf, view_info_conf, info_init_token, info_init_name, with_req, with_cp in H.
    cbn [ceval neval e_req e_cp zassoc Z.eqb Pos.eqb] in H.
    destruct (get_key (cf_keys (n_base nc)) (rq_key rq)) as [[rn kc]|e|e] eqn:G; [| |discriminate].
    2:{ destruct (getkey_view_allowed false true); discriminate. }
    unfold getkey_view_allowed in H. destruct (allowed u rn kc) eqn:A; cbn [andb] in H; [|discriminate].
    destruct (negb (mem (k_token kc) (cf_tokens (n_base nc)))); [discriminate|].
    injection H as Ht Hp Hf. subst t p.
    apply get_key_spec in G. destruct G as [G Ht].
    exists rn, kc. repeat split; auto.
    unfold info_fin, token_getkey in Hf. rewrite W in Hf.
    destruct (init_key (cf_keys (n_base nc)) (n_mats nc) (direct_getkey (cf_keys (n_base nc)) (n_mats nc)) rn) as [l|e|e] eqn:K; [|discriminate|discriminate].
    injection Hf as H1 H2.
    destruct (init_key_direct _ _ _ _ K) as [m' [kc2 [G2 [_ [[E1 E2]|[E1 [E2 E3]]]]]]].
    + left. split; congruence.
    + right. exists kc2. rewrite E1 in H1. subst m'. rewrite <- H2. repeat split; auto.
Qed.

(* ... and since resolution is idempotent the second look-up finds the checked entry again: the certificate disclosed is
   the certificate of the entry whose roles were checked, for every configuration *)
Lemma keys_discloses_checked_entry : forall nc rq t p m cp,
  handle_e nc rq = ETouch t p (FDisclosed m cp) -> mem t (n_worker nc) = false ->
  exists u, snd (identity (n_base nc) rq) = Ok u /\
  exists kc, resolve1 (cf_keys (n_base nc)) (rq_key rq) = Some (p, kc) /\ allowed u p kc = true /\ t = k_token kc /\
             (m = 0 \/ (m = p /\ cp = m_key (mat_of (n_mats nc) m) /\ cp <> 0 /\
                        spec_may_use (cf_keys (n_base nc)) u (rq_key rq) m = true /\ spec_entitled (cf_keys (n_base nc)) u m = true)).
Proof.
  intros nc rq t p m cp H W.
  destruct (keys_discloses_second_hop _ _ _ _ _ _ H W) as [u [I [rn [kc [R [A [Ht [Ht0 [Hp D]]]]]]]]].
  exists u. split; [exact I|]. subst p. exists kc. split; [exact R|]. split; [exact A|]. split; [exact Ht|].
  destruct D as [[D _]|[kc2 [G2 [C1 C2]]]]; [left; exact D|]. right.
  assert (G : get_key (cf_keys (n_base nc)) (rq_key rq) = Ok (rn, kc)).
  { apply get_key_spec. split; [exact R|]. subst t. exact Ht0. }
  rewrite (get_key_idempotent _ _ _ _ G) in G2. injection G2 as <- _.
  split; [reflexivity|]. split; [exact C1|]. split; [exact C2|]. subst t. exact (may_use_of_resolve1 _ _ _ _ _ R Ht0 A).
Qed.

(* the configurations that used to break this (relic before 1867fd2), kept as regression cases: old -> legacy -> release *)
Definition wit_keys : keys := [(1, mkK 7 0 [10] false); (2, mkK 7 1 [20] false); (3, mkK 0 2 [] false)].
Definition wit_nc (roles : list Z) (workers : list Z) (ms : mats) : ncfg := mkN (mkCfg wit_keys [mkCl 100 0 roles] [7]) ms workers.
Definition wit_rq (ep : endpoint) (n : Z) : request := mkReq ep n true true true true 50 false [] [mkCert 100 0] [].
Definition wit_files : mats := [(1, mkM 101 101 0); (2, mkM 102 102 0)].
Definition wit_hsm : mats := [(1, mkM 101 0 101); (2, mkM 102 0 102)].

Lemma init_sign_any : forall ks ms tok n l,
  init_sign ks ms tok n = Ok l ->
  exists k, tok n = Ok k /\ l_key l = k /\ l_conf l = tk_conf k /\ l_cert l <> 0 /\ l_cert l = tk_pub k.
Proof.
  intros ks ms tok n l H. unfold init_sign, init_key, init_initkey_name, initkey_getkey_name, initkey_x509_conf, initkey_returned_conf, with_np, with_keyconf in H.
  cbn [neval ceval e_np e_keyconf zassoc Z.eqb Pos.eqb bind] in H.
  destruct (tok n) as [k|e|e]; [|discriminate|discriminate]. exists k. split; [reflexivity|].
  cbn [bind] in H. destruct (tk_conf k) as [xc|e|e]; [|discriminate|discriminate]. cbn [bind] in H.
  set (cert := if m_cert (mat_of ms (fst xc)) =? 0 then tk_cert k else m_cert (mat_of ms (fst xc))) in *.
  destruct (cert =? 0) eqn:C0.
  - cbn [bind l_cert] in H. rewrite Z.eqb_refl in H. discriminate.
  - destruct (cert =? tk_pub k) eqn:CP; [|discriminate].
    cbn [bind l_cert] in H. rewrite C0 in H. injection H as <-. cbn.
    apply Z.eqb_eq in CP. apply Z.eqb_neq in C0. repeat split; auto.
Qed.

(* ------------------------------------------------------------------ tokens behind token/worker (type pkcs11) *)
Lemma worker_getkey_spec : forall ks ms n,
  worker_getkey ks ms n =
  match get_key ks n with
  | Ok (rn, kc) => match file_getkey ks ms rn with
                   | Ok k => Ok (mkTK (tk_entry k) (tk_priv k) (tk_pub k) (Ok (rn, kc)) (tk_cert k))
                   | Err e => Err e
                   | Panic e => Panic e
                   end
  | Err e => Err e
  | Panic e => Panic e
  end.
Proof.
  intros ks ms n. unfold worker_getkey, wk_key_conf, wk_rpc_name, wh_getkey_name, wk_sign_name, wh_sign_name, wk_config_conf, with_np, with_rpc, with_field.
  cbn [neval ceval e_np e_rpc e_field zassoc Z.eqb Pos.eqb].
  destruct (get_key ks n) as [[rn kc]|e|e]; [|reflexivity|reflexivity].
  cbn [bind]. rewrite worker_backing_spec.
  destruct (file_getkey ks ms rn) as [k|e|e]; reflexivity.
Qed.

(* the unchanged source, for a token behind the worker: the view authorises rn, the worker client resolves the requested
   name to rn as well and sends rn, the worker process resolves rn AGAIN: the key that signs belongs to the entry rn
   resolves to, the audit record names rn *)
Lemma sign_worker_second_hop : forall nc rq t p m pr cp au,
  handle_e nc rq = ETouch t p (FSigned m pr cp au) -> mem t (n_worker nc) = true ->
  exists u, snd (identity (n_base nc) rq) = Ok u /\
  exists rn kc, resolve1 (cf_keys (n_base nc)) (rq_key rq) = Some (rn, kc) /\ allowed u rn kc = true /\
                t = k_token kc /\ au = rn /\
                exists kc2, get_key (cf_keys (n_base nc)) rn = Ok (m, kc2) /\ pr = m_key (mat_of (n_mats nc) m) /\ pr <> 0.
Proof.
  intros nc rq t p m pr cp au H W. unfold handle_e, dispatch_e in H.
  destruct (snd (identity (n_base nc) rq)) as [u|e|e] eqn:I; [|discriminate|discriminate].
  exists u. split; [reflexivity|].
  destruct (rq_ep rq); [| |discriminate|discriminate].
  - unfold serve_sign_e, sign_getkey_arg, sign_allowed_conf, sign_init_token, sign_init_name, with_req in H.
    cbn [ceval neval e_req] in H.
    destruct (rq_key rq =? 0); [discriminate|].
    destruct (negb (rq_has_filename rq)); [discriminate|].
    destruct (get_key (cf_keys (n_base nc)) (rq_key rq)) as [[rn kc]|e|e] eqn:G; [|discriminate|discriminate].
    unfold sign_denied in H. destruct (allowed u rn kc) eqn:A; cbn [negb] in H; [|discriminate].
    destruct (negb (rq_sigtype_ok rq)); [discriminate|].
    destruct (negb (rq_digest_ok rq)); [discriminate|].
    destruct (negb (rq_flags_ok rq)); [discriminate|].
    destruct (negb (mem (k_token kc) (cf_tokens (n_base nc)))); [discriminate|].
    injection H as Ht Hp Hf. subst t p.
    exists rn, kc. pose proof G as G0. apply get_key_spec in G. destruct G as [G Ht].
    unfold sign_fin, token_getkey in Hf. rewrite W in Hf.
    destruct (init_sign (cf_keys (n_base nc)) (n_mats nc) (worker_getkey (cf_keys (n_base nc)) (n_mats nc)) (rq_key rq)) as [l|e|e] eqn:IS; [|discriminate|discriminate].
    destruct (init_sign_any _ _ _ _ _ IS) as [k [TK [E1 [E2 [E3 E4]]]]].
    rewrite worker_getkey_spec, G0, file_getkey_spec in TK.
    destruct (get_key (cf_keys (n_base nc)) rn) as [[m2 kc2]|e|e]; [|discriminate|discriminate].
    destruct (m_key (mat_of (n_mats nc) m2) =? 0) eqn:K0; [discriminate|].
    injection TK as <-. rewrite E1, E2 in Hf. cbn in Hf. injection Hf as Hm Hpr _ Ha.
    repeat split; auto.
    exists kc2. subst m2 pr. apply Z.eqb_neq in K0. repeat split; auto.
  - unfold serve_getkey_e, view_getkey_arg, view_allowed_conf, view_info_conf, info_init_token, info_init_name, with_req, with_cp in H.
    cbn [ceval neval e_req e_cp zassoc Z.eqb Pos.eqb] in H.
    destruct (get_key (cf_keys (n_base nc)) (rq_key rq)) as [[rn kc]|e|e]; [| |discriminate].
    + destruct (getkey_view_allowed true (allowed u rn kc)); [|discriminate].
      destruct (negb (mem (k_token kc) (cf_tokens (n_base nc)))); [discriminate|].
      injection H as _ _ Hf. unfold info_fin in Hf. destruct (init_key _ _ _ _); discriminate.
    + destruct (getkey_view_allowed false true); discriminate.
Qed.

Lemma sign_worker_checked_entry : forall nc rq t p m pr cp au,
  handle_e nc rq = ETouch t p (FSigned m pr cp au) -> mem t (n_worker nc) = true ->
  exists u, snd (identity (n_base nc) rq) = Ok u /\
  exists kc, resolve1 (cf_keys (n_base nc)) (rq_key rq) = Some (m, kc) /\ allowed u m kc = true /\ t = k_token kc /\ au = m /\
             pr = m_key (mat_of (n_mats nc) m) /\ pr <> 0 /\
             spec_may_use (cf_keys (n_base nc)) u (rq_key rq) m = true /\ spec_entitled (cf_keys (n_base nc)) u m = true.
Proof.
  intros nc rq t p m pr cp au H W.
  destruct (sign_worker_second_hop _ _ _ _ _ _ _ _ H W) as [u [I [rn [kc [R [A [Ht [Ha [kc2 [G2 [P1 P2]]]]]]]]]]].
  exists u. split; [exact I|].
  assert (T0 : k_token kc <> 0).
  { intro Z0. unfold handle_e, dispatch_e in H. rewrite I in H. destruct (rq_ep rq); try discriminate.
    - unfold serve_sign_e, sign_getkey_arg, with_req in H. cbn [ceval neval e_req] in H.
      destruct (rq_key rq =? 0); [discriminate|]. destruct (negb (rq_has_filename rq)); [discriminate|].
      destruct (get_key (cf_keys (n_base nc)) (rq_key rq)) as [[rn' kc']|e|e] eqn:G; [|discriminate|discriminate].
      apply get_key_spec in G. destruct G as [G Gt]. rewrite R in G. injection G as <- <-. contradiction.
    - unfold serve_getkey_e, view_getkey_arg, with_req in H. cbn [ceval neval e_req] in H.
      destruct (get_key (cf_keys (n_base nc)) (rq_key rq)) as [[rn' kc']|e|e] eqn:G.
      + apply get_key_spec in G. destruct G as [G Gt]. rewrite R in G. injection G as <- <-. contradiction.
      + destruct (getkey_view_allowed false true); discriminate.
      + discriminate. }
  assert (G : get_key (cf_keys (n_base nc)) (rq_key rq) = Ok (rn, kc)).
  { apply get_key_spec. split; assumption. }
  rewrite (get_key_idempotent _ _ _ _ G) in G2. injection G2 as <- _.
  exists kc. destruct (may_use_of_resolve1 _ _ _ _ _ R T0 A) as [S1 S2]. repeat split; auto.
Qed.

Lemma init_key_any : forall ks ms tok n l,
  init_key ks ms tok n = Ok l ->
  exists k, tok n = Ok k /\ l_key l = k /\
    ((l_cert_entry l = 0 /\ l_cert l = 0) \/
     (l_cert l <> 0 /\ l_cert l = tk_pub k /\
      exists xc, tk_conf k = Ok xc /\ l_cert_entry l = (if m_cert (mat_of ms (fst xc)) =? 0 then tk_entry k else fst xc))).
Proof.
  intros ks ms tok n l H. unfold init_key, initkey_getkey_name, initkey_x509_conf, initkey_returned_conf, with_np, with_keyconf in H.
  cbn [neval ceval e_np e_keyconf zassoc Z.eqb Pos.eqb bind] in H.
  destruct (tok n) as [k|e|e]; [|discriminate|discriminate]. exists k. split; [reflexivity|].
  cbn [bind] in H. destruct (tk_conf k) as [xc|e|e] eqn:TC; [|discriminate|discriminate]. cbn [bind] in H.
  set (cert := if m_cert (mat_of ms (fst xc)) =? 0 then tk_cert k else m_cert (mat_of ms (fst xc))) in *.
  destruct (cert =? 0) eqn:C0.
  - injection H as <-. cbn. split; [reflexivity|]. left. split; reflexivity.
  - destruct (cert =? tk_pub k) eqn:CP; [|discriminate]. injection H as <-. cbn.
    apply Z.eqb_eq in CP. apply Z.eqb_neq in C0. split; [reflexivity|]. right.
    split; [exact C0|]. split; [exact CP|]. exists xc. split; reflexivity.
Qed.

(* /keys/{key} on a token behind the worker: three look-ups by name (view -> worker client -> worker process), one entry *)
Lemma keys_worker_discloses_checked_entry : forall nc rq t p m cp,
  handle_e nc rq = ETouch t p (FDisclosed m cp) -> mem t (n_worker nc) = true ->
  exists u, snd (identity (n_base nc) rq) = Ok u /\
  exists kc, resolve1 (cf_keys (n_base nc)) (rq_key rq) = Some (p, kc) /\ allowed u p kc = true /\ t = k_token kc /\
             (m = 0 \/ (m = p /\ spec_may_use (cf_keys (n_base nc)) u (rq_key rq) m = true)).
Proof.
  intros nc rq t p m cp H W. unfold handle_e, dispatch_e in H.
  destruct (snd (identity (n_base nc) rq)) as [u|e|e] eqn:I; [|discriminate|discriminate].
  exists u. split; [reflexivity|].
  destruct (rq_ep rq); [| |discriminate|discriminate].
  - unfold serve_sign_e, sign_getkey_arg, sign_allowed_conf, sign_init_token, sign_init_name, with_req in H.
    cbn [ceval neval e_req] in H.
    destruct (rq_key rq =? 0); [discriminate|].
    destruct (negb (rq_has_filename rq)); [discriminate|].
    destruct (get_key (cf_keys (n_base nc)) (rq_key rq)) as [[rn kc]|e|e]; [|discriminate|discriminate].
    destruct (sign_denied (allowed u rn kc)); [discriminate|].
    destruct (negb (rq_sigtype_ok rq)); [discriminate|].
    destruct (negb (rq_digest_ok rq)); [discriminate|].
    destruct (negb (rq_flags_ok rq)); [discriminate|].
    destruct (negb (mem (k_token kc) (cf_tokens (n_base nc)))); [discriminate|].
    injection H as _ _ Hf. unfold sign_fin in Hf. destruct (init_sign _ _ _ _); discriminate.
  - unfold serve_getkey_e, view_getkey_arg, view_allowed_conf, view_info_conf, info_init_token, info_init_name, with_req, with_cp in H.
    cbn [ceval neval e_req e_cp zassoc Z.eqb Pos.eqb] in H.
    destruct (get_key (cf_keys (n_base nc)) (rq_key rq)) as [[rn kc]|e|e] eqn:G; [| |discriminate].
    2:{ destruct (getkey_view_allowed false true); discriminate. }
    unfold getkey_view_allowed in H. destruct (allowed u rn kc) eqn:A; cbn [andb] in H; [|discriminate].
    destruct (negb (mem (k_token kc) (cf_tokens (n_base nc)))); [discriminate|].
    injection H as Ht Hp Hf. subst t p.
    pose proof (get_key_idempotent _ _ _ _ G) as G1.
    apply get_key_spec in G. destruct G as [R T0].
    exists kc. repeat split; auto.
    unfold info_fin, token_getkey in Hf. rewrite W in Hf.
    destruct (init_key (cf_keys (n_base nc)) (n_mats nc) (worker_getkey (cf_keys (n_base nc)) (n_mats nc)) rn) as [l|e|e] eqn:K; [|discriminate|discriminate].
    injection Hf as H1 H2.
    destruct (init_key_any _ _ _ _ _ K) as [k [TK [_ [[E1 E2]|[E1 [E2 [xc [TC E3]]]]]]]].
    + left. congruence.
    + right. rewrite worker_getkey_spec, G1, file_getkey_spec, G1 in TK.
      destruct (m_key (mat_of (n_mats nc) rn) =? 0); [discriminate|]. injection TK as <-.
      cbn in TC. injection TC as <-. cbn in E3.
      assert (m = rn) by (destruct (m_cert (mat_of (n_mats nc) rn) =? 0); congruence).
      split; [assumption|]. rewrite H. exact (proj1 (may_use_of_resolve1 _ _ _ _ _ R T0 A)).
Qed.

(* non-vacuity, and the former counterexamples as regression cases: with a caller of `legacy` only nothing is served any
   more (old is a configuration error, legacy denotes release); a caller of `release` is served through legacy, on every
   path, with the key of release *)
Lemma names_examples :
  handle_e (wit_nc [20] [] wit_files) (wit_rq EpSign 3) = EStatus 403 /\
  handle_e (wit_nc [20] [] wit_files) (wit_rq EpGetKey 3) = EStatus 403 /\
  handle_e (wit_nc [20] [7] wit_hsm) (wit_rq EpSign 3) = EStatus 403 /\
  handle_e (wit_nc [20] [] wit_files) (wit_rq EpSign 2) = EStatus 403 /\
  handle_e (wit_nc [20] [] wit_files) (wit_rq EpSign 1) = EStatus 403 /\
  handle_e (wit_nc [20] [] wit_files) (wit_rq EpList 0) = EListing [] /\
  get_key wit_keys 3 = Err E_ALIAS_OF_ALIAS /\
  handle_e (wit_nc [10] [] wit_files) (wit_rq EpSign 2) = ETouch 7 2 (FSigned 1 101 101 1) /\
  handle_e (wit_nc [10] [] wit_files) (wit_rq EpGetKey 2) = ETouch 7 1 (FDisclosed 1 101) /\
  handle_e (wit_nc [10] [7] wit_hsm) (wit_rq EpSign 2) = ETouch 7 2 (FSigned 1 101 101 1) /\
  handle_e (wit_nc [10] [7] wit_hsm) (wit_rq EpGetKey 2) = ETouch 7 1 (FDisclosed 1 101) /\
  handle_e (wit_nc [10] [7] wit_files) (wit_rq EpSign 1) = ETouch 7 1 (FSigned 1 101 101 1) /\
  handle_e (wit_nc [10] [] wit_files) (wit_rq EpList 0) = EListing [1; 2].
Proof. vm_compute. repeat split. Qed.

(* the concrete paths are instances of the general pipeline: handler, then the token *)
Lemma sign_entry_is_pipeline : forall nc rq t p m pr cp au,
  handle_e nc rq = ETouch t p (FSigned m pr cp au) -> mem t (n_worker nc) = false ->
  exists f kc, fwd_of sign_init_name = Some f /\ relayers (cf_keys (n_base nc)) [f] (rq_key rq) = Ok (m, kc).
Proof.
  intros nc rq t p m pr cp au H W.
  destruct (sign_uses_checked_entry _ _ _ _ _ _ _ _ H W) as [u [_ [kc [R [_ [Ht [Ht0 _]]]]]]].
  exists false, kc. split; [reflexivity|].
  assert (G : get_key (cf_keys (n_base nc)) (rq_key rq) = Ok (m, kc)) by (apply get_key_spec; split; [exact R | subst t; exact Ht0]).
  cbn [relayers]. rewrite G. reflexivity.
Qed.
Lemma keys_entry_is_pipeline : forall nc rq t p m cp,
  handle_e nc rq = ETouch t p (FDisclosed m cp) -> mem t (n_worker nc) = false -> m <> 0 ->
  exists f kc, fwd_of info_init_name = Some f /\ relayers (cf_keys (n_base nc)) [f] (rq_key rq) = Ok (m, kc).
Proof.
  intros nc rq t p m cp H W M0.
  destruct (keys_discloses_second_hop _ _ _ _ _ _ H W) as [u [_ [rn [kc [R [_ [Ht [Ht0 [_ D]]]]]]]]].
  destruct D as [[D _]|[kc2 [G2 _]]]; [contradiction|].
  exists true, kc2. split; [reflexivity|].
  assert (G : get_key (cf_keys (n_base nc)) (rq_key rq) = Ok (rn, kc)) by (apply get_key_spec; split; [exact R | subst t; exact Ht0]).
  cbn [relayers]. rewrite G. exact G2.
Qed.
