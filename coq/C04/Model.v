(* C04/Model.v — authentication, authorisation, key resolution and key listing of the relic server.
   Names (keys, tokens, roles, clients, addresses, certificates) are abstract non-zero integers; 0 = "empty". *)
From Relic Require Import Base.Prelude Generated.C04_gen.

(* ------------------------------------------------------------------ configuration *)
Record keyconf := mkK { k_token : Z; k_alias : Z; k_roles : list Z; k_hide : bool }.
Definition keys := list (Z * keyconf).
Fixpoint lookup (n : Z) (ks : keys) : option keyconf :=
  match ks with
  | [] => None
  | (m, kc) :: r => if m =? n then Some kc else lookup n r
  end.

Definition E_NOKEY := 1. Definition E_DANGLING := 2. Definition E_NOTOKEN := 3. Definition E_ALIAS_OF_ALIAS := 7.
(* config.GetKey: one alias hop — the entry reached must not itself be an alias (getkey_alias_of_alias; relic 1867fd2) —
   then the entry must name a token; returns (resolved name, entry) *)
Definition get_key (ks : keys) (n : Z) : result (Z * keyconf) :=
  match lookup n ks with
  | None => if getkey_missing false then Err E_NOKEY else Panic 0
  | Some kc =>
      if getkey_missing true then Err E_NOKEY else
      let r := if getkey_follow_alias (negb (k_alias kc =? 0)) then
                 match lookup (k_alias kc) ks with
                 | None => if getkey_alias_dangling false then Err E_DANGLING else Panic 0
                 | Some kc' => if getkey_alias_dangling true then Err E_DANGLING
                               else if getkey_alias_of_alias (negb (k_alias kc' =? 0)) (k_token kc' =? 0) then Err E_ALIAS_OF_ALIAS
                               else Ok (k_alias kc, kc')
                 end
               else Ok (n, kc) in
      match r with
      | Ok (rn, kc') => if getkey_needs_token (k_token kc' =? 0) then Err E_NOTOKEN else Ok (rn, kc')
      | e => e
      end
  end.

(* ------------------------------------------------------------------ callers *)
Inductive user :=
| UCert (roles : list Z)
| UPolicy (roles : list Z) (allowed_keys : list Z).
Definition mem (x : Z) (l : list Z) : bool := existsb (Z.eqb x) l.
Definition intersects (a b : list Z) : bool := existsb (fun x => mem x b) a.
Definition allowed (u : user) (resolved_name : Z) (kc : keyconf) : bool :=
  match u with
  | UCert rs => intersects (k_roles kc) rs
  | UPolicy rs aks => mem resolved_name aks || intersects (k_roles kc) rs
  end.

(* certificates: fingerprint and the id of the configured CA that verifies the chain (0 = none) *)
Record cert := mkCert { ct_fp : Z; ct_ca : Z }.
Record client := mkCl { cl_fp : Z; cl_ca : Z; cl_roles : list Z }.
Definition find_fp (fp : Z) (cls : list client) : option client :=
  find (fun c => negb (cl_fp c =? 0) && (cl_fp c =? fp)) cls.
Definition find_ca (ca : Z) (cls : list client) : option client :=
  find (fun c => negb (cl_ca c =? 0) && (cl_ca c =? ca)) cls.
(* CertificateAuth.Authenticate *)
Definition authenticate (cls : list client) (chain : list cert) : result user :=
  match chain with
  | [] => Err 401
  | c :: _ =>
      match find_fp (ct_fp c) cls with
      | Some cl => Ok (UCert (cl_roles cl))
      | None => match (if ct_ca c =? 0 then None else find_ca (ct_ca c) cls) with
                | Some cl => Ok (UCert (cl_roles cl))
                | None => Err 401
                end
      end
  end.

(* ------------------------------------------------------------------ proxies *)
(* hops: X-Forwarded-For entries left to right, each with "is in a trusted network" *)
Fixpoint rightmost_untrusted (hops : list (Z * bool)) : option Z :=
  match hops with
  | [] => None
  | (a, t) :: r => match rightmost_untrusted r with Some x => Some x | None => if t then None else Some a end
  end.
Definition real_ip (peer : Z) (peer_trusted : bool) (hops : list (Z * bool)) : Z * bool :=
  if negb peer_trusted then (peer, false) else
  match rightmost_untrusted hops with
  | Some a => (a, true)
  | None => match hops with [] => (peer, false) | (a, _) :: _ => (a, true) end
  end.
Definition peer_certs (proxied : bool) (tls_chain hdr_chain : list cert) : list cert :=
  if proxied then hdr_chain else tls_chain.

(* ------------------------------------------------------------------ requests *)
Inductive endpoint := EpSign | EpGetKey | EpList | EpHome.
Record request := mkReq {
  rq_ep : endpoint; rq_key : Z; rq_has_filename : bool; rq_sigtype_ok : bool; rq_digest_ok : bool; rq_flags_ok : bool;
  rq_peer : Z; rq_peer_trusted : bool; rq_hops : list (Z * bool); rq_tls : list cert; rq_hdr : list cert }.
Record config := mkCfg { cf_keys : keys; cf_clients : list client; cf_tokens : list Z }.

Inductive outcome :=
| Status (code : Z)
| Touch (token : Z) (key : Z)        (* the handler reached token.GetKey(key) on that token *)
| Listing (names : list Z).

Definition serve_sign (cf : config) (u : user) (rq : request) : outcome :=
  if rq_key rq =? 0 then Status 400 else
  if negb (rq_has_filename rq) then Status 400 else
  match get_key (cf_keys cf) (rq_key rq) with
  | Ok (rn, kc) =>
      if sign_denied (allowed u rn kc) then Status 403 else
      if negb (rq_sigtype_ok rq) then Status 400 else
      if negb (rq_digest_ok rq) then Status 400 else
      if negb (rq_flags_ok rq) then Status 400 else
      if negb (mem (k_token kc) (cf_tokens cf)) then Status 500 else
      Touch (k_token kc) (rq_key rq)
  | Err _ => Status 403
  | Panic _ => Status 500
  end.
Definition serve_getkey (cf : config) (u : user) (rq : request) : outcome :=
  match get_key (cf_keys cf) (rq_key rq) with
  | Ok (rn, kc) =>
      if getkey_view_allowed true (allowed u rn kc) then
        if negb (mem (k_token kc) (cf_tokens cf)) then Status 500 else Touch (k_token kc) rn
      else Status 403
  | Err _ => if getkey_view_allowed false true then Status 500 else Status 403
  | Panic _ => Status 500
  end.
Definition list_keys (ks : keys) (u : user) : list Z :=
  flat_map (fun e : Z * keyconf =>
    let (n, kc) := e in
    if list_skip_hidden (k_hide kc) then [] else
    match get_key ks n with
    | Ok (rn, kc') => if list_include (k_hide kc') (allowed u rn kc') then [n] else []
    | _ => []
    end) ks.

Definition identity (cf : config) (rq : request) : (Z * bool) * result user :=
  let ipp := real_ip (rq_peer rq) (rq_peer_trusted rq) (rq_hops rq) in
  (ipp, authenticate (cf_clients cf) (peer_certs (snd ipp) (rq_tls rq) (rq_hdr rq))).

(* what the views behind the authentication middleware do with the middleware's verdict *)
Definition dispatch (cf : config) (ru : result user) (rq : request) : outcome :=
  match ru with
  | Err c => Status c
  | Panic _ => Status 500
  | Ok u =>
      match rq_ep rq with
      | EpSign => serve_sign cf u rq
      | EpGetKey => serve_getkey cf u rq
      | EpList => Listing (list_keys (cf_keys cf) u)
      | EpHome => Status 200
      end
  end.

Definition handle (cf : config) (rq : request) : outcome :=
  dispatch cf (snd (identity cf rq)) rq.

(* ------------------------------------------------------------------ specification vocabulary *)
(* the key a name resolves to, following one alias; an alias that names another alias is a malformed entry *)
Definition resolve1 (ks : keys) (n : Z) : option (Z * keyconf) :=
  match lookup n ks with
  | None => None
  | Some kc => if k_alias kc =? 0 then Some (n, kc)
               else match lookup (k_alias kc) ks with
                    | Some kc' => if k_alias kc' =? 0 then Some (k_alias kc, kc') else None
                    | None => None
                    end
  end.
Definition entitled (ks : keys) (u : user) (n : Z) : Prop :=
  exists rn kc, resolve1 ks n = Some (rn, kc) /\ k_token kc <> 0 /\ allowed u rn kc = true.
