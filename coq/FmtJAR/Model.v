(* FmtJAR/Model.v — the JAR signing text layer of relic (lib/signjar), members treated as (name, content) pairs.
   FAITHFUL side: writeAttribute, writeSection, FilesMap.Dump, splitManifest, parseSection, parseManifest / ParseManifest,
   DigestManifest (the .SF), hashFile, verifySigFile, verifyManifest, digestFiles + updateManifest, the member classification and
   the control flow of Verify, keepFile / sigNames / insertSignature at member level.  Every constant, literal, slice bound and
   loop-free decision is a definition of Generated/FmtJAR_gen.v; library calls are the functions of FmtJAR/Lib.v; slices are
   checked (Panic where Go panics) and loops are fuelled (Panic P_HANG when the fuel, which bounds every terminating run, is used up).
   Digests are abstract:  H alg bytes  is the base64 text of the digest.
   SPEC side (written from the JAR File Specification, "JAR Manifest" / "Signed JAR File", and the way the JDK reads it): the
   manifest grammar reader spec_read, the section byte ranges a signature file digests (spec_section_ranges), the set of
   signature-related member names (spec_sig_related). *)
From Relic Require Import Base.Prelude FmtJAR.Lib Generated.FmtJAR_gen.

(* error classes (driver: harness/p/fmtjar classify) *)
Definition E_NO_SECTIONS := 1.      (* manifest has no sections *)
Definition E_MALFORMED_LINE := 2.   (* jar manifest is malformed: a line without ':' *)
Definition E_NO_NAME := 3.          (* section with no Name attribute *)
Definition E_NO_DIGESTS := 4.       (* errNoDigests (the generated condition jar_vs_hard_error compares with 4) *)
Definition E_LINE_ENDINGS := 5.     (* ErrManifestLineEndings *)
Definition E_UNKNOWN_HASH := 6.     (* unsupported hash type / unknown digest key in manifest *)
Definition E_MISMATCH := 7.         (* digest mismatch *)
Definition E_MISSING_SECTION := 8.  (* manifest is missing signed section *)
Definition E_NOT_IN_JAR := 9.       (* file is in manifest but not JAR *)
Definition E_NO_MANIFEST := 10.     (* JAR contains no META-INF/MANIFEST.MF *)
Definition E_NOT_SIGNED := 11.      (* NotSignedError *)
Definition E_NO_BLOB := 12.         (* sigfile with no matching signature *)
Definition E_BLOB := 13.            (* PKCS#7 / signature / timestamp failure (oracle) *)
Definition E_EMPTY := 14.           (* DigestManifest: manifest is empty *)

(* the shapes the model relies on; a changed shape stops the build (reported as a broken obligation) *)
Example shape_r1 : zlen jar_ps_r1_old = 2. Proof. reflexivity. Qed.
Example shape_r2 : zlen jar_ps_r2_old = 2. Proof. reflexivity. Qed.
Example shape_split : zlen jar_ps_split_sep = 1. Proof. reflexivity. Qed.
Example shape_ext_sep : zlen jar_v_ext_sep = 1. Proof. reflexivity. Qed.
Example shape_wa_calls : jar_wa_calls = [0; 1; 1; 1]. Proof. reflexivity. Qed.           (* Sprintf; Write(' ') Write(chunk) Write(eol) *)
Example shape_ws_calls : jar_ws_calls = [0; 1; 2; 1; 3]. Proof. reflexivity. Qed.        (* Get, first attribute, sort, attributes, end *)
Example shape_ps_calls : jar_ps_calls = [0; 0; 1; 2; 3; 3; 4]. Proof. reflexivity. Qed.
Example shape_dm_calls : jar_dm_calls = [0; 1; 1; 4; 1; 4; 1; 1; 2; 3; 1; 1; 4; 2]. Proof. reflexivity. Qed.
Example shape_hs_calls : jar_hs_calls = [0; 1; 2; 3]. Proof. reflexivity. Qed.           (* New, Write(section), base64(Sum) *)
Example shape_vs_calls : jar_vs_calls = [0; 1; 2; 1; 3; 1]. Proof. reflexivity. Qed.
Example shape_v_calls : jar_v_calls = [0; 1; 2; 3; 4]. Proof. reflexivity. Qed.
Example shape_stmts : jar_sm_section_is_prefix && jar_sm_rest_is_suffix && jar_ps_key_trimmed_prefix && jar_ps_value_trimmed_suffix && jar_ps_sets
  && jar_pm_appends_order && jar_pm_sets_files && jar_um_sets_digest && jar_um_appends_order && jar_um_dumps && jar_v_splits_upper_name
  && jar_vm_continues && jar_hf_none_is_no_digests = true. Proof. reflexivity. Qed.

(* ================================================================== writeAttribute *)
Fixpoint wa_loop (fuel : nat) (i : Z) (line : bytes) : result bytes :=
  match fuel with
  | O => Panic P_HANG
  | S f =>
      if jar_wa_more i (zlen line) then
        let cont := jar_wa_is_cont i in
        let goal := if cont && jar_wa_goal_dec then jar_wa_goal0 - 1 else jar_wa_goal0 in
        let j0 := jar_wa_j i goal in
        let j := if jar_wa_clamp j0 (zlen line) then jar_wa_clamped (zlen line) else j0 in
        chunk <- cslice i j line ;;
        rest <- wa_loop f (if jar_wa_advances then j else i) line ;;
        Ok ((if cont then jar_wa_cont_prefix else []) ++ chunk ++ jar_wa_eol ++ rest)
      else Ok []
  end.
Definition attr_line (key value : bytes) : bytes := key ++ jar_wa_sep ++ value.
Definition write_attr (key value : bytes) : result bytes :=
  let line := attr_line key value in wa_loop (S (length line)) 0 line.

Fixpoint write_attrs (l : list (bytes * bytes)) : result bytes :=
  match l with
  | [] => Ok []
  | (k, v) :: r => a <- write_attr k v ;; b <- write_attrs r ;; Ok (a ++ b)
  end.

(* ================================================================== writeSection, Dump *)
Definition ws_keys (h : hdr) (first : bytes) : list bytes :=
  let ks := map fst (filter (fun kv => negb (jar_ws_skip_key (fst kv) first)) h) in
  if jar_ws_sorts then jsort ks else ks.
Definition ws_rest (h : hdr) (first : bytes) : list (bytes * bytes) :=
  map (fun k => (k, match hraw_get h k with Some v => v | None => [] end)) (ws_keys h first).
Definition write_section (h : hdr) (first : bytes) : result bytes :=
  let value := hget h first in
  a <- (if jar_ws_first_present value then write_attr first value else Ok []) ;;
  b <- write_attrs (ws_rest h first) ;;
  Ok (a ++ b ++ jar_ws_end).

Record fmap := mkFmap { fm_main : hdr; fm_order : list bytes; fm_files : list (bytes * hdr) }.
Fixpoint files_get (fs : list (bytes * hdr)) (name : bytes) : option hdr :=
  match fs with [] => None | (n, h) :: r => if bytes_eqb n name then Some h else files_get r name end.
Fixpoint files_set (fs : list (bytes * hdr)) (name : bytes) (h : hdr) : list (bytes * hdr) :=
  match fs with
  | [] => [(name, h)]
  | (n, h') :: r => if bytes_eqb n name then (name, h) :: r else (n, h') :: files_set r name h
  end.
Fixpoint dump_sections (fs : list (bytes * hdr)) (order : list bytes) : result bytes :=
  match order with
  | [] => Ok []
  | n :: r =>
      a <- (match files_get fs n with
            | Some h => if jar_dump_emit true then write_section h jar_dump_sec_first else Ok []
            | None => if jar_dump_emit false then write_section [] jar_dump_sec_first else Ok []
            end) ;;
      b <- dump_sections fs r ;; Ok (a ++ b)
  end.
Definition dump (m : fmap) : result bytes :=
  a <- write_section (fm_main m) jar_dump_main_first ;;
  b <- dump_sections (fm_files m) (fm_order m) ;; Ok (a ++ b).

(* ================================================================== splitManifest *)
Fixpoint sm_loop (fuel : nat) (m : bytes) (malformed : bool) : result (list bytes * bool) :=
  match fuel with
  | O => Panic P_HANG
  | S f =>
      if jar_sm_more (zlen m) then
        let i1 := jindex m jar_sm_sep1 in
        let i2 := jindex m jar_sm_sep2 in
        let idx := jar_sm_idx i1 i2 (zlen m) in
        let malformed' := jar_sm_malformed_after i1 i2 malformed in
        section <- cslice 0 idx m ;;
        rest <- cslice idx (zlen m) m ;;
        if jar_sm_empty section then
          if jar_sm_empty_skipped then sm_loop f rest (if jar_sm_sets_malformed then true else malformed')
          else r <- sm_loop f rest (if jar_sm_sets_malformed then true else malformed') ;; Ok (section :: fst r, snd r)
        else r <- sm_loop f rest malformed' ;; Ok (section :: fst r, snd r)
      else Ok ([], malformed)
  end.
Definition split_manifest (m : bytes) : result (list bytes * bool) := sm_loop (S (length m)) m false.

(* ================================================================== parseSection *)
Definition repl (old new s : bytes) : bytes :=
  match old with [a; b] => jrepl2 a b new s | _ => s end.
Definition ps_line (h : hdr) (line : bytes) : result hdr :=
  if jar_ps_skip_line (zlen line) then Ok h
  else
    let idx := jindex_byte line jar_ps_colon in
    if jar_ps_no_colon idx then Err E_MALFORMED_LINE
    else
      k <- cslice 0 (jar_ps_key_hi idx) line ;;
      v <- cslice (jar_ps_val_lo idx) (zlen line) line ;;
      Ok (hset h (jtrim k) (jtrim v)).
Fixpoint ps_lines (h : hdr) (lines : list bytes) : result hdr :=
  match lines with [] => Ok h | l :: r => h' <- ps_line h l ;; ps_lines h' r end.
Definition ps_unfold (section : bytes) : bytes :=
  repl jar_ps_r2_old jar_ps_r2_new (repl jar_ps_r1_old jar_ps_r1_new section).
Definition parse_section (section : bytes) : result hdr :=
  ps_lines [] (jsplit1 (hd 0 jar_ps_split_sep) (ps_unfold section)).

(* ================================================================== parseManifest / ParseManifest *)
Fixpoint pm_loop (i : Z) (secs : list bytes) (m : fmap) : result fmap :=
  match secs with
  | [] => Ok m
  | s :: r =>
      if jar_pm_skip i (zlen s) then pm_loop (i + 1) r m
      else
        h <- parse_section s ;;
        if jar_pm_is_main i then pm_loop (i + 1) r (mkFmap h (fm_order m) (fm_files m))
        else
          let name := hget h jar_pm_name_key in
          if jar_pm_name_missing name then Err E_NO_NAME
          else pm_loop (i + 1) r (mkFmap (fm_main m) (fm_order m ++ [name]) (files_set (fm_files m) name h))
  end.
Definition parse_manifest_m (b : bytes) : result (fmap * bool) :=
  sm <- split_manifest b ;;
  if jar_pm_no_sections (zlen (fst sm)) then Err E_NO_SECTIONS
  else m <- pm_loop 0 (fst sm) (mkFmap [] [] []) ;; Ok (m, snd sm).
Definition parse_manifest (b : bytes) : result fmap :=
  pm <- parse_manifest_m b ;;
  if jar_PM_refuses (snd pm) then Err E_LINE_ENDINGS else Ok (fst pm).

Section WithHash.
  (* H alg data = base64 text of the digest; avail alg = crypto.Hash(alg).Available() *)
  Variable H : Z -> bytes -> bytes.
  Variable avail : Z -> bool.

  (* x509tools.HashByName: 0 = no such hash *)
  Definition hash_by_name (name : bytes) : Z :=
    let n := jar_normal_name name in
    match find (fun e => bytes_eqb (jar_normal_name (snd e)) n) jar_hash_names with Some e => fst e | None => 0 end.
  (* x509tools.HashNames[hash] ("" when missing) *)
  Definition hash_name_of (alg : Z) : bytes :=
    match find (fun e => fst e =? alg) jar_hash_names with Some e => snd e | None => [] end.

  (* ================================================================== DigestManifest: MANIFEST.MF -> .SF *)
  Fixpoint dm_sections (alg : Z) (hn : bytes) (secs : list bytes) : result bytes :=
    match secs with
    | [] => Ok []
    | s :: r =>
        h <- parse_section s ;;
        let name := hget h jar_dm_name_key in
        if jar_dm_name_missing name then Err E_NO_NAME
        else
          a <- write_attr (jar_dm_k5 (H alg) hn [] [] s [] name) (jar_dm_v5 (H alg) hn [] [] s [] name) ;;
          b <- write_attr (jar_dm_k6 (H alg) hn [] [] s [] name) (jar_dm_v6 (H alg) hn [] [] s [] name) ;;
          rest <- dm_sections alg hn r ;;
          Ok (a ++ b ++ jar_dm_sec_end ++ rest)
    end.
  Definition digest_manifest (alg : Z) (created_by : bytes) (sections_only apk_v2 : bool) (manifest : bytes) : result bytes :=
    sm <- split_manifest manifest ;;
    if jar_dm_refuses (snd sm) then Err E_LINE_ENDINGS
    else if jar_dm_empty (zlen (fst sm)) then Err E_EMPTY
    else
      let hn := hash_name_of alg in
      if jar_dm_hash_unknown hn then Err E_UNKNOWN_HASH
      else
        match fst sm with
        | [] => Panic P_INDEX                                (* sections[0]; excluded by the length test above *)
        | main_sec :: _ =>
            let K f := f (H alg) hn main_sec manifest (@nil Z) created_by (@nil Z) in
            a0 <- write_attr (K jar_dm_k0) (K jar_dm_v0) ;;
            a1 <- write_attr (K jar_dm_k1) (K jar_dm_v1) ;;
            a2 <- (if jar_dm_whole sections_only then write_attr (K jar_dm_k2) (K jar_dm_v2) else Ok []) ;;
            a3 <- write_attr (K jar_dm_k3) (K jar_dm_v3) ;;
            a4 <- (if jar_dm_apk apk_v2 then write_attr (K jar_dm_k4) (K jar_dm_v4) else Ok []) ;;
            rest <- dm_sections alg hn (zdrop jar_dm_first_file_section (fst sm)) ;;
            Ok (a0 ++ a1 ++ a2 ++ a3 ++ a4 ++ jar_dm_main_end ++ rest)
        end.

  (* ================================================================== hashFile *)
  Fixpoint hf_collect (suffix : bytes) (h : hdr) : result (list (bytes * bytes * Z)) :=
    match h with
    | [] => Ok []
    | (k, v) :: r =>
        if jar_hf_skip k suffix then hf_collect suffix r
        else
          let alg := hash_by_name (jar_hf_hash_name k suffix) in
          if jar_hf_unknown ((negb (alg =? 0)) && avail alg) then Err E_UNKNOWN_HASH
          else rest <- hf_collect suffix r ;; Ok ((k, v, alg) :: rest)
    end.
  Definition hash_file (keys : hdr) (content : bytes) (suffix0 : bytes) : result unit :=
    let suffix := jar_hf_suffix suffix0 in
    ds <- hf_collect suffix keys ;;
    if jar_hf_none (zlen ds) then Err E_NO_DIGESTS
    else if existsb (fun d => jar_hf_mismatch (H (snd d) content) (snd (fst d))) ds then Err E_MISMATCH
    else Ok tt.
  Definition has_digest (keys : hdr) : bool := existsb (fun kv => jar_hd_match (fst kv)) keys.

  (* ================================================================== verifySigFile *)
  Fixpoint vs_sections (i : Z) (secs : list bytes) (sf_main : hdr) (smap : list (bytes * bytes)) : result (list (bytes * bytes)) :=
    match secs with
    | [] => Ok smap
    | s :: r =>
        if jar_vs_is_main i then
          _ <- hash_file sf_main s jar_vs_suffix_main ;; vs_sections (i + 1) r sf_main smap
        else
          h <- parse_section s ;;
          let name := hget h jar_pm_name_key in
          if jar_vs_name_missing name then Err E_NO_NAME
          else vs_sections (i + 1) r sf_main (hraw_set smap name s)
    end.
  Fixpoint vs_check (files : list (bytes * hdr)) (smap : list (bytes * bytes)) : result unit :=
    match files with
    | [] => Ok tt
    | (name, keys) :: r =>
        match hraw_get smap name with
        | None => if jar_vs_section_missing false then Err E_MISSING_SECTION else Panic P_INDEX
        | Some section =>
            if jar_vs_section_missing true then Err E_MISSING_SECTION
            else _ <- hash_file keys section jar_vs_suffix_section ;; vs_check r smap
        end
    end.
  Definition verify_sigfile (sf manifest : bytes) : result hdr :=
    sfm <- parse_manifest sf ;;
    match hash_file (fm_main sfm) manifest jar_vs_suffix_whole with
    | Ok _ => Ok (fm_main sfm)
    | Panic p => Panic p
    | Err e =>
        if jar_vs_hard_error e then Err e
        else
          sm <- split_manifest manifest ;;
          if jar_vs_refuses (snd sm) then Err E_LINE_ENDINGS
          else
            smap <- vs_sections 0 (fst sm) (fm_main sfm) [] ;;
            _ <- vs_check (fm_files sfm) smap ;;
            Ok (fm_main sfm)
    end.

  (* ================================================================== verifyManifest; members = (name, content) in archive order *)
  Definition members := list (bytes * bytes).
  Fixpoint mem_last (ms : members) (name : bytes) : option bytes :=     (* map built by assignment: the last entry of a name wins *)
    match ms with
    | [] => None
    | (n, c) :: r => match mem_last r name with Some c' => Some c' | None => if bytes_eqb n name then Some c else None end
    end.
  Fixpoint vm_files (files : list (bytes * hdr)) (ms : members) : result unit :=
    match files with
    | [] => Ok tt
    | (filename, keys) :: r =>
        if jar_vm_magic keys then vm_files r ms
        else
          match mem_last ms filename with
          | None =>
              if jar_vm_missing false then
                if jar_vm_is_dir filename then
                  _ <- (if has_digest keys then hash_file keys [] [] else Ok tt) ;; vm_files r ms
                else Err E_NOT_IN_JAR
              else Panic P_INDEX
          | Some content =>
              if jar_vm_missing true then Err E_NOT_IN_JAR
              else _ <- hash_file keys content [] ;; vm_files r ms
          end
    end.
  Definition verify_manifest (manifest : bytes) (ms : members) : result unit :=
    m <- parse_manifest manifest ;; vm_files (fm_files m) ms.

  (* ================================================================== digestFiles + updateManifest *)
  (* jd.Manifest (last META-INF/MANIFEST.MF wins) and jd.Digests in first-seen key order, last content of a name winning *)
  Fixpoint df_manifest (ms : members) : option bytes :=
    match ms with
    | [] => None
    | (n, c) :: r => match df_manifest r with Some c' => Some c' | None => if jar_df_is_manifest n then Some c else None end
    end.
  Definition hashed_name (n : bytes) : bool := negb (jar_df_is_manifest n) && negb (jar_df_not_hashed n).
  Fixpoint df_digests (alg : Z) (ms : members) (acc : list (bytes * bytes)) : list (bytes * bytes) :=
    match ms with
    | [] => acc
    | (n, c) :: r => df_digests alg r (if hashed_name n then hraw_set acc n (H alg c) else acc)
    end.
  (* the loop over jd.Digests, in the order `digs` is given (Go: map iteration order, see Run / Properties) *)
  Fixpoint um_loop (hash_name : bytes) (digs : list (bytes * bytes)) (m : fmap) (changed : bool) : result (fmap * bool) :=
    match digs with
    | [] => Ok (m, changed)
    | (name, calculated) :: r =>
        match files_get (fm_files m) name with
        | None =>
            if jar_um_new_section false then
              um_loop hash_name r (mkFmap (fm_main m) (fm_order m ++ [name]) (files_set (fm_files m) name (jar_um_new_hdr name hash_name calculated))) true
            else Panic P_INDEX                               (* nil map dereference path does not exist in the code *)
        | Some attrs =>
            if jar_um_new_section true then
              um_loop hash_name r (mkFmap (fm_main m) (fm_order m ++ [name]) (files_set (fm_files m) name (jar_um_new_hdr name hash_name calculated))) true
            else if jar_um_magic attrs then um_loop hash_name r m changed
            else
              let existing := jar_um_existing attrs hash_name in
              if jar_um_has_existing existing then
                if jar_um_mismatch existing calculated then Err E_MISMATCH else um_loop hash_name r m changed
              else um_loop hash_name r (mkFmap (fm_main m) (fm_order m) (files_set (fm_files m) name (hset attrs hash_name calculated))) true
        end
    end.
  (* empty digests for directory sections *)
  Fixpoint um_dirs (alg : Z) (hash_name : bytes) (fs : list (bytes * hdr)) : list (bytes * hdr) * bool :=
    match fs with
    | [] => ([], false)
    | (name, attrs) :: r =>
        let '(r', ch) := um_dirs alg hash_name r in
        if jar_um_dir_needs name attrs hash_name then ((name, hset attrs hash_name (H alg [])) :: r', true)
        else ((name, attrs) :: r', ch)
    end.
  (* order: a permutation of the digest keys chosen by Go's map iteration; entries that are not keys are ignored *)
  Definition reorder (digs : list (bytes * bytes)) (order : list bytes) : list (bytes * bytes) :=
    let named := flat_map (fun n => match hraw_get digs n with Some d => [(n, d)] | None => [] end) order in
    named ++ filter (fun nd => negb (existsb (bytes_eqb (fst nd)) order)) digs.
  Definition update_manifest (alg : Z) (order : list bytes) (ms : members) : result bytes :=
    match df_manifest ms with
    | None => if jar_um_no_manifest false then Err E_NO_MANIFEST else Panic P_INDEX
    | Some manifest =>
        if jar_um_no_manifest true then Err E_NO_MANIFEST
        else
          pm <- parse_manifest_m manifest ;;
          let hn := hash_name_of alg in
          if jar_um_hash_unknown hn then Err E_UNKNOWN_HASH
          else
            let hash_name := hn ++ jar_um_digest_suffix in
            r <- um_loop hash_name (reorder (df_digests alg ms []) order) (fst pm) false ;;
            let '(fs', chd) := um_dirs alg hash_name (fm_files (fst r)) in
            let m' := mkFmap (fm_main (fst r)) (fm_order (fst r)) fs' in
            if jar_um_redump (snd r || chd) (snd pm) then dump m' else Ok manifest
    end.

  (* ================================================================== Verify: classification of members and control flow *)
  (* 0 = not signature related, 1 = manifest, 2 = signature file, 3 = signature block; with the base name *)
  Definition v_classify (fname : bytes) : Z * bytes :=
    let '(dir, name) := jpath_split (jto_upper fname) in
    if jar_v_skip dir name then (0, [])
    else
      let i := jlast_index_byte name (hd 0 jar_v_ext_sep) in
      if jar_v_no_ext i then (0, [])
      else
        let base := ztake i name in
        let ext := zdrop i name in
        if jar_v_is_manifest name then (1, base)
        else if jar_v_is_sf ext then (2, base)
        else if jar_v_is_blob name ext then (3, base)
        else (0, base).
  Fixpoint v_collect (ms : members) (man : option bytes) (sfs blobs : list (bytes * bytes))
    : option bytes * list (bytes * bytes) * list (bytes * bytes) :=
    match ms with
    | [] => (man, sfs, blobs)
    | (n, c) :: r =>
        let '(k, base) := v_classify n in
        if k =? 1 then v_collect r (Some c) sfs blobs
        else if k =? 2 then v_collect r man (hraw_set sfs base c) blobs
        else if k =? 3 then v_collect r man sfs (hraw_set blobs base c)
        else v_collect r man sfs blobs
    end.
  (* cms_ok blob sf: the PKCS#7 layer accepts blob as a signature over sf (oracle; C16 / C02 cover that layer) *)
  Variable cms_ok : bytes -> bytes -> bool.
  Fixpoint v_sigs (sfs blobs : list (bytes * bytes)) (manifest : bytes) : result unit :=
    match sfs with
    | [] => Ok tt
    | (base, sf) :: r =>
        match hraw_get blobs base with
        | None => if jar_v_no_blob false then Err E_NO_BLOB else Panic P_INDEX
        | Some blob =>
            if jar_v_no_blob true then Err E_NO_BLOB
            else if negb (cms_ok blob sf) then Err E_BLOB
            else _ <- verify_sigfile sf manifest ;; v_sigs r blobs manifest
        end
    end.
  Definition jar_verify (skip_digests : bool) (ms : members) : result unit :=
    let '(man, sfs, blobs) := v_collect ms None [] [] in
    match man with
    | None => if jar_v_no_manifest false then Err E_NO_MANIFEST else Panic P_INDEX
    | Some manifest =>
        if jar_v_no_manifest true then Err E_NO_MANIFEST
        else if jar_v_not_signed (zlen sfs) then Err E_NOT_SIGNED
        else
          _ <- v_sigs sfs blobs manifest ;;
          if jar_v_check_digests skip_digests then verify_manifest manifest ms else Ok tt
    end.

  (* ================================================================== sigNames, insertSignature at member level *)
  (* key type: 1 = RSA, 2 = ECDSA, anything else = other *)
  Definition sig_names (keytype : Z) (alias : bytes) : bytes * bytes :=
    let signame := jar_sn_signame alias in
    let pkcsname := jar_sn_pkcsname alias in
    if keytype =? 1 then (signame, pkcsname ++ jar_sn_rsa_ext)
    else if keytype =? 2 then (signame, pkcsname ++ jar_sn_ec_ext)
    else (jar_sn_other_signame signame, jar_sn_other_pkcsname pkcsname).
  Definition jar_embed (keytype : Z) (alias : bytes) (ms : members) (manifest sf blob : bytes) : members :=
    let '(signame, pkcsname) := sig_names keytype alias in
    [(jar_meta_inf, []); (jar_manifest_name, manifest); (jar_meta_inf ++ signame, sf); (jar_meta_inf ++ pkcsname, blob)]
      ++ filter (fun nc => jar_keep_file (fst nc)) ms.
  (* DigestJarStream + Sign, with the signature block supplied by mkblob (the CMS over the signature file) *)
  Definition jar_sign (alg keytype : Z) (alias created_by : bytes) (sections_only apk_v2 : bool) (order : list bytes)
             (mkblob : bytes -> bytes) (ms : members) : result members :=
    manifest <- update_manifest alg order ms ;;
    sf <- digest_manifest alg created_by sections_only apk_v2 manifest ;;
    Ok (jar_embed keytype alias ms manifest sf (mkblob sf)).
End WithHash.

(* ================================================================== SPEC: the manifest grammar of the JAR File Specification
     section: *header +newline          header: name ":" SPACE value         newline: CR LF | LF | CR (not followed by LF)
     value: *otherchar newline *continuation    continuation: SPACE *otherchar newline     name: alphanum *(alphanum | "-" | "_")
   physical lines -> logical lines (a line starting with SPACE continues the previous one) -> groups separated by empty lines ->
   (name, value) pairs, in file order, duplicates kept.  Nothing is trimmed and names are not case-folded (the JDK compares names
   case-insensitively when it looks an attribute up). *)
Fixpoint spec_lines (s : bytes) : list bytes :=      (* the last element is what follows the final newline *)
  match s with
  | [] => [[]]
  | c :: r =>
      if c =? 10 then [] :: spec_lines r
      else if c =? 13 then
        match r with
        | d :: r' => if d =? 10 then [] :: spec_lines r' else [] :: spec_lines r
        | [] => [[]; []]
        end
      else match spec_lines r with h :: t => (c :: h) :: t | [] => [[c]] end
  end.
(* (continuation payload that belongs to the line in front, logical lines, no continuation follows an empty line) *)
Fixpoint spec_unfold (ls : list bytes) : bytes * list bytes * bool :=
  match ls with
  | [] => ([], [], true)
  | l :: r =>
      let '(p, done, ok) := spec_unfold r in
      match l with
      | c :: l' => if c =? 32 then (l' ++ p, done, ok) else ([], (l ++ p) :: done, ok)
      | [] => ([], [] :: done, ok && (zlen p =? 0))
      end
  end.
Definition spec_name_char (c : Z) : bool := is_alnum c || (c =? 45) || (c =? 95).
Definition spec_name_ok (n : bytes) : bool :=
  match n with c :: r => is_alnum c && forallb spec_name_char r && (zlen n <=? 70) | [] => false end.
Definition spec_header (line : bytes) : option (bytes * bytes) :=
  let i := jindex_byte line 58 in
  if i <? 0 then None
  else
    let name := ztake i line in
    match zdrop (i + 1) line with
    | sp :: value => if (sp =? 32) && spec_name_ok name then Some (name, value) else None
    | [] => None
    end.
(* groups of non-empty logical lines *)
Fixpoint spec_groups (cur : list bytes) (ls : list bytes) : list (list bytes) :=
  match ls with
  | [] => match cur with [] => [] | _ => [rev cur] end
  | l :: r => match l with
              | [] => match cur with [] => spec_groups [] r | _ => rev cur :: spec_groups [] r end
              | _ => spec_groups (l :: cur) r
              end
  end.
Fixpoint opt_all {A} (l : list (option A)) : option (list A) :=
  match l with [] => Some [] | Some x :: r => match opt_all r with Some r' => Some (x :: r') | None => None end | None :: _ => None end.
Definition ends_nl (b : bytes) : bool := match rev b with [] => true | c :: _ => (c =? 10) || (c =? 13) end.
Definition spec_read (b : bytes) : option (list (list (bytes * bytes))) :=
  if negb (ends_nl b) then None                            (* the text must end with a newline *)
  else
    let '(orphan, logical, ok) := spec_unfold (spec_lines b) in
    if negb (zlen orphan =? 0) || negb ok then None        (* a continuation line with nothing in front *)
    else opt_all (map (fun g => opt_all (map spec_header g)) (spec_groups [] logical)).

(* SPEC: the byte range of each section as the JDK's ManifestDigester takes it: from the first byte of the section's first line up to
   the first byte of the next section (all blank lines that follow included).  (offset, length) pairs; the main section is first. *)
Fixpoint spec_line_spans (pos : Z) (s : bytes) (cur : Z) : list (Z * Z * bool) :=   (* (start, end incl. newline, is blank) per physical line *)
  match s with
  | [] => if cur =? pos then [] else [(cur, pos, false)]
  | c :: r =>
      if c =? 10 then (cur, pos + 1, cur =? pos) :: spec_line_spans (pos + 1) r (pos + 1)
      else if c =? 13 then
        match r with
        | d :: r' => if d =? 10 then (cur, pos + 2, cur =? pos) :: spec_line_spans (pos + 2) r' (pos + 2)
                     else (cur, pos + 1, cur =? pos) :: spec_line_spans (pos + 1) r (pos + 1)
        | [] => [(cur, pos + 1, cur =? pos)]
        end
      else spec_line_spans (pos + 1) r cur
  end.
(* walk the line spans: a section starts at the first non-blank line after a blank one and extends to the next such start *)
Fixpoint spec_ranges_aux (spans : list (Z * Z * bool)) (start : option Z) (seen_blank : bool) (last_end : Z) : list (Z * Z) :=
  match spans with
  | [] => match start with Some s => [(s, last_end - s)] | None => [] end
  | (a, b, blank) :: r =>
      match start with
      | None => if blank then spec_ranges_aux r None false b else spec_ranges_aux r (Some a) false b
      | Some s =>
          if blank then spec_ranges_aux r start true b
          else if seen_blank then (s, a - s) :: spec_ranges_aux r (Some a) false b
          else spec_ranges_aux r start false b
      end
  end.
Definition spec_section_ranges (b : bytes) : list (Z * Z) := spec_ranges_aux (spec_line_spans 0 b 0) None false 0.
Definition spec_sections (b : bytes) : list bytes := map (fun r => zslice (fst r) (fst r + snd r) b) (spec_section_ranges b).

(* SPEC: signature-related members ("Signed JAR File": META-INF/MANIFEST.MF, the files with extension SF, DSA, RSA, EC and the
   files whose name starts with SIG-, all directly inside META-INF/), compared without regard to case *)
Definition META_INF_SPEC : bytes := [77; 69; 84; 65; 45; 73; 78; 70; 47].
Definition spec_sig_related (name : bytes) : bool :=
  let u := jto_upper name in
  jhas_prefix u META_INF_SPEC &&
  (let base := zdrop 9 u in
   negb (jcontains base [47]) && negb (zlen base =? 0) &&
   (bytes_eqb base [77; 65; 78; 73; 70; 69; 83; 84; 46; 77; 70] || jhas_prefix base [83; 73; 71; 45]
    || jhas_suffix base [46; 83; 70] || jhas_suffix base [46; 68; 83; 65] || jhas_suffix base [46; 82; 83; 65] || jhas_suffix base [46; 69; 67])).

(* the JDK's own reading of that list (sun.security.util.SignatureFileVerifier.isSigningRelated): as above, but a name that starts with SIG-
   counts only when it has no extension or an extension of one to three letters or digits *)
Definition jdk_sig_ext_ok (base : bytes) : bool :=
  let i := jlast_index_byte base 46 in
  if i <? 0 then true
  else let ext := zdrop (i + 1) base in (1 <=? zlen ext) && (zlen ext <=? 3) && forallb is_alnum ext.
Definition jdk_sig_related (name : bytes) : bool :=
  let u := jto_upper name in
  jhas_prefix u META_INF_SPEC &&
  (let base := zdrop 9 u in
   negb (jcontains base [47]) &&
   (bytes_eqb base [77; 65; 78; 73; 70; 69; 83; 84; 46; 77; 70]
    || jhas_suffix base [46; 83; 70] || jhas_suffix base [46; 68; 83; 65] || jhas_suffix base [46; 82; 83; 65] || jhas_suffix base [46; 69; 67]
    || (jhas_prefix base [83; 73; 71; 45] && jdk_sig_ext_ok base))).
