(* FmtJAR/ProofsC.v — splitManifest on emitted sections, writeSection / Dump as text, parseManifest (Dump m). *)
From Relic Require Import Base.Prelude FmtJAR.Lib Generated.FmtJAR_gen FmtJAR.Model FmtJAR.ProofsA FmtJAR.ProofsB.

(* ------------------------------------------------------------------ TrimSpace leaves a text that starts with a printable ASCII byte non-empty *)
Lemma ws_head_printable c r : printable c -> ws_head (c :: r) = 0%nat.
Proof.
  unfold printable. intros H. unfold ws_head, ascii_space, ws2, ws3.
  replace ((9 <=? c) && (c <=? 13) || (c =? 32)) with false by lia.
  destruct r as [|b [|d r']]; [reflexivity| |].
  - replace (c =? 194) with false by lia. reflexivity.
  - replace (c =? 194) with false by lia. replace (c =? 225) with false by lia. replace (c =? 226) with false by lia. replace (c =? 227) with false by lia. reflexivity.
Qed.
Lemma jltrim_printable c r : printable c -> jltrim (c :: r) = c :: r.
Proof. intros H. unfold jltrim. cbn [jtrim_gen]. rewrite ws_head_printable by exact H. reflexivity. Qed.
Lemma rtrim_keeps_last c : printable c -> forall l skip, (skip <= length l)%nat -> jtrim_gen ws_head_rev skip (l ++ [c]) <> [].
Proof.
  intros Hc. unfold printable in Hc. induction l as [|x l IH]; intros skip Hs.
  - assert (skip = 0)%nat by (cbn in Hs; lia). subst. cbn [app jtrim_gen]. unfold ws_head_rev, ascii_space.
    replace ((9 <=? c) && (c <=? 13) || (c =? 32)) with false by lia. discriminate.
  - destruct skip as [|k].
    + cbn [app jtrim_gen]. destruct (ws_head_rev (x :: l ++ [c])) as [|n] eqn:E; [discriminate|].
      apply IH.
      (* the rune found at the head does not reach the last byte *)
      unfold ws_head_rev in E. destruct (ascii_space x); [injection E as <-; lia|].
      destruct l as [|y l'].
      * cbn [app] in E. unfold ws2 in E. replace (c =? 194) with false in E by lia. cbn [andb] in E. discriminate.
      * cbn [app] in E. destruct (ws2 y x); [injection E as <-; cbn; lia|].
        destruct l' as [|z l''].
        -- cbn [app] in E. unfold ws3 in E. replace (c =? 225) with false in E by lia. replace (c =? 226) with false in E by lia. replace (c =? 227) with false in E by lia. cbn [andb orb] in E. discriminate.
        -- cbn [app] in E. destruct (ws3 z y x); [injection E as <-; cbn; lia|discriminate].
    + cbn [app jtrim_gen]. apply IH. cbn in Hs. lia.
Qed.
Lemma jtrim_nonempty c r : printable c -> jtrim (c :: r) <> [].
Proof.
  intros Hc. unfold jtrim. rewrite jltrim_printable by exact Hc. unfold jrtrim. intros E.
  apply (f_equal (@rev Z)) in E. rewrite rev_involutive in E. cbn [rev] in E.
  revert E. apply rtrim_keeps_last; [exact Hc|lia].
Qed.

(* ------------------------------------------------------------------ bytes.Index for CR LF CR LF on emitted text *)
Definition PAT : bytes := [13; 10; 13; 10].
Definition shift (n j : Z) : Z := if j <? 0 then -1 else n + j.
Lemma shift_shift a b j : 0 <= a -> 0 <= b -> shift a (shift b j) = shift (a + b) j.
Proof. intros. unfold shift. destruct (j <? 0) eqn:E; [reflexivity|]. destruct (b + j <? 0) eqn:E2; lia. Qed.
Lemma jindex_miss x s : x <> 13 -> jindex (x :: s) PAT = shift 1 (jindex s PAT).
Proof. intros H. cbn [jindex jhas_prefix PAT]. replace (13 =? x) with false by lia. reflexivity. Qed.
Lemma jindex_ge s pat : -1 <= jindex s pat.
Proof.
  induction s as [|x s IH]; cbn [jindex]; destruct (jhas_prefix _ pat); try lia.
  destruct (jindex s pat <? 0) eqn:E; lia.
Qed.
Lemma stream_len_ge2 k l : 2 <= zlen (stream k l).
Proof.
  revert k; induction l as [|c r IH]; intros k; [cbn; lia|].
  destruct k as [|k']; cbn [stream]; rewrite !zlen_cons; [specialize (IH 68%nat)|specialize (IH k')]; lia.
Qed.

Lemma jindex_stream k l rest : no_byte 13 l ->
  jindex (stream k l ++ rest) PAT = shift (zlen (stream k l) - 2) (jindex (13 :: 10 :: rest) PAT).
Proof.
  revert k; induction l as [|c r IH]; intros k H.
  - cbn [stream app]. unfold shift. change (zlen [13; 10] - 2) with 0. pose proof (jindex_ge (13 :: 10 :: rest) PAT). destruct (jindex (13 :: 10 :: rest) PAT <? 0) eqn:E; lia.
  - apply no_byte_cons in H as [Hc Hr]. destruct k as [|k'].
    + cbn [stream app]. rewrite !zlen_cons.
      (* CR LF SPACE c ...: no match at the CR (the third byte is a space), none at LF, SPACE, c *)
      assert (E1 : jindex (13 :: 10 :: 32 :: c :: stream 68 r ++ rest) PAT = shift 1 (jindex (10 :: 32 :: c :: stream 68 r ++ rest) PAT)) by reflexivity.
      rewrite E1, !jindex_miss by lia. rewrite IH by exact Hr. pose proof (stream_len_ge2 68 r). rewrite !shift_shift by lia. f_equal. lia.
    + cbn [stream app]. rewrite zlen_cons. rewrite jindex_miss by exact Hc. rewrite IH by exact Hr. pose proof (stream_len_ge2 k' r). rewrite shift_shift by lia. f_equal. lia.
Qed.
(* the first CR LF CR LF of `attributes ++ CR LF ++ more` is the one that ends the section *)
Lemma jindex_crlf_miss c X : c <> 13 -> jindex (13 :: 10 :: c :: X) PAT = shift 2 (jindex (c :: X) PAT).
Proof.
  intros Hc. assert (F : jhas_prefix (13 :: 10 :: c :: X) PAT = false) by (unfold PAT; cbn [jhas_prefix]; replace (13 =? c) with false by lia; reflexivity).
  change (jindex (13 :: 10 :: c :: X) PAT) with (if jhas_prefix (13 :: 10 :: c :: X) PAT then 0 else shift 1 (jindex (10 :: c :: X) PAT)).
  rewrite F. rewrite jindex_miss by lia. rewrite shift_shift by lia. reflexivity.
Qed.
Lemma attrs_text_first attrs tail : Forall valid_attr attrs -> attrs <> [] ->
  exists c T, concat (map attr_text attrs) ++ tail = c :: T /\ printable c.
Proof.
  intros H Hne. destruct attrs as [|[k v] r]; [contradiction|]. inversion H as [|? ? [Hk _] _]; subst. cbn [fst] in Hk.
  destruct (valid_line_first k v Hk) as (c & t & E & Hc). exists c. cbn [map concat]. unfold attr_text at 1. cbn [fst snd]. rewrite E. cbn [stream app].
  eexists. split; [reflexivity|exact Hc].
Qed.
Lemma jindex_attrs attrs more : Forall valid_attr attrs -> attrs <> [] ->
  jindex (concat (map attr_text attrs) ++ 13 :: 10 :: more) PAT = zlen (concat (map attr_text attrs)) - 2.
Proof.
  intros H Hne. induction H as [|[k v] r [Hk Hv] Hr IH]; [contradiction|]. cbn [fst snd] in Hk, Hv.
  cbn [map concat]. unfold attr_text at 1 3. cbn [fst snd]. rewrite <- app_assoc.
  rewrite jindex_stream by (apply valid_line_13; assumption).
  pose proof (stream_len_ge2 70 (attr_line k v)) as Hl. rewrite zlen_app.
  destruct r as [|a2 r2].
  - cbn [map concat app]. change (jindex (13 :: 10 :: 13 :: 10 :: more) PAT) with 0. unfold shift. change (0 <? 0) with false. cbv iota. change (zlen (@nil Z)) with 0. lia.
  - specialize (IH ltac:(discriminate)).
    destruct (attrs_text_first (a2 :: r2) (13 :: 10 :: more) Hr ltac:(discriminate)) as (c & T & E & Hc). unfold printable in Hc.
    rewrite E in IH |- *. rewrite jindex_crlf_miss by lia. rewrite IH.
    assert (2 <= zlen (concat (map attr_text (a2 :: r2)))).
    { cbn [map concat]. rewrite zlen_app. pose proof (stream_len_ge2 70 (attr_line (fst a2) (snd a2))). unfold attr_text at 1.
      match goal with |- context [zlen (concat ?t)] => pose proof (zlen_nonneg (concat t)) end. lia. }
    unfold shift. set (n := zlen (concat (map attr_text (a2 :: r2)))) in *.
    replace (n - 2 <? 0) with false by lia. cbv iota. replace (2 + (n - 2) <? 0) with false by lia. lia.
Qed.
Lemma jindex_sec attrs more : Forall valid_attr attrs -> attrs <> [] ->
  jindex (sec_text attrs ++ more) PAT = zlen (sec_text attrs) - 4.
Proof.
  intros H Hne. unfold sec_text. rewrite <- app_assoc. cbn [app]. rewrite jindex_attrs by assumption.
  rewrite zlen_app. change (zlen [13; 10]) with 2. lia.
Qed.

(* ------------------------------------------------------------------ bytes.Index for LF LF on emitted text: there is none *)
Definition LL : bytes := [10; 10].
Lemma jindex_miss_LL x s : x <> 10 -> jindex (x :: s) LL = shift 1 (jindex s LL).
Proof. intros H. cbn [jindex jhas_prefix LL]. replace (10 =? x) with false by lia. reflexivity. Qed.
Lemma jindex_lf_LL y s : y <> 10 -> jindex (10 :: y :: s) LL = shift 1 (jindex (y :: s) LL).
Proof. intros H. cbn [jindex jhas_prefix LL]. replace (10 =? y) with false by lia. rewrite andb_false_r. reflexivity. Qed.
Definition not_lf_first (rest : bytes) : Prop := match rest with c :: _ => c <> 10 | [] => True end.
Lemma jindex_lf_end_LL rest : not_lf_first rest -> jindex (10 :: rest) LL = shift 1 (jindex rest LL).
Proof. destruct rest as [|y r]; intros H; [reflexivity|]. apply jindex_lf_LL. exact H. Qed.
Lemma jindex_stream_LL k l rest : no_byte 10 l -> not_lf_first rest ->
  jindex (stream k l ++ rest) LL = shift (zlen (stream k l)) (jindex rest LL).
Proof.
  revert k; induction l as [|c r IH]; intros k H Hrest.
  - cbn [stream app]. rewrite jindex_miss_LL by lia. rewrite jindex_lf_end_LL by exact Hrest. rewrite shift_shift by lia. reflexivity.
  - apply no_byte_cons in H as [Hc Hr]. pose proof (stream_len_ge2 68 r). destruct k as [|k'].
    + cbn [stream app]. rewrite !zlen_cons. rewrite jindex_miss_LL by lia. rewrite jindex_lf_LL by lia. rewrite jindex_miss_LL by lia. rewrite jindex_miss_LL by exact Hc.
      rewrite IH by assumption. rewrite !shift_shift by lia. f_equal; lia.
    + cbn [stream app]. rewrite zlen_cons. pose proof (stream_len_ge2 k' r). rewrite jindex_miss_LL by exact Hc. rewrite IH by assumption. rewrite shift_shift by lia. f_equal; lia.
Qed.
Lemma jindex_attrs_LL attrs rest : Forall valid_attr attrs -> not_lf_first rest -> jindex rest LL = -1 ->
  jindex (concat (map attr_text attrs) ++ rest) LL = -1.
Proof.
  intros H Hrest Hr. induction H as [|[k v] r [Hk Hv] Hf IH]; [exact Hr|]. cbn [fst snd] in Hk, Hv.
  cbn [map concat]. unfold attr_text at 1. cbn [fst snd]. rewrite <- app_assoc. rewrite jindex_stream_LL.
  - rewrite IH. reflexivity.
  - apply valid_line_10; assumption.
  - destruct r as [|a2 r2]; [exact Hrest|]. destruct (attrs_text_first (a2 :: r2) rest Hf ltac:(discriminate)) as (c & T & E & Hc). rewrite E. unfold printable in Hc. cbn. lia.
Qed.
Lemma sec_text_first' attrs tail : Forall valid_attr attrs -> attrs <> [] -> exists c T, sec_text attrs ++ tail = c :: T /\ printable c.
Proof. intros H Hne. unfold sec_text. rewrite <- app_assoc. apply attrs_text_first; assumption. Qed.
Lemma jindex_secs_LL secs : Forall (fun a => Forall valid_attr a /\ a <> []) secs -> jindex (concat (map sec_text secs)) LL = -1.
Proof.
  intros H. induction H as [|a r [Ha Hne] Hr IH]; [reflexivity|]. cbn [map concat]. unfold sec_text at 1. rewrite <- app_assoc.
  assert (Hnf : not_lf_first (concat (map sec_text r))).
  { destruct r as [|a2 r2]; [exact I|]. inversion Hr as [|? ? [Ha2 Hne2] _]; subst. cbn [map concat].
    destruct (sec_text_first' a2 (concat (map sec_text r2)) Ha2 Hne2) as (c & T & E & Hc). rewrite E. unfold printable in Hc. cbn. lia. }
  apply jindex_attrs_LL; [exact Ha|cbn; lia|].
  cbn [app]. rewrite jindex_miss_LL by lia. rewrite jindex_lf_end_LL by exact Hnf. rewrite IH. reflexivity.
Qed.

(* ------------------------------------------------------------------ splitManifest on a concatenation of emitted sections *)
Definition good_sec (a : list (bytes * bytes)) : Prop := Forall valid_attr a /\ a <> [].
Lemma sec_text_first attrs : good_sec attrs -> exists c r, sec_text attrs = c :: r /\ printable c.
Proof. intros [H Hne]. unfold sec_text. apply attrs_text_first; assumption. Qed.
Lemma sec_text_len attrs : good_sec attrs -> 4 <= zlen (sec_text attrs).
Proof.
  intros [H Hne]. destruct attrs as [|a r]; [contradiction|]. unfold sec_text. cbn [map concat]. rewrite !zlen_app.
  pose proof (stream_len_ge2 70 (attr_line (fst a) (snd a))). unfold attr_text at 1. pose proof (zlen_nonneg (concat (map attr_text r))). change (zlen [13; 10]) with 2. lia.
Qed.
Lemma sm_empty_sec attrs : good_sec attrs -> jar_sm_empty (sec_text attrs) = false.
Proof.
  intros H. destruct (sec_text_first attrs H) as (c & r & E & Hc). unfold jar_sm_empty. rewrite E.
  pose proof (jtrim_nonempty c r Hc). destruct (jtrim (c :: r)) as [|t0 tl0] eqn:Et; [contradiction|]. rewrite zlen_cons. pose proof (zlen_nonneg tl0). lia.
Qed.
Lemma ztake_app_exact {A} (a b : list A) : ztake (zlen a) (a ++ b) = a.
Proof. unfold ztake, zlen. rewrite Nat2Z.id, firstn_app, Nat.sub_diag, firstn_all. cbn. apply app_nil_r. Qed.
Lemma zdrop_app_exact {A} (a b : list A) : zdrop (zlen a) (a ++ b) = b.
Proof. unfold zdrop, zlen. rewrite Nat2Z.id, skipn_app, Nat.sub_diag, skipn_all. reflexivity. Qed.

Lemma sm_loop_secs secs : Forall good_sec secs -> forall fuel mal, (length (concat (map sec_text secs)) < fuel)%nat ->
  sm_loop fuel (concat (map sec_text secs)) mal = Ok (map sec_text secs, mal).
Proof.
  intros H. induction H as [|a r Ha Hr IH]; intros fuel mal Hf.
  - destruct fuel; [lia|]. reflexivity.
  - destruct fuel as [|f]; [lia|]. cbn [map concat] in Hf |- *. remember (concat (map sec_text r)) as rest eqn:Erest.
    pose proof (sec_text_len a Ha) as Hlen. pose proof (zlen_nonneg rest) as Hr0.
    cbn [sm_loop]. unfold jar_sm_more. rewrite zlen_app. replace (zlen (sec_text a) + zlen rest =? 0) with false by lia. cbn [negb].
    change jar_sm_sep1 with PAT. change jar_sm_sep2 with LL. destruct Ha as [Hav Hane]. rewrite jindex_sec by assumption.
    assert (HLL : jindex (sec_text a ++ rest) LL = -1).
    { subst rest. apply (jindex_secs_LL (a :: r)). constructor; [split; assumption|exact Hr]. }
    rewrite HLL. unfold jar_sm_idx, jar_sm_malformed_after. replace (zlen (sec_text a) - 4 >=? 0) with true by lia. cbn [Z.ltb Z.compare orb andb].
    replace (zlen (sec_text a) - 4 + 4) with (zlen (sec_text a)) by lia.
    assert (Hm : zlen (sec_text a ++ rest) = zlen (sec_text a) + zlen rest) by apply zlen_app.
    rewrite !cslice_ok by lia. cbn [bind]. rewrite zdrop_0, Z.sub_0_r, ztake_app_exact, zdrop_app_exact.
    rewrite ztake_all by lia.
    rewrite sm_empty_sec by (split; assumption).
    subst rest. rewrite IH; [reflexivity|]. rewrite app_length in Hf. assert (0 < length (sec_text a))%nat by (unfold zlen in Hlen; lia). lia.
Qed.
Theorem split_manifest_secs secs : Forall good_sec secs -> split_manifest (concat (map sec_text secs)) = Ok (map sec_text secs, false).
Proof. intros H. unfold split_manifest. apply sm_loop_secs; [exact H|lia]. Qed.

(* ------------------------------------------------------------------ writeSection and Dump as text *)
Definition MV : bytes := jar_dump_main_first.
Definition NAME : bytes := jar_dump_sec_first.
(* the attributes writeSection emits, in its order: the distinguished one first (if it has a value), the others sorted by key *)
Definition ws_attrs (h : hdr) (first : bytes) : list (bytes * bytes) :=
  (if jar_ws_first_present (hget h first) then [(first, hget h first)] else []) ++ ws_rest h first.
Lemma write_section_text h first : write_section h first = Ok (sec_text (ws_attrs h first)).
Proof.
  unfold write_section, ws_attrs, sec_text. rewrite write_attrs_text. change jar_ws_end with [13; 10].
  destruct (jar_ws_first_present (hget h first)).
  - rewrite write_attr_stream. cbn [bind app map concat]. unfold attr_text at 2. cbn [fst snd]. rewrite <- app_assoc. reflexivity.
  - reflexivity.
Qed.
Definition dump_attrs (m : fmap) : list (list (bytes * bytes)) :=
  ws_attrs (fm_main m) MV :: map (fun nh => ws_attrs (snd nh) NAME) (fm_files m).
Lemma files_get_in fs n h : NoDup (map fst fs) -> In (n, h) fs -> files_get fs n = Some h.
Proof.
  induction fs as [|[n' h'] r IH]; intros Hn Hin; [contradiction|]. cbn [files_get]. cbn [map fst] in Hn. inversion Hn as [|? ? Hnot Hn']; subst.
  destruct Hin as [E|Hin].
  - injection E as -> ->. rewrite bytes_eqb_refl. reflexivity.
  - destruct (bytes_eqb n' n) eqn:E; [|apply IH; assumption]. apply bytes_eqb_eq in E. subst. exfalso. apply Hnot. apply (in_map fst) in Hin. exact Hin.
Qed.
Lemma dump_sections_text fs0 fs : NoDup (map fst fs0) -> incl fs fs0 ->
  dump_sections fs0 (map fst fs) = Ok (concat (map (fun nh => sec_text (ws_attrs (snd nh) NAME)) fs)).
Proof.
  intros Hn. induction fs as [|[n h] r IH]; intros Hi; [reflexivity|].
  cbn [map dump_sections fst snd concat]. rewrite (files_get_in fs0 n h Hn) by (apply Hi; left; reflexivity).
  change (jar_dump_emit true) with true. cbv iota. fold NAME. rewrite write_section_text. cbn [bind].
  rewrite IH by (intros x Hx; apply Hi; right; exact Hx). reflexivity.
Qed.
Theorem dump_text m : NoDup (fm_order m) -> map fst (fm_files m) = fm_order m ->
  dump m = Ok (concat (map sec_text (dump_attrs m))).
Proof.
  intros Hn He. unfold dump, dump_attrs. fold MV. rewrite write_section_text. cbn [bind]. rewrite <- He.
  rewrite dump_sections_text; [|rewrite He; exact Hn|apply incl_refl]. cbn [bind map concat]. rewrite map_map. reflexivity.
Qed.
