(* FmtJAR/ProofsH.v — member level: payload members survive signing, old signature files do not, digests ignore signature files,
   re-signing leaves a complete manifest untouched; C02: what an accepted signature binds, and what it does not. *)
From Relic Require Import Base.Prelude FmtJAR.Lib Generated.FmtJAR_gen FmtJAR.Model FmtJAR.ProofsA FmtJAR.ProofsB FmtJAR.ProofsC FmtJAR.ProofsG.

Definition spec_payload (n : bytes) : bool := negb (spec_sig_related n) && negb (bytes_eqb n jar_meta_inf).

(* C03: a member the specification classifies as payload is kept by keepFile — every name *)
Theorem payload_is_kept n : spec_payload n = true -> jar_keep_file n = true.
Proof.
  unfold spec_payload. intros H. apply andb_true_iff in H as [Hs Hm]. apply negb_true_iff in Hs, Hm. rewrite keep_file_eq_spec, Hs, Hm. reflexivity.
Qed.

(* ------------------------------------------------------------------ insertSignature at member level *)
Definition alias_ok (keytype : Z) (alias : bytes) : Prop :=
  let '(s, p) := sig_names keytype alias in
  jar_keep_file (jar_meta_inf ++ s) = false /\ jar_keep_file (jar_meta_inf ++ p) = false /\
  spec_sig_related (jar_meta_inf ++ s) = true /\ spec_sig_related (jar_meta_inf ++ p) = true.

Lemma filter_filter_payload (ms : members) :
  filter (fun nc => spec_payload (fst nc)) (filter (fun nc => jar_keep_file (fst nc)) ms) = filter (fun nc => spec_payload (fst nc)) ms.
Proof.
  induction ms as [|[n c] r IH]; [reflexivity|]. cbn [filter fst].
  destruct (spec_payload n) eqn:Ep.
  - rewrite (payload_is_kept n Ep). cbn [filter fst]. rewrite Ep. rewrite IH. reflexivity.
  - destruct (jar_keep_file n); [cbn [filter fst]; rewrite Ep|]; apply IH.
Qed.
(* C03 / C08: every payload member of the input is a member of the signed archive, with its content, in the same order;
   nothing else is payload there *)
Theorem payload_kept keytype alias ms manifest sf blob : alias_ok keytype alias ->
  filter (fun nc => spec_payload (fst nc)) (jar_embed keytype alias ms manifest sf blob) = filter (fun nc => spec_payload (fst nc)) ms.
Proof.
  intros Ha. unfold jar_embed, alias_ok in *. destruct (sig_names keytype alias) as [s p]. destruct Ha as (_ & _ & Hs & Hp).
  rewrite filter_app. rewrite filter_filter_payload.
  assert (E1 : spec_payload jar_meta_inf = false) by reflexivity.
  assert (E2 : spec_payload jar_manifest_name = false) by reflexivity.
  assert (E3 : spec_payload (jar_meta_inf ++ s) = false) by (unfold spec_payload; rewrite Hs; reflexivity).
  assert (E4 : spec_payload (jar_meta_inf ++ p) = false) by (unfold spec_payload; rewrite Hp; reflexivity).
  cbn [filter fst]. rewrite E1, E2, E3, E4. reflexivity.
Qed.
(* C08: of the input's members only those keepFile keeps are in the signed archive: no old signature file survives *)
Theorem resign_drops_old keytype alias ms manifest sf blob n c :
  In (n, c) (skipn 4 (jar_embed keytype alias ms manifest sf blob)) -> In (n, c) ms /\ jar_keep_file n = true.
Proof.
  unfold jar_embed. destruct (sig_names keytype alias) as [s p]. cbn [app skipn]. intros H. apply filter_In in H. exact H.
Qed.

(* ------------------------------------------------------------------ C08: the digests do not see signature files *)
Section WithHash.
  Variable H : Z -> bytes -> bytes.
  Variable avail : Z -> bool.
  Lemma hashed_kept n : hashed_name n = true -> jar_keep_file n = true.
  Proof.
    unfold hashed_name, jar_df_not_hashed. intros E. apply andb_true_iff in E as [_ E]. apply negb_true_iff in E. apply orb_false_iff in E as [_ E].
    apply negb_false_iff in E. exact E.
  Qed.
  Lemma df_digests_filter alg ms : forall acc, df_digests H alg (filter (fun nc => jar_keep_file (fst nc)) ms) acc = df_digests H alg ms acc.
  Proof.
    induction ms as [|[n c] r IH]; intros acc; [reflexivity|]. cbn [filter fst df_digests].
    destruct (jar_keep_file n) eqn:Ek.
    - cbn [df_digests]. apply IH.
    - destruct (hashed_name n) eqn:Eh; [apply hashed_kept in Eh; congruence|]. apply IH.
  Qed.
  Theorem digests_ignore_signature_files alg keytype alias ms manifest sf blob : alias_ok keytype alias ->
    df_digests H alg (jar_embed keytype alias ms manifest sf blob) [] = df_digests H alg ms [].
  Proof.
    intros Ha. unfold jar_embed, alias_ok in *. destruct (sig_names keytype alias) as [s p]. destruct Ha as (Hs & Hp & _).
    cbn [app df_digests].
    assert (E1 : hashed_name jar_meta_inf = false) by reflexivity.
    assert (E2 : hashed_name jar_manifest_name = false) by reflexivity.
    assert (E3 : hashed_name (jar_meta_inf ++ s) = false) by (unfold hashed_name, jar_df_not_hashed; rewrite Hs; cbn [negb]; rewrite orb_true_r, andb_false_r; reflexivity).
    assert (E4 : hashed_name (jar_meta_inf ++ p) = false) by (unfold hashed_name, jar_df_not_hashed; rewrite Hp; cbn [negb]; rewrite orb_true_r, andb_false_r; reflexivity).
    rewrite E1, E2, E3, E4. apply df_digests_filter.
  Qed.

  (* ---- re-signing: when every digested member already has its digest and no directory section lacks one, the manifest bytes stay *)
  Definition already_listed (hash_name : bytes) (m : fmap) (d : bytes * bytes) : Prop :=
    exists attrs, files_get (fm_files m) (fst d) = Some attrs /\
                  (jar_um_magic attrs = true \/ (jar_um_existing attrs hash_name <> [] /\ jar_um_existing attrs hash_name = snd d)).
  Lemma um_loop_noop hash_name digs m : Forall (already_listed hash_name m) digs -> forall changed,
    um_loop hash_name digs m changed = Ok (m, changed).
  Proof.
    intros Hd. induction Hd as [|[n c] r (attrs & Hg & Hc) Hr IH]; intros changed; [reflexivity|].
    cbn [um_loop fst snd] in *. rewrite Hg. change (jar_um_new_section true) with false. cbv iota.
    destruct Hc as [Hm|[Hne He]].
    - rewrite Hm. apply IH.
    - destruct (jar_um_magic attrs); [apply IH|]. unfold jar_um_has_existing, jar_um_mismatch.
      destruct (bytes_eqb (jar_um_existing attrs hash_name) []) eqn:E; [apply bytes_eqb_eq in E; contradiction|]. cbn [negb].
      rewrite He. rewrite bytes_eqb_refl. cbn [negb]. apply IH.
  Qed.
  Lemma um_dirs_noop alg hash_name fs : Forall (fun nh => jar_um_dir_needs (fst nh) (snd nh) hash_name = false) fs ->
    um_dirs H alg hash_name fs = (fs, false).
  Proof.
    intros Hf. induction Hf as [|[n a] r Hn Hr IH]; [reflexivity|]. cbn [um_dirs fst snd] in *. rewrite IH, Hn. reflexivity.
  Qed.
  (* C08: manifest sections stay stable *)
  Theorem resign_manifest_stable alg order ms manifest m :
    df_manifest ms = Some manifest -> parse_manifest_m manifest = Ok (m, false) -> hash_name_of alg <> [] ->
    Forall (already_listed (hash_name_of alg ++ jar_um_digest_suffix) m) (reorder (df_digests H alg ms []) order) ->
    Forall (fun nh => jar_um_dir_needs (fst nh) (snd nh) (hash_name_of alg ++ jar_um_digest_suffix) = false) (fm_files m) ->
    update_manifest H alg order ms = Ok manifest.
  Proof.
    intros Hman Hpm Hhn Hl Hd. unfold update_manifest. rewrite Hman. change (jar_um_no_manifest true) with false. cbv iota.
    rewrite Hpm. cbn [bind fst snd]. unfold jar_um_hash_unknown. destruct (bytes_eqb (hash_name_of alg) []) eqn:E; [apply bytes_eqb_eq in E; contradiction|].
    rewrite um_loop_noop by exact Hl. cbn [bind fst snd]. rewrite um_dirs_noop by exact Hd. reflexivity.
  Qed.

  (* ------------------------------------------------------------------ C02: what acceptance binds *)
  Hypothesis H_inj : forall alg x y, H alg x = H alg y -> x = y.        (* collision freedom, as an explicit premise *)

  Lemma hash_file_ok_binds keys c1 c2 suffix : hash_file H avail keys c1 suffix = Ok tt -> hash_file H avail keys c2 suffix = Ok tt -> c1 = c2.
  Proof.
    unfold hash_file. destruct (hf_collect avail (jar_hf_suffix suffix) keys) as [ds| |]; cbn [bind]; try discriminate.
    destruct (jar_hf_none (zlen ds)) eqn:En; [discriminate|]. intros H1 H2.
    destruct ds as [|[[k v] alg] r]; [discriminate|]. cbn [existsb fst snd] in H1, H2. unfold jar_hf_mismatch in *.
    destruct (bytes_eqb (H alg c1) v) eqn:E1; cbn [negb orb] in H1; [|discriminate].
    destruct (bytes_eqb (H alg c2) v) eqn:E2; cbn [negb orb] in H2; [|discriminate].
    apply bytes_eqb_eq in E1, E2. apply (H_inj alg). congruence.
  Qed.
  (* the whole-manifest digest binds every byte of the manifest *)
  Theorem protect_manifest sf b1 b2 h1 h2 sfm :
    parse_manifest sf = Ok sfm -> hash_file H avail (fm_main sfm) b1 jar_vs_suffix_whole = Ok tt ->
    verify_sigfile H avail sf b1 = Ok h1 -> verify_sigfile H avail sf b2 = Ok h2 ->
    hash_file H avail (fm_main sfm) b2 jar_vs_suffix_whole <> Err E_NO_DIGESTS /\ b1 = b2.
  Proof.
    intros Hp Hh1 _ Hv2. unfold verify_sigfile in Hv2. rewrite Hp in Hv2. cbn [bind] in Hv2.
    assert (Hne : hash_file H avail (fm_main sfm) b2 jar_vs_suffix_whole <> Err E_NO_DIGESTS).
    { unfold hash_file in *. destruct (hf_collect avail (jar_hf_suffix jar_vs_suffix_whole) (fm_main sfm)) as [ds| |]; cbn [bind] in *; try discriminate.
      destruct (jar_hf_none (zlen ds)); [discriminate|]. match goal with |- context [existsb ?f ds] => destruct (existsb f ds) end; discriminate. }
    split; [exact Hne|].
    destruct (hash_file H avail (fm_main sfm) b2 jar_vs_suffix_whole) as [[]|e|p] eqn:Hh2.
    - eapply hash_file_ok_binds; eassumption.
    - exfalso. unfold jar_vs_hard_error in Hv2. destruct (e =? 4) eqn:Ee; [apply Z.eqb_eq in Ee; subst; apply Hne; reflexivity|]. cbn [negb] in Hv2. discriminate.
    - discriminate.
  Qed.
  (* a manifest section with a digest binds the content of its member *)
  Theorem protect_members files ms1 ms2 name keys :
    vm_files H avail files ms1 = Ok tt -> vm_files H avail files ms2 = Ok tt -> In (name, keys) files ->
    jar_vm_magic keys = false -> (jar_vm_is_dir name = false \/ mem_last ms1 name <> None /\ mem_last ms2 name <> None) ->
    mem_last ms1 name = mem_last ms2 name /\ mem_last ms1 name <> None.
  Proof.
    induction files as [|[n k] r IH]; intros H1 H2 Hin Hm Hd; [contradiction|]. cbn [vm_files] in H1, H2.
    destruct Hin as [E|Hin].
    - injection E as -> ->. rewrite Hm in H1, H2. change (jar_vm_missing false) with true in *. change (jar_vm_missing true) with false in *. cbv iota in H1, H2.
      destruct (mem_last ms1 name) as [c1|] eqn:E1, (mem_last ms2 name) as [c2|] eqn:E2.
      + destruct (hash_file H avail keys c1 []) as [[]| |] eqn:F1; cbn [bind] in H1; try discriminate.
        destruct (hash_file H avail keys c2 []) as [[]| |] eqn:F2; cbn [bind] in H2; try discriminate.
        rewrite (hash_file_ok_binds keys c1 c2 [] F1 F2). split; [reflexivity|discriminate].
      + destruct Hd as [Hd|[_ Hd]]; [rewrite Hd in H2; discriminate|contradiction].
      + destruct Hd as [Hd|[Hd _]]; [rewrite Hd in H1; discriminate|contradiction].
      + destruct Hd as [Hd|[Hd _]]; [rewrite Hd in H1; discriminate|contradiction].
    - destruct (jar_vm_magic k); [apply IH; assumption|].
      change (jar_vm_missing false) with true in *. change (jar_vm_missing true) with false in *. cbv iota in H1, H2.
      assert (T1 : vm_files H avail r ms1 = Ok tt).
      { destruct (mem_last ms1 n); [destruct (hash_file H avail k b []) as [[]| |]; cbn [bind] in H1; try discriminate; exact H1|].
        destruct (jar_vm_is_dir n); [|discriminate]. destruct (if has_digest k then hash_file H avail k [] [] else Ok tt) as [[]| |]; cbn [bind] in H1; try discriminate; exact H1. }
      assert (T2 : vm_files H avail r ms2 = Ok tt).
      { destruct (mem_last ms2 n); [destruct (hash_file H avail k b []) as [[]| |]; cbn [bind] in H2; try discriminate; exact H2|].
        destruct (jar_vm_is_dir n); [|discriminate]. destruct (if has_digest k then hash_file H avail k [] [] else Ok tt) as [[]| |]; cbn [bind] in H2; try discriminate; exact H2. }
      apply IH; assumption.
  Qed.
End WithHash.
