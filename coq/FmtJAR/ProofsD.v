(* FmtJAR/ProofsD.v — parseManifest (Dump m); the specification reader on Dump's output; the structure of DigestManifest's output. *)
From Relic Require Import Base.Prelude FmtJAR.Lib Generated.FmtJAR_gen FmtJAR.Model FmtJAR.ProofsA FmtJAR.ProofsB FmtJAR.ProofsC.

(* ------------------------------------------------------------------ the class of structures the round-trip theorems speak about *)
Definition sec_ok (nh : bytes * hdr) : Prop :=
  valid_attrs (ws_attrs (snd nh) NAME) /\ hget (snd nh) NAME = fst nh /\ fst nh <> [].
Record valid_fm (m : fmap) : Prop := {
  vf_main : valid_attrs (ws_attrs (fm_main m) MV);
  vf_main_ne : ws_attrs (fm_main m) MV <> [];
  vf_order : map fst (fm_files m) = fm_order m;
  vf_nodup : NoDup (fm_order m);
  vf_secs : Forall sec_ok (fm_files m) }.
(* what parsing gives back: the same attributes, each header listed in Dump's order *)
Definition norm_sec (nh : bytes * hdr) : bytes * hdr := (fst nh, ws_attrs (snd nh) NAME).
Definition norm_fm (m : fmap) : fmap := mkFmap (ws_attrs (fm_main m) MV) (fm_order m) (map norm_sec (fm_files m)).

Lemma ws_attrs_name h name : hget h NAME = name -> name <> [] -> exists rest, ws_attrs h NAME = (NAME, name) :: rest.
Proof.
  intros E Hne. unfold ws_attrs. rewrite E. unfold jar_ws_first_present.
  destruct (bytes_eqb name []) eqn:Eb; [apply bytes_eqb_eq in Eb; contradiction|]. cbn [negb app]. eexists. reflexivity.
Qed.
Lemma sec_ok_good nh : sec_ok nh -> good_sec (ws_attrs (snd nh) NAME).
Proof.
  intros ([Hv _] & Hn & Hne). split; [exact Hv|]. destruct (ws_attrs_name _ _ Hn Hne) as [rest E]. rewrite E. discriminate.
Qed.
Lemma files_set_notin fs n h : ~ In n (map fst fs) -> files_set fs n h = fs ++ [(n, h)].
Proof.
  induction fs as [|[n' h'] r IH]; intros H; [reflexivity|]. cbn [files_set]. cbn in H.
  destruct (bytes_eqb n' n) eqn:E; [apply bytes_eqb_eq in E; subst; tauto|]. rewrite IH by tauto. reflexivity.
Qed.

Lemma pm_loop_files fs : Forall sec_ok fs -> forall i acc, 0 < i -> NoDup (map fst (fm_files acc) ++ map fst fs) ->
  pm_loop i (map (fun nh => sec_text (ws_attrs (snd nh) NAME)) fs) acc =
  Ok (mkFmap (fm_main acc) (fm_order acc ++ map fst fs) (fm_files acc ++ map norm_sec fs)).
Proof.
  intros H. induction H as [|[n h] r Hok Hr IH]; intros i acc Hi Hn.
  - cbn [map pm_loop]. rewrite !app_nil_r. destruct acc; reflexivity.
  - cbn [map pm_loop fst snd].
    pose proof (sec_ok_good _ Hok) as Hg. cbn [snd] in Hg. pose proof (sec_text_len _ Hg) as Hlen.
    unfold jar_pm_skip. replace (zlen (sec_text (ws_attrs h NAME)) =? 0) with false by lia. rewrite andb_false_r.
    destruct Hok as (Hv & Hname & Hne). cbn [fst snd] in Hv, Hname, Hne.
    rewrite parse_section_valid by exact Hv. cbn [bind]. unfold jar_pm_is_main. replace (i =? 0) with false by lia.
    destruct (ws_attrs_name h n Hname Hne) as [rest E].
    assert (Hget : hget (ws_attrs h NAME) jar_pm_name_key = n).
    { rewrite E. unfold hget. change (jcanon jar_pm_name_key) with NAME. cbn [hraw_get]. rewrite bytes_eqb_refl. reflexivity. }
    rewrite Hget. unfold jar_pm_name_missing. destruct (bytes_eqb n []) eqn:Eb; [apply bytes_eqb_eq in Eb; contradiction|].
    cbn [map fst] in Hn.
    assert (Hnot : ~ In n (map fst (fm_files acc))).
    { apply NoDup_remove_2 in Hn. rewrite in_app_iff in Hn. tauto. }
    rewrite files_set_notin by exact Hnot.
    rewrite IH; [|lia|].
    + cbn [fm_main fm_order fm_files]. rewrite <- !app_assoc. reflexivity.
    + cbn [fm_files]. rewrite map_app. cbn [map fst]. rewrite <- app_assoc. cbn [app].
      (* move n from the middle to the accumulated side *)
      apply NoDup_remove in Hn as [Hn1 Hn2]. apply NoDup_Add with (a := n) (l := map fst (fm_files acc) ++ map fst r); [|split; assumption].
      apply Add_app.
Qed.

(* C03: parsing what Dump wrote gives the structure back: same section order, same attributes *)
Theorem parse_dump m b : valid_fm m -> dump m = Ok b -> parse_manifest_m b = Ok (norm_fm m, false).
Proof.
  intros [Hm Hmne Ho Hnd Hs] Hd. rewrite dump_text in Hd by assumption. injection Hd as Hd. subst b.
  unfold parse_manifest_m.
  assert (Hgood : Forall good_sec (dump_attrs m)).
  { unfold dump_attrs. constructor; [split; [apply Hm|exact Hmne]|]. rewrite Forall_map. eapply Forall_impl; [|exact Hs]. apply sec_ok_good. }
  match goal with |- context [split_manifest ?t] => change t with (concat (map sec_text (dump_attrs m))) end.
  rewrite split_manifest_secs by exact Hgood. cbn [bind fst snd].
  unfold jar_pm_no_sections, dump_attrs. cbn [map]. rewrite zlen_cons. match goal with |- context [zlen ?t] => pose proof (zlen_nonneg t) end.
  match goal with |- context [if ?c then _ else _] => replace c with false by lia end.
  cbn [pm_loop]. unfold jar_pm_skip. cbn [Z.gtb Z.compare andb]. rewrite parse_section_valid by exact Hm. cbn [bind].
  change (jar_pm_is_main 0) with true. cbv iota. rewrite map_map.
  rewrite (pm_loop_files (fm_files m) Hs); [|lia|cbn [fm_files app]; rewrite Ho; exact Hnd].
  cbn [bind fm_main fm_order fm_files app]. unfold norm_fm. rewrite Ho. reflexivity.
Qed.
Theorem parse_dump_public m b : valid_fm m -> dump m = Ok b -> parse_manifest b = Ok (norm_fm m).
Proof. intros Hv Hd. unfold parse_manifest. rewrite (parse_dump m b Hv Hd). reflexivity. Qed.

(* the attributes are the same finite map *)
