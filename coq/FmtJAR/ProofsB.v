(* FmtJAR/ProofsB.v — parseSection / splitManifest / parseManifest on what writeSection / Dump emit. *)
From Relic Require Import Base.Prelude FmtJAR.Lib Generated.FmtJAR_gen FmtJAR.Model FmtJAR.ProofsA.

(* ------------------------------------------------------------------ the classes of attribute names and values the theorems speak about *)
Definition printable (c : Z) : Prop := 33 <= c <= 126.
Definition valid_key (k : bytes) : Prop :=
  (exists c r, k = c :: r /\ printable c) /\ no_byte 58 k /\ no_byte 10 k /\ no_byte 13 k /\ jtrim k = k /\ jcanon k = k.
Definition valid_val (v : bytes) : Prop := no_byte 10 v /\ no_byte 13 v /\ jtrim v = v.
Definition valid_attr (kv : bytes * bytes) : Prop := valid_key (fst kv) /\ valid_val (snd kv).
Definition valid_attrs (l : list (bytes * bytes)) : Prop := Forall valid_attr l /\ NoDup (map fst l).

Lemma valid_line_13 k v : valid_key k -> valid_val v -> no_byte 13 (attr_line k v).
Proof.
  intros (_ & _ & _ & Hk & _) (_ & Hv & _). unfold attr_line. change jar_wa_sep with [58; 32].
  rewrite !no_byte_app. repeat split; try assumption. unfold no_byte. cbn. intuition lia.
Qed.
Lemma valid_line_10 k v : valid_key k -> valid_val v -> no_byte 10 (attr_line k v).
Proof.
  intros (_ & _ & Hk & _) (Hv & _). unfold attr_line. change jar_wa_sep with [58; 32].
  rewrite !no_byte_app. repeat split; try assumption. unfold no_byte. cbn. intuition lia.
Qed.
Lemma valid_line_first k v : valid_key k -> exists c r, attr_line k v = c :: r /\ printable c.
Proof. intros ((c & r & -> & Hc) & _). exists c, (r ++ jar_wa_sep ++ v). split; [reflexivity|exact Hc]. Qed.

(* ------------------------------------------------------------------ the text of one section *)
Definition attr_text (kv : bytes * bytes) : bytes := stream 70 (attr_line (fst kv) (snd kv)).
Definition sec_text (attrs : list (bytes * bytes)) : bytes := concat (map attr_text attrs) ++ [13; 10].

Lemma write_attrs_text l : write_attrs l = Ok (concat (map attr_text l)).
Proof.
  induction l as [|[k v] r IH]; [reflexivity|]. cbn [write_attrs map concat]. rewrite write_attr_stream. cbn [bind]. rewrite IH. reflexivity.
Qed.

(* ---- unfolding *)
Lemma stream_first k c r : exists t, stream (S k) (c :: r) = c :: t.
Proof. eexists. reflexivity. Qed.
Lemma stream_lf_first k c r : exists t, stream_lf (S k) (c :: r) = c :: t.
Proof. eexists. reflexivity. Qed.

Lemma unfold1_sec attrs : Forall valid_attr attrs ->
  jrepl2 13 10 [10] (sec_text attrs) = concat (map (fun kv => stream_lf 70 (attr_line (fst kv) (snd kv))) attrs) ++ [10].
Proof.
  intros H. unfold sec_text. induction H as [|[k v] r [Hk Hv] Hr IH]; [reflexivity|].
  cbn [map concat]. unfold attr_text at 1. cbn [fst snd]. rewrite <- app_assoc. rewrite repl_crlf_stream by (apply valid_line_13; assumption).
  rewrite IH. rewrite <- app_assoc. reflexivity.
Qed.
Lemma unfold2_sec attrs : Forall valid_attr attrs ->
  jrepl2 10 32 [] (concat (map (fun kv => stream_lf 70 (attr_line (fst kv) (snd kv))) attrs) ++ [10])
  = concat (map (fun kv => attr_line (fst kv) (snd kv) ++ [10]) attrs) ++ [10].
Proof.
  intros H. induction H as [|[k v] r [Hk Hv] Hr IH]; [reflexivity|].
  cbn [map concat fst snd]. rewrite <- app_assoc. rewrite repl_lfsp_stream.
  - rewrite IH. rewrite <- !app_assoc. reflexivity.
  - apply valid_line_10; assumption.
  - destruct r as [|[k2 v2] r2]; [cbn; lia|]. inversion Hr as [|? ? [Hk2 _] _]; subst.
    destruct (valid_line_first k2 v2 Hk2) as (c & t & E & Hc). cbn [map concat fst snd]. rewrite E. cbn. unfold printable in Hc. lia.
Qed.
Lemma ps_unfold_sec attrs : Forall valid_attr attrs ->
  ps_unfold (sec_text attrs) = concat (map (fun kv => attr_line (fst kv) (snd kv) ++ [10]) attrs) ++ [10].
Proof.
  intros H. unfold ps_unfold, repl. change jar_ps_r1_old with [13; 10]. change jar_ps_r1_new with [10]. change jar_ps_r2_old with [10; 32]. change jar_ps_r2_new with (@nil Z).
  cbv beta iota.
  rewrite unfold1_sec by exact H. apply unfold2_sec. exact H.
Qed.

(* ---- splitting into lines *)
Lemma jsplit1_line c l rest : no_byte c l -> jsplit1 c (l ++ c :: rest) = l :: jsplit1 c rest.
Proof.
  induction l as [|x l IH]; intros H.
  - cbn [app jsplit1]. rewrite Z.eqb_refl. reflexivity.
  - apply no_byte_cons in H as [Hx Hl]. cbn [app jsplit1]. replace (x =? c) with false by lia. rewrite IH by exact Hl. reflexivity.
Qed.
Lemma split_sec attrs : Forall valid_attr attrs ->
  jsplit1 10 (concat (map (fun kv => attr_line (fst kv) (snd kv) ++ [10]) attrs) ++ [10]) = map (fun kv => attr_line (fst kv) (snd kv)) attrs ++ [[]; []].
Proof.
  intros H. induction H as [|[k v] r [Hk Hv] Hr IH]; [reflexivity|].
  cbn [map concat fst snd]. rewrite <- !app_assoc. cbn [app]. rewrite jsplit1_line by (apply valid_line_10; assumption).
  rewrite IH. reflexivity.
Qed.

(* ---- one line *)
Lemma jindex_byte_app k c rest : no_byte c k -> jindex_byte (k ++ c :: rest) c = zlen k.
Proof.
  induction k as [|x k IH]; intros H.
  - cbn. rewrite Z.eqb_refl. reflexivity.
  - apply no_byte_cons in H as [Hx Hk]. cbn [app jindex_byte]. replace (x =? c) with false by lia. rewrite IH by exact Hk.
    rewrite zlen_cons. pose proof (zlen_nonneg k). replace (zlen k <? 0) with false by lia. reflexivity.
Qed.
Lemma jtrim_space v : jtrim (32 :: v) = jtrim v.
Proof. reflexivity. Qed.
Lemma ps_line_attr h k v : valid_key k -> valid_val v -> ps_line h (attr_line k v) = Ok (hset h k v).
Proof.
  intros Hk Hv. pose proof Hk as (_ & H58 & _ & _ & Htk & _). pose proof Hv as (_ & _ & Htv).
  unfold ps_line, attr_line. change jar_wa_sep with [58; 32]. change jar_ps_colon with 58.
  unfold jar_ps_skip_line, jar_ps_no_colon, jar_ps_key_hi, jar_ps_val_lo.
  cbn [app]. rewrite jindex_byte_app by exact H58.
  pose proof (zlen_nonneg k) as Hk0. pose proof (zlen_nonneg v) as Hv0.
  assert (Hlen : zlen (k ++ 58 :: 32 :: v) = zlen k + 2 + zlen v) by (rewrite zlen_app, !zlen_cons; lia).
  replace (zlen (k ++ 58 :: 32 :: v) =? 0) with false by lia. replace (zlen k <? 0) with false by lia.
  rewrite !cslice_ok by lia. cbn [bind].
  rewrite zdrop_0, Z.sub_0_r. rewrite ztake_app_l by lia. rewrite ztake_all by lia.
  replace (zlen k + 1) with (zlen k + 1) by lia.
  rewrite zdrop_app_r by lia. replace (zlen k + 1 - zlen k) with 1 by lia.
  change (zdrop 1 (58 :: 32 :: v)) with (32 :: v).
  rewrite ztake_all by (rewrite zlen_cons; lia).
  rewrite jtrim_space, Htk, Htv. reflexivity.
Qed.
Definition hdr_of (attrs : list (bytes * bytes)) (h0 : hdr) : hdr := fold_left (fun h kv => hset h (fst kv) (snd kv)) attrs h0.
Lemma ps_lines_attrs attrs : Forall valid_attr attrs -> forall h tail,
  ps_lines h (map (fun kv => attr_line (fst kv) (snd kv)) attrs ++ tail) = ps_lines (hdr_of attrs h) tail.
Proof.
  intros H. induction H as [|[k v] r [Hk Hv] Hr IH]; intros h tail; [reflexivity|].
  cbn [map app ps_lines fst snd]. rewrite ps_line_attr by assumption. cbn [bind]. rewrite IH. reflexivity.
Qed.
Theorem parse_section_text attrs : Forall valid_attr attrs -> parse_section (sec_text attrs) = Ok (hdr_of attrs []).
Proof.
  intros H. unfold parse_section. change (hd 0 jar_ps_split_sep) with 10.
  rewrite ps_unfold_sec, split_sec by exact H. rewrite ps_lines_attrs by exact H. reflexivity.
Qed.

(* distinct canonical keys: Set appends *)
Lemma hraw_get_none_set h k v : hraw_get h k = None -> hraw_set h k v = h ++ [(k, v)].
Proof.
  induction h as [|[k' v'] r IH]; intros H; [reflexivity|]. cbn [hraw_get] in H. cbn [hraw_set].
  destruct (bytes_eqb k' k); [discriminate|]. rewrite IH by exact H. reflexivity.
Qed.
Lemma hraw_get_notin h k : ~ In k (map fst h) -> hraw_get h k = None.
Proof.
  induction h as [|[k' v'] r IH]; intros H; [reflexivity|]. cbn [hraw_get]. cbn in H.
  destruct (bytes_eqb k' k) eqn:E; [apply bytes_eqb_eq in E; subst; tauto|]. apply IH. tauto.
Qed.
Lemma hdr_of_distinct attrs : forall h0, Forall valid_attr attrs -> NoDup (map fst (h0 ++ attrs)) -> hdr_of attrs h0 = h0 ++ attrs.
Proof.
  induction attrs as [|[k v] r IH]; intros h0 Hv Hn; [now rewrite app_nil_r|].
  inversion Hv as [|? ? [Hk _] Hr]; subst. unfold hdr_of. cbn [fold_left fst snd]. fold (hdr_of r (hset h0 k v)).
  cbn [fst] in Hk. destruct Hk as (_ & _ & _ & _ & _ & Hc). unfold hset. rewrite Hc.
  assert (Hnot : ~ In k (map fst h0)).
  { rewrite map_app in Hn. apply NoDup_remove_2 in Hn. rewrite in_app_iff in Hn. tauto. }
  rewrite hraw_get_none_set by (apply hraw_get_notin; exact Hnot).
  rewrite IH; [now rewrite <- app_assoc|exact Hr|]. rewrite <- app_assoc. exact Hn.
Qed.
Theorem parse_section_valid attrs : valid_attrs attrs -> parse_section (sec_text attrs) = Ok attrs.
Proof. intros [Hv Hn]. rewrite parse_section_text by exact Hv. f_equal. apply (hdr_of_distinct attrs [] Hv Hn). Qed.
