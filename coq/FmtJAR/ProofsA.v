(* FmtJAR/ProofsA.v — library lemmas and writeAttribute: the index loop equals a character-level stream, every emitted line
   is at most 72 bytes, continuation lines start with one space, unwrapping gives the line back. *)
From Relic Require Import Base.Prelude FmtJAR.Lib Generated.FmtJAR_gen FmtJAR.Model.

(* ------------------------------------------------------------------ small list facts *)
Lemma zlen_length {A} (l : list A) : zlen l = Z.of_nat (length l).
Proof. reflexivity. Qed.
Lemma ztake_firstn {A} n (l : list A) : ztake (Z.of_nat n) l = firstn n l.
Proof. unfold ztake. now rewrite Nat2Z.id. Qed.
Lemma zdrop_skipn {A} n (l : list A) : zdrop (Z.of_nat n) l = skipn n l.
Proof. unfold zdrop. now rewrite Nat2Z.id. Qed.
Lemma bytes_eqb_refl a : bytes_eqb a a = true.
Proof. apply list_eqb_Z_eq. reflexivity. Qed.
Lemma bytes_eqb_eq a b : bytes_eqb a b = true <-> a = b.
Proof. apply list_eqb_Z_eq. Qed.
Lemma bytes_eqb_neq a b : bytes_eqb a b = false <-> a <> b.
Proof.
  split; intros H.
  - intros E. subst. rewrite bytes_eqb_refl in H. discriminate.
  - destruct (bytes_eqb a b) eqn:E; [|reflexivity]. apply bytes_eqb_eq in E. contradiction.
Qed.

(* ------------------------------------------------------------------ the stream form of writeAttribute *)
Fixpoint stream (k : nat) (l : bytes) : bytes :=
  match l with
  | [] => [13; 10]
  | c :: r => match k with
              | O => 13 :: 10 :: 32 :: c :: stream 68 r
              | S k' => c :: stream k' r
              end
  end.

Lemma stream_split g R :
  stream g R = firstn g R ++ [13; 10] ++ match skipn g R with [] => [] | r => 32 :: stream 69 r end.
Proof.
  revert g; induction R as [|c r IH]; intros g.
  - destruct g; reflexivity.
  - destruct g as [|g'].
    + reflexivity.
    + cbn [stream firstn skipn app]. rewrite IH. reflexivity.
Qed.

Lemma cslice_ok lo hi s : 0 <= lo -> lo <= hi -> hi <= zlen s -> cslice lo hi s = Ok (ztake (hi - lo) (zdrop lo s)).
Proof. intros. unfold cslice. replace ((lo <? 0) || (hi <? lo) || (zlen s <? hi)) with false by lia. reflexivity. Qed.

Lemma skipn_skipn_add {A} a b (l : list A) : skipn a (skipn b l) = skipn (b + a) l.
Proof.
  revert l; induction b as [|b IH]; intros l; [reflexivity|].
  destruct l as [|x l]; [now rewrite !skipn_nil|]. cbn [Nat.add skipn]. apply IH.
Qed.

(* the loop, from index i on *)
Lemma wa_loop_stream fuel : forall line i,
  0 <= i <= zlen line -> (Z.to_nat (zlen line - i) < fuel)%nat ->
  wa_loop fuel i line =
  Ok (match zdrop i line with
      | [] => []
      | r => if i =? 0 then stream 70 r else 32 :: stream 69 r
      end).
Proof.
  induction fuel as [|f IH]; intros line i Hi Hf; [lia|].
  cbn [wa_loop]. unfold jar_wa_more.
  destruct (i <? zlen line) eqn:Elt.
  2:{ assert (i = zlen line) by lia. subst i. rewrite zdrop_all by lia. reflexivity. }
  unfold jar_wa_is_cont, jar_wa_goal0, jar_wa_j, jar_wa_clamp, jar_wa_clamped.
  change jar_wa_goal_dec with true. change jar_wa_advances with true. change jar_wa_cont_prefix with [32]. change jar_wa_eol with [13; 10].
  set (R := zdrop i line).
  assert (HR : zlen R = zlen line - i) by (unfold R; apply zlen_zdrop; lia).
  assert (ER0 : R = zdrop i line) by reflexivity. clearbody R.
  set (g := if negb (i =? 0) && true then 70 - 1 else 70).
  assert (Hg : g = if i =? 0 then 70 else 69) by (unfold g; destruct (i =? 0); reflexivity).
  assert (Hg2 : g = 70 \/ g = 69) by (rewrite Hg; destruct (i =? 0); auto).
  clearbody g.
  set (j := if i + g >? zlen line then zlen line else i + g).
  assert (Hj : i < j <= zlen line).
  { assert (Ej : j = if i + g >? zlen line then zlen line else i + g) by reflexivity. clearbody j.
    destruct (i + g >? zlen line) eqn:E; lia. }
  assert (Ej : j = if i + g >? zlen line then zlen line else i + g) by reflexivity. clearbody j.
  rewrite cslice_ok by lia. cbn [bind]. rewrite <- ER0.
  rewrite IH by lia. cbn [bind].
  replace (j =? 0) with false by lia.
  f_equal.
  (* relate to stream_split with the goal as a nat *)
  assert (Hfirst : ztake (j - i) R = firstn (Z.to_nat g) R).
  { unfold ztake. rewrite Ej. destruct (i + g >? zlen line) eqn:E.
    - rewrite !firstn_all2; [reflexivity| |]; unfold zlen in *; lia.
    - f_equal. lia. }
  assert (Hskip : zdrop j line = skipn (Z.to_nat g) R).
  { rewrite ER0. unfold zdrop. rewrite skipn_skipn_add. rewrite Ej. destruct (i + g >? zlen line) eqn:E.
    - rewrite !skipn_all2; [reflexivity| |]; unfold zlen in *; lia.
    - f_equal. lia. }
  rewrite Hfirst, Hskip.
  destruct R as [|c r] eqn:ER; [rewrite zlen_nil in HR; lia|].
  rewrite <- ER.
  destruct (i =? 0) eqn:E0.
  - assert (g = 70) by lia. subst g. cbn [negb andb app]. rewrite (stream_split 70 R). replace (Z.to_nat 70) with 70%nat by reflexivity. reflexivity.
  - assert (g = 69) by lia. cbn [negb andb]. rewrite (stream_split 69 R). rewrite H. replace (Z.to_nat 69) with 69%nat by reflexivity. reflexivity.
Qed.

Lemma attr_line_nonempty k v : attr_line k v <> [].
Proof. unfold attr_line. change jar_wa_sep with [58; 32]. destruct k; discriminate. Qed.

(* writeAttribute never fails, and its output is the stream of `key: value` *)
Theorem write_attr_stream k v : write_attr k v = Ok (stream 70 (attr_line k v)).
Proof.
  unfold write_attr. rewrite wa_loop_stream.
  - rewrite zdrop_0. destruct (attr_line k v) eqn:E; [exfalso; eapply attr_line_nonempty; eauto|]. reflexivity.
  - pose proof (zlen_nonneg (attr_line k v)). lia.
  - unfold zlen. lia.
Qed.

(* ------------------------------------------------------------------ physical lines of a stream: at most 70 bytes, continuation lines start with a space *)
(* the physical lines, from the stream's own structure *)
Fixpoint phys (k : nat) (cur : bytes) (l : bytes) : list bytes :=      (* cur = current line, reversed *)
  match l with
  | [] => [rev cur]
  | c :: r => match k with
              | O => rev cur :: phys 68 [c; 32] r
              | S k' => phys k' (c :: cur) r
              end
  end.
Definition render (ls : list bytes) : bytes := concat (map (fun l => l ++ [13; 10]) ls).

Lemma stream_phys k cur l : rev cur ++ stream k l = render (phys k cur l).
Proof.
  revert k cur; induction l as [|c r IH]; intros k cur.
  - cbn. rewrite app_nil_r. reflexivity.
  - destruct k as [|k'].
    + cbn [stream phys]. unfold render. cbn [map concat]. fold (render (phys 68 [c; 32] r)).
      rewrite <- IH. cbn [rev app]. rewrite <- !app_assoc. reflexivity.
    + cbn [stream phys]. rewrite <- IH. cbn [rev]. rewrite <- app_assoc. reflexivity.
Qed.

Lemma phys_len k cur l : (length cur + k <= 70)%nat ->
  Forall (fun p => (length p <= 70)%nat) (phys k cur l).
Proof.
  revert k cur; induction l as [|c r IH]; intros k cur Hk.
  - constructor; [rewrite rev_length; lia|constructor].
  - destruct k as [|k']; cbn [phys].
    + constructor; [rewrite rev_length; lia|]. apply IH. cbn. lia.
    + apply IH. cbn [length]. lia.
Qed.

Lemma phys_cont k cur l : forall p, In p (tl (phys k cur l)) -> exists q, p = 32 :: q.
Proof.
  revert k cur; induction l as [|c r IH]; intros k cur p Hp.
  - cbn in Hp. contradiction.
  - destruct k as [|k']; cbn [phys] in Hp.
    + cbn [tl] in Hp.
      (* the next line starts from cur = [c; 32]: its first byte is the space *)
      assert (Hhd : forall k2 cur2 l2, (exists q, rev cur2 = 32 :: q) -> forall p2, In p2 (phys k2 cur2 l2) -> exists q, p2 = 32 :: q).
      { clear. intros k2 cur2 l2; revert k2 cur2. induction l2 as [|c2 r2 IH2]; intros k2 cur2 [q Hq] p2 Hin.
        - cbn in Hin. destruct Hin as [<-|[]]. eauto.
        - destruct k2; cbn [phys] in Hin.
          + destruct Hin as [<-|Hin]; [eauto|]. eapply IH2; [|exact Hin]. exists [c2]. reflexivity.
          + eapply IH2; [|exact Hin]. cbn [rev]. rewrite Hq. eexists. reflexivity. }
      eapply Hhd; [|exact Hp]. exists [c]. reflexivity.
    + eapply IH. exact Hp.
Qed.

Lemma phys_nonempty k cur l : phys k cur l <> [].
Proof.
  revert k cur; induction l as [|c r IH]; intros k cur; [discriminate|].
  destruct k; cbn [phys]; [discriminate|apply IH].
Qed.

(* C05: every physical line relic writes is at most 72 bytes including CR LF; lines after the first start with exactly the one
   space the specification prescribes for a continuation *)
Theorem wrap_line_limit k v : exists lines,
  write_attr k v = Ok (render lines) /\ lines <> [] /\
  Forall (fun p => zlen p + 2 <= 72) lines /\
  (forall p, In p (tl lines) -> exists q, p = 32 :: q).
Proof.
  exists (phys 70 [] (attr_line k v)). split; [|split; [|split]].
  - rewrite write_attr_stream. f_equal. rewrite <- stream_phys. reflexivity.
  - apply phys_nonempty.
  - assert (H := phys_len 70 [] (attr_line k v) ltac:(cbn; lia)).
    eapply Forall_impl; [|exact H]. intros p Hp. cbv beta in Hp. rewrite zlen_length. lia.
  - apply phys_cont.
Qed.

(* ------------------------------------------------------------------ two-byte replacement *)
Lemma jrepl2_skip a b new x t : x <> a -> jrepl2 a b new (x :: t) = x :: jrepl2 a b new t.
Proof.
  intros H. destruct t as [|y r]; [reflexivity|]. cbn [jrepl2]. replace (x =? a) with false by lia. reflexivity.
Qed.
Lemma jrepl2_hit a b new r : jrepl2 a b new (a :: b :: r) = new ++ jrepl2 a b new r.
Proof. cbn [jrepl2]. rewrite !Z.eqb_refl. reflexivity. Qed.
Lemma jrepl2_nohit a b new x y r : y <> b -> jrepl2 a b new (x :: y :: r) = x :: jrepl2 a b new (y :: r).
Proof. intros H. cbn [jrepl2]. replace (y =? b) with false by lia. rewrite andb_false_r. reflexivity. Qed.
Lemma jrepl2_single a b new x : jrepl2 a b new [x] = [x].
Proof. reflexivity. Qed.

Definition no_byte (c : Z) (l : bytes) : Prop := ~ In c l.
Lemma no_byte_cons c x l : no_byte c (x :: l) <-> x <> c /\ no_byte c l.
Proof. unfold no_byte. cbn. intuition. Qed.
Lemma no_byte_app c a b : no_byte c (a ++ b) <-> no_byte c a /\ no_byte c b.
Proof. unfold no_byte. rewrite in_app_iff. intuition. Qed.

(* the LF form of a stream: what the first ReplaceAll of parseSection makes of it *)
Fixpoint stream_lf (k : nat) (l : bytes) : bytes :=
  match l with
  | [] => [10]
  | c :: r => match k with
              | O => 10 :: 32 :: c :: stream_lf 68 r
              | S k' => c :: stream_lf k' r
              end
  end.
Lemma repl_crlf_stream k l rest : no_byte 13 l ->
  jrepl2 13 10 [10] (stream k l ++ rest) = stream_lf k l ++ jrepl2 13 10 [10] rest.
Proof.
  revert k; induction l as [|c r IH]; intros k Hl.
  - cbn [stream stream_lf app]. rewrite jrepl2_hit. reflexivity.
  - apply no_byte_cons in Hl as [Hc Hr]. destruct k as [|k'].
    + cbn [stream stream_lf app]. rewrite jrepl2_hit. cbn [app].
      rewrite jrepl2_skip by lia. rewrite jrepl2_skip by exact Hc. rewrite IH by exact Hr. reflexivity.
    + cbn [stream stream_lf app]. rewrite jrepl2_skip by exact Hc. rewrite IH by exact Hr. reflexivity.
Qed.
(* the second ReplaceAll removes LF SPACE: the line is back; what follows must not start with a space *)
Definition not_space_first (rest : bytes) : Prop := match rest with c :: _ => c <> 32 | [] => True end.
Lemma repl_lfsp_stream k l rest : no_byte 10 l -> not_space_first rest ->
  jrepl2 10 32 [] (stream_lf k l ++ rest) = l ++ 10 :: jrepl2 10 32 [] rest.
Proof.
  revert k; induction l as [|c r IH]; intros k Hl Hrest.
  - cbn [stream_lf app]. destruct rest as [|y rest']; [reflexivity|]. cbn in Hrest. rewrite jrepl2_nohit by exact Hrest. reflexivity.
  - apply no_byte_cons in Hl as [Hc Hr]. destruct k as [|k'].
    + cbn [stream_lf app]. rewrite jrepl2_hit. cbn [app]. rewrite jrepl2_skip by exact Hc. rewrite IH by assumption. reflexivity.
    + cbn [stream_lf app]. rewrite jrepl2_skip by exact Hc. rewrite IH by assumption. reflexivity.
Qed.

(* C05: unwrapping (the two replacements of parseSection) gives `key: value` back, for every line without CR / LF *)
Theorem wrap_roundtrip k v out : no_byte 13 (attr_line k v) -> no_byte 10 (attr_line k v) ->
  write_attr k v = Ok out -> ps_unfold out = attr_line k v ++ [10].
Proof.
  intros H13 H10 Hw. rewrite write_attr_stream in Hw. injection Hw as <-.
  unfold ps_unfold, repl. change jar_ps_r1_old with [13; 10]. change jar_ps_r1_new with [10]. change jar_ps_r2_old with [10; 32]. change jar_ps_r2_new with (@nil Z).
  cbv beta iota.
  rewrite <- (app_nil_r (stream 70 (attr_line k v))). rewrite repl_crlf_stream by exact H13.
  change (jrepl2 13 10 [10] []) with (@nil Z).
  rewrite repl_lfsp_stream; [reflexivity|exact H10|exact I].
Qed.
