(* FmtJAR/ProofsI.v — keepFile = specification on upper-case names; sections partition the manifest; the digest attribute names the signer
   writes are the ones the verifier looks for; witnesses of what does NOT hold (closed terms, checked by computation). *)
From Relic Require Import Base.Prelude FmtJAR.Lib Generated.FmtJAR_gen FmtJAR.Model FmtJAR.ProofsA FmtJAR.ProofsB FmtJAR.ProofsC FmtJAR.ProofsF FmtJAR.ProofsG FmtJAR.ProofsH.

(* ------------------------------------------------------------------ C03: the sections partition the manifest (nothing is hashed twice, nothing is skipped) *)
Lemma sm_loop_partition fuel : forall m mal secs, sm_loop fuel m mal = Ok (secs, false) -> concat secs = m.
Proof.
  induction fuel as [|f IH]; intros m mal secs Hr; [discriminate|]. cbn [sm_loop] in Hr. unfold jar_sm_more in Hr.
  destruct (negb (zlen m =? 0)) eqn:Em.
  2:{ injection Hr as <- _. apply negb_false_iff in Em. destruct m; [reflexivity|rewrite zlen_cons in Em; pose proof (zlen_nonneg m); lia]. }
  assert (Hne : m <> []) by (intros ->; discriminate).
  pose proof (sm_idx_range m Hne) as Hidx. cbv zeta in Hidx.
  set (idx := jar_sm_idx (jindex m jar_sm_sep1) (jindex m jar_sm_sep2) (zlen m)) in *.
  assert (Eidx : idx = jar_sm_idx (jindex m jar_sm_sep1) (jindex m jar_sm_sep2) (zlen m)) by reflexivity. clearbody idx.
  rewrite !cslice_ok in Hr by lia. cbn [bind] in Hr. rewrite zdrop_0, Z.sub_0_r in Hr. rewrite (ztake_all (zlen m - idx)) in Hr by (rewrite zlen_zdrop; lia).
  change jar_sm_empty_skipped with true in Hr. change jar_sm_sets_malformed with true in Hr. cbv iota in Hr.
  destruct (jar_sm_empty (ztake idx m)).
  - apply sm_loop_mal_true in Hr. discriminate.
  - destruct (sm_loop f (zdrop idx m) _) as [[s' mal']| |] eqn:E; cbn [bind fst snd] in Hr; try discriminate. injection Hr as <- ->.
    cbn [concat]. rewrite (IH _ _ _ E). apply ztake_zdrop.
Qed.
Theorem split_partition b secs : split_manifest b = Ok (secs, false) -> concat secs = b.
Proof. apply sm_loop_partition. Qed.

(* ------------------------------------------------------------------ C01 / C05: the digest attributes the signer writes are found, parsed and matched by the verifier *)
Section Names.
  Variable H : Z -> bytes -> bytes.
  Definition all_avail (a : Z) : bool := (2 <=? a) && (a <=? 7).
  Definition known_alg (alg : Z) : Prop := In alg [2; 3; 4; 5; 6; 7].
  Lemma hash_file_single avail k v alg c sfx :
    hf_collect avail (jar_hf_suffix sfx) [(k, v)] = Ok [(k, v, alg)] -> v = H alg c -> hash_file H avail [(k, v)] c sfx = Ok tt.
  Proof.
    intros Hc ->. unfold hash_file. rewrite Hc. cbn [bind]. change (jar_hf_none (zlen [(k, H alg c, alg)])) with false. cbv iota.
    cbn [existsb fst snd]. unfold jar_hf_mismatch. rewrite bytes_eqb_refl. reflexivity.
  Qed.
  Definition key_alg (avail : Z -> bool) (sfx k : bytes) : option Z :=
    let suffix := jar_hf_suffix sfx in
    if jar_hf_skip k suffix then None
    else let a := hash_by_name (jar_hf_hash_name k suffix) in if jar_hf_unknown (negb (a =? 0) && avail a) then None else Some a.
  Lemma hf_collect_single avail sfx k v a : key_alg avail sfx k = Some a -> hf_collect avail (jar_hf_suffix sfx) [(k, v)] = Ok [(k, v, a)].
  Proof.
    unfold key_alg. cbn [hf_collect]. destruct (jar_hf_skip k (jar_hf_suffix sfx)); [discriminate|].
    destruct (jar_hf_unknown _); [discriminate|]. intros E. injection E as <-. reflexivity.
  Qed.
  (* keys as they are after parsing the emitted line (canonical MIME case), and as updateManifest writes them into a new section *)
  Lemma digest_attr_verifies alg c :
    known_alg alg ->
    let hn := hash_name_of alg in
    hash_file H all_avail [(jcanon (jar_dm_k2 (H alg) hn [] [] [] [] []), H alg c)] c jar_vs_suffix_whole = Ok tt /\
    hash_file H all_avail [(jcanon (jar_dm_k1 (H alg) hn [] [] [] [] []), H alg c)] c jar_vs_suffix_main = Ok tt /\
    hash_file H all_avail [(jcanon (jar_dm_k6 (H alg) hn [] [] [] [] []), H alg c)] c jar_vs_suffix_section = Ok tt /\
    hash_file H all_avail [(jcanon (hn ++ jar_um_digest_suffix), H alg c)] c [] = Ok tt /\
    hash_file H all_avail [(hn ++ jar_um_digest_suffix, H alg c)] c [] = Ok tt.
  Proof.
    intros Hk. cbv zeta. unfold known_alg in Hk. cbn [In] in Hk.
    destruct Hk as [<-|[<-|[<-|[<-|[<-|[<-|[]]]]]]]; repeat split; (eapply hash_file_single; [apply hf_collect_single; vm_compute; reflexivity|reflexivity]).
  Qed.
End Names.

(* ------------------------------------------------------------------ what does NOT hold: closed witnesses *)
Definition Hid (alg : Z) (x : bytes) : bytes := x.      (* an injective stand-in for the digest, good enough for counterexamples *)
Definition s (x : list Z) := x.

(* the inputs of the repaired defects, as regression examples: META-INF/NOTES.SIG and META-INF/./X.SF are payload and kept, the lower-case
   META-INF/old.sf is a signature file and removed, a signature-like name below a sub-directory is kept *)
Lemma keepfile_regressions :
  jar_keep_file [77; 69; 84; 65; 45; 73; 78; 70; 47; 78; 79; 84; 69; 83; 46; 83; 73; 71] = true /\
  jar_keep_file [77; 69; 84; 65; 45; 73; 78; 70; 47; 46; 47; 88; 46; 83; 70] = true /\
  jar_keep_file [77; 69; 84; 65; 45; 73; 78; 70; 47; 111; 108; 100; 46; 115; 102] = false /\
  jar_keep_file [77; 69; 84; 65; 45; 73; 78; 70; 47; 116; 114; 117; 115; 116; 47; 99; 97; 46; 82; 83; 65] = true.
Proof. repeat split; vm_compute; reflexivity. Qed.
(* what remains: relic removes every META-INF/SIG-* name (the specification's wording); the JDK counts such a name only with no extension or
   one of 1..3 letters or digits: META-INF/SIG-NOTES.text is removed although the JDK does not treat it as signature related *)
Lemma keepfile_sig_prefix_jdk_refuted : exists n, jar_keep_file n = false /\ spec_sig_related n = true /\ jdk_sig_related n = false.
Proof. exists [77; 69; 84; 65; 45; 73; 78; 70; 47; 83; 73; 71; 45; 78; 79; 84; 69; 83; 46; 116; 101; 120; 116]. repeat split; vm_compute; reflexivity. Qed.

(* mixed newlines (LF LF after the main section, CR LF CR LF later): splitManifest now cuts at the first blank line of either kind, as the
   specification's section ranges do *)
Lemma split_mixed_eol_regression :
  let b := [65; 58; 32; 49; 10; 10; 78; 97; 109; 101; 58; 32; 120; 13; 10; 66; 58; 32; 50; 13; 10; 13; 10] in
  split_manifest b = Ok (spec_sections b, false) /\ length (spec_sections b) = 2%nat.
Proof. split; vm_compute; reflexivity. Qed.

(* the empty manifest: an error, no longer an index panic *)
Lemma digest_manifest_empty_regression : forall H, digest_manifest H 5 [] false false [] = Err E_EMPTY.
Proof. intros H. reflexivity. Qed.

(* C02: members no manifest section covers are bound by nothing *)
Definition MAN1 : bytes := [77; 45; 86; 58; 32; 49; 13; 10; 13; 10; 78; 97; 109; 101; 58; 32; 97; 13; 10; 83; 72; 65; 45; 50; 53; 54; 45; 68; 105; 103; 101; 115; 116; 58; 32; 120; 13; 10; 13; 10].
(* "M-V: 1\r\n\r\nName: a\r\nSHA-256-Digest: x\r\n\r\n" with the identity digest: member a has content x *)
Lemma unlisted_member_refuted : exists ms1 ms2, verify_manifest Hid all_avail MAN1 ms1 = Ok tt /\ verify_manifest Hid all_avail MAN1 ms2 = Ok tt /\ mem_last ms1 [98] <> mem_last ms2 [98].
Proof. exists [([97], [120]); ([98], [1])], [([97], [120]); ([98], [2])]. repeat split; try (vm_compute; reflexivity). vm_compute. discriminate. Qed.
(* C02: a section with a Magic attribute is not checked at all *)
Definition MAN2 : bytes := [77; 45; 86; 58; 32; 49; 13; 10; 13; 10; 78; 97; 109; 101; 58; 32; 97; 13; 10; 77; 97; 103; 105; 99; 58; 32; 109; 13; 10; 13; 10].
Lemma magic_section_refuted : exists ms1 ms2, verify_manifest Hid all_avail MAN2 ms1 = Ok tt /\ verify_manifest Hid all_avail MAN2 ms2 = Ok tt /\ mem_last ms1 [97] <> mem_last ms2 [97].
Proof. exists [([97], [1])], [([97], [2])]. repeat split; try (vm_compute; reflexivity). vm_compute. discriminate. Qed.
(* C01: a manifest section for a file that is not in the archive: signing succeeds, relic's own verifier then refuses *)
Lemma sign_then_verify_refuted : exists ms manifest', update_manifest Hid 5 [] ms = Ok manifest' /\ verify_manifest Hid all_avail manifest' ms = Err E_NOT_IN_JAR.
Proof.
  exists [(jar_manifest_name, [77; 45; 86; 58; 32; 49; 13; 10; 13; 10; 78; 97; 109; 101; 58; 32; 103; 13; 10; 88; 58; 32; 49; 13; 10; 13; 10]); ([97], [120])].
  eexists. split; [vm_compute; reflexivity|]. vm_compute. reflexivity.
Qed.
(* non-vacuity of alias_ok *)
Example alias_ok_relic : alias_ok 1 [82; 69; 76; 73; 67] /\ alias_ok 2 [115; 101; 99; 111; 110; 100] /\ alias_ok 3 [120].
Proof. repeat split; vm_compute; reflexivity. Qed.

(* ------------------------------------------------------------------ a computable injective stand-in for the digest whose values are attribute values
   (two letters per byte), for closed examples that go through the text layer *)
Definition Hhex (alg : Z) (x : bytes) : bytes := flat_map (fun c => [65 + c / 16; 65 + c mod 16]) x.
Definition ex_members : members :=
  [(jar_manifest_name, [77; 97; 110; 105; 102; 101; 115; 116; 45; 86; 101; 114; 115; 105; 111; 110; 58; 32; 49; 46; 48; 13; 10; 13; 10]);   (* Manifest-Version: 1.0 *)
   ([104; 105; 46; 116; 120; 116], [104; 105]);                                                                                     (* hi.txt *)
   ([77; 69; 84; 65; 45; 73; 78; 70; 47; 79; 76; 68; 46; 83; 70], [120]);                                                              (* META-INF/OLD.SF *)
   ([77; 69; 84; 65; 45; 73; 78; 70; 47; 116; 47; 99; 97; 46; 82; 83; 65], [121])].                                                   (* META-INF/t/ca.RSA *)
Definition ex_signed (so : bool) : result members := jar_sign Hhex 5 1 [82; 69; 76; 73; 67] [114] so false [] (fun sf => [1]) ex_members.
(* C01 / C08, on a concrete archive: sign, verify; sign the result again, verify; the old signature file is gone, the nested
   look-alike and the payload are still there *)
Lemma sign_then_verify_example :
  (exists g, ex_signed false = Ok g /\ jar_verify Hhex all_avail (fun _ _ => true) false g = Ok tt /\
     map fst g = [jar_meta_inf; jar_manifest_name; jar_meta_inf ++ [82; 69; 76; 73; 67; 46; 83; 70]; jar_meta_inf ++ [82; 69; 76; 73; 67; 46; 82; 83; 65];
                  [104; 105; 46; 116; 120; 116]; [77; 69; 84; 65; 45; 73; 78; 70; 47; 116; 47; 99; 97; 46; 82; 83; 65]] /\
     exists g2, jar_sign Hhex 5 2 [120] [114] false false [] (fun sf => [2]) g = Ok g2 /\ jar_verify Hhex all_avail (fun _ _ => true) false g2 = Ok tt /\
       mem_last g2 jar_manifest_name = mem_last g jar_manifest_name /\ length g2 = length g).
Proof.
  destruct (ex_signed false) as [g| |] eqn:E; try (vm_compute in E; discriminate).
  exists g. vm_compute in E. injection E as <-. split; [reflexivity|]. split; [vm_compute; reflexivity|]. split; [reflexivity|].
  eexists. split; [vm_compute; reflexivity|]. split; [vm_compute; reflexivity|]. split; vm_compute; reflexivity.
Qed.
(* C02: without the whole-manifest digest (--sections-only) a section appended to the manifest is covered by nothing *)
Lemma sections_only_appended_refuted :
  exists sf b extra, extra <> [] /\
    verify_sigfile Hhex all_avail sf b = Ok (match parse_manifest sf with Ok m => fm_main m | _ => [] end) /\
    verify_sigfile Hhex all_avail sf (b ++ extra) = Ok (match parse_manifest sf with Ok m => fm_main m | _ => [] end).
Proof.
  set (b := [77; 45; 86; 58; 32; 49; 13; 10; 13; 10; 78; 97; 109; 101; 58; 32; 97; 13; 10; 88; 58; 32; 49; 13; 10; 13; 10]).
  exists (match digest_manifest Hhex 5 [114] true false b with Ok sf => sf | _ => [] end), b, [78; 97; 109; 101; 58; 32; 98; 13; 10; 88; 58; 32; 50; 13; 10; 13; 10].
  split; [discriminate|]. split; vm_compute; reflexivity.
Qed.
