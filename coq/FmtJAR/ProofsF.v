(* FmtJAR/ProofsF.v — C11: the parsers of the text layer never panic (no slice out of range, no loop without progress), for all bytes. *)
From Relic Require Import Base.Prelude FmtJAR.Lib Generated.FmtJAR_gen FmtJAR.Model FmtJAR.ProofsA.

Definition no_panic {A} (r : result A) : Prop := match r with Panic _ => False | _ => True end.
Lemma no_panic_bind {A B} (r : result A) (f : A -> result B) : no_panic r -> (forall a, r = Ok a -> no_panic (f a)) -> no_panic (bind r f).
Proof. destruct r; cbn; intros H Hf; auto. Qed.

Lemma jhas_prefix_len s p : jhas_prefix s p = true -> zlen p <= zlen s.
Proof.
  revert s; induction p as [|x p IH]; intros s H; [rewrite zlen_nil; apply zlen_nonneg|].
  destruct s as [|y s]; [discriminate|]. cbn [jhas_prefix] in H. apply andb_true_iff in H as [_ H]. apply IH in H. rewrite !zlen_cons. lia.
Qed.
Lemma jindex_bound s p : 0 <= jindex s p -> jindex s p + zlen p <= zlen s.
Proof.
  induction s as [|x s IH]; cbn [jindex].
  - destruct (jhas_prefix [] p) eqn:E; [intros _; apply jhas_prefix_len in E; lia|lia].
  - destruct (jhas_prefix (x :: s) p) eqn:E; [intros _; apply jhas_prefix_len in E; lia|].
    destruct (jindex s p <? 0) eqn:E2; [lia|]. intros _. rewrite zlen_cons. lia.
Qed.
Lemma jindex_byte_bound s c : 0 <= jindex_byte s c -> jindex_byte s c < zlen s.
Proof.
  induction s as [|x s IH]; cbn [jindex_byte]; [lia|]. rewrite zlen_cons. pose proof (zlen_nonneg s).
  destruct (x =? c); [lia|]. destruct (jindex_byte s c <? 0) eqn:E; lia.
Qed.

(* ---- splitManifest: every iteration consumes at least one byte and slices inside the manifest *)
Lemma sm_idx_range m : m <> [] ->
  let idx := jar_sm_idx (jindex m jar_sm_sep1) (jindex m jar_sm_sep2) (zlen m) in 1 <= idx <= zlen m.
Proof.
  intros Hne. cbv zeta. unfold jar_sm_idx.
  assert (1 <= zlen m) by (destruct m; [contradiction|rewrite zlen_cons; pose proof (zlen_nonneg m); lia]).
  destruct ((jindex m jar_sm_sep1 >=? 0) && ((jindex m jar_sm_sep2 <? 0) || (jindex m jar_sm_sep1 <? jindex m jar_sm_sep2))) eqn:E1.
  - pose proof (jindex_bound m jar_sm_sep1 ltac:(lia)) as Hb. change (zlen jar_sm_sep1) with 4 in Hb. lia.
  - destruct (jindex m jar_sm_sep2 >=? 0) eqn:E2.
    + pose proof (jindex_bound m jar_sm_sep2 ltac:(lia)) as Hb. change (zlen jar_sm_sep2) with 2 in Hb. lia.
    + lia.
Qed.
Lemma sm_loop_ok fuel : forall m mal, (length m < fuel)%nat -> exists r, sm_loop fuel m mal = Ok r.
Proof.
  induction fuel as [|f IH]; intros m mal Hf; [lia|]. cbn [sm_loop]. unfold jar_sm_more.
  destruct m as [|x m'] eqn:Em; [eexists; reflexivity|]. rewrite <- Em in *.
  assert (Hne : m <> []) by (rewrite Em; discriminate).
  replace (negb (zlen m =? 0)) with true by (rewrite Em, zlen_cons; pose proof (zlen_nonneg m'); lia).
  pose proof (sm_idx_range m Hne) as Hidx. cbv zeta in Hidx.
  set (idx := jar_sm_idx (jindex m jar_sm_sep1) (jindex m jar_sm_sep2) (zlen m)) in *.
  assert (Eidx : idx = jar_sm_idx (jindex m jar_sm_sep1) (jindex m jar_sm_sep2) (zlen m)) by reflexivity. clearbody idx.
  rewrite !cslice_ok by lia. cbn [bind].
  assert (Hrest : (length (ztake (zlen m - idx) (zdrop idx m)) < f)%nat).
  { unfold ztake. rewrite firstn_length. unfold zdrop. rewrite skipn_length. unfold zlen in Hidx. lia. }
  change jar_sm_empty_skipped with true. change jar_sm_sets_malformed with true. cbv iota.
  destruct (jar_sm_empty _).
  - apply IH. exact Hrest.
  - destruct (IH _ (jar_sm_malformed_after (jindex m jar_sm_sep1) (jindex m jar_sm_sep2) mal) Hrest) as [r Hr]. rewrite Hr. cbn [bind]. eexists. reflexivity.
Qed.
Theorem split_manifest_total b : exists r, split_manifest b = Ok r.
Proof. unfold split_manifest. apply sm_loop_ok. lia. Qed.

(* ---- parseSection *)
Lemma ps_line_no_panic h line : no_panic (ps_line h line).
Proof.
  unfold ps_line. destruct (jar_ps_skip_line (zlen line)); [exact I|]. unfold jar_ps_no_colon, jar_ps_key_hi, jar_ps_val_lo.
  destruct (jindex_byte line jar_ps_colon <? 0) eqn:E; [exact I|].
  pose proof (jindex_byte_bound line jar_ps_colon ltac:(lia)). rewrite !cslice_ok by lia. exact I.
Qed.
Lemma ps_lines_no_panic lines : forall h, no_panic (ps_lines h lines).
Proof.
  induction lines as [|l r IH]; intros h; [exact I|]. cbn [ps_lines]. apply no_panic_bind; [apply ps_line_no_panic|]. intros a _. apply IH.
Qed.
Theorem parse_section_no_panic s : no_panic (parse_section s).
Proof. unfold parse_section. apply ps_lines_no_panic. Qed.

(* ---- parseManifest / ParseManifest: for ALL byte strings *)
Lemma pm_loop_no_panic secs : forall i m, no_panic (pm_loop i secs m).
Proof.
  induction secs as [|s r IH]; intros i m; [exact I|]. cbn [pm_loop]. destruct (jar_pm_skip i (zlen s)); [apply IH|].
  apply no_panic_bind; [apply parse_section_no_panic|]. intros h _. destruct (jar_pm_is_main i); [apply IH|].
  destruct (jar_pm_name_missing _); [exact I|apply IH].
Qed.
Theorem parse_manifest_m_no_panic b : no_panic (parse_manifest_m b).
Proof.
  unfold parse_manifest_m. destruct (split_manifest_total b) as [r ->]. cbn [bind]. destruct (jar_pm_no_sections _); [exact I|].
  apply no_panic_bind; [apply pm_loop_no_panic|]. intros; exact I.
Qed.
Theorem parse_manifest_no_panic b : no_panic (parse_manifest b).
Proof.
  unfold parse_manifest. apply no_panic_bind; [apply parse_manifest_m_no_panic|]. intros pm _. destruct (jar_PM_refuses _); exact I.
Qed.

(* ---- hashFile, verifySigFile *)
Section WithHash.
  Variable H : Z -> bytes -> bytes.
  Variable avail : Z -> bool.
  Lemma hf_collect_no_panic suffix h : no_panic (hf_collect avail suffix h).
  Proof.
    induction h as [|[k v] r IH]; [exact I|]. cbn [hf_collect]. destruct (jar_hf_skip k suffix); [exact IH|].
    destruct (jar_hf_unknown _); [exact I|]. apply no_panic_bind; [exact IH|]. intros; exact I.
  Qed.
  Lemma hash_file_no_panic keys content suffix : no_panic (hash_file H avail keys content suffix).
  Proof.
    unfold hash_file. apply no_panic_bind; [apply hf_collect_no_panic|]. intros ds _. destruct (jar_hf_none _); [exact I|]. match goal with |- context [existsb ?f ds] => destruct (existsb f ds) end; exact I.
  Qed.
  Lemma vs_sections_no_panic secs : forall i main smap, no_panic (vs_sections H avail i secs main smap).
  Proof.
    induction secs as [|s r IH]; intros i main smap; [exact I|]. cbn [vs_sections]. destruct (jar_vs_is_main i).
    - apply no_panic_bind; [apply hash_file_no_panic|]. intros; apply IH.
    - apply no_panic_bind; [apply parse_section_no_panic|]. intros h _. destruct (jar_vs_name_missing _); [exact I|apply IH].
  Qed.
  Lemma vs_check_no_panic files smap : no_panic (vs_check H avail files smap).
  Proof.
    induction files as [|[n keys] r IH]; [exact I|]. cbn [vs_check]. destruct (hraw_get smap n).
    - change (jar_vs_section_missing true) with false. cbv iota. apply no_panic_bind; [apply hash_file_no_panic|]. intros; exact IH.
    - change (jar_vs_section_missing false) with true. exact I.
  Qed.
  Theorem verify_sigfile_no_panic sf manifest : no_panic (verify_sigfile H avail sf manifest).
  Proof.
    unfold verify_sigfile. apply no_panic_bind; [apply parse_manifest_no_panic|]. intros sfm _.
    pose proof (hash_file_no_panic (fm_main sfm) manifest jar_vs_suffix_whole) as Hh.
    destruct (hash_file H avail (fm_main sfm) manifest jar_vs_suffix_whole) as [u|e|p]; [exact I| |contradiction].
    destruct (jar_vs_hard_error e); [exact I|]. destruct (split_manifest_total manifest) as [r ->]. cbn [bind].
    destruct (jar_vs_refuses _); [exact I|]. apply no_panic_bind; [apply vs_sections_no_panic|]. intros smap _.
    apply no_panic_bind; [apply vs_check_no_panic|]. intros; exact I.
  Qed.

  (* ---- DigestManifest: panics exactly on the empty manifest (see digest_manifest_panic_refuted); never otherwise *)
  Lemma sm_loop_mal_true fuel : forall m r, sm_loop fuel m true = Ok r -> snd r = true.
  Proof.
    induction fuel as [|f IH]; intros m r Hr; [discriminate|]. cbn [sm_loop] in Hr. destruct (jar_sm_more (zlen m)); [|injection Hr as <-; reflexivity].
    assert (Hm : forall a b, jar_sm_malformed_after a b true = true) by (intros a b; unfold jar_sm_malformed_after; destruct ((a >=? 0) && ((b <? 0) || (a <? b))), (b >=? 0); reflexivity).
    rewrite Hm in Hr. change jar_sm_empty_skipped with true in Hr. change jar_sm_sets_malformed with true in Hr. cbv iota in Hr.
    destruct (cslice 0 _ m) as [sec| |]; cbn [bind] in Hr; try discriminate.
    destruct (cslice _ (zlen m) m) as [rest| |]; cbn [bind] in Hr; try discriminate.
    destruct (jar_sm_empty sec).
    - eapply IH; exact Hr.
    - destruct (sm_loop f rest true) as [r'| |] eqn:E; cbn [bind] in Hr; try discriminate. injection Hr as <-. cbn [snd]. eapply IH; exact E.
  Qed.
  Lemma split_nonempty b r : b <> [] -> split_manifest b = Ok r -> fst r <> [] \/ snd r = true.
  Proof.
    intros Hne Hr. unfold split_manifest in Hr. cbn [sm_loop] in Hr. unfold jar_sm_more in Hr.
    replace (negb (zlen b =? 0)) with true in Hr by (destruct b; [contradiction|rewrite zlen_cons; pose proof (zlen_nonneg b); lia]).
    change jar_sm_empty_skipped with true in Hr. change jar_sm_sets_malformed with true in Hr. cbv iota in Hr.
    destruct (cslice 0 _ b) as [sec| |]; cbn [bind] in Hr; try discriminate.
    destruct (cslice _ (zlen b) b) as [rest| |]; cbn [bind] in Hr; try discriminate.
    destruct (jar_sm_empty sec).
    - right. eapply sm_loop_mal_true; exact Hr.
    - destruct (sm_loop (length b) rest _) as [r'| |]; cbn [bind] in Hr; try discriminate. injection Hr as <-. left. discriminate.
  Qed.
  Lemma write_attr_no_panic k v : no_panic (write_attr k v).
  Proof. rewrite write_attr_stream. exact I. Qed.
  Lemma dm_sections_no_panic alg hn secs : no_panic (dm_sections H alg hn secs).
  Proof.
    induction secs as [|s r IH]; [exact I|]. cbn [dm_sections]. apply no_panic_bind; [apply parse_section_no_panic|]. intros h _.
    destruct (jar_dm_name_missing _); [exact I|]. rewrite !write_attr_stream. cbn [bind]. apply no_panic_bind; [exact IH|]. intros; exact I.
  Qed.
  Theorem digest_manifest_no_panic alg cb so apk b : no_panic (digest_manifest H alg cb so apk b).
  Proof.
    unfold digest_manifest. destruct (split_manifest_total b) as [r Hr]. rewrite Hr. cbn [bind].
    destruct (jar_dm_refuses (snd r)); [exact I|]. unfold jar_dm_empty.
    destruct (fst r) as [|main rest]; [exact I|]. rewrite zlen_cons. pose proof (zlen_nonneg rest). replace (1 + zlen rest =? 0) with false by lia.
    destruct (jar_dm_hash_unknown _); [exact I|]. rewrite !write_attr_stream. cbn [bind].
    destruct (jar_dm_whole so), (jar_dm_apk apk); rewrite ?write_attr_stream; cbn [bind];
      (apply no_panic_bind; [apply dm_sections_no_panic|intros; exact I]).
  Qed.
End WithHash.
