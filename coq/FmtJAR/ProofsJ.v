(* FmtJAR/ProofsJ.v — Dump (ParseManifest b) = b on relic-emitted manifests: writeSection's attribute order is a normal form. *)
From Relic Require Import Base.Prelude FmtJAR.Lib Generated.FmtJAR_gen FmtJAR.Model FmtJAR.ProofsA FmtJAR.ProofsB FmtJAR.ProofsC FmtJAR.ProofsD.

Fixpoint sorted (l : list bytes) : bool :=
  match l with
  | x :: r => match r with y :: _ => bytes_leb x y && sorted r | [] => true end
  | [] => true
  end.
Lemma bytes_leb_total a : forall b, bytes_leb a b = false -> bytes_leb b a = true.
Proof.
  induction a as [|x a IH]; intros b H; [discriminate|]. destruct b as [|y b]; [reflexivity|]. cbn [bytes_leb] in *.
  destruct (x <? y) eqn:E1; [discriminate|]. destruct (y <? x) eqn:E2; [reflexivity|]. apply IH. exact H.
Qed.
Lemma sins_sorted k l : sorted l = true -> sorted (sins k l) = true.
Proof.
  induction l as [|x r IH]; intros H; [reflexivity|]. cbn [sins]. destruct (bytes_leb k x) eqn:E.
  - cbn [sorted]. rewrite E. exact H.
  - pose proof (bytes_leb_total k x E) as Hxk. cbn [sorted] in H. destruct r as [|y r'].
    + cbn [sins sorted]. rewrite Hxk. reflexivity.
    + apply andb_true_iff in H as [Hxy Hr]. specialize (IH Hr). cbn [sins] in IH |- *. destruct (bytes_leb k y) eqn:E2.
      * cbn [sorted] in IH |- *. rewrite Hxk. exact IH.
      * cbn [sorted] in IH |- *. rewrite Hxy. exact IH.
Qed.
Lemma jsort_sorted l : sorted (jsort l) = true.
Proof. induction l as [|x r IH]; [reflexivity|]. cbn [jsort fold_right]. apply sins_sorted. exact IH. Qed.
Lemma jsort_id l : sorted l = true -> jsort l = l.
Proof.
  induction l as [|x r IH]; intros H; [reflexivity|]. cbn [jsort fold_right]. fold (jsort r). cbn [sorted] in H. destruct r as [|y r'].
  - reflexivity.
  - apply andb_true_iff in H as [Hxy Hr]. rewrite IH by exact Hr. cbn [sins]. rewrite Hxy. reflexivity.
Qed.

Lemma hraw_get_map_lookup (f : bytes -> bytes) ks k :
  hraw_get (map (fun x => (x, f x)) ks) k = if existsb (fun x => bytes_eqb x k) ks then Some (f k) else None.
Proof.
  induction ks as [|x r IH]; [reflexivity|]. cbn [map hraw_get existsb]. destruct (bytes_eqb x k) eqn:E.
  - apply bytes_eqb_eq in E. subst. reflexivity.
  - cbn [orb]. exact IH.
Qed.
Lemma in_sins k x l : In x (sins k l) <-> x = k \/ In x l.
Proof. induction l as [|y r IH]; cbn [sins]; [cbn; intuition|]. destruct (bytes_leb k y); cbn [In]; [intuition|]. rewrite IH. intuition. Qed.
Lemma in_jsort x l : In x (jsort l) <-> In x l.
Proof. induction l as [|y r IH]; [reflexivity|]. cbn [jsort fold_right]. fold (jsort r). rewrite in_sins, IH. cbn. intuition. Qed.
Lemma ws_keys_not_first h first : ~ In first (ws_keys h first).
Proof.
  unfold ws_keys. change jar_ws_sorts with true. cbv iota. rewrite in_jsort. intros H. apply in_map_iff in H as ([k v] & E & Hin). cbn [fst] in E. subst k.
  apply filter_In in Hin as [_ Hf]. cbn [fst] in Hf. unfold jar_ws_skip_key in Hf. rewrite bytes_eqb_refl in Hf. discriminate.
Qed.
Lemma filter_rest first (val : bytes -> bytes) ks : ~ In first ks ->
  filter (fun kv : bytes * bytes => negb (jar_ws_skip_key (fst kv) first)) (map (fun k => (k, val k)) ks) = map (fun k => (k, val k)) ks.
Proof.
  induction ks as [|k r IH]; intros H; [reflexivity|]. cbn [map filter fst]. unfold jar_ws_skip_key at 1.
  destruct (bytes_eqb k first) eqn:E; [apply bytes_eqb_eq in E; subst; exfalso; apply H; left; reflexivity|]. cbn [negb].
  rewrite IH by (intros Hin; apply H; right; exact Hin). reflexivity.
Qed.
Lemma existsb_in ks k : In k ks -> existsb (fun x => bytes_eqb x k) ks = true.
Proof. intros H. apply existsb_exists. exists k. split; [exact H|apply bytes_eqb_refl]. Qed.
Lemma existsb_notin ks k : ~ In k ks -> existsb (fun x => bytes_eqb x k) ks = false.
Proof.
  intros H. destruct (existsb (fun x => bytes_eqb x k) ks) eqn:E; [|reflexivity]. apply existsb_exists in E as (x & Hin & Ex). apply bytes_eqb_eq in Ex. subst. contradiction.
Qed.

(* writeSection's order is a normal form: emitting the attributes in that order and reading them back changes nothing *)
Theorem ws_attrs_idem h first : jcanon first = first -> ws_attrs (ws_attrs h first) first = ws_attrs h first.
Proof.
  intros Hc. set (val := fun k => match hraw_get h k with Some v => v | None => [] end).
  set (ks := ws_keys h first).
  assert (Hrest : ws_rest h first = map (fun k => (k, val k)) ks) by reflexivity.
  assert (Hnf : ~ In first ks) by apply ws_keys_not_first.
  assert (Hshape : ws_attrs h first = (if jar_ws_first_present (hget h first) then [(first, hget h first)] else []) ++ map (fun k => (k, val k)) ks) by reflexivity.
  (* keys of the normal form other than `first`, and their values *)
  assert (Hkeys : ws_keys (ws_attrs h first) first = ks).
  { unfold ws_keys at 1. change jar_ws_sorts with true. cbv iota. rewrite Hshape. rewrite filter_app, map_app. rewrite filter_rest by exact Hnf. rewrite map_map. cbn [fst]. rewrite map_id.
    destruct (jar_ws_first_present (hget h first)).
    - cbn [filter fst]. unfold jar_ws_skip_key at 1. rewrite bytes_eqb_refl. cbn [negb map app]. apply jsort_id. unfold ks, ws_keys. change jar_ws_sorts with true. cbv iota. apply jsort_sorted.
    - cbn [filter map app]. apply jsort_id. unfold ks, ws_keys. change jar_ws_sorts with true. cbv iota. apply jsort_sorted. }
  assert (Hval : forall k, In k ks -> match hraw_get (ws_attrs h first) k with Some v => v | None => [] end = val k).
  { intros k Hk. rewrite Hshape. assert (Hkf : bytes_eqb first k = false) by (apply bytes_eqb_neq; intros ->; contradiction).
    destruct (jar_ws_first_present (hget h first)); cbn [app hraw_get]; rewrite ?Hkf; rewrite hraw_get_map_lookup, existsb_in by exact Hk; reflexivity. }
  assert (Hfirst : hget (ws_attrs h first) first = hget h first).
  { unfold hget at 1. rewrite Hc. rewrite Hshape. destruct (jar_ws_first_present (hget h first)) eqn:Ep.
    - cbn [app hraw_get]. rewrite bytes_eqb_refl. reflexivity.
    - cbn [app]. rewrite hraw_get_map_lookup, existsb_notin by exact Hnf. unfold jar_ws_first_present in Ep. apply negb_false_iff in Ep. apply bytes_eqb_eq in Ep. symmetry. exact Ep. }
  unfold ws_attrs at 1. rewrite Hfirst. unfold ws_rest. rewrite Hkeys. rewrite Hshape. f_equal.
  apply map_ext_in. intros k Hk. f_equal. apply Hval. exact Hk.
Qed.

(* C03: Dump (ParseManifest b) = b for every b that Dump produced from a structure of the class *)
Theorem dump_parse_dump m b : valid_fm m -> dump m = Ok b -> dump (norm_fm m) = Ok b.
Proof.
  intros [Hm Hmne Ho Hnd Hs] Hd. rewrite dump_text in Hd by assumption. rewrite <- Hd.
  rewrite dump_text.
  - f_equal. f_equal. f_equal. unfold dump_attrs, norm_fm, norm_sec. cbn [fm_main fm_files]. rewrite (ws_attrs_idem (fm_main m) MV) by reflexivity. f_equal.
    rewrite map_map. apply map_ext. intros nh. cbn [snd]. apply ws_attrs_idem. reflexivity.
  - exact Hnd.
  - unfold norm_fm, norm_sec. cbn [fm_files fm_order]. rewrite map_map. cbn [fst]. exact Ho.
Qed.
