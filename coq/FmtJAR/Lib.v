(* FmtJAR/Lib.v — hand-written models of the Go standard-library functions the JAR text layer (lib/signjar) calls:
   strings/bytes (HasPrefix, HasSuffix, Index, Contains, ReplaceAll, Replace, Split, TrimSpace, ToUpper, ToLower, LastIndex),
   path (Clean, Dir, Base, Ext, Split), net/textproto.CanonicalMIMEHeaderKey and http.Header Get/Set.
   These are the TARGETS of the srcgen translation (Generated/FmtJAR_gen.v imports this file); they are themselves inside the
   correspondence check (the driver runs the real functions, which call the real library). *)
From Relic Require Import Base.Prelude.

(* ------------------------------------------------------------------ prefixes, search *)
Fixpoint jhas_prefix (l p : bytes) {struct p} : bool :=
  match p, l with
  | [], _ => true
  | x :: p', y :: l' => (x =? y) && jhas_prefix l' p'
  | _ :: _, [] => false
  end.
Definition jhas_suffix (l s : bytes) : bool := jhas_prefix (rev l) (rev s).

(* bytes.Index: first index of pat in s, -1 if absent *)
Fixpoint jindex (s pat : bytes) {struct s} : Z :=
  if jhas_prefix s pat then 0
  else match s with
       | [] => -1
       | _ :: r => let k := jindex r pat in if k <? 0 then -1 else 1 + k
       end.
Definition jcontains (s pat : bytes) : bool := 0 <=? jindex s pat.
(* bytes.IndexRune / IndexByte for an ASCII rune *)
Fixpoint jindex_byte (s : bytes) (c : Z) : Z :=
  match s with
  | [] => -1
  | x :: r => if x =? c then 0 else let k := jindex_byte r c in if k <? 0 then -1 else 1 + k
  end.
(* strings.LastIndex for a one-byte pattern *)
Fixpoint jlast_index_byte (s : bytes) (c : Z) : Z :=
  match s with
  | [] => -1
  | x :: r => let k := jlast_index_byte r c in if 0 <=? k then 1 + k else if x =? c then 0 else -1
  end.

(* bytes.ReplaceAll for a two-byte pattern a b (non-overlapping, left to right) *)
Fixpoint jrepl2 (a b : Z) (new : bytes) (s : bytes) {struct s} : bytes :=
  match s with
  | x :: t => match t with
              | y :: r => if (x =? a) && (y =? b) then new ++ jrepl2 a b new r else x :: jrepl2 a b new t
              | [] => [x]
              end
  | [] => []
  end.
(* strings.Replace(s, [c], "", 1): delete the first occurrence of byte c *)
Fixpoint jdel_first (c : Z) (s : bytes) : bytes :=
  match s with [] => [] | x :: r => if x =? c then r else x :: jdel_first c r end.
(* bytes.Split for a one-byte separator *)
Fixpoint jsplit1 (c : Z) (s : bytes) : list bytes :=
  match s with
  | [] => [[]]
  | x :: r => if x =? c then [] :: jsplit1 c r
              else match jsplit1 c r with h :: t => (x :: h) :: t | [] => [[x]] end
  end.

Definition jto_upper (s : bytes) : bytes := map (fun c => if (97 <=? c) && (c <=? 122) then c - 32 else c) s.
Definition jto_lower (s : bytes) : bytes := map (fun c => if (65 <=? c) && (c <=? 90) then c + 32 else c) s.

(* ------------------------------------------------------------------ strings.TrimSpace / bytes.TrimSpace
   White space is unicode.IsSpace: U+0009..U+000D, U+0020, U+0085, U+00A0, U+1680, U+2000..U+200A, U+2028, U+2029, U+202F, U+205F,
   U+3000, recognised in their (only valid) UTF-8 encodings; any other byte sequence, valid or not, is not white space. *)
Definition ascii_space (c : Z) : bool := ((9 <=? c) && (c <=? 13)) || (c =? 32).
Definition ws3 (a b c : Z) : bool :=
  ((a =? 225) && (b =? 154) && (c =? 128)) ||
  ((a =? 226) && (b =? 128) && (((128 <=? c) && (c <=? 138)) || (c =? 168) || (c =? 169) || (c =? 175))) ||
  ((a =? 226) && (b =? 129) && (c =? 159)) ||
  ((a =? 227) && (b =? 128) && (c =? 128)).
Definition ws2 (a b : Z) : bool := (a =? 194) && ((b =? 133) || (b =? 160)).
(* number of bytes of a white-space rune at the head of s (0: none) *)
Definition ws_head (s : bytes) : nat :=
  match s with
  | a :: r => if ascii_space a then 1%nat
              else match r with
                   | b :: r' => if ws2 a b then 2%nat
                                else match r' with c :: _ => if ws3 a b c then 3%nat else 0%nat | [] => 0%nat end
                   | [] => 0%nat
                   end
  | [] => 0%nat
  end.
(* the same, looking at a reversed string (the rune's bytes appear last-first) *)
Definition ws_head_rev (s : bytes) : nat :=
  match s with
  | a :: r => if ascii_space a then 1%nat
              else match r with
                   | b :: r' => if ws2 b a then 2%nat
                                else match r' with c :: _ => if ws3 c b a then 3%nat else 0%nat | [] => 0%nat end
                   | [] => 0%nat
                   end
  | [] => 0%nat
  end.
Fixpoint jtrim_gen (head : bytes -> nat) (skip : nat) (s : bytes) {struct s} : bytes :=
  match skip with
  | S k => match s with _ :: r => jtrim_gen head k r | [] => [] end
  | O => match head s with
         | O => s
         | S n => match s with _ :: r => jtrim_gen head n r | [] => [] end
         end
  end.
Definition jltrim (s : bytes) : bytes := jtrim_gen ws_head 0 s.
Definition jrtrim (s : bytes) : bytes := rev (jtrim_gen ws_head_rev 0 (rev s)).
Definition jtrim (s : bytes) : bytes := jrtrim (jltrim s).

(* ------------------------------------------------------------------ path (slash-separated, lexical) *)
Definition SLASH := 47.
Definition DOT := 46.
(* path.Ext: from the last dot of the last element *)
Fixpoint jpath_ext_rev (acc rs : bytes) : bytes :=   (* rs = reversed path; acc = bytes already passed, in path order *)
  match rs with
  | [] => []
  | c :: r => if c =? SLASH then [] else if c =? DOT then c :: acc else jpath_ext_rev (c :: acc) r
  end.
Definition jpath_ext (p : bytes) : bytes := jpath_ext_rev [] (rev p).
Fixpoint drop_while_eq (c : Z) (s : bytes) : bytes :=
  match s with x :: r => if x =? c then drop_while_eq c r else s | [] => [] end.
Fixpoint take_until (c : Z) (s : bytes) : bytes :=
  match s with x :: r => if x =? c then [] else x :: take_until c r | [] => [] end.
(* path.Base *)
Definition jpath_base (p : bytes) : bytes :=
  match p with
  | [] => [DOT]
  | _ => let r := drop_while_eq SLASH (rev p) in      (* strip trailing slashes *)
         match r with
         | [] => [SLASH]
         | _ => rev (take_until SLASH r)
         end
  end.
(* path.Split: (dir incl. the final slash, file) *)
Definition jpath_split (p : bytes) : bytes * bytes :=
  let i := jlast_index_byte p SLASH in (ztake (i + 1) p, zdrop (i + 1) p).
(* path.Clean, by elements: drop "" and ".", ".." removes the previous element (kept when nothing can be removed and the
   path is not rooted) *)
Fixpoint clean_elems (rooted : bool) (stack : list bytes) (elems : list bytes) : list bytes :=   (* stack is reversed *)
  match elems with
  | [] => rev stack
  | e :: r =>
      if (zlen e =? 0) || bytes_eqb e [DOT] then clean_elems rooted stack r
      else if bytes_eqb e [DOT; DOT] then
        match stack with
        | top :: st' => if bytes_eqb top [DOT; DOT] then clean_elems rooted (e :: stack) r else clean_elems rooted st' r
        | [] => if rooted then clean_elems rooted stack r else clean_elems rooted (e :: stack) r
        end
      else clean_elems rooted (e :: stack) r
  end.
Fixpoint join_slash (l : list bytes) : bytes :=
  match l with [] => [] | [x] => x | x :: r => x ++ [SLASH] ++ join_slash r end.
Definition jpath_clean (p : bytes) : bytes :=
  match p with
  | [] => [DOT]
  | c :: _ =>
      let rooted := c =? SLASH in
      let body := join_slash (clean_elems rooted [] (jsplit1 SLASH p)) in
      if rooted then SLASH :: body else match body with [] => [DOT] | _ => body end
  end.
Definition jpath_dir (p : bytes) : bytes := jpath_clean (fst (jpath_split p)).

(* ------------------------------------------------------------------ net/textproto.CanonicalMIMEHeaderKey *)
Definition is_alnum (c : Z) : bool := ((48 <=? c) && (c <=? 57)) || ((65 <=? c) && (c <=? 90)) || ((97 <=? c) && (c <=? 122)).
Definition valid_hdr_byte (c : Z) : bool :=
  is_alnum c || existsb (Z.eqb c) [33; 35; 36; 37; 38; 39; 42; 43; 45; 46; 94; 95; 96; 124; 126].
Fixpoint canon_aux (upper : bool) (s : bytes) : bytes :=
  match s with
  | [] => []
  | c :: r => let c' := if upper && (97 <=? c) && (c <=? 122) then c - 32
                        else if negb upper && (65 <=? c) && (c <=? 90) then c + 32 else c in
              c' :: canon_aux (c' =? 45) r
  end.
Definition jcanon (s : bytes) : bytes := if forallb valid_hdr_byte s then canon_aux true s else s.

(* ------------------------------------------------------------------ http.Header restricted to what the package uses: every key holds
   one value; an association list in insertion order (a Go map has no order; Dump sorts the keys) *)
Definition hdr := list (bytes * bytes).
Fixpoint hraw_get (h : hdr) (k : bytes) : option bytes :=
  match h with [] => None | (k', v) :: r => if bytes_eqb k' k then Some v else hraw_get r k end.
Fixpoint hraw_set (h : hdr) (k v : bytes) : hdr :=
  match h with
  | [] => [(k, v)]
  | (k', v') :: r => if bytes_eqb k' k then (k, v) :: r else (k', v') :: hraw_set r k v
  end.
(* Header.Get: canonicalises the key; a missing key reads as "" *)
Definition hget (h : hdr) (k : bytes) : bytes := match hraw_get h (jcanon k) with Some v => v | None => [] end.
(* Header.Set: canonicalises the key and replaces the value *)
Definition hset (h : hdr) (k v : bytes) : hdr := hraw_set h (jcanon k) v.

(* sort.Strings on byte strings: insertion sort by bytewise lexicographic order *)
Fixpoint bytes_leb (a b : bytes) : bool :=
  match a, b with
  | [], _ => true
  | _ :: _, [] => false
  | x :: a', y :: b' => if x <? y then true else if y <? x then false else bytes_leb a' b'
  end.
Fixpoint sins (k : bytes) (l : list bytes) : list bytes :=
  match l with [] => [k] | x :: r => if bytes_leb k x then k :: l else x :: sins k r end.
Definition jsort (l : list bytes) : list bytes := fold_right sins [] l.

(* checked slice s[lo:hi]: what Go does, including the panic *)
Definition P_SLICE := 1.
Definition P_INDEX := 2.
Definition P_HANG := 3.
Definition cslice (lo hi : Z) (s : bytes) : result bytes :=
  if (lo <? 0) || (hi <? lo) || (zlen s <? hi) then Panic P_SLICE else Ok (ztake (hi - lo) (zdrop lo s)).

Definition is_some {A} (o : option A) : bool := match o with Some _ => true | None => false end.
