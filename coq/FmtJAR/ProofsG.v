(* FmtJAR/ProofsG.v — keepFile (translated from the source) IS the JAR specification's list of signature-related members, for ALL names;
   the JDK's narrower reading of SIG-* names. *)
From Relic Require Import Base.Prelude FmtJAR.Lib Generated.FmtJAR_gen FmtJAR.Model FmtJAR.ProofsA FmtJAR.ProofsB FmtJAR.ProofsC.

Lemma no_byte_rev c l : no_byte c l -> no_byte c (rev l).
Proof. unfold no_byte. intros H Hin. apply H. apply in_rev. exact Hin. Qed.
Lemma upper_app a b : jto_upper (a ++ b) = jto_upper a ++ jto_upper b.
Proof. apply map_app. Qed.
Lemma upper_no47 b : no_byte 47 b -> no_byte 47 (jto_upper b).
Proof.
  unfold no_byte, jto_upper. intros H Hin. apply in_map_iff in Hin as (c & Ec & Hin). apply H.
  destruct ((97 <=? c) && (c <=? 122)) eqn:E; [lia|]. subst. exact Hin.
Qed.
Lemma jhas_prefix_app p x : jhas_prefix (p ++ x) p = true.
Proof. induction p as [|c p IH]; [reflexivity|]. cbn [app jhas_prefix]. rewrite Z.eqb_refl. exact IH. Qed.
Lemma jhas_suffix_app x e : jhas_suffix (x ++ e) e = true.
Proof. unfold jhas_suffix. rewrite rev_app_distr. apply jhas_prefix_app. Qed.
Lemma jhas_prefix_upper b p : jhas_prefix b p = true -> jhas_prefix (jto_upper b) (jto_upper p) = true.
Proof.
  revert b; induction p as [|x p IH]; intros b H; [reflexivity|]. destruct b as [|y b]; [discriminate|]. cbn [jhas_prefix] in H.
  apply andb_true_iff in H as [Hxy H]. apply Z.eqb_eq in Hxy. subst y. cbn [jto_upper map jhas_prefix]. rewrite Z.eqb_refl. apply IH. exact H.
Qed.
Lemma jindex_none s c : no_byte c s -> jindex s [c] = -1.
Proof.
  induction s as [|x s IH]; intros H; [reflexivity|]. apply no_byte_cons in H as [Hx Hs]. cbn [jindex jhas_prefix]. replace (c =? x) with false by lia. cbn [andb].
  rewrite IH by exact Hs. reflexivity.
Qed.
Lemma ext_rev_suffix rs : forall acc e, jpath_ext_rev acc rs = e -> e <> [] -> exists x, rev rs ++ acc = x ++ e.
Proof.
  induction rs as [|c r IH]; intros acc e E Hne; [cbn in E; subst; contradiction|]. cbn [jpath_ext_rev] in E. change SLASH with 47 in E. change DOT with 46 in E.
  destruct (c =? 47); [subst; contradiction|]. destruct (c =? 46).
  - subst e. exists (rev r). cbn [rev]. rewrite <- app_assoc. reflexivity.
  - destruct (IH (c :: acc) e E Hne) as [x Hx]. exists x. cbn [rev]. rewrite <- app_assoc. exact Hx.
Qed.
Lemma ext_suffix b e : jpath_ext b = e -> e <> [] -> exists x, b = x ++ e.
Proof. intros E Hne. unfold jpath_ext in E. destruct (ext_rev_suffix _ _ _ E Hne) as [x Hx]. rewrite rev_involutive, app_nil_r in Hx. eauto. Qed.

Lemma jhas_prefix_true l p : jhas_prefix l p = true -> exists r, l = p ++ r.
Proof.
  revert l; induction p as [|x p IH]; intros l H; [exists l; reflexivity|]. destruct l as [|y l]; [discriminate|]. cbn [jhas_prefix] in H.
  apply andb_true_iff in H as [E H]. apply Z.eqb_eq in E. subst y. destruct (IH l H) as [r ->]. exists r. reflexivity.
Qed.
Lemma jhas_suffix_true l s : jhas_suffix l s = true -> exists x, l = x ++ s.
Proof.
  unfold jhas_suffix. intros H. apply jhas_prefix_true in H as [r Hr]. exists (rev r).
  apply (f_equal (@rev Z)) in Hr. rewrite rev_involutive, rev_app_distr, rev_involutive in Hr. exact Hr.
Qed.
Lemma ext_rev_found e : no_byte 46 e -> no_byte 47 e -> forall acc rest, jpath_ext_rev acc (rev e ++ 46 :: rest) = 46 :: e ++ acc.
Proof.
  induction e as [|c e IH] using rev_ind; intros H46 H47 acc rest.
  - cbn. reflexivity.
  - apply no_byte_app in H46 as [H46 Hc46]. apply no_byte_app in H47 as [H47 Hc47]. apply no_byte_cons in Hc46 as [Hc46 _]. apply no_byte_cons in Hc47 as [Hc47 _].
    rewrite rev_app_distr. cbn [rev app jpath_ext_rev]. change SLASH with 47. change DOT with 46.
    replace (c =? 47) with false by lia. replace (c =? 46) with false by lia. rewrite IH by assumption. rewrite <- app_assoc. reflexivity.
Qed.
Lemma ext_of_suffix x e : no_byte 46 e -> no_byte 47 e -> jpath_ext (x ++ 46 :: e) = 46 :: e.
Proof.
  intros H46 H47. unfold jpath_ext. rewrite rev_app_distr. cbn [rev]. rewrite <- app_assoc. cbn [app].
  rewrite ext_rev_found by assumption. rewrite app_nil_r. reflexivity.
Qed.
Lemma no47_jcontains s : jcontains s [47] = false -> no_byte 47 s.
Proof.
  unfold jcontains. induction s as [|x s IH]; intros H; [intros []|]. cbn [jindex jhas_prefix] in H.
  destruct (47 =? x) eqn:E; [cbn in H; discriminate|]. cbn [andb] in H.
  destruct (jindex s [47] <? 0) eqn:E2.
  - apply no_byte_cons. split; [lia|]. apply IH. lia.
  - exfalso. pose proof (jindex_ge s [47]). lia.
Qed.
Definition spec_sigbase (u : bytes) : bool :=
  bytes_eqb u [77; 65; 78; 73; 70; 69; 83; 84; 46; 77; 70] || jhas_prefix u [83; 73; 71; 45]
  || jhas_suffix u [46; 83; 70] || jhas_suffix u [46; 68; 83; 65] || jhas_suffix u [46; 82; 83; 65] || jhas_suffix u [46; 69; 67].

Lemma ext_eq_suffix base e : no_byte 46 e -> no_byte 47 e -> bytes_eqb (jpath_ext base) (46 :: e) = jhas_suffix base (46 :: e).
Proof.
  intros H46 H47. destruct (jhas_suffix base (46 :: e)) eqn:Es.
  - apply jhas_suffix_true in Es as [x ->]. rewrite ext_of_suffix by assumption. apply bytes_eqb_refl.
  - apply bytes_eqb_neq. intros E. destruct (ext_suffix base _ E ltac:(discriminate)) as [x Hx]. rewrite Hx in Es. rewrite jhas_suffix_app in Es. discriminate.
Qed.
Lemma slice_after_prefix base : zslice (zlen jar_meta_inf) (zlen (jar_meta_inf ++ base)) (jar_meta_inf ++ base) = base.
Proof.
  unfold zslice. change (zdrop (zlen jar_meta_inf) (jar_meta_inf ++ base)) with base. apply ztake_all. rewrite zlen_app. lia.
Qed.

(* C03 / C08: for EVERY member name, keepFile removes exactly META-INF/ itself and what the JAR specification makes signature related
   (MANIFEST.MF, *.SF, *.DSA, *.RSA, *.EC, SIG-* directly in META-INF/, letter case ignored); nothing at any other depth, nothing else *)
Theorem keep_file_eq_spec n : jar_keep_file n = negb (bytes_eqb n jar_meta_inf || spec_sig_related n).
Proof.
  unfold jar_keep_file, spec_sig_related. change [77; 69; 84; 65; 45; 73; 78; 70; 47] with jar_meta_inf. change META_INF_SPEC with jar_meta_inf.
  destruct (bytes_eqb n jar_meta_inf); [reflexivity|]. cbn [orb].
  destruct (jhas_prefix (jto_upper n) jar_meta_inf) eqn:Ep; [|reflexivity].
  apply jhas_prefix_true in Ep as [base Hb]. rewrite Hb. rewrite slice_after_prefix. change (zdrop 9 (jar_meta_inf ++ base)) with base. cbn [negb orb andb].
  destruct (jcontains base [47]); [reflexivity|]. cbn [negb andb].
  rewrite (ext_eq_suffix base [83; 70]), (ext_eq_suffix base [82; 83; 65]), (ext_eq_suffix base [68; 83; 65]), (ext_eq_suffix base [69; 67]) by (unfold no_byte; cbn; intuition lia).
  destruct base as [|c b'].
  - reflexivity.
  - rewrite zlen_cons. pose proof (zlen_nonneg b'). replace (1 + zlen b' =? 0) with false by lia. cbn [negb andb].
    destruct (jhas_prefix (c :: b') [83; 73; 71; 45]), (bytes_eqb (c :: b') [77; 65; 78; 73; 70; 69; 83; 84; 46; 77; 70]), (jhas_suffix (c :: b') [46; 83; 70]),
      (jhas_suffix (c :: b') [46; 82; 83; 65]), (jhas_suffix (c :: b') [46; 68; 83; 65]), (jhas_suffix (c :: b') [46; 69; 67]); reflexivity.
Qed.
(* the JDK (SignatureFileVerifier.isSigningRelated) reads the list more narrowly for SIG-* names; everything it calls signature related is *)
Theorem jdk_related_is_spec n : jdk_sig_related n = true -> spec_sig_related n = true.
Proof.
  unfold jdk_sig_related, spec_sig_related. intros H. apply andb_true_iff in H as [Hp H]. rewrite Hp. cbn [andb].
  apply andb_true_iff in H as [Hc Ht]. rewrite Hc. cbn [andb].
  destruct (zdrop 9 (jto_upper n)) as [|c b'] eqn:Eb; [vm_compute in Ht; discriminate|].
  rewrite zlen_cons. pose proof (zlen_nonneg b'). replace (1 + zlen b' =? 0) with false by lia. cbn [negb andb].
  destruct (bytes_eqb (c :: b') [77; 65; 78; 73; 70; 69; 83; 84; 46; 77; 70]); [reflexivity|].
  destruct (jhas_suffix (c :: b') [46; 83; 70]); [rewrite !orb_true_r; reflexivity|].
  destruct (jhas_suffix (c :: b') [46; 68; 83; 65]); [rewrite !orb_true_r; reflexivity|].
  destruct (jhas_suffix (c :: b') [46; 82; 83; 65]); [rewrite !orb_true_r; reflexivity|].
  destruct (jhas_suffix (c :: b') [46; 69; 67]); [rewrite !orb_true_r; reflexivity|].
  cbn [orb] in Ht. apply andb_true_iff in Ht as [Hs _]. rewrite Hs. reflexivity.
Qed.
