(* FmtJAR/ProofsE.v — the specification reader (JAR File Specification grammar) on what relic emits; DigestManifest's output. *)
From Relic Require Import Base.Prelude FmtJAR.Lib Generated.FmtJAR_gen FmtJAR.Model FmtJAR.ProofsA FmtJAR.ProofsB FmtJAR.ProofsC FmtJAR.ProofsD.

(* ------------------------------------------------------------------ physical lines and unfolding, fused *)
Definition U (x : bytes) : bytes * list bytes * bool := spec_unfold (spec_lines x).
(* x read as the rest of a line that has already begun: (rest of that logical line, following logical lines, ok) *)
Definition FL (x : bytes) : bytes * list bytes * bool :=
  match spec_lines x with
  | h :: t => let '(p, done, ok) := spec_unfold t in (h ++ p, done, ok)
  | [] => ([], [], true)
  end.
Lemma spec_lines_ne x : spec_lines x <> [].
Proof.
  induction x as [|c r IH]; [discriminate|]. cbn [spec_lines]. destruct (c =? 10); [discriminate|].
  destruct (c =? 13); [destruct r as [|d r']; [discriminate|destruct (d =? 10); discriminate]|].
  destruct (spec_lines r); discriminate.
Qed.
Lemma FL_plain c x : c <> 10 -> c <> 13 -> FL (c :: x) = let '(a, d, ok) := FL x in (c :: a, d, ok).
Proof.
  intros H10 H13. unfold FL. cbn [spec_lines]. replace (c =? 10) with false by lia. replace (c =? 13) with false by lia.
  destruct (spec_lines x) as [|h t] eqn:E; [exfalso; eapply spec_lines_ne; eauto|].
  destruct (spec_unfold t) as [[p done] ok]. reflexivity.
Qed.
Lemma FL_wrap x : FL (13 :: 10 :: 32 :: x) = FL x.
Proof.
  unfold FL. change (spec_lines (13 :: 10 :: 32 :: x)) with ([] :: spec_lines (32 :: x)).
  cbn [spec_lines]. change (32 =? 10) with false. change (32 =? 13) with false. cbv iota.
  destruct (spec_lines x) as [|h t] eqn:E; [exfalso; eapply spec_lines_ne; eauto|].
  cbn [spec_unfold]. destruct (spec_unfold t) as [[p done] ok]. change (32 =? 32) with true. cbv iota. reflexivity.
Qed.
Lemma FL_crlf x : FL (13 :: 10 :: x) = U x.
Proof.
  unfold FL, U. change (spec_lines (13 :: 10 :: x)) with ([] :: spec_lines x). cbv beta iota.
  destruct (spec_unfold (spec_lines x)) as [[p done] ok]. reflexivity.
Qed.
Lemma FL_stream k l rest : no_byte 10 l -> no_byte 13 l ->
  FL (stream k l ++ rest) = let '(a, d, ok) := U rest in (l ++ a, d, ok).
Proof.
  revert k; induction l as [|c r IH]; intros k H10 H13.
  - cbn [stream app]. rewrite FL_crlf. destruct (U rest) as [[a d] ok]. reflexivity.
  - apply no_byte_cons in H10 as [Hc10 Hr10]. apply no_byte_cons in H13 as [Hc13 Hr13]. destruct k as [|k'].
    + cbn [stream app]. rewrite FL_wrap. rewrite FL_plain by assumption. rewrite IH by assumption. destruct (U rest) as [[a d] ok]. reflexivity.
    + cbn [stream app]. rewrite FL_plain by assumption. rewrite IH by assumption. destruct (U rest) as [[a d] ok]. reflexivity.
Qed.
Lemma U_first c x : c <> 10 -> c <> 13 -> c <> 32 -> U (c :: x) = let '(a, d, ok) := FL (c :: x) in ([], a :: d, ok).
Proof.
  intros H10 H13 H32. unfold U, FL. cbn [spec_lines]. replace (c =? 10) with false by lia. replace (c =? 13) with false by lia.
  destruct (spec_lines x) as [|h t] eqn:E; [exfalso; eapply spec_lines_ne; eauto|].
  cbn [spec_unfold]. destruct (spec_unfold t) as [[p done] ok]. replace (c =? 32) with false by lia. reflexivity.
Qed.
(* one emitted attribute in front of `rest` *)
Lemma U_attr kv rest : valid_attr kv -> U (attr_text kv ++ rest) = let '(p, d, ok) := U rest in ([], (attr_line (fst kv) (snd kv) ++ p) :: d, ok).
Proof.
  intros [Hk Hv]. destruct (valid_line_first (fst kv) (snd kv) Hk) as (c & t & E & Hc). unfold printable in Hc.
  unfold attr_text. pose proof (valid_line_10 _ _ Hk Hv) as H10. pose proof (valid_line_13 _ _ Hk Hv) as H13.
  assert (Es : stream 70 (attr_line (fst kv) (snd kv)) ++ rest = c :: (stream 69 t ++ rest)) by (rewrite E; reflexivity).
  rewrite Es. rewrite U_first by lia. rewrite <- Es. rewrite FL_stream by assumption. destruct (U rest) as [[p d] ok]. reflexivity.
Qed.
Lemma U_blank rest : U (13 :: 10 :: rest) = let '(p, d, ok) := U rest in ([], [] :: d, ok && (zlen p =? 0)).
Proof.
  unfold U. change (spec_lines (13 :: 10 :: rest)) with ([] :: spec_lines rest). cbn [spec_unfold].
  destruct (spec_unfold (spec_lines rest)) as [[p d] ok]. reflexivity.
Qed.
Lemma U_nil : U [] = ([], [[]], true).
Proof. reflexivity. Qed.

Definition lines_of (a : list (bytes * bytes)) : list bytes := map (fun kv => attr_line (fst kv) (snd kv)) a.
Lemma U_attrs a rest : Forall valid_attr a -> forall d ok, U rest = ([], d, ok) ->
  U (concat (map attr_text a) ++ rest) = ([], lines_of a ++ d, ok).
Proof.
  intros H. induction H as [|kv r Hkv Hr IH]; intros d ok Hrest; [exact Hrest|].
  cbn [map concat lines_of]. rewrite <- app_assoc. rewrite U_attr by exact Hkv. rewrite (IH d ok Hrest). rewrite app_nil_r. reflexivity.
Qed.
Lemma U_secs secs : Forall good_sec secs ->
  U (concat (map sec_text secs)) = ([], concat (map (fun a => lines_of a ++ [[]]) secs) ++ [[]], true).
Proof.
  intros H. induction H as [|a r [Ha _] Hr IH]; [reflexivity|].
  cbn [map concat]. unfold sec_text at 1. rewrite <- !app_assoc. cbn [app].
  rewrite (U_attrs a _ Ha ([] :: concat (map (fun a0 => lines_of a0 ++ [[]]) r) ++ [[]]) true).
  - reflexivity.
  - rewrite U_blank, IH. reflexivity.
Qed.

(* ------------------------------------------------------------------ groups and headers *)
Lemma spec_groups_sec a rest cur : (forall l, In l (lines_of a) -> l <> []) -> (cur <> [] \/ a <> []) ->
  spec_groups cur (lines_of a ++ [] :: rest) = (rev cur ++ lines_of a) :: spec_groups [] rest.
Proof.
  revert cur; induction a as [|kv r IH]; intros cur Hne Hc.
  - cbn [lines_of map app spec_groups]. destruct cur; [destruct Hc; contradiction|]. rewrite app_nil_r. reflexivity.
  - cbn [lines_of map app]. fold (lines_of r). destruct (attr_line (fst kv) (snd kv)) as [|c t] eqn:E.
    + exfalso. apply (Hne []); [left; exact E|reflexivity].
    + cbn [spec_groups]. rewrite IH.
      * cbn [rev]. rewrite <- app_assoc. reflexivity.
      * intros l Hl. apply Hne. right. exact Hl.
      * left. discriminate.
Qed.
Lemma spec_groups_secs secs : Forall good_sec secs ->
  spec_groups [] (concat (map (fun a => lines_of a ++ [[]]) secs) ++ [[]]) = map lines_of secs.
Proof.
  intros H. induction H as [|a r [Ha Hne] Hr IH]; [reflexivity|].
  cbn [map concat]. rewrite <- !app_assoc. cbn [app]. rewrite spec_groups_sec.
  - cbn [rev app]. rewrite IH. reflexivity.
  - intros l Hl. unfold lines_of in Hl. apply in_map_iff in Hl as (kv & <- & Hin). apply attr_line_nonempty.
  - right. exact Hne.
Qed.
Definition spec_attr_ok (kv : bytes * bytes) : Prop := valid_attr kv /\ spec_name_ok (fst kv) = true.
Lemma spec_header_line kv : spec_attr_ok kv -> spec_header (attr_line (fst kv) (snd kv)) = Some kv.
Proof.
  intros [[Hk Hv] Hn]. destruct kv as [k v]. cbn [fst snd] in *. pose proof Hk as (_ & H58 & _).
  unfold spec_header, attr_line. change jar_wa_sep with [58; 32]. cbn [app]. rewrite jindex_byte_app by exact H58.
  pose proof (zlen_nonneg k). replace (zlen k <? 0) with false by lia.
  rewrite ztake_app_l by lia. rewrite ztake_all by lia.
  rewrite zdrop_app_r by lia. replace (zlen k + 1 - zlen k) with 1 by lia. change (zdrop 1 (58 :: 32 :: v)) with (32 :: v).
  rewrite Hn. reflexivity.
Qed.
Lemma opt_all_some {A} (l : list A) : opt_all (map Some l) = Some l.
Proof. induction l as [|x r IH]; [reflexivity|]. cbn [map opt_all]. rewrite IH. reflexivity. Qed.
Lemma headers_sec a : Forall spec_attr_ok a -> opt_all (map spec_header (lines_of a)) = Some a.
Proof.
  intros H. unfold lines_of. rewrite map_map. transitivity (opt_all (map Some a)); [|apply opt_all_some]. f_equal.
  apply map_ext_in. intros kv Hin. apply spec_header_line. rewrite Forall_forall in H. apply H. exact Hin.
Qed.

(* C05 / C03: a reader that follows the JAR File Specification grammar reads, from the text relic emits for a list of sections,
   exactly the attributes that were emitted, in order *)
Theorem spec_read_secs secs : secs <> [] -> Forall (fun a => Forall spec_attr_ok a /\ a <> []) secs ->
  spec_read (concat (map sec_text secs)) = Some secs.
Proof.
  intros Hne H.
  assert (Hg : Forall good_sec secs).
  { eapply Forall_impl; [|exact H]. intros a [Ha Hn]. split; [|exact Hn]. eapply Forall_impl; [|exact Ha]. intros kv [Hv _]. exact Hv. }
  unfold spec_read.
  assert (Hend : ends_nl (concat (map sec_text secs)) = true).
  { destruct (exists_last Hne) as (front & lst & ->). rewrite map_app, concat_app. cbn [map concat]. rewrite app_nil_r.
    unfold sec_text. unfold ends_nl. rewrite !rev_app_distr. reflexivity. }
  rewrite Hend. cbn [negb]. fold (U (concat (map sec_text secs))). rewrite U_secs by exact Hg.
  change (zlen (@nil Z) =? 0) with true. cbn [negb orb]. rewrite spec_groups_secs by exact Hg. rewrite map_map.
  transitivity (opt_all (map Some secs)); [|apply opt_all_some]. f_equal. apply map_ext_in. intros a Hin.
  rewrite Forall_forall in H. destruct (H a Hin) as [Ha _]. apply headers_sec. exact Ha.
Qed.

(* ------------------------------------------------------------------ DigestManifest on emitted manifests: the signature file, attribute by attribute *)
Section SF.
  Variable H : Z -> bytes -> bytes.
  Variable alg : Z.
  Variable cb : bytes.
  Let hn := hash_name_of alg.
  Definition sf_file_ok (a : list (bytes * bytes)) : Prop := valid_attrs a /\ a <> [] /\ hget a NAME <> [].
  (* the arguments DigestManifest passes to writeAttribute, as generated from its source *)
  Definition KM (main : list (bytes * bytes)) (T : bytes) (f : (bytes -> bytes) -> bytes -> bytes -> bytes -> bytes -> bytes -> bytes -> bytes) : bytes :=
    f (H alg) hn (sec_text main) T [] cb [].
  Definition KF (a : list (bytes * bytes)) (f : (bytes -> bytes) -> bytes -> bytes -> bytes -> bytes -> bytes -> bytes -> bytes) : bytes :=
    f (H alg) hn [] [] (sec_text a) [] (hget a NAME).
  Definition sf_file_text (a : list (bytes * bytes)) : bytes :=
    attr_text (KF a jar_dm_k5, KF a jar_dm_v5) ++ attr_text (KF a jar_dm_k6, KF a jar_dm_v6) ++ [13; 10].
  Definition sf_text (so apk : bool) (main : list (bytes * bytes)) (files : list (list (bytes * bytes))) : bytes :=
    let T := concat (map sec_text (main :: files)) in
    attr_text (KM main T jar_dm_k0, KM main T jar_dm_v0) ++ attr_text (KM main T jar_dm_k1, KM main T jar_dm_v1) ++
    (if so then [] else attr_text (KM main T jar_dm_k2, KM main T jar_dm_v2)) ++
    attr_text (KM main T jar_dm_k3, KM main T jar_dm_v3) ++
    (if apk then attr_text (KM main T jar_dm_k4, KM main T jar_dm_v4) else []) ++ [13; 10] ++
    concat (map sf_file_text files).

  Lemma dm_sections_files files : Forall sf_file_ok files ->
    dm_sections H alg hn (map sec_text files) = Ok (concat (map sf_file_text files)).
  Proof.
    intros Hf. induction Hf as [|a r (Hv & Hne & Hname) Hr IH]; [reflexivity|].
    cbn [map dm_sections]. rewrite parse_section_valid by exact Hv. cbn [bind].
    change jar_dm_name_key with NAME. unfold jar_dm_name_missing.
    destruct (bytes_eqb (hget a NAME) []) eqn:E; [apply bytes_eqb_eq in E; contradiction|].
    rewrite !write_attr_stream. cbn [bind]. rewrite IH. cbn [bind concat]. change jar_dm_sec_end with [13; 10].
    unfold sf_file_text, KF, attr_text. cbn [fst snd]. rewrite <- !app_assoc. reflexivity.
  Qed.

  (* C05: the signature file DigestManifest writes for an emitted manifest *)
  Theorem digest_manifest_text so apk main files : hn <> [] -> good_sec main -> Forall sf_file_ok files ->
    digest_manifest H alg cb so apk (concat (map sec_text (main :: files))) = Ok (sf_text so apk main files).
  Proof.
    intros Hhn Hmain Hfiles. unfold digest_manifest.
    assert (Hgood : Forall good_sec (main :: files)).
    { constructor; [exact Hmain|]. eapply Forall_impl; [|exact Hfiles]. intros a ([Hv _] & Hne & _). split; assumption. }
    rewrite split_manifest_secs by exact Hgood. cbn [bind fst snd map].
    change (jar_dm_refuses false) with false. cbv iota. fold hn. unfold jar_dm_hash_unknown.
    destruct (bytes_eqb hn []) eqn:E; [apply bytes_eqb_eq in E; contradiction|].
    rewrite !write_attr_stream. change (zdrop jar_dm_first_file_section (sec_text main :: map sec_text files)) with (map sec_text files).
    rewrite dm_sections_files by exact Hfiles.
    unfold sf_text, KM, attr_text, jar_dm_whole, jar_dm_apk. cbn [fst snd map].
    change jar_dm_main_end with [13; 10].
    destruct so, apk; cbn [negb bind]; rewrite ?write_attr_stream; cbn [bind app]; rewrite ?app_nil_r; reflexivity.
  Qed.

  (* ... and which bytes each digest is taken over: exactly the emitted bytes of the manifest part *)
  Theorem sf_digest_preimages main files a : let T := concat (map sec_text (main :: files)) in
    KM main T jar_dm_v1 = H alg (sec_text main) /\ KM main T jar_dm_v2 = H alg T /\ KF a jar_dm_v6 = H alg (sec_text a) /\ KF a jar_dm_v5 = hget a NAME.
  Proof. repeat split; reflexivity. Qed.
End SF.
