(* FmtJAR/Properties.v — the JAR signing text layer (lib/signjar). Statements only; proofs are in FmtJAR/Proofs*.v.
   Model and specification side: FmtJAR/Model.v.  `H alg bytes` is the abstract digest (its base64 text).
   Classes used below (FmtJAR/ProofsB.v, ProofsD.v): valid_key / valid_val — attribute names and values as the JAR specification
   allows them and as parseSection returns them (no CR / LF, trimmed, canonical MIME case, no colon in the name);
   valid_fm m — every header of m, listed in Dump's order (ws_attrs), consists of such attributes with distinct names, the main
   section is not empty, every file section carries its Name, section names are distinct. *)
From Relic Require Import Base.Prelude FmtJAR.Lib Generated.FmtJAR_gen FmtJAR.Model.
From Relic Require Import FmtJAR.ProofsA FmtJAR.ProofsB FmtJAR.ProofsC FmtJAR.ProofsD FmtJAR.ProofsE FmtJAR.ProofsF FmtJAR.ProofsG FmtJAR.ProofsH FmtJAR.ProofsI FmtJAR.ProofsJ.

(* ================================================================== writeAttribute: the 72-byte line rule *)
(* C01: writeAttribute never fails (no slice out of range, the loop terminates) *)
Theorem jar_write_attr_total : forall k v, exists out, write_attr k v = Ok out.
Proof. intros k v. eexists. apply write_attr_stream. Qed.
(* C05: what it writes is a sequence of CR LF terminated lines, each at most 72 bytes long including the CR LF, and every line after
   the first starts with the single space that marks a continuation *)
Theorem jar_wrap_line_limit : forall k v, exists lines,
  write_attr k v = Ok (render lines) /\ lines <> [] /\ Forall (fun p => zlen p + 2 <= 72) lines /\ (forall p, In p (tl lines) -> exists q, p = 32 :: q).
Proof. exact wrap_line_limit. Qed.
(* C05: unwrapping the emitted lines (relic's own way: CR LF -> LF, then LF SPACE removed) gives `name: value` back, for every
   name and value without CR / LF *)
Theorem jar_wrap_roundtrip : forall k v out, no_byte 13 (attr_line k v) -> no_byte 10 (attr_line k v) ->
  write_attr k v = Ok out -> ps_unfold out = attr_line k v ++ [10].
Proof. exact wrap_roundtrip. Qed.

(* ================================================================== ParseManifest / Dump *)
(* C03: parsing what Dump wrote gives the structure back: the same section order and, per section, the same attributes (listed in
   the order Dump writes them: the distinguished attribute first, the others sorted by name); the manifest is not `malformed` *)
Theorem jar_parse_dump : forall m b, valid_fm m -> dump m = Ok b ->
  parse_manifest_m b = Ok (norm_fm m, false) /\ parse_manifest b = Ok (norm_fm m).
Proof. intros m b Hv Hd. split; [apply parse_dump|apply parse_dump_public]; assumption. Qed.
(* C03: Dump (ParseManifest b) = b on relic-emitted manifests: the parsed structure dumps to the very same bytes (attribute and section order kept) *)
Theorem jar_dump_parse_dump : forall m b, valid_fm m -> dump m = Ok b -> parse_manifest b = Ok (norm_fm m) /\ dump (norm_fm m) = Ok b.
Proof. intros m b Hv Hd. split; [apply parse_dump_public|apply dump_parse_dump]; assumption. Qed.
(* C05 / C03: an independent reader that follows the grammar of the JAR File Specification (physical lines ended by CR LF | LF | CR,
   continuation lines, `name: value`, sections separated by empty lines; nothing trimmed, nothing case-folded) reads relic's output to
   exactly the main / section attributes relic itself reads back *)
Theorem jar_spec_reader_agrees : forall m b, valid_fm m -> dump m = Ok b ->
  Forall (fun a => Forall (fun kv => spec_name_ok (fst kv) = true) a) (dump_attrs m) ->
  spec_read b = Some (fm_main (norm_fm m) :: map snd (fm_files (norm_fm m))) /\ parse_manifest b = Ok (norm_fm m).
Proof.
  intros m b Hv Hd Hn. split; [|apply parse_dump_public; assumption].
  pose proof Hv as [Hm Hmne Ho Hnd Hs]. rewrite dump_text in Hd by assumption. injection Hd as <-.
  assert (E : fm_main (norm_fm m) :: map snd (fm_files (norm_fm m)) = dump_attrs m) by (unfold norm_fm, dump_attrs, norm_sec; cbn [fm_main fm_files]; rewrite map_map; reflexivity).
  rewrite E. match goal with |- spec_read ?t = _ => change t with (concat (map sec_text (dump_attrs m))) end.
  apply spec_read_secs; [unfold dump_attrs; discriminate|].
  assert (Hg : Forall good_sec (dump_attrs m)).
  { unfold dump_attrs. constructor; [split; [apply Hm|exact Hmne]|]. rewrite Forall_map. eapply Forall_impl; [|exact Hs]. apply sec_ok_good. }
  rewrite Forall_forall in *. intros a Ha. destruct (Hg a Ha) as [Hva Hne]. split; [|exact Hne].
  specialize (Hn a Ha). rewrite Forall_forall in *. intros kv Hkv. split; [apply Hva; exact Hkv|apply Hn; exact Hkv].
Qed.
(* C03: the sections splitManifest returns partition the manifest: every byte belongs to exactly one section (when it is not `malformed`) *)
Theorem jar_split_partition : forall b secs, split_manifest b = Ok (secs, false) -> concat secs = b.
Proof. exact split_partition. Qed.
(* mixed newlines (LF LF after the main section, CR LF CR LF later; formerly misread as one section): the sections are the specification's *)
Example jar_split_mixed_eol_regression :
  let b := [65; 58; 32; 49; 10; 10; 78; 97; 109; 101; 58; 32; 120; 13; 10; 66; 58; 32; 50; 13; 10; 13; 10] in
  split_manifest b = Ok (spec_sections b, false) /\ length (spec_sections b) = 2%nat.
Proof. exact split_mixed_eol_regression. Qed.

(* ================================================================== DigestManifest: the signature file *)
(* C05: for an emitted manifest (main section `main`, file sections `files`), DigestManifest writes exactly sf_text: Signature-Version,
   the digest attributes, Created-By, one section per manifest section ... *)
Theorem jar_sf_digest_is_emitted : forall H alg cb so apk main files,
  hash_name_of alg <> [] -> good_sec main -> Forall sf_file_ok files ->
  digest_manifest H alg cb so apk (concat (map sec_text (main :: files))) = Ok (sf_text H alg cb so apk main files).
Proof. exact digest_manifest_text. Qed.
(* ... and every digest in it is the hash of EXACTLY the emitted bytes of the corresponding manifest part: the main-attributes digest of
   the main section as emitted, the manifest digest of the whole manifest, each section digest of that section as emitted *)
Theorem jar_sf_digest_preimages : forall H alg cb main files a, let T := concat (map sec_text (main :: files)) in
  KM H alg cb main T jar_dm_v1 = H alg (sec_text main) /\ KM H alg cb main T jar_dm_v2 = H alg T /\
  KF H alg a jar_dm_v6 = H alg (sec_text a) /\ KF H alg a jar_dm_v5 = hget a NAME.
Proof. exact sf_digest_preimages. Qed.
(* C01 / C05: the digest attribute names DigestManifest and updateManifest write are the ones hashFile looks for, cuts the algorithm name
   out of and resolves to the same algorithm, for every algorithm of x509tools.HashNames: such an attribute verifies against its content *)
Theorem jar_digest_attr_verifies : forall H alg c, known_alg alg -> let hn := hash_name_of alg in
  hash_file H all_avail [(jcanon (jar_dm_k2 (H alg) hn [] [] [] [] []), H alg c)] c jar_vs_suffix_whole = Ok tt /\
  hash_file H all_avail [(jcanon (jar_dm_k1 (H alg) hn [] [] [] [] []), H alg c)] c jar_vs_suffix_main = Ok tt /\
  hash_file H all_avail [(jcanon (jar_dm_k6 (H alg) hn [] [] [] [] []), H alg c)] c jar_vs_suffix_section = Ok tt /\
  hash_file H all_avail [(jcanon (hn ++ jar_um_digest_suffix), H alg c)] c [] = Ok tt /\
  hash_file H all_avail [(hn ++ jar_um_digest_suffix, H alg c)] c [] = Ok tt.
Proof. exact digest_attr_verifies. Qed.
(* C01: a manifest section for a file that is not in the archive: updateManifest succeeds, relic's own verifyManifest then refuses *)
Theorem jar_sign_then_verify_refuted : exists ms manifest', update_manifest Hid 5 [] ms = Ok manifest' /\ verify_manifest Hid all_avail manifest' ms = Err E_NOT_IN_JAR.
Proof. exact sign_then_verify_refuted. Qed.

(* ================================================================== keepFile and the members of the signed archive *)
(* C03 / C08: for EVERY member name keepFile removes exactly META-INF/ itself (re-created) and the members the JAR specification makes signature
   related — MANIFEST.MF, *.SF, *.DSA, *.RSA, *.EC, SIG-* directly in META-INF/, letter case ignored; nothing below a sub-directory of
   META-INF/, no .SIG files, no path cleaning *)
Theorem jar_keepfile_eq_spec : forall n, jar_keep_file n = negb (bytes_eqb n jar_meta_inf || spec_sig_related n).
Proof. exact keep_file_eq_spec. Qed.
(* the JDK's isSigningRelated is narrower for SIG-* names (extension: none, or 1..3 letters / digits): whatever it calls signature related is
   removed, and the difference is exactly such names, e.g. META-INF/SIG-NOTES.text (removed by relic; replayed by the harness) *)
Theorem jar_jdk_related_is_removed : forall n, jdk_sig_related n = true -> jar_keep_file n = false.
Proof. intros n H. rewrite keep_file_eq_spec, (jdk_related_is_spec n H), orb_true_r. reflexivity. Qed.
Theorem jar_keepfile_sig_prefix_jdk_refuted : exists n, jar_keep_file n = false /\ spec_sig_related n = true /\ jdk_sig_related n = false.
Proof. exact keepfile_sig_prefix_jdk_refuted. Qed.
Example jar_keepfile_regressions :
  jar_keep_file [77; 69; 84; 65; 45; 73; 78; 70; 47; 78; 79; 84; 69; 83; 46; 83; 73; 71] = true /\        (* META-INF/NOTES.SIG *)
  jar_keep_file [77; 69; 84; 65; 45; 73; 78; 70; 47; 46; 47; 88; 46; 83; 70] = true /\                    (* META-INF/./X.SF *)
  jar_keep_file [77; 69; 84; 65; 45; 73; 78; 70; 47; 111; 108; 100; 46; 115; 102] = false /\              (* META-INF/old.sf *)
  jar_keep_file [77; 69; 84; 65; 45; 73; 78; 70; 47; 116; 114; 117; 115; 116; 47; 99; 97; 46; 82; 83; 65] = true.   (* META-INF/trust/ca.RSA *)
Proof. exact keepfile_regressions. Qed.
(* C03 / C08: every member the specification classifies as payload is a member of the signed archive, with identical content, in the
   same order, and nothing else is payload there — after signing and, by iteration, after re-signing *)
Theorem jar_payload_kept : forall keytype alias ms manifest sf blob, alias_ok keytype alias ->
  filter (fun nc => spec_payload (fst nc)) (jar_embed keytype alias ms manifest sf blob) = filter (fun nc => spec_payload (fst nc)) ms.
Proof. exact payload_kept. Qed.
(* C08: of the old archive's members only those keepFile keeps are in the new one: old META-INF/*.SF|RSA|DSA|EC|SIG-* are dropped *)
Theorem jar_resign_drops_old_signature : forall keytype alias ms manifest sf blob n c,
  In (n, c) (skipn 4 (jar_embed keytype alias ms manifest sf blob)) -> In (n, c) ms /\ jar_keep_file n = true.
Proof. exact resign_drops_old. Qed.
(* C08: the member digests do not depend on the signature files already present *)
Theorem jar_digest_ignores_signature_files : forall H alg keytype alias ms manifest sf blob, alias_ok keytype alias ->
  df_digests H alg (jar_embed keytype alias ms manifest sf blob) [] = df_digests H alg ms [].
Proof. exact digests_ignore_signature_files. Qed.
(* C08: when every digested member already has its digest (and no directory section lacks one), updateManifest returns the manifest
   bytes unchanged: manifest sections stay stable under re-signing *)
Theorem jar_resign_manifest_stable : forall H alg order ms manifest m,
  df_manifest ms = Some manifest -> parse_manifest_m manifest = Ok (m, false) -> hash_name_of alg <> [] ->
  Forall (already_listed (hash_name_of alg ++ jar_um_digest_suffix) m) (reorder (df_digests H alg ms []) order) ->
  Forall (fun nh => jar_um_dir_needs (fst nh) (snd nh) (hash_name_of alg ++ jar_um_digest_suffix) = false) (fm_files m) ->
  update_manifest H alg order ms = Ok manifest.
Proof. exact resign_manifest_stable. Qed.

(* ================================================================== C02: what an accepted signature binds *)
(* with the whole-manifest digest in the signature file, two manifests accepted under the same signature file are equal (collision
   freedom of the digest as an explicit premise) *)
Theorem jar_protect_manifest : forall H avail, (forall alg x y, H alg x = H alg y -> x = y) -> forall sf b1 b2 h1 h2 sfm,
  parse_manifest sf = Ok sfm -> hash_file H avail (fm_main sfm) b1 jar_vs_suffix_whole = Ok tt ->
  verify_sigfile H avail sf b1 = Ok h1 -> verify_sigfile H avail sf b2 = Ok h2 ->
  hash_file H avail (fm_main sfm) b2 jar_vs_suffix_whole <> Err E_NO_DIGESTS /\ b1 = b2.
Proof. exact protect_manifest. Qed.
(* a manifest section without Magic binds the content of its member: two archives accepted under the same manifest have the same
   content for it, and the member exists *)
Theorem jar_protect_members : forall H avail, (forall alg x y, H alg x = H alg y -> x = y) -> forall files ms1 ms2 name keys,
  vm_files H avail files ms1 = Ok tt -> vm_files H avail files ms2 = Ok tt -> In (name, keys) files ->
  jar_vm_magic keys = false -> (jar_vm_is_dir name = false \/ mem_last ms1 name <> None /\ mem_last ms2 name <> None) ->
  mem_last ms1 name = mem_last ms2 name /\ mem_last ms1 name <> None.
Proof. exact protect_members. Qed.
(* what is NOT bound: members no section covers, members whose section carries Magic *)
Theorem jar_unlisted_member_refuted : exists ms1 ms2, verify_manifest Hid all_avail MAN1 ms1 = Ok tt /\ verify_manifest Hid all_avail MAN1 ms2 = Ok tt /\ mem_last ms1 [98] <> mem_last ms2 [98].
Proof. exact unlisted_member_refuted. Qed.
Theorem jar_magic_section_refuted : exists ms1 ms2, verify_manifest Hid all_avail MAN2 ms1 = Ok tt /\ verify_manifest Hid all_avail MAN2 ms2 = Ok tt /\ mem_last ms1 [97] <> mem_last ms2 [97].
Proof. exact magic_section_refuted. Qed.

(* without the whole-manifest digest (sections-only) a section appended to the manifest is covered by nothing *)
Theorem jar_sections_only_appended_refuted : exists sf b extra, extra <> [] /\
  verify_sigfile Hhex all_avail sf b = Ok (match parse_manifest sf with Ok m => fm_main m | _ => [] end) /\
  verify_sigfile Hhex all_avail sf (b ++ extra) = Ok (match parse_manifest sf with Ok m => fm_main m | _ => [] end).
Proof. exact sections_only_appended_refuted. Qed.

(* ================================================================== C11: no panic, for ALL byte strings *)
Theorem jar_split_total : forall b, exists r, split_manifest b = Ok r.
Proof. exact split_manifest_total. Qed.
Theorem jar_parse_section_no_panic : forall s, no_panic (parse_section s).
Proof. exact parse_section_no_panic. Qed.
Theorem jar_parse_no_panic : forall b, no_panic (parse_manifest_m b) /\ no_panic (parse_manifest b).
Proof. intros b. split; [apply parse_manifest_m_no_panic|apply parse_manifest_no_panic]. Qed.
Theorem jar_verify_sigfile_no_panic : forall H avail sf manifest, no_panic (verify_sigfile H avail sf manifest).
Proof. exact verify_sigfile_no_panic. Qed.
Theorem jar_digest_manifest_no_panic : forall H alg cb so apk b, no_panic (digest_manifest H alg cb so apk b).
Proof. intros H. exact (digest_manifest_no_panic H (fun _ => true)). Qed.
(* the empty manifest (formerly an index panic) is an error *)
Example jar_digest_manifest_empty_regression : forall H, digest_manifest H 5 [] false false [] = Err E_EMPTY.
Proof. exact digest_manifest_empty_regression. Qed.

(* ================================================================== the hypotheses are satisfiable *)
Definition ex_main : hdr := [(MV, [49; 46; 48]); ([67; 114; 101; 97; 116; 101; 100; 45; 66; 121], [120])].
Definition ex_sec : hdr := [(NAME, [97; 47; 98]); ([83; 104; 97; 45; 50; 53; 54; 45; 68; 105; 103; 101; 115; 116], [65; 66; 67; 61])].
Definition ex_fm : fmap := mkFmap ex_main [[97; 47; 98]] [([97; 47; 98], ex_sec)].
Example ex_dump : dump ex_fm = Ok ([77; 97; 110; 105; 102; 101; 115; 116; 45; 86; 101; 114; 115; 105; 111; 110; 58; 32; 49; 46; 48; 13; 10; 67; 114; 101; 97; 116; 101; 100; 45; 66; 121; 58; 32; 120; 13; 10; 13; 10]
  ++ [78; 97; 109; 101; 58; 32; 97; 47; 98; 13; 10; 83; 104; 97; 45; 50; 53; 54; 45; 68; 105; 103; 101; 115; 116; 58; 32; 65; 66; 67; 61; 13; 10; 13; 10]).
Proof. vm_compute. reflexivity. Qed.
(* C01 / C08 on a concrete archive (old META-INF/OLD.SF, nested META-INF/t/ca.RSA, one file): sign, verify, sign again with another key type and
   alias, verify; the old signature file is gone, the nested look-alike stays, the manifest bytes are the same after the second round *)
Example jar_sign_then_verify_example :
  (exists g, ex_signed false = Ok g /\ jar_verify Hhex all_avail (fun _ _ => true) false g = Ok tt /\
     map fst g = [jar_meta_inf; jar_manifest_name; jar_meta_inf ++ [82; 69; 76; 73; 67; 46; 83; 70]; jar_meta_inf ++ [82; 69; 76; 73; 67; 46; 82; 83; 65];
                  [104; 105; 46; 116; 120; 116]; [77; 69; 84; 65; 45; 73; 78; 70; 47; 116; 47; 99; 97; 46; 82; 83; 65]] /\
     exists g2, jar_sign Hhex 5 2 [120] [114] false false [] (fun sf => [2]) g = Ok g2 /\ jar_verify Hhex all_avail (fun _ _ => true) false g2 = Ok tt /\
       mem_last g2 jar_manifest_name = mem_last g jar_manifest_name /\ length g2 = length g).
Proof. exact sign_then_verify_example. Qed.
Example alias_ok_inhabited : alias_ok 1 [82; 69; 76; 73; 67] /\ alias_ok 2 [115; 101; 99; 111; 110; 100] /\ alias_ok 3 [120].
Proof. exact alias_ok_relic. Qed.
Example nested_sig_like_name_is_kept : jar_keep_file [77; 69; 84; 65; 45; 73; 78; 70; 47; 116; 114; 117; 115; 116; 47; 99; 97; 46; 82; 83; 65] = true.
Proof. reflexivity. Qed.
