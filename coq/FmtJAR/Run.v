(* FmtJAR/Run.v — evaluation entry for the harness.  Input [kind args...]; digests come as a table [[alg preimage digest] ...] computed
   by the orchestrator (sha of candidate preimages), a preimage that is not in the table hashes to "?".
   kinds: 0 wrap [key value] | 1 parse [manifest] | 2 dump [main order files] | 3 digest_manifest [alg created_by so apk manifest tbl]
   | 4 verify_sigfile [sf manifest tbl] | 5 verify_manifest [manifest members tbl] | 6 update_manifest [alg order members tbl]
   | 7 names [name] | 8 sign+verify [alg keytype alias created_by so apk order members tbl blob] | 9 verify [skip members tbl cms_ok]
   | 10 sig_names [keytype alias] | 11 hash_by_name [name] *)
From Relic Require Import Base.Prelude Base.Val FmtJAR.Lib Generated.FmtJAR_gen FmtJAR.Model.

Definition st {A} (r : result A) : Z := match r with Ok _ => 0 | Err e => e | Panic p => 100 + p end.
Definition v_hdr (h : hdr) : val := VL (map (fun kv => VL [VB (fst kv); VB (snd kv)]) h).
Definition hdr_v (v : val) : hdr := map (fun x => (vb (vnth 0 x), vb (vnth 1 x))) (vl v).
Definition v_members (ms : list (bytes * bytes)) : val := VL (map (fun kv => VL [VB (fst kv); VB (snd kv)]) ms).
Definition tbl_H (t : val) (alg : Z) (pre : bytes) : bytes :=
  match find (fun e => (vz (vnth 0 e) =? alg) && bytes_eqb (vb (vnth 1 e)) pre) (vl t) with
  | Some e => vb (vnth 2 e)
  | None => [63]
  end.
Definition all_avail (a : Z) : bool := (2 <=? a) && (a <=? 7).
Definition v_res_bytes (r : result bytes) : val := VL [VZ (st r); VB (match r with Ok b => b | _ => [] end)].
Definition v_spec (o : option (list (list (bytes * bytes)))) : val :=
  match o with Some secs => VL [VZ 1; VL (map v_hdr secs)] | None => VL [VZ 0; VL []] end.

Definition run (v : val) : val :=
  let k := vz (vnth 0 v) in
  let a (n : Z) := vnth (Z.to_nat n) v in
  if k =? 0 then v_res_bytes (write_attr (vb (a 1)) (vb (a 2)))
  else if k =? 1 then
    let b := vb (a 1) in
    let pm := parse_manifest_m b in
    let sm := split_manifest b in
    VL [VZ (st pm);
        VZ (match pm with Ok (_, true) => 1 | _ => 0 end);
        match pm with
        | Ok (m, _) => VL [v_hdr (fm_main m); VL (map VB (fm_order m)); VL (map (fun nh => VL [VB (fst nh); v_hdr (snd nh)]) (fm_files m))]
        | _ => VL []
        end;
        v_spec (spec_read b);
        VL [VZ (st sm); VL (match sm with Ok (s, _) => map VB s | _ => [] end)];
        VL (map VB (spec_sections b));
        VZ (st (parse_manifest b))]
  else if k =? 2 then
    v_res_bytes (dump (mkFmap (hdr_v (a 1)) (map vb (vl (a 2))) (map (fun x => (vb (vnth 0 x), hdr_v (vnth 1 x))) (vl (a 3)))))
  else if k =? 3 then
    v_res_bytes (digest_manifest (tbl_H (a 6)) (vz (a 1)) (vb (a 2)) (vbool (a 3)) (vbool (a 4)) (vb (a 5)))
  else if k =? 4 then VL [VZ (st (verify_sigfile (tbl_H (a 3)) all_avail (vb (a 1)) (vb (a 2))))]
  else if k =? 5 then VL [VZ (st (verify_manifest (tbl_H (a 3)) all_avail (vb (a 1)) (hdr_v (a 2))))]
  else if k =? 6 then v_res_bytes (update_manifest (tbl_H (a 4)) (vz (a 1)) (map vb (vl (a 2))) (hdr_v (a 3)))
  else if k =? 7 then
    let n := vb (a 1) in
    let c := v_classify n in
    VL [of_bool (jar_keep_file n); VZ (fst c); VB (snd c); of_bool (spec_sig_related n); of_bool (jdk_sig_related n)]
  else if k =? 8 then
    let H := tbl_H (a 9) in
    let blob := vb (a 10) in
    let r := jar_sign H (vz (a 1)) (vz (a 2)) (vb (a 3)) (vb (a 4)) (vbool (a 5)) (vbool (a 6)) (map vb (vl (a 7))) (fun _ => blob) (hdr_v (a 8)) in
    match r with
    | Ok ms => VL [VZ 0; v_members ms; VZ (st (jar_verify H all_avail (fun _ _ => true) false ms))]
    | _ => VL [VZ (st r); VL []; VZ (-1)]
    end
  else if k =? 9 then
    let ok := vbool (a 4) in
    VL [VZ (st (jar_verify (tbl_H (a 3)) all_avail (fun _ _ => ok) (vbool (a 1)) (hdr_v (a 2))))]
  else if k =? 10 then
    let r := sig_names (vz (a 1)) (vb (a 2)) in VL [VB (fst r); VB (snd r)]
  else VL [VZ (hash_by_name (vb (a 1)))].
