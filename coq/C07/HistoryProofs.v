(* C07/HistoryProofs.v — lemmas behind the history theorems of C07/Properties.v *)
From Relic Require Import Base.Prelude Generated.C07_gen C07.Model C07.Proofs C07.History.

(* ------------------------------------------------------------------ reviewed state and data-flow facts *)
Lemma process_state_is_reviewed : process_state_reviewed = true.
Proof. vm_compute. reflexivity. Qed.
Lemma field_names : field_names_ok = true.
Proof. vm_compute. reflexivity. Qed.
Lemma initkey_shape : initkey_shape_ok = true.
Proof. vm_compute. reflexivity. Qed.
Lemma init_shape : init_shape_ok = true.
Proof. vm_compute. reflexivity. Qed.
Lemma callers_shape : callers_ok = true.
Proof. vm_compute. reflexivity. Qed.
Lemma filekey_shape : filekey_shape_ok = true.
Proof. vm_compute. reflexivity. Qed.
Lemma signer_certtypes : signer_certtypes_ok = true.
Proof. vm_compute. reflexivity. Qed.

(* ------------------------------------------------------------------ file token *)
Lemma tok_get_key_ok c w n k :
  tok_get_key c w n = Ok k ->
  cfg_get_key c n = Ok (tk_conf k) /\ spec_resolve c n = Some (tk_conf k) /\ kc_keyfile (tk_conf k) <> 0 /\
  w_key w (kc_keyfile (tk_conf k)) = Ok (tk_priv k, tk_blob k).
Proof.
  unfold tok_get_key. rewrite filekey_shape. cbn [negb filetoken_conf_by_name filetoken_reads_conf_keyfile]. unfold bind.
  destruct (cfg_get_key c n) as [kc|e|e] eqn:G; try discriminate. pose proof (cfg_get_key_resolves c n kc G) as [R _].
  destruct (kc_keyfile kc =? 0) eqn:F; [discriminate|]. destruct (w_key w (kc_keyfile kc)) as [[p b]|e|e] eqn:K; try discriminate.
  intro H. injection H as <-. cbn. repeat split; auto. apply Z.eqb_neq. exact F.
Qed.

Lemma tok_get_key_intro c w n kc p b :
  cfg_get_key c n = Ok kc -> kc_keyfile kc <> 0 -> w_key w (kc_keyfile kc) = Ok (p, b) -> tok_get_key c w n = Ok (mkTk kc p b).
Proof.
  intros G F K. unfold tok_get_key. rewrite filekey_shape. cbn [negb filetoken_conf_by_name filetoken_reads_conf_keyfile]. unfold bind.
  rewrite G. apply Z.eqb_neq in F. rewrite F, K. reflexivity.
Qed.

(* ------------------------------------------------------------------ token cache *)
(* a request is answered either from a live entry stored under the requested name, or by the token, NOW *)
Lemma hcache_get_key_cases base exp s n fresh wl ie :
  (exists k, hcache_find s n = Some k /\ fresh = true /\ hcache_get_key base exp s n fresh wl ie = (Ok k, s)) \/
  (fst (hcache_get_key base exp s n fresh wl ie) = base n /\
   (snd (hcache_get_key base exp s n fresh wl ie) = s \/
    exists k, base n = Ok k /\ snd (hcache_get_key base exp s n fresh wl ie) = (n, k) :: s)).
Proof.
  unfold hcache_get_key. cbn [tc_lookup_by_name tc_fetch_by_name]. unfold tc_entry_live. cbn [andb].
  destruct (hcache_find s n) as [k|] eqn:F.
  - destruct fresh; cbn [andb].
    + destruct (tc_id_acceptable wl ie).
      * left. exists k. auto.
      * right. destruct (base n) as [k'|e|e]; cbn [fst snd]; split; auto.
        destruct (tc_may_store exp wl && tc_stores_fetched_key); [right; eauto|left; reflexivity].
    + right. destruct (base n) as [k'|e|e]; cbn [fst snd]; split; auto.
      destruct (tc_may_store exp wl && tc_stores_fetched_key); [right; eauto|left; reflexivity].
  - right. destruct (base n) as [k'|e|e]; cbn [fst snd]; split; auto.
    destruct (tc_may_store exp wl && tc_stores_fetched_key); [right; eauto|left; reflexivity].
Qed.

(* an expired (or absent) entry is never used: the token is asked now *)
Lemma hcache_expired base exp s n wl ie : fst (hcache_get_key base exp s n false wl ie) = base n.
Proof.
  destruct (hcache_get_key_cases base exp s n false wl ie) as [(k & _ & F & _)|[H _]]; [discriminate|exact H].
Qed.

(* without an expiry nothing is ever stored *)
Lemma hcache_nocache base exp n fresh wl ie : exp <= 0 -> hcache_get_key base exp [] n fresh wl ie = (base n, []).
Proof.
  intro H. unfold hcache_get_key. cbn [tc_lookup_by_name tc_fetch_by_name hcache_find]. unfold tc_may_store.
  replace (exp >? 0) with false by lia. cbn [andb]. destruct (base n); reflexivity.
Qed.

(* ------------------------------------------------------------------ InitKey *)
Definition key_for (c : cfg) (exp : Z) (w : world) (s : hcache) (q : request) : result tkey :=
  fst (hcache_get_key (tok_get_key c w) exp s (q_name q) (q_fresh q) (q_want q) (q_ideq q)).
Definition cache_after (c : cfg) (exp : Z) (w : world) (s : hcache) (q : request) : hcache :=
  snd (hcache_get_key (tok_get_key c w) exp s (q_name q) (q_fresh q) (q_want q) (q_ideq q)).

Lemma init_key_h_eq c exp w s q :
  init_key_h c exp w s q =
  (k <- key_for c exp w s q ;;
   load_token_certs (tk_priv k) (path_bytes (kc_x509 (tk_conf k))) (w_x509 w (kc_x509 (tk_conf k))) (blob_bytes (tk_blob k)) (tk_blob k)
                    (path_bytes (kc_pgp (tk_conf k))) (w_pgp w (kc_pgp (tk_conf k))), cache_after c exp w s q).
Proof.
  unfold init_key_h, key_for, cache_after. rewrite initkey_shape. cbn [negb].
  destruct (hcache_get_key (tok_get_key c w) exp s (q_name q) (q_fresh q) (q_want q) (q_ideq q)) as [rk s']. reflexivity.
Qed.

Lemma path_bytes_nil f : path_bytes f = [] <-> f = 0.
Proof. unfold path_bytes. destruct (f =? 0) eqn:E; split; intro H; try discriminate; auto; [apply Z.eqb_eq; exact E|apply Z.eqb_neq in E; contradiction]. Qed.

(* every bundle InitKey returns was checked, in this invocation, against the key the token layer handed out in this
   invocation and against what the certificate sources hold now *)
Lemma init_key_h_ok c exp w s q b :
  fst (init_key_h c exp w s q) = Ok b ->
  exists k, key_for c exp w s q = Ok k /\ b_priv b = Some (tk_priv k) /\
    (forall l, b_leaf b = Some l ->
       same_key (KPriv (tk_priv k)) (KPub (c_pub l)) = true /\
       exists r, b_certs b = l :: r /\
         ((kc_x509 (tk_conf k) <> 0 /\ exists src, w_x509 w (kc_x509 (tk_conf k)) = Ok src /\ cs_certs src = l :: r) \/
          (kc_x509 (tk_conf k) = 0 /\ cs_certs (tk_blob k) = l :: r))) /\
    (forall e, b_pgp b = Some e ->
       same_key (KPriv (tk_priv k)) (KPub (en_pub e)) = true /\ kc_pgp (tk_conf k) <> 0 /\ w_pgp w (kc_pgp (tk_conf k)) = Ok [e]).
Proof.
  rewrite init_key_h_eq. cbn [fst]. unfold bind. destruct (key_for c exp w s q) as [k|e|e]; try discriminate.
  intro H. exists k. split; [reflexivity|]. apply load_token_certs_ok in H as (Hp & Hl & Hg). split; [exact Hp|]. split.
  - intros l Hleaf. destruct (Hl l Hleaf) as (S & r & Hc & Hsrc). split; [exact S|]. exists r. split; [exact Hc|].
    destruct Hsrc as [(Hne & src & Hf & Hs)|(He & Hs)].
    + left. split; [|eauto]. intro Z0. apply Hne. apply path_bytes_nil. exact Z0.
    + right. split; [apply path_bytes_nil; exact He|exact Hs].
  - intros e He. destruct (Hg e He) as (S & Hr & Hne). split; [exact S|]. split; [|exact Hr].
    intro Z0. apply Hne. apply path_bytes_nil. exact Z0.
Qed.

(* ------------------------------------------------------------------ Init *)
Lemma init_h_ok ct b b' :
  init_h ct b = Ok b' ->
  b' = b /\ (init_needs_x509 ct = true -> b_leaf b <> None) /\ (init_needs_pgp ct = true -> b_pgp b <> None).
Proof.
  unfold init_h. rewrite init_shape. cbn [negb]. unfold init_has_leaf, init_has_pgp.
  destruct (b_leaf b) as [l|]; destruct (b_pgp b) as [e|]; cbn [is_some];
    destruct (init_needs_x509 ct); destruct (init_needs_pgp ct); try discriminate;
    intro H; injection H as <-; repeat split; intro; discriminate.
Qed.

(* ------------------------------------------------------------------ signing sites: the shape of an output *)
Lemma emit_shape s key b m e l r :
  site_ok s = true -> b_priv b = Some key -> b_leaf b = Some l -> b_certs b = l :: r -> emit s b m = Ok e ->
  exists rr p, e = mkEm l (l :: rr) p (mkSig key m) /\ (p = c_pub l \/ p = k_pub key).
Proof.
  intros Hs Hp Hl Hc. destruct (chain_begins_with_leaf b l Hl) as [r' Hch].
  unfold site_ok in Hs. apply andb_true_iff in Hs as [Hs Hg]. apply andb_true_iff in Hs as [Hk Hcs].
  assert (K : key_of_class b (st_key s) = Some key) by (unfold key_of_class; rewrite Hk; exact Hp).
  assert (C : exists rr, certs_of_class b (st_certs s) = Some (l :: rr)).
  { unfold certs_of_class. apply orb_true_iff in Hcs as [Hcs|Hcs]; rewrite Hcs.
    - rewrite Hch. eauto.
    - destruct (st_certs s =? 2); [rewrite Hch|rewrite Hc]; eauto. }
  destruct C as [rr C]. unfold emit. rewrite K, C. destruct (st_guard s); cbn [bind].
  - destruct (fst (builder_sign key (l :: rr) m)) as [o|x|x] eqn:B; try discriminate.
    apply builder_sign_ok in B as (l1 & r1 & E1 & -> & _). injection E1 as <- <-. cbn. rewrite Z.eqb_refl. cbn.
    intro H. injection H as <-. eauto.
  - destruct (fst (xml_sign false key (l :: rr) m)) as [o|x|x] eqn:B; try discriminate.
    apply xml_sign_ok in B as (l1 & r1 & E1 & -> & _). injection E1 as <- <-. cbn.
    intro H. injection H as <-. eauto.
  - destruct (fst (xml_sign true key (l :: rr) m)) as [o|x|x] eqn:B; try discriminate.
    apply xml_sign_ok in B as (l1 & r1 & E1 & -> & _). injection E1 as <- <-. cbn.
    intro H. injection H as <-. eauto.
  - rewrite Hl. cbn [option_map]. destruct (st_pub s =? 0).
    + intro H. injection H as <-. eauto.
    + cbn [orb] in Hg. rewrite Hg. intro H. injection H as <-. eauto.
Qed.

Lemma site_in_ok s : In s sites -> site_ok s = true.
Proof. intro Hin. pose proof sites_all_ok as H. rewrite forallb_forall in H. apply H. exact Hin. Qed.

Lemma emit_pgp_shape cls b m e sg :
  emit_pgp cls b m = Ok (e, sg) -> exists k, b_pgp b = Some e /\ b_priv b = Some k /\ sg = mkSig k m.
Proof.
  unfold emit_pgp. destruct ((cls =? 5) || (cls =? 6)); [|discriminate].
  destruct (b_pgp b) as [e0|]; [|discriminate]. destruct (b_priv b) as [k|]; [|discriminate].
  intro H. injection H as <- <-. eauto.
Qed.

(* ------------------------------------------------------------------ one request *)
Definition req_wf (q : request) : Prop :=
  match q_signer q with
  | SgX509 st => In st sites /\ init_needs_x509 (q_ct q) = true
  | SgPgp cls => In cls pgp_sites /\ init_needs_pgp (q_ct q) = true
  end.

(* what an issued signature is, in terms of the key object k the token layer handed out for THIS request and the world
   at the time of THIS request *)
Definition issued_ok (w : world) (k : tkey) (m : Z) (o : outv) : Prop :=
  match o with
  | OX509 e =>
      exists l rr p r,
        e = mkEm l (l :: rr) p (mkSig (tk_priv k) m) /\ (p = c_pub l \/ p = k_pub (tk_priv k)) /\
        same_key (KPriv (tk_priv k)) (KPub (c_pub l)) = true /\
        ((kc_x509 (tk_conf k) <> 0 /\ exists src, w_x509 w (kc_x509 (tk_conf k)) = Ok src /\ cs_certs src = l :: r) \/
         (kc_x509 (tk_conf k) = 0 /\ cs_certs (tk_blob k) = l :: r))
  | OPgp en sg =>
      sg = mkSig (tk_priv k) m /\ same_key (KPriv (tk_priv k)) (KPub (en_pub en)) = true /\
      kc_pgp (tk_conf k) <> 0 /\ w_pgp w (kc_pgp (tk_conf k)) = Ok [en]
  end.

Lemma serve_eq c exp w s q :
  serve c exp w s q =
  (b <- fst (init_key_h c exp w s q) ;;
   b' <- init_h (q_ct q) b ;;
   match q_signer q with
   | SgX509 st => e <- emit st b' (q_msg q) ;; Ok (OX509 e)
   | SgPgp cls => es <- emit_pgp cls b' (q_msg q) ;; Ok (OPgp (fst es) (snd es))
   end, cache_after c exp w s q).
Proof.
  unfold serve. rewrite callers_shape. cbn [negb]. rewrite init_key_h_eq. reflexivity.
Qed.

Lemma serve_issue_checked c exp w s q o :
  fst (serve c exp w s q) = Ok o -> req_wf q ->
  exists k, key_for c exp w s q = Ok k /\ issued_ok w k (q_msg q) o.
Proof.
  rewrite serve_eq. cbn [fst]. unfold bind at 1.
  destruct (fst (init_key_h c exp w s q)) as [b|x|x] eqn:I; try discriminate.
  apply init_key_h_ok in I as (k & Hk & Hp & Hl & Hg).
  unfold bind at 1. destruct (init_h (q_ct q) b) as [b'|x|x] eqn:J; try discriminate.
  apply init_h_ok in J as (-> & Nx & Np). intros H Wf. exists k. split; [exact Hk|].
  unfold req_wf in Wf. destruct (q_signer q) as [st|cls].
  - destruct Wf as [Hin Hneed]. unfold bind in H. destruct (emit st b (q_msg q)) as [e|x|x] eqn:E; try discriminate.
    injection H as <-. destruct (b_leaf b) as [l|] eqn:L; [|exfalso; apply (Nx Hneed); reflexivity].
    destruct (Hl l eq_refl) as (S & r & Hc & Hsrc).
    destruct (emit_shape st (tk_priv k) b (q_msg q) e l r (site_in_ok st Hin) Hp L Hc E) as (rr & p & -> & Hpp).
    cbn. exists l, rr, p, r. auto.
  - destruct Wf as [Hin Hneed]. unfold bind in H. destruct (emit_pgp cls b (q_msg q)) as [[en sg]|x|x] eqn:E; try discriminate.
    injection H as <-. cbn [fst snd]. apply emit_pgp_shape in E as (k' & G & Hp' & ->). rewrite Hp in Hp'. injection Hp' as <-.
    destruct (Hg en G) as (S & Hne & Hr). cbn. auto.
Qed.

(* a configuration that is mismatched at the time of the request is refused, whatever happened before *)
Lemma serve_mismatch_refused c exp w s q k src l r :
  key_for c exp w s q = Ok k ->
  kc_x509 (tk_conf k) <> 0 -> w_x509 w (kc_x509 (tk_conf k)) = Ok src -> cs_bad src = false -> cs_certs src = l :: r ->
  same_key (KPriv (tk_priv k)) (KPub (c_pub l)) = false ->
  fst (serve c exp w s q) = Err E_MISMATCH.
Proof.
  intros Hk Hx Hf Hb Hc Hs. rewrite serve_eq, init_key_h_eq. cbn [fst]. rewrite Hk. cbn [bind].
  unfold load_token_certs. unfold path_bytes at 1. apply Z.eqb_neq in Hx. rewrite Hx.
  cbn [load_case_file bytes_eqb list_eqb negb load_case_file_fallthrough]. rewrite Hf. cbn [bind].
  rewrite (load_x509_err_when_unequal (tk_priv k) src l r Hb Hc Hs). reflexivity.
Qed.

Lemma serve_pgp_mismatch_refused c exp w s q k e :
  key_for c exp w s q = Ok k ->
  kc_x509 (tk_conf k) = 0 -> cs_certs (tk_blob k) = [] ->
  kc_pgp (tk_conf k) <> 0 -> w_pgp w (kc_pgp (tk_conf k)) = Ok [e] ->
  same_key (KPriv (tk_priv k)) (KPub (en_pub e)) = false ->
  fst (serve c exp w s q) = Err E_MISMATCH.
Proof.
  intros Hk Hx Hbl Hp Hf Hs. rewrite serve_eq, init_key_h_eq. cbn [fst]. rewrite Hk. cbn [bind].
  unfold load_token_certs. unfold path_bytes. rewrite Hx. apply Z.eqb_neq in Hp. rewrite Hp. cbn [Z.eqb].
  unfold blob_bytes. rewrite Hbl.
  cbn [load_case_file load_case_blob bytes_eqb list_eqb negb zlen length Z.of_nat Z.eqb bind load_has_pgp]. rewrite Hf. cbn [bind].
  cbn [load_pgp_count_bad zlen length Z.of_nat Pos.of_succ_nat Z.eqb Pos.eqb negb load_pgp_first_entity].
  unfold load_pgp_mismatch. rewrite Hs. reflexivity.
Qed.

(* ------------------------------------------------------------------ histories *)
Lemma run_req c exp w s q evs :
  run c exp w s (EReq q :: evs) = (w, s, q, fst (serve c exp w s q)) :: run c exp w (snd (serve c exp w s q)) evs.
Proof. cbn [run]. destruct (serve c exp w s q). reflexivity. Qed.
Lemma run_key c exp w s f v evs : run c exp w s (EKey f v :: evs) = run c exp (apply_event w (EKey f v)) s evs.
Proof. reflexivity. Qed.
Lemma run_x509 c exp w s f v evs : run c exp w s (EX509 f v :: evs) = run c exp (apply_event w (EX509 f v)) s evs.
Proof. reflexivity. Qed.
Lemma run_pgp c exp w s f v evs : run c exp w s (EPgp f v :: evs) = run c exp (apply_event w (EPgp f v)) s evs.
Proof. reflexivity. Qed.
Lemma serve_snd c exp w s q : snd (serve c exp w s q) = cache_after c exp w s q.
Proof. rewrite serve_eq. reflexivity. Qed.

Lemma run_inv c exp (P : world -> hcache -> request -> result outv -> Prop) :
  (forall w s q, P w s q (fst (serve c exp w s q))) ->
  forall evs w s w' s0 q r, In (w', s0, q, r) (run c exp w s evs) -> P w' s0 q r.
Proof.
  intros HP. induction evs as [|e evs IH]; intros w s w' s0 q r H; [contradiction|].
  destruct e as [f v|f v|f v|q0]; try (cbn [run] in H; eapply IH; exact H).
  rewrite run_req in H. destruct H as [H|H].
  - injection H as <- <- <- <-. apply HP.
  - eapply IH. exact H.
Qed.

(* every issuance of a history was checked against the key used for it and against the sources as they were then *)
Lemma history_issue_checked c exp evs w s w' s0 q o :
  In (w', s0, q, Ok o) (run c exp w s evs) -> req_wf q ->
  exists k, key_for c exp w' s0 q = Ok k /\ issued_ok w' k (q_msg q) o.
Proof.
  intros H Wf.
  exact (run_inv c exp (fun w s q r => forall o, r = Ok o -> req_wf q -> exists k, key_for c exp w s q = Ok k /\ issued_ok w k (q_msg q) o)
           (fun w1 s1 q1 o1 E => serve_issue_checked c exp w1 s1 q1 o1 E) evs w s w' s0 q (Ok o) H o eq_refl Wf).
Qed.

Definition out_curve_ok (o : outv) : Prop :=
  match o with
  | OX509 e => curve_ok (k_pub (s_key (em_sig e))) (c_pub (em_leaf e)) = true
  | OPgp en sg => curve_ok (k_pub (s_key sg)) (en_pub en) = true
  end.

Lemma issued_meets_spec w k m o : issued_ok w k m o -> out_curve_ok o -> spec_output_ok m o = true.
Proof.
  destruct o as [e|en sg]; cbn.
  - intros (l & rr & p & r & -> & Hp & S & _). cbn. intro Hc. pose proof (key_cert_equal (tk_priv k) (c_pub l) S Hc) as Heq.
    unfold vrfy. cbn. rewrite Heq, !Z.eqb_refl. cbn. destruct Hp as [->| ->]; [exact Heq|apply pub_eqb_refl].
  - intros (-> & S & _). cbn. intro Hc. pose proof (key_cert_equal (tk_priv k) (en_pub en) S Hc) as Heq.
    unfold vrfy. cbn. rewrite Heq, Z.eqb_refl. reflexivity.
Qed.

Lemma history_sound c exp evs w s w' s0 q o :
  In (w', s0, q, Ok o) (run c exp w s evs) -> req_wf q -> out_curve_ok o -> spec_output_ok (q_msg q) o = true.
Proof.
  intros H Wf Hc. destruct (history_issue_checked c exp evs w s w' s0 q o H Wf) as (k & _ & Hi).
  eapply issued_meets_spec; eauto.
Qed.

Lemma history_mismatch_refused c exp evs w s w' s0 q res k src l r :
  In (w', s0, q, res) (run c exp w s evs) ->
  key_for c exp w' s0 q = Ok k ->
  kc_x509 (tk_conf k) <> 0 -> w_x509 w' (kc_x509 (tk_conf k)) = Ok src -> cs_bad src = false -> cs_certs src = l :: r ->
  same_key (KPriv (tk_priv k)) (KPub (c_pub l)) = false ->
  res = Err E_MISMATCH.
Proof.
  intro H.
  exact (run_inv c exp (fun w s q r0 => forall k src l r, key_for c exp w s q = Ok k ->
    kc_x509 (tk_conf k) <> 0 -> w_x509 w (kc_x509 (tk_conf k)) = Ok src -> cs_bad src = false -> cs_certs src = l :: r ->
    same_key (KPriv (tk_priv k)) (KPub (c_pub l)) = false -> r0 = Err E_MISMATCH)
    (fun w1 s1 q1 k1 src1 l1 r1 => serve_mismatch_refused c exp w1 s1 q1 k1 src1 l1 r1) evs w s w' s0 q res H k src l r).
Qed.

(* the two rotations, for all keys, certificates, configurations, signers and first requests *)
Lemma key_rotation_refused c exp w name kc B blobB src l r q1 q2 :
  cfg_get_key c name = Ok kc -> kc_keyfile kc <> 0 -> kc_x509 kc <> 0 ->
  w_x509 w (kc_x509 kc) = Ok src -> cs_bad src = false -> cs_certs src = l :: r ->
  same_key (KPriv B) (KPub (c_pub l)) = false ->
  q_name q2 = name -> q_fresh q2 = false ->
  exists r1, map snd (run c exp w [] [EReq q1; EKey (kc_keyfile kc) (Ok (B, blobB)); EReq q2]) = [r1; Err E_MISMATCH].
Proof.
  intros G F X Hf Hb Hc Hs Hn Hfr. rewrite run_req, run_key. cbn [apply_event]. set (s1 := snd (serve c exp w [] q1)).
  set (w2 := mkWorld _ _ _). rewrite run_req. exists (fst (serve c exp w [] q1)). cbn [map snd run]. f_equal. f_equal.
  assert (K : key_for c exp w2 s1 q2 = Ok (mkTk kc B blobB)).
  { unfold key_for. rewrite Hfr, hcache_expired, Hn. apply tok_get_key_intro; [exact G|exact F|].
    subst w2. cbn [w_key]. unfold upd. rewrite Z.eqb_refl. reflexivity. }
  exact (serve_mismatch_refused c exp w2 s1 q2 (mkTk kc B blobB) src l r K X Hf Hb Hc Hs).
Qed.

Lemma cert_rotation_refused c exp w name kc A blobA src' l' r' q1 q2 :
  cfg_get_key c name = Ok kc -> kc_keyfile kc <> 0 -> kc_x509 kc <> 0 ->
  w_key w (kc_keyfile kc) = Ok (A, blobA) -> cs_bad src' = false -> cs_certs src' = l' :: r' ->
  same_key (KPriv A) (KPub (c_pub l')) = false ->
  q_name q2 = name -> q_fresh q2 = false ->
  exists r1, map snd (run c exp w [] [EReq q1; EX509 (kc_x509 kc) (Ok src'); EReq q2]) = [r1; Err E_MISMATCH].
Proof.
  intros G F X Hk Hb Hc Hs Hn Hfr. rewrite run_req, run_x509. cbn [apply_event]. set (s1 := snd (serve c exp w [] q1)).
  set (w2 := mkWorld _ _ _). rewrite run_req. exists (fst (serve c exp w [] q1)). cbn [map snd run]. f_equal. f_equal.
  assert (K : key_for c exp w2 s1 q2 = Ok (mkTk kc A blobA)).
  { unfold key_for. rewrite Hfr, hcache_expired, Hn. apply tok_get_key_intro; [exact G|exact F|]. subst w2. exact Hk. }
  assert (Hf : w_x509 w2 (kc_x509 (tk_conf (mkTk kc A blobA))) = Ok src').
  { subst w2. cbn [w_x509 tk_conf]. unfold upd. rewrite Z.eqb_refl. reflexivity. }
  exact (serve_mismatch_refused c exp w2 s1 q2 (mkTk kc A blobA) src' l' r' K X Hf Hb Hc Hs).
Qed.

(* with a live cache entry the OLD key may still be used after the key file was replaced; what is issued then still
   matches: the bundle is checked against the cached key (this is history_issue_checked); and the key always is one the
   token handed out for the requested name at some moment of the history *)
Fixpoint worlds (w : world) (evs : list event) : list world :=
  match evs with
  | [] => [w]
  | EReq _ :: r => worlds w r
  | e :: r => w :: worlds (apply_event w e) r
  end.
Lemma worlds_head w evs : In w (worlds w evs).
Proof. induction evs as [|e evs IH]; [left; reflexivity|]. destruct e; cbn; auto. Qed.

Definition prov (c : cfg) (ws : world -> Prop) (s : hcache) : Prop :=
  forall n k, hcache_find s n = Some k -> exists w, ws w /\ tok_get_key c w n = Ok k.

Lemma prov_step c exp (ws : world -> Prop) w s q :
  ws w -> prov c ws s ->
  prov c ws (cache_after c exp w s q) /\
  (forall k, key_for c exp w s q = Ok k -> exists w0, ws w0 /\ tok_get_key c w0 (q_name q) = Ok k).
Proof.
  intros Hw Hp. unfold cache_after, key_for.
  destruct (hcache_get_key_cases (tok_get_key c w) exp s (q_name q) (q_fresh q) (q_want q) (q_ideq q)) as [(k & F & _ & E)|[E1 E2]].
  - rewrite E. cbn [fst snd]. split; [exact Hp|]. intros k0 H0. injection H0 as <-. apply Hp. exact F.
  - rewrite E1. split.
    + destruct E2 as [->|(k & B & ->)]; [exact Hp|]. intros n k0 H0. cbn [hcache_find] in H0.
      destruct (q_name q =? n) eqn:En; [|apply Hp; exact H0]. apply Z.eqb_eq in En. subst n. injection H0 as <-. eauto.
    + intros k0 H0. eauto.
Qed.

Lemma history_key_provenance c exp evs w s (ws : world -> Prop) w' s0 q r :
  (forall x, In x (worlds w evs) -> ws x) -> prov c ws s ->
  In (w', s0, q, r) (run c exp w s evs) ->
  forall k, key_for c exp w' s0 q = Ok k -> exists w0, ws w0 /\ tok_get_key c w0 (q_name q) = Ok k.
Proof.
  revert w s. induction evs as [|e evs IH]; intros w s Hws Hp H; [contradiction|].
  destruct e as [f v|f v|f v|q0].
  - cbn [run] in H. eapply IH; [|exact Hp|exact H]. intros x Hx. apply Hws. cbn. right. exact Hx.
  - cbn [run] in H. eapply IH; [|exact Hp|exact H]. intros x Hx. apply Hws. cbn. right. exact Hx.
  - cbn [run] in H. eapply IH; [|exact Hp|exact H]. intros x Hx. apply Hws. cbn. right. exact Hx.
  - assert (Hw : ws w) by (apply Hws; apply worlds_head).
    destruct (prov_step c exp ws w s q0 Hw Hp) as [Hp' Hk].
    rewrite run_req in H. destruct H as [H|H].
    + injection H as <- <- <- <-. exact Hk.
    + rewrite serve_snd in H. eapply IH; [| |exact H].
      * intros x Hx. apply Hws. cbn. exact Hx.
      * exact Hp'.
Qed.

Lemma prov_empty c ws : prov c ws [].
Proof. intros n k H. discriminate. Qed.

(* without an expiry the cache stays empty: the key used is the one the key file holds at the time of the request *)
Lemma no_cache_stays_empty c exp evs w w' s0 q r :
  exp <= 0 -> In (w', s0, q, r) (run c exp w [] evs) -> s0 = [].
Proof.
  intro He. revert w. induction evs as [|e evs IH]; intros w H; [contradiction|].
  destruct e as [f v|f v|f v|q0]; try (cbn [run] in H; eapply IH; exact H).
  rewrite run_req in H. destruct H as [H|H].
  - injection H as _ <- _ _. reflexivity.
  - rewrite serve_snd in H. unfold cache_after in H. rewrite hcache_nocache in H by exact He. cbn [snd] in H. eapply IH. exact H.
Qed.
Lemma no_cache_current_key c exp evs w w' s0 q r :
  exp <= 0 -> In (w', s0, q, r) (run c exp w [] evs) -> key_for c exp w' s0 q = tok_get_key c w' (q_name q).
Proof.
  intros He H. rewrite (no_cache_stays_empty c exp evs w w' s0 q r He H). unfold key_for. rewrite hcache_nocache by exact He. reflexivity.
Qed.
