(* C07/Model.v — signatures only under a certificate that matches the key.  Executable definitions only.

   Faithful model (built from Generated/C07_gen.v wherever the Go code has a constant or a loop-free decision):
     same_key            lib/x509tools.SameKey
     parse_certs         lib/certloader.parseCertificates / parseCertificatesDer   (Leaf = certs[K])
     load_token_certs    lib/certloader.LoadTokenCertificates
     load_key_pair       lib/certloader.LoadX509KeyPair
     chain               Certificate.Chain
     builder_sign        lib/pkcs7.SignatureBuilder.Sign      (second guard)
     xml_sign            lib/xmldsig.Sign / SignEnveloping    (second guard)
     emit / sites        every signing site, described by where it takes the private key and the certificates from
     cfg_get_key, token_get_key, cache_get_key, init_key      key lookup (config alias, file token, tokencache, signinit.InitKey)

   The behaviour over HISTORIES inside one long-lived process (key file / certificate files replaced between requests,
   token cache, what survives a request) is modelled in C07/History.v on top of these definitions.

   Independent specification (written from the property statement, shares nothing with the above):
     pub_eqb, spec_same, spec_leaf_candidates, spec_load, spec_emitted, spec_resolve.

   Cryptography is symbolic: a signature value records which private key operated on which message; it verifies under
   a public key iff that is the public key determined by the private key (Base idealisation, see DESIGN 2.3). *)
From Relic Require Import Base.Prelude Generated.C07_gen.

(* ------------------------------------------------------------------ keys *)
Inductive pubk : Type :=
| PRsa (n e : Z)
| PEc (curve x y : Z)
| POther (id : Z).            (* any other key type (ed25519, ...) *)

Record priv : Type := mkPriv { k_id : Z; k_pub : pubk }.   (* a private key and the public key it determines *)

(* SameKey takes interface{} operands: a private key (crypto.Signer), a public key, or something else *)
Inductive keyish : Type := KPriv (k : priv) | KPub (p : pubk) | KJunk.

Definition zcmp (a b : Z) : Z := match a ?= b with Lt => -1 | Eq => 0 | Gt => 1 end.   (* big.Int.Cmp *)

Definition norm (on : bool) (k : keyish) : keyish :=
  if on then match k with KPriv p => KPub (k_pub p) | o => o end else k.
Definition type_code (k : keyish) : Z :=
  match k with KPub (PRsa _ _) => 1 | KPub (PEc _ _ _) => 2 | KPub (POther _) => 3 | KPriv _ => 4 | KJunk => 0 end.
Definition rsa_fields (k : keyish) : Z * Z := match k with KPub (PRsa n e) => (n, e) | _ => (0, 0) end.
Definition ec_fields (k : keyish) : Z * Z * Z := match k with KPub (PEc c x y) => (c, x, y) | _ => (0, 0, 0) end.
Definition has_case (c : Z) : bool := existsb (Z.eqb c) same_key_cases.

Definition same_key (a b : keyish) : bool :=
  let a := norm same_key_norm1 a in
  let b := norm same_key_norm2 b in
  match a with
  | KPub (PRsa n1 e1) =>
      if has_case 1 then
        let '(n2, e2) := rsa_fields b in same_key_rsa zcmp (type_code b =? same_key_rsa_other) n1 e1 n2 e2
      else same_key_default
  | KPub (PEc c1 x1 y1) =>
      if has_case 2 then
        let '(c2, x2, y2) := ec_fields b in same_key_ec zcmp (type_code b =? same_key_ec_other) c1 x1 y1 c2 x2 y2
      else same_key_default
  | _ => same_key_default
  end.

(* ---- independent spec: equality of public keys, as the property means it *)
Definition pub_eqb (p q : pubk) : bool :=
  match p, q with
  | PRsa n1 e1, PRsa n2 e2 => (n1 =? n2) && (e1 =? e2)
  | PEc c1 x1 y1, PEc c2 x2 y2 => (c1 =? c2) && (x1 =? x2) && (y1 =? y2)
  | POther a, POther b => a =? b
  | _, _ => false
  end.
Definition pub_of (k : keyish) : option pubk :=
  match k with KPriv p => Some (k_pub p) | KPub p => Some p | KJunk => None end.
Definition spec_same (a b : keyish) : bool :=
  match pub_of a, pub_of b with Some p, Some q => pub_eqb p q | _, _ => false end.
(* key types relic can sign with *)
Definition supported (p : pubk) : bool := match p with POther _ => false | _ => true end.
(* two EC keys with equal coordinates are on the same curve (true of every pair of keys that parse: the point is on the curve) *)
Definition curve_ok (p q : pubk) : bool :=
  match p, q with
  | PEc c1 x1 y1, PEc c2 x2 y2 => negb ((x1 =? x2) && (y1 =? y2)) || (c1 =? c2)
  | _, _ => true
  end.

(* ------------------------------------------------------------------ certificates and bundles *)
Record cert : Type := mkCert {
  c_id : Z;        (* identity of the parsed object (Go pointer); distinct per position in a file, >= 0 *)
  c_der : Z;       (* identity of the encoded certificate *)
  c_pub : pubk;
  c_subj : Z;
  c_iss : Z }.
Definition nil_cert : cert := mkCert (-1) (-1) (POther (-1)) (-1) (-2).

Record entity : Type := mkEnt { en_id : Z; en_pub : pubk }.   (* PGP certificate: fingerprint identity and primary key *)

Record bundle : Type := mkBundle {
  b_leaf : option cert;
  b_certs : list cert;
  b_pgp : option entity;        (* entity.PrivateKey = {PublicKey: *entity.PrimaryKey, PrivateKey: key} *)
  b_priv : option priv }.

Definition E_READ := 1.
Definition E_PARSE := 2.
Definition E_NOCERTS := 3.
Definition E_MISMATCH := 4.
Definition E_PGP_COUNT := 5.
Definition E_GUARD := 6.
Definition E_NOKEY := 7.
Definition E_ALIAS := 8.
Definition E_NOTOKEN := 9.
Definition E_NOKEYFILE := 10.

(* a certificate source as the parser sees it *)
Record certsrc : Type := mkSrc { cs_der : bool; cs_bad : bool; cs_certs : list cert }.

Definition parse_certs (s : certsrc) : result (cert * list cert) :=
  if cs_bad s then Err E_PARSE else
  match cs_certs s with
  | [] => Err E_NOCERTS
  | _ =>
      let idx := if cs_der s then parse_der_leaf_index else parse_pem_leaf_index in
      let whole := if cs_der s then parse_der_leaf_index_whole else parse_pem_leaf_index_whole in
      match nth_error (cs_certs s) (Z.to_nat idx) with
      | Some l => Ok (l, if whole then cs_certs s else [])
      | None => Panic 1
      end
  end.

Definition only_key (key : priv) : bundle := mkBundle None [] None (Some key).

Definition load_x509 (key : priv) (s : certsrc) : result bundle :=
  lc <- parse_certs s ;;
  let '(l, cs) := lc in
  if load_x509_mismatch same_key (KPriv key) (KPub (c_pub l)) then Err E_MISMATCH
  else Ok (mkBundle (Some l) cs None (if load_sets_private_key then Some key else None)).

(* x509cert / pgpcert: the configured paths (byte strings); file / ring: what reading+parsing them gives;
   x509contents / blob: the token-stored certificate bytes and what parsing them gives *)
Definition load_token_certs (key : priv) (x509cert : bytes) (file : result certsrc) (x509contents : bytes) (blob : certsrc)
           (pgpcert : bytes) (ring : result (list entity)) : result bundle :=
  b <- (if load_case_file x509cert then
          s <- file ;;
          if load_case_file_fallthrough then load_x509 key s else Panic 2     (* cert stays nil *)
        else if load_case_blob x509contents then load_x509 key blob
        else Ok (only_key key)) ;;
  if load_has_pgp pgpcert then
    r <- ring ;;
    if load_pgp_count_bad (zlen r) then Err E_PGP_COUNT else
    match r with
    | e :: _ =>
        if negb load_pgp_first_entity then Panic 3 else
        if load_pgp_mismatch same_key (KPriv key) (KPub (en_pub e)) then Err E_MISMATCH
        else Ok (mkBundle (b_leaf b) (b_certs b) (if load_sets_pgp_key then Some e else None) (b_priv b))
    | [] => Panic 4
    end
  else Ok b.

Definition load_key_pair (key : result priv) (s : result certsrc) : result bundle :=
  k <- key ;; s' <- s ;;
  lc <- parse_certs s' ;;
  let '(l, cs) := lc in
  if loadpair_mismatch same_key (KPriv k) (KPub (c_pub l)) then Err E_MISMATCH
  else Ok (mkBundle (Some l) cs None (Some k)).

(* ---- Chain() *)
Definition leaf_id (b : bundle) : Z := match b_leaf b with Some l => c_id l | None => -1 end.
Fixpoint chain_loop (i : Z) (lid : Z) (cs : list cert) : list cert :=
  match cs with
  | [] => []
  | c :: r =>
      if chain_skip_root i (c_iss c) (c_subj c) then chain_loop (i + 1) lid r
      else if chain_skip_leaf (c_id c) lid then chain_loop (i + 1) lid r
      else c :: chain_loop (i + 1) lid r
  end.
Definition chain (b : bundle) : list cert :=
  (match b_leaf b with
   | Some l => if chain_leaf_first true then [l] else []
   | None => if chain_leaf_first false then [nil_cert] else []
   end) ++ chain_loop 0 (leaf_id b) (b_certs b).

(* ------------------------------------------------------------------ symbolic signatures *)
Record sigv : Type := mkSig { s_key : priv; s_msg : Z }.
Definition vrfy (p : pubk) (m : Z) (s : sigv) : bool := pub_eqb p (k_pub (s_key s)) && (s_msg s =? m).

(* ---- pkcs7.SignatureBuilder.Sign: result and the list of private-key operations performed *)
Record p7out : Type := mkP7 {
  o_iss_of : cert;       (* certificate whose issuer the SignerInfo names *)
  o_ser_of : cert;       (* certificate whose serial the SignerInfo names *)
  o_certs : list cert;   (* embedded certificates, in order *)
  o_sig : sigv }.

Definition guard_first (order : list Z) : bool := list_eqb Z.eqb order [0; 1].
Definition guard_present (order : list Z) : bool := existsb (Z.eqb 0) order.
Definition signs (order : list Z) : bool := existsb (Z.eqb 1) order.
Definition nthc (certs : list cert) (i : Z) : cert := nth (Z.to_nat i) certs nil_cert.

Definition builder_sign (key : priv) (certs : list cert) (m : Z) : result p7out * list sigv :=
  let pubkey := if builder_pub_from_signer then KPub (k_pub key) else KJunk in
  let refuse := guard_present builder_call_order && builder_refuses same_key (zlen certs) pubkey (KPub (c_pub (nthc certs 0))) in
  let op := if signs builder_call_order && builder_signs_with_own_key then [mkSig key m] else [] in
  if guard_first builder_call_order && refuse then (Err E_GUARD, [])
  else if refuse then (Err E_GUARD, op)
  else
    let i1 := nth 1 builder_cert_indexes (-1) in
    let i2 := nth 2 builder_cert_indexes (-1) in
    if (i1 <? 0) || (i2 <? 0) || (zlen certs <=? i1) || (zlen certs <=? i2) then (Panic 5, op)
    else match op with
         | s :: _ => (Ok (mkP7 (nthc certs i1) (nthc certs i2) certs s), op)
         | [] => (Panic 6, op)
         end.

(* ---- xmldsig.Sign (env=false) / SignEnveloping (env=true) *)
Record xmlout : Type := mkXml { x_certs : list cert; x_keyvalue : pubk; x_sig : sigv }.
Definition xml_sign (env : bool) (key : priv) (certs : list cert) (m : Z) : result xmlout * list sigv :=
  let from_signer := if env then xmldsig_env_pub_from_signer else xmldsig_sign_pub_from_signer in
  let order := if env then xmldsig_env_call_order else xmldsig_sign_call_order in
  let pubkey := if from_signer then KPub (k_pub key) else KJunk in
  let refuses := if env then xmldsig_env_refuses same_key (zlen certs) pubkey (KPub (c_pub (nthc certs 0)))
                 else xmldsig_sign_refuses same_key (zlen certs) pubkey (KPub (c_pub (nthc certs 0))) in
  let refuse := guard_present order && refuses in
  let op := if signs order && existsb (Z.eqb 0) xmldsig_finish_calls then [mkSig key m] else [] in
  if guard_first order && refuse then (Err E_GUARD, [])
  else if refuse then (Err E_GUARD, op)
  else match op with
       | s :: _ => (Ok (mkXml (if existsb (Z.eqb 1) xmldsig_finish_calls then certs else []) (k_pub key) s), op)
       | [] => (Panic 6, op)
       end.

(* ------------------------------------------------------------------ signing sites *)
Inductive guardk : Type := GBuilder | GXmlSign | GXmlEnv | GNone.
Record site : Type := mkSite { st_id : Z; st_guard : guardk; st_key : Z; st_certs : Z; st_pub : Z }.

Definition key_of_class (b : bundle) (cls : Z) : option priv :=
  if (cls =? 1) || (cls =? 9) then b_priv b else None.
Definition certs_of_class (b : bundle) (cls : Z) : option (list cert) :=
  if cls =? 2 then Some (chain b) else if cls =? 3 then Some (b_certs b) else None.

(* what a verifier finds in the output: the certificate named as signer, the embedded chain, the public key stated
   beside the signature (APK v2 only; otherwise the signer certificate's), the signature value *)
Record emitted : Type := mkEm { em_leaf : cert; em_chain : list cert; em_pub : pubk; em_sig : sigv }.

Definition emit (s : site) (b : bundle) (m : Z) : result emitted :=
  match key_of_class b (st_key s), certs_of_class b (st_certs s) with
  | Some k, Some cs =>
      match st_guard s with
      | GBuilder =>
          o <- fst (builder_sign k cs m) ;;
          if negb (c_id (o_iss_of o) =? c_id (o_ser_of o)) then Panic 7
          else Ok (mkEm (o_iss_of o) (o_certs o) (c_pub (o_iss_of o)) (o_sig o))
      | GXmlSign => o <- fst (xml_sign false k cs m) ;; Ok (mkEm (nthc (x_certs o) 0) (x_certs o) (x_keyvalue o) (x_sig o))
      | GXmlEnv => o <- fst (xml_sign true k cs m) ;; Ok (mkEm (nthc (x_certs o) 0) (x_certs o) (x_keyvalue o) (x_sig o))
      | GNone =>
          match cs with
          | [] => Err E_NOCERTS
          | l :: _ =>
              let p := if st_pub s =? 0 then Some (c_pub l)
                       else if (st_pub s =? 7) || (st_pub s =? 8) then option_map c_pub (b_leaf b) else None in
              match p with Some p => Ok (mkEm l cs p (mkSig k m)) | None => Panic 8 end
          end
      end
  | _, _ => Panic 9
  end.

Definition sites : list site := [
  mkSite 1 GBuilder (nth 0 site_authenticode 0) (nth 1 site_authenticode 0) 0;
  mkSite 2 GBuilder (nth 0 site_catalog 0) (nth 1 site_catalog 0) 0;
  mkSite 3 GBuilder (nth 0 site_cat 0) (nth 1 site_cat 0) 0;
  mkSite 4 GBuilder (nth 0 site_jar 0) (nth 1 site_jar 0) 0;
  mkSite 5 GBuilder (nth 0 site_csblob 0) (nth 1 site_csblob 0) 0;
  mkSite 6 GBuilder (nth 0 site_xar_cms 0) (nth 1 site_xar_cms 0) 0;
  mkSite 7 GNone (nth 0 site_xar_classic_key 0) (nth 0 site_xar_certs 0) 0;
  mkSite 8 GXmlSign (nth 0 site_appmanifest 0) (nth 1 site_appmanifest 0) 0;
  mkSite 9 GXmlSign (nth 2 site_appmanifest 0) (nth 3 site_appmanifest 0) 0;
  mkSite 10 GXmlEnv (nth 0 site_vsix 0) (nth 1 site_vsix 0) 0;
  mkSite 11 GNone (nth 0 site_apk_key 0) site_apk_certs site_apk_pubkey;
  mkSite 12 GNone (nth 0 site_cosign_key 0) site_cosign_certs 0 ].
(* every site table has exactly the expected number of calls (a second, unmodelled signing call changes the shape) *)
Definition sites_shape_ok : bool :=
  forallb (fun l => zlen l =? 2) [site_authenticode; site_catalog; site_cat; site_jar; site_csblob; site_xar_cms; site_vsix]
  && (zlen site_appmanifest =? 4)
  && forallb (fun l => zlen l =? 1) [site_xar_classic_key; site_xar_certs; site_apk_key; site_cosign_key; site_pgp; site_deb; site_rpm].

(* PGP sites (pgp, deb, rpm): the signature is made with entity.PrivateKey.PrivateKey (= the token key) and names the
   entity's primary key as issuer *)
Definition pgp_sites : list Z := [nth 0 site_pgp 0; nth 0 site_deb 0; nth 0 site_rpm 0].
Definition emit_pgp (cls : Z) (b : bundle) (m : Z) : result (entity * sigv) :=
  if (cls =? 5) || (cls =? 6) then
    match b_pgp b, b_priv b with
    | Some e, Some k => Ok (e, mkSig k m)
    | _, _ => Panic 9
    end
  else Panic 10.

(* ---- spec of an emitted signature, from the property statement *)
Definition spec_emitted (key : priv) (m : Z) (e : emitted) : bool :=
  pub_eqb (c_pub (em_leaf e)) (k_pub key)                      (* the leaf corresponds to the private key *)
  && match em_chain e with c :: _ => c_id c =? c_id (em_leaf e) | [] => false end   (* the chain begins with the leaf *)
  && vrfy (c_pub (em_leaf e)) m (em_sig e)                      (* the value verifies under the leaf's key *)
  && pub_eqb (em_pub e) (k_pub key).

(* spec of the loader: a bundle may only come back when its leaf is a certificate of the file for this key; when no
   certificate of the file is for this key the result must be an error *)
Definition spec_load (key : priv) (file : list cert) (r : result bundle) : bool :=
  match r with
  | Ok b =>
      match b_leaf b with
      | Some l => pub_eqb (c_pub l) (k_pub key) && existsb (fun c => c_id c =? c_id l) file
                  && match chain b with c :: _ => c_id c =? c_id l | [] => false end
                  && match b_priv b with Some k => k_id k =? k_id key | None => false end
      | None => false
      end
  | Err _ => true
  | Panic _ => false
  end.
Definition spec_must_fail (key : priv) (file : list cert) : bool :=
  negb (existsb (fun c => pub_eqb (c_pub c) (k_pub key)) file).

(* ------------------------------------------------------------------ key lookup *)
Record keyconf : Type := mkKc { kc_name : Z; kc_alias : Z; kc_token : Z; kc_keyfile : Z; kc_x509 : Z; kc_pgp : Z }.
(* names/paths are positive numbers; 0 = unset *)
Definition cfg := list keyconf.
Fixpoint cfg_find (c : cfg) (n : Z) : option keyconf :=
  match c with [] => None | k :: r => if kc_name k =? n then Some k else cfg_find r n end.

Definition cfg_get_key (c : cfg) (name : Z) : result keyconf :=
  match cfg_find c name with
  | None => if cfg_missing false then Err E_NOKEY else Panic 11
  | Some kc =>
      if cfg_missing true then Err E_NOKEY else
      kc' <- (if cfg_follow_alias (negb (kc_alias kc =? 0)) then
                if cfg_alias_one_level then
                  match cfg_find c (kc_alias kc) with
                  | Some t => if cfg_alias_chain_refused (negb (kc_alias t =? 0)) then Err E_ALIAS else Ok t     (* an alias of an alias *)
                  | None => Err E_ALIAS
                  end
                else Ok kc
              else Ok kc) ;;
      if kc_token kc' =? 0 then Err E_NOTOKEN else Ok kc'
  end.

(* file token: the key object remembers the configuration it was found under and the private key read from its KeyFile *)
Record fkey : Type := mkFk { fk_conf : keyconf; fk_priv : priv }.
Definition token_get_key (c : cfg) (keyfiles : Z -> result priv) (name : Z) : result fkey :=
  kc <- (if filetoken_conf_by_name then cfg_get_key c name else Panic 12) ;;
  if kc_keyfile kc =? 0 then Err E_NOKEYFILE else
  p <- (if filetoken_reads_conf_keyfile then keyfiles (kc_keyfile kc) else Panic 12) ;;
  Ok (mkFk kc p).

(* tokencache: entries by requested name; fresh / want_len / ids_equal are inputs (clock and caller's key id) *)
Definition cache := list (Z * fkey).
Fixpoint cache_find (s : cache) (n : Z) : option fkey :=
  match s with [] => None | (k, v) :: r => if k =? n then Some v else cache_find r n end.
Definition cache_get_key (base : Z -> result fkey) (expiry : Z) (s : cache) (name : Z) (fresh : bool) (want_len : Z) (ids_equal : bool)
  : result fkey * cache :=
  let cached := if tc_lookup_by_name then cache_find s name else None in
  let hit := match cached with
             | Some k => if tc_entry_live true fresh && tc_id_acceptable want_len ids_equal then Some k else None
             | None => None end in
  match hit with
  | Some k => (Ok k, s)
  | None =>
      match (if tc_fetch_by_name then base name else Panic 13) with
      | Ok k => (Ok k, if tc_may_store expiry want_len then (name, k) :: s else s)
      | e => (e, s)
      end
  end.

(* signinit.InitKey through a token: which private key and which certificate files end up in the bundle *)
Definition init_key (getkey : Z -> result fkey) (x509files : Z -> result certsrc) (pgpfiles : Z -> result (list entity)) (name : Z)
  : result bundle :=
  k <- (if initkey_key_by_name then getkey name else Panic 14) ;;
  if negb (initkey_conf_from_key && list_eqb Z.eqb initkey_args [1; 2; 3; 4]) then Panic 15 else
  let kc := fk_conf k in
  load_token_certs (fk_priv k) (if kc_x509 kc =? 0 then [] else [1]) (x509files (kc_x509 kc)) [] (mkSrc true false [])
                   (if kc_pgp kc =? 0 then [] else [1]) (pgpfiles (kc_pgp kc)).

(* spec of name resolution, from the configuration documentation: a key section is used as is, unless it is an alias,
   in which case the section it names is used *)
Definition spec_resolve (c : cfg) (name : Z) : option keyconf :=
  match cfg_find c name with
  | Some kc => if kc_alias kc =? 0 then Some kc else cfg_find c (kc_alias kc)
  | None => None
  end.

(* ------------------------------------------------------------------ the whole X.509 signing flow of one request *)
Definition sign_x509 (key : priv) (s : certsrc) (st : site) (m : Z) : result emitted :=
  b <- load_x509 key s ;; emit st b m.
