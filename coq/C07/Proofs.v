(* C07/Proofs.v — lemmas behind C07/Properties.v *)
From Relic Require Import Base.Prelude Generated.C07_gen C07.Model.

Lemma zcmp_eq0 a b : (zcmp a b =? 0) = true <-> a = b.
Proof.
  unfold zcmp. destruct (a ?= b) eqn:E; split; intro H; try discriminate; try reflexivity.
  - apply Z.compare_eq in E. exact E.
  - subst. rewrite Z.compare_refl in E. discriminate.
  - subst. rewrite Z.compare_refl in E. discriminate.
Qed.

Lemma pub_eqb_eq p q : pub_eqb p q = true <-> p = q.
Proof.
  destruct p, q; cbn; split; intro H; try discriminate; try congruence.
  - apply andb_true_iff in H as [A B]. apply Z.eqb_eq in A, B. congruence.
  - inversion H; subst. rewrite !Z.eqb_refl. reflexivity.
  - apply andb_true_iff in H as [A C]. apply andb_true_iff in A as [A B]. apply Z.eqb_eq in A, B, C. congruence.
  - inversion H; subst. rewrite !Z.eqb_refl. reflexivity.
  - apply Z.eqb_eq in H. congruence.
  - inversion H; subst. apply Z.eqb_refl.
Qed.
Lemma pub_eqb_refl p : pub_eqb p p = true.
Proof. apply pub_eqb_eq. reflexivity. Qed.
Lemma pub_eqb_sym p q : pub_eqb p q = pub_eqb q p.
Proof.
  destruct (pub_eqb p q) eqn:E.
  - apply pub_eqb_eq in E. subst. symmetry. apply pub_eqb_refl.
  - destruct (pub_eqb q p) eqn:F; [|reflexivity]. apply pub_eqb_eq in F. subst. rewrite pub_eqb_refl in E. discriminate.
Qed.

(* ------------------------------------------------------------------ SameKey *)
(* what a true answer of SameKey means on public keys *)
Lemma same_key_pub_sound p q :
  same_key (KPub p) (KPub q) = true -> supported p = true /\ (curve_ok p q = true -> p = q).
Proof.
  unfold same_key, norm, has_case. cbn [same_key_norm1 same_key_norm2 same_key_cases existsb Z.eqb orb].
  destruct p as [n1 e1|c1 x1 y1|i1]; cbn.
  - destruct q as [n2 e2|c2 x2 y2|i2]; cbn; unfold same_key_rsa; cbn; try discriminate.
    intro H. apply andb_true_iff in H as [H1 H2]. apply Z.eqb_eq in H1. apply zcmp_eq0 in H2. subst. auto.
  - destruct q as [n2 e2|c2 x2 y2|i2]; cbn; unfold same_key_ec; cbn; try discriminate.
    intro H. apply andb_true_iff in H as [H1 H2]. apply zcmp_eq0 in H1, H2. subst. split; [reflexivity|].
    rewrite !Z.eqb_refl. cbn. intro Hc. apply Z.eqb_eq in Hc. subst. reflexivity.
  - unfold same_key_default. discriminate.
Qed.

Lemma same_key_norm a b : same_key a b = match pub_of a, pub_of b with
                                         | Some p, Some q => same_key (KPub p) (KPub q)
                                         | _, _ => false end.
Proof.
  destruct a as [ka|pa|], b as [kb|pb|]; try reflexivity.
  - unfold same_key, norm. cbn [same_key_norm1 same_key_norm2 pub_of]. destruct (k_pub ka); reflexivity.
  - unfold same_key, norm. cbn [same_key_norm1 same_key_norm2 pub_of]. destruct pa; reflexivity.
Qed.

Lemma same_key_sound a b :
  same_key a b = true ->
  exists p q, pub_of a = Some p /\ pub_of b = Some q /\ supported p = true /\ (curve_ok p q = true -> p = q).
Proof.
  rewrite same_key_norm. destruct (pub_of a) as [p|]; [|discriminate]. destruct (pub_of b) as [q|]; [|discriminate].
  intro H. apply same_key_pub_sound in H as [H1 H2]. exists p, q. auto.
Qed.

Lemma same_key_complete a b p :
  pub_of a = Some p -> pub_of b = Some p -> supported p = true -> same_key a b = true.
Proof.
  intros Ha Hb Hs. rewrite same_key_norm, Ha, Hb.
  unfold same_key, norm, has_case. cbn [same_key_norm1 same_key_norm2 same_key_cases existsb Z.eqb orb].
  destruct p as [n e|c x y|i]; cbn in *; try discriminate.
  - unfold same_key_rsa. cbn. rewrite Z.eqb_refl. cbn. apply zcmp_eq0. reflexivity.
  - unfold same_key_ec. cbn. apply andb_true_iff. split; apply zcmp_eq0; reflexivity.
Qed.

Lemma same_key_agrees_with_spec a b :
  (forall p q, pub_of a = Some p -> pub_of b = Some q -> curve_ok p q = true /\ supported p = true) ->
  same_key a b = spec_same a b.
Proof.
  intro H. unfold spec_same. destruct (same_key a b) eqn:E.
  - apply same_key_sound in E as (p & q & Ha & Hb & _ & Hc). rewrite Ha, Hb. destruct (H p q Ha Hb) as [Hk _].
    rewrite (Hc Hk). symmetry. apply pub_eqb_refl.
  - destruct (pub_of a) as [p|] eqn:Ha; [|reflexivity]. destruct (pub_of b) as [q|] eqn:Hb; [|reflexivity].
    destruct (pub_eqb p q) eqn:F; [|reflexivity]. apply pub_eqb_eq in F. subst q.
    destruct (H p p eq_refl eq_refl) as [_ Hs]. rewrite (same_key_complete a b p Ha Hb Hs) in E. discriminate.
Qed.

(* the comparison ignores the curve: faithful model violates the full statement on keys that cannot both be valid *)
Lemma same_key_ignores_curve :
  exists a b, same_key a b = true /\ spec_same a b = false.
Proof. exists (KPub (PEc 1 5 7)), (KPub (PEc 2 5 7)). split; reflexivity. Qed.

(* ------------------------------------------------------------------ parsing and loading *)
Lemma parse_certs_leaf_first s l cs :
  parse_certs s = Ok (l, cs) -> cs = cs_certs s /\ exists r, cs_certs s = l :: r.
Proof.
  unfold parse_certs. destruct (cs_bad s); [discriminate|]. destruct (cs_certs s) as [|c0 r] eqn:E; [discriminate|].
  destruct (cs_der s); cbn; intro H; inversion H; subst; split; eauto.
Qed.

Lemma load_x509_ok key s b :
  load_x509 key s = Ok b ->
  exists l r, cs_certs s = l :: r /\ b = mkBundle (Some l) (l :: r) None (Some key) /\
              same_key (KPriv key) (KPub (c_pub l)) = true.
Proof.
  unfold load_x509, bind. destruct (parse_certs s) as [[l cs]|e|e] eqn:P; try discriminate.
  apply parse_certs_leaf_first in P as [-> [r Hr]].
  unfold load_x509_mismatch. destruct (same_key (KPriv key) (KPub (c_pub l))) eqn:S; cbn; [|discriminate].
  intro H. inversion H; subst. exists l, r. rewrite Hr. cbn [load_sets_private_key]. auto.
Qed.

Lemma load_x509_err_when_unequal key s l r :
  cs_bad s = false -> cs_certs s = l :: r -> same_key (KPriv key) (KPub (c_pub l)) = false ->
  load_x509 key s = Err E_MISMATCH.
Proof.
  intros Hb Hc Hs. unfold load_x509, bind, parse_certs. rewrite Hb, Hc.
  destruct (cs_der s); cbn; unfold load_x509_mismatch; rewrite Hs; reflexivity.
Qed.

(* LoadTokenCertificates: shape of every successful result *)
Lemma load_token_certs_ok key xc file xb blob pc ring b :
  load_token_certs key xc file xb blob pc ring = Ok b ->
  b_priv b = Some key /\
  (forall l, b_leaf b = Some l ->
     same_key (KPriv key) (KPub (c_pub l)) = true /\
     exists r, b_certs b = l :: r /\
       ((xc <> [] /\ exists s, file = Ok s /\ cs_certs s = l :: r) \/ (xc = [] /\ cs_certs blob = l :: r))) /\
  (forall e, b_pgp b = Some e ->
     same_key (KPriv key) (KPub (en_pub e)) = true /\ ring = Ok [e] /\ pc <> []).
Proof.
  unfold load_token_certs. unfold bind at 1.
  set (first := if load_case_file xc then _ else _).
  destruct first as [b0|e|e] eqn:F; try discriminate.
  assert (H0 : b_priv b0 = Some key /\ b_pgp b0 = None /\
               (forall l, b_leaf b0 = Some l ->
                  same_key (KPriv key) (KPub (c_pub l)) = true /\
                  exists r, b_certs b0 = l :: r /\
                    ((xc <> [] /\ exists s, file = Ok s /\ cs_certs s = l :: r) \/ (xc = [] /\ cs_certs blob = l :: r)))).
  { subst first. unfold load_case_file, load_case_blob in F.
    destruct xc as [|x xc']; cbn in F.
    - destruct (zlen xb =? 0); cbn in F.
      + inversion F; subst. cbn. split; [reflexivity|split; [reflexivity|]]. intros l0 Hl0. discriminate.
      + apply load_x509_ok in F as (l0 & r0 & Hc & -> & Hs). cbn. split; [reflexivity|split; [reflexivity|]].
        intros l' Hl0. inversion Hl0; subst. split; [exact Hs|]. exists r0. split; [reflexivity|]. right. auto.
    - unfold bind in F. destruct file as [s|e|e]; try discriminate. cbn [load_case_file_fallthrough] in F.
      apply load_x509_ok in F as (l0 & r0 & Hc & -> & Hs). cbn. split; [reflexivity|split; [reflexivity|]].
      intros l' Hl0. inversion Hl0; subst. split; [exact Hs|]. exists r0. split; [reflexivity|]. left. split; [discriminate|].
      exists s. auto. }
  destruct H0 as (Hp & Hg & Hl).
  unfold load_has_pgp. destruct pc as [|pc0 pc']; cbn.
  - intro H. inversion H; subst. split; [exact Hp|]. split; [exact Hl|]. intros e He. congruence.
  - unfold bind. destruct ring as [r|e|e]; try discriminate.
    unfold load_pgp_count_bad. destruct (zlen r =? 1) eqn:Hn; cbn; [|discriminate].
    destruct r as [|e0 r']; [discriminate|]. cbn [load_pgp_first_entity negb].
    unfold load_pgp_mismatch. destruct (same_key (KPriv key) (KPub (en_pub e0))) eqn:S; cbn; [|discriminate].
    intro H. inversion H; subst. cbn. split; [exact Hp|]. split; [exact Hl|].
    intros e He. inversion He; subst. split; [exact S|]. split; [|discriminate].
    apply Z.eqb_eq in Hn. rewrite zlen_cons in Hn. destruct r'; [reflexivity|]. rewrite zlen_cons in Hn.
    pose proof (zlen_nonneg r'). lia.
Qed.

Lemma key_cert_equal key p :
  same_key (KPriv key) (KPub p) = true -> curve_ok (k_pub key) p = true -> pub_eqb p (k_pub key) = true.
Proof.
  intros H Hc. apply same_key_sound in H as (a & b & Ha & Hb & _ & Heq). cbn in Ha, Hb. inversion Ha; inversion Hb; subst.
  rewrite (Heq Hc). apply pub_eqb_refl.
Qed.

(* ------------------------------------------------------------------ Chain *)
Lemma chain_begins_with_leaf b l : b_leaf b = Some l -> exists r, chain b = l :: r.
Proof. unfold chain. intros ->. cbn. eauto. Qed.

Lemma chain_loop_incl i lid cs c : In c (chain_loop i lid cs) -> In c cs.
Proof.
  revert i. induction cs as [|x cs IH]; intros i H; cbn in *; [exact H|].
  destruct (chain_skip_root i (c_iss x) (c_subj x)); [right; eauto|].
  destruct (chain_skip_leaf (c_id x) lid); [right; eauto|].
  destruct H as [H|H]; [left; exact H|right; eauto].
Qed.
Lemma chain_incl b c : In c (chain b) -> b_leaf b = Some c \/ In c (b_certs b).
Proof.
  unfold chain. intro H. apply in_app_or in H as [H|H].
  - destruct (b_leaf b) as [l|]; cbn in H; [|contradiction]. destruct H as [H|[]]. left. congruence.
  - right. eapply chain_loop_incl. exact H.
Qed.
(* the leaf object occurs exactly once (at the head) *)
Lemma chain_loop_no_leaf i lid cs c : In c (chain_loop i lid cs) -> c_id c <> lid.
Proof.
  revert i. induction cs as [|x cs IH]; intros i H; cbn in *; [contradiction|].
  destruct (chain_skip_root i (c_iss x) (c_subj x)); [eauto|].
  unfold chain_skip_leaf in *. destruct (c_id x =? lid) eqn:E; [eauto|].
  destruct H as [H|H]; [subst; apply Z.eqb_neq; exact E|eauto].
Qed.
(* every non-leaf certificate that is not self-signed is kept, in file order *)
Lemma chain_loop_keeps i lid cs c :
  In c cs -> c_iss c <> c_subj c -> c_id c <> lid -> In c (chain_loop i lid cs).
Proof.
  revert i. induction cs as [|x cs IH]; intros i H Hs Hl; cbn in *; [contradiction|].
  destruct H as [H|H].
  - subst x. unfold chain_skip_root, chain_skip_leaf. apply Z.eqb_neq in Hs, Hl. rewrite Hs, Hl, andb_false_r. left. reflexivity.
  - destruct (chain_skip_root i (c_iss x) (c_subj x)); [eauto|]. destruct (chain_skip_leaf (c_id x) lid); [eauto|]. right. eauto.
Qed.

(* ------------------------------------------------------------------ second guards *)
Lemma nthc_0 c r : nthc (c :: r) 0 = c.
Proof. reflexivity. Qed.

Lemma builder_sign_ok key certs m o :
  fst (builder_sign key certs m) = Ok o ->
  exists l r, certs = l :: r /\ o = mkP7 l l certs (mkSig key m) /\ same_key (KPub (k_pub key)) (KPub (c_pub l)) = true.
Proof.
  unfold builder_sign. cbn [builder_pub_from_signer builder_call_order guard_first guard_present signs existsb list_eqb Z.eqb andb orb
                            builder_signs_with_own_key builder_cert_indexes nth].
  unfold builder_refuses. destruct certs as [|l r].
  - cbn. discriminate.
  - rewrite nthc_0. rewrite zlen_cons. pose proof (zlen_nonneg r) as Hnn.
    replace (1 + zlen r <? 1) with false by lia. cbn [orb].
    destruct (same_key (KPub (k_pub key)) (KPub (c_pub l))) eqn:S; cbn [negb fst]; [|discriminate].
    replace (1 + zlen r <=? 0) with false by lia. cbn. intro H. inversion H; subst. exists l, r. auto.
Qed.

Lemma builder_refusal_clean key certs m e :
  fst (builder_sign key certs m) = Err e -> snd (builder_sign key certs m) = [].
Proof.
  unfold builder_sign. cbn [builder_pub_from_signer builder_call_order guard_first guard_present signs existsb list_eqb Z.eqb andb orb
                            builder_signs_with_own_key builder_cert_indexes nth].
  destruct (builder_refuses same_key (zlen certs) (KPub (k_pub key)) (KPub (c_pub (nthc certs 0)))); cbn; [reflexivity|].
  destruct ((zlen certs <=? 0) || (zlen certs <=? 0)); cbn; discriminate.
Qed.

Lemma builder_mismatch_refused key certs m :
  (forall l r, certs = l :: r -> same_key (KPub (k_pub key)) (KPub (c_pub l)) = false) ->
  builder_sign key certs m = (Err E_GUARD, []).
Proof.
  intro H. unfold builder_sign. cbn [builder_pub_from_signer builder_call_order guard_first guard_present signs existsb list_eqb Z.eqb andb orb
                            builder_signs_with_own_key builder_cert_indexes nth].
  unfold builder_refuses. destruct certs as [|l r]; [reflexivity|].
  rewrite nthc_0, (H l r eq_refl). rewrite orb_true_r. reflexivity.
Qed.

Lemma xml_sign_ok env key certs m o :
  fst (xml_sign env key certs m) = Ok o ->
  exists l r, certs = l :: r /\ o = mkXml certs (k_pub key) (mkSig key m) /\ same_key (KPub (k_pub key)) (KPub (c_pub l)) = true.
Proof.
  unfold xml_sign. destruct env;
  cbn [xmldsig_env_pub_from_signer xmldsig_sign_pub_from_signer xmldsig_env_call_order xmldsig_sign_call_order xmldsig_finish_calls
       guard_first guard_present signs existsb list_eqb Z.eqb andb orb];
  unfold xmldsig_env_refuses, xmldsig_sign_refuses; (destruct certs as [|l r]; [cbn; discriminate|]);
  rewrite nthc_0, zlen_cons; pose proof (zlen_nonneg r) as Hnn; replace (1 + zlen r <? 1) with false by lia; cbn [orb];
  (destruct (same_key (KPub (k_pub key)) (KPub (c_pub l))) eqn:S; cbn [negb fst]; [|discriminate]);
  intro H; inversion H; subst; exists l, r; auto.
Qed.

Lemma xml_refusal_clean env key certs m e :
  fst (xml_sign env key certs m) = Err e -> snd (xml_sign env key certs m) = [].
Proof.
  unfold xml_sign. destruct env;
  cbn [xmldsig_env_pub_from_signer xmldsig_sign_pub_from_signer xmldsig_env_call_order xmldsig_sign_call_order xmldsig_finish_calls
       guard_first guard_present signs existsb list_eqb Z.eqb andb orb].
  - destruct (xmldsig_env_refuses same_key (zlen certs) (KPub (k_pub key)) (KPub (c_pub (nthc certs 0)))); cbn; [reflexivity|discriminate].
  - destruct (xmldsig_sign_refuses same_key (zlen certs) (KPub (k_pub key)) (KPub (c_pub (nthc certs 0)))); cbn; [reflexivity|discriminate].
Qed.

(* ------------------------------------------------------------------ signing sites *)
(* what the loader guarantees about a bundle *)
Definition bundle_ok (key : priv) (b : bundle) : Prop :=
  b_priv b = Some key /\
  exists l r, b_leaf b = Some l /\ b_certs b = l :: r /\ pub_eqb (c_pub l) (k_pub key) = true.

Lemma chain_of_ok key b : bundle_ok key b -> exists l r r', b_leaf b = Some l /\ b_certs b = l :: r /\ chain b = l :: r'.
Proof.
  intros (_ & l & r & Hl & Hc & _). destruct (chain_begins_with_leaf b l Hl) as [r' Hr]. exists l, r, r'. auto.
Qed.

Lemma sites_shape : sites_shape_ok = true.
Proof. reflexivity. Qed.

Lemma spec_emitted_intro key m l cs p :
  pub_eqb (c_pub l) (k_pub key) = true -> p = c_pub l ->
  (exists r, cs = l :: r) -> spec_emitted key m (mkEm l cs p (mkSig key m)) = true.
Proof.
  intros H -> [r ->]. unfold spec_emitted, vrfy. cbn. rewrite H, !Z.eqb_refl. reflexivity.
Qed.

(* decidable description of the sites for which the loader's guarantee suffices *)
Definition site_ok (s : site) : bool :=
  ((st_key s =? 1) || (st_key s =? 9)) && ((st_certs s =? 2) || (st_certs s =? 3))
  && match st_guard s with GNone => (st_pub s =? 0) || (st_pub s =? 7) || (st_pub s =? 8) | _ => true end.

Lemma site_ok_sound s key b m e :
  site_ok s = true -> bundle_ok key b -> emit s b m = Ok e -> spec_emitted key m e = true.
Proof.
  intros Hs Hok. pose proof (chain_of_ok key b Hok) as (l & r & r' & Hl & Hc & Hch).
  destruct Hok as (Hp & l0 & r0 & Hl0 & Hc0 & Heq). rewrite Hl in Hl0. inversion Hl0; subst l0. clear Hl0 Hc0.
  unfold site_ok in Hs. apply andb_true_iff in Hs as [Hs Hg]. apply andb_true_iff in Hs as [Hk Hcs].
  assert (K : key_of_class b (st_key s) = Some key) by (unfold key_of_class; rewrite Hk; exact Hp).
  assert (C : exists rr, certs_of_class b (st_certs s) = Some (l :: rr)).
  { unfold certs_of_class. apply orb_true_iff in Hcs as [Hcs|Hcs]; rewrite Hcs.
    - rewrite Hch. eauto.
    - destruct (st_certs s =? 2); [rewrite Hch|rewrite Hc]; eauto. }
  destruct C as [rr C]. unfold emit. rewrite K, C. destruct (st_guard s); cbn [bind].
  - destruct (fst (builder_sign key (l :: rr) m)) as [o|x|x] eqn:B; try discriminate.
    apply builder_sign_ok in B as (l1 & r1 & E1 & -> & _). inversion E1; subst l1 r1. cbn. rewrite Z.eqb_refl. cbn.
    intro H. inversion H; subst e. apply spec_emitted_intro; eauto.
  - destruct (fst (xml_sign false key (l :: rr) m)) as [o|x|x] eqn:B; try discriminate.
    apply xml_sign_ok in B as (l1 & r1 & E1 & -> & _). inversion E1; subst l1 r1. cbn.
    intro H. inversion H; subst e. unfold spec_emitted, vrfy. cbn. rewrite Heq, !Z.eqb_refl, pub_eqb_refl. reflexivity.
  - destruct (fst (xml_sign true key (l :: rr) m)) as [o|x|x] eqn:B; try discriminate.
    apply xml_sign_ok in B as (l1 & r1 & E1 & -> & _). inversion E1; subst l1 r1. cbn.
    intro H. inversion H; subst e. unfold spec_emitted, vrfy. cbn. rewrite Heq, !Z.eqb_refl, pub_eqb_refl. reflexivity.
  - rewrite Hl. cbn [option_map]. destruct (st_pub s =? 0).
    + intro H. inversion H; subst e. apply spec_emitted_intro; eauto.
    + cbn [orb] in Hg. rewrite Hg. intro H. inversion H; subst e. apply spec_emitted_intro; eauto.
Qed.

Lemma sites_all_ok : forallb site_ok sites = true.
Proof. reflexivity. Qed.

Lemma every_site_matches s key b m e :
  In s sites -> bundle_ok key b -> emit s b m = Ok e -> spec_emitted key m e = true.
Proof.
  intros Hin. apply site_ok_sound. pose proof sites_all_ok as H. rewrite forallb_forall in H. apply H. exact Hin.
Qed.

(* the second guards alone: whatever the bundle, a site that goes through the builder or xmldsig embeds a leaf for its key *)
Lemma guarded_site_safe s b m e k :
  In s sites -> st_guard s <> GNone -> key_of_class b (st_key s) = Some k -> emit s b m = Ok e ->
  (curve_ok (k_pub k) (c_pub (em_leaf e)) = true -> spec_emitted k m e = true).
Proof.
  intros Hin Hg Hk. unfold emit. rewrite Hk. destruct (certs_of_class b (st_certs s)) as [cs|]; [|discriminate].
  destruct (st_guard s); try contradiction; cbn [bind].
  - destruct (fst (builder_sign k cs m)) as [o|x|x] eqn:B; try discriminate.
    apply builder_sign_ok in B as (l & r & -> & -> & S). cbn. rewrite Z.eqb_refl. cbn. intro H. inversion H; subst e. cbn.
    intro Hc. apply spec_emitted_intro; eauto. apply same_key_sound in S as (p & q & Hp & Hq & _ & E). cbn in Hp, Hq.
    inversion Hp; inversion Hq; subst. rewrite (E Hc). apply pub_eqb_refl.
  - destruct (fst (xml_sign false k cs m)) as [o|x|x] eqn:B; try discriminate.
    apply xml_sign_ok in B as (l & r & -> & -> & S). cbn. intro H. inversion H; subst e. cbn. intro Hc.
    apply same_key_sound in S as (p & q & Hp & Hq & _ & E). cbn in Hp, Hq. inversion Hp; inversion Hq; subst.
    unfold spec_emitted, vrfy. cbn. rewrite <- (E Hc). rewrite !pub_eqb_refl, !Z.eqb_refl. reflexivity.
  - destruct (fst (xml_sign true k cs m)) as [o|x|x] eqn:B; try discriminate.
    apply xml_sign_ok in B as (l & r & -> & -> & S). cbn. intro H. inversion H; subst e. cbn. intro Hc.
    apply same_key_sound in S as (p & q & Hp & Hq & _ & E). cbn in Hp, Hq. inversion Hp; inversion Hq; subst.
    unfold spec_emitted, vrfy. cbn. rewrite <- (E Hc). rewrite !pub_eqb_refl, !Z.eqb_refl. reflexivity.
Qed.

(* ------------------------------------------------------------------ loader + sites, end to end *)
Definition curve_hyp (key : priv) (cs : list cert) : Prop := forall c, In c cs -> curve_ok (k_pub key) (c_pub c) = true.

Lemma load_x509_bundle_ok key s b :
  curve_hyp key (cs_certs s) -> load_x509 key s = Ok b -> bundle_ok key b.
Proof.
  intros Hc H. apply load_x509_ok in H as (l & r & Hs & -> & S). split; [reflexivity|]. exists l, r. repeat split.
  apply key_cert_equal; [exact S|]. apply Hc. rewrite Hs. left. reflexivity.
Qed.

Lemma load_meets_spec key s :
  curve_hyp key (cs_certs s) -> spec_load key (cs_certs s) (load_x509 key s) = true.
Proof.
  intro Hc. destruct (load_x509 key s) as [b|e|e] eqn:L.
  - pose proof (load_x509_bundle_ok key s b Hc L) as Hok. apply load_x509_ok in L as (l & r & Hs & -> & S).
    destruct Hok as (_ & l' & r' & Hl & _ & Heq). cbn in Hl. inversion Hl; subst l'. unfold spec_load. cbn [b_leaf b_priv].
    rewrite Heq, Hs. cbn [existsb]. rewrite !Z.eqb_refl. cbn. unfold chain. cbn. rewrite !Z.eqb_refl. reflexivity.
  - reflexivity.
  - exfalso. unfold load_x509, bind, parse_certs in L. destruct (cs_bad s); [discriminate|].
    destruct (cs_certs s) as [|c0 r]; [discriminate|]. destruct (cs_der s); cbn in L;
    destruct (load_x509_mismatch same_key (KPriv key) (KPub (c_pub c0))); discriminate.
Qed.

Lemma mismatch_is_error key s :
  curve_hyp key (cs_certs s) -> spec_must_fail key (cs_certs s) = true -> exists e, load_x509 key s = Err e.
Proof.
  intros Hc Hm. destruct (load_x509 key s) as [b|e|e] eqn:L.
  - exfalso. pose proof (load_x509_bundle_ok key s b Hc L) as (_ & l & r & Hl & _ & Heq).
    apply load_x509_ok in L as (l' & r' & Hs & -> & _). cbn in Hl. inversion Hl; subst l'.
    unfold spec_must_fail in Hm. rewrite Hs in Hm. cbn in Hm. rewrite Heq in Hm. discriminate.
  - eauto.
  - pose proof (load_meets_spec key s Hc) as H. rewrite L in H. discriminate.
Qed.

(* a certificate for the key placed first is accepted (the guard does not refuse valid configurations) *)
Lemma matching_leaf_loads key s l r :
  cs_bad s = false -> cs_certs s = l :: r -> c_pub l = k_pub key -> supported (k_pub key) = true ->
  load_x509 key s = Ok (mkBundle (Some l) (l :: r) None (Some key)).
Proof.
  intros Hb Hs Hp Hsup. unfold load_x509, bind, parse_certs. rewrite Hb, Hs.
  assert (S : same_key (KPriv key) (KPub (c_pub l)) = true).
  { apply (same_key_complete _ _ (k_pub key)); cbn; congruence. }
  destruct (cs_der s); cbn; unfold load_x509_mismatch; rewrite S; reflexivity.
Qed.

Lemma curve_refuted :
  exists key s b, load_x509 key s = Ok b /\ spec_load key (cs_certs s) (Ok b) = false /\ spec_must_fail key (cs_certs s) = true.
Proof.
  exists (mkPriv 1 (PEc 1 5 7)), (mkSrc false false [mkCert 0 100 (PEc 2 5 7) 1 2]). eexists. split; [reflexivity|]. split; reflexivity.
Qed.

(* PGP *)
Lemma pgp_site_matches key xc file xb blob pc ring b cls m e s :
  load_token_certs key xc file xb blob pc ring = Ok b -> In cls pgp_sites -> emit_pgp cls b m = Ok (e, s) ->
  curve_ok (k_pub key) (en_pub e) = true ->
  pub_eqb (en_pub e) (k_pub key) = true /\ vrfy (en_pub e) m s = true /\ ring = Ok [e].
Proof.
  intros L Hin E Hc. apply load_token_certs_ok in L as (Hp & _ & Hg).
  unfold pgp_sites in Hin. cbn in Hin. unfold emit_pgp in E.
  assert (Hcls : ((cls =? 5) || (cls =? 6)) = true) by (destruct Hin as [<-|[<-|[<-|[]]]]; reflexivity).
  rewrite Hcls, Hp in E. destruct (b_pgp b) as [e0|] eqn:G; [|discriminate]. inversion E; subst e0 s.
  destruct (Hg e eq_refl) as (S & Hr & _). pose proof (key_cert_equal key (en_pub e) S Hc) as Heq.
  split; [exact Heq|]. split; [|exact Hr]. unfold vrfy. cbn. rewrite Heq, Z.eqb_refl. reflexivity.
Qed.

(* ------------------------------------------------------------------ key lookup *)
Lemma cfg_get_key_resolves c n kc : cfg_get_key c n = Ok kc -> spec_resolve c n = Some kc /\ kc_token kc <> 0.
Proof.
  unfold cfg_get_key, spec_resolve. destruct (cfg_find c n) as [k|]; cbn [cfg_missing negb]; [|discriminate].
  unfold cfg_follow_alias. cbn [cfg_alias_one_level]. destruct (kc_alias k =? 0); cbn [negb bind].
  - destruct (kc_token k =? 0) eqn:T; [discriminate|]. intro H. inversion H; subst. split; [reflexivity|]. apply Z.eqb_neq. exact T.
  - destruct (cfg_find c (kc_alias k)) as [t|]; cbn [bind]; [|discriminate].
    unfold cfg_alias_chain_refused. destruct (kc_alias t =? 0); cbn [negb bind]; [|discriminate].
    destruct (kc_token t =? 0) eqn:T; [discriminate|]. intro H. inversion H; subst. split; [reflexivity|]. apply Z.eqb_neq. exact T.
Qed.

Lemma cfg_find_name c n k : cfg_find c n = Some k -> kc_name k = n /\ cfg_find c (kc_name k) = Some k.
Proof.
  induction c as [|x c IH]; cbn; [discriminate|]. destruct (kc_name x =? n) eqn:E.
  - intro H. injection H as <-. apply Z.eqb_eq in E. split; [exact E|]. rewrite Z.eqb_refl. reflexivity.
  - intro H. destruct (IH H) as [H1 H2]. split; [exact H1|]. rewrite H1, E. exact H.
Qed.

(* resolution is idempotent: what GetKey returns is a complete section found under its own name; callers that look the
   returned key up again by its name get the same section *)
Lemma cfg_get_key_idempotent c n kc : cfg_get_key c n = Ok kc -> cfg_get_key c (kc_name kc) = Ok kc.
Proof.
  intro H.
  assert (P : cfg_find c (kc_name kc) = Some kc /\ kc_alias kc = 0 /\ (kc_token kc =? 0) = false).
  { revert H. unfold cfg_get_key. destruct (cfg_find c n) as [k|] eqn:F; cbn [cfg_missing negb]; [|discriminate].
    unfold cfg_follow_alias. cbn [cfg_alias_one_level]. destruct (kc_alias k =? 0) eqn:A; cbn [negb bind].
    - destruct (kc_token k =? 0) eqn:T; [discriminate|]. intro H. injection H as <-. apply cfg_find_name in F as [_ F]. apply Z.eqb_eq in A. auto.
    - destruct (cfg_find c (kc_alias k)) as [t|] eqn:G; cbn [bind]; [|discriminate].
      unfold cfg_alias_chain_refused. destruct (kc_alias t =? 0) eqn:B; cbn [negb bind]; [|discriminate].
      destruct (kc_token t =? 0) eqn:T; [discriminate|]. intro H. injection H as <-. apply cfg_find_name in G as [_ G]. apply Z.eqb_eq in B. auto. }
  destruct P as (F & A & T). unfold cfg_get_key. rewrite F. cbn [cfg_missing negb]. unfold cfg_follow_alias. rewrite A. cbn [Z.eqb negb bind]. rewrite T. reflexivity.
Qed.

(* (relic fix 1867fd2) an alias whose target is itself an alias is a configuration error, never a silent second hop *)
Lemma cfg_alias_chain_is_error c n k t :
  cfg_find c n = Some k -> kc_alias k <> 0 -> cfg_find c (kc_alias k) = Some t -> kc_alias t <> 0 -> cfg_get_key c n = Err E_ALIAS.
Proof.
  intros Hk Ha Ht Hb. unfold cfg_get_key. rewrite Hk. cbn [cfg_missing negb]. unfold cfg_follow_alias, cfg_alias_chain_refused. cbn [cfg_alias_one_level].
  apply Z.eqb_neq in Ha, Hb. rewrite Ha, Ht, Hb. reflexivity.
Qed.

Lemma token_get_key_right c kf n k :
  token_get_key c kf n = Ok k -> spec_resolve c n = Some (fk_conf k) /\ kf (kc_keyfile (fk_conf k)) = Ok (fk_priv k).
Proof.
  unfold token_get_key. cbn [filetoken_conf_by_name filetoken_reads_conf_keyfile]. unfold bind.
  destruct (cfg_get_key c n) as [kc|e|e] eqn:G; try discriminate. apply cfg_get_key_resolves in G as [G _].
  destruct (kc_keyfile kc =? 0); [discriminate|]. destruct (kf (kc_keyfile kc)) as [p|e|e] eqn:F; try discriminate.
  intro H. inversion H; subst. cbn. auto.
Qed.

Definition cache_inv (base : Z -> result fkey) (s : cache) : Prop :=
  forall n k, cache_find s n = Some k -> base n = Ok k.

Lemma cache_get_key_right base exp s n fresh wl ie :
  cache_inv base s ->
  fst (cache_get_key base exp s n fresh wl ie) = base n /\ cache_inv base (snd (cache_get_key base exp s n fresh wl ie)).
Proof.
  intro Hinv. unfold cache_get_key. cbn [tc_lookup_by_name tc_fetch_by_name].
  destruct (cache_find s n) as [k|] eqn:F.
  - destruct (tc_entry_live true fresh && tc_id_acceptable wl ie).
    + cbn. split; [symmetry; apply Hinv; exact F|exact Hinv].
    + destruct (base n) as [k'|e|e] eqn:B; cbn; split; auto.
      destruct (tc_may_store exp wl); [|exact Hinv]. intros n' k'' H. cbn in H.
      destruct (n =? n') eqn:E; [apply Z.eqb_eq in E; subst n'; inversion H; subst; exact B|apply Hinv; exact H].
  - destruct (base n) as [k'|e|e] eqn:B; cbn; split; auto.
    destruct (tc_may_store exp wl); [|exact Hinv]. intros n' k'' H. cbn in H.
    destruct (n =? n') eqn:E; [apply Z.eqb_eq in E; subst n'; inversion H; subst; exact B|apply Hinv; exact H].
Qed.

(* a history of requests against one cache: every answer is what the underlying token gives for the requested name *)
Fixpoint cache_run (base : Z -> result fkey) (exp : Z) (s : cache) (reqs : list (Z * bool * Z * bool)) : list (Z * result fkey) :=
  match reqs with
  | [] => []
  | (n, fresh, wl, ie) :: r =>
      let '(res, s') := cache_get_key base exp s n fresh wl ie in (n, res) :: cache_run base exp s' r
  end.
Lemma cache_history base exp s reqs :
  cache_inv base s -> forall n r, In (n, r) (cache_run base exp s reqs) -> r = base n.
Proof.
  revert s. induction reqs as [|[[[n fresh] wl] ie] reqs IH]; intros s Hinv n' r H; cbn in H; [contradiction|].
  pose proof (cache_get_key_right base exp s n fresh wl ie Hinv) as [H1 H2].
  destruct (cache_get_key base exp s n fresh wl ie) as [res s'] eqn:E. cbn in H1, H2, H.
  destruct H as [H|H]; [inversion H; subst; reflexivity|]. eapply IH; eauto.
Qed.
Lemma cache_inv_empty base : cache_inv base [].
Proof. intros n k H. discriminate. Qed.

Lemma init_key_right getkey xf pf n b :
  init_key getkey xf pf n = Ok b ->
  exists k, getkey n = Ok k /\ b_priv b = Some (fk_priv k) /\
    (forall l, b_leaf b = Some l ->
       same_key (KPriv (fk_priv k)) (KPub (c_pub l)) = true /\
       exists r s, xf (kc_x509 (fk_conf k)) = Ok s /\ cs_certs s = l :: r /\ b_certs b = l :: r) /\
    (forall e, b_pgp b = Some e ->
       same_key (KPriv (fk_priv k)) (KPub (en_pub e)) = true /\ pf (kc_pgp (fk_conf k)) = Ok [e]).
Proof.
  unfold init_key. cbn [initkey_key_by_name initkey_conf_from_key initkey_args list_eqb Z.eqb andb negb]. unfold bind at 1.
  destruct (getkey n) as [k|e|e]; try discriminate. intro H. exists k. split; [reflexivity|].
  apply load_token_certs_ok in H as (Hp & Hl & Hg). split; [exact Hp|]. split.
  - intros l Hleaf. destruct (Hl l Hleaf) as (S & r & Hc & Hsrc). split; [exact S|].
    destruct Hsrc as [(Hne & s & Hf & Hs)|(He & Hs)].
    + exists r, s. auto.
    + cbn in Hs. discriminate.
  - intros e He. destruct (Hg e He) as (S & Hr & _). auto.
Qed.

(* ------------------------------------------------------------------ whole flow *)
Lemma sign_flow_sound key s st m e :
  curve_hyp key (cs_certs s) -> In st sites -> sign_x509 key s st m = Ok e -> spec_emitted key m e = true.
Proof.
  intros Hc Hin. unfold sign_x509, bind. destruct (load_x509 key s) as [b|x|x] eqn:L; try discriminate.
  apply every_site_matches; [exact Hin|]. eapply load_x509_bundle_ok; eauto.
Qed.
Lemma sign_flow_mismatch key s st m :
  curve_hyp key (cs_certs s) -> spec_must_fail key (cs_certs s) = true -> exists e, sign_x509 key s st m = Err e.
Proof.
  intros Hc Hm. destruct (mismatch_is_error key s Hc Hm) as [e He]. exists e. unfold sign_x509. rewrite He. reflexivity.
Qed.
