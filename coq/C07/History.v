(* C07/History.v — key/certificate binding as a function of the HISTORY inside one long-lived process.
   Executable definitions only.

   A relic server (or any caller of signinit.Init) initialises the key for every request.  Between requests an
   operator may replace the key file (rotation; an HSM key regenerated under the same label and a KMS version bump are
   the same situation), the X.509 certificate file or the PGP certificate file.  The property must hold for the n-th
   request as for the first: every signature issued carries a certificate whose public key is the public key of the key
   that made it, i.e. the match check is evaluated against the key actually used on every issuance.

   Faithful model (generated definitions wherever the Go code has a constant, a condition or a data-flow fact):
     process state       the reviewed inventory of package-level variables of internal/signinit, lib/certloader, signers
                         (+ the signer packages without a second guard), token/tokencache, token/filetoken and the field
                         lists of the long-lived objects: the only place where a parsed key or a loaded bundle survives a
                         request is tokencache.Cache.keys (name -> key object of the token, with an expiry time)
     tok_get_key         token/filetoken fileToken.GetKey: key object = {section, key parsed NOW from the key file,
                         certificates carried by a PKCS#12 key file}
     hcache_get_key      token/tokencache Cache.GetKey (polymorphic copy of Model.cache_get_key over those key objects)
     init_key_h          internal/signinit.InitKey: GetKey through the cache, then LoadTokenCertificates on the CURRENT
                         contents of the certificate files; the data-flow tables say that the bundle returned is the one
                         LoadTokenCertificates produced in this invocation for the key GetKey returned in this invocation
     init_h              internal/signinit.Init: certificate-type requirements of the signer module
     serve               one request: Init, then the signing site (Model.emit / Model.emit_pgp)
     run                 a history: file replacements interleaved with requests

   Independent specification (from the property statement): spec_output_ok, spec_history_ok. *)
From Coq Require Strings.String Strings.Ascii.
From Relic Require Import Base.Prelude Generated.C07_gen C07.Model.

(* ------------------------------------------------------------------ names as byte strings *)
Definition zs (s : String.string) : bytes :=
  map (fun a => Z.of_nat (Ascii.nat_of_ascii a)) (String.list_ascii_of_string s).

Local Open Scope string_scope.
Import String.StringSyntax.

(* ------------------------------------------------------------------ reviewed process state
   Package-level variables (kinds: 1 sync primitive 2 map 3 slice/array 4 pointer 5 scalar 6 error value
   7 metric/flag-set/reflect handle 8 function 9 other).  Review: none of them holds a key, a certificate or a bundle:
     signinit.mu/ts            the timestamp client singleton
     certloader.*              a byte pattern and an error value
     signers.*                 flag sets and the table of registered signer modules
     tokencache.*              histogram buckets and metrics
     signers/<x>.*             tables, error values, command-line argument variables, the module descriptors *)
Definition reviewed_pkg_state : list (String.string * String.string * Z) := [
  ("internal/signinit", "mu", 1); ("internal/signinit", "ts", 9);
  ("lib/certloader", "pkcs7SignedData", 3); ("lib/certloader", "ErrNoCerts", 9);
  ("signers", "common", 4); ("signers", "flagDefsMu", 1); ("signers", "registered", 3); ("signers", "flagMap", 2);
  ("token/tokencache", "buckets", 3); ("token/tokencache", "MetricOperations", 7); ("token/tokencache", "MetricResponses", 7);
  ("token/tokencache", "metricRateLimited", 7);
  ("signers/cosign", "algorithms", 2); ("signers/cosign", "allowedManifestTypes", 2); ("signers/cosign", "signer", 4);
  ("signers/apk", "errTrailingData", 6); ("signers/apk", "bytesType", 7); ("signers/apk", "rawType", 7); ("signers/apk", "uint32Type", 7);
  ("signers/apk", "ApkSigner", 4); ("signers/apk", "errMalformed", 6); ("signers/apk", "errTruncated", 6); ("signers/apk", "sigTypes", 3);
  ("signers/pgp", "argDigest", 5); ("signers/pgp", "argOutput", 5); ("signers/pgp", "argPgpUser", 5); ("signers/pgp", "argPgpArmor", 5);
  ("signers/pgp", "argPgpDetached", 5); ("signers/pgp", "argPgpClearsign", 5); ("signers/pgp", "argPgpTextMode", 5); ("signers/pgp", "PgpSigner", 4);
  ("signers/rpm", "RpmSigner", 4); ("signers/deb", "DebSigner", 4) ].

Definition state_entry_eqb (a b : bytes * bytes * Z) : bool :=
  bytes_eqb (fst (fst a)) (fst (fst b)) && bytes_eqb (snd (fst a)) (snd (fst b)) && (snd a =? snd b)%Z.
Definition pkg_state_reviewed : bool :=
  list_eqb state_entry_eqb pkg_state (map (fun e => (zs (fst (fst e)), zs (snd (fst e)), snd e)) reviewed_pkg_state).

Definition field_eqb (a b : bytes * Z) : bool := bytes_eqb (fst a) (fst b) && (snd a =? snd b)%Z.
Definition fields_are (l : list (bytes * Z)) (r : list (String.string * Z)) : bool :=
  list_eqb field_eqb l (map (fun e => (zs (fst e), snd e)) r).

(* the long-lived objects: a Cache holds the wrapped token, the name -> key map, a mutex and the expiry; a cached entry
   is (expiry time, key object); the file token holds configuration only; a file key object holds its section, the
   parsed private key and the PKCS#12 certificates.  (The server object is not inventoried: whatever it holds, the
   data-flow table of serveSign says that the bundle given to mod.Sign is the one signinit.Init returned in this request.) *)
Definition objects_reviewed : bool :=
  fields_are cache_fields [("Token", 9); ("keys", 2); ("mu", 1); ("expiry", 5)]
  && fields_are cached_key_fields [("expires", 9); ("key", 9)]
  && fields_are filetoken_fields [("config", 4); ("tokenConf", 4); ("prompt", 9)]
  && fields_are filekey_fields [("keyConf", 4); ("signer", 9); ("cert", 3)]
  && fields_are bundle_fields [("Leaf", 4); ("Certificates", 3); ("PgpKey", 4); ("PrivateKey", 9); ("Timestamper", 9); ("KeyName", 5)].

Definition process_state_reviewed : bool := pkg_state_reviewed && objects_reviewed.

(* ------------------------------------------------------------------ data-flow facts
   flow tables: one entry per return statement (class 0 nil result, 1 the tracked variable, 2 anything else) with
   "on every path to this point the variable was last assigned by the source call of THIS invocation" *)
Definition flow_ok (l : list (Z * bool)) : bool :=
  forallb (fun e => (fst e =? 0)%Z || ((fst e =? 1)%Z && snd e)) l && existsb (fun e => (fst e =? 1)%Z) l.
(* sink tables: every call of the sink receives the tracked variable, bound in this invocation *)
Definition sink_ok (l : list (Z * bool)) : bool :=
  forallb (fun e => (fst e =? 1)%Z && snd e) l && negb (zlen l =? 0)%Z.
Definition only_fields (allowed : list bytes) (l : list bytes) : bool :=
  forallb (fun f => existsb (fun a => bytes_eqb f a) allowed) l.
(* (byte strings rather than Coq strings: these are reachable from the extracted model) *)
Definition f_KeyName : bytes := [75; 101; 121; 78; 97; 109; 101]%Z.
Definition f_Timestamper : bytes := [84; 105; 109; 101; 115; 116; 97; 109; 112; 101; 114]%Z.
Definition field_names_ok : bool := bytes_eqb f_KeyName (zs "KeyName") && bytes_eqb f_Timestamper (zs "Timestamper").

(* InitKey: key := tok.GetKey(ctx, keyName); kconf := key.Config(); cert := LoadTokenCertificates(key, kconf.X509Certificate,
   kconf.PgpCertificate, key.Certificate()); only cert.KeyName is assigned afterwards; every non-nil return is that cert *)
Definition initkey_shape_ok : bool :=
  initkey_key_by_name && initkey_conf_from_key && list_eqb Z.eqb initkey_args [1; 2; 3; 4]%Z
  && flow_ok initkey_flow && only_fields [f_KeyName] initkey_flow_fields
  && sink_ok initkey_key_flow && only_fields [] initkey_key_flow_fields.
(* Init: cert := InitKey(...); only cert.Timestamper is assigned; every non-nil return is that cert *)
Definition init_shape_ok : bool := flow_ok init_flow && only_fields [f_Timestamper] init_flow_fields.
(* the two callers that sign: the bundle handed to mod.Sign is the one signinit.Init returned in this request *)
Definition callers_ok : bool :=
  sink_ok servesign_flow && only_fields [] servesign_flow_fields && sink_ok signcmd_flow && only_fields [] signcmd_flow_fields.

Local Close Scope string_scope.

(* ------------------------------------------------------------------ the world outside the process *)
Record world : Type := mkWorld {
  w_key : Z -> result (priv * certsrc);      (* parsing key file f NOW: private key + certificates of a PKCS#12 bundle (empty for PEM keys) *)
  w_x509 : Z -> result certsrc;              (* reading certificate file f NOW *)
  w_pgp : Z -> result (list entity) }.       (* reading + parsing PGP certificate file f NOW *)

(* ------------------------------------------------------------------ file token and token cache *)
Record tkey : Type := mkTk { tk_conf : keyconf; tk_priv : priv; tk_blob : certsrc }.   (* fileKey{keyConf, signer, cert} *)

Definition filekey_shape_ok : bool := filetoken_key_object && filekey_cert_is_field && filekey_conf_is_field.

Definition tok_get_key (c : cfg) (w : world) (name : Z) : result tkey :=
  if negb filekey_shape_ok then Panic 12 else
  kc <- (if filetoken_conf_by_name then cfg_get_key c name else Panic 12) ;;
  if kc_keyfile kc =? 0 then Err E_NOKEYFILE else
  pc <- (if filetoken_reads_conf_keyfile then w_key w (kc_keyfile kc) else Panic 12) ;;
  Ok (mkTk kc (fst pc) (snd pc)).

Definition hcache := list (Z * tkey).
Fixpoint hcache_find (s : hcache) (n : Z) : option tkey :=
  match s with [] => None | (k, v) :: r => if k =? n then Some v else hcache_find r n end.

(* Cache.GetKey; fresh = cached.expires.After(time.Now()) for the entry found (clock input) *)
Definition hcache_get_key (base : Z -> result tkey) (expiry : Z) (s : hcache) (name : Z) (fresh : bool) (want_len : Z) (ids_equal : bool)
  : result tkey * hcache :=
  let cached := if tc_lookup_by_name then hcache_find s name else None in
  let hit := match cached with
             | Some k => if tc_entry_live true fresh && tc_id_acceptable want_len ids_equal then Some k else None
             | None => None end in
  match hit with
  | Some k => (Ok k, s)
  | None =>
      match (if tc_fetch_by_name then base name else Panic 13) with
      | Ok k => (Ok k, if tc_may_store expiry want_len && tc_stores_fetched_key then (name, k) :: s else s)
      | e => (e, s)
      end
  end.

(* ------------------------------------------------------------------ one request *)
Inductive signer : Type := SgX509 (st : site) | SgPgp (cls : Z).
Record request : Type := mkReq {
  q_name : Z;            (* requested key name *)
  q_fresh : bool;        (* clock: the cached entry for this name (if any) has not expired *)
  q_want : Z;            (* length of the key id the caller insists on (0: none) *)
  q_ideq : bool;         (* that id equals the cached key's id *)
  q_ct : Z;              (* CertTypes of the signer module *)
  q_signer : signer;
  q_msg : Z }.

Definition blob_bytes (s : certsrc) : bytes := match cs_certs s with [] => [] | _ => [1] end.
Definition path_bytes (f : Z) : bytes := if f =? 0 then [] else [1].

Definition init_key_h (c : cfg) (expiry : Z) (w : world) (s : hcache) (q : request) : result bundle * hcache :=
  if negb initkey_shape_ok then (Panic 15, s) else
  let '(rk, s') := hcache_get_key (tok_get_key c w) expiry s (q_name q) (q_fresh q) (q_want q) (q_ideq q) in
  (k <- rk ;;
   let kc := tk_conf k in
   load_token_certs (tk_priv k) (path_bytes (kc_x509 kc)) (w_x509 w (kc_x509 kc)) (blob_bytes (tk_blob k)) (tk_blob k)
                    (path_bytes (kc_pgp kc)) (w_pgp w (kc_pgp kc)), s').

Definition E_NOCERT := 11.
Definition is_some {A} (o : option A) : bool := match o with Some _ => true | None => false end.

Definition init_h (ct : Z) (b : bundle) : result bundle :=
  if negb init_shape_ok then Panic 16 else
  if (if init_has_leaf (is_some (b_leaf b)) then false else init_needs_x509 ct) then Err E_NOCERT else
  if (if init_has_pgp (is_some (b_pgp b)) then false else init_needs_pgp ct) then Err E_NOCERT else
  Ok b.

Inductive outv : Type := OX509 (e : emitted) | OPgp (en : entity) (s : sigv).

Definition serve (c : cfg) (expiry : Z) (w : world) (s : hcache) (q : request) : result outv * hcache :=
  if negb callers_ok then (Panic 17, s) else
  let '(rb, s') := init_key_h c expiry w s q in
  (b <- rb ;;
   b' <- init_h (q_ct q) b ;;
   match q_signer q with
   | SgX509 st => e <- emit st b' (q_msg q) ;; Ok (OX509 e)
   | SgPgp cls => es <- emit_pgp cls b' (q_msg q) ;; Ok (OPgp (fst es) (snd es))
   end, s').

(* ------------------------------------------------------------------ histories *)
Inductive event : Type :=
| EKey (f : Z) (v : result (priv * certsrc))     (* the key file is replaced (or removed, or corrupted) *)
| EX509 (f : Z) (v : result certsrc)            (* the X.509 certificate file is replaced *)
| EPgp (f : Z) (v : result (list entity))       (* the PGP certificate file is replaced *)
| EReq (q : request).

Definition upd {A} (m : Z -> A) (f : Z) (v : A) : Z -> A := fun x => if x =? f then v else m x.

Definition apply_event (w : world) (e : event) : world :=
  match e with
  | EKey f v => mkWorld (upd (w_key w) f v) (w_x509 w) (w_pgp w)
  | EX509 f v => mkWorld (w_key w) (upd (w_x509 w) f v) (w_pgp w)
  | EPgp f v => mkWorld (w_key w) (w_x509 w) (upd (w_pgp w) f v)
  | EReq _ => w
  end.

(* the trace records, per request, the world and the cache it ran in *)
Fixpoint run (c : cfg) (expiry : Z) (w : world) (s : hcache) (evs : list event) : list (world * hcache * request * result outv) :=
  match evs with
  | [] => []
  | EReq q :: r => let '(res, s') := serve c expiry w s q in (w, s, q, res) :: run c expiry w s' r
  | e :: r => run c expiry (apply_event w e) s r
  end.

(* ------------------------------------------------------------------ independent specification
   "relic never emits an X.509-based or PGP signature whose embedded leaf certificate or public key does not correspond
    to the private key that produced the signature value ... The embedded chain begins with the leaf and the signature
    value verifies under the leaf's public key." *)
Definition spec_output_ok (m : Z) (o : outv) : bool :=
  match o with
  | OX509 e =>
      vrfy (c_pub (em_leaf e)) m (em_sig e)
      && match em_chain e with c :: _ => c_id c =? c_id (em_leaf e) | [] => false end
      && pub_eqb (em_pub e) (k_pub (s_key (em_sig e)))
  | OPgp en s => vrfy (en_pub en) m s
  end.
Definition spec_history_ok (tr : list (world * hcache * request * result outv)) : bool :=
  forallb (fun t => match snd t with Ok o => spec_output_ok (q_msg (snd (fst t))) o | Err _ => true | Panic _ => false end) tr.

(* "a mismatched key/certificate configuration ... results in an error": the configuration in force for a request is the
   key the token layer hands out for it and what the certificate source holds at that moment *)
Definition spec_request_must_fail (k : priv) (src : list cert) : bool := spec_must_fail k src.

(* request well-formedness: a signing site of the generated table, with the CertTypes of a module that reaches it *)
Definition x509_signer_certtypes : list Z :=
  certtypes_apk ++ certtypes_appmanifest ++ certtypes_appx ++ certtypes_cab ++ certtypes_cat ++ certtypes_cosign ++ certtypes_dmg
  ++ certtypes_jar ++ certtypes_macho ++ certtypes_msi ++ certtypes_pecoff ++ certtypes_ps ++ certtypes_vsix ++ certtypes_xap ++ certtypes_xar.
Definition pgp_signer_certtypes : list Z := certtypes_pgp ++ certtypes_rpm ++ certtypes_deb.
Definition signer_certtypes_ok : bool :=
  forallb init_needs_x509 x509_signer_certtypes && forallb init_needs_pgp pgp_signer_certtypes.
