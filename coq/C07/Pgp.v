(* C07/Pgp.v — OpenPGP side of C07: WHICH key packet an emitted signature names as its issuer and WHICH private key
   computes the value, for every certificate structure (primary key, any number of subkeys with their binding flags,
   any number of user ids, secret material that may already sit in the certificate file) and every token key.
   Executable definitions only.

   Mechanism.  Every OpenPGP signature relic emits is produced from a *packet.PrivateKey value
        { PublicKey : the public-key PACKET (key id, fingerprint, key material) ; PrivateKey : the crypto.Signer }.
   The issuer key id / issuer fingerprint subpackets of the signature are taken from the PublicKey half, the signature
   value is computed by the PrivateKey half.  The two halves are paired in exactly one place inside relic,
   certloader.LoadTokenCertificates (priv := &packet.PrivateKey{PublicKey: *entity.PrimaryKey, PrivateKey: key}, guarded by
   SameKey(key, priv.PublicKey.PublicKey)), and consumed by two families of signing sites:
     (A) sites that let go-crypto select the signing key: openpgp.DetachSign / ArmoredDetachSign / DetachSignText /
         ArmoredDetachSignText (signers/pgp: detached, armored, text mode, inline) -> Entity.SigningKeyById prefers the newest valid
         signing SUBKEY over the primary key and uses that subkey's own PrivateKey field;
     (B) sites that use entity.PrivateKey directly: pgptools.ClearSign (clearsign, the 2.0 "mini-clear" compatibility flag,
         signdeb.Sign) and rpmutils.SignRpmStream(cert.PgpKey.PrivateKey) (signers/rpm).

   Faithful model (generated definitions of Generated/C07_gen.v wherever the Go code has a constant, an operator, a branch
   condition or a loop-free decision; the go-crypto v1.0.0 / go-rpmutils v0.4.0 code the sites end in is read from the module
   cache at the versions pinned in /repo/go.mod):
     load_pgp            the PGP block of certloader.LoadTokenCertificates
     primary_identity    openpgp Entity.PrimaryIdentity / shouldPreferIdentity          (hand-modelled, fingerprinted)
     signing_key         openpgp Entity.signingKeyByIdUsage                              (conditions generated, loop hand-modelled)
     sig_sign            packet.Signature.Sign: fingerprint from the private-key packet
     detach_sign         openpgp detachSign          clear_sign   pgptools.ClearSign -> clearsign.Encode
     rpm_sign            rpmutils.SignRpmStream -> makeSignature (two signatures)
     pgp_emit            signers/pgp sign (choice of the signing function), signers/rpm sign, signers/deb sign -> signdeb.Sign

   Independent specification (from the property text and RFC 4880 5.2.3.5 / 5.2.3.28: the issuer subpackets identify the key
   packet that made the signature): spec_pgp_sig_ok, spec_pgp_must_fail. *)
From Relic Require Import Base.Prelude Generated.C07_gen C07.Model.

(* ------------------------------------------------------------------ certificates *)
(* a public-key packet: its identity (v4 fingerprint; the key id is its low 64 bits) and the key material *)
Record kpkt : Type := mkKp { kp_id : Z; kp_pub : pubk }.
(* packet.PrivateKey: the public-key packet it carries, the Encrypted flag, the object that signs *)
Record ppkt : Type := mkPp { pp_pub : kpkt; pp_enc : bool; pp_key : priv }.

(* a subkey with the facts Entity.signingKeyByIdUsage reads from its (newest valid) binding signature at time `now` *)
Record subk : Type := mkSub {
  sb_pkt : kpkt;
  sb_flags_valid : bool; sb_certify : bool; sb_sign : bool;       (* key flags subpacket of the binding signature *)
  sb_cansign : bool;                                              (* PubKeyAlgo.CanSign() *)
  sb_keyexp : bool; sb_sigexp : bool; sb_revoked : bool;
  sb_time : Z;                                                    (* creation time of the binding signature; 0 = Go's zero time *)
  sb_priv : option ppkt }.                                        (* Subkey.PrivateKey *)

(* a user id with the facts read from its self-signature *)
Record ident : Type := mkId {
  id_nrev : Z; id_has_self : bool; id_primary : bool; id_time : Z;
  id_flags_valid : bool; id_certify : bool; id_sign : bool;
  id_sigexp : bool; id_revoked : bool; id_keyexp : bool }.         (* id_keyexp: PrimaryKey.KeyExpired(this self-signature, now) *)

Record pent : Type := mkPent {
  pe_id : Z;
  pe_primary : kpkt;
  pe_cansign : bool;
  pe_revoked : bool;
  pe_idents : list ident;          (* in the order Go's map iteration happens to visit them *)
  pe_subs : list subk;
  pe_priv : option ppkt }.         (* Entity.PrivateKey *)

Definition cert_packets (e : pent) : list kpkt := pe_primary e :: map sb_pkt (pe_subs e).
Definition set_priv (e : pent) (p : option ppkt) : pent :=
  mkPent (pe_id e) (pe_primary e) (pe_cansign e) (pe_revoked e) (pe_idents e) (pe_subs e) p.

(* the view of the coarser model of C07/Model.v *)
Definition to_entity (e : pent) : entity := mkEnt (pe_id e) (kp_pub (pe_primary e)).

Definition E_NOSIGNKEY := 21.     (* openpgp: no valid signing keys *)
Definition E_NOPRIV := 22.        (* openpgp: signing key doesn't have a private key *)
Definition E_ENCRYPTED := 23.     (* signing key is encrypted *)

(* ------------------------------------------------------------------ LoadTokenCertificates, PGP block *)
(* the block is the reviewed statement sequence: read, parse, count check, entity := keyring[0], priv := literal, guard,
   entity.PrivateKey = priv, cert.PgpKey = entity; the guard is evaluated before the assignment *)
Definition pgp_loader_shape_ok : bool :=
  list_eqb Z.eqb load_pgp_block [1; 2; 3; 2; 4; 5; 6; 7; 8; 9]
  && load_pgp_first_entity && load_sets_pgp_key
  && (load_pgp_priv_key =? 1) && (load_pgp_priv_extra =? 0)
  && list_eqb Z.eqb load_pgp_guard_order [1; 0; 1].

Definition load_pgp (key : priv) (e : pent) : result pent :=
  if negb pgp_loader_shape_ok then Panic 20 else
  match (if load_pgp_priv_pub =? 1 then Some (pe_primary e) else None) with
  | None => Panic 24
  | Some pk =>
      let p := mkPp pk load_pgp_priv_enc key in
      if load_pgp_mismatch same_key (KPriv key) (KPub (kp_pub (pp_pub p))) then Err E_MISMATCH
      else Ok (set_priv e (Some p))
  end.

(* the whole PGP branch: file read / parse result, exactly one entity *)
Definition load_pgp_ring (key : priv) (ring : result (list pent)) : result pent :=
  r <- ring ;;
  if load_pgp_count_bad (zlen r) then Err E_PGP_COUNT else
  match r with e :: _ => load_pgp key e | [] => Panic 4 end.

(* ------------------------------------------------------------------ go-crypto: key selection *)
Definition is_prim (i : ident) : bool := id_has_self i && id_primary i.
(* shouldPreferIdentity(existing, new) *)
Definition should_prefer (ex : option ident) (nw : ident) : bool :=
  match ex with
  | None => true
  | Some x =>
      if id_nrev x >? id_nrev nw then true
      else if id_nrev x <? id_nrev nw then false
      else if negb (id_has_self x) then true
      else if is_prim x && negb (is_prim nw) then false
      else if negb (is_prim x) && is_prim nw then true
      else id_time nw >? id_time x
  end.
Fixpoint primary_identity_from (cur : option ident) (l : list ident) : option ident :=
  match l with
  | [] => cur
  | i :: r => primary_identity_from (if should_prefer cur i then Some i else cur) r
  end.
Definition primary_identity (e : pent) : option ident := primary_identity_from None (pe_idents e).

(* the loop over e.Subkeys: candidateSubkey / maxTime *)
Fixpoint pick_sub (flags id : Z) (mt : Z) (cur : option subk) (l : list subk) : option subk :=
  match l with
  | [] => cur
  | s :: r =>
      if gc_subkey_candidate (sb_flags_valid s) (sb_certify s) (sb_sign s) (sb_cansign s) (sb_keyexp s) (sb_sigexp s) (sb_revoked s)
                             (mt =? 0) (sb_time s >? mt) flags id (kp_id (sb_pkt s))
      then pick_sub flags id (sb_time s) (Some s) r
      else pick_sub flags id mt cur r
  end.

Definition gocrypto_select_shape_ok : bool :=
  gc_signing_key_flags_sign && gc_candidate_init && gc_returns_subkey_pair && gc_returns_primary_pair && gc_uses_primary_identity
  && gc_has_candidate 0 && negb (gc_has_candidate (-1)).

(* Entity.SigningKeyById(now, id): the public-key packet and the private-key packet of the selected key *)
Definition signing_key (e : pent) (id : Z) : result (kpkt * option ppkt) :=
  if negb gocrypto_select_shape_ok then Panic 25 else
  match primary_identity e with
  | None => Panic 21                                   (* nil identity dereferenced *)
  | Some i =>
      if gc_entity_unusable (id_keyexp i) (negb (id_has_self i)) (id_sigexp i) (pe_revoked e) (id_revoked i) then Err E_NOSIGNKEY else
      match pick_sub key_flag_sign id 0 None (pe_subs e) with
      | Some s => Ok (sb_pkt s, sb_priv s)
      | None =>
          if gc_primary_usable (id_flags_valid i) (id_certify i) (id_sign i) (pe_cansign e) key_flag_sign id (kp_id (pe_primary e))
          then Ok (pe_primary e, pe_priv e)
          else Err E_NOSIGNKEY
      end
  end.

(* ------------------------------------------------------------------ emitted signature packets *)
(* what a verifier reads: issuer key id subpacket, issuer fingerprint subpacket (both identify a key packet), the value *)
Record pgpsig : Type := mkPs { ps_keyid : Z; ps_fpr : Z; ps_val : sigv }.

(* packet.Signature.Sign(h, priv, config) on a packet whose IssuerKeyId was set from `keyid_of` *)
Definition sig_sign (keyid_of : kpkt) (p : ppkt) (m : Z) : pgpsig :=
  mkPs (kp_id keyid_of)
       (if gc_sign_fpr_from_priv_packet then kp_id (pp_pub p) else kp_id keyid_of)
       (mkSig (pp_key p) m).

Definition gocrypto_detach_shape_ok : bool :=
  gc_detach_selects_by_config_id && gc_detach_packet_from_selected_public && gc_detach_signs_with_selected_private
  && list_eqb Z.eqb gc_detach_call_order [0; 1; 2; 3]
  && gc_route_DetachSign && gc_route_DetachSignText && gc_route_ArmoredDetachSign && gc_route_ArmoredDetachSignText && gc_route_armoredDetachSign
  && gc_sign_rsa_with_priv_packet_key && gc_sign_ecdsa_with_priv_packet_key.

(* openpgp.detachSign; config_id = config.SigningKey() *)
Definition detach_sign (config_id : Z) (e : pent) (m : Z) : result pgpsig :=
  if negb gocrypto_detach_shape_ok then Panic 26 else
  match signing_key e config_id with
  | Ok (pk, op) =>
      if gc_detach_no_key true then Err E_NOSIGNKEY else
      if gc_detach_no_priv (match op with None => true | Some _ => false end) then Err E_NOPRIV else
      match op with
      | None => Panic 27
      | Some p => if gc_detach_encrypted (pp_enc p) then Err E_ENCRYPTED else Ok (sig_sign pk p m)
      end
  | Err x => if gc_detach_no_key false then Err x else Panic 28
  | Panic x => Panic x
  end.

Definition gocrypto_clearsign_shape_ok : bool :=
  gc_clearsign_encode_one_key && gc_clearsign_keyid_from_packet && gc_clearsign_fpr_from_packet && gc_clearsign_signs_with_packet.

(* clearsign.Encode(w, k, config) ... Close(): issuer and value from the one packet handed in *)
Definition clearsign_encode (k : option ppkt) (m : Z) : result pgpsig :=
  if negb gocrypto_clearsign_shape_ok then Panic 29 else
  match k with
  | None => Panic 23                                   (* nil *packet.PrivateKey dereferenced *)
  | Some p => if pp_enc p then Err E_ENCRYPTED else Ok (sig_sign (pp_pub p) p m)
  end.

(* pgptools.ClearSign(w, signer, ...): the argument class of clearsign.Encode's key (10 = signer.PrivateKey) *)
Definition clear_sign (e : pent) (m : Z) : result pgpsig :=
  if list_eqb Z.eqb site_clearsign_key [10] then clearsign_encode (pe_priv e) m else Panic 30.
(* pgptools.DetachClearSign(w, signer, ...) hands its signer to ClearSign *)
Definition detach_clear_sign (e : pent) (m : Z) : result pgpsig :=
  if list_eqb Z.eqb site_detachclearsign [11] then clear_sign e m else Panic 31.

Definition rpmutils_shape_ok : bool :=
  ru_signs_with_packet && list_eqb Z.eqb ru_sign_calls [0; 0] && ru_pgp_sig_with_key && ru_rsa_sig_with_key.
(* rpmutils.SignRpmStream(r, key, config): header+payload signature and header signature, both from `key` *)
Definition rpm_sign_stream (k : option ppkt) (m : Z) : result (list pgpsig) :=
  if negb rpmutils_shape_ok then Panic 32 else
  match k with
  | None => Panic 23
  | Some p => Ok [sig_sign (pp_pub p) p m; sig_sign (pp_pub p) p m]
  end.

(* ------------------------------------------------------------------ the signer modules *)
(* signers/pgp sign: flags, the 2.0 compatibility switch, the choice of the signing function; the packet.Config literal has
   no SigningKeyId (config.SigningKey() = 0) *)
Definition pgp_signer_shape_ok : bool :=
  pgp_flag_armor && pgp_flag_clearsign && pgp_flag_textmode && list_eqb Z.eqb site_pgp [5] && (zlen pgp_config_fields =? 2).

Definition pgp_sign (clearsign armor textmode miniclear : bool) (e : pent) (m : Z) : result (list pgpsig) :=
  if negb pgp_signer_shape_ok then Panic 33 else
  let clearsign := if miniclear && pgp_compat_mini_clear then true else clearsign in
  let c := pgp_sf_choice clearsign armor textmode in
  if c =? 1 then s <- detach_clear_sign e m ;; Ok [s]
  else if (c =? 2) || (c =? 3) || (c =? 4) || (c =? 5) then s <- detach_sign 0 e m ;; Ok [s]
  else Panic 34.

(* signers/rpm sign: class 6 = cert.PgpKey.PrivateKey *)
Definition rpm_sign (e : pent) (m : Z) : result (list pgpsig) :=
  if list_eqb Z.eqb site_rpm [6] then rpm_sign_stream (pe_priv e) m else Panic 35.

(* signers/deb sign -> signdeb.Sign(r, cert.PgpKey, ...) -> pgptools.ClearSign(signed, signer, ...) *)
Definition deb_sign (e : pent) (m : Z) : result (list pgpsig) :=
  if list_eqb Z.eqb site_deb [5] && list_eqb Z.eqb site_signdeb [11] && (zlen signdeb_config_fields =? 2)
  then s <- clear_sign e m ;; Ok [s] else Panic 36.

(* every PGP-family way of signing: kind 0 signers/pgp with its flags, 1 rpm, 2 deb *)
Record pgpmode : Type := mkMode { md_kind : Z; md_clearsign : bool; md_armor : bool; md_textmode : bool; md_miniclear : bool }.
Definition pgp_emit (md : pgpmode) (e : pent) (m : Z) : result (list pgpsig) :=
  if md_kind md =? 0 then pgp_sign (md_clearsign md) (md_armor md) (md_textmode md) (md_miniclear md) e m
  else if md_kind md =? 1 then rpm_sign e m
  else if md_kind md =? 2 then deb_sign e m
  else Panic 37.

(* one request: load the configured certificate for the token key, then sign *)
Definition pgp_request (key : priv) (e : pent) (md : pgpmode) (m : Z) : result (list pgpsig) :=
  e' <- load_pgp key e ;; pgp_emit md e' m.

(* ------------------------------------------------------------------ independent specification
   Property: "relic never emits [a] PGP signature whose ... public key does not correspond to the private key that
   produced the signature value ... a mismatched key/certificate configuration ... results in an error ... the signature value
   verifies under the [named] public key."  RFC 4880: the issuer (5.2.3.5) and issuer-fingerprint (5.2.3.28) subpackets
   name the key packet that issued the signature.  So: there is a key packet in the configured certificate that BOTH
   subpackets name, and the value verifies under that packet's key material. *)
Definition spec_pgp_sig_ok (cert : list kpkt) (m : Z) (s : pgpsig) : bool :=
  existsb (fun k => (kp_id k =? ps_keyid s) && (kp_id k =? ps_fpr s) && vrfy (kp_pub k) m (ps_val s)) cert.
Definition spec_pgp_out_ok (cert : list kpkt) (m : Z) (r : result (list pgpsig)) : bool :=
  match r with
  | Ok l => forallb (spec_pgp_sig_ok cert m) l && negb (zlen l =? 0)
  | Err _ => true
  | Panic _ => false
  end.
(* a certificate none of whose key packets is the token key is a mismatched configuration: it must be refused *)
Definition spec_pgp_must_fail (key : priv) (e : pent) : bool :=
  negb (existsb (fun k => pub_eqb (kp_pub k) (k_pub key)) (cert_packets e)).
(* the stronger reading "the value is produced by the token key itself" *)
Definition spec_pgp_by_token_key (key : priv) (s : pgpsig) : bool := k_id (s_key (ps_val s)) =? k_id key.

(* ------------------------------------------------------------------ well-formedness of what the parser hands over
   Secret material read from the certificate file itself (a transferable SECRET key given as pgpcertificate): go-crypto's
   ReadEntity sets Subkey.PublicKey = &Subkey.PrivateKey.PublicKey and Entity.PrimaryKey = &Entity.PrivateKey.PublicKey, and a
   secret-key packet carries the secret for its own public half. *)
Definition ppkt_for (k : kpkt) (p : ppkt) : bool := (kp_id (pp_pub p) =? kp_id k) && pub_eqb (kp_pub (pp_pub p)) (kp_pub k) && pub_eqb (kp_pub k) (k_pub (pp_key p)).
Definition sub_file_wf (s : subk) : bool := match sb_priv s with None => true | Some p => ppkt_for (sb_pkt s) p end.
Definition ent_file_wf (e : pent) : bool := forallb sub_file_wf (pe_subs e).
(* the ordinary case: the configured file is a certificate (public parts only) *)
Definition public_only (e : pent) : bool :=
  match pe_priv e with None => true | Some _ => false end && forallb (fun s => match sb_priv s with None => true | Some _ => false end) (pe_subs e).

(* ------------------------------------------------------------------ reviewed inventories (not reachable from the extracted model)
   Where a *packet.PrivateKey is built or stored in lib/certloader, how the signing sites use the entity / the bundle, and the
   third-party versions and issuer fields the model of (A)/(B) was read from.  A new place that pairs a public-key packet with
   a private key, a site that starts reading another part of the entity, or a dependency bump changes a generated list. *)
From Relic Require C07.History.
From Coq Require Strings.String.
Section Reviewed.
Import String.StringSyntax.
Local Open Scope string_scope.
Let zs := C07.History.zs.
Definition blist_is (l : list bytes) (r : list String.string) : bool := list_eqb bytes_eqb l (map zs r).
Definition has_item (l : list bytes) (s : String.string) : bool := existsb (bytes_eqb (zs s)) l.

Definition certloader_privkey_reviewed : bool :=
  blist_is certloader_privkey_inventory
    ["LoadX509KeyPair:set:cert.PrivateKey"; "LoadTokenCertificates:set:cert.PrivateKey"; "LoadTokenCertificates:lit";
     "LoadTokenCertificates:set:entity.PrivateKey"].
Definition pgp_site_uses_reviewed : bool :=
  blist_is uses_clearsign_signer ["signer.PrivateKey"] && blist_is uses_detachclearsign_signer ["signer"]
  && blist_is uses_signdeb_signer ["signer"; "signer"]          (* pgptools.EntityName(signer), pgptools.ClearSign(.., signer, ..) *)
  && blist_is uses_pgp_cert ["cert.PgpKey"] && blist_is uses_rpm_cert ["cert.PgpKey.PrivateKey"] && blist_is uses_deb_cert ["cert.PgpKey"].
Definition pgp_libs_reviewed : bool :=
  bytes_eqb gocrypto_version (zs "v1.0.0") && bytes_eqb rpmutils_version (zs "v0.4.0") && negb pgp_modules_replaced
  && has_item gc_signature_packet_fields "IssuerKeyId=&signer.KeyId" && has_item gc_signature_packet_fields "IssuerFingerprint=signer.Fingerprint"
  && has_item ru_signature_packet_fields "IssuerKeyId=&key.KeyId"
  && negb (existsb (fun f => bytes_eqb (ztake 12 f) (zs "SigningKeyId")) (pgp_config_fields ++ signdeb_config_fields)).
End Reviewed.
