(* C07/Run.v — evaluation of the model and the spec on harness cases. *)
From Relic Require Import Base.Prelude Base.Val Generated.C07_gen C07.Model C07.History C07.Pgp.

Definition vpub (v : val) : pubk :=
  let alg := vz (vnth 0 v) in
  if alg =? 1 then PRsa (vz (vnth 1 v)) (vz (vnth 2 v))
  else if alg =? 2 then PEc (vz (vnth 1 v)) (vz (vnth 2 v)) (vz (vnth 3 v))
  else POther (vz (vnth 1 v)).
(* [kind pub]: kind 0 private key, 1 public key, 2 neither *)
Definition vkeyish (v : val) : keyish :=
  let k := vz (vnth 0 v) in
  if k =? 0 then KPriv (mkPriv 0 (vpub (vnth 1 v))) else if k =? 1 then KPub (vpub (vnth 1 v)) else KJunk.
(* [der pub subj iss]; object identities are positions *)
Fixpoint vcerts (i : Z) (l : list val) : list cert :=
  match l with
  | [] => []
  | v :: r => mkCert i (vz (vnth 0 v)) (vpub (vnth 1 v)) (vz (vnth 2 v)) (vz (vnth 3 v)) :: vcerts (i + 1) r
  end.
(* [is_der bad certs] *)
Definition vsrc (v : val) : certsrc := mkSrc (vbool (vnth 0 v)) (vbool (vnth 1 v)) (vcerts 0 (vl (vnth 2 v))).
Definition vent (v : val) : entity := mkEnt (vz (vnth 0 v)) (vpub (vnth 1 v)).
Definition nonempty (v : val) : bytes := if vbool v then [1] else [].

Definition status {A} (r : result A) : Z := match r with Ok _ => 0 | Err e => e | Panic e => 100 + e end.
Definition ders (l : list cert) : val := VZs (map c_der l).

Definition run_same (v : val) : val :=
  let a := vkeyish (vnth 1 v) in let b := vkeyish (vnth 2 v) in
  VL [of_bool (same_key a b); of_bool (spec_same a b)].

(* [1 keypub xc file(status src) xb blob pc ring(status ents)] *)
Definition run_load (v : val) : val :=
  let key := mkPriv 1 (vpub (vnth 1 v)) in
  let fv := vnth 3 v in
  let file := if vz (vnth 0 fv) =? 0 then Ok (vsrc (vnth 1 fv)) else Err E_READ in
  let rv := vnth 7 v in
  let ring := if vz (vnth 0 rv) =? 0 then Ok (map vent (vl (vnth 1 rv))) else Err (vz (vnth 0 rv)) in
  let r := load_token_certs key (nonempty (vnth 2 v)) file (nonempty (vnth 4 v)) (vsrc (vnth 5 v)) (nonempty (vnth 6 v)) ring in
  let used := if vbool (vnth 2 v) then match file with Ok s => cs_certs s | _ => [] end
              else if vbool (vnth 4 v) then cs_certs (vsrc (vnth 5 v)) else [] in
  match r with
  | Ok b => VL [VZ 0; VZ (match b_leaf b with Some l => c_der l | None => -1 end); ders (chain b); ders (b_certs b);
                VZ (match b_pgp b with Some e => en_id e | None => -1 end);
                of_bool (spec_load key used r); of_bool (spec_must_fail key used)]
  | _ => VL [VZ (status r); VZ (-1); VL []; VL []; VZ (-1); of_bool (spec_load key used r); of_bool (spec_must_fail key used)]
  end.

(* [2 leaf_index certs] *)
Definition run_chain (v : val) : val :=
  let cs := vcerts 0 (vl (vnth 2 v)) in
  let li := vz (vnth 1 v) in
  let b := mkBundle (if li <? 0 then None else nth_error cs (Z.to_nat li)) cs None None in
  ders (chain b).

(* [3 kind keypub certs]: kind 0 pkcs7 builder, 1 xmldsig.Sign, 2 xmldsig.SignEnveloping *)
Definition run_guard (v : val) : val :=
  let key := mkPriv 1 (vpub (vnth 2 v)) in
  let cs := vcerts 0 (vl (vnth 3 v)) in
  let k := vz (vnth 1 v) in
  if k =? 0 then
    let '(r, ops) := builder_sign key cs 7 in
    match r with
    | Ok o => VL [VZ 0; VZ (c_der (o_iss_of o)); VZ (c_der (o_ser_of o)); ders (o_certs o); VZ (zlen ops)]
    | _ => VL [VZ (status r); VZ (-1); VZ (-1); VL []; VZ (zlen ops)]
    end
  else
    let '(r, ops) := xml_sign (k =? 2) key cs 7 in
    match r with
    | Ok o => VL [VZ 0; VZ (c_der (nthc (x_certs o) 0)); VZ (c_der (nthc (x_certs o) 0)); ders (x_certs o); VZ (zlen ops)]
    | _ => VL [VZ (status r); VZ (-1); VZ (-1); VL []; VZ (zlen ops)]
    end.

(* [4 cfg expiry reqs]; cfg entries [name alias token keyfile x509 pgp]; reqs [name fresh want_len ids_equal];
   every key file k holds private key number k.  Output per request: [status keyfile x509 pgp spec_agrees] *)
Definition vkc (v : val) : keyconf :=
  mkKc (vz (vnth 0 v)) (vz (vnth 1 v)) (vz (vnth 2 v)) (vz (vnth 3 v)) (vz (vnth 4 v)) (vz (vnth 5 v)).
Fixpoint run_reqs (base : Z -> result fkey) (c : cfg) (exp : Z) (s : cache) (reqs : list val) : list val :=
  match reqs with
  | [] => []
  | q :: r =>
      let n := vz (vnth 0 q) in
      let '(res, s') := cache_get_key base exp s n (vbool (vnth 1 q)) (vz (vnth 2 q)) (vbool (vnth 3 q)) in
      (match res with
       | Ok k => VL [VZ 0; VZ (k_id (fk_priv k)); VZ (kc_x509 (fk_conf k)); VZ (kc_pgp (fk_conf k));
                     of_bool (match spec_resolve c n with
                              | Some kc => (kc_keyfile kc =? k_id (fk_priv k)) && (kc_x509 kc =? kc_x509 (fk_conf k))
                              | None => false end)]
       | _ => VL [VZ (status res); VZ 0; VZ 0; VZ 0; VZ 1]
       end) :: run_reqs base c exp s' r
  end.
Definition run_lookup (v : val) : val :=
  let c := map vkc (vl (vnth 1 v)) in
  let base := token_get_key c (fun f => Ok (mkPriv f (POther f))) in
  VL (run_reqs base c (vz (vnth 2 v)) [] (vl (vnth 3 v))).

(* [5 site_id keypub src]: the whole flow for one signing site; output [status leaf_der chain_ders spec_ok must_fail] *)
Definition run_flow (v : val) : val :=
  let key := mkPriv 1 (vpub (vnth 2 v)) in
  let s := vsrc (vnth 3 v) in
  let id := vz (vnth 1 v) in
  match find (fun st => st_id st =? id) sites with
  | None => VL [VZ 999]
  | Some st =>
      let r := sign_x509 key s st 7 in
      match r with
      | Ok e => VL [VZ 0; VZ (c_der (em_leaf e)); ders (em_chain e); of_bool (spec_emitted key 7 e); of_bool (spec_must_fail key (cs_certs s))]
      | _ => VL [VZ (status r); VZ (-1); VL []; VZ 1; of_bool (spec_must_fail key (cs_certs s))]
      end
  end.

(* [6 cfg expiry keyfiles x509files pgpfiles events]: a history inside one process.
   cfg entries [name alias token keyfile x509 pgp]; keyfiles [file status [kid pub] blobsrc]; x509files [file status src];
   pgpfiles [file status ents]; events [0 file status [kid pub] blobsrc] | [1 file status src] | [2 file status ents]
   | [3 name fresh want_len ids_equal certtypes kind site_or_class msg] (kind 0 X.509 site id, 1 PGP argument class).
   Output per request: [status leaf_der chain_ders signing_key_id pgp_entity_id spec_ok] *)
Definition vpriv (v : val) : priv := mkPriv (vz (vnth 0 v)) (vpub (vnth 1 v)).
Definition vkeyfile (st : Z) (k blob : val) : result (priv * certsrc) :=
  if st =? 0 then Ok (vpriv k, vsrc blob) else Err st.
Definition vx509file (st : Z) (src : val) : result certsrc := if st =? 0 then Ok (vsrc src) else Err st.
Definition vpgpfile (st : Z) (ents : val) : result (list entity) := if st =? 0 then Ok (map vent (vl ents)) else Err st.
Fixpoint vfiles {A} (mk : val -> A) (dflt : A) (l : list val) : Z -> A :=
  match l with
  | [] => fun _ => dflt
  | v :: r => upd (vfiles mk dflt r) (vz (vnth 0 v)) (mk v)
  end.
Definition vsigner (kind id : Z) : signer :=
  if kind =? 0 then
    match find (fun st => st_id st =? id) sites with Some st => SgX509 st | None => SgX509 (mkSite id GNone 0 0 0) end
  else SgPgp id.
Definition vevent (v : val) : event :=
  let k := vz (vnth 0 v) in
  if k =? 0 then EKey (vz (vnth 1 v)) (vkeyfile (vz (vnth 2 v)) (vnth 3 v) (vnth 4 v))
  else if k =? 1 then EX509 (vz (vnth 1 v)) (vx509file (vz (vnth 2 v)) (vnth 3 v))
  else if k =? 2 then EPgp (vz (vnth 1 v)) (vpgpfile (vz (vnth 2 v)) (vnth 3 v))
  else EReq (mkReq (vz (vnth 1 v)) (vbool (vnth 2 v)) (vz (vnth 3 v)) (vbool (vnth 4 v)) (vz (vnth 5 v))
                   (vsigner (vz (vnth 6 v)) (vz (vnth 7 v))) (vz (vnth 8 v))).
Definition hist_out (t : world * hcache * request * result outv) : val :=
  let q := snd (fst t) in
  match snd t with
  | Ok (OX509 e) => VL [VZ 0; VZ (c_der (em_leaf e)); ders (em_chain e); VZ (k_id (s_key (em_sig e))); VZ (-1);
                        of_bool (spec_output_ok (q_msg q) (OX509 e))]
  | Ok (OPgp en sg) => VL [VZ 0; VZ (-1); VL []; VZ (k_id (s_key sg)); VZ (en_id en); of_bool (spec_output_ok (q_msg q) (OPgp en sg))]
  | r => VL [VZ (status r); VZ (-1); VL []; VZ (-1); VZ (-1); VZ 1]
  end.
Definition run_hist (v : val) : val :=
  let c := map vkc (vl (vnth 1 v)) in
  let w := mkWorld (vfiles (fun x => vkeyfile (vz (vnth 1 x)) (vnth 2 x) (vnth 3 x)) (Err E_READ) (vl (vnth 3 v)))
                   (vfiles (fun x => vx509file (vz (vnth 1 x)) (vnth 2 x)) (Err E_READ) (vl (vnth 4 v)))
                   (vfiles (fun x => vpgpfile (vz (vnth 1 x)) (vnth 2 x)) (Err E_READ) (vl (vnth 5 v))) in
  VL (map hist_out (History.run c (vz (vnth 2 v)) w [] (map vevent (vl (vnth 6 v))))).

(* [7 [kid keypub] ent modes msg]: OpenPGP certificate structure x PGP-family signers (C07/Pgp.v).
   ent = [pe_id kp cansign revoked idents subs privopt]; kp = [id pub];
   ident = [nrev has_self primary time flags_valid certify sign sigexp revoked keyexp];
   sub = [kp flags_valid certify sign cansign keyexp sigexp revoked time privopt]; privopt = [] | [kp enc [kid pub]];
   modes = [[kind clearsign armor textmode miniclear] ...].
   Output: [load_status must_fail file_wf [[status [[keyid fpr made_by_kid spec_ok by_token_key] ...]] ...]] *)
Definition vkp (v : val) : kpkt := mkKp (vz (vnth 0 v)) (vpub (vnth 1 v)).
Definition vppkt (v : val) : option ppkt :=
  match vl v with [] => None | _ => Some (mkPp (vkp (vnth 0 v)) (vbool (vnth 1 v)) (vpriv (vnth 2 v))) end.
Definition vident (v : val) : ident :=
  mkId (vz (vnth 0 v)) (vbool (vnth 1 v)) (vbool (vnth 2 v)) (vz (vnth 3 v)) (vbool (vnth 4 v)) (vbool (vnth 5 v)) (vbool (vnth 6 v))
       (vbool (vnth 7 v)) (vbool (vnth 8 v)) (vbool (vnth 9 v)).
Definition vsubk (v : val) : subk :=
  mkSub (vkp (vnth 0 v)) (vbool (vnth 1 v)) (vbool (vnth 2 v)) (vbool (vnth 3 v)) (vbool (vnth 4 v)) (vbool (vnth 5 v)) (vbool (vnth 6 v))
        (vbool (vnth 7 v)) (vz (vnth 8 v)) (vppkt (vnth 9 v)).
Definition vpent (v : val) : pent :=
  mkPent (vz (vnth 0 v)) (vkp (vnth 1 v)) (vbool (vnth 2 v)) (vbool (vnth 3 v)) (map vident (vl (vnth 4 v))) (map vsubk (vl (vnth 5 v))) (vppkt (vnth 6 v)).
Definition vmode (v : val) : pgpmode := mkMode (vz (vnth 0 v)) (vbool (vnth 1 v)) (vbool (vnth 2 v)) (vbool (vnth 3 v)) (vbool (vnth 4 v)).
Definition run_pgp (v : val) : val :=
  let key := vpriv (vnth 1 v) in
  let e := vpent (vnth 2 v) in
  let m := vz (vnth 4 v) in
  let one (mv : val) : val :=
    let r := pgp_request key e (vmode mv) m in
    match r with
    | Ok l => VL [VZ 0; VL (map (fun s => VL [VZ (ps_keyid s); VZ (ps_fpr s); VZ (k_id (s_key (ps_val s)));
                                              of_bool (spec_pgp_sig_ok (cert_packets e) m s); of_bool (spec_pgp_by_token_key key s)]) l)]
    | _ => VL [VZ (status r); VL []]
    end in
  VL [VZ (status (load_pgp key e)); of_bool (spec_pgp_must_fail key e); of_bool (ent_file_wf e); VL (map one (vl (vnth 3 v)))].

Definition run (v : val) : val :=
  let op := vz (vnth 0 v) in
  if op =? 0 then run_same v
  else if op =? 1 then run_load v
  else if op =? 2 then run_chain v
  else if op =? 3 then run_guard v
  else if op =? 4 then run_lookup v
  else if op =? 5 then run_flow v
  else if op =? 6 then run_hist v
  else if op =? 7 then run_pgp v
  else VL [].
