(* C07/PgpProofs.v — lemmas behind the OpenPGP theorems of C07/Properties.v *)
From Relic Require Import Base.Prelude Generated.C07_gen C07.Model C07.Proofs C07.Pgp.

(* ------------------------------------------------------------------ the reviewed shapes *)
Lemma loader_shape : pgp_loader_shape_ok = true.
Proof. reflexivity. Qed.
Lemma select_shape : gocrypto_select_shape_ok = true.
Proof. reflexivity. Qed.
Lemma detach_shape : gocrypto_detach_shape_ok = true.
Proof. reflexivity. Qed.
Lemma clearsign_shape : gocrypto_clearsign_shape_ok = true.
Proof. reflexivity. Qed.
Lemma rpmutils_shape : rpmutils_shape_ok = true.
Proof. reflexivity. Qed.
Lemma pgp_signer_shape : pgp_signer_shape_ok = true.
Proof. reflexivity. Qed.
Lemma privkey_inventory : certloader_privkey_reviewed = true.
Proof. vm_compute. reflexivity. Qed.
Lemma site_uses : pgp_site_uses_reviewed = true.
Proof. vm_compute. reflexivity. Qed.
Lemma libs_reviewed : pgp_libs_reviewed = true.
Proof. vm_compute. reflexivity. Qed.

(* ------------------------------------------------------------------ loader *)
Definition loaded (key : priv) (e : pent) : pent := set_priv e (Some (mkPp (pe_primary e) false key)).

Lemma load_pgp_ok key e e' :
  load_pgp key e = Ok e' ->
  e' = loaded key e /\ same_key (KPriv key) (KPub (kp_pub (pe_primary e))) = true.
Proof.
  unfold load_pgp. rewrite loader_shape. cbn [negb load_pgp_priv_pub Z.eqb Pos.eqb load_pgp_priv_enc pp_pub].
  unfold load_pgp_mismatch. destruct (same_key (KPriv key) (KPub (kp_pub (pe_primary e)))) eqn:S; cbn [negb]; [|discriminate].
  intro H. injection H as <-. split; reflexivity.
Qed.

Lemma load_pgp_total key e :
  load_pgp key e = if same_key (KPriv key) (KPub (kp_pub (pe_primary e))) then Ok (loaded key e) else Err E_MISMATCH.
Proof.
  unfold load_pgp. rewrite loader_shape. cbn [negb load_pgp_priv_pub Z.eqb Pos.eqb load_pgp_priv_enc pp_pub].
  unfold load_pgp_mismatch. destruct (same_key (KPriv key) (KPub (kp_pub (pe_primary e)))); reflexivity.
Qed.

Lemma load_pgp_mismatch_err key e :
  same_key (KPriv key) (KPub (kp_pub (pe_primary e))) = false -> load_pgp key e = Err E_MISMATCH.
Proof. intro H. rewrite load_pgp_total, H. reflexivity. Qed.

Lemma same_key_false_of_unequal key p :
  curve_ok (k_pub key) p = true -> pub_eqb p (k_pub key) = false -> same_key (KPriv key) (KPub p) = false.
Proof.
  intros Hc Hn. destruct (same_key (KPriv key) (KPub p)) eqn:S; [|reflexivity].
  rewrite (key_cert_equal key p S Hc) in Hn. discriminate.
Qed.

(* primary key is not the token key: refused, whatever the subkeys are (a subkey equal to the token key included) *)
Lemma load_pgp_other_primary key e :
  curve_ok (k_pub key) (kp_pub (pe_primary e)) = true -> pub_eqb (kp_pub (pe_primary e)) (k_pub key) = false ->
  load_pgp key e = Err E_MISMATCH.
Proof. intros Hc Hn. apply load_pgp_mismatch_err. apply same_key_false_of_unequal; assumption. Qed.

Lemma load_pgp_unrelated key e :
  curve_ok (k_pub key) (kp_pub (pe_primary e)) = true -> spec_pgp_must_fail key e = true -> load_pgp key e = Err E_MISMATCH.
Proof.
  intros Hc Hm. apply load_pgp_other_primary; [exact Hc|].
  unfold spec_pgp_must_fail, cert_packets in Hm. cbn [existsb] in Hm. apply negb_true_iff in Hm. apply orb_false_iff in Hm as [Hm _]. exact Hm.
Qed.

Lemma load_pgp_matching key e :
  kp_pub (pe_primary e) = k_pub key -> supported (k_pub key) = true -> load_pgp key e = Ok (loaded key e).
Proof.
  intros Hp Hs. rewrite load_pgp_total.
  rewrite (same_key_complete (KPriv key) (KPub (kp_pub (pe_primary e))) (k_pub key)); cbn; congruence.
Qed.

(* ------------------------------------------------------------------ key selection *)
Lemma pick_sub_in flags id mt cur l s :
  pick_sub flags id mt cur l = Some s -> cur = Some s \/ In s l.
Proof.
  revert mt cur. induction l as [|x l IH]; intros mt cur H; cbn in H; [left; exact H|].
  destruct (gc_subkey_candidate _ _ _ _ _ _ _ _ _ _ _ _) in H.
  - apply IH in H as [H|H]; [injection H as <-; right; left; reflexivity|right; right; exact H].
  - apply IH in H as [H|H]; [left; exact H|right; right; exact H].
Qed.

Lemma signing_key_cases e id pk op :
  signing_key e id = Ok (pk, op) ->
  (pk = pe_primary e /\ op = pe_priv e /\ pick_sub key_flag_sign id 0 None (pe_subs e) = None)
  \/ (exists s, In s (pe_subs e) /\ pk = sb_pkt s /\ op = sb_priv s /\ pick_sub key_flag_sign id 0 None (pe_subs e) = Some s).
Proof.
  unfold signing_key. rewrite select_shape. cbn [negb].
  destruct (primary_identity e) as [i|]; [|discriminate].
  destruct (gc_entity_unusable _ _ _ _ _); [discriminate|].
  destruct (pick_sub key_flag_sign id 0 None (pe_subs e)) as [s|] eqn:P.
  - intro H. injection H as <- <-. right. exists s. apply pick_sub_in in P as [P|P]; [discriminate|]. auto.
  - destruct (gc_primary_usable _ _ _ _ _ _ _); [|discriminate]. intro H. injection H as <- <-. left. auto.
Qed.

(* ------------------------------------------------------------------ the signing sites after a successful load *)
Lemma vrfy_self k m : vrfy (k_pub k) m (mkSig k m) = true.
Proof. unfold vrfy. cbn. rewrite pub_eqb_refl, Z.eqb_refl. reflexivity. Qed.

Lemma spec_primary_sig key e m :
  pub_eqb (kp_pub (pe_primary e)) (k_pub key) = true ->
  spec_pgp_sig_ok (cert_packets e) m (sig_sign (pe_primary e) (mkPp (pe_primary e) false key) m) = true.
Proof.
  intro H. unfold spec_pgp_sig_ok, cert_packets, sig_sign. cbn [existsb gc_sign_fpr_from_priv_packet ps_keyid ps_fpr ps_val pp_pub pp_key].
  rewrite !Z.eqb_refl. unfold vrfy. cbn. rewrite H, Z.eqb_refl. reflexivity.
Qed.

Lemma spec_sub_sig e s p m :
  In s (pe_subs e) -> ppkt_for (sb_pkt s) p = true ->
  spec_pgp_sig_ok (cert_packets e) m (sig_sign (sb_pkt s) p m) = true.
Proof.
  intros Hin Hw. unfold ppkt_for in Hw. apply andb_true_iff in Hw as [Hw H3]. apply andb_true_iff in Hw as [H1 H2].
  unfold spec_pgp_sig_ok. apply existsb_exists. exists (sb_pkt s). split.
  - unfold cert_packets. right. apply in_map. exact Hin.
  - unfold sig_sign. cbn [gc_sign_fpr_from_priv_packet ps_keyid ps_fpr ps_val]. rewrite Z.eqb_refl. apply Z.eqb_eq in H1. rewrite H1, Z.eqb_refl.
    unfold vrfy. cbn. rewrite H3, Z.eqb_refl. reflexivity.
Qed.

Lemma ent_file_wf_sub e s p : ent_file_wf e = true -> In s (pe_subs e) -> sb_priv s = Some p -> ppkt_for (sb_pkt s) p = true.
Proof.
  unfold ent_file_wf. rewrite forallb_forall. intros H Hin Hp. specialize (H s Hin). unfold sub_file_wf in H. rewrite Hp in H. exact H.
Qed.

(* detachSign on a loaded entity *)
Lemma detach_sign_loaded key e m sg :
  detach_sign 0 (loaded key e) m = Ok sg ->
  (sg = sig_sign (pe_primary e) (mkPp (pe_primary e) false key) m /\ pick_sub key_flag_sign 0 0 None (pe_subs e) = None)
  \/ (exists s p, In s (pe_subs e) /\ sb_priv s = Some p /\ pp_enc p = false /\ sg = sig_sign (sb_pkt s) p m).
Proof.
  unfold detach_sign. rewrite detach_shape. cbn [negb].
  destruct (signing_key (loaded key e) 0) as [[pk op]|x|x] eqn:K; cbn [gc_detach_no_key negb]; try discriminate.
  apply signing_key_cases in K. cbn [loaded set_priv pe_primary pe_priv pe_subs] in K.
  destruct K as [(-> & -> & Hn)|(s & Hin & -> & -> & _)].
  - cbn [gc_detach_no_priv gc_detach_encrypted pp_enc]. intro H. injection H as <-. left. auto.
  - destruct (sb_priv s) as [p|] eqn:Hp; cbn [gc_detach_no_priv]; [|discriminate].
    unfold gc_detach_encrypted. destruct (pp_enc p) eqn:He; [discriminate|]. intro H. injection H as <-. right. exists s, p. auto.
Qed.

Lemma clear_sign_loaded key e m : clear_sign (loaded key e) m = Ok (sig_sign (pe_primary e) (mkPp (pe_primary e) false key) m).
Proof. unfold clear_sign, clearsign_encode. rewrite clearsign_shape. reflexivity. Qed.

Lemma rpm_sign_loaded key e m :
  rpm_sign (loaded key e) m = Ok [sig_sign (pe_primary e) (mkPp (pe_primary e) false key) m; sig_sign (pe_primary e) (mkPp (pe_primary e) false key) m].
Proof. unfold rpm_sign, rpm_sign_stream. rewrite rpmutils_shape. reflexivity. Qed.

(* every signature of every mode is either the primary-packet signature by the token key or a file-subkey signature *)
Definition sig_from (key : priv) (e : pent) (m : Z) (sg : pgpsig) : Prop :=
  sg = sig_sign (pe_primary e) (mkPp (pe_primary e) false key) m
  \/ (exists s p, In s (pe_subs e) /\ sb_priv s = Some p /\ pp_enc p = false /\ sg = sig_sign (sb_pkt s) p m).

Lemma pgp_emit_loaded key e md m l :
  pgp_emit md (loaded key e) m = Ok l -> l <> [] /\ forall sg, In sg l -> sig_from key e m sg.
Proof.
  unfold pgp_emit. destruct (md_kind md =? 0).
  - unfold pgp_sign. rewrite pgp_signer_shape. cbn [negb].
    set (cs := if md_miniclear md && pgp_compat_mini_clear then true else md_clearsign md).
    unfold pgp_sf_choice. destruct cs.
    + cbn [Z.eqb Pos.eqb]. unfold detach_clear_sign. cbn [site_detachclearsign list_eqb Z.eqb Pos.eqb andb]. rewrite clear_sign_loaded. cbn [bind].
      intro H. injection H as <-. split; [discriminate|]. intros sg [<-|[]]. left. reflexivity.
    + assert (D : forall c, ((c =? 2) || (c =? 3) || (c =? 4) || (c =? 5)) = true -> (c =? 1) = false ->
                  (if c =? 1 then s <- detach_clear_sign (loaded key e) m;; Ok [s]
                   else if (c =? 2) || (c =? 3) || (c =? 4) || (c =? 5) then s <- detach_sign 0 (loaded key e) m;; Ok [s] else Panic 34) = Ok l ->
                  l <> [] /\ (forall sg, In sg l -> sig_from key e m sg)).
      { intros c Hc H1. rewrite H1, Hc. destruct (detach_sign 0 (loaded key e) m) as [sg|x|x] eqn:D; cbn [bind]; try discriminate.
        intro H. injection H as <-. split; [discriminate|]. intros sg' [<-|[]].
        apply detach_sign_loaded in D as [[-> _]|(s & p & H)]; [left; reflexivity|right; exists s, p; exact H]. }
      destruct (md_armor md), (md_textmode md); apply D; reflexivity.
  - destruct (md_kind md =? 1).
    + rewrite rpm_sign_loaded. intro H. injection H as <-. split; [discriminate|]. intros sg [<-|[<-|[]]]; left; reflexivity.
    + destruct (md_kind md =? 2); [|discriminate]. unfold deb_sign. cbn [site_deb site_signdeb signdeb_config_fields list_eqb Z.eqb Pos.eqb andb zlen length Z.of_nat Pos.of_succ_nat Pos.succ].
      rewrite clear_sign_loaded. cbn [bind]. intro H. injection H as <-. split; [discriminate|]. intros sg [<-|[]]. left. reflexivity.
Qed.

(* ------------------------------------------------------------------ main theorems *)
Definition curve_hyp_pgp (key : priv) (e : pent) : Prop := curve_ok (k_pub key) (kp_pub (pe_primary e)) = true.

Lemma sig_from_spec key e m sg :
  ent_file_wf e = true -> pub_eqb (kp_pub (pe_primary e)) (k_pub key) = true -> sig_from key e m sg ->
  spec_pgp_sig_ok (cert_packets e) m sg = true.
Proof.
  intros Hw Hp [->|(s & p & Hin & Hs & _ & ->)].
  - apply spec_primary_sig. exact Hp.
  - apply spec_sub_sig; [exact Hin|]. eapply ent_file_wf_sub; eauto.
Qed.

(* every emitted signature names (key id AND fingerprint) a key packet of the configured certificate under which its value verifies *)
Lemma pgp_request_sound key e md m l :
  ent_file_wf e = true -> curve_hyp_pgp key e ->
  pgp_request key e md m = Ok l ->
  l <> [] /\ forallb (spec_pgp_sig_ok (cert_packets e) m) l = true.
Proof.
  intros Hw Hc. unfold pgp_request, bind. destruct (load_pgp key e) as [e'|x|x] eqn:L; try discriminate.
  apply load_pgp_ok in L as [-> S]. pose proof (key_cert_equal key _ S Hc) as Hp.
  intro H. apply pgp_emit_loaded in H as [Hne Hall]. split; [exact Hne|].
  apply forallb_forall. intros sg Hin. apply sig_from_spec with (key := key); auto.
Qed.

(* never a panic on a parsed certificate (at least one user id) *)
Lemma primary_identity_from_some cur l : (cur <> None \/ l <> []) -> primary_identity_from cur l <> None.
Proof.
  revert cur. induction l as [|i l IH]; intros cur [H|H]; cbn; try congruence.
  - apply IH. left. destruct (should_prefer cur i); [discriminate|exact H].
  - apply IH. left. destruct cur as [c|]; [destruct (should_prefer (Some c) i); discriminate|cbn; discriminate].
Qed.

Lemma signing_key_no_panic e id x : pe_idents e <> [] -> signing_key e id <> Panic x.
Proof.
  intros Hi. unfold signing_key. rewrite select_shape. cbn [negb].
  destruct (primary_identity e) as [i|] eqn:P.
  - destruct (gc_entity_unusable _ _ _ _ _); [discriminate|]. destruct (pick_sub _ _ _ _ _); [discriminate|].
    destruct (gc_primary_usable _ _ _ _ _ _ _); discriminate.
  - exfalso. unfold primary_identity in P. revert P. apply primary_identity_from_some. right. exact Hi.
Qed.

Lemma detach_sign_no_panic key e m x : pe_idents e <> [] -> detach_sign 0 (loaded key e) m <> Panic x.
Proof.
  intros Hi. unfold detach_sign. rewrite detach_shape. cbn [negb].
  destruct (signing_key (loaded key e) 0) as [[pk op]|y|y] eqn:K.
  - cbn [gc_detach_no_key negb]. destruct op as [p|]; cbn [gc_detach_no_priv]; [|discriminate].
    unfold gc_detach_encrypted. destruct (pp_enc p); discriminate.
  - cbn. discriminate.
  - exfalso. revert K. apply signing_key_no_panic. exact Hi.
Qed.

Lemma pgp_request_meets_spec key e md m :
  ent_file_wf e = true -> curve_hyp_pgp key e -> pe_idents e <> [] -> (0 <= md_kind md <= 2) ->
  spec_pgp_out_ok (cert_packets e) m (pgp_request key e md m) = true.
Proof.
  intros Hw Hc Hi Hk. destruct (pgp_request key e md m) as [l|x|x] eqn:R.
  - apply pgp_request_sound in R as [Hne Hall]; auto. cbn. rewrite Hall. destruct l; [congruence|]. rewrite zlen_cons. pose proof (zlen_nonneg l).
    replace (1 + zlen l =? 0) with false by lia. reflexivity.
  - reflexivity.
  - exfalso. unfold pgp_request, bind in R. rewrite load_pgp_total in R.
    destruct (same_key (KPriv key) (KPub (kp_pub (pe_primary e)))); [|discriminate].
    unfold pgp_emit in R. destruct (md_kind md =? 0) eqn:K0.
    + unfold pgp_sign in R. rewrite pgp_signer_shape in R. cbn [negb] in R.
      revert R. set (cs := if md_miniclear md && pgp_compat_mini_clear then true else md_clearsign md). unfold pgp_sf_choice.
      destruct cs.
      * cbn [Z.eqb Pos.eqb]. unfold detach_clear_sign. cbn [site_detachclearsign list_eqb Z.eqb Pos.eqb andb]. rewrite clear_sign_loaded. discriminate.
      * destruct (md_armor md), (md_textmode md); cbn [Z.eqb Pos.eqb orb];
          (destruct (detach_sign 0 (loaded key e) m) as [sg|y|y] eqn:D; cbn [bind]; try discriminate;
           exfalso; revert D; apply detach_sign_no_panic; exact Hi).
    + destruct (md_kind md =? 1) eqn:K1; [rewrite rpm_sign_loaded in R; discriminate|].
      destruct (md_kind md =? 2) eqn:K2; [|lia].
      unfold deb_sign in R. cbn [site_deb site_signdeb signdeb_config_fields list_eqb Z.eqb Pos.eqb andb zlen length Z.of_nat Pos.of_succ_nat Pos.succ] in R.
      rewrite clear_sign_loaded in R. discriminate.
Qed.

(* a certificate file with public parts only: the value is made by the token key and the issuer is the primary key packet,
   whose key material is the token key's; a detached signature is emitted only when go-crypto selects no subkey *)
Lemma public_only_subs e s : public_only e = true -> In s (pe_subs e) -> sb_priv s = None.
Proof.
  unfold public_only. intros H Hin. apply andb_true_iff in H as [_ H]. rewrite forallb_forall in H. specialize (H s Hin).
  destruct (sb_priv s); [discriminate|reflexivity].
Qed.

Lemma pgp_public_cert key e md m l sg :
  public_only e = true -> curve_hyp_pgp key e ->
  pgp_request key e md m = Ok l -> In sg l ->
  s_key (ps_val sg) = key /\ ps_keyid sg = kp_id (pe_primary e) /\ ps_fpr sg = kp_id (pe_primary e)
  /\ pub_eqb (kp_pub (pe_primary e)) (k_pub key) = true.
Proof.
  intros Hpo Hc. unfold pgp_request, bind. destruct (load_pgp key e) as [e'|x|x] eqn:L; try discriminate.
  apply load_pgp_ok in L as [-> S]. pose proof (key_cert_equal key _ S Hc) as Hp.
  intros H Hin. apply pgp_emit_loaded in H as [_ Hall]. destruct (Hall sg Hin) as [->|(s & p & Hs & Hpr & _)].
  - cbn. auto.
  - rewrite (public_only_subs e s Hpo Hs) in Hpr. discriminate.
Qed.

Lemma pgp_detached_only_without_selected_subkey key e m sg :
  public_only e = true -> detach_sign 0 (loaded key e) m = Ok sg -> pick_sub key_flag_sign 0 0 None (pe_subs e) = None.
Proof.
  intros Hpo D. apply detach_sign_loaded in D as [[_ H]|(s & p & Hs & Hpr & _)]; [exact H|].
  rewrite (public_only_subs e s Hpo Hs) in Hpr. discriminate.
Qed.

Lemma pgp_request_mismatch key e md m :
  curve_hyp_pgp key e -> pub_eqb (kp_pub (pe_primary e)) (k_pub key) = false -> pgp_request key e md m = Err E_MISMATCH.
Proof. intros Hc Hn. unfold pgp_request. rewrite (load_pgp_other_primary key e Hc Hn). reflexivity. Qed.

Lemma pgp_request_unrelated key e md m :
  curve_hyp_pgp key e -> spec_pgp_must_fail key e = true -> pgp_request key e md m = Err E_MISMATCH.
Proof. intros Hc Hm. unfold pgp_request. rewrite (load_pgp_unrelated key e Hc Hm). reflexivity. Qed.

(* a certificate whose primary key is the token key signs in every mode that uses entity.PrivateKey *)
Lemma pgp_matching_clearsign key e m :
  kp_pub (pe_primary e) = k_pub key -> supported (k_pub key) = true ->
  pgp_request key e (mkMode 0 true false false false) m = Ok [mkPs (kp_id (pe_primary e)) (kp_id (pe_primary e)) (mkSig key m)]
  /\ pgp_request key e (mkMode 1 false false false false) m
     = Ok [mkPs (kp_id (pe_primary e)) (kp_id (pe_primary e)) (mkSig key m); mkPs (kp_id (pe_primary e)) (kp_id (pe_primary e)) (mkSig key m)]
  /\ pgp_request key e (mkMode 2 false false false false) m = Ok [mkPs (kp_id (pe_primary e)) (kp_id (pe_primary e)) (mkSig key m)].
Proof.
  intros Hp Hs. unfold pgp_request. rewrite (load_pgp_matching key e Hp Hs). cbn [bind]. split; [|split].
  - unfold pgp_emit. cbn [md_kind Z.eqb]. unfold pgp_sign. rewrite pgp_signer_shape. cbn [negb md_clearsign md_miniclear andb pgp_sf_choice Z.eqb Pos.eqb].
    unfold detach_clear_sign. cbn [site_detachclearsign list_eqb Z.eqb Pos.eqb andb]. rewrite clear_sign_loaded. reflexivity.
  - unfold pgp_emit. cbn [md_kind Z.eqb Pos.eqb]. rewrite rpm_sign_loaded. reflexivity.
  - unfold pgp_emit. cbn [md_kind Z.eqb Pos.eqb]. unfold deb_sign.
    cbn [site_deb site_signdeb signdeb_config_fields list_eqb Z.eqb Pos.eqb andb zlen length Z.of_nat Pos.of_succ_nat Pos.succ]. rewrite clear_sign_loaded. reflexivity.
Qed.

(* agreement with the coarser loader model of C07/Model.v (same guard, same error) *)
Lemma load_pgp_refines key e :
  match load_pgp_ring key (Ok [e]), load_token_certs key [] (Err E_READ) [] (mkSrc true false []) [1] (Ok [to_entity e]) with
  | Ok e', Ok b => b_pgp b = Some (to_entity e') /\ b_priv b = Some key /\ b_leaf b = None
  | Err a, Err b => a = b
  | _, _ => False
  end.
Proof.
  assert (R : load_pgp_ring key (Ok [e]) = load_pgp key e) by reflexivity. rewrite R. rewrite load_pgp_total.
  unfold load_token_certs, bind. cbn [load_case_file load_case_blob load_has_pgp]. cbn -[same_key].
  unfold load_pgp_mismatch. destruct (same_key (KPriv key) (KPub (kp_pub (pe_primary e)))); cbn; auto.
Qed.

(* the stronger reading "the value is made by the token key" fails when the configured file itself carries an unencrypted
   secret signing subkey: go-crypto selects that subkey and signs with the secret from the FILE; the signature is still
   consistent (it names the subkey and verifies under it) *)
Definition ex_id : ident := mkId 0 true true 100 true true true false false false.
Definition wit_key : priv := mkPriv 1 (PRsa 77 65537).
Definition wit_sub_secret : priv := mkPriv 2 (PRsa 91 65537).
Definition wit_ent : pent :=
  mkPent 500 (mkKp 10 (PRsa 77 65537)) true false [ex_id]
         [mkSub (mkKp 11 (PRsa 91 65537)) true false true true false false false 200 (Some (mkPp (mkKp 11 (PRsa 91 65537)) false wit_sub_secret))] None.
Lemma token_key_bypassed_by_secret_subkey :
  exists key e md m sg,
    ent_file_wf e = true /\ pgp_request key e md m = Ok [sg] /\ spec_pgp_sig_ok (cert_packets e) m sg = true
    /\ spec_pgp_by_token_key key sg = false.
Proof. exists wit_key, wit_ent, (mkMode 0 false false false false), 5, (mkPs 11 11 (mkSig wit_sub_secret 5)). vm_compute. auto. Qed.
