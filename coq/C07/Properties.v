(* C07/Properties.v — property theorems only. Each is closed by a lemma of C07/Proofs.v. *)
From Relic Require Import Base.Prelude Generated.C07_gen C07.Model C07.Proofs.

(* 1. SameKey answers "same public key": sound up to the curve identifier, complete on RSA/ECDSA keys *)
Theorem same_key_sound : forall a b, same_key a b = true ->
  exists p q, pub_of a = Some p /\ pub_of b = Some q /\ supported p = true /\ (curve_ok p q = true -> p = q).
Proof. exact C07.Proofs.same_key_sound. Qed.
Theorem same_key_complete : forall a b p,
  pub_of a = Some p -> pub_of b = Some p -> supported p = true -> same_key a b = true.
Proof. exact C07.Proofs.same_key_complete. Qed.
Theorem same_key_eq_spec : forall a b,
  (forall p q, pub_of a = Some p -> pub_of b = Some q -> curve_ok p q = true /\ supported p = true) ->
  same_key a b = spec_same a b.
Proof. exact C07.Proofs.same_key_agrees_with_spec. Qed.
(* the full statement (no hypothesis on curves) is false of the code as written: the curve is not compared *)
Theorem same_key_full_refuted : exists a b, same_key a b = true /\ spec_same a b = false.
Proof. exact C07.Proofs.same_key_ignores_curve. Qed.

(* 2. loader invariant: every bundle LoadTokenCertificates returns has the token key as private key, its leaf is the
      first certificate of the source that was used and SameKey accepted it; likewise the PGP entity *)
Theorem loader_invariant : forall key xc file xb blob pc ring b,
  load_token_certs key xc file xb blob pc ring = Ok b ->
  b_priv b = Some key /\
  (forall l, b_leaf b = Some l ->
     same_key (KPriv key) (KPub (c_pub l)) = true /\
     exists r, b_certs b = l :: r /\
       ((xc <> [] /\ exists s, file = Ok s /\ cs_certs s = l :: r) \/ (xc = [] /\ cs_certs blob = l :: r))) /\
  (forall e, b_pgp b = Some e -> same_key (KPriv key) (KPub (en_pub e)) = true /\ ring = Ok [e] /\ pc <> []).
Proof. exact C07.Proofs.load_token_certs_ok. Qed.
Theorem loader_leaf_matches : forall key p,
  same_key (KPriv key) (KPub p) = true -> curve_ok (k_pub key) p = true -> pub_eqb p (k_pub key) = true.
Proof. exact C07.Proofs.key_cert_equal. Qed.

(* 3. the loader meets the independent specification; a file without a certificate for the key is an error *)
Theorem load_meets_spec : forall key s,
  curve_hyp key (cs_certs s) -> spec_load key (cs_certs s) (load_x509 key s) = true.
Proof. exact C07.Proofs.load_meets_spec. Qed.
Theorem mismatch_errors : forall key s,
  curve_hyp key (cs_certs s) -> spec_must_fail key (cs_certs s) = true -> exists e, load_x509 key s = Err e.
Proof. exact C07.Proofs.mismatch_is_error. Qed.
Theorem matching_leaf_loads : forall key s l r,
  cs_bad s = false -> cs_certs s = l :: r -> c_pub l = k_pub key -> supported (k_pub key) = true ->
  load_x509 key s = Ok (mkBundle (Some l) (l :: r) None (Some key)).
Proof. exact C07.Proofs.matching_leaf_loads. Qed.
Theorem load_full_refuted : exists key s b,
  load_x509 key s = Ok b /\ spec_load key (cs_certs s) (Ok b) = false /\ spec_must_fail key (cs_certs s) = true.
Proof. exact C07.Proofs.curve_refuted. Qed.

(* 4. Chain(): begins with the leaf, contains only certificates of the bundle, the leaf object only once,
      and keeps every non-self-signed certificate *)
Theorem chain_begins_with_leaf : forall b l, b_leaf b = Some l -> exists r, chain b = l :: r.
Proof. exact C07.Proofs.chain_begins_with_leaf. Qed.
Theorem chain_incl : forall b c, In c (chain b) -> b_leaf b = Some c \/ In c (b_certs b).
Proof. exact C07.Proofs.chain_incl. Qed.
Theorem chain_tail_no_leaf : forall i lid cs c, In c (chain_loop i lid cs) -> c_id c <> lid.
Proof. exact C07.Proofs.chain_loop_no_leaf. Qed.
Theorem chain_keeps_intermediates : forall i lid cs c,
  In c cs -> c_iss c <> c_subj c -> c_id c <> lid -> In c (chain_loop i lid cs).
Proof. exact C07.Proofs.chain_loop_keeps. Qed.

(* 5. second guards: whatever they are given, the PKCS#7 builder and both XML-DSig entry points only produce output
      when the first certificate matches the signing key, name/embed exactly that certificate, and a refusal happens
      before any private-key operation *)
Theorem builder_guard : forall key certs m o, fst (builder_sign key certs m) = Ok o ->
  exists l r, certs = l :: r /\ o = mkP7 l l certs (mkSig key m) /\ same_key (KPub (k_pub key)) (KPub (c_pub l)) = true.
Proof. exact C07.Proofs.builder_sign_ok. Qed.
Theorem builder_refuses_before_signing : forall key certs m e,
  fst (builder_sign key certs m) = Err e -> snd (builder_sign key certs m) = [].
Proof. exact C07.Proofs.builder_refusal_clean. Qed.
Theorem builder_mismatch_refused : forall key certs m,
  (forall l r, certs = l :: r -> same_key (KPub (k_pub key)) (KPub (c_pub l)) = false) ->
  builder_sign key certs m = (Err E_GUARD, []).
Proof. exact C07.Proofs.builder_mismatch_refused. Qed.
Theorem xmldsig_guard : forall env key certs m o, fst (xml_sign env key certs m) = Ok o ->
  exists l r, certs = l :: r /\ o = mkXml certs (k_pub key) (mkSig key m) /\ same_key (KPub (k_pub key)) (KPub (c_pub l)) = true.
Proof. exact C07.Proofs.xml_sign_ok. Qed.
Theorem xmldsig_refuses_before_signing : forall env key certs m e,
  fst (xml_sign env key certs m) = Err e -> snd (xml_sign env key certs m) = [].
Proof. exact C07.Proofs.xml_refusal_clean. Qed.

(* 6. every signing site (table generated from the source) embeds the bundle's leaf first and signs with the bundle's key *)
Theorem sites_shape : sites_shape_ok = true.
Proof. exact C07.Proofs.sites_shape. Qed.
Theorem every_signer_matches : forall s key b m e,
  In s sites -> bundle_ok key b -> emit s b m = Ok e -> spec_emitted key m e = true.
Proof. exact C07.Proofs.every_site_matches. Qed.
Theorem guarded_signer_safe_without_loader : forall s b m e k,
  In s sites -> st_guard s <> GNone -> key_of_class b (st_key s) = Some k -> emit s b m = Ok e ->
  curve_ok (k_pub k) (c_pub (em_leaf e)) = true -> spec_emitted k m e = true.
Proof. exact C07.Proofs.guarded_site_safe. Qed.
Theorem pgp_signer_matches : forall key xc file xb blob pc ring b cls m e s,
  load_token_certs key xc file xb blob pc ring = Ok b -> In cls pgp_sites -> emit_pgp cls b m = Ok (e, s) ->
  curve_ok (k_pub key) (en_pub e) = true ->
  pub_eqb (en_pub e) (k_pub key) = true /\ vrfy (en_pub e) m s = true /\ ring = Ok [e].
Proof. exact C07.Proofs.pgp_site_matches. Qed.

(* 7. the whole flow of a request: success satisfies the property, a mismatched configuration is an error *)
Theorem sign_flow_sound : forall key s st m e,
  curve_hyp key (cs_certs s) -> In st sites -> sign_x509 key s st m = Ok e -> spec_emitted key m e = true.
Proof. exact C07.Proofs.sign_flow_sound. Qed.
Theorem sign_flow_mismatch : forall key s st m,
  curve_hyp key (cs_certs s) -> spec_must_fail key (cs_certs s) = true -> exists e, sign_x509 key s st m = Err e.
Proof. exact C07.Proofs.sign_flow_mismatch. Qed.

(* 8. key lookup: the configuration, the file token, the cache (any history, any clock, any requested key id) and
      InitKey use the key and the certificate files of the section the name resolves to *)
Theorem config_resolves : forall c n kc, cfg_get_key c n = Ok kc -> spec_resolve c n = Some kc /\ kc_token kc <> 0.
Proof. exact C07.Proofs.cfg_get_key_resolves. Qed.
Theorem token_key_right : forall c kf n k, token_get_key c kf n = Ok k ->
  spec_resolve c n = Some (fk_conf k) /\ kf (kc_keyfile (fk_conf k)) = Ok (fk_priv k).
Proof. exact C07.Proofs.token_get_key_right. Qed.
Theorem cache_never_returns_another_key : forall base exp s reqs,
  cache_inv base s -> forall n r, In (n, r) (cache_run base exp s reqs) -> r = base n.
Proof. exact C07.Proofs.cache_history. Qed.
Theorem cache_empty_ok : forall base, cache_inv base [].
Proof. exact C07.Proofs.cache_inv_empty. Qed.
Theorem lookup_right_key : forall getkey xf pf n b, init_key getkey xf pf n = Ok b ->
  exists k, getkey n = Ok k /\ b_priv b = Some (fk_priv k) /\
    (forall l, b_leaf b = Some l ->
       same_key (KPriv (fk_priv k)) (KPub (c_pub l)) = true /\
       exists r s, xf (kc_x509 (fk_conf k)) = Ok s /\ cs_certs s = l :: r /\ b_certs b = l :: r) /\
    (forall e, b_pgp b = Some e ->
       same_key (KPriv (fk_priv k)) (KPub (en_pub e)) = true /\ pf (kc_pgp (fk_conf k)) = Ok [e]).
Proof. exact C07.Proofs.init_key_right. Qed.

(* non-vacuity *)
Example rsa_chain_signs :
  let key := mkPriv 1 (PRsa 77 65537) in
  let leaf := mkCert 0 10 (PRsa 77 65537) 1 2 in
  let inter := mkCert 1 11 (PRsa 88 65537) 2 3 in
  let root := mkCert 2 12 (PRsa 99 65537) 3 3 in
  forallb (fun st => match sign_x509 key (mkSrc false false [leaf; inter; root]) st 5 with
                     | Ok e => spec_emitted key 5 e && (c_der (em_leaf e) =? 10) | _ => false end) sites = true.
Proof. vm_compute. reflexivity. Qed.
Example chain_drops_trailing_root :
  let leaf := mkCert 0 10 (PRsa 77 65537) 1 2 in
  let inter := mkCert 1 11 (PRsa 88 65537) 2 3 in
  let root := mkCert 2 12 (PRsa 99 65537) 3 3 in
  map c_der (chain (mkBundle (Some leaf) [leaf; inter; root] None None)) = [10; 11].
Proof. reflexivity. Qed.
Example reordered_chain_refused :
  let key := mkPriv 1 (PRsa 77 65537) in
  let leaf := mkCert 1 10 (PRsa 77 65537) 1 2 in
  let inter := mkCert 0 11 (PRsa 88 65537) 2 3 in
  load_x509 key (mkSrc false false [inter; leaf]) = Err E_MISMATCH.
Proof. reflexivity. Qed.
Example ec_mismatch_refused :
  sign_x509 (mkPriv 1 (PEc 1 5 7)) (mkSrc false false [mkCert 0 10 (PEc 1 5 8) 1 2]) (mkSite 11 GNone 1 2 7) 5 = Err E_MISMATCH.
Proof. reflexivity. Qed.
Example alias_resolves :
  let c := [mkKc 1 0 9 21 31 0; mkKc 2 1 0 22 32 0] in
  match token_get_key c (fun f => Ok (mkPriv f (POther f))) 2 with
  | Ok k => (k_id (fk_priv k) =? 21) && (kc_x509 (fk_conf k) =? 31) | _ => false end = true.
Proof. reflexivity. Qed.
