(* C07/Properties.v — property theorems only. Each is closed by a lemma of C07/Proofs.v. *)
From Relic Require Import Base.Prelude Generated.C07_gen C07.Model C07.Proofs C07.History C07.HistoryProofs C07.Pgp C07.PgpProofs.

(* 1. SameKey answers "same public key": sound up to the curve identifier, complete on RSA/ECDSA keys *)
Theorem same_key_sound : forall a b, same_key a b = true ->
  exists p q, pub_of a = Some p /\ pub_of b = Some q /\ supported p = true /\ (curve_ok p q = true -> p = q).
Proof. exact C07.Proofs.same_key_sound. Qed.
Theorem same_key_complete : forall a b p,
  pub_of a = Some p -> pub_of b = Some p -> supported p = true -> same_key a b = true.
Proof. exact C07.Proofs.same_key_complete. Qed.
Theorem same_key_eq_spec : forall a b,
  (forall p q, pub_of a = Some p -> pub_of b = Some q -> curve_ok p q = true /\ supported p = true) ->
  same_key a b = spec_same a b.
Proof. exact C07.Proofs.same_key_agrees_with_spec. Qed.
(* the full statement (no hypothesis on curves) is false of the code as written: the curve is not compared *)
Theorem same_key_full_refuted : exists a b, same_key a b = true /\ spec_same a b = false.
Proof. exact C07.Proofs.same_key_ignores_curve. Qed.

(* 2. loader invariant: every bundle LoadTokenCertificates returns has the token key as private key, its leaf is the
      first certificate of the source that was used and SameKey accepted it; likewise the PGP entity *)
Theorem loader_invariant : forall key xc file xb blob pc ring b,
  load_token_certs key xc file xb blob pc ring = Ok b ->
  b_priv b = Some key /\
  (forall l, b_leaf b = Some l ->
     same_key (KPriv key) (KPub (c_pub l)) = true /\
     exists r, b_certs b = l :: r /\
       ((xc <> [] /\ exists s, file = Ok s /\ cs_certs s = l :: r) \/ (xc = [] /\ cs_certs blob = l :: r))) /\
  (forall e, b_pgp b = Some e -> same_key (KPriv key) (KPub (en_pub e)) = true /\ ring = Ok [e] /\ pc <> []).
Proof. exact C07.Proofs.load_token_certs_ok. Qed.
Theorem loader_leaf_matches : forall key p,
  same_key (KPriv key) (KPub p) = true -> curve_ok (k_pub key) p = true -> pub_eqb p (k_pub key) = true.
Proof. exact C07.Proofs.key_cert_equal. Qed.

(* 3. the loader meets the independent specification; a file without a certificate for the key is an error *)
Theorem load_meets_spec : forall key s,
  curve_hyp key (cs_certs s) -> spec_load key (cs_certs s) (load_x509 key s) = true.
Proof. exact C07.Proofs.load_meets_spec. Qed.
Theorem mismatch_errors : forall key s,
  curve_hyp key (cs_certs s) -> spec_must_fail key (cs_certs s) = true -> exists e, load_x509 key s = Err e.
Proof. exact C07.Proofs.mismatch_is_error. Qed.
Theorem matching_leaf_loads : forall key s l r,
  cs_bad s = false -> cs_certs s = l :: r -> c_pub l = k_pub key -> supported (k_pub key) = true ->
  load_x509 key s = Ok (mkBundle (Some l) (l :: r) None (Some key)).
Proof. exact C07.Proofs.matching_leaf_loads. Qed.
Theorem load_full_refuted : exists key s b,
  load_x509 key s = Ok b /\ spec_load key (cs_certs s) (Ok b) = false /\ spec_must_fail key (cs_certs s) = true.
Proof. exact C07.Proofs.curve_refuted. Qed.

(* 4. Chain(): begins with the leaf, contains only certificates of the bundle, the leaf object only once,
      and keeps every non-self-signed certificate *)
Theorem chain_begins_with_leaf : forall b l, b_leaf b = Some l -> exists r, chain b = l :: r.
Proof. exact C07.Proofs.chain_begins_with_leaf. Qed.
Theorem chain_incl : forall b c, In c (chain b) -> b_leaf b = Some c \/ In c (b_certs b).
Proof. exact C07.Proofs.chain_incl. Qed.
Theorem chain_tail_no_leaf : forall i lid cs c, In c (chain_loop i lid cs) -> c_id c <> lid.
Proof. exact C07.Proofs.chain_loop_no_leaf. Qed.
Theorem chain_keeps_intermediates : forall i lid cs c,
  In c cs -> c_iss c <> c_subj c -> c_id c <> lid -> In c (chain_loop i lid cs).
Proof. exact C07.Proofs.chain_loop_keeps. Qed.

(* 5. second guards: whatever they are given, the PKCS#7 builder and both XML-DSig entry points only produce output
      when the first certificate matches the signing key, name/embed exactly that certificate, and a refusal happens
      before any private-key operation *)
Theorem builder_guard : forall key certs m o, fst (builder_sign key certs m) = Ok o ->
  exists l r, certs = l :: r /\ o = mkP7 l l certs (mkSig key m) /\ same_key (KPub (k_pub key)) (KPub (c_pub l)) = true.
Proof. exact C07.Proofs.builder_sign_ok. Qed.
Theorem builder_refuses_before_signing : forall key certs m e,
  fst (builder_sign key certs m) = Err e -> snd (builder_sign key certs m) = [].
Proof. exact C07.Proofs.builder_refusal_clean. Qed.
Theorem builder_mismatch_refused : forall key certs m,
  (forall l r, certs = l :: r -> same_key (KPub (k_pub key)) (KPub (c_pub l)) = false) ->
  builder_sign key certs m = (Err E_GUARD, []).
Proof. exact C07.Proofs.builder_mismatch_refused. Qed.
Theorem xmldsig_guard : forall env key certs m o, fst (xml_sign env key certs m) = Ok o ->
  exists l r, certs = l :: r /\ o = mkXml certs (k_pub key) (mkSig key m) /\ same_key (KPub (k_pub key)) (KPub (c_pub l)) = true.
Proof. exact C07.Proofs.xml_sign_ok. Qed.
Theorem xmldsig_refuses_before_signing : forall env key certs m e,
  fst (xml_sign env key certs m) = Err e -> snd (xml_sign env key certs m) = [].
Proof. exact C07.Proofs.xml_refusal_clean. Qed.

(* 6. every signing site (table generated from the source) embeds the bundle's leaf first and signs with the bundle's key *)
Theorem sites_shape : sites_shape_ok = true.
Proof. exact C07.Proofs.sites_shape. Qed.
Theorem every_signer_matches : forall s key b m e,
  In s sites -> bundle_ok key b -> emit s b m = Ok e -> spec_emitted key m e = true.
Proof. exact C07.Proofs.every_site_matches. Qed.
Theorem guarded_signer_safe_without_loader : forall s b m e k,
  In s sites -> st_guard s <> GNone -> key_of_class b (st_key s) = Some k -> emit s b m = Ok e ->
  curve_ok (k_pub k) (c_pub (em_leaf e)) = true -> spec_emitted k m e = true.
Proof. exact C07.Proofs.guarded_site_safe. Qed.
Theorem pgp_signer_matches : forall key xc file xb blob pc ring b cls m e s,
  load_token_certs key xc file xb blob pc ring = Ok b -> In cls pgp_sites -> emit_pgp cls b m = Ok (e, s) ->
  curve_ok (k_pub key) (en_pub e) = true ->
  pub_eqb (en_pub e) (k_pub key) = true /\ vrfy (en_pub e) m s = true /\ ring = Ok [e].
Proof. exact C07.Proofs.pgp_site_matches. Qed.

(* 7. the whole flow of a request: success satisfies the property, a mismatched configuration is an error *)
Theorem sign_flow_sound : forall key s st m e,
  curve_hyp key (cs_certs s) -> In st sites -> sign_x509 key s st m = Ok e -> spec_emitted key m e = true.
Proof. exact C07.Proofs.sign_flow_sound. Qed.
Theorem sign_flow_mismatch : forall key s st m,
  curve_hyp key (cs_certs s) -> spec_must_fail key (cs_certs s) = true -> exists e, sign_x509 key s st m = Err e.
Proof. exact C07.Proofs.sign_flow_mismatch. Qed.

(* 8. key lookup: the configuration, the file token, the cache (any history, any clock, any requested key id) and
      InitKey use the key and the certificate files of the section the name resolves to *)
Theorem config_resolves : forall c n kc, cfg_get_key c n = Ok kc -> spec_resolve c n = Some kc /\ kc_token kc <> 0.
Proof. exact C07.Proofs.cfg_get_key_resolves. Qed.
Theorem alias_of_alias_refused : forall c n k t,
  cfg_find c n = Some k -> kc_alias k <> 0 -> cfg_find c (kc_alias k) = Some t -> kc_alias t <> 0 -> cfg_get_key c n = Err E_ALIAS.
Proof. exact C07.Proofs.cfg_alias_chain_is_error. Qed.
Theorem lookup_idempotent : forall c n kc, cfg_get_key c n = Ok kc -> cfg_get_key c (kc_name kc) = Ok kc.
Proof. exact C07.Proofs.cfg_get_key_idempotent. Qed.
Theorem token_key_right : forall c kf n k, token_get_key c kf n = Ok k ->
  spec_resolve c n = Some (fk_conf k) /\ kf (kc_keyfile (fk_conf k)) = Ok (fk_priv k).
Proof. exact C07.Proofs.token_get_key_right. Qed.
Theorem cache_never_returns_another_key : forall base exp s reqs,
  cache_inv base s -> forall n r, In (n, r) (cache_run base exp s reqs) -> r = base n.
Proof. exact C07.Proofs.cache_history. Qed.
Theorem cache_empty_ok : forall base, cache_inv base [].
Proof. exact C07.Proofs.cache_inv_empty. Qed.
Theorem lookup_right_key : forall getkey xf pf n b, init_key getkey xf pf n = Ok b ->
  exists k, getkey n = Ok k /\ b_priv b = Some (fk_priv k) /\
    (forall l, b_leaf b = Some l ->
       same_key (KPriv (fk_priv k)) (KPub (c_pub l)) = true /\
       exists r s, xf (kc_x509 (fk_conf k)) = Ok s /\ cs_certs s = l :: r /\ b_certs b = l :: r) /\
    (forall e, b_pgp b = Some e ->
       same_key (KPriv (fk_priv k)) (KPub (en_pub e)) = true /\ pf (kc_pgp (fk_conf k)) = Ok [e]).
Proof. exact C07.Proofs.init_key_right. Qed.

(* 9. HISTORY inside a long-lived process: the n-th request as well as the first.
      9a. the process state that survives a request is the reviewed one (package-level variables of internal/signinit,
          lib/certloader, signers + unguarded signer packages, token/tokencache, token/filetoken; fields of Cache, cachedKey,
          fileToken, fileKey, certloader.Certificate): only tokencache.Cache.keys holds key material *)
Theorem long_lived_state_is_reviewed : process_state_reviewed = true.
Proof. exact C07.HistoryProofs.process_state_is_reviewed. Qed.
(*    9b. data flow: every non-nil bundle InitKey returns is the result of LoadTokenCertificates called in the same
          invocation with the key GetKey returned in the same invocation; Init returns InitKey's bundle; serveSign and
          signCmd hand exactly that bundle to mod.Sign *)
Theorem field_names_are_what_they_say : field_names_ok = true.
Proof. exact C07.HistoryProofs.field_names. Qed.
Theorem initkey_returns_checked_bundle : initkey_shape_ok = true.
Proof. exact C07.HistoryProofs.initkey_shape. Qed.
Theorem init_returns_initkey_bundle : init_shape_ok = true.
Proof. exact C07.HistoryProofs.init_shape. Qed.
Theorem callers_sign_with_init_bundle : callers_ok = true.
Proof. exact C07.HistoryProofs.callers_shape. Qed.
Theorem file_key_object_is_conf_key_cert : filekey_shape_ok = true.
Proof. exact C07.HistoryProofs.filekey_shape. Qed.
Theorem signer_modules_require_their_certificate : signer_certtypes_ok = true.
Proof. exact C07.HistoryProofs.signer_certtypes. Qed.
(*    9c. EVERY issuance of EVERY history (any configuration, any initial world and cache contents, any sequence of key
          file / certificate file / PGP file replacements and requests, any clock, any cache expiry): the signature was
          made by the key k the token layer handed out for this request, and the embedded leaf is the first certificate
          of what the certificate source holds AT THE TIME OF THIS REQUEST, accepted by SameKey against k *)
Theorem history_every_issuance_checked : forall c exp evs w s w' s0 q o,
  In (w', s0, q, Ok o) (History.run c exp w s evs) -> req_wf q ->
  exists k, key_for c exp w' s0 q = Ok k /\ issued_ok w' k (q_msg q) o.
Proof. exact C07.HistoryProofs.history_issue_checked. Qed.
(*    hence it meets the specification written from the property text *)
Theorem history_sound : forall c exp evs w s w' s0 q o,
  In (w', s0, q, Ok o) (History.run c exp w s evs) -> req_wf q -> out_curve_ok o -> spec_output_ok (q_msg q) o = true.
Proof. exact C07.HistoryProofs.history_sound. Qed.
(*    9d. a configuration that is mismatched at the time of a request is refused, whatever happened before *)
Theorem history_mismatch_refused : forall c exp evs w s w' s0 q res k src l r,
  In (w', s0, q, res) (History.run c exp w s evs) ->
  key_for c exp w' s0 q = Ok k ->
  kc_x509 (tk_conf k) <> 0 -> w_x509 w' (kc_x509 (tk_conf k)) = Ok src -> cs_bad src = false -> cs_certs src = l :: r ->
  same_key (KPriv (tk_priv k)) (KPub (c_pub l)) = false ->
  res = Err E_MISMATCH.
Proof. exact C07.HistoryProofs.history_mismatch_refused. Qed.
Theorem pgp_mismatch_refused : forall c exp w s q k e,
  key_for c exp w s q = Ok k -> kc_x509 (tk_conf k) = 0 -> cs_certs (tk_blob k) = [] ->
  kc_pgp (tk_conf k) <> 0 -> w_pgp w (kc_pgp (tk_conf k)) = Ok [e] ->
  same_key (KPriv (tk_priv k)) (KPub (en_pub e)) = false ->
  fst (serve c exp w s q) = Err E_MISMATCH.
Proof. exact C07.HistoryProofs.serve_pgp_mismatch_refused. Qed.
(*    the two rotations: sign, replace the key file (certificate files stay) / the certificate file (key stays), sign
          again without a live cache entry: refused, for all keys, certificates, sections, signers and first requests *)
Theorem key_rotation_refused : forall c exp w name kc B blobB src l r q1 q2,
  cfg_get_key c name = Ok kc -> kc_keyfile kc <> 0 -> kc_x509 kc <> 0 ->
  w_x509 w (kc_x509 kc) = Ok src -> cs_bad src = false -> cs_certs src = l :: r ->
  same_key (KPriv B) (KPub (c_pub l)) = false ->
  q_name q2 = name -> q_fresh q2 = false ->
  exists r1, map snd (History.run c exp w [] [EReq q1; EKey (kc_keyfile kc) (Ok (B, blobB)); EReq q2]) = [r1; Err E_MISMATCH].
Proof. exact C07.HistoryProofs.key_rotation_refused. Qed.
Theorem cert_rotation_refused : forall c exp w name kc A blobA src' l' r' q1 q2,
  cfg_get_key c name = Ok kc -> kc_keyfile kc <> 0 -> kc_x509 kc <> 0 ->
  w_key w (kc_keyfile kc) = Ok (A, blobA) -> cs_bad src' = false -> cs_certs src' = l' :: r' ->
  same_key (KPriv A) (KPub (c_pub l')) = false ->
  q_name q2 = name -> q_fresh q2 = false ->
  exists r1, map snd (History.run c exp w [] [EReq q1; EX509 (kc_x509 kc) (Ok src'); EReq q2]) = [r1; Err E_MISMATCH].
Proof. exact C07.HistoryProofs.cert_rotation_refused. Qed.
(*    9e. which key: a request is answered from a live cache entry stored under the requested name or by the token now;
          an expired entry is never used; without an expiry the key is the one the key file holds at the time of the
          request; in every case it is a key the token handed out for the requested name in some world of the history *)
Theorem cache_answers : forall base exp s n fresh wl ie,
  (exists k, hcache_find s n = Some k /\ fresh = true /\ hcache_get_key base exp s n fresh wl ie = (Ok k, s)) \/
  (fst (hcache_get_key base exp s n fresh wl ie) = base n /\
   (snd (hcache_get_key base exp s n fresh wl ie) = s \/
    exists k, base n = Ok k /\ snd (hcache_get_key base exp s n fresh wl ie) = (n, k) :: s)).
Proof. exact C07.HistoryProofs.hcache_get_key_cases. Qed.
Theorem expired_entry_not_used : forall base exp s n wl ie, fst (hcache_get_key base exp s n false wl ie) = base n.
Proof. exact C07.HistoryProofs.hcache_expired. Qed.
Theorem no_cache_current_key : forall c exp evs w w' s0 q r,
  exp <= 0 -> In (w', s0, q, r) (History.run c exp w [] evs) -> key_for c exp w' s0 q = tok_get_key c w' (q_name q).
Proof. exact C07.HistoryProofs.no_cache_current_key. Qed.
Theorem history_key_provenance : forall c exp evs w s (ws : world -> Prop) w' s0 q r,
  (forall x, In x (worlds w evs) -> ws x) -> prov c ws s ->
  In (w', s0, q, r) (History.run c exp w s evs) ->
  forall k, key_for c exp w' s0 q = Ok k -> exists w0, ws w0 /\ tok_get_key c w0 (q_name q) = Ok k.
Proof. exact C07.HistoryProofs.history_key_provenance. Qed.
Theorem file_token_key_right : forall c w n k, tok_get_key c w n = Ok k ->
  cfg_get_key c n = Ok (tk_conf k) /\ spec_resolve c n = Some (tk_conf k) /\ kc_keyfile (tk_conf k) <> 0 /\
  w_key w (kc_keyfile (tk_conf k)) = Ok (tk_priv k, tk_blob k).
Proof. exact C07.HistoryProofs.tok_get_key_ok. Qed.
(*    9f. Init refuses a bundle that lacks the certificate type the signer module needs *)
Theorem init_requires_certificate : forall ct b b', init_h ct b = Ok b' ->
  b' = b /\ (init_needs_x509 ct = true -> b_leaf b <> None) /\ (init_needs_pgp ct = true -> b_pgp b <> None).
Proof. exact C07.HistoryProofs.init_h_ok. Qed.


(* 10. OpenPGP: WHICH key packet a signature names and WHICH private key computes its value (C07/Pgp.v), for every
       certificate structure (primary key, any number of subkeys with any binding flags / times / expiry / revocation, any
       number of user ids, secret material already present in the configured file), every token key and every PGP-family
       signer (signers/pgp detached / armored / text mode / inline / clearsign / 2.0 mini-clear, rpm, deb).
   10a. the generated shape of the mechanism is the reviewed one: statement list of the loader's PGP block with the guard before
        the assignment, the only places of lib/certloader that build or store a private-key packet, how each signing site
        uses the entity / the bundle, the pinned go-crypto / go-rpmutils versions and the issuer fields they fill in *)
Theorem pgp_loader_block_reviewed : pgp_loader_shape_ok = true.
Proof. exact C07.PgpProofs.loader_shape. Qed.
Theorem pgp_private_key_pairings_reviewed : certloader_privkey_reviewed = true.
Proof. exact C07.PgpProofs.privkey_inventory. Qed.
Theorem pgp_signing_sites_reviewed : pgp_site_uses_reviewed = true.
Proof. exact C07.PgpProofs.site_uses. Qed.
Theorem pgp_libraries_reviewed : pgp_libs_reviewed = true.
Proof. exact C07.PgpProofs.libs_reviewed. Qed.
(* 10b. the loader: the only private-key packet it creates pairs the PRIMARY key packet with the token key, after SameKey
        accepted exactly that pair; nothing else of the entity changes; it agrees with the coarser model of section 2 *)
Theorem pgp_loader_pairs_primary_with_token_key : forall key e e',
  load_pgp key e = Ok e' -> e' = loaded key e /\ same_key (KPriv key) (KPub (kp_pub (pe_primary e))) = true.
Proof. exact C07.PgpProofs.load_pgp_ok. Qed.
Theorem pgp_loader_refines_model : forall key e,
  match load_pgp_ring key (Ok [e]), load_token_certs key [] (Err E_READ) [] (mkSrc true false []) [1] (Ok [to_entity e]) with
  | Ok e', Ok b => b_pgp b = Some (to_entity e') /\ b_priv b = Some key /\ b_leaf b = None
  | Err a, Err b => a = b
  | _, _ => False
  end.
Proof. exact C07.PgpProofs.load_pgp_refines. Qed.
(* 10c. go-crypto's selection returns the (public packet, private packet) pair of the primary key or of one subkey of the
        certificate - never a mixture *)
Theorem pgp_selection_is_a_certificate_key : forall e id pk op,
  signing_key e id = Ok (pk, op) ->
  (pk = pe_primary e /\ op = pe_priv e /\ pick_sub key_flag_sign id 0 None (pe_subs e) = None)
  \/ (exists s, In s (pe_subs e) /\ pk = sb_pkt s /\ op = sb_priv s /\ pick_sub key_flag_sign id 0 None (pe_subs e) = Some s).
Proof. exact C07.PgpProofs.signing_key_cases. Qed.
(* 10d. THE PROPERTY: either the request is refused, or every emitted signature names - with its issuer key id AND its issuer
        fingerprint - one key packet of the configured certificate, and the value verifies under that packet's key *)
Theorem pgp_signature_names_signing_key : forall key e md m l,
  ent_file_wf e = true -> curve_hyp_pgp key e ->
  pgp_request key e md m = Ok l ->
  l <> [] /\ forallb (spec_pgp_sig_ok (cert_packets e) m) l = true.
Proof. exact C07.PgpProofs.pgp_request_sound. Qed.
Theorem pgp_request_meets_spec : forall key e md m,
  ent_file_wf e = true -> curve_hyp_pgp key e -> pe_idents e <> [] -> (0 <= md_kind md <= 2) ->
  spec_pgp_out_ok (cert_packets e) m (pgp_request key e md m) = true.
Proof. exact C07.PgpProofs.pgp_request_meets_spec. Qed.
(* 10e. for a certificate file with public parts only (the ordinary configuration): the value is made by the TOKEN key, the issuer
        is the primary key packet and its key material is the token key's; a detached signature comes out only when
        go-crypto selects no subkey (otherwise: "signing key doesn't have a private key") *)
Theorem pgp_public_certificate_signed_by_token_key : forall key e md m l sg,
  public_only e = true -> curve_hyp_pgp key e ->
  pgp_request key e md m = Ok l -> In sg l ->
  s_key (ps_val sg) = key /\ ps_keyid sg = kp_id (pe_primary e) /\ ps_fpr sg = kp_id (pe_primary e)
  /\ pub_eqb (kp_pub (pe_primary e)) (k_pub key) = true.
Proof. exact C07.PgpProofs.pgp_public_cert. Qed.
Theorem pgp_detached_only_without_selected_subkey : forall key e m sg,
  public_only e = true -> detach_sign 0 (loaded key e) m = Ok sg -> pick_sub key_flag_sign 0 0 None (pe_subs e) = None.
Proof. exact C07.PgpProofs.pgp_detached_only_without_selected_subkey. Qed.
(* 10f. mismatched configurations are errors: a primary key that is not the token key (whatever the subkeys are - a bound,
        cross-signed signing subkey equal to the token key included), and in particular a certificate none of whose key
        packets is the token key *)
Theorem pgp_other_primary_refused : forall key e md m,
  curve_hyp_pgp key e -> pub_eqb (kp_pub (pe_primary e)) (k_pub key) = false -> pgp_request key e md m = Err E_MISMATCH.
Proof. exact C07.PgpProofs.pgp_request_mismatch. Qed.
Theorem pgp_unrelated_certificate_refused : forall key e md m,
  curve_hyp_pgp key e -> spec_pgp_must_fail key e = true -> pgp_request key e md m = Err E_MISMATCH.
Proof. exact C07.PgpProofs.pgp_request_unrelated. Qed.
(* 10g. the guard does not refuse valid configurations: primary key = token key signs through every entity.PrivateKey site *)
Theorem pgp_matching_primary_signs : forall key e m,
  kp_pub (pe_primary e) = k_pub key -> supported (k_pub key) = true ->
  pgp_request key e (mkMode 0 true false false false) m = Ok [mkPs (kp_id (pe_primary e)) (kp_id (pe_primary e)) (mkSig key m)]
  /\ pgp_request key e (mkMode 1 false false false false) m
     = Ok [mkPs (kp_id (pe_primary e)) (kp_id (pe_primary e)) (mkSig key m); mkPs (kp_id (pe_primary e)) (kp_id (pe_primary e)) (mkSig key m)]
  /\ pgp_request key e (mkMode 2 false false false false) m = Ok [mkPs (kp_id (pe_primary e)) (kp_id (pe_primary e)) (mkSig key m)].
Proof. exact C07.PgpProofs.pgp_matching_clearsign. Qed.
(* 10h. the stronger reading "the value is made by the token key" is FALSE of the code as written when the configured file is
        a transferable SECRET key with an unencrypted signing subkey: go-crypto signs with the secret from the file (the
        signature stays consistent: 10d) *)
Theorem pgp_token_key_statement_refuted : exists key e md m sg,
  ent_file_wf e = true /\ pgp_request key e md m = Ok [sg] /\ spec_pgp_sig_ok (cert_packets e) m sg = true
  /\ spec_pgp_by_token_key key sg = false.
Proof. exact C07.PgpProofs.token_key_bypassed_by_secret_subkey. Qed.

(* non-vacuity *)
Example rsa_chain_signs :
  let key := mkPriv 1 (PRsa 77 65537) in
  let leaf := mkCert 0 10 (PRsa 77 65537) 1 2 in
  let inter := mkCert 1 11 (PRsa 88 65537) 2 3 in
  let root := mkCert 2 12 (PRsa 99 65537) 3 3 in
  forallb (fun st => match sign_x509 key (mkSrc false false [leaf; inter; root]) st 5 with
                     | Ok e => spec_emitted key 5 e && (c_der (em_leaf e) =? 10) | _ => false end) sites = true.
Proof. vm_compute. reflexivity. Qed.
Example chain_drops_trailing_root :
  let leaf := mkCert 0 10 (PRsa 77 65537) 1 2 in
  let inter := mkCert 1 11 (PRsa 88 65537) 2 3 in
  let root := mkCert 2 12 (PRsa 99 65537) 3 3 in
  map c_der (chain (mkBundle (Some leaf) [leaf; inter; root] None None)) = [10; 11].
Proof. reflexivity. Qed.
Example reordered_chain_refused :
  let key := mkPriv 1 (PRsa 77 65537) in
  let leaf := mkCert 1 10 (PRsa 77 65537) 1 2 in
  let inter := mkCert 0 11 (PRsa 88 65537) 2 3 in
  load_x509 key (mkSrc false false [inter; leaf]) = Err E_MISMATCH.
Proof. reflexivity. Qed.
Example ec_mismatch_refused :
  sign_x509 (mkPriv 1 (PEc 1 5 7)) (mkSrc false false [mkCert 0 10 (PEc 1 5 8) 1 2]) (mkSite 11 GNone 1 2 7) 5 = Err E_MISMATCH.
Proof. reflexivity. Qed.
Example alias_resolves :
  let c := [mkKc 1 0 9 21 31 0; mkKc 2 1 0 22 32 0] in
  match token_get_key c (fun f => Ok (mkPriv f (POther f))) 2 with
  | Ok k => (k_id (fk_priv k) =? 21) && (kc_x509 (fk_conf k) =? 31) | _ => false end = true.
Proof. reflexivity. Qed.

(* histories: key A (file 1) with certificate a (file 11), PGP certificate of A (file 21); section 1; cosign site 12 *)
Definition exA := mkPriv 1 (PRsa 77 65537).
Definition exB := mkPriv 2 (PRsa 91 65537).
Definition ex_a := mkCert 0 10 (PRsa 77 65537) 1 2.
Definition ex_b := mkCert 0 20 (PRsa 91 65537) 3 2.
Definition ex_cfg : cfg := [mkKc 1 0 9 1 11 21].
Definition ex_world : world :=
  mkWorld (fun f => if f =? 1 then Ok (exA, mkSrc true false []) else Err E_READ)
          (fun f => if f =? 11 then Ok (mkSrc false false [ex_a]) else Err E_READ)
          (fun f => if f =? 21 then Ok [mkEnt 500 (PRsa 77 65537)] else Err E_READ).
Definition ex_cosign : site := mkSite 12 GNone 1 2 0.
Definition ex_req (fresh : bool) : request := mkReq 1 fresh 0 false 1 (SgX509 ex_cosign) 5.
Definition ex_pgp_req (fresh : bool) : request := mkReq 1 fresh 0 false 2 (SgPgp 5) 5.
Definition ex_status (t : world * hcache * request * result outv) : Z :=
  match snd t with
  | Ok (OX509 e) => 1000 * k_id (s_key (em_sig e)) + c_der (em_leaf e)
  | Ok (OPgp en sg) => 1000 * k_id (s_key sg) + en_id en
  | Err e => - e | Panic e => -100 - e end.
Example ex_cosign_in_sites : In ex_cosign sites.
Proof. vm_compute. tauto. Qed.
Example ex_req_wf : req_wf (ex_req true) /\ req_wf (ex_pgp_req false).
Proof. unfold req_wf. cbn. repeat split; try reflexivity; vm_compute; tauto. Qed.
(* no cache: sign; rotate the key file -> refused; install B's certificate -> still refused (LoadTokenCertificates also
   checks the PGP certificate of the section, which is A's); install B's PGP certificate -> B signs under b / its own PGP key *)
Example history_rotation_no_cache :
  map ex_status (History.run ex_cfg 0 ex_world []
    [EReq (ex_req true); EReq (ex_pgp_req true); EKey 1 (Ok (exB, mkSrc true false [])); EReq (ex_req true);
     EX509 11 (Ok (mkSrc false false [ex_b])); EReq (ex_req true); EReq (ex_pgp_req true);
     EPgp 21 (Ok [mkEnt 501 (PRsa 91 65537)]); EReq (ex_req true); EReq (ex_pgp_req true)])
  = [1010; 1500; - E_MISMATCH; - E_MISMATCH; - E_MISMATCH; 2020; 2501].
Proof. vm_compute. reflexivity. Qed.
(* one-hour cache, section without PGP certificate: after the key file is replaced the live entry still answers with A,
   and what is issued is A under a; when the certificate is replaced as well the cached A no longer matches: refused;
   once the entry has expired B signs under b *)
Definition ex_cfg_x : cfg := [mkKc 1 0 9 1 11 0].
Example history_rotation_cached :
  map ex_status (History.run ex_cfg_x 3600 ex_world []
    [EReq (ex_req true); EKey 1 (Ok (exB, mkSrc true false [])); EReq (ex_req true);
     EX509 11 (Ok (mkSrc false false [ex_b])); EReq (ex_req true); EReq (ex_req false); EReq (ex_req true)])
  = [1010; 1010; - E_MISMATCH; 2020; 2020].
Proof. vm_compute. reflexivity. Qed.
Example history_examples_meet_spec :
  spec_history_ok (History.run ex_cfg 3600 ex_world []
    [EReq (ex_req true); EKey 1 (Ok (exB, mkSrc true false [])); EReq (ex_req true); EReq (ex_pgp_req true);
     EX509 11 (Ok (mkSrc false false [ex_b])); EReq (ex_req false); EReq (ex_pgp_req false)]) = true.
Proof. vm_compute. reflexivity. Qed.
(* the hypotheses of key_rotation_refused are satisfiable *)
Example key_rotation_hyps :
  cfg_get_key ex_cfg 1 = Ok (mkKc 1 0 9 1 11 21) /\ w_x509 ex_world 11 = Ok (mkSrc false false [ex_a]) /\
  same_key (KPriv exB) (KPub (c_pub ex_a)) = false.
Proof. repeat split. Qed.
(* the specification is not trivially true: A's certificate over a value made by B is rejected *)
Example spec_rejects_mismatch :
  spec_output_ok 5 (OX509 (mkEm ex_a [ex_a] (c_pub ex_a) (mkSig exB 5))) = false.
Proof. reflexivity. Qed.

(* OpenPGP: token key K = RSA 77; P = RSA 91; S = RSA 55 *)
Definition pgK := mkPriv 1 (PRsa 77 65537).
Definition pg_uid : ident := mkId 0 true true 100 true true true false false false.
Definition pg_uid2 : ident := mkId 0 true false 150 true true false false false false.
Definition pg_signsub (id n t : Z) : subk := mkSub (mkKp id (PRsa n 65537)) true false true true false false false t None.
Definition pg_encsub (id n t : Z) : subk := mkSub (mkKp id (PRsa n 65537)) true false false true false false false t None.
Definition pg_all_modes : list pgpmode :=
  [mkMode 0 false false false false; mkMode 0 false true false false; mkMode 0 false false true false; mkMode 0 false true true false;
   mkMode 0 true false false false; mkMode 0 false false false true; mkMode 1 false false false false; mkMode 2 false false false false].
(* primary = K, an encryption subkey, two user ids: every mode signs, names the primary packet 10, meets the specification *)
Definition pg_plain : pent := mkPent 500 (mkKp 10 (PRsa 77 65537)) true false [pg_uid2; pg_uid] [pg_encsub 12 33 120] None.
Example pgp_plain_certificate_signs :
  forallb (fun md => match pgp_request pgK pg_plain md 5 with
                     | Ok l => forallb (fun s => (ps_keyid s =? 10) && (ps_fpr s =? 10) && spec_pgp_sig_ok (cert_packets pg_plain) 5 s && spec_pgp_by_token_key pgK s) l
                               && negb (zlen l =? 0)
                     | _ => false end) pg_all_modes = true.
Proof. vm_compute. reflexivity. Qed.
(* primary = P, the token key K is a bound signing subkey (newest), plus an older foreign signing subkey: refused in every mode *)
Definition pg_subcert : pent := mkPent 501 (mkKp 20 (PRsa 91 65537)) true false [pg_uid] [pg_signsub 22 55 110; pg_signsub 21 77 130] None.
Example pgp_signing_subkey_certificate_refused :
  map (fun md => pgp_request pgK pg_subcert md 5) pg_all_modes = map (fun _ => Err E_MISMATCH) pg_all_modes
  /\ spec_pgp_must_fail pgK pg_subcert = false.
Proof. vm_compute. auto. Qed.
(* primary = K with a foreign signing subkey S: the openpgp-selected modes refuse (no private key for S), the entity.PrivateKey
   modes sign under the primary packet *)
Definition pg_foreign : pent := mkPent 502 (mkKp 10 (PRsa 77 65537)) true false [pg_uid] [pg_signsub 31 55 130] None.
Example pgp_foreign_signing_subkey :
  map (fun md => match pgp_request pgK pg_foreign md 5 with Ok l => map ps_keyid l | Err x => [- x] | Panic x => [-100 - x] end) pg_all_modes
  = [[- E_NOPRIV]; [- E_NOPRIV]; [- E_NOPRIV]; [- E_NOPRIV]; [10]; [10]; [10; 10]; [10]].
Proof. vm_compute. reflexivity. Qed.
(* the specification is not trivially true: a signature that names the primary packet 20 (key P) over a value made by K, the
   certificate's signing subkey, is rejected - and so is one whose key id and fingerprint name different packets *)
Example pgp_spec_rejects_issuer_of_other_key :
  spec_pgp_sig_ok (cert_packets pg_subcert) 5 (mkPs 20 20 (mkSig pgK 5)) = false
  /\ spec_pgp_sig_ok (cert_packets pg_subcert) 5 (mkPs 21 20 (mkSig pgK 5)) = false
  /\ spec_pgp_sig_ok (cert_packets pg_subcert) 5 (mkPs 21 21 (mkSig pgK 5)) = true.
Proof. vm_compute. auto. Qed.
(* hypotheses of 10d/10e are satisfiable *)
Example pgp_hypotheses_satisfiable :
  ent_file_wf pg_plain = true /\ public_only pg_plain = true /\ curve_hyp_pgp pgK pg_plain /\ pe_idents pg_plain <> [] /\ ent_file_wf wit_ent = true.
Proof. repeat split; try reflexivity. discriminate. Qed.
