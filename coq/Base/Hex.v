(* Base/Hex.v — hex string input used by generated case files *)
From Relic Require Import Base.Prelude.
From Coq Require Import String Ascii.
(* hex input for case files *)
Definition hexval (c : ascii) : Z :=
  let n := Z.of_N (N_of_ascii c) in
  if (48 <=? n) && (n <=? 57) then n - 48
  else if (97 <=? n) && (n <=? 102) then n - 87
  else if (65 <=? n) && (n <=? 70) then n - 55 else 0.
Fixpoint hex (s : string) : bytes :=
  match s with
  | String a (String b r) => (16 * hexval a + hexval b) :: hex r
  | _ => []
  end.

