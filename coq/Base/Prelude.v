(* Base/Prelude.v — shared definitions: bytes as lists of Z, results, hex input. *)
From Coq Require Export List ZArith Lia Bool Arith.
From Coq Require Export ZifyBool ZifyNat ZifyN.
Export ListNotations.
Open Scope Z_scope.

Ltac Zify.zify_post_hook ::= Z.div_mod_to_equations.

Definition byte := Z.
Definition bytes := list Z.

Definition is_byte (b : Z) : bool := (0 <=? b) && (b <? 256).
Definition all_bytes (l : bytes) : bool := forallb is_byte l.

(* Go's byte(x) conversion of a non-negative int (target of srcgen for `byte(...)` where the wrap-around matters) *)
Definition wrap8 (x : Z) : Z := x mod 256.

Definition zlen {A} (l : list A) : Z := Z.of_nat (length l).

(* three-valued results: Ok, an ordinary error (class as a small number), or a Go panic *)
Inductive result (A : Type) : Type :=
| Ok (a : A)
| Err (e : Z)
| Panic (e : Z).
Arguments Ok {A} a.
Arguments Err {A} e.
Arguments Panic {A} e.

Definition bind {A B} (r : result A) (f : A -> result B) : result B :=
  match r with Ok a => f a | Err e => Err e | Panic e => Panic e end.
Notation "x <- r ;; k" := (bind r (fun x => k)) (at level 61, r at next level, right associativity).

Definition is_ok {A} (r : result A) : bool := match r with Ok _ => true | _ => false end.

(* slicing with Z indices (total; the checked versions live beside the models that need them) *)
Definition ztake {A} (n : Z) (l : list A) : list A := firstn (Z.to_nat n) l.
Definition zdrop {A} (n : Z) (l : list A) : list A := skipn (Z.to_nat n) l.
Definition zslice {A} (a b : Z) (l : list A) : list A := ztake (b - a) (zdrop a l).

Lemma zlen_app {A} (a b : list A) : zlen (a ++ b) = zlen a + zlen b.
Proof. unfold zlen. rewrite app_length. lia. Qed.
Lemma zlen_nonneg {A} (l : list A) : 0 <= zlen l.
Proof. unfold zlen. lia. Qed.
Lemma zlen_nil {A} : zlen (@nil A) = 0.
Proof. reflexivity. Qed.
Lemma zlen_cons {A} (x : A) l : zlen (x :: l) = 1 + zlen l.
Proof. unfold zlen. cbn [length]. lia. Qed.

Lemma zlen_ztake {A} n (l : list A) : 0 <= n <= zlen l -> zlen (ztake n l) = n.
Proof. unfold zlen, ztake. intros H. rewrite firstn_length. lia. Qed.
Lemma zlen_zdrop {A} n (l : list A) : 0 <= n <= zlen l -> zlen (zdrop n l) = zlen l - n.
Proof. unfold zlen, zdrop. intros H. rewrite skipn_length. lia. Qed.
Lemma ztake_zdrop {A} n (l : list A) : ztake n l ++ zdrop n l = l.
Proof. apply firstn_skipn. Qed.
Lemma ztake_all {A} n (l : list A) : zlen l <= n -> ztake n l = l.
Proof. unfold zlen, ztake. intros H. apply firstn_all2. lia. Qed.
Lemma zdrop_all {A} n (l : list A) : zlen l <= n -> zdrop n l = [].
Proof. unfold zlen, zdrop. intros H. apply skipn_all2. lia. Qed.
Lemma zdrop_0 {A} (l : list A) : zdrop 0 l = l.
Proof. reflexivity. Qed.
Lemma zdrop_neg {A} n (l : list A) : n <= 0 -> zdrop n l = l.
Proof. unfold zdrop. intros H. replace (Z.to_nat n) with 0%nat by lia. reflexivity. Qed.
Lemma ztake_neg {A} n (l : list A) : n <= 0 -> ztake n l = [].
Proof. unfold ztake. intros H. replace (Z.to_nat n) with 0%nat by lia. reflexivity. Qed.
Lemma zdrop_zdrop {A} a b (l : list A) : 0 <= a -> 0 <= b -> zdrop a (zdrop b l) = zdrop (a + b) l.
Proof.
  unfold zdrop. intros Ha Hb. replace (Z.to_nat (a + b)) with (Z.to_nat b + Z.to_nat a)%nat by lia.
  generalize (Z.to_nat a) (Z.to_nat b). clear. intros x y. revert l.
  induction y as [|y IH]; intros l; cbn [Nat.add skipn]; [reflexivity|].
  destruct l as [|h t]; [rewrite !skipn_nil; reflexivity|]. apply IH.
Qed.
Lemma ztake_app_l {A} n (a b : list A) : n <= zlen a -> ztake n (a ++ b) = ztake n a.
Proof.
  unfold ztake, zlen. intros H. rewrite firstn_app.
  replace (Z.to_nat n - length a)%nat with 0%nat by lia. cbn. apply app_nil_r.
Qed.
Lemma zdrop_app_l {A} n (a b : list A) : 0 <= n <= zlen a -> zdrop n (a ++ b) = zdrop n a ++ b.
Proof.
  unfold zdrop, zlen. intros H. rewrite skipn_app.
  replace (Z.to_nat n - length a)%nat with 0%nat by lia. reflexivity.
Qed.
Lemma zdrop_app_r {A} n (a b : list A) : zlen a <= n -> zdrop n (a ++ b) = zdrop (n - zlen a) b.
Proof.
  unfold zdrop, zlen. intros H. rewrite skipn_app.
  rewrite skipn_all2 by lia. cbn. f_equal. lia.
Qed.
Lemma ztake_app_r {A} n (a b : list A) : zlen a <= n -> ztake n (a ++ b) = a ++ ztake (n - zlen a) b.
Proof.
  unfold ztake, zlen. intros H. rewrite firstn_app.
  rewrite firstn_all2 by lia. f_equal. f_equal. lia.
Qed.

Fixpoint list_eqb {A} (eqb : A -> A -> bool) (a b : list A) : bool :=
  match a, b with
  | [], [] => true
  | x :: a', y :: b' => eqb x y && list_eqb eqb a' b'
  | _, _ => false
  end.
Definition bytes_eqb : bytes -> bytes -> bool := list_eqb Z.eqb.
Lemma list_eqb_Z_eq a b : list_eqb Z.eqb a b = true <-> a = b.
Proof.
  revert b; induction a as [|x a IH]; intros [|y b]; cbn; split; intro H; try congruence; try discriminate.
  - apply andb_true_iff in H as [H1 H2]. apply Z.eqb_eq in H1. apply IH in H2. congruence.
  - inversion H; subst. rewrite Z.eqb_refl. cbn. apply IH. reflexivity.
Qed.
