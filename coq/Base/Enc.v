(* Base/Enc.v — fixed-width little/big endian integers over bytes (Z), with round trips. *)
From Relic Require Import Base.Prelude.

Fixpoint le_enc (w : nat) (n : Z) : bytes :=
  match w with O => [] | S k => (n mod 256) :: le_enc k (n / 256) end.
Fixpoint le_dec (l : bytes) : Z :=
  match l with [] => 0 | b :: r => b + 256 * le_dec r end.
Definition be_enc (w : nat) (n : Z) : bytes := rev (le_enc w n).
Definition be_dec (l : bytes) : Z := le_dec (rev l).

Lemma le_enc_length w n : length (le_enc w n) = w.
Proof. revert n; induction w as [|w IH]; intros n; cbn; [reflexivity|]. now rewrite IH. Qed.
Lemma be_enc_length w n : length (be_enc w n) = w.
Proof. unfold be_enc. rewrite rev_length. apply le_enc_length. Qed.
Lemma le_enc_zlen w n : zlen (le_enc w n) = Z.of_nat w.
Proof. unfold zlen. now rewrite le_enc_length. Qed.
Lemma be_enc_zlen w n : zlen (be_enc w n) = Z.of_nat w.
Proof. unfold zlen. now rewrite be_enc_length. Qed.

Lemma le_dec_enc w n : 0 <= n < 256 ^ Z.of_nat w -> le_dec (le_enc w n) = n.
Proof.
  revert n; induction w as [|w IH]; intros n H.
  - cbn in *. lia.
  - cbn [le_enc le_dec]. rewrite IH.
    + pose proof (Z.div_mod n 256). lia.
    + rewrite Nat2Z.inj_succ, Z.pow_succ_r in H by lia. split.
      * apply Z.div_pos; lia.
      * apply Z.div_lt_upper_bound; lia.
Qed.
Lemma be_dec_enc w n : 0 <= n < 256 ^ Z.of_nat w -> be_dec (be_enc w n) = n.
Proof. unfold be_dec, be_enc. rewrite rev_involutive. apply le_dec_enc. Qed.

Lemma all_bytes_forall l : all_bytes l = true <-> Forall (fun b => 0 <= b < 256) l.
Proof.
  unfold all_bytes. rewrite forallb_forall, Forall_forall. unfold is_byte.
  split; intros H x Hx; specialize (H x Hx); lia.
Qed.

Lemma le_dec_range l : all_bytes l = true -> 0 <= le_dec l < 256 ^ zlen l.
Proof.
  induction l as [|b r IH]; intros H.
  - cbn. lia.
  - cbn [all_bytes forallb] in H. apply andb_true_iff in H as [Hb Hr].
    specialize (IH Hr). unfold is_byte in Hb. rewrite zlen_cons.
    rewrite Z.pow_add_r by (pose proof (zlen_nonneg r); lia). cbn [le_dec]. lia.
Qed.

Lemma le_enc_dec l : all_bytes l = true -> le_enc (length l) (le_dec l) = l.
Proof.
  induction l as [|b r IH]; intros H; [reflexivity|].
  cbn [all_bytes forallb] in H. apply andb_true_iff in H as [Hb Hr]. unfold is_byte in Hb.
  cbn [length le_enc le_dec]. f_equal.
  - replace (b + 256 * le_dec r) with (b + le_dec r * 256) by lia.
    rewrite Z_mod_plus_full. apply Z.mod_small. lia.
  - replace ((b + 256 * le_dec r) / 256) with (le_dec r) by lia. exact (IH Hr).
Qed.

Lemma le_enc_bytes w n : all_bytes (le_enc w n) = true.
Proof.
  revert n; induction w as [|w IH]; intros n; cbn; [reflexivity|].
  rewrite IH. unfold is_byte. pose proof (Z.mod_pos_bound n 256). lia.
Qed.
Lemma all_bytes_app a b : all_bytes (a ++ b) = all_bytes a && all_bytes b.
Proof. unfold all_bytes. apply forallb_app. Qed.
Lemma all_bytes_rev a : all_bytes (rev a) = all_bytes a.
Proof.
  induction a as [|x a IH]; [reflexivity|]. cbn [rev]. rewrite all_bytes_app, IH.
  cbn [all_bytes forallb]. unfold all_bytes. destruct (is_byte x), (forallb is_byte a); reflexivity.
Qed.
Lemma be_enc_bytes w n : all_bytes (be_enc w n) = true.
Proof. unfold be_enc. rewrite all_bytes_rev. apply le_enc_bytes. Qed.
Lemma be_enc_dec l : all_bytes l = true -> be_enc (length l) (be_dec l) = l.
Proof.
  intros H. unfold be_enc, be_dec. rewrite <- (rev_length l).
  rewrite le_enc_dec by (now rewrite all_bytes_rev). apply rev_involutive.
Qed.
