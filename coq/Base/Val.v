(* Base/Val.v — generic structured values exchanged between the harness and the executable models.
   Every property's Run.v exposes  run : val -> val ; the extracted OCaml driver and the vm_compute
   route both go through it. *)
From Relic Require Import Base.Prelude.

Inductive val : Type :=
| VZ (z : Z)
| VB (b : bytes)
| VL (l : list val).

Definition vz (v : val) : Z := match v with VZ z => z | _ => 0 end.
Definition vb (v : val) : bytes := match v with VB b => b | _ => [] end.
Definition vl (v : val) : list val := match v with VL l => l | _ => [] end.
Definition vbool (v : val) : bool := negb (vz v =? 0).
Definition vnth (n : nat) (v : val) : val := nth n (vl v) (VZ 0).
Definition of_bool (b : bool) : val := VZ (if b then 1 else 0).
Definition VZs (l : list Z) : val := VL (map VZ l).

(* helpers used by the OCaml line driver for decimal I/O of Z (so no OCaml-side arithmetic is trusted) *)
Definition z_push_digit (acc d : Z) : Z := acc * 10 + d.
Definition z_divmod10 (z : Z) : Z * Z := Z.div_eucl z 10.
