(* C15/Proofs.v — proofs of the C15 property theorems (retry loop, worker handler gate, key cache).
   Properties.v defines delay_at / delays_upto / temp_prefix / cache_seq itself (after importing this
   file), so identical copies are defined here; the lemma statements are convertible with the theorem
   statements of Properties.v. *)
From Relic Require Import Base.Prelude Generated.C15_gen C15.Model.

Fixpoint delay_at (i : nat) : Z := match i with O => initial_delay_ms | S k => next_delay (delay_at k) end.
Definition delays_upto (n : nat) : list Z := map delay_at (seq 0 n).
Definition temp_prefix (script : list outcome) (j : nat) : Prop :=
  forall i, (i < j)%nat -> temporary (nth i script OSuccess) = true.
Fixpoint cache_seq (expiry : Z) (st : cstate) (k : bytes) (ops : list (bytes * Z)) : list (option bytes) :=
  match ops with
  | [] => []
  | (want, now) :: r => let '(res, _, st') := cache_get expiry st want now (Some k) in res :: cache_seq expiry st' k r
  end.

(* ------------------------------------------------------------------ small facts *)
Lemma retries_positive : forall r, 1 <= eff_retries r.
Proof.
  intros r. unfold eff_retries, retry_use_default, default_retries.
  destruct (r <=? 0) eqn:H; [lia | apply Z.leb_gt in H; lia].
Qed.

Lemma delays_upto_S n : delays_upto (S n) = delays_upto n ++ [delay_at n].
Proof. unfold delays_upto. rewrite seq_S, map_app. reflexivity. Qed.

Lemma delays_step n :
  match n with O => delays_upto (Nat.pred n) | S _ => delays_upto (Nat.pred n) ++ [delay_at (Nat.pred n)] end
  = delays_upto n.
Proof. destruct n; [reflexivity|]. symmetry. apply delays_upto_S. Qed.

Lemma delay_capped : forall i, delay_at i <= Z.max initial_delay_ms max_delay_ms.
Proof.
  intros [|k]; cbn [delay_at].
  - apply Z.le_max_l.
  - unfold next_delay. etransitivity; [apply Z.le_min_l | apply Z.le_max_r].
Qed.

(* ------------------------------------------------------------------ one iteration of the loop *)
Lemma retry_loop_S f i retries delay script cw last delays :
  retry_loop (S f) i retries delay script cw last delays =
  if retry_loop_cond i retries then
    if retry_wait_first i && (cw =? i) then (RCancelled, i, delays)
    else
      let delays' := if retry_wait_first i then delays ++ [delay] else delays in
      let delay' := if retry_wait_first i then next_delay delay else delay in
      match nth (Z.to_nat i) script OSuccess with
      | OSuccess => (RSuccess, i + 1, delays')
      | o => if retry_give_up (retry_is_retryable (temporary o)) then (RFail o, i + 1, delays')
             else retry_loop f (i + 1) retries delay' script cw (Some o) delays'
      end
  else (match last with Some o => RFail o | None => RNil end, i, delays).
Proof. reflexivity. Qed.

Lemma wait_first_nat n : retry_wait_first (Z.of_nat n) = match n with O => false | S _ => true end.
Proof. unfold retry_wait_first. destruct n; [reflexivity|]. apply negb_true_iff, Z.eqb_neq. lia. Qed.

Lemma cond_true n retries : Z.of_nat n < retries -> retry_loop_cond (Z.of_nat n) retries = true.
Proof. unfold retry_loop_cond. apply Z.ltb_lt. Qed.

Lemma cond_false n retries : retries <= Z.of_nat n -> retry_loop_cond (Z.of_nat n) retries = false.
Proof. unfold retry_loop_cond. apply Z.ltb_ge. Qed.

Lemma no_cancel n cw :
  n = 0%nat \/ cw <> Z.of_nat n -> retry_wait_first (Z.of_nat n) && (cw =? Z.of_nat n) = false.
Proof.
  intros [->|H]; [reflexivity|]. apply andb_false_iff. right. apply Z.eqb_neq. exact H.
Qed.

Lemma step_body f n retries delay script cw last delays :
  Z.of_nat n < retries -> n = 0%nat \/ cw <> Z.of_nat n ->
  retry_loop (S f) (Z.of_nat n) retries delay script cw last delays =
  match nth n script OSuccess with
  | OSuccess => (RSuccess, Z.of_nat n + 1, match n with O => delays | S _ => delays ++ [delay] end)
  | o => if retry_give_up (retry_is_retryable (temporary o))
         then (RFail o, Z.of_nat n + 1, match n with O => delays | S _ => delays ++ [delay] end)
         else retry_loop f (Z.of_nat n + 1) retries (match n with O => delay | S _ => next_delay delay end)
                         script cw (Some o) (match n with O => delays | S _ => delays ++ [delay] end)
  end.
Proof.
  intros Hr Hc. rewrite retry_loop_S. rewrite (cond_true _ _ Hr), (no_cancel _ _ Hc), wait_first_nat, Nat2Z.id.
  cbv zeta. destruct n; reflexivity.
Qed.

Lemma step_continue f n retries delay script cw last delays :
  Z.of_nat n < retries -> n = 0%nat \/ cw <> Z.of_nat n ->
  temporary (nth n script OSuccess) = true ->
  retry_loop (S f) (Z.of_nat n) retries delay script cw last delays =
  retry_loop f (Z.of_nat (S n)) retries (match n with O => delay | S _ => next_delay delay end)
             script cw (Some (nth n script OSuccess)) (match n with O => delays | S _ => delays ++ [delay] end).
Proof.
  intros Hr Hc Ht. rewrite (step_body _ _ _ _ _ _ _ _ Hr Hc).
  replace (Z.of_nat n + 1) with (Z.of_nat (S n)) by lia.
  destruct (nth n script OSuccess) eqn:E; cbv beta iota;
    [cbn [temporary] in Ht; discriminate|..];
    unfold retry_give_up, retry_is_retryable; rewrite Ht; reflexivity.
Qed.

Lemma step_success f n retries delay script cw last delays :
  Z.of_nat n < retries -> n = 0%nat \/ cw <> Z.of_nat n ->
  nth n script OSuccess = OSuccess ->
  retry_loop (S f) (Z.of_nat n) retries delay script cw last delays =
  (RSuccess, Z.of_nat n + 1, match n with O => delays | S _ => delays ++ [delay] end).
Proof. intros Hr Hc E. rewrite (step_body _ _ _ _ _ _ _ _ Hr Hc), E. reflexivity. Qed.

Lemma step_fail f n retries delay script cw last delays o :
  Z.of_nat n < retries -> n = 0%nat \/ cw <> Z.of_nat n ->
  nth n script OSuccess = o -> o <> OSuccess -> temporary o = false ->
  retry_loop (S f) (Z.of_nat n) retries delay script cw last delays =
  (RFail o, Z.of_nat n + 1, match n with O => delays | S _ => delays ++ [delay] end).
Proof.
  intros Hr Hc E Hne Ht. rewrite (step_body _ _ _ _ _ _ _ _ Hr Hc), E.
  destruct o; [congruence|..]; cbv beta iota;
    unfold retry_give_up, retry_is_retryable; rewrite Ht; reflexivity.
Qed.

Lemma step_cancel f n retries delay script last delays :
  Z.of_nat n < retries -> n <> 0%nat ->
  retry_loop (S f) (Z.of_nat n) retries delay script (Z.of_nat n) last delays = (RCancelled, Z.of_nat n, delays).
Proof.
  intros Hr Hn. rewrite retry_loop_S, (cond_true _ _ Hr), wait_first_nat, Z.eqb_refl.
  destruct n; [congruence | reflexivity].
Qed.

Lemma step_end f n retries delay script cw last delays :
  retries <= Z.of_nat n ->
  retry_loop (S f) (Z.of_nat n) retries delay script cw last delays =
  (match last with Some o => RFail o | None => RNil end, Z.of_nat n, delays).
Proof. intros Hr. rewrite retry_loop_S, (cond_false _ _ Hr). reflexivity. Qed.

(* ------------------------------------------------------------------ k transient iterations in a row *)
Lemma advance retries script cw : forall k f n last,
  (forall i, (n <= i < n + k)%nat -> temporary (nth i script OSuccess) = true) ->
  Z.of_nat (n + k) <= retries ->
  (forall i, (n <= i < n + k)%nat -> i = 0%nat \/ cw <> Z.of_nat i) ->
  retry_loop (k + f) (Z.of_nat n) retries (delay_at (Nat.pred n)) script cw last (delays_upto (Nat.pred n)) =
  retry_loop f (Z.of_nat (n + k)) retries (delay_at (Nat.pred (n + k))) script cw
             (match k with O => last | S _ => Some (nth (Nat.pred (n + k)) script OSuccess) end)
             (delays_upto (Nat.pred (n + k))).
Proof.
  induction k as [|k IH]; intros f n last Ht Hr Hc.
  - rewrite Nat.add_0_r. reflexivity.
  - change (S k + f)%nat with (S (k + f)).
    rewrite step_continue; [| lia | apply Hc; lia | apply Ht; lia].
    rewrite delays_step.
    replace (match n with O => delay_at (Nat.pred n) | S _ => next_delay (delay_at (Nat.pred n)) end)
      with (delay_at (Nat.pred (S n))) by (destruct n; reflexivity).
    change (delays_upto n) with (delays_upto (Nat.pred (S n))).
    rewrite IH; [| intros i Hi; apply Ht; lia | lia | intros i Hi; apply Hc; lia].
    replace (S n + k)%nat with (n + S k)%nat by lia.
    f_equal. destruct k; [|reflexivity].
    replace (n + 1)%nat with (S n) by lia. reflexivity.
Qed.

Lemma do_retry_advance r script cw k f :
  S (Z.to_nat (eff_retries r)) = (k + f)%nat ->
  temp_prefix script k -> Z.of_nat k <= eff_retries r ->
  (forall i, (i < k)%nat -> i = 0%nat \/ cw <> Z.of_nat i) ->
  do_retry r script cw =
  retry_loop f (Z.of_nat k) (eff_retries r) (delay_at (Nat.pred k)) script cw
             (match k with O => None | S _ => Some (nth (Nat.pred k) script OSuccess) end)
             (delays_upto (Nat.pred k)).
Proof.
  intros Hf Ht Hr Hc. unfold do_retry. cbv zeta. rewrite Hf.
  refine (advance (eff_retries r) script cw k f 0%nat None _ _ _).
  - intros i Hi. apply Ht. lia.
  - exact Hr.
  - intros i Hi. apply Hc. lia.
Qed.

(* ------------------------------------------------------------------ attempts_bounded *)
Lemma loop_bounded retries script cw : forall fuel i delay last delays,
  0 <= i <= retries ->
  i <= snd (fst (retry_loop fuel i retries delay script cw last delays)) <= retries.
Proof.
  induction fuel as [|fuel IH]; intros i delay last delays Hi.
  - cbn [retry_loop fst snd]. lia.
  - rewrite retry_loop_S. cbv zeta. unfold retry_loop_cond.
    destruct (i <? retries) eqn:Hc.
    + apply Z.ltb_lt in Hc.
      destruct (retry_wait_first i && (cw =? i)); [cbn [fst snd]; lia|].
      destruct (nth (Z.to_nat i) script OSuccess); cbv beta iota; [cbn [fst snd]; lia|..];
        (destruct (retry_give_up _); [cbn [fst snd]; lia|]);
        match goal with
        | |- context [retry_loop fuel ?a retries ?b script cw ?c ?d] =>
            pose proof (IH a b c d ltac:(lia)); lia
        end.
    + cbn [fst snd]. lia.
Qed.

Lemma attempts_bounded : forall r script cw,
  let '(_, n, _) := do_retry r script cw in 0 <= n <= eff_retries r.
Proof.
  intros r script cw. pose proof (retries_positive r) as Hp.
  pose proof (loop_bounded (eff_retries r) script cw (S (Z.to_nat (eff_retries r))) 0 initial_delay_ms None []
                ltac:(lia)) as H.
  change (retry_loop _ _ _ _ _ _ _ _) with (do_retry r script cw) in H.
  destruct (do_retry r script cw) as [[a n] d]. cbn [fst snd] in H. exact H.
Qed.

(* ------------------------------------------------------------------ success_iff *)
Lemma loop_success_inv retries script : forall fuel n delay last delays,
  fst (fst (retry_loop fuel (Z.of_nat n) retries delay script (-1) last delays)) = RSuccess ->
  exists j, (n <= j)%nat /\ Z.of_nat j < retries /\ nth j script OSuccess = OSuccess /\
            forall i, (n <= i < j)%nat -> temporary (nth i script OSuccess) = true.
Proof.
  induction fuel as [|fuel IH]; intros n delay last delays H.
  - cbn [retry_loop fst] in H. discriminate.
  - destruct (Z_lt_le_dec (Z.of_nat n) retries) as [Hr|Hr].
    + rewrite step_body in H by (try assumption; right; lia).
      destruct (nth n script OSuccess) eqn:E; cbv beta iota in H.
      1: { exists n. repeat split; try assumption; intros; lia. }
      all: unfold retry_give_up, retry_is_retryable in H.
      all: match type of H with context [negb (temporary ?o)] => destruct (temporary o) eqn:T end.
      all: cbn [negb fst] in H; try discriminate.
      all: replace (Z.of_nat n + 1) with (Z.of_nat (S n)) in H by lia.
      all: apply IH in H; destruct H as (j & Hj & Hjr & Hs & Hp).
      all: exists j; repeat split; try assumption; try lia.
      all: intros i Hi; destruct (Nat.eq_dec i n) as [->|Hne]; [rewrite E; exact T | apply Hp; lia].
    + rewrite step_end in H by assumption. destruct last; cbn [fst] in H; discriminate.
Qed.

Lemma success_iff : forall r script,
  fst (fst (do_retry r script (-1))) = RSuccess <->
  exists j, Z.of_nat j < eff_retries r /\ nth j script OSuccess = OSuccess /\ temp_prefix script j.
Proof.
  intros r script. split.
  - unfold do_retry. cbv zeta. intros H.
    apply (loop_success_inv (eff_retries r) script _ 0%nat) in H.
    destruct H as (j & _ & Hr & Hs & Hp). exists j. repeat split; try assumption.
    intros i Hi. apply Hp. lia.
  - intros (j & Hr & Hs & Hp).
    rewrite (do_retry_advance r script (-1) j (S (Z.to_nat (eff_retries r) - j)))
      by (try assumption; try lia; intros; lia).
    rewrite step_success; try assumption; [reflexivity | right; lia].
Qed.

(* ------------------------------------------------------------------ permanent_immediate / exhausted / cancel_prompt *)
Lemma permanent_immediate : forall r script cw j o,
  Z.of_nat j < eff_retries r -> temp_prefix script j ->
  nth j script OSuccess = o -> o <> OSuccess -> temporary o = false ->
  (cw < 1 \/ Z.of_nat j < cw) ->
  do_retry r script cw = (RFail o, Z.of_nat j + 1, delays_upto j).
Proof.
  intros r script cw j o Hr Hp E Hne Ht Hcw.
  assert (Hc : forall i, (i <= j)%nat -> i = 0%nat \/ cw <> Z.of_nat i) by (intros i Hi; lia).
  rewrite (do_retry_advance r script cw j (S (Z.to_nat (eff_retries r) - j)))
    by (try assumption; try lia; intros; apply Hc; lia).
  rewrite (step_fail _ _ _ _ _ _ _ _ o); try assumption; [| apply Hc; lia].
  rewrite delays_step. reflexivity.
Qed.

Lemma exhausted : forall r script cw,
  temp_prefix script (Z.to_nat (eff_retries r)) -> (cw < 1 \/ eff_retries r <= cw) ->
  do_retry r script cw =
  (RFail (nth (Z.to_nat (eff_retries r) - 1) script OSuccess), eff_retries r, delays_upto (Z.to_nat (eff_retries r) - 1)).
Proof.
  intros r script cw Hp Hcw. pose proof (retries_positive r) as Hpos.
  rewrite (do_retry_advance r script cw (Z.to_nat (eff_retries r)) 1)
    by (try assumption; try lia; intros; lia).
  rewrite step_end by lia.
  replace (Z.to_nat (eff_retries r) - 1)%nat with (Nat.pred (Z.to_nat (eff_retries r))) by lia.
  destruct (Z.to_nat (eff_retries r)) eqn:E; [lia|].
  rewrite <- E, Z2Nat.id by lia. reflexivity.
Qed.

Lemma cancel_prompt : forall r script k,
  (1 <= k)%nat -> Z.of_nat k < eff_retries r -> temp_prefix script k ->
  do_retry r script (Z.of_nat k) = (RCancelled, Z.of_nat k, delays_upto (k - 1)).
Proof.
  intros r script k Hk Hr Hp.
  rewrite (do_retry_advance r script (Z.of_nat k) k (S (Z.to_nat (eff_retries r) - k)))
    by (try assumption; try lia; intros; lia).
  rewrite step_cancel by (try assumption; lia).
  replace (k - 1)%nat with (Nat.pred k) by lia. reflexivity.
Qed.

(* ------------------------------------------------------------------ worker handler *)
Lemma cookie_gate : forall e, handler false e = (403, false, (false, false)).
Proof. intros e. unfold handler, handler_cookie_bad. reflexivity. Qed.

Lemma classification_preserved : forall e,
  e <> HNone ->
  temporary (client_view e) = fst (handler_flags e) /\ (client_view e = OUsage <-> e = HUsage).
Proof.
  intros e Hne. destruct e as [|fatal| | |]; [congruence|..];
    cbn [client_view handler_flags temporary fst]; (split; [reflexivity|]); split; intros H;
    try discriminate; reflexivity.
Qed.

(* ------------------------------------------------------------------ key cache *)
Lemma zlen_eqb_0_false {A} (l : list A) : l <> [] -> (zlen l =? 0) = false.
Proof. intros H. apply Z.eqb_neq. destruct l; [congruence|]. rewrite zlen_cons. pose proof (zlen_nonneg l). lia. Qed.

Lemma pinned_id : forall expiry st want now tok k called st',
  want <> [] -> cache_get expiry st want now tok = (Some k, called, st') ->
  st' = st /\ ((called = false /\ k = want) \/ (called = true /\ tok = Some k)).
Proof.
  intros expiry st want now tok k called st' Hw H. unfold cache_get in H.
  unfold cache_id_acceptable, cache_may_store in H.
  rewrite (zlen_eqb_0_false want Hw), andb_false_r in H. cbn [orb] in H.
  destruct (cache_entry_live (c_has st) (now <? c_expires st) && bytes_eqb want (c_id st)) eqn:Hhit.
  - apply andb_true_iff in Hhit as [_ Heq]. apply list_eqb_Z_eq in Heq.
    inversion H; subst. split; [reflexivity|]. left. split; [reflexivity | congruence].
  - destruct tok as [k0|]; [|discriminate].
    inversion H; subst. split; [reflexivity|]. right. split; reflexivity.
Qed.

Lemma cache_seq_inv expiry k : forall ops st,
  (c_has st = true -> c_id st = k) ->
  Forall (fun res => res = Some k) (cache_seq expiry st k ops).
Proof.
  induction ops as [|[want now] ops IH]; intros st Hst; cbn [cache_seq]; [constructor|].
  unfold cache_get, cache_entry_live.
  destruct ((c_has st && (now <? c_expires st)) && cache_id_acceptable (zlen want) (bytes_eqb want (c_id st))) eqn:Hhit.
  - apply andb_true_iff in Hhit as [Hl _]. apply andb_true_iff in Hl as [Hh _].
    constructor; [rewrite (Hst Hh); reflexivity | apply IH; exact Hst].
  - constructor; [reflexivity|]. apply IH.
    destruct (cache_may_store expiry (zlen want)); [intros _; reflexivity | exact Hst].
Qed.

Lemma cache_transparent : forall expiry k ops,
  Forall (fun res => res = Some k) (cache_seq expiry c_empty k ops).
Proof. intros expiry k ops. apply cache_seq_inv. cbn [c_empty c_has]. discriminate. Qed.

(* ------------------------------------------------------------------ extras (not used by Properties.v) *)
(* the fuel given by do_retry always suffices *)
Lemma loop_fuel_ok retries script cw : forall fuel i delay last delays,
  (Z.to_nat (retries - i) < fuel)%nat ->
  fst (fst (retry_loop fuel i retries delay script cw last delays)) <> ROutOfFuel.
Proof.
  induction fuel as [|fuel IH]; intros i delay last delays Hf; [lia|].
  rewrite retry_loop_S. cbv zeta. unfold retry_loop_cond.
  destruct (i <? retries) eqn:Hc.
  - apply Z.ltb_lt in Hc.
    destruct (retry_wait_first i && (cw =? i)); [cbn [fst]; discriminate|].
    destruct (nth (Z.to_nat i) script OSuccess); cbv beta iota; [cbn [fst]; discriminate|..];
      (destruct (retry_give_up _); [cbn [fst]; discriminate|]); apply IH; lia.
  - destruct last; cbn [fst]; discriminate.
Qed.

Lemma never_out_of_fuel : forall r script cw, fst (fst (do_retry r script cw)) <> ROutOfFuel.
Proof. intros r script cw. unfold do_retry. cbv zeta. apply loop_fuel_ok. lia. Qed.

(* at least one attempt is always made, and (nil, nil) is never returned *)
Lemma attempts_at_least_one : forall r script cw, 1 <= snd (fst (do_retry r script cw)).
Proof.
  intros r script cw. pose proof (retries_positive r) as Hp. unfold do_retry. cbv zeta.
  change 0 with (Z.of_nat 0). rewrite step_body by (try lia; left; reflexivity).
  destruct (nth 0 script OSuccess); cbv beta iota zeta; cbn [Z.of_nat]; [cbn [fst snd]; lia|..];
    (destruct (retry_give_up _); [cbn [fst snd]; lia|]);
    match goal with
    | |- context [retry_loop ?f ?a ?R ?b script cw ?c ?d] =>
        pose proof (loop_bounded R script cw f a b c d ltac:(lia)) as H; lia
    end.
Qed.

(* the transient classes are exactly the ones the property names: 500/502/503/504/507 replies, connection-level
   system call errors, cancellation/deadline, truncated replies *)
Lemma transient_status_spec c : status_is_temporary c = true <-> In c [500; 502; 503; 504; 507].
Proof.
  unfold status_is_temporary. cbn [In]. split.
  - intro H. destruct (c =? 504) eqn:E1; destruct (c =? 502) eqn:E2; destruct (c =? 503) eqn:E3;
    destruct (c =? 507) eqn:E4; destruct (c =? 500) eqn:E5; cbn in H; try discriminate; lia.
  - intros [H|[H|[H|[H|[H|[]]]]]]; subst; reflexivity.
Qed.
Lemma transient_classes_spec : temporary_classes = [1; 2; 3; 4].
Proof. reflexivity. Qed.
