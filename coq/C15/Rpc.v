(* C15/Rpc.v — the worker RPC boundary end to end: token/worker (request, doOnce) on the client side, cmdline/workercmd
   (ServeHTTP, handle) on the server side, internal/workerrpc (method table, message structs) in between.

   A message on the wire is a JSON object; it is modelled as an association list from field names to JSON values, built
   and read with the field tables GENERATED from the two structs (encoding/json itself is assumed to round-trip strings
   that are valid UTF-8, []byte through base64, numbers and booleans — the harness checks that on every case).
   Dispatch, the request fields each method reads, the response fields it sets, the token operations it performs, the
   error classification table and the client's decoding conditions are generated definitions. *)
From Relic Require Import Base.Prelude Generated.C15_gen C15.Model C15.Time.
Open Scope Z_scope.


(* ------------------------------------------------------------------ messages *)
Record rreq := mkReq { q_keyname : bytes; q_keyid : option bytes; q_digest : bytes; q_hash : Z; q_salt : option Z }.
Record rresp := mkResp { p_value : bytes; p_id : bytes; p_cert : bytes; p_key : bytes; p_err : bytes; p_retryable : bool; p_usage : bool }.
Definition resp0 : rresp := mkResp [] [] [] [] [] false false.
Definition req0 : rreq := mkReq [] None [] 0 None.

Inductive jval := JNull | JStr (s : bytes) | JBytes (b : bytes) | JNum (n : Z) | JBool (b : bool).
Definition wire := list (bytes * jval).
Fixpoint wlookup (n : bytes) (w : wire) : jval :=
  match w with [] => JNull | (m, v) :: r => if bytes_eqb m n then v else wlookup n r end.

Definition fKeyName := [75; 101; 121; 78; 97; 109; 101] (* "KeyName" *). Definition fKeyID := [75; 101; 121; 73; 68] (* "KeyID" *). Definition fDigest := [68; 105; 103; 101; 115; 116] (* "Digest" *).
Definition fHash := [72; 97; 115; 104] (* "Hash" *). Definition fSaltLength := [83; 97; 108; 116; 76; 101; 110; 103; 116; 104] (* "SaltLength" *).
Definition fValue := [86; 97; 108; 117; 101] (* "Value" *). Definition fID := [73; 68] (* "ID" *). Definition fCert := [67; 101; 114; 116] (* "Cert" *). Definition fKey := [75; 101; 121] (* "Key" *).
Definition fErr := [69; 114; 114] (* "Err" *). Definition fRetryable := [82; 101; 116; 114; 121; 97; 98; 108; 101] (* "Retryable" *). Definition fUsage := [85; 115; 97; 103; 101] (* "Usage" *).

(* how a Go value of the generated type code is written (1 string, 2 []byte, 3 uint, 4 *int, 5 bool) *)
Definition req_field (r : rreq) (name : bytes) (ty : Z) : jval :=
  if bytes_eqb name fKeyName && (ty =? 1) then JStr (q_keyname r)
  else if bytes_eqb name fKeyID && (ty =? 2) then match q_keyid r with Some b => JBytes b | None => JNull end
  else if bytes_eqb name fDigest && (ty =? 2) then JBytes (q_digest r)
  else if bytes_eqb name fHash && (ty =? 3) then JNum (q_hash r)
  else if bytes_eqb name fSaltLength && (ty =? 4) then match q_salt r with Some n => JNum n | None => JNull end
  else JNull.
Definition encode_req (r : rreq) : wire := map (fun f => (fst f, req_field r (fst f) (snd f))) rpc_request_fields.
Definition jbytes (v : jval) : bytes := match v with JBytes b => b | JStr s => s | _ => [] end.
Definition jopt_bytes (v : jval) : option bytes := match v with JBytes b => Some b | _ => None end.
Definition jnum (v : jval) : Z := match v with JNum n => n | _ => 0 end.
Definition jopt_num (v : jval) : option Z := match v with JNum n => Some n | _ => None end.
Definition jbool (v : jval) : bool := match v with JBool b => b | _ => false end.
Definition decode_req (w : wire) : rreq :=
  mkReq (jbytes (wlookup fKeyName w)) (jopt_bytes (wlookup fKeyID w)) (jbytes (wlookup fDigest w))
        (jnum (wlookup fHash w)) (jopt_num (wlookup fSaltLength w)).

Definition resp_field (r : rresp) (name : bytes) (ty : Z) : jval :=
  if bytes_eqb name fValue && (ty =? 2) then JBytes (p_value r)
  else if bytes_eqb name fID && (ty =? 2) then JBytes (p_id r)
  else if bytes_eqb name fCert && (ty =? 2) then JBytes (p_cert r)
  else if bytes_eqb name fKey && (ty =? 1) then JStr (p_key r)
  else if bytes_eqb name fErr && (ty =? 1) then JStr (p_err r)
  else if bytes_eqb name fRetryable && (ty =? 5) then JBool (p_retryable r)
  else if bytes_eqb name fUsage && (ty =? 5) then JBool (p_usage r)
  else JNull.
Definition encode_resp (r : rresp) : wire := map (fun f => (fst f, resp_field r (fst f) (snd f))) rpc_response_fields.
Definition decode_resp (w : wire) : rresp :=
  mkResp (jbytes (wlookup fValue w)) (jbytes (wlookup fID w)) (jbytes (wlookup fCert w)) (jbytes (wlookup fKey w))
         (jbytes (wlookup fErr w)) (jbool (wlookup fRetryable w)) (jbool (wlookup fUsage w)).

(* ------------------------------------------------------------------ statement skeletons the model was written against *)
Definition serve_skeleton_expected : list (Z * Z) :=
  [(0, 1); (0, 2); (1, 3); (1, 4);               (* cookie := Header.Get; if !hmac.Equal { WriteHeader(403); return } *)
   (0, 5);                                        (* resp, err := h.handle(rw, req) *)
   (0, 6); (1, 7); (1, 8);                        (* if err != nil { Retryable = true; Err = err.Error() *)
   (1, 21); (1, 22); (1, 23);                     (*   var p11err pkcs11Error; var notImpl ...; var usage ... *)
   (1, 9); (2, 10); (3, 11); (4, 12); (4, 7); (3, 98); (4, 13);   (*   errors.As pkcs11Error: fatal -> shutdown, retryable; else not *)
   (2, 14); (3, 13);                              (*   errors.As NotImplementedError *)
   (2, 15); (3, 13); (3, 16); (3, 17); (3, 18);   (*   errors.As KeyUsageError: Usage, Key, inner text *)
   (1, 24); (2, 25);                              (*   if resp.Err == "" { resp.Err = "unknown error" } *)
   (0, 19); (0, 6); (1, 20); (0, 6)].             (* marshal, write *)
Definition handle_skeleton_expected : list (Z * Z) :=
  [(0, 1); (0, 2); (1, 3);                        (* read the body *)
   (0, 4); (0, 5); (1, 3);                        (* parse it *)
   (0, 6); (0, 7); (1, 8);                        (* pin the key id *)
   (0, 9);
   (1, 10); (2, 11);                              (* ping *)
   (1, 12); (2, 13); (2, 2); (3, 3); (2, 14); (2, 15); (2, 16); (2, 3);                  (* getKey *)
   (1, 17); (2, 18); (2, 19); (2, 20); (3, 21); (2, 13); (2, 2); (3, 3); (2, 22); (2, 3);  (* sign *)
   (1, 23); (2, 24)].                             (* anything else *)
Definition request_skeleton_expected : list (Z * Z) := [(0, 1); (0, 2); (0, 3); (1, 4); (0, 5); (1, 7); (0, 6)].
Definition temporary_skeleton_expected : list (Z * Z) :=
  [(0, 1); (1, 2); (0, 3); (1, 4); (0, 5); (1, 6); (2, 4); (1, 7); (2, 4); (1, 8); (2, 4); (1, 9); (2, 4); (0, 2)].
Definition rpc_shape_ok : bool :=
  skel_eqb serve_skeleton serve_skeleton_expected && skel_eqb handle_skeleton handle_skeleton_expected &&
  skel_eqb request_skeleton request_skeleton_expected && skel_eqb temporary_skeleton temporary_skeleton_expected &&
  negb handler_class_by_concrete_type && handler_class_err_text_from_error.

(* ------------------------------------------------------------------ what a token can answer *)
Inductive terr :=
| EPkcs11 (fatal : bool) (msg : bytes)      (* a pkcs11.Error value *)
| ENotImpl (msg : bytes)                    (* token.NotImplementedError *)
| EUsage (key msg : bytes)                  (* token.KeyUsageError{Key, Err: errors.New(msg)} *)
| EWrapped (pre : bytes) (inner : terr)     (* fmt.Errorf(pre + "%w", inner): another concrete type; errors.As still reaches inner *)
| EOther (msg : bytes).                     (* any other error value *)
Fixpoint err_text (e : terr) : bytes :=
  match e with
  | EPkcs11 _ m => m | ENotImpl m => m | EOther m => m
  | EUsage k m => [107; 101; 121; 32] (* "key " *) ++ k ++ [58; 32] (* ": " *) ++ m
  | EWrapped pre i => pre ++ err_text i
  end.
(* the concrete type the handler's type switch sees (codes of Generated.handler_class_table) *)
Definition concrete_code (e : terr) : Z :=
  match e with EPkcs11 _ _ => 1 | ENotImpl _ => 2 | EUsage _ _ => 3 | EWrapped _ _ => 98 | EOther _ => 97 end.
Definition is_fatal (e : terr) : bool := match e with EPkcs11 f _ => f | _ => false end.
Definition usage_key (e : terr) : bytes := match e with EUsage k _ => k | _ => [] end.
Definition usage_msg (e : terr) : bytes := match e with EUsage _ m => m | _ => [] end.

(* errors.As(err, &v) for a target of concrete type `code`: the first error of the chain that has that type *)
Fixpoint as_find (code : Z) (e : terr) : option terr :=
  if concrete_code e =? code then Some e
  else match e with EWrapped _ i => as_find code i | _ => None end.
(* the classification switch: the first case, in source order, whose errors.As succeeds *)
Fixpoint class_row (e : terr) (t : list (Z * Z * Z * Z * Z * Z)) : option (terr * (Z * Z * Z * Z * Z)) :=
  match t with
  | [] => None
  | (c, rf, re, us, tx, ky) :: r =>
      match as_find c e with Some f => Some (f, (rf, re, us, tx, ky)) | None => class_row e r end
  end.
Definition pick (code : Z) (old : bool) : bool := if code =? 1 then true else if code =? 0 then false else old.
(* ServeHTTP's error branch, including the guard that keeps an empty text from reading as success *)
Definition serve_error (e : terr) : rresp :=
  let retry0 := handler_class_default_retryable in
  let text0 := err_text e in
  let r :=
    match class_row e handler_class_table with
    | Some (f, (rf, re, us, tx, ky)) =>
        mkResp [] [] [] (if ky =? 1 then usage_key f else [])
               (if tx =? 1 then usage_msg f else text0)
               (pick (if is_fatal f then rf else re) retry0) (pick us false)
    | None => mkResp [] [] [] [] text0 retry0 false
    end in
  if serve_err_text_empty (p_err r) then mkResp (p_value r) (p_id r) (p_cert r) (p_key r) serve_err_text_default (p_retryable r) (p_usage r) else r.

(* ------------------------------------------------------------------ the server *)
Record keyinfo := mkKI { k_id : bytes; k_cert : bytes; k_pub : bytes }.
Inductive tcall := TPing | TGetKey (name pin : bytes) | TSign (name pin digest : bytes) (hash : Z) (salt : option Z).
(* the token behind the handler (through tokencache.Cache): answers as functions of the call *)
Record tokfn := mkTok {
  tk_ping : option terr;
  tk_getkey : bytes -> bytes -> terr + keyinfo;
  tk_sign : keyinfo -> bytes -> Z -> option Z -> terr + bytes }.

Record sreq := mkSReq { s_cookie_ok : bool; s_body : option rreq; s_path : bytes }.
Definition parse_error : terr := EOther ([105; 110; 118; 97; 108; 105; 100; 32; 99; 104; 97; 114; 97; 99; 116; 101; 114] (* "invalid character" *)).
Definition invalid_method (p : bytes) : terr := EOther ([105; 110; 118; 97; 108; 105; 100; 32; 109; 101; 116; 104; 111; 100; 58; 32] (* "invalid method: " *) ++ p).

Fixpoint dispatch_ops (p : bytes) (t : list (bytes * list bytes * list bytes * list Z)) : option (list Z) :=
  match t with
  | [] => None
  | (path, _, _, ops) :: r => if bytes_eqb path p then Some ops else dispatch_ops p r
  end.
Definition ops_eqb (a b : list Z) : bool := list_eqb Z.eqb a b.

Definition default_calls : list tcall := map (fun _ => TPing) handler_dispatch_default_token_ops.
(* handle: (response or error) and the token calls made, in order *)
Definition handle (tok : tokfn) (rr : rreq) (path : bytes) : (rresp * option terr) * list tcall :=
  let pin := match q_keyid rr with Some id => id | None => [] end in
  match dispatch_ops path handler_dispatch_cases with
  | None => ((resp0, Some (invalid_method path)), default_calls)
  | Some ops =>
      if ops_eqb ops [1] then ((resp0, tk_ping tok), [TPing])
      else if ops_eqb ops [2] then
        match tk_getkey tok (q_keyname rr) pin with
        | inl e => ((resp0, Some e), [TGetKey (q_keyname rr) pin])
        | inr k => ((mkResp (k_pub k) (k_id k) (k_cert k) [] [] false false, None), [TGetKey (q_keyname rr) pin])
        end
      else if ops_eqb ops [2; 3] then
        match tk_getkey tok (q_keyname rr) pin with
        | inl e => ((resp0, Some e), [TGetKey (q_keyname rr) pin])
        | inr k =>
            match tk_sign tok k (q_digest rr) (q_hash rr) (q_salt rr) with
            | inl e => ((resp0, Some e), [TGetKey (q_keyname rr) pin; TSign (q_keyname rr) pin (q_digest rr) (q_hash rr) (q_salt rr)])
            | inr s => ((mkResp s [] [] [] [] false false, None),
                        [TGetKey (q_keyname rr) pin; TSign (q_keyname rr) pin (q_digest rr) (q_hash rr) (q_salt rr)])
            end
        end
      else ((resp0, Some (EOther ([109; 111; 100; 101; 108; 58; 32; 117; 110; 107; 110; 111; 119; 110; 32; 111; 112; 101; 114; 97; 116; 105; 111; 110; 32; 108; 105; 115; 116] (* "model: unknown operation list" *)))), [TPing; TPing; TPing])
  end.

(* ServeHTTP: status, body (None: no body written), token calls *)
Definition serve (tok : tokfn) (rq : sreq) : Z * option rresp * list tcall :=
  if negb rpc_shape_ok then (500, None, [TPing; TPing; TPing])
  else if handler_cookie_bad (s_cookie_ok rq) then (403, None, [])
  else
    match s_body rq with
    | None => (200, Some (serve_error parse_error), map (fun _ => TPing) handler_dispatch_common_token_ops)
    | Some rr =>
        let '((resp, err), calls) := handle tok rr (s_path rq) in
        match err with
        | Some e => if serve_has_error 1 then (200, Some (serve_error e), calls) else (200, Some resp, calls)
        | None => if serve_has_error 0 then (200, Some (serve_error (EOther [])), calls) else (200, Some resp, calls)
        end
    end.

(* ------------------------------------------------------------------ the client *)
Inductive cres :=
| CSuccess (r : rresp)
| CUsage (key msg : bytes)
| CTokErr (msg : bytes) (retryable : bool)
| CHttpErr (code : Z)
| CMalformed.
(* doOnce on a reply that arrived: status and body (None: not JSON) *)
Definition client_once (status : Z) (body : option wire) : cres :=
  if once_status_bad status then CHttpErr status
  else match body with
       | None => CMalformed
       | Some w =>
           let r := decode_resp w in
           if once_reply_is_success (p_err r) then CSuccess r
           else if once_reply_is_usage (p_usage r) then CUsage (p_key r) (p_err r)
           else CTokErr (p_err r) (p_retryable r)
       end.
Definition to_outcome (c : cres) : outcome :=
  match c with
  | CSuccess _ => OSuccess
  | CUsage _ _ => OUsage
  | CTokErr _ r => OTokErr (token_error_temporary r)
  | CHttpErr code => OHttp code
  | CMalformed => OErrClass 0
  end.

(* one whole exchange: the client's request (cookie it holds, method, arguments) against a worker *)
Definition exchange (tok : tokfn) (cookie_ok : bool) (path : bytes) (rr : rreq) : cres * list tcall :=
  let '(status, body, calls) := serve tok (mkSReq cookie_ok (Some (decode_req (encode_req rr))) path) in
  (client_once status (option_map encode_resp body), calls).

(* ====================================================================================================================
   SPECIFICATION (from the property text). What the caller of the worker token must see for what the token did:
   success values exactly; a key-usage error as a key-usage error with its key and message; every other error as an error
   with its text and the retry verdict of the worker; nothing at all happens on the token without the secret. *)
Inductive cls := KUsage (key msg : bytes) | KTransient (msg : bytes) | KPermanent (msg : bytes).
(* errors.As looks through wrappers: the typed error at the end of the chain decides *)
Fixpoint leaf (e : terr) : terr := match e with EWrapped _ i => leaf i | _ => e end.
(* an error without a text is shown with a placeholder (it must still be an error) *)
Definition shown (m : bytes) : bytes := match m with [] => [117; 110; 107; 110; 111; 119; 110; 32; 101; 114; 114; 111; 114] (* "unknown error" *) | _ => m end.
Definition spec_class (e : terr) : cls :=
  match leaf e with
  | EUsage k m => KUsage k (shown m)
  | EPkcs11 true _ => KTransient (shown (err_text e))    (* the session is gone; the worker restarts: worth another attempt *)
  | EPkcs11 false _ => KPermanent (shown (err_text e))
  | ENotImpl _ => KPermanent (shown (err_text e))
  | _ => KTransient (shown (err_text e))                  (* unknown failures of the backend are the worker's call: transient *)
  end.
Definition cres_class (c : cres) : option cls :=
  match c with
  | CSuccess _ => None
  | CUsage k m => Some (KUsage k m)
  | CTokErr m r => Some (if token_error_temporary r then KTransient m else KPermanent m)
  | CHttpErr code => Some (if response_error_temporary code then KTransient [] else KPermanent [])
  | CMalformed => Some (KPermanent [])
  end.
Definition plain (e : terr) : bool := match e with EWrapped _ _ => false | _ => true end.

(* net/textproto canonical MIME header key: first letter and letters after '-' upper case, the rest lower case *)
Definition upper (c : Z) : Z := if (97 <=? c) && (c <=? 122) then c - 32 else c.
Definition lower (c : Z) : Z := if (65 <=? c) && (c <=? 90) then c + 32 else c.
Fixpoint canon (up : bool) (s : bytes) : bytes :=
  match s with [] => [] | c :: r => (if up then upper c else lower c) :: canon (c =? 45) r end.
Definition canonical_header (s : bytes) : bytes := canon true s.
(* req.Header.Get(k) on a header map written as a literal http.Header{k0: v} (no canonicalisation of k0) *)
Definition header_get (k k0 : bytes) (v : bytes) : bytes := if bytes_eqb (canonical_header k) k0 then v else [].

(* ------------------------------------------------------------------ executable table checks *)
Definition mem (x : bytes) (l : list bytes) : bool := existsb (bytes_eqb x) l.
Definition subset (a b : list bytes) : bool := forallb (fun x => mem x b) a.
Definition client_fields (p : bytes) : list bytes :=
  match find (fun c => bytes_eqb (fst c) p) client_calls with Some c => snd c | None => [] end.
(* every method constant is called by the client and dispatched by the handler, and nothing else is *)
Definition dispatch_complete : bool :=
  list_eqb bytes_eqb (map fst client_calls) rpc_paths &&
  list_eqb bytes_eqb (map (fun c => fst (fst (fst c))) handler_dispatch_cases) rpc_paths && handler_dispatch_has_default.
(* whatever the handler reads for a method, the client filled in; whatever the client reads, the handler set *)
Definition fields_sufficient : bool :=
  forallb (fun c => let '(p, reads, _, _) := c in subset (reads ++ handler_dispatch_common_reads) (client_fields p ++ [fKeyID]))
          handler_dispatch_cases &&
  forallb (fun c => let '(p, _, sets, _) := c in
                    if bytes_eqb p rpc_path_GetKey then subset client_getkey_reads sets
                    else if bytes_eqb p rpc_path_Sign then subset client_sign_reads sets else true) handler_dispatch_cases.
(* the operations a duplicated request can repeat: 1 Ping, 2 GetKey, 3 Sign — none changes the state of the token *)
Definition stateless_op (op : Z) : bool := (op =? 1) || (op =? 2) || (op =? 3).
Definition all_ops_stateless : bool :=
  forallb (fun c => forallb stateless_op (snd c)) handler_dispatch_cases &&
  forallb stateless_op handler_dispatch_common_token_ops && forallb stateless_op handler_dispatch_default_token_ops.

(* ------------------------------------------------------------------ SPEC: what the token did for a request (protocol description) *)
Definition pPing : bytes := [47; 112; 105; 110; 103].            (* "/ping" *)
Definition pGetKey : bytes := [47; 103; 101; 116; 75; 101; 121].  (* "/getKey" *)
Definition pSign : bytes := [47; 115; 105; 103; 110].             (* "/sign" *)
Definition wire_text (e : terr) : bytes := match e with EUsage _ m => m | _ => err_text e end.
Definition pin_of (rr : rreq) : bytes := match q_keyid rr with Some id => id | None => [] end.
(* the failure the token reports for this request, if any *)
Definition tok_answer (tok : tokfn) (path : bytes) (rr : rreq) : option terr :=
  if bytes_eqb path pPing then tk_ping tok
  else if bytes_eqb path pGetKey then match tk_getkey tok (q_keyname rr) (pin_of rr) with inl e => Some e | inr _ => None end
  else if bytes_eqb path pSign then
    match tk_getkey tok (q_keyname rr) (pin_of rr) with
    | inl e => Some e
    | inr k => match tk_sign tok k (q_digest rr) (q_hash rr) (q_salt rr) with inl e => Some e | inr _ => None end
    end
  else Some (invalid_method path).
(* the values a successful request yields *)
Definition tok_values (tok : tokfn) (path : bytes) (rr : rreq) : rresp :=
  if bytes_eqb path pGetKey then
    match tk_getkey tok (q_keyname rr) (pin_of rr) with inr k => mkResp (k_pub k) (k_id k) (k_cert k) [] [] false false | inl _ => resp0 end
  else if bytes_eqb path pSign then
    match tk_getkey tok (q_keyname rr) (pin_of rr) with
    | inr k => match tk_sign tok k (q_digest rr) (q_hash rr) (q_salt rr) with inr s => mkResp s [] [] [] [] false false | inl _ => resp0 end
    | inl _ => resp0
    end
  else resp0.
