(* C15/RpcProofs.v — the RPC boundary: round trips, the cookie gate, classification for every method. *)
From Relic Require Import Base.Prelude Generated.C15_gen C15.Model C15.Time C15.Rpc.
Open Scope Z_scope.

Lemma rpc_shape : rpc_shape_ok = true.
Proof. vm_compute. reflexivity. Qed.

(* ------------------------------------------------------------------ messages survive the wire *)
Lemma request_roundtrip : forall r, decode_req (encode_req r) = r.
Proof. intros [kn [kid|] dg h [sl|]]; vm_compute; reflexivity. Qed.
Lemma response_roundtrip : forall r, decode_resp (encode_resp r) = r.
Proof. intros [v i c k e r u]; vm_compute; reflexivity. Qed.

(* ------------------------------------------------------------------ tables *)
Lemma dispatch_complete_ok : dispatch_complete = true.
Proof. vm_compute. reflexivity. Qed.
Lemma fields_sufficient_ok : fields_sufficient = true.
Proof. vm_compute. reflexivity. Qed.
Lemma all_ops_stateless_ok : all_ops_stateless = true.
Proof. vm_compute. reflexivity. Qed.

Lemma bytes_eqb_refl b : bytes_eqb b b = true.
Proof. apply list_eqb_Z_eq. reflexivity. Qed.
Lemma bytes_eqb_neq a b : a <> b -> bytes_eqb a b = false.
Proof. intros H. destruct (bytes_eqb a b) eqn:E; [|reflexivity]. apply list_eqb_Z_eq in E. congruence. Qed.

Lemma paths_are : rpc_paths = [pPing; pGetKey; pSign].
Proof. vm_compute. reflexivity. Qed.

Lemma dispatch_unknown p : ~ In p rpc_paths -> dispatch_ops p handler_dispatch_cases = None.
Proof.
  intros H. rewrite paths_are in H. cbn [In] in H.
  unfold handler_dispatch_cases. cbn [dispatch_ops].
  rewrite !bytes_eqb_neq; [reflexivity|..]; intro E; apply H; rewrite <- E; vm_compute; auto.
Qed.
Lemma dispatch_known p : In p rpc_paths -> dispatch_ops p handler_dispatch_cases <> None.
Proof.
  rewrite paths_are. cbn [In]. intros [<-|[<-|[<-|[]]]]; vm_compute; discriminate.
Qed.
Lemma dispatch_iff p : In p rpc_paths <-> dispatch_ops p handler_dispatch_cases <> None.
Proof.
  split; [apply dispatch_known|]. intros H.
  destruct (in_dec (list_eq_dec Z.eq_dec) p rpc_paths) as [Hin|Hn]; [exact Hin|].
  exfalso. apply H. apply dispatch_unknown. exact Hn.
Qed.

(* ------------------------------------------------------------------ the gate *)
Lemma serve_unauth : forall tok body path, serve tok (mkSReq false body path) = (403, None, []).
Proof. intros. unfold serve. rewrite rpc_shape. reflexivity. Qed.
Lemma serve_malformed : forall tok ok path, snd (serve tok (mkSReq ok None path)) = [].
Proof. intros tok [|] path; unfold serve; rewrite rpc_shape; reflexivity. Qed.
Lemma serve_unknown_method : forall tok ok body path, ~ In path rpc_paths -> snd (serve tok (mkSReq ok body path)) = [].
Proof.
  intros tok [|] [rr|] path H; unfold serve; rewrite rpc_shape; cbn [negb handler_cookie_bad s_cookie_ok s_body s_path snd]; try reflexivity.
  unfold handle. rewrite (dispatch_unknown path H). reflexivity.
Qed.
Lemma token_reached_only_if : forall tok rq,
  snd (serve tok rq) <> [] -> s_cookie_ok rq = true /\ s_body rq <> None /\ In (s_path rq) rpc_paths.
Proof.
  intros tok [ok body path] H. cbn [s_cookie_ok s_body s_path]. repeat split.
  - destruct ok; [reflexivity|]. rewrite serve_unauth in H. cbn in H. congruence.
  - destruct body; [discriminate|]. rewrite serve_malformed in H. congruence.
  - destruct (in_dec (list_eq_dec Z.eq_dec) path rpc_paths) as [Hin|Hn]; [exact Hin|].
    rewrite serve_unknown_method in H by exact Hn. congruence.
Qed.

(* the header the client sends is the header the handler reads *)
Lemma cookie_header_agrees : forall v, header_get handler_cookie_header client_cookie_header v = v.
Proof. intros v. vm_compute. reflexivity. Qed.

(* a request without the secret is answered 403, which the client does not retry *)
Lemma unauth_exchange : forall tok path rr, exchange tok false path rr = (CHttpErr 403, []).
Proof. intros. unfold exchange. rewrite serve_unauth. reflexivity. Qed.
Lemma unauth_not_retried : temporary (to_outcome (CHttpErr 403)) = false.
Proof. reflexivity. Qed.

(* ------------------------------------------------------------------ one exchange, method by method *)
Lemma exchange_unfold tok path rr :
  exchange tok true path rr =
  let '(status, body, calls) := serve tok (mkSReq true (Some rr) path) in (client_once status (option_map encode_resp body), calls).
Proof. unfold exchange. rewrite request_roundtrip. reflexivity. Qed.

Lemma as_find_leaf c e : c <> 98 -> as_find c e = as_find c (leaf e).
Proof.
  intros Hc. induction e as [f m|m|k m|pre i IH|m]; try reflexivity.
  cbn [as_find concrete_code leaf]. replace (98 =? c) with false by (symmetry; apply Z.eqb_neq; lia). exact IH.
Qed.
Lemma leaf_plain e : plain (leaf e) = true.
Proof. induction e; cbn [leaf plain]; auto. Qed.
Lemma class_row_leaf e : class_row e handler_class_table = class_row (leaf e) handler_class_table.
Proof.
  unfold handler_class_table. cbn [class_row].
  rewrite (as_find_leaf 1 e), (as_find_leaf 2 e), (as_find_leaf 3 e) by lia.
  rewrite (as_find_leaf 1 (leaf e)), (as_find_leaf 2 (leaf e)), (as_find_leaf 3 (leaf e)) by lia.
  assert (Hl : leaf (leaf e) = leaf e) by (induction e; cbn [leaf]; auto). rewrite Hl. reflexivity.
Qed.

(* what the client makes of the handler's answer to ANY token error: its class under errors.As semantics, never success *)
Lemma client_of_error e :
  cres_class (client_once 200 (Some (encode_resp (serve_error e)))) = Some (spec_class e).
Proof.
  unfold client_once. rewrite response_roundtrip. unfold serve_error, spec_class. rewrite class_row_leaf.
  pose proof (leaf_plain e) as Hp. generalize dependent (err_text e). intros t.
  destruct (leaf e) as [f m|m|k m|pre i|m]; try discriminate.
  - destruct f; destruct t; vm_compute; reflexivity.
  - destruct t; vm_compute; reflexivity.
  - destruct m; vm_compute; reflexivity.
  - destruct t; vm_compute; reflexivity.
Qed.

Lemma client_of_success r : p_err r = [] -> client_once 200 (Some (encode_resp r)) = CSuccess r.
Proof. intros H. unfold client_once. rewrite response_roundtrip. cbn. unfold once_reply_is_success. rewrite H. reflexivity. Qed.

Lemma serve_authed tok rr path :
  serve tok (mkSReq true (Some rr) path) =
  let '((resp, err), calls) := handle tok rr path in
  match err with Some e => (200, Some (serve_error e), calls) | None => (200, Some resp, calls) end.
Proof. unfold serve. rewrite rpc_shape. cbn [negb handler_cookie_bad s_cookie_ok s_body s_path]. destruct (handle tok rr path) as [[resp [e|]] calls]; reflexivity. Qed.

(* handle against the protocol description, for each method *)
Lemma handle_spec tok rr path : In path rpc_paths ->
  fst (handle tok rr path) = (match tok_answer tok path rr with Some _ => resp0 | None => tok_values tok path rr end, tok_answer tok path rr).
Proof.
  rewrite paths_are. cbn [In]. intros [<-|[<-|[<-|[]]]].
  - destruct tok as [[e|] g s]; vm_compute; reflexivity.
  - unfold handle, tok_answer, tok_values, pin_of.
    replace (dispatch_ops (pGetKey) handler_dispatch_cases) with (Some [2]) by (vm_compute; reflexivity).
    replace (bytes_eqb (pGetKey) (pPing)) with false by (vm_compute; reflexivity).
    replace (bytes_eqb (pGetKey) (pGetKey)) with true by (vm_compute; reflexivity).
    cbn [ops_eqb list_eqb Z.eqb Pos.eqb andb].
    destruct (tk_getkey tok (q_keyname rr) match q_keyid rr with Some id => id | None => [] end); reflexivity.
  - unfold handle, tok_answer, tok_values, pin_of.
    replace (dispatch_ops (pSign) handler_dispatch_cases) with (Some [2; 3]) by (vm_compute; reflexivity).
    replace (bytes_eqb (pSign) (pPing)) with false by (vm_compute; reflexivity).
    replace (bytes_eqb (pSign) (pGetKey)) with false by (vm_compute; reflexivity).
    replace (bytes_eqb (pSign) (pSign)) with true by (vm_compute; reflexivity).
    cbn [ops_eqb list_eqb Z.eqb Pos.eqb andb].
    destruct (tk_getkey tok (q_keyname rr) match q_keyid rr with Some id => id | None => [] end) as [e|k]; [reflexivity|].
    destruct (tk_sign tok k (q_digest rr) (q_hash rr) (q_salt rr)); reflexivity.
Qed.

Lemma tok_values_no_err tok path rr : p_err (tok_values tok path rr) = [].
Proof.
  unfold tok_values. destruct (bytes_eqb path (pGetKey)).
  - destruct (tk_getkey tok (q_keyname rr) (pin_of rr)); reflexivity.
  - destruct (bytes_eqb path (pSign)); [|reflexivity].
    destruct (tk_getkey tok (q_keyname rr) (pin_of rr)) as [e|k]; [reflexivity|].
    destruct (tk_sign tok k (q_digest rr) (q_hash rr) (q_salt rr)); reflexivity.
Qed.

(* for EVERY method: what the token answered is what the caller sees — values exactly, and for every error (wrapped or not,
   with or without a text) its class under errors.As semantics *)
Lemma exchange_spec : forall tok path rr, In path rpc_paths ->
  match tok_answer tok path rr with
  | None => fst (exchange tok true path rr) = CSuccess (tok_values tok path rr)
  | Some e => cres_class (fst (exchange tok true path rr)) = Some (spec_class e)
  end.
Proof.
  intros tok path rr Hin. rewrite exchange_unfold, serve_authed.
  pose proof (handle_spec tok rr path Hin) as H.
  destruct (handle tok rr path) as [[resp err] calls]. cbn [fst] in H. injection H as -> ->.
  destruct (tok_answer tok path rr) as [e|].
  - cbn [fst option_map]. apply client_of_error.
  - cbn [fst option_map]. apply client_of_success. apply tok_values_no_err.
Qed.

(* a failed operation is never reported as success *)
Lemma failure_never_success : forall tok path rr e r, In path rpc_paths ->
  tok_answer tok path rr = Some e -> fst (exchange tok true path rr) <> CSuccess r.
Proof.
  intros tok path rr e r Hin Ha Hs. pose proof (exchange_spec tok path rr Hin) as H. rewrite Ha, Hs in H. discriminate.
Qed.

(* the retry decision of the client is the verdict of the classification *)
Lemma retry_follows_class : forall c k, cres_class c = Some k ->
  temporary (to_outcome c) = match k with KTransient _ => true | _ => false end.
Proof.
  intros c k H. destruct c as [r|key msg|msg r|code|]; cbn [cres_class] in H; try discriminate; injection H as <-;
    cbn [to_outcome temporary]; try reflexivity.
  - destruct (token_error_temporary r); reflexivity.
  - unfold response_error_temporary. destruct (status_is_temporary code); reflexivity.
Qed.

(* a key-usage error — returned as such or wrapped by the backend, with or without a message — comes back as a key-usage error
   with its key, and is not retried *)
Lemma usage_through_wrappers : forall tok path rr e k m, In path rpc_paths ->
  tok_answer tok path rr = Some e -> leaf e = EUsage k m ->
  fst (exchange tok true path rr) = CUsage k (shown m) /\ temporary (to_outcome (fst (exchange tok true path rr))) = false.
Proof.
  intros tok path rr e k m Hin Ha Hl. pose proof (exchange_spec tok path rr Hin) as H. rewrite Ha in H.
  unfold spec_class in H. rewrite Hl in H.
  destruct (fst (exchange tok true path rr)) as [r|k' m'|m' r'|code|]; cbn [cres_class] in H; try discriminate.
  - injection H as -> ->. split; reflexivity.
  - destruct (token_error_temporary r'); discriminate.
  - destruct (response_error_temporary code); discriminate.
Qed.
Lemma usage_never_retried : forall tok path rr k m, In path rpc_paths ->
  tok_answer tok path rr = Some (EUsage k m) -> m <> [] ->
  fst (exchange tok true path rr) = CUsage k m /\ temporary (to_outcome (fst (exchange tok true path rr))) = false.
Proof.
  intros tok path rr k m Hin Ha Hm.
  destruct (usage_through_wrappers tok path rr (EUsage k m) k m Hin Ha eq_refl) as [H1 H2].
  destruct m; [congruence|]. split; assumption.
Qed.

(* ------------------------------------------------------------------ the two former witnesses, now regression facts *)
(* a key-usage error wrapped by the backend (fmt.Errorf("...%w", err)) keeps its class, key and message *)
Lemma wrapped_usage_classified :
  let e := EWrapped [98; 97; 99; 107; 101; 110; 100; 58; 32] (EUsage [107; 49] [110; 111; 116; 32; 97; 108; 108; 111; 119; 101; 100]) in
  let tok := mkTok (Some e) (fun _ _ => inl (EOther [])) (fun _ _ _ _ => inl (EOther [])) in
  fst (exchange tok true pPing req0) = CUsage [107; 49] [110; 111; 116; 32; 97; 108; 108; 111; 119; 101; 100].
Proof. vm_compute. reflexivity. Qed.
(* an error whose text is empty is reported as an error *)
Lemma empty_error_text_is_error :
  let tok := mkTok None (fun _ _ => inr (mkKI [1] [] [2])) (fun _ _ _ _ => inl (EOther [])) in
  fst (exchange tok true pSign req0) = CTokErr serve_err_text_default true.
Proof. vm_compute. reflexivity. Qed.
