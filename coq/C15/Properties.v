(* C15/Properties.v — property theorems only; each closed by a lemma of C15/Proofs.v. *)
From Relic Require Import Base.Prelude Generated.C15_gen C15.Model C15.Proofs.

(* i-th inter-attempt delay (ms): capped exponential *)
Fixpoint delay_at (i : nat) : Z := match i with O => initial_delay_ms | S k => next_delay (delay_at k) end.
Definition delays_upto (n : nat) : list Z := map delay_at (seq 0 n).
Definition temp_prefix (script : list outcome) (j : nat) : Prop :=
  forall i, (i < j)%nat -> temporary (nth i script OSuccess) = true.

(* at most the configured number of attempts, and at least one *)
Theorem attempts_bounded : forall r script cw,
  let '(_, n, _) := do_retry r script cw in 0 <= n <= eff_retries r.
Proof. exact C15.Proofs.attempts_bounded. Qed.
Theorem attempts_at_least_one : forall r script cw, 1 <= snd (fst (do_retry r script cw)).
Proof. exact C15.Proofs.attempts_at_least_one. Qed.
Theorem retries_positive : forall r, 1 <= eff_retries r.
Proof. exact C15.Proofs.retries_positive. Qed.

(* success is reported iff some attempt succeeded and everything before it was transient *)
Theorem success_iff : forall r script,
  fst (fst (do_retry r script (-1))) = RSuccess <->
  exists j, Z.of_nat j < eff_retries r /\ nth j script OSuccess = OSuccess /\ temp_prefix script j.
Proof. exact C15.Proofs.success_iff. Qed.

(* a permanent error is returned at once, unchanged, after exactly j+1 attempts with the specified delays *)
Theorem permanent_immediate : forall r script cw j o,
  Z.of_nat j < eff_retries r -> temp_prefix script j ->
  nth j script OSuccess = o -> o <> OSuccess -> temporary o = false ->
  (cw < 1 \/ Z.of_nat j < cw) ->
  do_retry r script cw = (RFail o, Z.of_nat j + 1, delays_upto j).
Proof. exact C15.Proofs.permanent_immediate. Qed.

(* only transient failures: the last error is returned after exactly the configured number of attempts *)
Theorem exhausted : forall r script cw,
  temp_prefix script (Z.to_nat (eff_retries r)) -> (cw < 1 \/ eff_retries r <= cw) ->
  do_retry r script cw =
  (RFail (nth (Z.to_nat (eff_retries r) - 1) script OSuccess), eff_retries r, delays_upto (Z.to_nat (eff_retries r) - 1)).
Proof. exact C15.Proofs.exhausted. Qed.

(* cancellation during the wait before attempt k: no further attempt is made *)
Theorem cancel_prompt : forall r script k,
  (1 <= k)%nat -> Z.of_nat k < eff_retries r -> temp_prefix script k ->
  do_retry r script (Z.of_nat k) = (RCancelled, Z.of_nat k, delays_upto (k - 1)).
Proof. exact C15.Proofs.cancel_prompt. Qed.

(* which failures count as transient *)
Theorem transient_status_spec : forall c, status_is_temporary c = true <-> In c [500; 502; 503; 504; 507].
Proof. exact C15.Proofs.transient_status_spec. Qed.
Theorem transient_classes_spec : temporary_classes = [1; 2; 3; 4].
Proof. exact C15.Proofs.transient_classes_spec. Qed.

(* backoff is capped *)
Theorem delay_capped : forall i, delay_at i <= Z.max initial_delay_ms max_delay_ms.
Proof. exact C15.Proofs.delay_capped. Qed.

(* worker requests lacking the secret are refused before dispatch *)
Theorem cookie_gate : forall e, handler false e = (403, false, (false, false)).
Proof. exact C15.Proofs.cookie_gate. Qed.

(* classification survives the RPC boundary *)
Theorem classification_preserved : forall e,
  e <> HNone ->
  temporary (client_view e) = fst (handler_flags e) /\ (client_view e = OUsage <-> e = HUsage).
Proof. exact C15.Proofs.classification_preserved. Qed.

(* a pinned key id is never served from a cached key with a different id, and pinned lookups are never cached *)
Theorem pinned_id : forall expiry st want now tok k called st',
  want <> [] -> cache_get expiry st want now tok = (Some k, called, st') ->
  st' = st /\ ((called = false /\ k = want) \/ (called = true /\ tok = Some k)).
Proof. exact C15.Proofs.pinned_id. Qed.

(* with a token that always answers k, every lookup answers k whatever the cache state history *)
Fixpoint cache_seq (expiry : Z) (st : cstate) (k : bytes) (ops : list (bytes * Z)) : list (option bytes) :=
  match ops with
  | [] => []
  | (want, now) :: r => let '(res, _, st') := cache_get expiry st want now (Some k) in res :: cache_seq expiry st' k r
  end.
Theorem cache_transparent : forall expiry k ops,
  Forall (fun res => res = Some k) (cache_seq expiry c_empty k ops).
Proof. exact C15.Proofs.cache_transparent. Qed.

Example backoff_values : delays_upto 5 = [1000; 2718; 7387; 20077; 30000].
Proof. reflexivity. Qed.
Example retry_then_success :
  do_retry 0 [OHttp 503; OErrClass 1; OSuccess] (-1) = (RSuccess, 3, [1000; 2718]) /\
  do_retry 3 [OHttp 503; OUsage; OSuccess] (-1) = (RFail OUsage, 2, [1000]) /\
  do_retry 2 [OTokErr true; OTokErr true; OSuccess] (-1) = (RFail (OTokErr true), 2, [1000]).
Proof. vm_compute. repeat split. Qed.
