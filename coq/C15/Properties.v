(* C15/Properties.v — property theorems only; each closed by a lemma of C15/Proofs.v. *)
From Coq Require Import Permutation.
From Relic Require Import Base.Prelude Generated.C15_gen C15.Model C15.Proofs.
From Relic Require Import C15.Time C15.TimeProofs C15.Rpc C15.RpcProofs C15.CacheRetry C15.CacheRetryProofs C15.Life C15.LifeProofs.
From Relic Require C14.ModelCache C14.ProofsCache C15.CacheSchedProofs.

(* i-th inter-attempt delay (ms): capped exponential *)
Fixpoint delay_at (i : nat) : Z := match i with O => initial_delay_ms | S k => next_delay (delay_at k) end.
Definition delays_upto (n : nat) : list Z := map delay_at (seq 0 n).
Definition temp_prefix (script : list outcome) (j : nat) : Prop :=
  forall i, (i < j)%nat -> temporary (nth i script OSuccess) = true.

(* at most the configured number of attempts, and at least one *)
Theorem attempts_bounded : forall r script cw,
  let '(_, n, _) := do_retry r script cw in 0 <= n <= eff_retries r.
Proof. exact C15.Proofs.attempts_bounded. Qed.
Theorem attempts_at_least_one : forall r script cw, 1 <= snd (fst (do_retry r script cw)).
Proof. exact C15.Proofs.attempts_at_least_one. Qed.
Theorem retries_positive : forall r, 1 <= eff_retries r.
Proof. exact C15.Proofs.retries_positive. Qed.

(* success is reported iff some attempt succeeded and everything before it was transient *)
Theorem success_iff : forall r script,
  fst (fst (do_retry r script (-1))) = RSuccess <->
  exists j, Z.of_nat j < eff_retries r /\ nth j script OSuccess = OSuccess /\ temp_prefix script j.
Proof. exact C15.Proofs.success_iff. Qed.

(* a permanent error is returned at once, unchanged, after exactly j+1 attempts with the specified delays *)
Theorem permanent_immediate : forall r script cw j o,
  Z.of_nat j < eff_retries r -> temp_prefix script j ->
  nth j script OSuccess = o -> o <> OSuccess -> temporary o = false ->
  (cw < 1 \/ Z.of_nat j < cw) ->
  do_retry r script cw = (RFail o, Z.of_nat j + 1, delays_upto j).
Proof. exact C15.Proofs.permanent_immediate. Qed.

(* only transient failures: the last error is returned after exactly the configured number of attempts *)
Theorem exhausted : forall r script cw,
  temp_prefix script (Z.to_nat (eff_retries r)) -> (cw < 1 \/ eff_retries r <= cw) ->
  do_retry r script cw =
  (RFail (nth (Z.to_nat (eff_retries r) - 1) script OSuccess), eff_retries r, delays_upto (Z.to_nat (eff_retries r) - 1)).
Proof. exact C15.Proofs.exhausted. Qed.

(* cancellation during the wait before attempt k: no further attempt is made *)
Theorem cancel_prompt : forall r script k,
  (1 <= k)%nat -> Z.of_nat k < eff_retries r -> temp_prefix script k ->
  do_retry r script (Z.of_nat k) = (RCancelled, Z.of_nat k, delays_upto (k - 1)).
Proof. exact C15.Proofs.cancel_prompt. Qed.

(* which failures count as transient *)
Theorem transient_status_spec : forall c, status_is_temporary c = true <-> In c [500; 502; 503; 504; 507].
Proof. exact C15.Proofs.transient_status_spec. Qed.
Theorem transient_classes_spec : temporary_classes = [1; 2; 3; 4].
Proof. exact C15.Proofs.transient_classes_spec. Qed.

(* backoff is capped *)
Theorem delay_capped : forall i, delay_at i <= Z.max initial_delay_ms max_delay_ms.
Proof. exact C15.Proofs.delay_capped. Qed.

(* worker requests lacking the secret are refused before dispatch *)
Theorem cookie_gate : forall e, handler false e = (403, false, (false, false)).
Proof. exact C15.Proofs.cookie_gate. Qed.

(* classification survives the RPC boundary *)
Theorem classification_preserved : forall e,
  e <> HNone ->
  temporary (client_view e) = fst (handler_flags e) /\ (client_view e = OUsage <-> e = HUsage).
Proof. exact C15.Proofs.classification_preserved. Qed.

(* a pinned key id is never served from a cached key with a different id, and pinned lookups are never cached *)
Theorem pinned_id : forall expiry st want now tok k called st',
  want <> [] -> cache_get expiry st want now tok = (Some k, called, st') ->
  st' = st /\ ((called = false /\ k = want) \/ (called = true /\ tok = Some k)).
Proof. exact C15.Proofs.pinned_id. Qed.

(* with a token that always answers k, every lookup answers k whatever the cache state history *)
Fixpoint cache_seq (expiry : Z) (st : cstate) (k : bytes) (ops : list (bytes * Z)) : list (option bytes) :=
  match ops with
  | [] => []
  | (want, now) :: r => let '(res, _, st') := cache_get expiry st want now (Some k) in res :: cache_seq expiry st' k r
  end.
Theorem cache_transparent : forall expiry k ops,
  Forall (fun res => res = Some k) (cache_seq expiry c_empty k ops).
Proof. exact C15.Proofs.cache_transparent. Qed.

Example backoff_values : delays_upto 5 = [1000; 2718; 7387; 20077; 30000].
Proof. reflexivity. Qed.
Example retry_then_success :
  do_retry 0 [OHttp 503; OErrClass 1; OSuccess] (-1) = (RSuccess, 3, [1000; 2718]) /\
  do_retry 3 [OHttp 503; OUsage; OSuccess] (-1) = (RFail OUsage, 2, [1000]) /\
  do_retry 2 [OTokErr true; OTokErr true; OSuccess] (-1) = (RFail (OTokErr true), 2, [1000]).
Proof. vm_compute. repeat split. Qed.

(* =====================================================================================================================
   (a) doRetry WITH TIME — every fault sequence, every attempt duration, every instant at which the caller's context ends
   ===================================================================================================================== *)

(* the loop of retry.go is the chain specification: attempts separated by the backoff schedule, made only while attempts
   remain and the caller's context is alive, answered by the last attempt or by the context *)
Theorem timed_is_spec : forall r ts b script,
  do_retry_timed r ts b script = spec_retry delay_ns_at (eff_retries_t r) (eff_timeout ts) b script.
Proof. exact C15.TimeProofs.timed_is_spec. Qed.
(* total attempts: at least one, at most the configured number *)
Theorem timed_attempts_bounded : forall r ts b script,
  1 <= zlen (tr_atts (do_retry_timed r ts b script)) <= eff_retries_t r.
Proof. exact C15.TimeProofs.timed_attempts_bounded. Qed.
(* the first attempt starts at once; consecutive attempts are separated by exactly the scheduled delays *)
Theorem timed_first_attempt : forall r ts b script,
  exists e o rest, tr_atts (do_retry_timed r ts b script) = mkA 0 e o :: rest.
Proof. exact C15.TimeProofs.timed_first_attempt. Qed.
Theorem timed_delays_exact : forall r ts b script, chain_ok delay_ns_at 0 (tr_atts (do_retry_timed r ts b script)).
Proof. exact C15.TimeProofs.timed_delays_exact. Qed.
(* no retry starts once the caller's context has ended; with a context that is alive at the call, no attempt at all *)
Theorem timed_no_retry_after_cancel : forall r ts b script c, bc_at b = Some c ->
  Forall (fun a => ar_start a < c) (tl (tr_atts (do_retry_timed r ts b script))).
Proof. exact C15.TimeProofs.timed_no_retry_after_cancel. Qed.
Theorem timed_no_attempt_after_cancel : forall r ts b script c, bc_at b = Some c -> 0 < c ->
  Forall (fun a => ar_start a < c) (tr_atts (do_retry_timed r ts b script)).
Proof. exact C15.TimeProofs.timed_no_attempt_after_cancel. Qed.
(* ... but the first attempt is unconditional: called with a context that has already ended, doRetry still calls doOnce *)
Theorem timed_no_attempt_after_cancel_refuted :
  exists r ts b script c a, bc_at b = Some c /\ In a (tr_atts (do_retry_timed r ts b script)) /\ c <= ar_start a.
Proof. exact C15.TimeProofs.timed_no_attempt_after_cancel_refuted. Qed.
(* promptness: the operation never outlives the caller's context *)
Theorem timed_cancel_prompt : forall r ts b script c, bc_at b = Some c ->
  0 <= tr_end (do_retry_timed r ts b script) <= Z.max c 0.
Proof. exact C15.TimeProofs.timed_cancel_prompt. Qed.
(* faithfulness: success iff the last attempt succeeded; an error is the last attempt's, unchanged, returned when that
   attempt ended; a context error only if the context ended, after a transient failure *)
Theorem timed_result_faithful : forall r ts b script, result_ok b (do_retry_timed r ts b script).
Proof. exact C15.TimeProofs.timed_result_faithful. Qed.
Theorem timed_prefix_transient : forall r ts b script,
  Forall (fun a => ar_out a <> OSuccess /\ temporary (ar_out a) = true) (removelast (tr_atts (do_retry_timed r ts b script))).
Proof. exact C15.TimeProofs.timed_prefix_transient. Qed.
(* why it stopped: success, a permanent failure, the attempt limit, or the context ending before the next attempt was due *)
Theorem timed_stop_reason : forall r ts b script a,
  last_rec (tr_atts (do_retry_timed r ts b script)) = Some a ->
  let n := length (tr_atts (do_retry_timed r ts b script)) in
  ar_out a = OSuccess \/ temporary (ar_out a) = false \/ Z.of_nat n = eff_retries_t r \/
  (exists c, bc_at b = Some c /\ c <= ar_end a + Z.max 0 (delay_ns_at (n - 1))).
Proof. exact C15.TimeProofs.timed_stop_reason. Qed.
(* every recorded attempt is the scripted attempt of that index under the per-attempt timeout and the caller's context *)
Theorem timed_attempts_faithful : forall r ts b script j a,
  nth_error (tr_atts (do_retry_timed r ts b script)) j = Some a ->
  (ar_out a, ar_end a) = spec_attempt b (eff_timeout ts) (ar_start a) (nth j script default_att).
Proof. exact C15.TimeProofs.timed_attempts_faithful. Qed.
(* which failures are transient: exactly the specified classes *)
Theorem temporary_is_spec : forall o, temporary o = spec_transient o.
Proof. exact C15.TimeProofs.temporary_is_spec. Qed.
(* configuration *)
Theorem eff_timeout_spec : forall ts, eff_timeout ts = if ts =? 0 then 60000000000 else ts * 1000000000.
Proof. exact C15.TimeProofs.eff_timeout_spec. Qed.
Theorem negative_timeout_never_succeeds : forall r ts b script, ts < 0 ->
  tr_result (do_retry_timed r ts b script) <> TSuccess.
Proof. exact C15.TimeProofs.negative_timeout_never_succeeds. Qed.
(* the backoff schedule (float32 arithmetic of retry.go, exactly): capped exponential, monotone, bounded *)
Theorem backoff_capped_exponential : forall k, Z.abs (delay_ns_at k - spec_delay k) <= 4096.
Proof. exact C15.TimeProofs.backoff_capped_exponential. Qed.
Theorem backoff_monotone : forall k, delay_ns_at k <= delay_ns_at (S k).
Proof. exact C15.TimeProofs.backoff_monotone. Qed.
Theorem backoff_bounded : forall k, initial_delay_f32 <= delay_ns_at k <= 30000001024.
Proof. exact C15.TimeProofs.backoff_bounded. Qed.

Example backoff_ns : map delay_ns_at (seq 0 6) = [1000000000; 2717999872; 7387523584; 20079288320; 30000001024; 30000001024].
Proof. exact C15.TimeProofs.delay_values. Qed.
Example timed_runs :
  (* two transient failures, then success: attempts at 0, 1 s after the first ended, 2.718 s after the second ended *)
  do_retry_timed 3 1 never [mkAtt (OHttp 503) 5; mkAtt (OErrClass 1) 7; mkAtt OSuccess 9] =
    (TSuccess, 3717999893, [mkA 0 5 (OHttp 503); mkA 1000000005 1000000012 (OErrClass 1); mkA 3717999884 3717999893 OSuccess]) /\
  (* the caller cancels 1.5 s in, during the second wait: returned at that instant with the context's error *)
  do_retry_timed 3 1 (mkBase (Some 1500000000) KCanceled) [mkAtt (OHttp 503) 5; mkAtt (OErrClass 1) 7; mkAtt OSuccess 9] =
    (TCtx KCanceled, 1500000000, [mkA 0 5 (OHttp 503); mkA 1000000005 1000000012 (OErrClass 1)]) /\
  (* an attempt that outlasts the 1 s per-attempt timeout counts as a timeout (transient); the last error is returned *)
  do_retry_timed 2 1 never [mkAtt OSuccess 1500000000; mkAtt (OTokErr false) 3] =
    (TFail (OTokErr false), 2000000003, [mkA 0 1000000000 (OErrClass 3); mkA 2000000000 2000000003 (OTokErr false)]).
Proof. vm_compute. repeat split. Qed.

(* =====================================================================================================================
   (b) the worker RPC boundary, for EVERY method of internal/workerrpc
   ===================================================================================================================== *)

(* the method table is closed: every method constant is called by the client and dispatched by the handler, nothing else is;
   what the handler reads for a method the client filled in, what the client reads the handler set *)
Theorem rpc_dispatch_complete : dispatch_complete = true /\ fields_sufficient = true.
Proof. exact (conj C15.RpcProofs.dispatch_complete_ok C15.RpcProofs.fields_sufficient_ok). Qed.
Theorem rpc_dispatch_iff : forall p, In p rpc_paths <-> dispatch_ops p handler_dispatch_cases <> None.
Proof. exact C15.RpcProofs.dispatch_iff. Qed.
(* messages survive the wire (given encoding/json's own round trip on these field types) *)
Theorem rpc_request_roundtrip : forall r, decode_req (encode_req r) = r.
Proof. exact C15.RpcProofs.request_roundtrip. Qed.
Theorem rpc_response_roundtrip : forall r, decode_resp (encode_resp r) = r.
Proof. exact C15.RpcProofs.response_roundtrip. Qed.
(* the gate: without the secret nothing is read, parsed or dispatched; a malformed body or an unknown method never reaches
   the token either *)
Theorem rpc_unauthenticated_refused : forall tok body path, serve tok (mkSReq false body path) = (403, None, []).
Proof. exact C15.RpcProofs.serve_unauth. Qed.
Theorem rpc_token_reached_only_if : forall tok rq,
  snd (serve tok rq) <> [] -> s_cookie_ok rq = true /\ s_body rq <> None /\ In (s_path rq) rpc_paths.
Proof. exact C15.RpcProofs.token_reached_only_if. Qed.
Theorem rpc_cookie_header_agrees : forall v, header_get handler_cookie_header client_cookie_header v = v.
Proof. exact C15.RpcProofs.cookie_header_agrees. Qed.
Theorem rpc_unauthenticated_not_retried : forall tok path rr,
  exchange tok false path rr = (CHttpErr 403, []) /\ temporary (to_outcome (CHttpErr 403)) = false.
Proof. intros. exact (conj (C15.RpcProofs.unauth_exchange tok path rr) C15.RpcProofs.unauth_not_retried). Qed.
(* round trip of values and of classification, for every method: what the token did is what the caller sees — for EVERY
   error value (wrapped by the backend or not, with or without a text) its class under errors.As semantics *)
Theorem rpc_exchange_spec : forall tok path rr, In path rpc_paths ->
  match tok_answer tok path rr with
  | None => fst (exchange tok true path rr) = CSuccess (tok_values tok path rr)
  | Some e => cres_class (fst (exchange tok true path rr)) = Some (spec_class e)
  end.
Proof. exact C15.RpcProofs.exchange_spec. Qed.
(* a failed operation is never reported as success *)
Theorem rpc_failure_never_success : forall tok path rr e r, In path rpc_paths ->
  tok_answer tok path rr = Some e -> fst (exchange tok true path rr) <> CSuccess r.
Proof. exact C15.RpcProofs.failure_never_success. Qed.
Theorem rpc_retry_follows_class : forall c k, cres_class c = Some k ->
  temporary (to_outcome c) = match k with KTransient _ => true | _ => false end.
Proof. exact C15.RpcProofs.retry_follows_class. Qed.
Theorem rpc_usage_never_retried : forall tok path rr k m, In path rpc_paths ->
  tok_answer tok path rr = Some (EUsage k m) -> m <> [] ->
  fst (exchange tok true path rr) = CUsage k m /\ temporary (to_outcome (fst (exchange tok true path rr))) = false.
Proof. exact C15.RpcProofs.usage_never_retried. Qed.
(* ... also when the backend wrapped it, and when it carries no message *)
Theorem rpc_usage_through_wrappers : forall tok path rr e k m, In path rpc_paths ->
  tok_answer tok path rr = Some e -> leaf e = EUsage k m ->
  fst (exchange tok true path rr) = CUsage k (shown m) /\ temporary (to_outcome (fst (exchange tok true path rr))) = false.
Proof. exact C15.RpcProofs.usage_through_wrappers. Qed.
(* the two inputs on which relic used to fail (repaired by add50a2 and bc5e511), kept as facts about the current code *)
Theorem rpc_wrapped_usage_classified :
  let e := EWrapped [98; 97; 99; 107; 101; 110; 100; 58; 32] (EUsage [107; 49] [110; 111; 116; 32; 97; 108; 108; 111; 119; 101; 100]) in
  let tok := mkTok (Some e) (fun _ _ => inl (EOther [])) (fun _ _ _ _ => inl (EOther [])) in
  fst (exchange tok true pPing req0) = CUsage [107; 49] [110; 111; 116; 32; 97; 108; 108; 111; 119; 101; 100].
Proof. exact C15.RpcProofs.wrapped_usage_classified. Qed.
Theorem rpc_empty_error_text_is_error :
  let tok := mkTok None (fun _ _ => inr (mkKI [1] [] [2])) (fun _ _ _ _ => inl (EOther [])) in
  fst (exchange tok true pSign req0) = CTokErr serve_err_text_default true.
Proof. exact C15.RpcProofs.empty_error_text_is_error. Qed.
(* a request repeated by the retry loop after a lost reply repeats only Ping / GetKey / Sign: nothing that changes the token *)
Theorem rpc_repeatable_operations_are_stateless : all_ops_stateless = true.
Proof. exact C15.RpcProofs.all_ops_stateless_ok. Qed.

Example rpc_sign_roundtrip :
  let tok := mkTok None (fun n p => inr (mkKI [9] [8] [7])) (fun k d h s => inr (d ++ [0; 255])) in
  exchange tok true rpc_path_Sign (mkReq [107; 49] (Some [9]) [1; 2; 3] 5 (Some 32)) =
    (CSuccess (mkResp [1; 2; 3; 0; 255] [] [] [] [] false false),
     [TGetKey [107; 49] [9]; TSign [107; 49] [9] [1; 2; 3] 5 (Some 32)]).
Proof. vm_compute. reflexivity. Qed.

(* =====================================================================================================================
   (d) the key cache under retries
   ===================================================================================================================== *)

(* a failed lookup leaves the cache exactly as it was; deleting the failed lookups from a history changes nothing else *)
Theorem cache_failure_changes_nothing : forall expiry st want now tok called st',
  cache_get expiry st want now tok = (None, called, st') -> st' = st /\ called = true /\ tok = None.
Proof. exact C15.CacheRetryProofs.cache_failure_changes_nothing. Qed.
Theorem cache_retry_transparent : forall expiry ops st,
  cache_hist expiry st (drop_failed expiry st ops) =
  (filter (fun r => negb (failed r)) (fst (cache_hist expiry st ops)), snd (cache_hist expiry st ops)).
Proof. exact C15.CacheRetryProofs.cache_retry_transparent. Qed.
(* an answer comes from the live, acceptable entry or from the token asked now *)
Theorem cache_answer_origin : forall expiry st want now tok k called st',
  cache_get expiry st want now tok = (Some k, called, st') ->
  (called = false /\ k = c_id st /\ c_has st = true /\ now < c_expires st /\ (want = [] \/ want = k) /\ st' = st) \/
  (called = true /\ tok = Some k).
Proof. exact C15.CacheRetryProofs.cache_answer_origin. Qed.
(* whatever the cache holds was stored by an un-pinned lookup the token answered — never by a failed or a pinned one *)
Theorem cache_only_holds_answers : forall expiry ops,
  let st' := snd (cache_hist expiry c_empty ops) in
  c_has st' = true -> exists o, In o ops /\ stored_by expiry st' o.
Proof. exact C15.CacheRetryProofs.cache_only_holds_answers_from_empty. Qed.
(* under EVERY interleaving of concurrent lookups (machine and linearizability theorem of C14): a failed fetch writes
   nothing, the cache changes only after a successful fetch, the final cache is the one produced by the answered lookups,
   and a pinned lookup is never answered with another key id *)
Theorem cache_sched_failed_fetch : forall E tok rq i t s,
  C14.ModelCache.t_pc t = C14.ModelCache.CMiss ->
  C14.ModelCache.cs_cache (C14.ModelCache.cthread E tok rq i false t s) = C14.ModelCache.cs_cache s.
Proof. exact C15.CacheSchedProofs.sched_failed_fetch. Qed.
Theorem cache_sched_changes_only_after_fetch : forall E tok rq i fok t s,
  C14.ModelCache.cs_cache (C14.ModelCache.cthread E tok rq i fok t s) <> C14.ModelCache.cs_cache s ->
  exists k, C14.ModelCache.t_pc t = C14.ModelCache.CFetched k.
Proof. exact C15.CacheSchedProofs.sched_cache_changes_only_after_fetch. Qed.
Theorem cache_sched_failed_lookups_leave_no_trace : forall E tok rqs sched,
  C14.ModelCache.cs_cache (C14.ModelCache.crun E tok rqs sched) =
  fst (fold_left (C14.ModelCache.seq_op E tok rqs)
                 (filter C14.ModelCache.l_ok (C14.ModelCache.history (C14.ModelCache.crun E tok rqs sched))) ([], [])).
Proof. exact C15.CacheSchedProofs.sched_failed_lookups_leave_no_trace. Qed.
Theorem cache_sched_pinned_id : forall E tok rqs sched i t rq k,
  C14.ModelCache.tok_pin tok ->
  nth_error (C14.ModelCache.cs_thr (C14.ModelCache.crun E tok rqs sched)) i = Some t -> nth_error rqs i = Some rq ->
  C14.ModelCache.c_pin rq <> 0 ->
  C14.ModelCache.cresult t = Some (Some k) -> C14.ModelCache.k_id k = C14.ModelCache.c_pin rq.
Proof. exact C14.ProofsCache.cache_pinned_id. Qed.

Example cache_retry_history :   (* empty cache; the token fails twice, then answers A; a lookup pinned to B bypasses the entry *)
  cache_hist 100 c_empty [mkOp [] 0 None; mkOp [] 1 None; mkOp [] 2 (Some [65]); mkOp [] 3 None; mkOp [66] 4 (Some [66]); mkOp [] 5 None] =
  ([(None, true); (None, true); (Some [65], true); (Some [65], false); (Some [66], true); (Some [65], false)], mkC true 102 [65]).
Proof. vm_compute. reflexivity. Qed.

(* =====================================================================================================================
   (c) the worker process pool: monitor / spawn / Close and the requests that arrive meanwhile, for every event sequence
   ===================================================================================================================== *)

(* a request is never lost and never in two places: waiting in the accept queue, held by one worker, or finished with
   exactly one fate (answered, dropped by a dying worker, or given up by the client) *)
Theorem life_requests_conserved : forall target evs,
  let q := snd (lrun target evs) in
  NoDup (places q) /\ (forall rid, In rid (l_seen q) <-> In rid (places q)).
Proof. exact C15.LifeProofs.life_requests_conserved. Qed.
Theorem life_one_fate : forall target evs, NoDup (map fst (l_done (snd (lrun target evs)))).
Proof. exact C15.LifeProofs.life_one_fate. Qed.
(* only a live worker (ready or draining) holds or answers requests *)
Theorem life_served_by_live_worker : forall target evs pid rid,
  In (pid, rid) (l_inflight (snd (lrun target evs))) -> serving (status (l_child (fst (lrun target evs))) pid) = true.
Proof. exact C15.LifeProofs.life_served_by_live_worker. Qed.
Theorem life_answer_needs_live_worker : forall target evs pid rid,
  let s := lrun target evs in
  l_done (snd (lstep target s (LReply pid rid))) <> l_done (snd s) -> serving (status (l_child (fst s)) pid) = true.
Proof. exact C15.LifeProofs.life_answer_needs_live_worker. Qed.
(* the monitor's count is sound, it never stalls with no worker, and a spawn after a failed spawn waits restartDelay *)
Theorem life_procs_accounted : forall target evs pid,
  let p := fst (lrun target evs) in
  In pid (l_procs p) -> alive (status (l_child p) pid) = true \/ In pid (l_exitq p).
Proof. exact C15.LifeProofs.life_procs_accounted. Qed.
Theorem life_no_stall : forall target evs b,
  let p := fst (lrun target evs) in
  1 <= target -> l_mon p = MIdle -> l_cancel p = false -> l_exitq p = [] ->
  (forall pid, alive (status (l_child p) pid) = false) ->
  exists pid dl, l_mon (monitor_step target p b) = MSpawning pid dl /\ status (l_child (monitor_step target p b)) pid = CStarting.
Proof. exact C15.LifeProofs.life_no_stall. Qed.
Theorem life_backoff : forall target evs f t pid,
  let p := fst (lrun target evs) in
  In f (l_fails p) -> In (t, pid) (l_spawns p) -> t <= f \/ f + restart_delay_ns <= t.
Proof. exact C15.LifeProofs.life_backoff. Qed.
(* a request that was not answered fails with a retryable error — except when the dying worker's connection is closed
   rather than reset: io.EOF is not in the transient list *)
Theorem life_fate_retryable : forall f, (forall pid, f <> FAnswered pid) -> (forall pid, f <> FDropped pid false) ->
  temporary (fate_outcome f) = true.
Proof. exact C15.LifeProofs.fate_retryable. Qed.
Theorem life_dropped_always_retryable_refuted :
  exists target evs rid pid, In (rid, FDropped pid false) (l_done (snd (lrun target evs))) /\ temporary (fate_outcome (FDropped pid false)) = false.
Proof. exact C15.LifeProofs.life_dropped_always_retryable_refuted. Qed.

Example life_crash_and_respawn :
  (* worker 1 starts, accepts request 7 and dies; the monitor reaps it and starts worker 2, which answers request 8 that
     arrived in between *)
  let s := lrun 1 [LMonitor false; LReady 1; LArrive 7; LAccept 1 7; LExit 1 false; LArrive 8; LMonitor false; LMonitor false;
                   LReady 2; LAccept 2 8; LReply 2 8] in
  l_done (snd s) = [(8, FAnswered 2); (7, FDropped 1 false)] /\ l_procs (fst s) = [2] /\ l_spawns (fst s) = [(0, 2); (0, 1)].
Proof. vm_compute. repeat split. Qed.
