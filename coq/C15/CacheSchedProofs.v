(* C15/CacheSchedProofs.v — failed lookups under EVERY interleaving of concurrent lookups and clock ticks: corollaries on the
   interleaving machine and the linearizability theorem of unit C14 (C14/ModelCache.v, C14/ProofsCache.v), reused here. *)
From Relic Require Import Base.Prelude Generated.C14_gen C14.Model C14.Proofs C14.ModelCache C14.ProofsCache.

(* ------------------------------------------------------------------ every interleaving (machine of C14.ModelCache) *)

(* the step of a lookup at which the token fails writes nothing into the cache and ends the lookup with an error *)
Lemma sched_failed_fetch : forall E tok rq i t s,
  t_pc t = CMiss -> cs_cache (cthread E tok rq i false t s) = cs_cache s.
Proof.
  intros E tok rq i t s Hpc. unfold cthread. rewrite Hpc. rewrite fetch_key_spec. reflexivity.
Qed.
(* the cache only ever changes at the step that follows a successful fetch *)
Lemma sched_cache_changes_only_after_fetch : forall E tok rq i fok t s,
  cs_cache (cthread E tok rq i fok t s) <> cs_cache s -> exists k, t_pc t = CFetched k.
Proof.
  intros E tok rq i fok t s H. unfold cthread in H.
  destruct (t_pc t) eqn:Hpc; try (exfalso; apply H; reflexivity); try (eexists; reflexivity).
  - destruct (try_lock (cs_lock s) i); exfalso; apply H; reflexivity.
  - destruct (check_cache rq (cs_cache s) (cs_now s)); exfalso; apply H; reflexivity.
  - destruct (fetch_key tok rq fok); exfalso; apply H; reflexivity.
Qed.
(* in the sequential specification the failed operations can be deleted: the cache evolves as if they never happened *)
Lemma seq_failed_transparent : forall E tok c t rq, snd (seq_get E tok c t rq false) = c.
Proof.
  intros E tok c t rq. unfold seq_get. destruct (clookup (c_name rq) c) as [e|]; [destruct (live e t && pin_ok rq (e_key e))|]; reflexivity.
Qed.
Lemma seq_cache_only E tok rqs : forall l a1 a2, fst a1 = fst a2 ->
  fst (fold_left (seq_op E tok rqs) l a1) = fst (fold_left (seq_op E tok rqs) l a2).
Proof.
  induction l as [|x l IHl]; intros a1 a2 Ha; [exact Ha|]. cbn [fold_left]. apply IHl.
  unfold seq_op. destruct (nth_error rqs (l_thread x)); [|exact Ha]. rewrite Ha.
  destruct (seq_get E tok (fst a2) (l_time x) c (l_ok x)). reflexivity.
Qed.
Lemma seq_run_failed_transparent : forall E tok rqs ops acc,
  fst (fold_left (seq_op E tok rqs) ops acc) = fst (fold_left (seq_op E tok rqs) (filter l_ok ops) acc).
Proof.
  intros E tok rqs. induction ops as [|o r IH]; intros acc; [reflexivity|]. cbn [fold_left filter].
  destruct (l_ok o) eqn:Hok; cbn [fold_left]; [apply IH|].
  rewrite IH. apply seq_cache_only.
  unfold seq_op. destruct (nth_error rqs (l_thread o)) as [rq|]; [|reflexivity]. rewrite Hok.
  pose proof (seq_failed_transparent E tok (fst acc) (l_time o) rq) as Hs.
  destruct (seq_get E tok (fst acc) (l_time o) rq false) as [res c']. cbn [fst snd] in *. exact Hs.
Qed.
(* ... hence in every concurrent run the final cache is the one obtained from the operations the token answered *)
Lemma sched_failed_lookups_leave_no_trace : forall E tok rqs sched,
  cs_cache (crun E tok rqs sched) = fst (fold_left (seq_op E tok rqs) (filter l_ok (history (crun E tok rqs sched))) ([], [])).
Proof.
  intros E tok rqs sched. destruct (cache_linearizable E tok rqs sched) as (H & _). cbv zeta in H.
  rewrite <- H. unfold seq_run. apply seq_run_failed_transparent.
Qed.
