(* C15/TimeProofs.v — the timed retry loop equals the chain specification; consequences for every fault sequence, every
   attempt duration and every instant at which the caller's context ends. *)
From Relic Require Import Base.Prelude Generated.C15_gen C15.Model C15.Proofs C15.Time.

Lemma shape_ok : retry_shape_ok = true.
Proof. reflexivity. Qed.

(* ------------------------------------------------------------------ transient = the specified classes *)
Lemma status_temp_spec c : status_is_temporary c = existsb (Z.eqb c) [500; 502; 503; 504; 507].
Proof.
  unfold status_is_temporary. cbn [existsb].
  destruct (c =? 504), (c =? 502), (c =? 503), (c =? 507), (c =? 500); reflexivity.
Qed.
Lemma temporary_is_spec o : temporary o = spec_transient o.
Proof. destruct o; cbn [temporary spec_transient]; try reflexivity. apply status_temp_spec. Qed.

(* ------------------------------------------------------------------ one attempt *)
Lemma attempt_eq b T s a : attempt_result b T s a = spec_attempt b T s a.
Proof.
  unfold attempt_result, spec_attempt. cbv zeta.
  destruct (Z.max 0 (at_dur a) <? Z.max 0 T) eqn:E.
  - apply Z.ltb_lt in E. rewrite Z.min_l by lia. cbn [snd]. destruct (bc_at b); reflexivity.
  - apply Z.ltb_ge in E. rewrite Z.min_r by lia. cbn [snd]. destruct (bc_at b); reflexivity.
Qed.

Lemma spec_attempt_end_ge b T s a : s <= snd (spec_attempt b T s a).
Proof.
  unfold spec_attempt. cbv zeta. destruct (bc_at b) as [c|].
  - destruct (c <=? s + Z.min (Z.max 0 (at_dur a)) (Z.max 0 T)); cbn [snd]; lia.
  - cbn [snd]. lia.
Qed.

(* an attempt never outlives the caller's context *)
Lemma spec_attempt_end_le b T s a c : bc_at b = Some c -> snd (spec_attempt b T s a) <= Z.max c s.
Proof.
  intros Hc. unfold spec_attempt. cbv zeta. rewrite Hc.
  destruct (c <=? s + Z.min (Z.max 0 (at_dur a)) (Z.max 0 T)) eqn:E; cbn [snd].
  - lia.
  - apply Z.leb_gt in E. lia.
Qed.

(* ------------------------------------------------------------------ the loop, one iteration at a time *)
Lemma delay_step k : (match k with O => delay_ns_at (Nat.pred k) | S _ => next_delay_ns (delay_ns_at (Nat.pred k)) end) = delay_ns_at k.
Proof. destruct k; reflexivity. Qed.

(* the part of iteration k that follows the wait *)
Definition titer (f : nat) (b : basectx) (R T : Z) (script : list att) (k : nat) (wend : Z) : trun :=
  let '(o, aend) := attempt_result b T wend (nth k script default_att) in
  let rec := mkA wend aend o in
  if retry_attempt_ok (err_code o) then (TSuccess, aend, [rec])
  else if retry_give_up (retry_is_retryable (temporary o)) then (TFail o, aend, [rec])
  else let '(r, t, l) := tloop f b R T script (Z.of_nat k + 1) (delay_ns_at k) aend (Some o) in (r, t, rec :: l).

Lemma tloop_first f b R T script last :
  0 < R -> tloop (S f) b R T script 0 (delay_ns_at 0) 0 last = titer f b R T script 0 0.
Proof.
  intros HR. cbn [tloop]. unfold retry_loop_cond, retry_wait_first.
  replace (0 <? R) with true by (symmetry; apply Z.ltb_lt; lia).
  cbn [Z.eqb negb andb]. unfold titer. cbn [Z.to_nat Z.of_nat Z.add]. reflexivity.
Qed.

Lemma tloop_later f b R T script k now last :
  (1 <= k)%nat -> Z.of_nat k < R ->
  tloop (S f) b R T script (Z.of_nat k) (delay_ns_at (Nat.pred k)) now last =
  if ctx_done b (wait_end b now (delay_ns_at (Nat.pred k))) then (TCtx (bc_kind b), wait_end b now (delay_ns_at (Nat.pred k)), [])
  else titer f b R T script k (wait_end b now (delay_ns_at (Nat.pred k))).
Proof.
  intros Hk HR. cbn [tloop]. rewrite (cond_true _ _ HR), wait_first_nat.
  destruct k as [|k']; [lia|]. cbn [andb Nat.pred].
  unfold retry_base_done.
  destruct (ctx_done b (wait_end b now (delay_ns_at k'))); cbn [Z.eqb negb]; [reflexivity|].
  unfold titer. rewrite Nat2Z.id. reflexivity.
Qed.

Lemma tloop_end f b R T script k delay now o :
  R <= Z.of_nat k -> tloop (S f) b R T script (Z.of_nat k) delay now (Some o) = (TFail o, now, []).
Proof. intros HR. cbn [tloop]. rewrite (cond_false _ _ HR). reflexivity. Qed.

Lemma ctx_done_wait b now d :
  ctx_done b (wait_end b now d) = match bc_at b with Some c => c <=? now + Z.max 0 d | None => false end.
Proof.
  unfold ctx_done, wait_end. cbv zeta. destruct (bc_at b) as [c|]; [|reflexivity].
  destruct (c <=? now + Z.max 0 d) eqn:E.
  - apply Z.leb_le. lia.
  - apply Z.leb_gt in E. apply Z.leb_gt. lia.
Qed.
Lemma wait_end_cut b now d c : bc_at b = Some c -> c <= now + Z.max 0 d -> wait_end b now d = Z.max now c.
Proof. intros Hc H. unfold wait_end. cbv zeta. rewrite Hc. replace (c <=? now + Z.max 0 d) with true by (symmetry; apply Z.leb_le; lia). reflexivity. Qed.
Lemma wait_end_full b now d : (match bc_at b with Some c => now + Z.max 0 d < c | None => True end) -> wait_end b now d = now + Z.max 0 d.
Proof.
  intros H. unfold wait_end. cbv zeta. destruct (bc_at b) as [c|]; [|reflexivity].
  replace (c <=? now + Z.max 0 d) with false by (symmetry; apply Z.leb_gt; lia). reflexivity.
Qed.

Lemma nth_skipn_hd {A} k (l : list A) d : nth k l d = hd d (skipn k l).
Proof. revert l. induction k as [|k IH]; intros [|x l]; cbn [nth skipn hd]; try reflexivity. apply IH. Qed.
Lemma skipn_S_tl {A} k (l : list A) : skipn (S k) l = tl (skipn k l).
Proof. revert l. induction k as [|k IH]; intros [|x l]; cbn [skipn tl]; try reflexivity. apply IH. Qed.

(* ------------------------------------------------------------------ loop = chain *)
Lemma spec_chain_S D b T left' k start script :
  spec_chain D b T (S left') k start script =
  let '(o, e) := spec_attempt b T start (hd default_att script) in
  let rec := mkA start e o in
  match o with
  | OSuccess => (TSuccess, e, [rec])
  | _ =>
      if negb (spec_transient o) then (TFail o, e, [rec])
      else match left' with
           | O => (TFail o, e, [rec])
           | S _ =>
               let next := e + Z.max 0 (D k) in
               match bc_at b with
               | Some c => if c <=? next then (TCtx (bc_kind b), Z.max e c, [rec])
                           else let '(r, t, l) := spec_chain D b T left' (S k) next (tl script) in (r, t, rec :: l)
               | None => let '(r, t, l) := spec_chain D b T left' (S k) next (tl script) in (r, t, rec :: l)
               end
           end
  end.
Proof. reflexivity. Qed.

Lemma titer_chain b T script : forall left k wend R,
  Z.of_nat k + Z.of_nat (S left) = R ->
  titer (S left) b R T script k wend = spec_chain delay_ns_at b T (S left) k wend (skipn k script).
Proof.
  induction left as [|left IH]; intros k wend R HR.
  - (* this is the last attempt that may be made *)
    unfold titer. rewrite spec_chain_S, attempt_eq, nth_skipn_hd.
    destruct (spec_attempt b T wend (hd default_att (skipn k script))) as [o e]. cbv zeta.
    unfold retry_attempt_ok, retry_give_up, retry_is_retryable. rewrite temporary_is_spec.
    destruct o; cbn [err_code Z.eqb]; try reflexivity;
      match goal with |- context [negb (spec_transient ?o)] => destruct (spec_transient o) end; cbn [negb]; try reflexivity;
      replace (Z.of_nat k + 1) with (Z.of_nat (S k)) by lia; rewrite tloop_end by lia; reflexivity.
  - unfold titer. rewrite spec_chain_S, attempt_eq, nth_skipn_hd.
    destruct (spec_attempt b T wend (hd default_att (skipn k script))) as [o e]. cbv zeta.
    unfold retry_attempt_ok, retry_give_up, retry_is_retryable. rewrite temporary_is_spec.
    assert (Hrec : tloop (S (S left)) b R T script (Z.of_nat k + 1) (delay_ns_at k) e (Some o) =
                   match bc_at b with
                   | Some c => if c <=? e + Z.max 0 (delay_ns_at k) then (TCtx (bc_kind b), Z.max e c, [])
                               else spec_chain delay_ns_at b T (S left) (S k) (e + Z.max 0 (delay_ns_at k)) (tl (skipn k script))
                   | None => spec_chain delay_ns_at b T (S left) (S k) (e + Z.max 0 (delay_ns_at k)) (tl (skipn k script))
                   end).
    { replace (Z.of_nat k + 1) with (Z.of_nat (S k)) by lia.
      change (delay_ns_at k) with (delay_ns_at (Nat.pred (S k))) at 1.
      rewrite tloop_later by lia. cbn [Nat.pred]. rewrite ctx_done_wait.
      destruct (bc_at b) as [c|] eqn:Hc.
      - destruct (c <=? e + Z.max 0 (delay_ns_at k)) eqn:E.
        + apply Z.leb_le in E. rewrite (wait_end_cut b e _ c Hc E). reflexivity.
        + apply Z.leb_gt in E. rewrite wait_end_full by (rewrite Hc; lia).
          rewrite IH by lia. rewrite skipn_S_tl. reflexivity.
      - rewrite wait_end_full by (rewrite Hc; exact I).
        rewrite IH by lia. rewrite skipn_S_tl. reflexivity. }
    destruct o; cbn [err_code Z.eqb]; try reflexivity;
      match goal with |- context [negb (spec_transient ?o)] => destruct (spec_transient o) end; cbn [negb]; try reflexivity;
      rewrite Hrec; (destruct (bc_at b) as [cx|]; [destruct (cx <=? e + Z.max 0 (delay_ns_at k))|]); reflexivity.
Qed.

Lemma retries_t_positive r : 1 <= eff_retries_t r.
Proof.
  unfold eff_retries_t, retry_use_default, retry_retries_default.
  destruct (r <=? 0) eqn:H; [lia | apply Z.leb_gt in H; lia].
Qed.

(* the loop is the chain, for every configuration, every script and every base context *)
Lemma timed_is_spec : forall r ts b script,
  do_retry_timed r ts b script = spec_retry delay_ns_at (eff_retries_t r) (eff_timeout ts) b script.
Proof.
  intros r ts b script. unfold do_retry_timed, spec_retry. rewrite shape_ok. cbv zeta.
  pose proof (retries_t_positive r) as Hp.
  destruct (Z.to_nat (eff_retries_t r)) as [|left] eqn:E; [lia|].
  change initial_delay_f32 with (delay_ns_at 0).
  rewrite tloop_first by lia.
  rewrite (titer_chain b (eff_timeout ts) script left 0 0 (eff_retries_t r)) by lia.
  reflexivity.
Qed.

(* ------------------------------------------------------------------ facts about chains (any delay schedule D) *)
Section Chain.
Variable D : nat -> Z.
Variable b : basectx.
Variable T : Z.

Lemma chain_head : forall left k start script,
  exists e o rest, tr_atts (spec_chain D b T (S left) k start script) = mkA start e o :: rest.
Proof.
  intros left k start script. rewrite spec_chain_S.
  destruct (spec_attempt b T start (hd default_att script)) as [o e]. cbv zeta.
  destruct o; try (eexists _, _, _; reflexivity);
    match goal with |- context [negb (spec_transient ?o)] => destruct (spec_transient o) end; cbn [negb];
    try (eexists _, _, _; reflexivity);
    (destruct left as [|left']; [eexists _, _, _; reflexivity|]);
    (destruct (bc_at b) as [cx|];
     [destruct (cx <=? e + Z.max 0 (D k)); [eexists _, _, _; reflexivity|]|]);
    destruct (spec_chain D b T (S left') (S k) (e + Z.max 0 (D k)) (tl script)) as [[r t] l];
    eexists _, _, _; reflexivity.
Qed.

(* a step of the chain, as an inversion principle *)
Definition is_success (o : outcome) : bool := match o with OSuccess => true | _ => false end.
Lemma is_success_true o : is_success o = true <-> o = OSuccess.
Proof. destruct o; cbn; split; intro H; try discriminate; reflexivity. Qed.
Lemma is_success_false o : is_success o = false <-> o <> OSuccess.
Proof. destruct o; cbn; split; intro H; try discriminate; try reflexivity; congruence. Qed.

Lemma spec_chain_S' left' k start script :
  spec_chain D b T (S left') k start script =
  let '(o, e) := spec_attempt b T start (hd default_att script) in
  let rec := mkA start e o in
  if is_success o then (TSuccess, e, [rec])
  else if negb (spec_transient o) then (TFail o, e, [rec])
  else match left' with
       | O => (TFail o, e, [rec])
       | S _ =>
           let next := e + Z.max 0 (D k) in
           if (match bc_at b with Some c => c <=? next | None => false end)
           then (TCtx (bc_kind b), Z.max e (match bc_at b with Some c => c | None => 0 end), [rec])
           else let '(r, t, l) := spec_chain D b T left' (S k) next (tl script) in (r, t, rec :: l)
       end.
Proof.
  rewrite spec_chain_S. destruct (spec_attempt b T start (hd default_att script)) as [o e]. cbv zeta.
  destruct o; cbn [is_success]; try reflexivity;
    (destruct (negb (spec_transient _)); [reflexivity|]); (destruct left'; [reflexivity|]);
    destruct (bc_at b); reflexivity.
Qed.

Lemma chain_step : forall left k start script,
  let o := fst (spec_attempt b T start (hd default_att script)) in
  let e := snd (spec_attempt b T start (hd default_att script)) in
  let rec := mkA start e o in
  let next := e + Z.max 0 (D k) in
  let sub := spec_chain D b T left (S k) next (tl script) in
  (o = OSuccess /\ spec_chain D b T (S left) k start script = (TSuccess, e, [rec])) \/
  (o <> OSuccess /\ spec_transient o = false /\ spec_chain D b T (S left) k start script = (TFail o, e, [rec])) \/
  (o <> OSuccess /\ spec_transient o = true /\ left = O /\ spec_chain D b T (S left) k start script = (TFail o, e, [rec])) \/
  (o <> OSuccess /\ spec_transient o = true /\ left <> O /\ (exists c, bc_at b = Some c /\ c <= next /\
     spec_chain D b T (S left) k start script = (TCtx (bc_kind b), Z.max e c, [rec]))) \/
  (o <> OSuccess /\ spec_transient o = true /\ left <> O /\ (forall c, bc_at b = Some c -> next < c) /\
     spec_chain D b T (S left) k start script = (tr_result sub, tr_end sub, rec :: tr_atts sub)).
Proof.
  intros left k start script. cbv zeta. rewrite spec_chain_S'.
  destruct (spec_attempt b T start (hd default_att script)) as [o e]. cbn [fst snd]. cbv zeta.
  destruct (is_success o) eqn:Hs.
  { left. split; [apply is_success_true; exact Hs | reflexivity]. }
  right. apply is_success_false in Hs.
  destruct (spec_transient o) eqn:Ht; cbn [negb].
  2: { left. repeat split; assumption || reflexivity. }
  right. destruct left as [|left'].
  { left. repeat split; assumption || reflexivity. }
  right. destruct (bc_at b) as [cx|] eqn:Hc.
  - destruct (cx <=? e + Z.max 0 (D k)) eqn:E.
    + left. repeat split; try assumption; try discriminate.
      exists cx. repeat split. apply Z.leb_le. exact E.
    + right. repeat split; try assumption; try discriminate.
      * intros c0 Hc0. injection Hc0 as <-. apply Z.leb_gt. exact E.
      * unfold tr_result, tr_end, tr_atts.
        destruct (spec_chain D b T (S left') (S k) (e + Z.max 0 (D k)) (tl script)) as [[r t] l]. reflexivity.
  - right. repeat split; try assumption; try discriminate.
    unfold tr_result, tr_end, tr_atts.
    destruct (spec_chain D b T (S left') (S k) (e + Z.max 0 (D k)) (tl script)) as [[r t] l]. reflexivity.
Qed.

(* ---------------- consequences, by induction along the chain *)
Ltac chain_cases X :=
  cbv zeta in X;
  destruct X as [[Hs H]|[(Hs & Ht & H)|[(Hs & Ht & Hl & H)|[(Hs & Ht & Hl & cx & Hc & Hle & H)|(Hs & Ht & Hl & Hlt & H)]]]].

Lemma last_out_cons a a' r : last_out (a :: a' :: r) = last_out (a' :: r).
Proof. reflexivity. Qed.
Lemma last_rec_cons a a' r : last_rec (a :: a' :: r) = last_rec (a' :: r).
Proof. reflexivity. Qed.

(* at least one attempt, at most `left` *)
Lemma chain_count : forall left k start script,
  (1 <= length (tr_atts (spec_chain D b T (S left) k start script)) <= S left)%nat.
Proof.
  induction left as [|left IH]; intros k start script;
    [pose proof (chain_step 0 k start script) as H0 | pose proof (chain_step (S left) k start script) as H1].
  - chain_cases H0; try congruence; rewrite H; unfold tr_atts; cbn [snd length]; lia.
  - chain_cases H1; try congruence; rewrite H; unfold tr_atts; cbn [snd length]; try lia.
    fold (tr_atts (spec_chain D b T (S left) (S k) (snd (spec_attempt b T start (hd default_att script)) + Z.max 0 (D k)) (tl script))).
    specialize (IH (S k) (snd (spec_attempt b T start (hd default_att script)) + Z.max 0 (D k)) (tl script)). lia.
Qed.

(* consecutive attempts are separated by exactly the scheduled delays *)
Lemma chain_delays : forall left k start script, chain_ok D k (tr_atts (spec_chain D b T (S left) k start script)).
Proof.
  induction left as [|left IH]; intros k start script;
    [pose proof (chain_step 0 k start script) as H0 | pose proof (chain_step (S left) k start script) as H1].
  - chain_cases H0; try congruence; rewrite H; exact I.
  - chain_cases H1; try congruence; rewrite H; try exact I.
    unfold tr_atts at 1. cbn [snd].
    set (next := snd (spec_attempt b T start (hd default_att script)) + Z.max 0 (D k)).
    destruct (chain_head left (S k) next (tl script)) as (e' & o' & rest & Hh).
    specialize (IH (S k) next (tl script)). fold (tr_atts (spec_chain D b T (S left) (S k) next (tl script))).
    rewrite Hh in *. cbn [chain_ok ar_start ar_end]. split; [reflexivity | exact IH].
Qed.

(* time does not run backwards, and the operation never outlives the caller's context *)
Lemma chain_end_ge : forall left k start script, start <= tr_end (spec_chain D b T (S left) k start script).
Proof.
  induction left as [|left IH]; intros k start script;
    [pose proof (chain_step 0 k start script) as H0 | pose proof (chain_step (S left) k start script) as H1];
    pose proof (spec_attempt_end_ge b T start (hd default_att script)) as Hge.
  - chain_cases H0; try congruence; rewrite H; unfold tr_end; cbn [fst snd]; lia.
  - chain_cases H1; try congruence; rewrite H; unfold tr_end at 1; cbn [fst snd]; try lia.
    specialize (IH (S k) (snd (spec_attempt b T start (hd default_att script)) + Z.max 0 (D k)) (tl script)). lia.
Qed.
Lemma chain_end_le : forall left k start script c, bc_at b = Some c ->
  tr_end (spec_chain D b T (S left) k start script) <= Z.max c start.
Proof.
  induction left as [|left IH]; intros k start script c Hbc;
    [pose proof (chain_step 0 k start script) as H0 | pose proof (chain_step (S left) k start script) as H1];
    pose proof (spec_attempt_end_le b T start (hd default_att script) c Hbc) as Hle0.
  - chain_cases H0; try congruence; rewrite H; unfold tr_end; cbn [fst snd]; lia.
  - chain_cases H1; try congruence; rewrite H; unfold tr_end at 1; cbn [fst snd]; try lia.
    + rewrite Hbc in Hc. injection Hc as <-. lia.
    + specialize (IH (S k) (snd (spec_attempt b T start (hd default_att script)) + Z.max 0 (D k)) (tl script) c Hbc).
      specialize (Hlt c Hbc). lia.
Qed.

(* no attempt other than the unconditional first one starts once the caller's context has ended *)
Lemma chain_starts : forall left k start script c, bc_at b = Some c ->
  Forall (fun a => ar_start a < c) (tl (tr_atts (spec_chain D b T (S left) k start script))).
Proof.
  induction left as [|left IH]; intros k start script c Hbc;
    [pose proof (chain_step 0 k start script) as H0 | pose proof (chain_step (S left) k start script) as H1].
  - chain_cases H0; try congruence; rewrite H; constructor.
  - chain_cases H1; try congruence; rewrite H; try constructor.
    unfold tr_atts at 1. cbn [snd tl].
    set (next := snd (spec_attempt b T start (hd default_att script)) + Z.max 0 (D k)) in *.
    destruct (chain_head left (S k) next (tl script)) as (e' & o' & rest & Hh).
    specialize (IH (S k) next (tl script) c Hbc).
    rewrite Hh in *. cbn [tl] in IH. constructor; [cbn [ar_start]; apply Hlt; exact Hbc | exact IH].
Qed.

(* the answer is the last attempt's, or the caller's context's *)
Lemma chain_result : forall left k start script, result_ok b (spec_chain D b T (S left) k start script).
Proof.
  induction left as [|left IH]; intros k start script;
    [pose proof (chain_step 0 k start script) as H0 | pose proof (chain_step (S left) k start script) as H1].
  - chain_cases H0; try congruence; rewrite H; unfold result_ok, tr_result, tr_atts, tr_end; cbn [fst snd last_rec];
      eexists; repeat split; try reflexivity; assumption.
  - chain_cases H1; try congruence; rewrite H; unfold result_ok; unfold tr_result at 1; unfold tr_atts at 1; unfold tr_end at 1; cbn [fst snd last_rec].
    + eexists; repeat split; try reflexivity; assumption.
    + eexists; repeat split; try reflexivity; assumption.
    + split; [reflexivity|]. split.
      * exists cx. split; [exact Hc | unfold tr_end; cbn [fst snd]; lia].
      * eexists. repeat split; try reflexivity; try assumption. unfold tr_end; cbn [fst snd ar_end]. lia.
    + set (next := snd (spec_attempt b T start (hd default_att script)) + Z.max 0 (D k)) in *.
      destruct (chain_head left (S k) next (tl script)) as (e' & o' & rest & Hh).
      specialize (IH (S k) next (tl script)). unfold result_ok in IH.
      unfold tr_atts at 1 2 3. unfold tr_end at 1 2 3 4 5. cbn [fst snd].
      fold (tr_atts (spec_chain D b T (S left) (S k) next (tl script))).
      fold (tr_end (spec_chain D b T (S left) (S k) next (tl script))).
      rewrite Hh in *. rewrite !last_rec_cons. exact IH.
Qed.

(* every attempt but the last was a transient failure *)
Lemma chain_prefix_transient : forall left k start script,
  Forall (fun a => ar_out a <> OSuccess /\ spec_transient (ar_out a) = true) (removelast (tr_atts (spec_chain D b T (S left) k start script))).
Proof.
  induction left as [|left IH]; intros k start script;
    [pose proof (chain_step 0 k start script) as H0 | pose proof (chain_step (S left) k start script) as H1].
  - chain_cases H0; try congruence; rewrite H; constructor.
  - chain_cases H1; try congruence; rewrite H; try constructor.
    unfold tr_atts at 1. cbn [snd].
    set (next := snd (spec_attempt b T start (hd default_att script)) + Z.max 0 (D k)) in *.
    destruct (chain_head left (S k) next (tl script)) as (e' & o' & rest & Hh).
    specialize (IH (S k) next (tl script)).
    fold (tr_atts (spec_chain D b T (S left) (S k) next (tl script))).
    rewrite Hh in *. change (removelast (?a :: ?x :: ?r)) with (a :: removelast (x :: r)).
    constructor; [cbn [ar_out]; split; assumption | exact IH].
Qed.

(* why the chain stopped where it did *)
Lemma chain_stop_reason : forall left k start script a,
  last_rec (tr_atts (spec_chain D b T (S left) k start script)) = Some a ->
  let n := length (tr_atts (spec_chain D b T (S left) k start script)) in
  ar_out a = OSuccess \/ spec_transient (ar_out a) = false \/ n = S left \/
  (exists c, bc_at b = Some c /\ c <= ar_end a + Z.max 0 (D (k + n - 1))).
Proof.
  induction left as [|left IH]; intros k start script a;
    [pose proof (chain_step 0 k start script) as H0 | pose proof (chain_step (S left) k start script) as H1].
  - chain_cases H0; try congruence; rewrite H; unfold tr_atts; cbn [snd last_rec length]; intros Ha; injection Ha as <-; cbn [ar_out];
      auto.
  - chain_cases H1; try congruence; rewrite H; unfold tr_atts; cbn [snd].
    1-2: cbn [last_rec length]; intros Ha; injection Ha as <-; cbn [ar_out]; auto.
    + cbn [last_rec length]. intros Ha; injection Ha as <-. cbn [ar_out ar_end]. right. right. right. exists cx.
      split; [exact Hc|]. replace (k + 1 - 1)%nat with k by lia. exact Hle.
    + set (next := snd (spec_attempt b T start (hd default_att script)) + Z.max 0 (D k)) in *.
      destruct (chain_head left (S k) next (tl script)) as (e' & o' & rest & Hh).
      specialize (IH (S k) next (tl script) a). unfold tr_atts in *.
      rewrite Hh in *. rewrite last_rec_cons. intros Ha. specialize (IH Ha). cbv zeta in IH.
      cbn [length] in *.
      destruct IH as [IH|[IH|[IH|(c & Hc & IH)]]];
        [left; exact IH | right; left; exact IH | right; right; left; lia |].
      right. right. right. exists c. split; [exact Hc|].
      replace (k + S (S (length rest)) - 1)%nat with (S k + S (length rest) - 1)%nat by lia. exact IH.
Qed.

(* every recorded attempt is the scripted attempt of that index, cut by timeout / context as specified *)
Lemma chain_attempts_faithful : forall left k start script j a,
  nth_error (tr_atts (spec_chain D b T (S left) k start script)) j = Some a ->
  (ar_out a, ar_end a) = spec_attempt b T (ar_start a) (nth j script default_att).
Proof.
  induction left as [|left IH]; intros k start script j a;
    [pose proof (chain_step 0 k start script) as H0 | pose proof (chain_step (S left) k start script) as H1].
  - chain_cases H0; try congruence; rewrite H; unfold tr_atts; cbn [snd]; destruct j as [|[|j]]; cbn [nth_error]; try discriminate;
      intros Ha; injection Ha as <-; cbn [ar_out ar_end ar_start];
      (destruct script; cbn [nth hd]; symmetry; apply surjective_pairing).
  - chain_cases H1; try congruence; rewrite H; unfold tr_atts at 1; cbn [snd].
    1-3: destruct j as [|[|j]]; cbn [nth_error]; try discriminate;
      intros Ha; injection Ha as <-; cbn [ar_out ar_end ar_start];
      (destruct script; cbn [nth hd]; symmetry; apply surjective_pairing).
    destruct j as [|j]; cbn [nth_error].
    + intros Ha; injection Ha as <-; cbn [ar_out ar_end ar_start].
      destruct script; cbn [nth hd]; symmetry; apply surjective_pairing.
    + intros Ha. apply IH in Ha. rewrite Ha. f_equal.
      destruct script as [|x script]; cbn [tl nth]; [destruct j; reflexivity | reflexivity].
Qed.

End Chain.

Set Default Timeout 30.
(* ------------------------------------------------------------------ the same facts about the loop of retry.go *)
Lemma run_unfold r ts b script :
  exists left, Z.to_nat (eff_retries_t r) = S left /\
  do_retry_timed r ts b script = spec_chain delay_ns_at b (eff_timeout ts) (S left) 0 0 script.
Proof.
  pose proof (retries_t_positive r) as Hp.
  destruct (Z.to_nat (eff_retries_t r)) as [|left] eqn:E; [lia|].
  exists left. split; [reflexivity|]. rewrite timed_is_spec. unfold spec_retry. rewrite E. reflexivity.
Qed.

Lemma timed_attempts_bounded : forall r ts b script,
  1 <= zlen (tr_atts (do_retry_timed r ts b script)) <= eff_retries_t r.
Proof.
  intros r ts b script. destruct (run_unfold r ts b script) as (left & Hl & ->).
  pose proof (chain_count delay_ns_at b (eff_timeout ts) left 0 0 script) as H. unfold zlen. lia.
Qed.

Lemma timed_first_attempt : forall r ts b script,
  exists e o rest, tr_atts (do_retry_timed r ts b script) = mkA 0 e o :: rest.
Proof. intros r ts b script. destruct (run_unfold r ts b script) as (left & Hl & ->). apply chain_head. Qed.

Lemma timed_delays_exact : forall r ts b script, chain_ok delay_ns_at 0 (tr_atts (do_retry_timed r ts b script)).
Proof. intros r ts b script. destruct (run_unfold r ts b script) as (left & Hl & ->). apply chain_delays. Qed.

Lemma timed_no_retry_after_cancel : forall r ts b script c, bc_at b = Some c ->
  Forall (fun a => ar_start a < c) (tl (tr_atts (do_retry_timed r ts b script))).
Proof. intros r ts b script c Hc. destruct (run_unfold r ts b script) as (left & Hl & ->). apply chain_starts. exact Hc. Qed.

Lemma timed_no_attempt_after_cancel : forall r ts b script c, bc_at b = Some c -> 0 < c ->
  Forall (fun a => ar_start a < c) (tr_atts (do_retry_timed r ts b script)).
Proof.
  intros r ts b script c Hc Hpos. pose proof (timed_no_retry_after_cancel r ts b script c Hc) as H.
  destruct (timed_first_attempt r ts b script) as (e & o & rest & Hh). rewrite Hh in *. cbn [tl] in H.
  constructor; [cbn [ar_start]; exact Hpos | exact H].
Qed.

Lemma timed_no_attempt_after_cancel_refuted :
  exists r ts b script c a, bc_at b = Some c /\ In a (tr_atts (do_retry_timed r ts b script)) /\ c <= ar_start a.
Proof.
  exists 3, 1, (mkBase (Some 0) KCanceled), [mkAtt OSuccess 5], 0, (mkA 0 0 (OErrClass 2)).
  split; [reflexivity|]. split; [vm_compute; left; reflexivity | cbn; lia].
Qed.

Lemma timed_cancel_prompt : forall r ts b script c, bc_at b = Some c ->
  0 <= tr_end (do_retry_timed r ts b script) <= Z.max c 0.
Proof.
  intros r ts b script c Hc. destruct (run_unfold r ts b script) as (left & Hl & ->). split.
  - apply chain_end_ge.
  - apply chain_end_le. exact Hc.
Qed.

Lemma timed_result_faithful : forall r ts b script, result_ok b (do_retry_timed r ts b script).
Proof. intros r ts b script. destruct (run_unfold r ts b script) as (left & Hl & ->). apply chain_result. Qed.

Lemma timed_prefix_transient : forall r ts b script,
  Forall (fun a => ar_out a <> OSuccess /\ temporary (ar_out a) = true) (removelast (tr_atts (do_retry_timed r ts b script))).
Proof.
  intros r ts b script. destruct (run_unfold r ts b script) as (left & Hl & ->).
  eapply Forall_impl; [|apply chain_prefix_transient]. intros a [H1 H2]. split; [exact H1 | rewrite temporary_is_spec; exact H2].
Qed.

Lemma timed_stop_reason : forall r ts b script a,
  last_rec (tr_atts (do_retry_timed r ts b script)) = Some a ->
  let n := length (tr_atts (do_retry_timed r ts b script)) in
  ar_out a = OSuccess \/ temporary (ar_out a) = false \/ Z.of_nat n = eff_retries_t r \/
  (exists c, bc_at b = Some c /\ c <= ar_end a + Z.max 0 (delay_ns_at (n - 1))).
Proof.
  intros r ts b script a. destruct (run_unfold r ts b script) as (left & Hl & ->). intros Ha.
  pose proof (chain_stop_reason delay_ns_at b (eff_timeout ts) left 0 0 script a Ha) as H. cbv zeta in *.
  rewrite temporary_is_spec. destruct H as [H|[H|[H|H]]]; auto.
  right. right. left. pose proof (retries_t_positive r). lia.
Qed.

Lemma timed_attempts_faithful : forall r ts b script j a,
  nth_error (tr_atts (do_retry_timed r ts b script)) j = Some a ->
  (ar_out a, ar_end a) = spec_attempt b (eff_timeout ts) (ar_start a) (nth j script default_att).
Proof. intros r ts b script j a. destruct (run_unfold r ts b script) as (left & Hl & ->). apply chain_attempts_faithful. Qed.

(* success is reported only if the last attempt succeeded, and a permanent failure is returned as it is, at once *)
Lemma timed_success_only_if : forall r ts b script,
  tr_result (do_retry_timed r ts b script) = TSuccess ->
  exists a, last_rec (tr_atts (do_retry_timed r ts b script)) = Some a /\ ar_out a = OSuccess.
Proof.
  intros r ts b script H. pose proof (timed_result_faithful r ts b script) as R. unfold result_ok in R. rewrite H in R.
  destruct R as (a & H1 & H2 & _). exists a. split; assumption.
Qed.

(* ------------------------------------------------------------------ configuration *)
Lemma eff_timeout_spec ts : eff_timeout ts = if ts =? 0 then 60000000000 else ts * 1000000000.
Proof.
  unfold eff_timeout, retry_timeout_of_conf, retry_timeout_use_default, retry_timeout_default. cbv zeta.
  destruct (ts =? 0) eqn:E.
  - apply Z.eqb_eq in E. subst. reflexivity.
  - apply Z.eqb_neq in E. replace (ts * 1000000000 =? 0) with false by (symmetry; apply Z.eqb_neq; lia). reflexivity.
Qed.
Lemma eff_retries_t_spec r : eff_retries_t r = if r <=? 0 then 5 else r.
Proof. reflexivity. Qed.
Lemma eff_retries_agree r : eff_retries_t r = eff_retries r.
Proof. reflexivity. Qed.

(* a negative timeout in the configuration makes every attempt time out at once: the operation never succeeds *)
Lemma negative_timeout_never_succeeds : forall r ts b script, ts < 0 ->
  tr_result (do_retry_timed r ts b script) <> TSuccess.
Proof.
  intros r ts b script Hneg Hs. destruct (timed_success_only_if r ts b script Hs) as (a & Hl & Ho).
  assert (Hin : exists j, nth_error (tr_atts (do_retry_timed r ts b script)) j = Some a).
  { clear Ho Hs. revert Hl. generalize (tr_atts (do_retry_timed r ts b script)). induction l as [|x [|y l] IH]; cbn [last_rec]; intros H; try discriminate.
    - injection H as <-. exists 0%nat. reflexivity.
    - destruct (IH H) as (j & Hj). exists (S j). exact Hj. }
  destruct Hin as (j & Hj). apply timed_attempts_faithful in Hj. rewrite Ho in Hj.
  unfold spec_attempt in Hj. cbv zeta in Hj. rewrite eff_timeout_spec in Hj.
  replace (ts =? 0) with false in Hj by (symmetry; apply Z.eqb_neq; lia).
  replace (Z.max 0 (ts * 1000000000)) with 0 in Hj by lia.
  replace (Z.max 0 (at_dur (nth j script default_att)) <? 0) with false in Hj by (symmetry; apply Z.ltb_ge; lia).
  destruct (bc_at b) as [c|]; [destruct (c <=? _)|]; inversion Hj.
Qed.

(* ------------------------------------------------------------------ the backoff schedule *)
Definition cap_f32 : Z := 30000001024.
Lemma cap_f32_is : retry_delay_cap f32_of_Z = cap_f32.
Proof. vm_compute. reflexivity. Qed.
Lemma cap_fixed : next_delay_ns 30000001024 = 30000001024.
Proof. vm_compute. reflexivity. Qed.
Lemma delay_4 : delay_ns_at 4 = 30000001024.
Proof. vm_compute. reflexivity. Qed.
Lemma delay_S k : delay_ns_at (S k) = next_delay_ns (delay_ns_at k).
Proof. reflexivity. Qed.
Lemma delay_after_4' : forall j, delay_ns_at (S (S (S (S j)))) = 30000001024.
Proof.
  induction j as [|j IH]; [exact delay_4|].
  rewrite delay_S, IH. exact cap_fixed.
Qed.
Lemma delay_after_4 : forall j, delay_ns_at (4 + j) = cap_f32.
Proof. intros j. exact (delay_after_4' j). Qed.
Lemma delay_values : map delay_ns_at (seq 0 6) = [1000000000; 2717999872; 7387523584; 20079288320; 30000001024; 30000001024].
Proof. vm_compute. reflexivity. Qed.

Lemma delay_cases k : (k < 4)%nat \/ exists j, k = (4 + j)%nat.
Proof. destruct (Nat.lt_ge_cases k 4) as [H|H]; [left; exact H | right; exists (k - 4)%nat; lia]. Qed.

Lemma backoff_monotone : forall k, delay_ns_at k <= delay_ns_at (S k).
Proof.
  intros k. destruct (delay_cases k) as [H|(j & ->)].
  - destruct k as [|[|[|[|k]]]]; try lia; vm_compute; discriminate.
  - replace (S (4 + j)) with (4 + S j)%nat by lia. rewrite !delay_after_4. lia.
Qed.
Lemma backoff_bounded : forall k, initial_delay_f32 <= delay_ns_at k <= cap_f32.
Proof.
  intros k. destruct (delay_cases k) as [H|(j & ->)].
  - destruct k as [|[|[|[|k]]]]; try lia; vm_compute; split; discriminate.
  - rewrite delay_after_4. unfold cap_f32. change initial_delay_f32 with (delay_ns_at 0).
    assert (H0 : delay_ns_at 0 = 1000000000) by (vm_compute; reflexivity). rewrite H0. lia.
Qed.

(* capped exponential: within 4096 ns (float32 rounding) of min(cap, d0 * s^k) computed exactly *)
Lemma pow_ratio : forall j, 30 * 1000 ^ Z.of_nat (4 + j) <= scale_factor_milli ^ Z.of_nat (4 + j).
Proof.
  intros j. unfold scale_factor_milli. rewrite Nat2Z.inj_add, !Z.pow_add_r by lia.
  assert (H4 : 30 * 1000 ^ Z.of_nat 4 <= 2718 ^ Z.of_nat 4) by (vm_compute; discriminate).
  assert (Hj : 1000 ^ Z.of_nat j <= 2718 ^ Z.of_nat j) by (apply Z.pow_le_mono_l; lia).
  assert (0 < 1000 ^ Z.of_nat j) by (apply Z.pow_pos_nonneg; lia).
  assert (0 < 1000 ^ Z.of_nat 4) by (vm_compute; reflexivity).
  nia.
Qed.
Lemma spec_delay_capped j : spec_delay (4 + j) = max_delay_ns.
Proof.
  unfold spec_delay. apply Z.min_l. pose proof (pow_ratio j) as H.
  assert (Hp : 0 < 1000 ^ Z.of_nat (4 + j)) by (apply Z.pow_pos_nonneg; lia).
  apply Z.div_le_lower_bound; [exact Hp|]. unfold max_delay_ns, initial_delay_ns. nia.
Qed.
Lemma backoff_capped_exponential : forall k, Z.abs (delay_ns_at k - spec_delay k) <= 4096.
Proof.
  intros k. destruct (delay_cases k) as [H|(j & ->)].
  - destruct k as [|[|[|[|k]]]]; try lia; vm_compute; discriminate.
  - rewrite delay_after_4, spec_delay_capped. unfold cap_f32, max_delay_ns. vm_compute. discriminate.
Qed.
