(* C15/Model.v — retry loop of the worker client (token/worker/retry.go), worker handler gate and error
   classification (cmdline/workercmd/handler.go), key cache (token/tokencache/cache.go). *)
From Relic Require Import Base.Prelude Generated.C15_gen.

(* ------------------------------------------------------------------ per-attempt outcomes *)
Inductive outcome :=
| OSuccess
| OHttp (code : Z)          (* non-200 HTTP reply -> ResponseError *)
| OErrClass (c : Z)         (* transport/client error: 1 syscall error (connection refused), 2 context.Canceled,
                               3 deadline exceeded (timeout), 4 unexpected EOF, 0 anything else (malformed reply, EOF) *)
| OTokErr (retryable : bool) (* worker replied with an error and the Retryable flag *)
| OUsage.                   (* worker replied with a key-usage error *)

Definition temporary (o : outcome) : bool :=
  match o with
  | OSuccess => false
  | OHttp c => status_is_temporary c
  | OErrClass c => existsb (Z.eqb c) temporary_classes
  | OTokErr r => r
  | OUsage => false
  end.

Inductive rresult :=
| RSuccess
| RFail (o : outcome)       (* the error of that attempt, returned unchanged *)
| RCancelled                (* base context's error *)
| RNil                      (* (nil, nil): no attempt was made *)
| ROutOfFuel.

Definition ns_to_ms (n : Z) : Z := n / 1000000.
Definition max_delay_ms : Z := ns_to_ms max_delay_ns.
Definition initial_delay_ms : Z := ns_to_ms initial_delay_ns.
Definition next_delay (d : Z) : Z := Z.min max_delay_ms (d * scale_factor_milli / 1000).
Definition eff_retries (r : Z) : Z := if retry_use_default r then default_retries else r.

(* cancel_wait = k >= 1: the caller's context is cancelled during the wait that precedes attempt k; -1: never *)
Fixpoint retry_loop (fuel : nat) (i retries delay : Z) (script : list outcome) (cancel_wait : Z)
         (last : option outcome) (delays : list Z) : rresult * Z * list Z :=
  match fuel with
  | O => (ROutOfFuel, i, delays)
  | S f =>
      if retry_loop_cond i retries then
        if retry_wait_first i && (cancel_wait =? i) then (RCancelled, i, delays)
        else
          let delays' := if retry_wait_first i then delays ++ [delay] else delays in
          let delay' := if retry_wait_first i then next_delay delay else delay in
          match nth (Z.to_nat i) script OSuccess with
          | OSuccess => (RSuccess, i + 1, delays')
          | o => if retry_give_up (retry_is_retryable (temporary o)) then (RFail o, i + 1, delays')
                 else retry_loop f (i + 1) retries delay' script cancel_wait (Some o) delays'
          end
      else (match last with Some o => RFail o | None => RNil end, i, delays)
  end.

Definition do_retry (conf_retries : Z) (script : list outcome) (cancel_wait : Z) : rresult * Z * list Z :=
  let r := eff_retries conf_retries in
  retry_loop (S (Z.to_nat r)) 0 r initial_delay_ms script cancel_wait None [].

(* ------------------------------------------------------------------ worker handler *)
Inductive herr := HNone | HPkcs11 (fatal : bool) | HNotImpl | HUsage | HOther.
(* (retryable, usage) flags put into the reply *)
Definition handler_flags (e : herr) : bool * bool :=
  match e with
  | HNone => (false, false)
  | HPkcs11 fatal => (fatal, false)
  | HNotImpl => (false, false)
  | HUsage => (false, true)
  | HOther => (true, false)
  end.
(* status, dispatched to the token?, flags *)
Definition handler (cookie_equal : bool) (e : herr) : Z * bool * (bool * bool) :=
  if handler_cookie_bad cookie_equal then (403, false, (false, false))
  else (200, true, handler_flags e).
(* what the client makes of a reply with these flags *)
Definition client_view (e : herr) : outcome :=
  match e with
  | HNone => OSuccess
  | _ => let '(r, u) := handler_flags e in if u then OUsage else OTokErr r
  end.

(* ------------------------------------------------------------------ key cache *)
Record cstate := mkC { c_has : bool; c_expires : Z; c_id : bytes }.
Definition c_empty := mkC false 0 [].
(* want: pinned key id ([] = none); tok: what the underlying token returns if asked now (None = error) *)
Definition cache_get (expiry : Z) (st : cstate) (want : bytes) (now : Z) (tok : option bytes)
  : option bytes * bool * cstate :=
  if cache_entry_live (c_has st) (now <? c_expires st)
     && cache_id_acceptable (zlen want) (bytes_eqb want (c_id st))
  then (Some (c_id st), false, st)
  else match tok with
       | None => (None, true, st)
       | Some k => (Some k, true, if cache_may_store expiry (zlen want) then mkC true (now + expiry) k else st)
       end.
