(* C15/CacheRetry.v — token/tokencache under retries: histories of lookups in which the token may fail.
   The one-lookup function is C15.Model.cache_get (conditions generated from Cache.GetKey); interleavings of concurrent
   lookups are the machine of C14.ModelCache (reused, not duplicated). *)
From Relic Require Import Base.Prelude Generated.C15_gen C15.Model.

(* one lookup of a history: pinned id ([] none), the clock, what the token answers if it is asked (None: it fails) *)
Record cop := mkOp { o_want : bytes; o_now : Z; o_tok : option bytes }.
(* result of one lookup: key id served (None: error), token consulted? *)
Definition cres1 := (option bytes * bool)%type.
Fixpoint cache_hist (expiry : Z) (st : cstate) (ops : list cop) : list cres1 * cstate :=
  match ops with
  | [] => ([], st)
  | o :: r =>
      let '(res, called, st') := cache_get expiry st (o_want o) (o_now o) (o_tok o) in
      let '(rs, st'') := cache_hist expiry st' r in ((res, called) :: rs, st'')
  end.
Definition failed (r : cres1) : bool := match fst r with None => true | Some _ => false end.

(* SPEC: the origin of whatever the cache holds — an un-pinned lookup that the token answered *)
Definition stored_by (expiry : Z) (st : cstate) (o : cop) : Prop :=
  o_want o = [] /\ o_tok o = Some (c_id st) /\ c_expires st = o_now o + expiry.
