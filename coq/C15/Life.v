(* C15/Life.v — the worker process pool of token/worker/worker.go as a state machine: monitor / spawn / removePid / Close
   on the parent side, the children (starting, ready, draining, dead), and the requests that arrive on the shared
   listening socket while workers come and go.

   The listening socket is created by the parent and handed to every child (activatecmd.ListenerSet): it stays open while
   the parent lives, so a connection made while no worker is ready waits in the accept queue ("backlog") until a worker
   accepts it or the client gives up. A worker that dies takes the requests it had accepted with it (the client sees a
   closed or reset connection); a worker that stops gracefully (fatal token error, signal, failed health check: DaemonStopping
   + http.Server.Shutdown) finishes the requests it has accepted and accepts no more.

   Constants, the loop conditions and the statement skeletons of monitor / spawn / Close / removePid are generated. *)
From Relic Require Import Base.Prelude Generated.C15_gen C15.Model C15.Time.

Definition monitor_skeleton_expected : list (Z * Z) :=
  [(0, 1); (0, 2); (0, 3); (1, 4);
   (0, 5);                                       (* for t.ctx.Err() == nil *)
     (1, 6);                                     (*   for t.countWorkers() < target *)
       (2, 7);                                   (*     if err := t.spawn(); err != nil *)
         (3, 8); (4, 9); (4, 10); (5, 11);       (*       select { <-time.After(restartDelay) ; <-t.ctx.Done(): return } *)
     (1, 8); (2, 10); (3, 11);                   (*   select { <-t.ctx.Done(): return *)
       (2, 12); (3, 13);                         (*            pid := <-t.procsExited: removePid *)
       (2, 14); (3, 13)].                        (*            pid := <-t.notify.Stopping(): removePid } *)
Definition spawn_skeleton_expected : list (Z * Z) :=
  [(0, 21); (1, 2); (0, 22); (1, 2); (0, 21); (1, 2); (0, 1); (1, 2); (0, 19);
   (0, 3); (0, 4); (0, 18); (0, 5); (1, 23); (1, 24); (1, 25); (1, 26);      (* go func: Wait; procsExited <- pid; close(exited) *)
   (0, 6); (0, 7); (0, 8);                                                    (* t.procs[pid] = struct{}{} under the mutex *)
   (0, 9); (0, 20); (0, 10);
   (1, 11);                                                                   (* ready *)
   (1, 12); (2, 13); (2, 14);                                                 (* start timeout: Kill, error *)
   (1, 15); (2, 16);                                                          (* exited prematurely: error *)
   (0, 17)].
Definition close_skeleton_expected : list (Z * Z) :=
  [(0, 1); (1, 2); (0, 3); (1, 4); (1, 5); (1, 6); (2, 7); (1, 8); (1, 9); (1, 10); (1, 11); (1, 2)].
Definition removepid_skeleton_expected : list (Z * Z) := [(0, 1); (0, 2); (0, 3)].
Definition life_shape_ok : bool :=
  skel_eqb monitor_skeleton monitor_skeleton_expected && skel_eqb spawn_skeleton spawn_skeleton_expected &&
  skel_eqb close_skeleton close_skeleton_expected && skel_eqb removepid_skeleton removepid_skeleton_expected.

Definition target_workers (has_server : bool) (num_workers : Z) : Z :=
  if monitor_target_configured has_server num_workers then num_workers else 1.

Inductive cstat := CStarting | CReady | CDraining | CDead.
Inductive mpc := MIdle | MSpawning (pid deadline : Z) | MBackoff (until : Z) | MDone.
Inductive fate := FAnswered (pid : Z) | FDropped (pid : Z) (reset : bool) | FTimeout.

Record pool := mkPool {
  l_now : Z;
  l_procs : list Z;               (* t.procs *)
  l_exitq : list Z;               (* t.procsExited *)
  l_stopq : list Z;               (* t.notify.Stopping() *)
  l_child : list (Z * cstat);     (* every process ever started (newest binding first) *)
  l_next : Z;                     (* next pid *)
  l_mon : mpc;                    (* where the monitor goroutine is *)
  l_cancel : bool;                (* t.ctx cancelled (Close) *)
  l_spawns : list (Z * Z);        (* ghost: (time, pid) of every spawn *)
  l_fails : list Z }.             (* ghost: instants at which a spawn failed *)
Record reqs := mkReqs {
  l_seen : list Z;                (* ghost: every request that arrived *)
  l_backlog : list Z;             (* connected, not yet accepted *)
  l_inflight : list (Z * Z);      (* (pid, rid): accepted by that worker, not yet answered *)
  l_done : list (Z * fate) }.
Definition lstate := (pool * reqs)%type.

Fixpoint status (c : list (Z * cstat)) (pid : Z) : cstat :=
  match c with [] => CDead | (p, s) :: r => if p =? pid then s else status r pid end.
Definition alive (s : cstat) : bool := match s with CDead => false | _ => true end.
Definition serving (s : cstat) : bool := match s with CReady | CDraining => true | _ => false end.
Definition zin (x : Z) (l : list Z) : bool := existsb (Z.eqb x) l.
Definition zremove (x : Z) (l : list Z) : list Z := filter (fun y => negb (y =? x)) l.

Definition set_child (p : pool) (pid : Z) (s : cstat) : pool :=
  mkPool (l_now p) (l_procs p) (l_exitq p) (l_stopq p) ((pid, s) :: l_child p) (l_next p) (l_mon p) (l_cancel p) (l_spawns p) (l_fails p).
Definition set_mon (p : pool) (m : mpc) : pool :=
  mkPool (l_now p) (l_procs p) (l_exitq p) (l_stopq p) (l_child p) (l_next p) m (l_cancel p) (l_spawns p) (l_fails p).
(* a spawn that does not reach readiness: the error branch of `if err := t.spawn(); err != nil` *)
Definition spawn_failed (p : pool) : pool :=
  mkPool (l_now p) (l_procs p) (l_exitq p) (l_stopq p) (l_child p) (l_next p) (MBackoff (l_now p + restart_delay_ns)) (l_cancel p)
         (l_spawns p) (l_now p :: l_fails p).
(* the process is gone: cmd.Wait() returns, the pid is sent on procsExited *)
Definition child_dies (p : pool) (pid : Z) : pool :=
  mkPool (l_now p) (l_procs p) (l_exitq p ++ [pid]) (l_stopq p) ((pid, CDead) :: l_child p) (l_next p) (l_mon p) (l_cancel p) (l_spawns p) (l_fails p).
Definition remove_pid (p : pool) (pid : Z) : pool :=
  mkPool (l_now p) (zremove pid (l_procs p)) (l_exitq p) (l_stopq p) (l_child p) (l_next p) (l_mon p) (l_cancel p) (l_spawns p) (l_fails p).

(* requests taken down by a dying worker *)
Definition drop_inflight (q : reqs) (pid : Z) (reset : bool) : reqs :=
  let mine := filter (fun x => fst x =? pid) (l_inflight q) in
  let others := filter (fun x => negb (fst x =? pid)) (l_inflight q) in
  mkReqs (l_seen q) (l_backlog q) others (map (fun x => (snd x, FDropped pid reset)) mine ++ l_done q).

Inductive lev :=
| LTick (d : Z)
| LReady (pid : Z)                (* the child reports readiness *)
| LExit (pid : Z) (reset : bool)  (* the process terminates, for whatever reason; reset: its connections are reset rather than closed *)
| LStopping (pid : Z)             (* the child announces a graceful stop *)
| LMonitor (stop_first : bool)    (* the monitor goroutine runs; which queue its select prefers when both are ready *)
| LClose
| LArrive (rid : Z) | LAccept (pid rid : Z) | LReply (pid rid : Z) | LGiveUp (rid : Z).

Definition monitor_step (target : Z) (p : pool) (stop_first : bool) : pool :=
  match l_mon p with
  | MIdle =>
      if negb (monitor_runs (negb (l_cancel p))) then set_mon p MDone
      else if monitor_needs_worker (zlen (l_procs p)) target then
        let pid := l_next p in
        mkPool (l_now p) (pid :: l_procs p) (l_exitq p) (l_stopq p) ((pid, CStarting) :: l_child p) (pid + 1)
               (MSpawning pid (l_now p + start_timeout_ns)) (l_cancel p) ((l_now p, pid) :: l_spawns p) (l_fails p)
      else
        match l_exitq p, l_stopq p with
        | e :: er, s :: sr =>
            if stop_first
            then remove_pid (mkPool (l_now p) (l_procs p) (l_exitq p) sr (l_child p) (l_next p) (l_mon p) (l_cancel p) (l_spawns p) (l_fails p)) s
            else remove_pid (mkPool (l_now p) (l_procs p) er (l_stopq p) (l_child p) (l_next p) (l_mon p) (l_cancel p) (l_spawns p) (l_fails p)) e
        | e :: er, [] => remove_pid (mkPool (l_now p) (l_procs p) er (l_stopq p) (l_child p) (l_next p) (l_mon p) (l_cancel p) (l_spawns p) (l_fails p)) e
        | [], s :: sr => remove_pid (mkPool (l_now p) (l_procs p) (l_exitq p) sr (l_child p) (l_next p) (l_mon p) (l_cancel p) (l_spawns p) (l_fails p)) s
        | [], [] => p
        end
  | MBackoff _ => if l_cancel p then set_mon p MDone else p
  | MSpawning _ _ => p          (* inside spawn(): waits for ready / exit / the start timeout only *)
  | MDone => p
  end.

Definition lstep (target : Z) (s : lstate) (e : lev) : lstate :=
  let '(p, q) := s in
  if negb life_shape_ok then s else
  match e with
  | LTick d =>
      let now' := l_now p + Z.max 0 d in
      let p1 := mkPool now' (l_procs p) (l_exitq p) (l_stopq p) (l_child p) (l_next p) (l_mon p) (l_cancel p) (l_spawns p) (l_fails p) in
      match l_mon p with
      | MSpawning pid dl => if dl <=? now' then (spawn_failed (child_dies p1 pid), drop_inflight q pid true) else (p1, q)
      | MBackoff u => if u <=? now' then (set_mon p1 MIdle, q) else (p1, q)
      | _ => (p1, q)
      end
  | LReady pid =>
      match status (l_child p) pid, l_mon p with
      | CStarting, MSpawning pid' _ => if pid' =? pid then (set_mon (set_child p pid CReady) MIdle, q) else s
      | _, _ => s
      end
  | LExit pid reset =>
      if alive (status (l_child p) pid) then
        let p1 := child_dies p pid in
        let p2 := match l_mon p with MSpawning pid' _ => if pid' =? pid then spawn_failed p1 else p1 | _ => p1 end in
        (p2, drop_inflight q pid reset)
      else s
  | LStopping pid =>
      match status (l_child p) pid with
      | CReady => (mkPool (l_now p) (l_procs p) (l_exitq p) (l_stopq p ++ [pid]) ((pid, CDraining) :: l_child p) (l_next p) (l_mon p) (l_cancel p)
                          (l_spawns p) (l_fails p), q)
      | _ => s
      end
  | LMonitor b => (monitor_step target p b, q)
  | LClose => (mkPool (l_now p) (l_procs p) (l_exitq p) (l_stopq p) (l_child p) (l_next p) (l_mon p) true (l_spawns p) (l_fails p), q)
  | LArrive rid => if zin rid (l_seen q) then s else (p, mkReqs (rid :: l_seen q) (l_backlog q ++ [rid]) (l_inflight q) (l_done q))
  | LAccept pid rid =>
      match status (l_child p) pid with
      | CReady => if zin rid (l_backlog q) then (p, mkReqs (l_seen q) (zremove rid (l_backlog q)) ((pid, rid) :: l_inflight q) (l_done q)) else s
      | _ => s
      end
  | LReply pid rid =>
      if existsb (fun x => (fst x =? pid) && (snd x =? rid)) (l_inflight q)
      then (p, mkReqs (l_seen q) (l_backlog q) (filter (fun x => negb ((fst x =? pid) && (snd x =? rid))) (l_inflight q)) ((rid, FAnswered pid) :: l_done q))
      else s
  | LGiveUp rid =>
      if zin rid (l_backlog q) then (p, mkReqs (l_seen q) (zremove rid (l_backlog q)) (l_inflight q) ((rid, FTimeout) :: l_done q))
      else if existsb (fun x => snd x =? rid) (l_inflight q)
      then (p, mkReqs (l_seen q) (l_backlog q) (filter (fun x => negb (snd x =? rid)) (l_inflight q)) ((rid, FTimeout) :: l_done q))
      else s
  end.

Definition linit : lstate := (mkPool 0 [] [] [] [] 1 MIdle false [] [], mkReqs [] [] [] []).
Definition lrun (target : Z) (evs : list lev) : lstate := fold_left (lstep target) evs linit.

(* where a request is *)
Definition places (q : reqs) : list Z := l_backlog q ++ map snd (l_inflight q) ++ map fst (l_done q).

(* what the client's attempt sees for a fate that is not an answer (outcome classes of C15.Model) *)
Definition fate_outcome (f : fate) : outcome :=
  match f with
  | FAnswered _ => OSuccess                 (* whatever the worker answered; not a transport failure *)
  | FDropped _ true => OErrClass 1          (* connection reset: *os.SyscallError *)
  | FDropped _ false => OErrClass 0         (* connection closed: io.EOF, which httperror.Temporary does not list *)
  | FTimeout => OErrClass 3                 (* the per-attempt timeout *)
  end.
