(* C15/Run.v — model evaluation for harness cases.
   retry:   [0 conf_retries [outcomes] cancel_wait]  ->  [result_code result_arg attempts [delays]]
   handler: [1 cookie_equal herr]                   ->  [status dispatched retryable usage [client view]]
   cache:   [2 expiry [ [want now tok_ok tok_id] ...]] -> [ [ok id called] ... ]
   outcome encoding: [0] success, [1 code] http, [2 class] error class, [3 retryable] token error, [4] usage *)
From Relic Require Import Base.Prelude Base.Val Generated.C15_gen C15.Model.

Definition voutcome (v : val) : outcome :=
  let k := vz (vnth 0 v) in
  if k =? 0 then OSuccess else if k =? 1 then OHttp (vz (vnth 1 v)) else if k =? 2 then OErrClass (vz (vnth 1 v))
  else if k =? 3 then OTokErr (vbool (vnth 1 v)) else OUsage.
Definition out_outcome (o : outcome) : list val :=
  match o with
  | OSuccess => [VZ 0; VZ 0] | OHttp c => [VZ 1; VZ c] | OErrClass c => [VZ 2; VZ c]
  | OTokErr r => [VZ 3; of_bool r] | OUsage => [VZ 4; VZ 0] end.
Definition vherr (v : val) : herr :=
  let k := vz v in
  if k =? 0 then HNone else if k =? 1 then HPkcs11 true else if k =? 2 then HPkcs11 false
  else if k =? 3 then HNotImpl else if k =? 4 then HUsage else HOther.

Fixpoint cache_run (expiry : Z) (st : cstate) (ops : list val) : list val :=
  match ops with
  | [] => []
  | v :: r =>
      let want := vb (vnth 0 v) in
      let now := vz (vnth 1 v) in
      let tok := if vbool (vnth 2 v) then Some (vb (vnth 3 v)) else None in
      let '(res, called, st') := cache_get expiry st want now tok in
      VL [of_bool (match res with Some _ => true | None => false end);
          VB (match res with Some k => k | None => [] end); of_bool called]
      :: cache_run expiry st' r
  end.

Definition run (v : val) : val :=
  let k := vz (vnth 0 v) in
  if k =? 0 then
    let '(res, attempts, delays) := do_retry (vz (vnth 1 v)) (map voutcome (vl (vnth 2 v))) (vz (vnth 3 v)) in
    match res with
    | RSuccess => VL [VZ 0; VL []; VZ attempts; VZs delays]
    | RFail o => VL [VZ 1; VL (out_outcome o); VZ attempts; VZs delays]
    | RCancelled => VL [VZ 2; VL []; VZ attempts; VZs delays]
    | RNil => VL [VZ 3; VL []; VZ attempts; VZs delays]
    | ROutOfFuel => VL [VZ 9; VL []; VZ attempts; VZs delays]
    end
  else if k =? 1 then
    let '(status, disp, (r, u)) := handler (vbool (vnth 1 v)) (vherr (vnth 2 v)) in
    VL [VZ status; of_bool disp; of_bool r; of_bool u; VL (out_outcome (client_view (vherr (vnth 2 v))))]
  else VL (cache_run (vz (vnth 1 v)) c_empty (vl (vnth 2 v))).
