(* C15/Run.v — model evaluation for harness cases.
   retry:   [0 conf_retries [outcomes] cancel_wait]  ->  [result_code result_arg attempts [delays]]
   handler: [1 cookie_equal herr]                   ->  [status dispatched retryable usage [client view]]
   cache:   [2 expiry [ [want now tok_ok tok_id] ...]] -> [ [ok id called] ... ]
   outcome encoding: [0] success, [1 code] http, [2 class] error class, [3 retryable] token error, [4] usage *)
From Relic Require Import Base.Prelude Base.Val Generated.C15_gen C15.Model C15.Time C15.Rpc C15.Life.

Definition voutcome (v : val) : outcome :=
  let k := vz (vnth 0 v) in
  if k =? 0 then OSuccess else if k =? 1 then OHttp (vz (vnth 1 v)) else if k =? 2 then OErrClass (vz (vnth 1 v))
  else if k =? 3 then OTokErr (vbool (vnth 1 v)) else OUsage.
Definition out_outcome (o : outcome) : list val :=
  match o with
  | OSuccess => [VZ 0; VZ 0] | OHttp c => [VZ 1; VZ c] | OErrClass c => [VZ 2; VZ c]
  | OTokErr r => [VZ 3; of_bool r] | OUsage => [VZ 4; VZ 0] end.
Definition vherr (v : val) : herr :=
  let k := vz v in
  if k =? 0 then HNone else if k =? 1 then HPkcs11 true else if k =? 2 then HPkcs11 false
  else if k =? 3 then HNotImpl else if k =? 4 then HUsage else HOther.

Fixpoint cache_run (expiry : Z) (st : cstate) (ops : list val) : list val :=
  match ops with
  | [] => []
  | v :: r =>
      let want := vb (vnth 0 v) in
      let now := vz (vnth 1 v) in
      let tok := if vbool (vnth 2 v) then Some (vb (vnth 3 v)) else None in
      let '(res, called, st') := cache_get expiry st want now tok in
      VL [of_bool (match res with Some _ => true | None => false end);
          VB (match res with Some k => k | None => [] end); of_bool called]
      :: cache_run expiry st' r
  end.

(* ---- timed retry: [3 conf_retries conf_timeout_s [ctx_at(-1 never) kind(0 cancel,1 deadline)] [[outcome dur_ns] ...]]
        -> [result_code result_arg end_ns [[start end outcome] ...]] ; result_code 0 success, 1 error, 2 context, 3 nil, 9 fuel *)
Definition vatt (v : val) : att := mkAtt (voutcome (vnth 0 v)) (vz (vnth 1 v)).
Definition vbase (v : val) : basectx :=
  mkBase (if vz (vnth 0 v) <? 0 then None else Some (vz (vnth 0 v))) (if vz (vnth 1 v) =? 0 then KCanceled else KDeadline).
Definition out_arec (a : arec) : val := VL [VZ (ar_start a); VZ (ar_end a); VL (out_outcome (ar_out a))].
Definition run_timed (v : val) : val :=
  let '(res, t, atts) := do_retry_timed (vz (vnth 1 v)) (vz (vnth 2 v)) (vbase (vnth 3 v)) (map vatt (vl (vnth 4 v))) in
  let '(code, arg) := match res with
                      | TSuccess => (0, VL []) | TFail o => (1, VL (out_outcome o))
                      | TCtx k => (2, VL [VZ (ctx_class k)]) | TNil => (3, VL []) | TOutOfFuel => (9, VL []) end in
  VL [VZ code; arg; VZ t; VL (map out_arec atts)].

(* ---- one RPC exchange: [4 cookie_ok path [keyname keyid_present keyid digest hash salt(-1 none)] [ping getkey sign] body_ok]
        token answers: [0 ...values] success, [1 terr] failure; terr: [1 fatal msg] [2 msg] [3 key msg] [4 pre inner] [5 msg]
        -> [cres calls status retryable usage] *)
Fixpoint vterr (fuel : nat) (v : val) : terr :=
  match fuel with
  | O => EOther []
  | S f =>
      let k := vz (vnth 0 v) in
      if k =? 1 then EPkcs11 (vbool (vnth 1 v)) (vb (vnth 2 v))
      else if k =? 2 then ENotImpl (vb (vnth 1 v))
      else if k =? 3 then EUsage (vb (vnth 1 v)) (vb (vnth 2 v))
      else if k =? 4 then EWrapped (vb (vnth 1 v)) (vterr f (vnth 2 v))
      else EOther (vb (vnth 1 v))
  end.
Definition vtok (v : val) : tokfn :=
  let pg := vnth 0 v in let gk := vnth 1 v in let sg := vnth 2 v in
  mkTok (if vz (vnth 0 pg) =? 0 then None else Some (vterr 5 (vnth 1 pg)))
        (fun _ _ => if vz (vnth 0 gk) =? 0 then inr (mkKI (vb (vnth 1 gk)) (vb (vnth 2 gk)) (vb (vnth 3 gk))) else inl (vterr 5 (vnth 1 gk)))
        (fun _ _ _ _ => if vz (vnth 0 sg) =? 0 then inr (vb (vnth 1 sg)) else inl (vterr 5 (vnth 1 sg))).
Definition vreq (v : val) : rreq :=
  mkReq (vb (vnth 0 v)) (if vbool (vnth 1 v) then Some (vb (vnth 2 v)) else None) (vb (vnth 3 v)) (vz (vnth 4 v))
        (if vz (vnth 5 v) <? 0 then None else Some (vz (vnth 5 v))).
Definition out_cres (c : cres) : val :=
  match c with
  | CSuccess r => VL [VZ 0; VB (p_value r); VB (p_id r); VB (p_cert r)]
  | CUsage k m => VL [VZ 1; VB k; VB m]
  | CTokErr m r => VL [VZ 2; VB m; of_bool r]
  | CHttpErr code => VL [VZ 3; VZ code]
  | CMalformed => VL [VZ 4]
  end.
Definition out_call (c : tcall) : val :=
  match c with
  | TPing => VL [VZ 1]
  | TGetKey n p => VL [VZ 2; VB n; VB p]
  | TSign n p d h s => VL [VZ 3; VB n; VB p; VB d; VZ h; VZ (match s with Some x => x | None => -1 end)]
  end.
Definition run_rpc (v : val) : val :=
  let tok := vtok (vnth 4 v) in
  let rr := decode_req (encode_req (vreq (vnth 3 v))) in
  let '(status, body, calls) := serve tok (mkSReq (vbool (vnth 1 v)) (if vbool (vnth 5 v) then Some rr else None) (vb (vnth 2 v))) in
  let c := client_once status (option_map encode_resp body) in
  VL [out_cres c; VL (map out_call calls); VZ status;
      of_bool (match body with Some r => p_retryable r | None => false end);
      of_bool (match body with Some r => p_usage r | None => false end);
      VL (out_outcome (to_outcome c))].

(* ---- worker pool: [6 target [event ...]] ; events [0 d] tick, [1 pid] ready, [2 pid reset] exit, [3 pid] stopping, [4 b] monitor,
        [5] close, [6 rid] arrive, [7 pid rid] accept, [8 pid rid] reply, [9 rid] give up
        -> [[rid fate pid] ...] (fate 0 answered, 1 dropped/reset, 2 dropped/closed, 3 timeout) [procs] nspawns nfails monitor_pc backlog *)
Definition vlev (v : val) : lev :=
  let k := vz (vnth 0 v) in
  if k =? 0 then LTick (vz (vnth 1 v)) else if k =? 1 then LReady (vz (vnth 1 v))
  else if k =? 2 then LExit (vz (vnth 1 v)) (vbool (vnth 2 v)) else if k =? 3 then LStopping (vz (vnth 1 v))
  else if k =? 4 then LMonitor (vbool (vnth 1 v)) else if k =? 5 then LClose
  else if k =? 6 then LArrive (vz (vnth 1 v)) else if k =? 7 then LAccept (vz (vnth 1 v)) (vz (vnth 2 v))
  else if k =? 8 then LReply (vz (vnth 1 v)) (vz (vnth 2 v)) else LGiveUp (vz (vnth 1 v)).
Definition out_fate (x : Z * fate) : val :=
  match snd x with
  | FAnswered pid => VL [VZ (fst x); VZ 0; VZ pid]
  | FDropped pid true => VL [VZ (fst x); VZ 1; VZ pid]
  | FDropped pid false => VL [VZ (fst x); VZ 2; VZ pid]
  | FTimeout => VL [VZ (fst x); VZ 3; VZ 0]
  end.
Definition run_life (v : val) : val :=
  let '(p, q) := lrun (vz (vnth 1 v)) (map vlev (vl (vnth 2 v))) in
  VL [VL (map out_fate (rev (l_done q))); VZs (l_procs p); VZ (zlen (l_spawns p)); VZ (zlen (l_fails p));
      VZ (match l_mon p with MIdle => 0 | MSpawning _ _ => 1 | MBackoff _ => 2 | MDone => 3 end); VZs (l_backlog q);
      VZs (map snd (l_inflight q))].

Definition run (v : val) : val :=
  let k := vz (vnth 0 v) in
  if k =? 0 then
    let '(res, attempts, delays) := do_retry (vz (vnth 1 v)) (map voutcome (vl (vnth 2 v))) (vz (vnth 3 v)) in
    match res with
    | RSuccess => VL [VZ 0; VL []; VZ attempts; VZs delays]
    | RFail o => VL [VZ 1; VL (out_outcome o); VZ attempts; VZs delays]
    | RCancelled => VL [VZ 2; VL []; VZ attempts; VZs delays]
    | RNil => VL [VZ 3; VL []; VZ attempts; VZs delays]
    | ROutOfFuel => VL [VZ 9; VL []; VZ attempts; VZs delays]
    end
  else if k =? 1 then
    let '(status, disp, (r, u)) := handler (vbool (vnth 1 v)) (vherr (vnth 2 v)) in
    VL [VZ status; of_bool disp; of_bool r; of_bool u; VL (out_outcome (client_view (vherr (vnth 2 v))))]
  else if k =? 2 then VL (cache_run (vz (vnth 1 v)) c_empty (vl (vnth 2 v)))
  else if k =? 3 then run_timed v
  else if k =? 4 then run_rpc v
  else if k =? 6 then run_life v
  else VL [].
