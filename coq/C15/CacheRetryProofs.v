(* C15/CacheRetryProofs.v — a failed attempt does not poison the cache. *)
From Relic Require Import Base.Prelude Generated.C15_gen C15.Model C15.Proofs C15.CacheRetry.

(* a lookup that returns an error leaves the cache exactly as it was *)
Lemma cache_failure_changes_nothing : forall expiry st want now tok called st',
  cache_get expiry st want now tok = (None, called, st') -> st' = st /\ called = true /\ tok = None.
Proof.
  intros expiry st want now tok called st' H. unfold cache_get in H.
  destruct (cache_entry_live (c_has st) (now <? c_expires st) && cache_id_acceptable (zlen want) (bytes_eqb want (c_id st))); [discriminate|].
  destruct tok as [k|]; [discriminate|]. inversion H. auto.
Qed.

(* where an answer comes from: the live, acceptable entry — or the token, asked now *)
Lemma cache_answer_origin : forall expiry st want now tok k called st',
  cache_get expiry st want now tok = (Some k, called, st') ->
  (called = false /\ k = c_id st /\ c_has st = true /\ now < c_expires st /\ (want = [] \/ want = k) /\ st' = st) \/
  (called = true /\ tok = Some k).
Proof.
  intros expiry st want now tok k called st' H. unfold cache_get in H.
  destruct (cache_entry_live (c_has st) (now <? c_expires st) && cache_id_acceptable (zlen want) (bytes_eqb want (c_id st))) eqn:Hit.
  - inversion H; subst. left. apply andb_true_iff in Hit as [Hl Ha]. unfold cache_entry_live in Hl. apply andb_true_iff in Hl as [Hh Hf].
    apply Z.ltb_lt in Hf. unfold cache_id_acceptable in Ha. apply orb_true_iff in Ha.
    repeat split; try assumption.
    destruct Ha as [Ha|Ha].
    + left. apply Z.eqb_eq in Ha. destruct want; [reflexivity|]. rewrite zlen_cons in Ha. pose proof (zlen_nonneg want). lia.
    + right. apply list_eqb_Z_eq in Ha. exact Ha.
  - destruct tok as [k0|]; [|discriminate]. inversion H; subst. right. split; reflexivity.
Qed.

(* removing the failed lookups from a history changes neither the other answers nor the final cache *)
Fixpoint drop_failed (expiry : Z) (st : cstate) (ops : list cop) : list cop :=
  match ops with
  | [] => []
  | o :: r =>
      let '(res, called, st') := cache_get expiry st (o_want o) (o_now o) (o_tok o) in
      match res with None => drop_failed expiry st' r | Some _ => o :: drop_failed expiry st' r end
  end.
Lemma cache_retry_transparent : forall expiry ops st,
  cache_hist expiry st (drop_failed expiry st ops) =
  (filter (fun r => negb (failed r)) (fst (cache_hist expiry st ops)), snd (cache_hist expiry st ops)).
Proof.
  induction ops as [|o r IH]; intros st; [reflexivity|].
  cbn [drop_failed cache_hist].
  destruct (cache_get expiry st (o_want o) (o_now o) (o_tok o)) as [[res called] st'] eqn:E.
  destruct res as [k|].
  - cbn [cache_hist]. rewrite E. rewrite IH.
    destruct (cache_hist expiry st' r) as [rs st'']. cbn [fst snd filter failed negb]. reflexivity.
  - apply cache_failure_changes_nothing in E as (-> & _ & _). rewrite IH.
    destruct (cache_hist expiry st r) as [rs st'']. cbn [fst snd filter failed negb]. reflexivity.
Qed.

(* whatever the cache holds was stored by an un-pinned lookup that the token answered, for `expiry` from then *)
Lemma cache_only_holds_answers : forall expiry ops st,
  (c_has st = true -> exists o, stored_by expiry st o) ->
  let st' := snd (cache_hist expiry st ops) in
  c_has st' = true -> (exists o, In o ops /\ stored_by expiry st' o) \/ st' = st.
Proof.
  induction ops as [|o r IH]; intros st Hst; cbn [cache_hist]; [cbn; auto|].
  destruct (cache_get expiry st (o_want o) (o_now o) (o_tok o)) as [[res called] st1] eqn:E.
  destruct (cache_hist expiry st1 r) as [rs st2] eqn:E2. cbn [snd]. intros Hhas.
  assert (Hstep : st1 = st \/ stored_by expiry st1 o).
  { unfold cache_get in E.
    destruct (cache_entry_live (c_has st) (o_now o <? c_expires st) && cache_id_acceptable (zlen (o_want o)) (bytes_eqb (o_want o) (c_id st))).
    { inversion E. auto. }
    destruct (o_tok o) as [k|] eqn:Ek; [|inversion E; auto].
    unfold cache_may_store in E. destruct ((expiry >? 0) && (zlen (o_want o) =? 0)) eqn:Es; inversion E; subst; auto.
    right. apply andb_true_iff in Es as [_ Hw]. apply Z.eqb_eq in Hw.
    unfold stored_by. cbn [c_id c_expires]. split; [|split; [exact Ek | reflexivity]].
    destruct (o_want o) as [|x w]; [reflexivity|]. rewrite zlen_cons in Hw. pose proof (zlen_nonneg w). lia. }
  specialize (IH st1). rewrite E2 in IH. cbn [snd] in IH.
  destruct Hstep as [->|Hs].
  - destruct (IH Hst Hhas) as [(o' & Hin & Hs')| -> ]; [left; exists o'; split; [right; exact Hin | exact Hs'] | right; reflexivity].
  - destruct (IH (fun _ => ex_intro _ o Hs) Hhas) as [(o' & Hin & Hs')| -> ].
    + left. exists o'. split; [right; exact Hin | exact Hs'].
    + left. exists o. split; [left; reflexivity | exact Hs].
Qed.
Lemma cache_only_holds_answers_from_empty : forall expiry ops,
  let st' := snd (cache_hist expiry c_empty ops) in
  c_has st' = true -> exists o, In o ops /\ stored_by expiry st' o.
Proof.
  intros expiry ops st' Hhas.
  destruct (cache_only_holds_answers expiry ops c_empty (fun H => ltac:(discriminate H)) Hhas) as [H|H]; [exact H|].
  unfold st' in Hhas. rewrite H in Hhas. discriminate.
Qed.

